#!/bin/bash
# run every registered check once (tier from $1, default quick); prints one summary line per property
tier=${1:-quick}
cd "$(dirname "$0")"
for p in C01 C02 C03 C04 C05 C06 C07 C08 C09 C10 C11 C12 C13 C14 C15 C16 C17 C18 C19; do
  /venv/bin/python harness/check.py --property $p --tier $tier 2>&1 | grep -E "^(PASS|FAIL|VIOLATION|INFRA)" | cut -c1-220
done
