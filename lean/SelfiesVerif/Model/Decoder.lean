/-
  selfies/decoder.py: `decoder`, `_tokenize_selfies`, `_derive_mol_from_symbols`,
  `_read_index_from_selfies`, `_form_rings_bilocally`; the three grammar state functions of
  selfies/grammar_rules.py over `Nat` (tied to the translated `Gen.*` versions in
  Proofs/GenEq.lean).
-/
import SelfiesVerif.Model.Mol
import SelfiesVerif.Model.Tokenize

namespace SV

/-! ### grammar state functions -/

/-- `next_atom_state(bond_order, bond_cap, state)` -/
def nextAtomState (bondOrder cap state : Nat) : Nat × Option Nat :=
  let bo := if state = 0 then 0 else bondOrder
  let bo := min (min bo state) cap
  let left := cap - bo
  (bo, if left = 0 then none else some left)

/-- `next_branch_state(branch_type, state)` -/
def nextBranchState (btype state : Nat) : Py (Nat × Nat) :=
  if 1 ≤ btype ∧ btype ≤ 3 then
    if state > 1 then
      let b := min (state - 1) btype
      .ok (b, state - b)
    else .error .AssertionError
  else .error .AssertionError

/-- `next_ring_state(ring_type, state)` -/
def nextRingState (rtype state : Nat) : Py (Nat × Option Nat) :=
  if state > 0 then
    let bo := min rtype state
    let left := state - bo
    .ok (bo, if left = 0 then none else some left)
  else .error .AssertionError

/-! ### the token stream  (`enumerate(_tokenize_selfies(s, compatible))`) -/

structure Stream where
  toks : List (Nat × Str)
  /-- after the listed tokens the generator raises (hanging bracket) instead of stopping -/
  hanging : Bool
  deriving Repr, Inhabited

/-- the fragment's tokens with `[nop]` removed, numbered by `enumerate` -/
def tokenizeFragment (s : Str) : Stream :=
  let (items, bad) := splitSelfies s
  let items := items.filter (· != "[nop]".toList)
  { toks := (List.range items.length).zip items, hanging := bad }

/-- `next(symbol_iter)`: `none` = `StopIteration`.  `modernize_symbol` is applied when the token
    is pulled; a `ValueError` inside the generator is re-raised as `DecoderError`. -/
def Stream.next (compat : Bool) (s : Stream) : Py (Option ((Nat × Str) × Stream)) :=
  match s.toks with
  | [] => if s.hanging then .error .DecoderError else .ok none
  | (i, sym) :: rest =>
    if compat then
      match modernizeSymbol sym with
      | .ok sym' => .ok (some ((i, sym'), { s with toks := rest }))
      | .error .ValueError => .error .DecoderError
      | .error e => .error e
    else .ok (some ((i, sym), { s with toks := rest }))

/-- `_read_index_from_selfies(symbol_iter, n)`: (Q, symbols actually read, stream) -/
def readIndex (compat : Bool) : Nat → Stream → List (Option Str) → Nat → Py (Nat × Nat × Stream)
  | 0, s, acc, nRead => .ok (getIndexFromSelfies acc, nRead, s)
  | n + 1, s, acc, nRead => do
    match ← s.next compat with
    | some ((_, sym), s') => readIndex compat n s' (acc ++ [some sym]) (nRead + 1)
    | none => readIndex compat n s (acc ++ [none]) nRead

/-- `n_derived < max_derive` (`max_derive = inf` at top level) -/
def underBudget (maxDerive : Option Nat) (n : Nat) : Bool :=
  match maxDerive with
  | some m => n < m
  | none => true

/-- the trailing `while n_derived < max_derive: next(symbol_iter)` loop -/
def consumeRest (compat : Bool) : Nat → Stream → Option Nat → Nat → Py (Stream × Nat)
  | 0, _, _, _ => .error .NonTermination
  | fuel + 1, s, maxDerive, nDerived =>
    if underBudget maxDerive nDerived then do
      match ← s.next compat with
      | some (_, s') => consumeRest compat fuel s' maxDerive (nDerived + 1)
      | none => pure (s, nDerived)
    else pure (s, nDerived)

abbrev RingReq := Nat × Nat × (Nat × (Option Char × Option Char))

structure DState where
  stream : Stream
  mol : Mol
  rings : List RingReq
  deriving Repr, Inhabited

def attrPush (stack : Option (List Attribution)) (i : Nat) (sym : Str) : Option (List Attribution) :=
  stack.map (· ++ [{ index := i, token := sym }])

/--
`_derive_mol_from_symbols`, the `while` loop with its loop variables
(`n_derived`, `state`, `prev_atom`), followed by the consume loop; returns `n_derived`.
`fuel` bounds the number of tokens pulled (callers pass `stream length + 1`).
-/
def deriveLoop (T : Table) (compat : Bool) :
    (fuel : Nat) → (depth : Nat) → DState → (maxDerive : Option Nat) → (nDerived : Nat) →
    (state : Nat) → (prev : Option Nat) → (attrStack : Option (List Attribution)) →
    (attrIndex : Nat) → Py (DState × Nat)
  | 0, _, _, _, _, _, _, _, _ => .error .NonTermination
  | fuel + 1, depth, st, maxDerive, nDerived, state, prev, attrStack, attrIndex =>
    let finish (st : DState) (nDerived : Nat) : Py (DState × Nat) := do
      let (s', n) ← consumeRest compat (st.stream.toks.length + 2) st.stream maxDerive nDerived
      pure ({ st with stream := s' }, n)
    if !underBudget maxDerive nDerived then finish st nDerived
    else do
      match ← st.stream.next compat with
      | none => finish st nDerived
      | some ((index, symbol), stream') =>
        let st := { st with stream := stream' }
        let nDerived := nDerived + 1
        let tag := sliceFromEnd symbol 4 2
        -- Case 1: branch symbol
        if tag == ['c', 'h'] then
          match processBranchSymbol symbol with
          | none => .error .DecoderError
          | some (btype, n) =>
            if state ≤ 1 then
              deriveLoop T compat fuel depth st maxDerive nDerived state prev attrStack attrIndex
            else do
              let (binit, nextState) ← nextBranchState btype state
              let (q, nRead, stream2) ← readIndex compat n st.stream [] 0
              let st := { st with stream := stream2 }
              if depth + 1 ≥ recursionBudget then .error .RecursionError else
              let (st, nb) ← deriveLoop T compat fuel (depth + 1) st (some (q + 1)) 0 binit prev
                  (attrPush attrStack (index + attrIndex) symbol) attrIndex
              let nDerived := nDerived + nRead + nb
              deriveLoop T compat fuel depth st maxDerive nDerived nextState prev attrStack attrIndex
        -- Case 2: ring symbol
        else if tag == ['n', 'g'] then
          match processRingSymbol symbol with
          | none => .error .DecoderError
          | some (rtype, n, stereo) =>
            if state == 0 then
              deriveLoop T compat fuel depth st maxDerive nDerived state prev attrStack attrIndex
            else do
              let (order, nextState) ← nextRingState rtype state
              let (q, nRead, stream2) ← readIndex compat n st.stream [] 0
              let st := { st with stream := stream2 }
              let nDerived := nDerived + nRead
              match prev with
              | none => .error .AttributeError
              | some p =>
                let lidx := p - (q + 1)
                let _ ← getIdx st.mol.atoms lidx
                let st := { st with rings := st.rings ++ [(lidx, p, (order, stereo))] }
                match nextState with
                | none => finish st nDerived
                | some s => deriveLoop T compat fuel depth st maxDerive nDerived s prev attrStack attrIndex
        -- Case 3: [epsilon]
        else if containsSub symbol ['e', 'p', 's'] then
          if state == 0 then
            deriveLoop T compat fuel depth st maxDerive nDerived 0 prev attrStack attrIndex
          else finish st nDerived
        -- Case 4: atom symbol
        else
          match processAtomSymbol T symbol with
          | none => .error .DecoderError
          | some ((bondOrder, stereo), atom) =>
            let cap := (atom.bondingCapacity T).toNat
            let (bo, nextState) := nextAtomState bondOrder cap state
            let attr := attrPush attrStack (index + attrIndex) symbol
            if bo == 0 then
              if state == 0 then
                let (mol, idx) := st.mol.addAtom atom true attr
                let st := { st with mol := mol }
                match nextState with
                | none => finish st nDerived
                | some s => deriveLoop T compat fuel depth st maxDerive nDerived s (some idx) attrStack attrIndex
              else
                -- atom not added (capacity 0); `prev_atom` is the unadded atom, next state is None
                match nextState with
                | none => finish st nDerived
                | some s => deriveLoop T compat fuel depth st maxDerive nDerived s none attrStack attrIndex
            else do
              let (mol, idx) := st.mol.addAtom atom false attr
              match prev with
              | none => .error .AttributeError
              | some p =>
                let mol ← mol.addBond p idx bo stereo attr
                let st := { st with mol := mol }
                match nextState with
                | none => finish st nDerived
                | some s => deriveLoop T compat fuel depth st maxDerive nDerived s (some idx) attrStack attrIndex

/-- `_form_rings_bilocally(mol, rings)` -/
def formRings (T : Table) : List RingReq → Mol → List Nat → Py Mol
  | [], m, _ => .ok m
  | (lidx, ridx, (order, (lst, rst))) :: rest, m, ringsMade =>
    if lidx == ridx then formRings T rest m ringsMade
    else do
      let latom ← getIdx m.atoms lidx
      let ratom ← getIdx m.atoms ridx
      let lcount ← getIdx m.counts lidx
      let rcount ← getIdx m.counts ridx
      let lfree : Int := latom.bondingCapacity T - lcount
      let rfree : Int := ratom.bondingCapacity T - rcount
      if lfree ≤ 0 || rfree ≤ 0 then formRings T rest m ringsMade
      else
        let order := min (min (order : Int) lfree) rfree |>.toNat
        if m.hasBond lidx ridx then do
          let bond ← m.getDirBond lidx ridx
          let newOrder := min (order + bond.order) 3
          let m ← m.updateBondOrder lidx ridx newOrder
          formRings T rest m ringsMade
        else do
          let lp ← getIdx ringsMade lidx
          let rp ← getIdx ringsMade ridx
          let m ← m.addRingBond lidx ridx order lst rst lp rp
          let ringsMade := ringsMade.set lidx (lp + 1)
          let rp' ← getIdx ringsMade ridx
          let ringsMade := ringsMade.set ridx (rp' + 1)
          formRings T rest m ringsMade

/-- the fragment loop of `decoder` -/
def deriveFragments (T : Table) (compat : Bool) (attrib : Bool) :
    List Str → Mol → List RingReq → Nat → Py (Mol × List RingReq)
  | [], m, rings, _ => .ok (m, rings)
  | s :: rest, m, rings, attrIndex => do
    let stream := tokenizeFragment s
    let (st, n) ← deriveLoop T compat (stream.toks.length + 1) 0
      { stream := stream, mol := m, rings := rings } none 0 0 none
      (if attrib then some [] else none) attrIndex
    deriveFragments T compat attrib rest st.mol st.rings (attrIndex + n)

/-- the molecule `decoder` builds, before it is written out -/
def decodeGraph (T : Table) (s : Str) (compat : Bool := false) (attrib : Bool := false) : Py Mol := do
  let (m, rings) ← deriveFragments T compat attrib (splitOnChar '.' s) {} [] 0
  formRings T rings m (List.replicate m.size 0)

/-- `selfies.decoder(s, compatible, attrib)` under table `T` (the warning of
    `compatible=True` is not modelled) -/
def decoderFull (T : Table) (s : Str) (compat : Bool := false) (attrib : Bool := false) :
    Py (Str × List AttributionMap) := do
  let m ← decodeGraph T s compat attrib
  molToSmiles m

def decoder (T : Table) (s : Str) (compat : Bool := false) : Py Str := do
  let r ← decoderFull T s compat false
  pure r.1

end SV
