/-
  selfies/utils/selfies_utils.py: `len_selfies`, `split_selfies`, `get_alphabet_from_selfies`.
-/
import SelfiesVerif.Py

namespace SV

/-- the padding symbol -/
abbrev nopSym : Str := "[nop]".toList

/-- `len_selfies`: `selfies.count("[") + selfies.count(".")` -/
def lenSelfies (s : Str) : Nat := s.count '[' + s.count '.'

/--
The generator `split_selfies`, from a position where a symbol starts.

* `acc = none`  : at `left_idx` (between symbols). `dotOK` says that the character at
  `left_idx` is tested for being `"."` (true right after a symbol was yielded).
  Whatever character comes next otherwise *starts* a symbol (it is not inspected:
  `find("]", left_idx + 1)` searches from the following character).
* `acc = some a`: inside a symbol whose text so far is `a` (non-empty).

Result: the items yielded, and whether the generator then raises `ValueError`
("hanging '['"), which happens lazily, after the items were yielded.
-/
def splitGo : Option Str → Bool → Str → List Str × Bool
  | none, _, [] => ([], false)
  | some _, _, [] => ([], true)
  | none, dotOK, c :: cs =>
    if dotOK && c == '.' then
      let r := splitGo none false cs
      (['.'] :: r.1, r.2)
    else splitGo (some [c]) false cs
  | some acc, _, c :: cs =>
    if c == ']' then
      let r := splitGo none true cs
      ((acc ++ [c]) :: r.1, r.2)
    else splitGo (some (acc ++ [c])) false cs

/-- `split_selfies(s)`: items in order, and whether a `ValueError` follows them -/
def splitSelfies (s : Str) : List Str × Bool :=
  splitGo none false (s.dropWhile (· != '['))

/-- `get_alphabet_from_selfies`: the set is returned as a duplicate-free list in first
    occurrence order (the harness compares sets); `none` = `ValueError` from a malformed string -/
def alphabetFromSelfies (strs : List Str) : Option (List Str) :=
  let rec go : List Str → List Str → Option (List Str)
    | [], acc => some acc
    | s :: rest, acc =>
      let (items, bad) := splitSelfies s
      if bad then none
      else go rest (items.foldl (fun a x => if a.contains x then a else a ++ [x]) acc)
  (go strs []).map fun a => a.filter (· != ['.'])

end SV
