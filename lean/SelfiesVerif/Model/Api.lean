/-
  The two API functions as the library exposes them after the repair of finding F2:

      def decoder(selfies, compatible=False, attribute=False):
          ...
          try:
              return _decode(selfies, compatible, attribute)
          except RecursionError as err:
              raise DecoderError(...) from err

  and the same shape in `encoder` with `EncoderError`.  `decoderFull` / `encoderFull`
  (Model/Decoder.lean, Model/Encoder.lean) model the bodies `_decode` / `_encode`; the wrappers
  below model the `try … except RecursionError` around them.
-/
import SelfiesVerif.Model.Decoder
import SelfiesVerif.Model.Encoder

namespace SV

/-- `try: r  except RecursionError as err: raise e from err` -/
def catchRecursion {α : Type} (e : PyExc) : Py α → Py α
  | .error .RecursionError => .error e
  | r => r

/-- `selfies.decoder(s, compatible, attribute)` -/
def decoderApi (T : Table) (s : Str) (compat : Bool := false) (attrib : Bool := false) :
    Py (Str × List AttributionMap) :=
  catchRecursion .DecoderError (decoderFull T s compat attrib)

/-- `selfies.encoder(smiles, strict, attribute)`; `tape` resolves `set.pop()` in kekulization -/
def encoderApi (T : Table) (smiles : Str) (strict : Bool := true) (attrib : Bool := false)
    (tape : List Nat := []) : Py (Str × List AttributionMap) :=
  catchRecursion .EncoderError (encoderFull T smiles strict attrib tape)

end SV
