/-
  Concurrent translation calls over the shared module-level memo tables
  (abstract, executable model used by property C19).

  ## What is shared between two `selfies.encoder` / `selfies.decoder` calls

  With the constraint table fixed (no concurrent `set_semantic_constraints`), the ONLY objects
  that two translation calls can both reach are memo tables:

  * `grammar_rules._PROCESS_ATOM_CACHE` — a plain `dict`, symbol ↦ `(bond_info, atom_fac)`.
    `process_atom_symbol` does `try: output = CACHE[symbol]` / `except KeyError:` compute
    `_process_atom_selfies_no_cache(symbol)`; if that is `None` return `None` WITHOUT storing,
    otherwise `CACHE[symbol] = output`.  Check-then-insert, no lock.  The cached value is immutable
    (a tuple of a tuple and a `functools.partial`); the `Atom` is created afresh by `atom_fac()`
    in every call, so no `Atom` object is shared.
  * `bond_constraints.get_bonding_capacity` — `functools.lru_cache` (maxsize 128) keyed by
    `(element, charge)`; memoises a pure function of the key *under the fixed table*; an
    exception (`KeyError`, table without `"?"`) is not cached.
  * `mol_graph.Atom.bonding_capacity` — `functools.lru_cache` keyed by the `Atom` object
    (identity hash).  Keys of different calls are different objects (the cache holds strong
    references, so an identity is never reused while cached), the value is a pure function of
    the atom's `element`, `charge`, `h_count` (never mutated after construction) under the fixed table.
  * `bond_constraints.get_semantic_robust_alphabet` — `lru_cache` with the single key `()`;
    not called by `encoder` / `decoder` at all.
  * `_PROCESS_BRANCH_CACHE`, `_PROCESS_RING_CACHE` and the constants are written only at import
    time and only read afterwards.

  Everything else a call touches (`MolecularGraph`, its atoms / bonds / adjacency lists, `rings`,
  `ring_log`, `derived`, the token iterators, attribution lists, the kekulisation matching) is
  created inside the call and reachable only from its frame.  That inventory is NOT proved here:
  the test harness re-derives it from the Python source on every run.

  ## What is assumed and NOT modelled

  * CPython executes each individual `dict.__getitem__`, `dict.__setitem__` and each
    `lru_cache` wrapper lookup / insert atomically (GIL for the dict operations on `str` / tuple
    keys, the internal lock of the C / Python `lru_cache` for its bookkeeping).  Bytecode-level
    or finer interleavings INSIDE one container operation are not modelled; a free-threaded
    interpreter is not modelled.
  * Consequently a call is a program that interacts with other calls only at memo-table
    accesses: it is a tree whose nodes are "look up key `k`" (branching on hit / miss),
    "store `k ↦ v`" and "return `r`"; all the call-local computation is inside the (pure)
    continuations.
  * An `lru_cache` may evict at any moment and reorders its entries on a hit.  Both are modelled
    as *environment events* that may happen between any two thread steps: `evict` removes an
    arbitrary subset of entries (chosen by position), `touch` moves an entry to the
    most-recently-used end.  This over-approximates the real policy (evict the LRU entry on an
    insert into a full cache; move-to-end on a hit), so every real behaviour is covered.
  * Each memo table memoises a PARTIAL pure function `f : K → Option V` of the key
    (`none` = "the computation yields nothing cacheable": `None` for an atom symbol, an exception
    for the capacity) — a total function `g` is the special case `fun k => some (g k)`.
    Several tables are modelled as one table over a sum-typed key.

  No Mathlib; everything is `Type`-monomorphic, structurally recursive and kernel-reducible.
-/
import SelfiesVerif.Model.Config

namespace SV

/-- A call, seen from the shared memo table: finished with result `r`; or wants to look up key
    `k` and continues with what it got (`none` = miss); or wants to store `k ↦ v`. -/
inductive Prog (K V R : Type) : Type
  | ret (r : R)
  | lookup (k : K) (cont : Option V → Prog K V R)
  | store (k : K) (v : V) (cont : Prog K V R)

/-- the shared memo table (insertion ordered, like a `dict` / the LRU list) -/
abbrev Cache (K V : Type) := List (K × V)

namespace Prog
variable {K V R : Type}

/-- Running a call alone against the pure function, with no cache at all: every lookup misses,
    stores are dropped. -/
def runAlone : Prog K V R → R
  | ret r => r
  | lookup _ cont => runAlone (cont none)
  | store _ _ cont => runAlone cont

/-- the result of a finished call -/
def result? : Prog K V R → Option R
  | ret r => some r
  | _ => none

/-- Number of atomic steps the call can need at most, when every hit on key `k` returns `f k`
    (both the hit and the miss branch are followed). -/
def size (f : K → Option V) : Prog K V R → Nat
  | ret _ => 0
  | lookup k cont =>
    1 + max (size f (cont none)) (match f k with | some v => size f (cont (some v)) | none => 0)
  | store _ _ cont => 1 + size f cont

/-- One atomic step of one call against the shared table: a `dict` get / `lru_cache` probe, or a
    `dict` set / `lru_cache` insert.  A finished call stays finished. -/
def step [DecidableEq K] (c : Cache K V) : Prog K V R → Cache K V × Prog K V R
  | ret r => (c, ret r)
  | lookup k cont => (c, cont (SV.lookup k c))
  | store k v cont => (setKey k v c, cont)

end Prog

/-- remove the entries whose position is marked `true` (positions beyond the mask are kept) -/
def evictMask {α : Type} : List Bool → List α → List α
  | _, [] => []
  | [], c => c
  | true :: m, _ :: c => evictMask m c
  | false :: m, x :: c => x :: evictMask m c

/-- move entry `j` to the most-recently-used end (no-op out of range) -/
def touchEntry {α : Type} (j : Nat) (c : List α) : List α :=
  match c[j]? with
  | some x => c.eraseIdx j ++ [x]
  | none => c

/-- A scheduler choice. -/
inductive Event
  /-- thread `i` performs its next atomic step (no-op if there is no such thread or it has finished) -/
  | step (i : Nat)
  /-- the environment drops an arbitrary subset of the entries -/
  | evict (mask : List Bool)
  /-- the environment moves entry `j` to the MRU end -/
  | touch (j : Nat)
  deriving DecidableEq, Repr

def Event.isStep (i : Nat) : Event → Bool
  | .step j => j == i
  | _ => false

section
variable {K V R : Type} [DecidableEq K]

/-- one event against the shared table and the family of running calls -/
def stepEvent (c : Cache K V) (ts : List (Prog K V R)) : Event → Cache K V × List (Prog K V R)
  | .step i =>
    match ts[i]? with
    | none => (c, ts)
    | some p => ((p.step c).1, ts.set i (p.step c).2)
  | .evict m => (evictMask m c, ts)
  | .touch j => (touchEntry j c, ts)

/-- run a whole schedule (any interleaving, any evictions, any length) -/
def runSchedule (c : Cache K V) (ts : List (Prog K V R)) : List Event → Cache K V × List (Prog K V R)
  | [] => (c, ts)
  | e :: es => runSchedule (stepEvent c ts e).1 (stepEvent c ts e).2 es

/-- how often the schedule steps thread `i` -/
def stepsOf (i : Nat) (evs : List Event) : Nat := evs.countP (Event.isStep i)

/-- The memoisation pattern
    `try: v = cache[k]` / `except KeyError: v = f(k); if v is not None: cache[k] = v`,
    continuing with `rest v`. -/
def memoCall (f : K → Option V) (k : K) (rest : Option V → Prog K V R) : Prog K V R :=
  .lookup k fun
    | some v => rest (some v)
    | none =>
      match f k with
      | some v => .store k v (rest (some v))
      | none => rest none

/-- a call performing a whole sequence of memoised lookups (as a decoder call does for its atom
    symbols), continuing with all the values -/
def memoMapM (f : K → Option V) : List K → (List (Option V) → Prog K V R) → Prog K V R
  | [], rest => rest []
  | k :: ks, rest => memoCall f k fun o => memoMapM f ks fun os => rest (o :: os)

end

/-! ### the capacity memo -/

/-- the pure function memoised by the `lru_cache` of `get_bonding_capacity` under table `T`
    (an exception is not cached) -/
def capacityFn (T : Constraints) (k : Str × Int) : Option Nat :=
  match getBondingCapacity T k.1 k.2 with
  | .ok v => some v
  | .error _ => none

/-- `get_bonding_capacity(element, charge)` through its cache as a program; mirrors
    `cachedCapacity`: probe; on a miss compute `getBondingCapacity T` and insert the value. -/
def capacityProg (T : Constraints) (element : Str) (charge : Int) : Prog (Str × Int) Nat (Py Nat) :=
  .lookup (element, charge) fun
    | some v => .ret (.ok v)
    | none =>
      match getBondingCapacity T element charge with
      | .ok v => .store (element, charge) v (.ret (.ok v))
      | .error e => .ret (.error e)

/-- the same inside a larger call: continue with the capacity (or the exception) -/
def capacityCall {R : Type} (T : Constraints) (element : Str) (charge : Int)
    (rest : Py Nat → Prog (Str × Int) Nat R) : Prog (Str × Int) Nat R :=
  .lookup (element, charge) fun
    | some v => rest (.ok v)
    | none =>
      match getBondingCapacity T element charge with
      | .ok v => .store (element, charge) v (rest (.ok v))
      | .error e => rest (.error e)

/-! ### the atom-symbol memo (`_PROCESS_ATOM_CACHE`) -/

/-- what `_PROCESS_ATOM_CACHE` maps a symbol to: `(bond_info, atom_fac)`; the factory is
    represented by the atom it builds -/
abbrev AtomInfo := (Nat × Option Char) × Atom

/-- the contents of `_PROCESS_ATOM_CACHE` right after `import selfies` (`_build_atom_cache`) -/
def atomCacheInit : Cache Str AtomInfo :=
  Gen.atomCachePrefill.map fun (sym, (bi, el, arom, iso, chir, h, chg)) =>
    (sym, (bi, { element := el, isAromatic := arom, isotope := iso, chirality := chir,
                 hCount := h, charge := chg }))

/-- the call-local tail of `process_atom_symbol`: build the atom, reject a negative capacity -/
def atomPost (T : Table) : Option AtomInfo → Option AtomInfo
  | none => none
  | some (bi, a) => if a.bondingCapacity T < 0 then none else some (bi, a)

/-- `process_atom_symbol(sym)` as a program over `_PROCESS_ATOM_CACHE` -/
def processAtomProg (T : Table) (sym : Str) : Prog Str AtomInfo (Option AtomInfo) :=
  memoCall processAtomSelfiesNoCache sym fun o => .ret (atomPost T o)

/-- a call that processes a whole list of atom symbols, one memoised lookup each -/
def processAtomsProg (T : Table) (syms : List Str) : Prog Str AtomInfo (List (Option AtomInfo)) :=
  memoMapM processAtomSelfiesNoCache syms fun os => .ret (os.map (atomPost T))

end SV
