/-
  The molecular graph as the *decoder* builds it (selfies/mol_graph.py `MolecularGraph`,
  integer bond orders, no placeholders, no aromatic atoms) and the SMILES writer
  (selfies/utils/smiles_utils.py `mol_to_smiles`, `bond_to_smiles`).

  `_bond_dict` is not stored: the `DirectedBond` objects are shared between `_bond_dict` and
  `_adj_list`, bonds are never removed, so `(a, b) in _bond_dict` iff `adj[a]` holds a bond to `b`.
-/
import SelfiesVerif.Model.Symbols

namespace SV

structure Attribution where
  index : Nat
  token : Str
  deriving DecidableEq, Repr, Inhabited

structure AttributionMap where
  index : Int
  token : Str
  attribution : Option (List Attribution)
  deriving DecidableEq, Repr, Inhabited

structure DirBond where
  src : Nat
  dst : Nat
  order : Nat
  stereo : Option Char
  ring : Bool
  attr : Option (List Attribution) := none
  deriving DecidableEq, Repr, Inhabited

structure Mol where
  atoms : List Atom := []
  roots : List Nat := []
  adj : List (List DirBond) := []
  counts : List Nat := []
  atomAttr : List (Option (List Attribution)) := []
  deriving Repr, Inhabited

namespace Mol

def size (m : Mol) : Nat := m.atoms.length

/-- `add_atom` followed by `add_attribution(o, attr)`; returns the new atom's index -/
def addAtom (m : Mol) (a : Atom) (markRoot : Bool) (attr : Option (List Attribution)) : Mol × Nat :=
  let idx := m.atoms.length
  ({ atoms := m.atoms ++ [a],
     roots := if markRoot then m.roots ++ [idx] else m.roots,
     adj := m.adj ++ [[]],
     counts := m.counts ++ [0],
     atomAttr := m.atomAttr ++ [attr] }, idx)

/-- `self._bond_counts[i] += d` -/
def addCount (l : List Nat) (i d : Nat) : Py (List Nat) :=
  match l[i]? with
  | some c => .ok (l.set i (c + d))
  | none => .error .IndexError

/-- `self._adj_list[src]` then append -/
def appendOut (adj : List (List DirBond)) (b : DirBond) : Py (List (List DirBond)) :=
  match adj[b.src]? with
  | some out => .ok (adj.set b.src (out ++ [b]))
  | none => .error .IndexError

/-- `add_bond(src, dst, order, stereo)` (+ attribution of the bond object) -/
def addBond (m : Mol) (src dst order : Nat) (stereo : Option Char)
    (attr : Option (List Attribution)) : Py Mol := do
  pyAssert (src < dst)
  let b : DirBond := { src, dst, order, stereo, ring := false, attr }
  let adj ← appendOut m.adj b
  let c ← addCount m.counts src order
  let c ← addCount c dst order
  pure { m with adj := adj, counts := c }

def outBonds (m : Mol) (i : Nat) : Py (List DirBond) := getIdx m.adj i

/-- `has_bond(a, b)` -/
def hasBond (m : Mol) (a b : Nat) : Bool :=
  let lo := min a b
  let hi := max a b
  match m.adj[lo]? with
  | some out => out.any (·.dst == hi)
  | none => false

/-- `get_dirbond(src, dst)`: `_bond_dict[(src, dst)]` -/
def getDirBond (m : Mol) (src dst : Nat) : Py DirBond :=
  match m.adj[src]? with
  | some out =>
    match out.find? (·.dst == dst) with
    | some b => .ok b
    | none => .error .KeyError
  | none => .error .KeyError

/-- set the order of the bond `src → dst` inside `adj[src]` -/
def setOrderAt (adj : List (List DirBond)) (src dst newOrder : Nat) : List (List DirBond) :=
  match adj[src]? with
  | some out => adj.set src (out.map fun b => if b.dst == dst then { b with order := newOrder } else b)
  | none => adj

/-- `update_bond_order(a, b, new_order)` -/
def updateBondOrder (m : Mol) (a b newOrder : Nat) : Py Mol := do
  pyAssert (1 ≤ newOrder && newOrder ≤ 3)
  let lo := min a b
  let hi := max a b
  let ab ← m.getDirBond lo hi
  if newOrder == ab.order then pure m
  else
    let adj := setOrderAt m.adj lo hi newOrder
    let adj ← (if ab.ring then do
                  let _ ← m.getDirBond hi lo
                  pure (setOrderAt adj hi lo newOrder)
                else pure adj)
    -- counts[a] += new - old  (Python ints: may go down)
    let cl ← getIdx m.counts lo
    let c1 := m.counts.set lo (cl + newOrder - ab.order)
    let ch ← getIdx c1 hi
    let c2 := c1.set hi (ch + newOrder - ab.order)
    pure { m with adj := adj, counts := c2 }

/-- `_add_bond_at_loc(bond, pos)` for `pos ≥ 0` on a list without placeholders -/
def addBondAtLoc (adj : List (List DirBond)) (b : DirBond) (pos : Nat) : Py (List (List DirBond)) :=
  match adj[b.src]? with
  | some out =>
    if pos == out.length then .ok (adj.set b.src (out ++ [b]))
    else if pos < out.length then .ok (adj.set b.src (insertAt out pos b))
    else .error .IndexError
  | none => .error .IndexError

/-- `add_ring_bond(a, b, order, a_stereo, b_stereo, a_pos, b_pos)` -/
def addRingBond (m : Mol) (a b order : Nat) (aStereo bStereo : Option Char) (aPos bPos : Nat) : Py Mol := do
  let ab : DirBond := { src := a, dst := b, order, stereo := aStereo, ring := true }
  let ba : DirBond := { src := b, dst := a, order, stereo := bStereo, ring := true }
  let adj ← addBondAtLoc m.adj ab aPos
  let adj ← addBondAtLoc adj ba bPos
  let c ← addCount m.counts a order
  let c ← addCount c b order
  pure { m with adj := adj, counts := c }

end Mol

/-! ### writer -/

/-- `bond_to_smiles` -/
def bondToSmiles (order : Nat) (stereo : Option Char) : Py Str :=
  if order == 1 then
    match stereo with
    | some c => .ok (if Gen.smilesStereoBonds.contains c then [c] else [])
    | none => .ok []
  else if order == 2 then .ok ['=']
  else if order == 3 then .ok ['#']
  else .error .ValueError

structure WFrame where
  curr : Nat
  bondIndex : Nat
  totalBonds : Nat
  needsClosing : Bool
  deriving Repr

structure WState where
  outRev : List Str := []         -- `derived`, reversed
  outLen : Nat := 0               -- `_strlen(derived)`
  ringLog : List ((Nat × Nat) × Nat) := []
  mapsRev : List AttributionMap := []
  deriving Repr

def WState.push (w : WState) (tok : Str) : WState :=
  { w with outRev := tok :: w.outRev, outLen := w.outLen + tok.length }

def WState.pushMap (w : WState) (tok : Str) (attr : Option (List Attribution)) (attrIndex : Nat) : WState :=
  { w with mapsRev := { index := (w.outLen : Int) - 1 + attrIndex, token := tok, attribution := attr } :: w.mapsRev }

/-- the `while stack:` loop of `_derive_smiles_from_fragment` -/
def writeLoop (m : Mol) (attrIndex : Nat) : Nat → List WFrame → WState → Py WState
  | 0, [], w => .ok w
  | 0, _ :: _, _ => .error .NonTermination
  | _ + 1, [], w => .ok w
  | fuel + 1, top :: stack, w => do
    let currAtom ← getIdx m.atoms top.curr
    let w ← (if top.bondIndex == 0 then do
               let tok ← atomToSmiles currAtom
               let w := w.push tok
               pure (w.pushMap tok ((m.atomAttr[top.curr]?).getD none) attrIndex)
             else pure w)
    let out ← m.outBonds top.curr
    if top.bondIndex < top.totalBonds then do
      let bond ← getIdx out top.bondIndex
      let top' := { top with bondIndex := top.bondIndex + 1 }
      if bond.ring then do
        let tok ← bondToSmiles bond.order bond.stereo
        let w := w.push tok
        let w := w.pushMap tok bond.attr attrIndex
        let ends := (min bond.src bond.dst, max bond.src bond.dst)
        let (rnum, log) : Nat × List ((Nat × Nat) × Nat) :=
          match lookup ends w.ringLog with
          | some r => (r, w.ringLog)
          | none => (w.ringLog.length + 1, w.ringLog ++ [(ends, w.ringLog.length + 1)])
        let w := { w with ringLog := log }
        let w := if rnum ≥ 10 then w.push ['%'] else w
        let w := w.push (natToStr rnum)
        writeLoop m attrIndex fuel (top' :: stack) w
      else do
        let notLast := top.bondIndex + 1 < top.totalBonds
        let w := if notLast then w.push ['('] else w
        let tok ← bondToSmiles bond.order bond.stereo
        let w := w.push tok
        let w := w.pushMap tok bond.attr attrIndex
        let dstOut ← m.outBonds bond.dst
        writeLoop m attrIndex fuel
          ({ curr := bond.dst, bondIndex := 0, totalBonds := dstOut.length, needsClosing := notLast }
            :: top' :: stack) w
    else
      let w := if top.needsClosing then w.push [')'] else w
      writeLoop m attrIndex fuel stack w

def Mol.totalOut (m : Mol) : Nat := (m.adj.map List.length).sum

/-- enough fuel for any forest: every iteration either advances a bond index or pops -/
def Mol.writeFuel (m : Mol) : Nat := 2 * (m.totalOut + m.size) + 2

/-- `mol_to_smiles(mol, attribute)`: (SMILES, attribution maps) -/
def molToSmiles (m : Mol) : Py (Str × List AttributionMap) := do
  let rec frags : List Nat → Nat → List ((Nat × Nat) × Nat) → List Str → List AttributionMap →
      Py (List Str × List AttributionMap)
    | [], _, _, acc, maps => pure (acc, maps)
    | root :: rest, attrIndex, log, acc, maps => do
      let out ← m.outBonds root
      let w ← writeLoop m attrIndex m.writeFuel
        [{ curr := root, bondIndex := 0, totalBonds := out.length, needsClosing := false }]
        { ringLog := log }
      let frag : Str := (w.outRev.reverse).flatten
      frags rest (attrIndex + w.outLen + 1) w.ringLog (acc ++ [frag]) (maps ++ w.mapsRev.reverse)
  let (fragments, maps) ← frags m.roots 0 [] [] []
  pure (joinWith ['.'] fragments, maps.filter (fun a => !a.token.isEmpty))

end SV
