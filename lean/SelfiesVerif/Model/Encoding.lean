/-
  selfies/utils/encoding_utils.py: `selfies_to_encoding`, `encoding_to_selfies`,
  `batch_selfies_to_flat_hot`, `batch_flat_hot_to_selfies`.
-/
import SelfiesVerif.Model.Tokenize

namespace SV

/-- the `enc_type` argument: the three legal spellings, or anything else -/
inductive EncType | label | oneHot | both | other
  deriving DecidableEq, Repr, Inhabited

abbrev VocabStoi := List (Str × Int)
abbrev VocabItos := List (Int × Str)

/-- `letter = [0] * n; letter[index] = 1` with Python's negative-index rule -/
def oneHotRow (n : Nat) (index : Int) : Py (List Nat) :=
  if 0 ≤ index ∧ index < n then .ok ((List.replicate n 0).set index.toNat 1)
  else if -(n : Int) ≤ index ∧ index < 0 then .ok ((List.replicate n 0).set (index + n).toNat 1)
  else .error .IndexError

/-- the integer-encoding loop over `split_selfies(selfies)` -/
def labelEncode (vocab : VocabStoi) : List Str → Py (List Int)
  | [] => .ok []
  | item :: rest => do
    if item == ['.'] && (lookup ['.'] vocab).isNone then .error .KeyError
    else
      let v ← getKey vocab item
      let r ← labelEncode vocab rest
      pure (v :: r)

/-- result of `selfies_to_encoding`: label list and/or one-hot matrix -/
structure Encoded where
  label : Option (List Int)
  oneHot : Option (List (List Nat))
  deriving DecidableEq, Repr

/-- `selfies_to_encoding(selfies, vocab_stoi, pad_to_len, enc_type)` -/
def selfiesToEncoding (s : Str) (vocab : VocabStoi) (padToLen : Int) (enc : EncType) : Py Encoded := do
  if enc == .other then .error .ValueError
  else
    let n := lenSelfies s
    let s := if padToLen > n then s ++ (List.replicate (padToLen - n).toNat nopSym).flatten else s
    let (items, hanging) := splitSelfies s
    let labels ← labelEncode vocab items
    if hanging then .error .ValueError
    else if enc == .label then pure { label := some labels, oneHot := none }
    else do
      let rows ← labels.mapM (oneHotRow vocab.length)
      if enc == .oneHot then pure { label := none, oneHot := some rows }
      else pure { label := some labels, oneHot := some rows }

/-- `row.index(1)` -/
def indexOfOne (row : List Int) : Py Int :=
  match row.findIdx? (· == 1) with
  | some i => .ok i
  | none => .error .ValueError

/-- `encoding_to_selfies` for `enc_type="label"` -/
def labelToSelfies (labels : List Int) (vocab : VocabItos) : Py Str := do
  let syms ← labels.mapM (getKey vocab)
  pure syms.flatten

/-- `encoding_to_selfies` for `enc_type="one_hot"` -/
def oneHotToSelfies (rows : List (List Int)) (vocab : VocabItos) : Py Str := do
  let labels ← rows.mapM indexOfOne
  labelToSelfies labels vocab

/-- `encoding_to_selfies(encoding, vocab_itos, enc_type)`: the `enc_type` check comes first; a label
    list is passed for `"label"`, a matrix for `"one_hot"` -/
def encodingToSelfies (labels : List Int) (rows : List (List Int)) (vocab : VocabItos) (enc : EncType) : Py Str :=
  match enc with
  | .label => labelToSelfies labels vocab
  | .oneHot => oneHotToSelfies rows vocab
  | _ => .error .ValueError

/-- `batch_selfies_to_flat_hot` -/
def batchSelfiesToFlatHot (batch : List Str) (vocab : VocabStoi) (padToLen : Int) : Py (List (List Nat)) :=
  batch.mapM fun s => do
    let e ← selfiesToEncoding s vocab padToLen .oneHot
    pure ((e.oneHot.getD []).flatten)

/-- rows `flat[M*i : M*(i+1)]` for `i < L` -/
def unflatten (m : Nat) : Nat → List Int → List (List Int)
  | 0, _ => []
  | l + 1, flat => flat.take m :: unflatten m l (flat.drop m)

/-- `batch_flat_hot_to_selfies` -/
def batchFlatHotToSelfies (batch : List (List Int)) (vocab : VocabItos) : Py (List Str) :=
  batch.mapM fun flat =>
    let m := vocab.length
    if m == 0 then .error .ZeroDivisionError
    else if flat.length % m != 0 then .error .ValueError
    else oneHotToSelfies (unflatten m (flat.length / m) flat) vocab

end SV
