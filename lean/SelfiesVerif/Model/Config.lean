/-
  selfies/bond_constraints.py as a state machine with object identity, plus the three
  memoisation layers (`get_bonding_capacity` lru_cache, `get_semantic_robust_alphabet` lru_cache,
  `_PROCESS_ATOM_CACHE`) and cached translation calls.

  Dict and set objects live in a heap keyed by identity; the library state holds references,
  getters return references to fresh copies (or, for the alphabet, the cached object itself),
  and the caller may mutate any object it holds a reference to.
-/
import SelfiesVerif.Model.Decoder
import SelfiesVerif.Model.Encoder

namespace SV

/-- a Python value used as a capacity in a caller-supplied dict -/
inductive PyVal
  | int (z : Int)
  | bool (b : Bool)
  | other          -- float, str, None, ...
  deriving DecidableEq, Repr, Inhabited

/-- a Python value used as a key -/
inductive PyKey
  | str (s : Str)
  | other          -- int, tuple, None, ...: `key.find` raises AttributeError
  deriving DecidableEq, Repr, Inhabited

abbrev PyDict := List (PyKey × PyVal)

/-- the argument of `set_semantic_constraints` -/
inductive SetArg
  | name (s : Str)
  | dict (ref : Nat)
  | other
  deriving Repr

/-- key grammar: `?`, `E`, `E+C`, `E-C` with `E ∈ ELEMENTS`, `C` matching `[1-9][0-9]*` and
    convertible by `int()` (`_is_convertible`: at most `sys.get_int_max_str_digits()` digits) -/
def validKey (key : Str) : Bool :=
  let fp := findChar '+' key
  let fm := findChar '-' key
  -- j = max(key.find("+"), key.find("-"))  with -1 for "not found"
  let j : Option Nat := match fp, fm with
    | none, none => none
    | some a, none => some a
    | none, some b => some b
    | some a, some b => some (max a b)
  if key == qKey then true
  else match j with
    | none => memStr key Gen.elements
    | some j =>
      memStr (key.take j) Gen.elements &&
        (match key.drop (j + 1) with
         | d :: ds => isDigit19 d && ds.all isAsciiDigit &&
                      decide ((d :: ds).length ≤ Gen.intMaxStrDigits)
         | [] => false)

def PyVal.validCapacity : PyVal → Bool
  | .int z => z ≥ 0
  | .bool _ => true
  | .other => false

def PyVal.toNat : PyVal → Nat
  | .int z => z.toNat
  | .bool b => if b then 1 else 0
  | .other => 0

/-- the validation loop of `set_semantic_constraints` on a dict: the exception it raises, if any -/
def validateDict (d : PyDict) : Option PyExc :=
  if !(d.any fun kv => kv.1 == PyKey.str qKey) then some .ValueError
  else
    let rec go : PyDict → Option PyExc
      | [] => none
      | (k, v) :: rest =>
        match k with
        | .other => some .AttributeError
        | .str s =>
          if !validKey s then some .ValueError
          else if !v.validCapacity then some .ValueError
          else go rest
    go d

/-- `dict(bond_constraints)` of a validated dict, as the library stores it -/
def PyDict.toConstraints (d : PyDict) : Constraints :=
  d.filterMap fun kv => match kv.1 with
    | .str s => some (s, kv.2.toNat)
    | .other => none

/-- `get_semantic_robust_alphabet()` computed from a table (order of insertion into the set;
    the harness compares as sets) -/
def robustAlphabet (T : Constraints) : List Str :=
  let bonds : List (Str × Nat) := [([], 1), (['='], 2), (['#'], 3)]
  let atoms := T.flatMap fun (a, c) => bonds.filterMap fun (b, m) =>
    if m > c || a == qKey then none else some (['['] ++ b ++ a ++ [']'])
  let br := (List.range 3).flatMap fun i =>
    let n := natToStr (i + 1)
    ["[Ring".toList ++ n ++ [']'], "[=Ring".toList ++ n ++ [']'], "[Branch".toList ++ n ++ [']'],
     "[=Branch".toList ++ n ++ [']'], "[#Branch".toList ++ n ++ [']']]
  (atoms ++ br ++ Gen.indexAlphabet).eraseDups

/-! ### state -/

structure CfgState where
  /-- dict objects by identity (library-owned and caller-owned alike) -/
  dicts : List (Nat × PyDict)
  /-- set objects by identity -/
  sets : List (Nat × List Str)
  presets : List (Str × Nat)          -- `_PRESET_CONSTRAINTS`: name ↦ dict object
  current : Nat                        -- `_current_constraints`
  alphaCache : Option Nat              -- lru_cache of the alphabet: the cached set object
  capCache : List ((Str × Int) × Nat)  -- lru_cache(maxsize=128) of get_bonding_capacity, MRU last
  atomCache : List Str                 -- keys of `_PROCESS_ATOM_CACHE` (values are a function of the key)
  nextId : Nat
  deriving Repr, Inhabited

def constraintsToPyDict (c : Constraints) : PyDict := c.map fun (k, v) => (PyKey.str k, PyVal.int v)

/-- the state right after `import selfies` -/
def CfgState.init : CfgState :=
  let ps := Gen.presets
  let dicts := (List.range ps.length).zip (ps.map fun p => constraintsToPyDict p.2)
  let presets := (ps.map (·.1)).zip (List.range ps.length)
  let cur := match Gen.initialAliasesPreset with
    | some n => (lookup n presets).getD 0
    | none => ps.length
  let dicts := if Gen.initialAliasesPreset.isSome then dicts
               else dicts ++ [(ps.length, constraintsToPyDict Gen.initialConstraints)]
  { dicts := dicts, sets := [], presets := presets, current := cur, alphaCache := none,
    capCache := [], atomCache := Gen.atomCachePrefill.map (·.1), nextId := ps.length + 1 }

def CfgState.dictOf (st : CfgState) (ref : Nat) : PyDict := (lookup ref st.dicts).getD []

def CfgState.currentTable (st : CfgState) : Constraints := (st.dictOf st.current).toConstraints

def CfgState.allocDict (st : CfgState) (d : PyDict) : CfgState × Nat :=
  ({ st with dicts := st.dicts ++ [(st.nextId, d)], nextId := st.nextId + 1 }, st.nextId)

def CfgState.allocSet (st : CfgState) (s : List Str) : CfgState × Nat :=
  ({ st with sets := st.sets ++ [(st.nextId, s)], nextId := st.nextId + 1 }, st.nextId)

/-! ### API operations: each returns the new state and what the caller observes -/

/-- `get_preset_constraints(name)`: a reference to a fresh copy, or `ValueError` -/
def getPreset (st : CfgState) (name : Str) : CfgState × Py Nat :=
  match lookup name st.presets with
  | none => (st, .error .ValueError)
  | some ref =>
    let (st, r) := st.allocDict (st.dictOf ref)
    (st, .ok r)

/-- `get_semantic_constraints()` -/
def getConstraints (st : CfgState) : CfgState × Nat := st.allocDict (st.dictOf st.current)

/-- `set_semantic_constraints(arg)` -/
def setConstraints (st : CfgState) (arg : SetArg) : CfgState × Py Unit :=
  let commit (st : CfgState) (d : PyDict) : CfgState × Py Unit :=
    let (st, r) := st.allocDict d
    ({ st with current := r, alphaCache := none, capCache := [] }, .ok ())
  match arg with
  | .name n =>
    match lookup n st.presets with
    | none => (st, .error .ValueError)
    | some ref => commit st (st.dictOf ref)
  | .dict ref =>
    let d := st.dictOf ref
    match validateDict d with
    | some e => (st, .error e)
    | none => commit st d
  | .other => (st, .error .ValueError)

/-- `get_semantic_robust_alphabet()`: returns the CACHED set object itself -/
def getAlphabet (st : CfgState) : CfgState × Nat :=
  match st.alphaCache with
  | some r => (st, r)
  | none =>
    let (st, r) := st.allocSet (robustAlphabet st.currentTable)
    ({ st with alphaCache := some r }, r)

/-- caller-side `d[k] = v` on a dict it holds -/
def mutateDict (st : CfgState) (ref : Nat) (k : PyKey) (v : PyVal) : CfgState :=
  { st with dicts := st.dicts.map fun (r, d) => if r == ref then (r, setKey k v d) else (r, d) }

/-- caller-side `s.add(x)` on a set it holds -/
def mutateSet (st : CfgState) (ref : Nat) (x : Str) : CfgState :=
  { st with sets := st.sets.map fun (r, s) => if r == ref then (r, if s.contains x then s else s ++ [x]) else (r, s) }

/-- `get_bonding_capacity(element, charge)` through its lru_cache (maxsize 128) -/
def cachedCapacity (st : CfgState) (element : Str) (charge : Int) : CfgState × Py Nat :=
  match lookup (element, charge) st.capCache with
  | some v =>
    -- hit: move to most-recently-used position
    let rest := st.capCache.filter fun e => !(e.1 == (element, charge))
    ({ st with capCache := rest ++ [((element, charge), v)] }, .ok v)
  | none =>
    match getBondingCapacity st.currentTable element charge with
    | .ok v =>
      let c := st.capCache ++ [((element, charge), v)]
      let c := if c.length > 128 then c.drop 1 else c
      ({ st with capCache := c }, .ok v)
    | .error e => (st, .error e)

/-- the table the translators see in state `st` *through the capacity cache*:
    cached entries win over the current dict -/
def CfgState.effectiveCapacity (st : CfgState) (element : Str) (charge : Int) : Py Nat :=
  match lookup (element, charge) st.capCache with
  | some v => .ok v
  | none => getBondingCapacity st.currentTable element charge

end SV
