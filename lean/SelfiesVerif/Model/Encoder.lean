/-
  selfies/encoder.py: `encoder`, `_check_bond_constraints`, `_should_invert_chirality`,
  `_fragment_to_selfies`, `_bond_to_selfies`, `_ring_bonds_to_selfies`, `_atom_to_selfies`.
-/
import SelfiesVerif.Model.Kekulize

namespace SV

/-- `bond_to_smiles` on a half-unit order -/
def bondToSmiles2 (order2 : Nat) (stereo : Option Char) : Py Str :=
  if order2 == 2 then
    match stereo with
    | some c => .ok (if Gen.smilesStereoBonds.contains c then [c] else [])
    | none => .ok []
  else if order2 == 4 then .ok ['=']
  else if order2 == 6 then .ok ['#']
  else .error .ValueError

/-- `_bond_to_selfies(bond, show_stereo)` -/
def bondToSelfies (b : PBond) (showStereo : Bool) : Py Str :=
  if !showStereo && b.order2 == 2 then .ok [] else bondToSmiles2 b.order2 b.stereo

/-- `_ring_bonds_to_selfies(lbond, rbond)` -/
def ringBondsToSelfies (l r : PBond) : Py Str := do
  pyAssert (l.order2 == r.order2)
  if l.order2 != 2 || (l.stereo.isNone && r.stereo.isNone) then bondToSelfies l false
  else pure [l.stereo.getD '-', r.stereo.getD '-']

/-- `_atom_to_selfies(bond, atom)` -/
def atomToSelfies (bond : Option PBond) (a : Atom) : Py Str := do
  pyAssert (!a.isAromatic)
  let bc ← match bond with
    | none => pure []
    | some b => bondToSelfies b true
  let s ← atomToSmiles a false
  pure (['['] ++ bc ++ s ++ [']'])

def getOut (m : PMol) (i : Nat) : Py (List PBond) := do
  let out ← getIdx m.adj i
  out.mapM fun ob => match ob with
    | some b => pure b
    | none => .error .AttributeError     -- `None.ring_bond`

/-- `_should_invert_chirality(mol, atom)` -/
def shouldInvertChirality (m : PMol) (idx : Nat) : Py Bool := do
  let out ← getOut m idx
  let ix := (List.range out.length).zip out
  let p2 := (ix.filter fun (_, b) => !b.ring).map (·.1)
  let p1 := ix.filter fun (_, b) => b.ring && b.src < b.dst
  let p0 := (ix.filter fun (_, b) => b.ring && !(b.src < b.dst)).map (·.1)
  let p1 := (p1.mergeSort fun a b => a.2.dst ≤ b.2.dst).map (·.1)     -- stable sort by partner index
  let perm := p0 ++ p1 ++ p2
  let rec inversions : List Nat → Nat
    | [] => 0
    | x :: rest => (rest.filter (fun y => x > y)).length + inversions rest
  pure (inversions perm % 2 != 0)

/-- the encoder's token list element with its attribution map -/
structure EncOut where
  derived : List Str
  maps : List AttributionMap
  deriving Repr, Inhabited

def ringSymbol (prefix_ : Str) (kind : Str) (n : Nat) : Str :=
  ['['] ++ prefix_ ++ kind ++ natToStr n ++ [']']

inductive EncTask
  /-- top of the `while True:` loop: emit the atom `curr`, entered through `bondInto` -/
  | atomVisit (bondInto : Option PBond) (curr : Nat)
  /-- inside `for i, bond in enumerate(out_bonds)`: remaining bonds, index of the next one,
      number of out-bonds, and the chain bond found so far -/
  | bondLoop (rest : List PBond) (i : Nat) (outLen : Nat) (next : Option PBond)
  deriving Repr

/-- append the index symbols `q` to `derived`, each with an attribution map -/
def pushIndexSyms (q : List Str) (attr : Option (List Attribution)) (attrIndex : Nat)
    (derived : List Str) (maps : List AttributionMap) : List Str × List AttributionMap :=
  q.foldl (fun (dm : List Str × List AttributionMap) s =>
    let d := dm.1 ++ [s]
    (d, dm.2 ++ [{ index := (d.length : Int) - 1 + attrIndex, token := s, attribution := attr }]))
    (derived, maps)

/--
`_fragment_to_selfies(mol, bond_into_root, root, attribution_maps, attribution_index)`.
`derived` is the list being built by this call; `maps` is the shared `attribution_maps` list.
`fuel` bounds the length of any chain of atom visits and bond-loop steps (callers pass
`size + number of out-bonds + 1`); `depth` is the Python recursion depth (branch nesting).
-/
def fragmentGo (m : PMol) :
    (fuel : Nat) → (depth : Nat) → EncTask →
    (derived : List Str) → (maps : List AttributionMap) → (attrIndex : Nat) →
    Py (List Str × List AttributionMap)
  | 0, _, _, _, _, _ => .error .NonTermination
  | fuel + 1, depth, .atomVisit bondInto curr, derived, maps, attrIndex => do
    let atom ← getIdx m.atoms curr
    let token ← atomToSelfies bondInto atom
    let derived := derived ++ [token]
    let maps := maps ++ [{ index := (derived.length : Int) - 1 + attrIndex, token := token,
                           attribution := (m.atomAttr[curr]?).getD none }]
    let out ← getOut m curr
    -- ring bonds first (stable), then the non-ring bonds
    let out := out.filter (·.ring) ++ out.filter (fun b => !b.ring)
    fragmentGo m fuel depth (.bondLoop out 0 out.length none) derived maps attrIndex
  | fuel + 1, depth, .bondLoop [] _ _ next, derived, maps, attrIndex =>
    -- end of chain: `(not out_bonds) or out_bonds[-1].ring_bond`
    match next with
    | none => pure (derived, maps)
    | some b => fragmentGo m fuel depth (.atomVisit (some b) b.dst) derived maps attrIndex
  | fuel + 1, depth, .bondLoop (bond :: rest) i outLen next, derived, maps, attrIndex =>
    if bond.ring then
      if bond.src < bond.dst then
        fragmentGo m fuel depth (.bondLoop rest (i + 1) outLen next) derived maps attrIndex
      else do
        let rev ← m.getDirBond bond.dst bond.src
        let ringLen : Int := (bond.src : Int) - bond.dst
        let q ← getSelfiesFromIndex (ringLen - 1)
        let pre ← ringBondsToSelfies rev bond
        let sym := ringSymbol pre "Ring".toList q.length
        let derived := derived ++ [sym]
        let maps := maps ++ [{ index := (derived.length : Int) - 1 + attrIndex, token := sym,
                               attribution := bond.attr }]
        let (derived, maps) := pushIndexSyms q bond.attr attrIndex derived maps
        fragmentGo m fuel depth (.bondLoop rest (i + 1) outLen next) derived maps attrIndex
    else if i + 1 == outLen then
      fragmentGo m fuel depth (.bondLoop rest (i + 1) outLen (some bond)) derived maps attrIndex
    else do
      let start := maps.length
      if depth + 1 ≥ recursionBudget then .error .RecursionError else
      let (branch, maps) ← fragmentGo m fuel (depth + 1) (.atomVisit (some bond) bond.dst) [] maps derived.length
      let q ← getSelfiesFromIndex ((branch.length : Int) - 1)
      let pre ← bondToSelfies bond false
      let sym := ringSymbol pre "Branch".toList q.length
      let stop := maps.length
      let derived := derived ++ [sym]
      let (derived, maps) := pushIndexSyms q bond.attr attrIndex derived maps
      -- for j in range(start, end): attribution_maps[j].index += len(Q_as_symbols) + 1
      let maps := (List.range maps.length).zip maps |>.map fun (j, am) =>
        if start ≤ j && j < stop then { am with index := am.index + (q.length + 1 : Nat) } else am
      let maps := maps ++ [{ index := (derived.length : Int) - 1 + attrIndex, token := sym,
                             attribution := bond.attr }]
      fragmentGo m fuel depth (.bondLoop rest (i + 1) outLen next) (derived ++ branch) maps attrIndex

def PMol.totalOut (m : PMol) : Nat := (m.adj.map List.length).sum

def fragmentToSelfies (m : PMol) (root : Nat) (maps : List AttributionMap) (attrIndex : Nat) :
    Py (List Str × List AttributionMap) :=
  fragmentGo m (2 * (m.size + m.totalOut) + 2) 0 (.atomVisit none root) [] maps attrIndex

/-- `_check_bond_constraints(mol, smiles)`: `true` = some atom exceeds its capacity -/
def violatesConstraints (T : Table) (m : PMol) : Bool :=
  ((List.range m.atoms.length).zip m.atoms).any fun (i, a) =>
    ((m.counts2.getD i 0 : Int) > 2 * a.bondingCapacity T)

/-- everything `encoder` does after parsing, up to the graph that is written out -/
def encodePrepare (T : Table) (smiles : Str) (strict attrib : Bool) (tape : List Nat) : Py PMol := do
  let m ← match smilesToMol smiles attrib with
    | .ok m => pure m
    | .error .SMILESParserError => .error .EncoderError
    | .error e => .error e
  let m ← match ← m.kekulize tape with
    | some m => pure m
    | none => .error .EncoderError
  if strict && violatesConstraints T m then
    -- the error message calls atom_to_smiles on the offending atoms
    let _ ← ((List.range m.atoms.length).zip m.atoms).mapM fun (i, a) =>
      if ((m.counts2.getD i 0 : Int) > 2 * a.bondingCapacity T) then atomToSmiles a else pure []
    .error .EncoderError
  else
    -- invert chirality where necessary
    let atoms ← ((List.range m.atoms.length).zip m.atoms).mapM fun (i, a) => do
      if a.chirality.isSome && (m.ringFlags.getD i false) then
        let inv ← shouldInvertChirality m i
        pure (if inv then a.invertChirality else a)
      else pure a
    pure { m with atoms := atoms }

/-- `selfies.encoder(smiles, strict, attribute)` under table `T`, with the kekulization tape -/
def encoderFull (T : Table) (smiles : Str) (strict : Bool := true) (attrib : Bool := false)
    (tape : List Nat := []) : Py (Str × List AttributionMap) := do
  let m ← encodePrepare T smiles strict attrib tape
  let rec frags : List Nat → Nat → List Str → List AttributionMap → Py (List Str × List AttributionMap)
    | [], _, acc, maps => pure (acc, maps)
    | root :: rest, attrIndex, acc, maps => do
      let (derived, maps) ← fragmentToSelfies m root maps attrIndex
      frags rest (attrIndex + derived.length) (acc ++ [derived.flatten]) maps
  let (fragments, maps) ← frags m.roots 0 [] []
  pure (joinWith ['.'] fragments, maps.filter fun a => !a.token.isEmpty)

def encoder (T : Table) (smiles : Str) (strict : Bool := true) (tape : List Nat := []) : Py Str := do
  let r ← encoderFull T smiles strict false tape
  pure r.1

end SV
