/-
  selfies/utils/smiles_utils.py: `tokenize_smiles`, `smiles_to_mol`, `_derive_mol_from_tokens`,
  `_attach_atom`, `_make_ring_bonds`, and the parts of `MolecularGraph` the parser uses
  (placeholders, aromatic bonds, delocalisation subgraph).  Bond orders and bond counts are in
  HALF UNITS here (`order2 = 2 * order`; the aromatic order 1.5 is `3`).
-/
import SelfiesVerif.Model.Mol

namespace SV

structure PBond where
  src : Nat
  dst : Nat
  order2 : Nat
  stereo : Option Char
  ring : Bool
  attr : Option (List Attribution) := none
  deriving DecidableEq, Repr, Inhabited

/-- the graph as the SMILES parser builds it -/
structure PMol where
  atoms : List Atom := []
  roots : List Nat := []
  /-- `none` = placeholder of an opened, not yet closed ring number -/
  adj : List (List (Option PBond)) := []
  counts2 : List Nat := []
  ringFlags : List Bool := []
  /-- `_delocal_subgraph`, an insertion-ordered dict -/
  ds : List (Nat × List Nat) := []
  atomAttr : List (Option (List Attribution)) := []
  deriving Repr, Inhabited

namespace PMol

def size (m : PMol) : Nat := m.atoms.length

def addAtom (m : PMol) (a : Atom) (markRoot : Bool) (attr : Option (List Attribution)) : PMol × Nat :=
  let idx := m.atoms.length
  ({ atoms := m.atoms ++ [a],
     roots := if markRoot then m.roots ++ [idx] else m.roots,
     adj := m.adj ++ [[]],
     counts2 := m.counts2 ++ [0],
     ringFlags := m.ringFlags ++ [false],
     ds := if a.isAromatic then setKey idx [] m.ds else m.ds,
     atomAttr := m.atomAttr ++ [attr] }, idx)

/-- `self._delocal_subgraph.setdefault(a, []).append(b)` -/
def dsAppend (ds : List (Nat × List Nat)) (a b : Nat) : List (Nat × List Nat) :=
  match lookup a ds with
  | some l => setKey a (l ++ [b]) ds
  | none => ds ++ [(a, [b])]

def hasBond (m : PMol) (a b : Nat) : Bool :=
  let lo := min a b
  let hi := max a b
  match m.adj[lo]? with
  | some out => out.any fun ob => match ob with | some bd => bd.dst == hi | none => false
  | none => false

def getDirBond (m : PMol) (src dst : Nat) : Py PBond :=
  match m.adj[src]? with
  | some out =>
    match out.find? (fun ob => match ob with | some bd => bd.dst == dst | none => false) with
    | some (some b) => .ok b
    | _ => .error .KeyError
  | none => .error .KeyError

def addBond (m : PMol) (src dst order2 : Nat) (stereo : Option Char)
    (attr : Option (List Attribution)) : Py PMol := do
  pyAssert (src < dst)
  let b : PBond := { src, dst, order2, stereo, ring := false, attr }
  let out ← getIdx m.adj src
  let adj := m.adj.set src (out ++ [some b])
  let c ← Mol.addCount m.counts2 src order2
  let c ← Mol.addCount c dst order2
  let ds := if order2 == 3 then dsAppend (dsAppend m.ds src dst) dst src else m.ds
  pure { m with adj := adj, counts2 := c, ds := ds }

/-- `add_placeholder_bond(src)` -/
def addPlaceholder (m : PMol) (src : Nat) : Py (PMol × Nat) := do
  let out ← getIdx m.adj src
  pure ({ m with adj := m.adj.set src (out ++ [none]) }, out.length)

/-- `_add_bond_at_loc(bond, pos)`; `pos = none` is `-1` -/
def addBondAtLoc (adj : List (List (Option PBond))) (b : PBond) (pos : Option Nat) :
    Py (List (List (Option PBond))) := do
  let out ← getIdx adj b.src
  match pos with
  | none => pure (adj.set b.src (out ++ [some b]))
  | some p =>
    if p == out.length then pure (adj.set b.src (out ++ [some b]))
    else
      match out[p]? with
      | none => .error .IndexError
      | some none => pure (adj.set b.src (out.set p (some b)))
      | some (some _) => pure (adj.set b.src (insertAt out p (some b)))

def addRingBond (m : PMol) (a b order2 : Nat) (aStereo bStereo : Option Char)
    (aPos bPos : Option Nat) : Py PMol := do
  let ab : PBond := { src := a, dst := b, order2, stereo := aStereo, ring := true }
  let ba : PBond := { src := b, dst := a, order2, stereo := bStereo, ring := true }
  let adj ← addBondAtLoc m.adj ab aPos
  let adj ← addBondAtLoc adj ba bPos
  let c ← Mol.addCount m.counts2 a order2
  let c ← Mol.addCount c b order2
  let _ ← getIdx m.ringFlags a
  let _ ← getIdx m.ringFlags b
  let flags := (m.ringFlags.set a true).set b true
  let ds := if order2 == 3 then dsAppend (dsAppend m.ds a b) b a else m.ds
  pure { m with adj := adj, counts2 := c, ringFlags := flags, ds := ds }

end PMol

/-! ### tokenizer -/

inductive TokKind | atom | branch | ring | dot
  deriving DecidableEq, Repr, Inhabited

structure SmilesTok where
  bondChar : Option Char
  kind : TokKind
  text : Str
  deriving DecidableEq, Repr, Inhabited

def isSmilesBondChar (c : Char) : Bool := (lookup c Gen.smilesBondOrders2).isSome

/-- `s.find("]")` from the start of `s`: (text up to and including `]`, rest) -/
def spanCloseBracket : Str → Option (Str × Str)
  | [] => none
  | c :: s =>
    if c == ']' then some ([c], s)
    else match spanCloseBracket s with
      | some (a, r) => some (c :: a, r)
      | none => none

/-- one token after the optional bond character; `none` = `SMILESParserError` -/
def lexSymbol (bond : Option Char) : Str → Option (SmilesTok × Str)
  | [] => none                               -- hanging bond
  | c :: rest =>
    if pyIsAlpha c then
      match rest with
      | d :: rest' =>
        if (c == 'B' && d == 'r') || (c == 'C' && d == 'l') then
          some ({ bondChar := bond, kind := .atom, text := [c, d] }, rest')
        else some ({ bondChar := bond, kind := .atom, text := [c] }, rest)
      | [] => some ({ bondChar := bond, kind := .atom, text := [c] }, rest)
    else if c == '[' then
      match spanCloseBracket rest with
      | some (body, rest') => some ({ bondChar := bond, kind := .atom, text := c :: body }, rest')
      | none => none
    else if c == '(' || c == ')' then
      if bond.isSome then none
      else some ({ bondChar := none, kind := .branch, text := [c] }, rest)
    else if pyIsDigit c then some ({ bondChar := bond, kind := .ring, text := [c] }, rest)
    else if c == '%' then
      match rest with
      | d1 :: d2 :: rest' =>
        if pyIsNumeric d1 && pyIsNumeric d2 then
          some ({ bondChar := bond, kind := .ring, text := [c, d1, d2] }, rest')
        else none
      | _ => none
    else none

/-- `tokenize_smiles` (fully forced, as `deque(tokenize_smiles(smiles))` does) -/
def tokenizeSmiles : Nat → Str → Option (List SmilesTok)
  | 0, [] => some []
  | 0, _ :: _ => none     -- out of fuel: unreachable with fuel = length + 1
  | _ + 1, [] => some []
  | fuel + 1, c :: rest =>
    if c == '.' then
      (tokenizeSmiles fuel rest).map fun l => { bondChar := none, kind := .dot, text := [c] } :: l
    else
      let (bond, rest1) : Option Char × Str :=
        if isSmilesBondChar c then (some c, rest) else (none, c :: rest)
      match lexSymbol bond rest1 with
      | none => none
      | some (tok, rest2) =>
        if rest2.length < (c :: rest).length then
          (tokenizeSmiles fuel rest2).map fun l => tok :: l
        else none

/-! ### parser -/

structure RingOpen where
  label : Str
  bondChar : Option Char
  atom : Nat
  pos : Nat
  deriving Repr, Inhabited

structure ParseSt where
  mol : PMol
  prevStack : List (Option Nat)     -- top = head
  branchDepth : Nat
  ringLog : List RingOpen
  chainStart : Bool
  i : Nat
  deriving Repr, Inhabited

def stereoChar (c : Option Char) : Bool :=
  match c with
  | some c => Gen.smilesStereoBonds.contains c
  | none => false

/-- `_make_ring_bonds` -/
def makeRingBonds (m : PMol) (lbond : Option Char) (latom lpos : Nat) (rbond : Option Char)
    (ratom : Nat) : Py PMol := do
  if latom == ratom then .error .SMILESParserError
  else if m.hasBond latom ratom then .error .SMILESParserError
  else
    let bonds : Option Char × Option Char := if lbond.isNone then (rbond, lbond) else (lbond, rbond)
    if !(bonds.1 == bonds.2 || bonds.2.isNone || (stereoChar bonds.1 && stereoChar bonds.2)) then
      .error .SMILESParserError
    else do
      let (lo, lst) := smilesToBond lbond
      let (ro, rst) := smilesToBond rbond
      let la ← getIdx m.atoms latom
      let ra ← getIdx m.atoms ratom
      let (lo, ro) := if la.isAromatic && ra.isAromatic && lbond.isNone && rbond.isNone then (3, 3) else (lo, ro)
      m.addRingBond latom ratom (max lo ro) lst rst (some lpos) none

/-- the `while tokens:` loop of `_derive_mol_from_tokens`, up to and including the DOT that ends
    the fragment; returns the state and the remaining tokens -/
def parseFragmentLoop (attrib : Bool) : List SmilesTok → ParseSt → Py (ParseSt × List SmilesTok)
  | [], st => .ok (st, [])
  | tok :: rest, st => do
    let prev ← match st.prevStack with
      | p :: _ => pure p
      | [] => .error .IndexError
    match tok.kind with
    | .dot => pure (st, rest)
    | .atom =>
      match smilesToAtom tok.text with
      | none => .error .SMILESParserError
      | some curr =>
        -- _attach_atom
        let i := if tok.bondChar.isSome then st.i + 1 else st.i
        let attr := if attrib then some [{ index := i, token := tok.text : Attribution }] else none
        let isRoot := prev.isNone
        let (mol, idx) := st.mol.addAtom curr isRoot attr
        let mol ← (match prev with
          | none => pure mol
          | some p => do
            let pa ← getIdx mol.atoms p
            let (o2, stereo) := smilesToBond tok.bondChar
            let o2 := if pa.isAromatic && curr.isAromatic && tok.bondChar.isNone then 3 else o2
            mol.addBond p idx o2 stereo attr)
        parseFragmentLoop attrib rest
          { st with mol := mol, prevStack := some idx :: st.prevStack.tail, chainStart := false, i := i + 1 }
    | .branch =>
      if st.chainStart then .error .SMILESParserError
      else if tok.text == ['('] then
        parseFragmentLoop attrib rest
          { st with prevStack := prev :: st.prevStack, branchDepth := st.branchDepth + 1,
                    chainStart := true, i := st.i + 1 }
      else if st.branchDepth == 0 then .error .SMILESParserError
      else
        parseFragmentLoop attrib rest
          { st with prevStack := st.prevStack.tail, branchDepth := st.branchDepth - 1, i := st.i + 1 }
    | .ring =>
      if st.chainStart then .error .SMILESParserError
      else
        match prev with
        | none => .error .AttributeError
        | some p =>
          match st.ringLog.find? (·.label == tok.text) with
          | none => do
            let (mol, lpos) ← st.mol.addPlaceholder p
            parseFragmentLoop attrib rest
              { st with mol := mol, i := st.i + 1,
                        ringLog := st.ringLog ++ [{ label := tok.text, bondChar := tok.bondChar, atom := p, pos := lpos }] }
          | some ro => do
            let mol ← makeRingBonds st.mol ro.bondChar ro.atom ro.pos tok.bondChar p
            parseFragmentLoop attrib rest
              { st with mol := mol, i := st.i + 1, ringLog := st.ringLog.filter (·.label != tok.text) }

/-- `_derive_mol_from_tokens` -/
def parseFragment (attrib : Bool) (toks : List SmilesTok) (mol : PMol) (i : Nat) :
    Py (PMol × Nat × List SmilesTok) := do
  let (st, rest) ← parseFragmentLoop attrib toks
    { mol := mol, prevStack := [none], branchDepth := 0, ringLog := [], chainStart := true, i := i }
  if st.mol.size == 0 then .error .SMILESParserError
  else if st.branchDepth != 0 then .error .SMILESParserError
  else if !st.ringLog.isEmpty then .error .SMILESParserError
  else pure (st.mol, st.i, rest)

/-- `smiles_to_mol(smiles, attributable)` -/
def smilesToMol (smiles : Str) (attrib : Bool) : Py PMol :=
  if smiles.isEmpty then .error .SMILESParserError
  else
    match tokenizeSmiles (smiles.length + 1) smiles with
    | none => .error .SMILESParserError
    | some toks =>
      let rec go : Nat → List SmilesTok → PMol → Nat → Py PMol
        | 0, [], m, _ => .ok m
        | 0, _ :: _, _, _ => .error .NonTermination
        | _ + 1, [], m, _ => .ok m
        | fuel + 1, t :: ts, m, i => do
          let (m', i', rest) ← parseFragment attrib (t :: ts) m i
          go fuel rest m' i'
      go (toks.length + 1) toks {} 0

end SV
