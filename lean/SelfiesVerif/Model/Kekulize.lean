/-
  selfies/utils/matching_utils.py (`find_perfect_matching`, `_greedy_matching`,
  `_find_augmenting_path`, `_flip_augmenting_path`) and `MolecularGraph.kekulize`,
  `_prune_from_ds`, `update_bond_order` of selfies/mol_graph.py (half-unit orders).

  The only nondeterministic choice of the code, `unmatched.pop()` on a `set`, is an input of the
  model: a *choice tape* (the list of popped roots, recorded from the real run by the harness).
-/
import SelfiesVerif.Model.SmilesParser

namespace SV

abbrev Graph := List (List Nat)
abbrev Matching := List (Option Nat)

/-! ### greedy phase -/

/-- `heapq.heappop` on a heap of `(free_degree, node)` tuples: remove a lexicographic minimum
    (equal tuples are indistinguishable, so the heap's internal order is irrelevant) -/
def heapPopMin : List (Int × Nat) → Option ((Int × Nat) × List (Int × Nat))
  | [] => none
  | x :: xs =>
    match heapPopMin xs with
    | none => some (x, [])
    | some (m, rest) =>
      if x.1 < m.1 || (x.1 == m.1 && x.2 ≤ m.2) then some (x, xs) else some (m, x :: rest)

structure GreedySt where
  matching : Matching
  freeDeg : List Int
  heap : List (Int × Nat)
  deriving Repr

/-- the `for adj in chain(graph[node], graph[mate])` loop -/
def greedyUpdate : List Nat → GreedySt → Py GreedySt
  | [], st => .ok st
  | adj :: rest, st => do
    let fd ← getIdx st.freeDeg adj
    let fd' := fd - 1
    let st := { st with freeDeg := st.freeDeg.set adj fd' }
    let m ← getIdx st.matching adj
    let st := if m.isNone && fd' > 0 then { st with heap := (fd', adj) :: st.heap } else st
    greedyUpdate rest st

def greedyLoop (graph : Graph) : Nat → GreedySt → Py Matching
  | 0, st => if st.heap.isEmpty then .ok st.matching else .error .NonTermination
  | fuel + 1, st =>
    match heapPopMin st.heap with
    | none => .ok st.matching
    | some ((_, node), heap) => do
      let st := { st with heap := heap }
      let mn ← getIdx st.matching node
      let fd ← getIdx st.freeDeg node
      if mn.isSome || fd == 0 then greedyLoop graph fuel st
      else do
        let nbrs ← getIdx graph node
        -- mate = next(i for i in graph[node] if matching[i] is None)
        let rec firstFree : List Nat → Py Nat
          | [] => .error .StopIteration
          | i :: is => do
            let mi ← getIdx st.matching i
            if mi.isNone then pure i else firstFree is
        let mate ← firstFree nbrs
        let _ ← getIdx st.matching mate
        let st := { st with matching := (st.matching.set node (some mate)).set mate (some node) }
        let mnbrs ← getIdx graph mate
        let st ← greedyUpdate (nbrs ++ mnbrs) st
        greedyLoop graph fuel st

def degreeSum (graph : Graph) : Nat := (graph.map List.length).sum

/-- `_greedy_matching(graph)` -/
def greedyMatching (graph : Graph) : Py Matching :=
  let n := graph.length
  let fd : List Int := graph.map fun l => (l.length : Int)
  greedyLoop graph (n + 2 * degreeSum graph + 1)
    { matching := List.replicate n none, freeDeg := fd,
      heap := (List.range n).map fun i => (fd.getD i 0, i) }

/-! ### augmenting paths -/

abbrev Parents := List (Option (Option Nat × Option Nat))

/-- the `for adj in graph[node]` loop of the BFS: returns (parents, queue additions, other_end) -/
def bfsScan (root node : Nat) (matching : Matching) :
    List Nat → Parents → List Nat → Py (Parents × List Nat × Option Nat)
  | [], parents, added => .ok (parents, added, none)
  | adj :: rest, parents, added => do
    let m ← getIdx matching adj
    match m with
    | none =>
      if adj != root then
        let _ ← getIdx parents adj
        pure (parents.set adj (some (some node, some adj)), added, some adj)
      else bfsScan root node matching rest parents added
    | some adjMate => do
      let p ← getIdx parents adjMate
      if p.isNone then
        bfsScan root node matching rest (parents.set adjMate (some (some node, some adj))) (added ++ [adjMate])
      else bfsScan root node matching rest parents added

def bfsLoop (graph : Graph) (root : Nat) (matching : Matching) :
    Nat → List Nat → Parents → Py (Parents × Option Nat)
  | 0, queue, parents => if queue.isEmpty then .ok (parents, none) else .error .NonTermination
  | _ + 1, [], parents => .ok (parents, none)
  | fuel + 1, node :: queue, parents => do
    let nbrs ← getIdx graph node
    let (parents, added, otherEnd) ← bfsScan root node matching nbrs parents []
    match otherEnd with
    | some e => pure (parents, some e)
    | none => bfsLoop graph root matching fuel (queue ++ added) parents

/-- the `while node != root` path reconstruction -/
def buildPath (root : Nat) (parents : Parents) : Nat → Nat → List Nat → Py (List Nat)
  | 0, _, _ => .error .NonTermination
  | fuel + 1, node, path =>
    if node == root then .ok path
    else do
      let p ← getIdx parents node
      match p with
      | some (some par, some via) => buildPath root parents fuel par (path ++ [via, par])
      | _ => .error .TypeError

/-- `_find_augmenting_path(graph, root, matching)`; `none` = no path -/
def findAugmentingPath (graph : Graph) (root : Nat) (matching : Matching) : Py (Option (List Nat)) := do
  let mr ← getIdx matching root
  pyAssert mr.isNone
  let n := graph.length
  let parents : Parents := (List.replicate n none).set root (some (none, none))
  let (parents, otherEnd) ← bfsLoop graph root matching (n + 1) [root] parents
  match otherEnd with
  | none => pure none
  | some e => do
    let path ← buildPath root parents (n + 1) e []
    pure (some path)

/-- `_flip_augmenting_path(matching, path)` -/
def flipPath : List Nat → Matching → Py Matching
  | a :: b :: rest, m => do
    let _ ← getIdx m a
    let m := m.set a (some b)
    let _ ← getIdx m b
    flipPath rest (m.set b (some a))
  | [_], _ => .error .IndexError
  | [], m => .ok m

/-- the `while unmatched:` loop; `tape` supplies the results of `unmatched.pop()`.
    A tape entry that is not in `unmatched` (or a missing entry) is a harness error, reported as
    `KeyError` (what `set.pop()` raises on an empty set). -/
def augmentLoop (graph : Graph) : Nat → List Nat → List Nat → Matching → Py (Option Matching)
  | 0, unmatched, _, m => if unmatched.isEmpty then .ok (some m) else .error .NonTermination
  | fuel + 1, unmatched, tape, m =>
    if unmatched.isEmpty then .ok (some m)
    else
      match tape with
      | [] => .error .KeyError
      | root :: tape =>
        if !unmatched.contains root then .error .KeyError
        else do
          let unmatched := unmatched.filter (· != root)
          match ← findAugmentingPath graph root m with
          | none => pure none
          | some path => do
            let m ← flipPath path m
            let unmatched := unmatched.filter fun x => !(some x == path.head? || some x == path.getLast?)
            augmentLoop graph fuel unmatched tape m

/-- a canonical tape: always pop the smallest element (used when no recorded tape is given) -/
def defaultTape (n : Nat) : List Nat := List.range n

/-- `find_perfect_matching(graph)` with choice tape -/
def findPerfectMatching (graph : Graph) (tape : List Nat) : Py (Option Matching) := do
  let m ← greedyMatching graph
  let unmatched := (List.range graph.length).filter fun i => (m.getD i none).isNone
  augmentLoop graph (graph.length + 1) unmatched tape m

/-! ### kekulization -/

namespace PMol

/-- set the order of bond `src → dst` in `adj[src]` -/
def setOrder2At (adj : List (List (Option PBond))) (src dst o2 : Nat) : List (List (Option PBond)) :=
  match adj[src]? with
  | some out => adj.set src (out.map fun ob =>
      match ob with
      | some b => if b.dst == dst then some { b with order2 := o2 } else some b
      | none => none)
  | none => adj

/-- `update_bond_order(a, b, new_order)` with `new_order = newOrder2 / 2 ∈ {1, 2, 3}` -/
def updateBondOrder (m : PMol) (a b newOrder2 : Nat) : Py PMol := do
  pyAssert (2 ≤ newOrder2 && newOrder2 ≤ 6)
  let lo := min a b
  let hi := max a b
  let ab ← m.getDirBond lo hi
  if newOrder2 == ab.order2 then pure m
  else
    let adj := setOrder2At m.adj lo hi newOrder2
    let adj ← (if ab.ring then do
                  let _ ← m.getDirBond hi lo
                  pure (setOrder2At adj hi lo newOrder2)
                else pure adj)
    let cl ← getIdx m.counts2 lo
    let c1 := m.counts2.set lo (cl + newOrder2 - ab.order2)
    let ch ← getIdx c1 hi
    let c2 := c1.set hi (ch + newOrder2 - ab.order2)
    pure { m with adj := adj, counts2 := c2 }

/-- `_prune_from_ds(node)` -/
def pruneFromDs (m : PMol) (node : Nat) : Py Bool := do
  let adjNodes ← getKey m.ds node
  if adjNodes.isEmpty then pure true
  else do
    let atom ← getIdx m.atoms node
    let valences ← getKey Gen.aromaticValences atom.element
    let c2 ← getIdx m.counts2 node
    -- int(count - 0.5 * len(adj_nodes)); the difference is a non-negative integer number of units
    let used : Int := ((c2 : Int) - adjNodes.length) / 2
    match atom.hCount with
    | none => do
      pyAssert (atom.charge == 0)
      pure (valences.any fun v => used == (v : Int))
    | some h => do
      let vlast ← (match valences.getLast? with | some v => pure v | none => .error .IndexError)
      let valence : Int := (vlast : Int) - atom.charge
      let used : Int := used + h
      let ve ← getKey Gen.valenceElectrons atom.element
      let bound : Int := max 0 atom.charge + h + (c2 / 2 : Nat) + (c2 % 2 : Nat)
      let radical : Int := (max 0 ((ve : Int) - bound)) % 2
      let free : Int := valence - used - radical
      if valences.any fun v => used == (v : Int) - atom.charge then pure true
      else pure !(free ≥ 0 && free % 2 != 0)

/-- `kekulize()`: `none` = returned `False` -/
def kekulize (m : PMol) (tape : List Nat) : Py (Option PMol) := do
  if m.ds.isEmpty then return some m
  -- an aromatic bond on an element that cannot be aromatic
  let bad ← m.ds.anyM fun (node, adj) => do
    let a ← getIdx m.atoms node
    pure (!adj.isEmpty && (lookup a.element Gen.aromaticValences).isNone)
  if bad then return none
  let keys := m.ds.map (·.1)
  let kept ← keys.filterM fun k => do
    let p ← m.pruneFromDs k
    pure !p
  -- label_to_node = sorted(kept_nodes)
  let labelToNode := kept.mergeSort (· ≤ ·)
  let nodeToLabel := fun (v : Nat) => labelToNode.idxOf v
  let pruned : Graph ← labelToNode.mapM fun node => do
    let adj ← getKey m.ds node
    pure ((adj.filter fun v => labelToNode.contains v).map nodeToLabel)
  match ← findPerfectMatching pruned tape with
  | none => return none
  | some matching =>
    -- de-aromatize
    let deAromNode (m : PMol) (node : Nat) (adj : List Nat) : Py PMol := do
      let m ← adj.foldlM (fun m a => m.updateBondOrder node a 2) m
      let atom ← getIdx m.atoms node
      let c ← getIdx m.counts2 node
      pure { m with atoms := m.atoms.set node { atom with isAromatic := false },
                    counts2 := m.counts2.set node (2 * (c / 2)) }
    let m ← m.ds.foldlM (fun m (p : Nat × List Nat) => deAromNode m p.1 p.2) m
    -- make double bonds
    let m ← (List.range matching.length).foldlM (fun m i => do
      let mi ← getIdx matching i
      match mi with
      | none => .error .TypeError      -- label_to_node[None]
      | some j => do
        let a ← getIdx labelToNode i
        let b ← getIdx labelToNode j
        m.updateBondOrder a b 4) m
    return some { m with ds := [] }

end PMol

end SV
