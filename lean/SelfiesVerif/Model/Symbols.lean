/-
  Symbol level: SMILES atom reader/writer (selfies/utils/smiles_utils.py `smiles_to_atom`,
  `atom_to_smiles`, `smiles_to_bond`), SELFIES atom symbols (selfies/grammar_rules.py
  `_process_atom_selfies_no_cache`, `process_atom_symbol`, branch / ring tables, index code),
  and `modernize_symbol` (selfies/compatibility.py).

  The two regular expressions are modelled by hand-written deterministic parsers; the
  argument why greedy = backtracking for these patterns is in DESIGN.md (Amendment 1).
-/
import SelfiesVerif.Model.Basic

namespace SV

/-! ### small scanning helpers -/

/-- take an optional leading character satisfying `p` -/
def takeOpt (p : Char → Bool) : Str → Option Char × Str
  | c :: s => if p c then (some c, s) else (none, c :: s)
  | [] => (none, [])

/-- up to two leading '@' -/
def takeChirality : Str → Str × Str
  | '@' :: '@' :: s => (['@', '@'], s)
  | '@' :: s => (['@'], s)
  | s => ([], s)

def optStr (s : Str) : Option Str := if s.isEmpty then none else some s

/-! ### bonds -/

/-- `SMILES_BOND_ORDERS.get(c, 1)` in half units -/
def bondOrder2 (c : Option Char) : Nat :=
  match c with
  | none => 2
  | some c => (lookup c Gen.smilesBondOrders2).getD 2

/-- `smiles_to_bond`: (order in half units, stereo) -/
def smilesToBond (c : Option Char) : Nat × Option Char :=
  (bondOrder2 c, match c with
    | some c => if Gen.smilesStereoBonds.contains c then some c else none
    | none => none)

/-! ### SMILES atoms -/

/-- the charge group `(?:[+]+|[-]+|[+-]\d+)?` : returns (text, rest) -/
def takeSmilesCharge : Str → Str × Str
  | c :: s =>
    if c == '+' || c == '-' then
      let (ds, rest) := s.span isDecimal
      if !ds.isEmpty then (c :: ds, rest)
      else
        let (run, rest) := s.span (· == c)
        (c :: run, rest)
    else ([], c :: s)
  | [] => ([], [])

/-- the atom class group `(?::\d+)?` -/
def takeAtomClass : Str → Str
  | ':' :: s =>
    let (ds, rest) := s.span isDecimal
    if ds.isEmpty then ':' :: s else rest
  | s => s

/-- the H group `(?:H\d?)?` of the SMILES pattern: `none` = absent -/
def takeSmilesH : Str → Option (Option Char) × Str
  | 'H' :: c :: s => if isDecimal c then (some (some c), s) else (some none, c :: s)
  | 'H' :: [] => (some none, [])
  | s => (none, s)

/-- `smiles_to_atom` on a bracketed symbol `[ ... ]` (the regular expression part) -/
def smilesBracketToAtom (sym : Str) : Option Atom :=
  match sym with
  | '[' :: body =>
    let (iso, r1) := body.span isDecimal
    match r1 with
    | e1 :: r2 =>
      if !(isAsciiUpper e1 || isAsciiLower e1) then none else
      let (e2, r3) := takeOpt isAsciiLower r2
      let element : Str := e1 :: e2.toList
      let (chir, r4) := takeChirality r3
      let (h, r5) := takeSmilesH r4
      let (chg, r6) := takeSmilesCharge r5
      let r7 := takeAtomClass r6
      if r7 != [']'] then none else
      -- post-processing
      match (if iso.isEmpty then some none else (pyIntOfDigits iso).map some) with
      | none => none
      | some isotope =>
        let allLower := element.all isAsciiLower
        let isAromatic := allLower && memStr element Gen.aromaticSubset
        let element := capitalizeAscii element
        if !memStr element Gen.elements then none else
        let hCount : Nat := match h with
          | none => 0
          | some none => 1
          | some (some d) => (decimalVal? d).getD 0
        let charge? : Option Int := match chg with
          | [] => some 0
          | sgn :: rest =>
            let mag? : Option Nat :=
              match rest.getLast? with
              | some l => if isDecimal l then pyIntOfDigits rest else some (rest.length + 1)
              | none => some 1
            mag?.map fun m => if sgn == '+' then (m : Int) else -(m : Int)
        match charge? with
        | none => none
        | some charge =>
          some { element := element, isAromatic := isAromatic, isotope := isotope,
                 chirality := optStr chir, hCount := some hCount, charge := charge }
    | [] => none
  | _ => none

/-- `smiles_to_atom` (callers never pass the empty string) -/
def smilesToAtom (sym : Str) : Option Atom :=
  if sym.head? == some '[' && sym.getLast? == some ']' then smilesBracketToAtom sym
  else if memStr sym Gen.organicSubset then some { element := sym, isAromatic := false }
  else if memStr sym Gen.aromaticSubset then some { element := capitalizeAscii sym, isAromatic := true }
  else none

/-- `atom_to_smiles(atom, brackets)`; the `assert not atom.is_aromatic` is the `Py` failure -/
def atomToSmiles (a : Atom) (brackets : Bool := true) : Py Str :=
  if a.isAromatic then .error .AssertionError
  else if a.isotope.isNone && a.chirality.isNone && a.hCount.isNone && a.charge == 0 then
    .ok a.element
  else
    let l := if brackets then ['['] else []
    let iso := match a.isotope with | some n => natToStr n | none => []
    let chir := a.chirality.getD []
    let h : Str :=
      match a.hCount with
      | none => ['H'] ++ ['N', 'o', 'n', 'e']   -- str(None): unreachable, h_count None only in the bare case or with other specs
      | some 0 =>
        if a.isotope.isNone && a.chirality.isNone && a.charge == 0 && memStr a.element Gen.organicSubset
        then ['H', '0'] else []
      | some n => 'H' :: natToStr n
    let chg := if a.charge != 0 then fmtPlus a.charge else []
    let r := if brackets then [']'] else []
    .ok (l ++ iso ++ a.element ++ chir ++ h ++ chg ++ r)

/-! ### SELFIES atom symbols -/

def isBondChar (c : Char) : Bool := c == '=' || c == '#' || c == '/' || c == '\\'

/-- the H group `(?:[H]\d)?` of the SELFIES pattern -/
def takeSelfiesH : Str → Option Char × Str
  | 'H' :: c :: s => if isDecimal c then (some c, s) else (none, 'H' :: c :: s)
  | s => (none, s)

def isDigit19 (c : Char) : Bool := '1' ≤ c && c ≤ '9'

/-- the charge group `(?:[+-][1-9][0-9]*)?` of the SELFIES pattern -/
def takeSelfiesCharge : Str → Option (Char × Str) × Str
  | c :: d :: s =>
    if (c == '+' || c == '-') && isDigit19 d then
      let (ds, rest) := s.span isAsciiDigit
      (some (c, d :: ds), rest)
    else (none, c :: d :: s)
  | s => (none, s)

/-- `_process_atom_selfies_no_cache`: ((bond order, stereo), atom) or `none` -/
def processAtomSelfiesNoCache (sym : Str) : Option ((Nat × Option Char) × Atom) :=
  match sym with
  | '[' :: body =>
    let (bc, r0) := takeOpt isBondChar body
    let (iso, r1) := r0.span isDecimal
    match r1 with
    | e1 :: r2 =>
      if !isAsciiUpper e1 then none else
      let (e2, r3) := takeOpt isAsciiLower r2
      let element : Str := e1 :: e2.toList
      let (chir, r4) := takeChirality r3
      let (h, r5) := takeSelfiesH r4
      let (chg, r6) := takeSelfiesCharge r5
      if r6 != [']'] then none else
      let (o2, st) := smilesToBond bc
      let bondInfo := (o2 / 2, st)
      -- organic shortcut: symbol[1 + len(bond_char):-1] in ORGANIC_SUBSET
      if memStr (r0.dropLast) Gen.organicSubset then
        some (bondInfo, { element := element, isAromatic := false })
      else
      match (if iso.isEmpty then some none else (pyIntOfDigits iso).map some) with
      | none => none
      | some isotope =>
        if !memStr element Gen.elements then none else
        let hCount : Nat := match h with
          | none => 0
          | some d => (decimalVal? d).getD 0
        let charge? : Option Int := match chg with
          | none => some 0
          | some (sgn, ds) => (pyIntOfDigits ds).map fun m => if sgn == '+' then (m : Int) else -(m : Int)
        match charge? with
        | none => none
        | some charge =>
          some (bondInfo, { element := element, isAromatic := false, isotope := isotope,
                            chirality := optStr chir, hCount := some hCount, charge := charge })
    | [] => none
  | _ => none

/-- `process_atom_symbol` under table `T` (the memo table only stores `processAtomSelfiesNoCache`) -/
def processAtomSymbol (T : Table) (sym : Str) : Option ((Nat × Option Char) × Atom) :=
  match processAtomSelfiesNoCache sym with
  | none => none
  | some (bi, a) => if a.bondingCapacity T < 0 then none else some (bi, a)

def processBranchSymbol (sym : Str) : Option (Nat × Nat) := lookup sym Gen.branchTable
def processRingSymbol (sym : Str) : Option (Nat × Nat × (Option Char × Option Char)) :=
  lookup sym Gen.ringTable

/-! ### index symbols -/

/-- `INDEX_CODE.get(c, 0)`; `none` is the `None` padding of `_read_index_from_selfies` -/
def indexDigit (c : Option Str) : Nat :=
  match c with
  | none => 0
  | some s => (lookup s Gen.indexCode).getD 0

/-- `get_index_from_selfies(*symbols)`:
    `sum(INDEX_CODE.get(c,0) * len(INDEX_CODE)**i for i, c in enumerate(reversed(symbols)))` -/
def getIndexFromSelfies (symbols : List (Option Str)) : Nat :=
  let base := Gen.indexCode.length
  let rec go : List (Option Str) → Nat → Nat
    | [], _ => 0
    | c :: rest, i => indexDigit c * base ^ i + go rest (i + 1)
  go symbols.reverse 0

/-- the `while index:` loop of `get_selfies_from_index`, least significant digit first -/
def selfiesDigitsLE (base : Nat) (fuel : Nat) (index : Nat) : List Nat :=
  match fuel with
  | 0 => []
  | fuel + 1 => if index = 0 then [] else (index % base) :: selfiesDigitsLE base fuel (index / base)

/-- `get_selfies_from_index(index)` for `index : int`; `IndexError` if negative, and the
    `INDEX_ALPHABET[...]` subscripts are explicit -/
def getSelfiesFromIndex (index : Int) : Py (List Str) :=
  if index < 0 then .error .IndexError
  else if index = 0 then do
    let s ← getIdx Gen.indexAlphabet 0
    pure [s]
  else
    let n := index.toNat
    let base := Gen.indexAlphabet.length
    if base < 2 then .error .ZeroDivisionError   -- `index % 0` (base 0); base 1 would not terminate
    else (selfiesDigitsLE base (n + 1) n).reverse.mapM (getIdx Gen.indexAlphabet)

/-! ### compatibility -/

/-- `modernize_symbol`.  `none` = a `ValueError`-class failure inside (none is possible after
    the int-digit fix, kept for robustness); callers map it to `DecoderError`. -/
def modernizeSymbol (sym : Str) : Py Str :=
  match lookup sym Gen.updateTable with
  | some s => .ok s
  | none =>
    if lastN sym 5 == ['e', 'x', 'p', 'l', ']'] then
      match sym with
      | _ :: c1 :: _ =>
        let (bondChar, atomSymbol) : Str × Str :=
          if isBondChar c1 then ([c1], (sym.drop 2).take (sym.length - 5 - 2))
          else ([], (sym.drop 1).take (sym.length - 5 - 1))
        match smilesToAtom (['['] ++ atomSymbol ++ [']']) with
        | some atom =>
          if !atom.isAromatic then do
            let a ← atomToSmiles atom false
            pure (['['] ++ bondChar ++ a ++ [']'])
          else .ok sym
        | none => .ok sym
      | _ => .error .IndexError
    else .ok sym

end SV
