/-
  Atoms, constraint tables, bonding capacity  (selfies/mol_graph.py `Atom`,
  selfies/bond_constraints.py `get_bonding_capacity`).
-/
import SelfiesVerif.Py
import SelfiesVerif.Generated.Tables
import SelfiesVerif.Generated.PyEnv

namespace SV

structure Atom where
  element : Str
  isAromatic : Bool
  isotope : Option Nat := none
  chirality : Option Str := none
  hCount : Option Nat := none
  charge : Int := 0
  deriving DecidableEq, Repr, Inhabited

/-- a constraint dictionary exactly as the library stores it (insertion ordered) -/
abbrev Constraints := List (Str × Nat)

def qKey : Str := ['?']

/-- the key `get_bonding_capacity` looks up -/
def capKey (element : Str) (charge : Int) : Str :=
  if charge = 0 then element else element ++ fmtPlus charge

/-- `get_bonding_capacity(element, charge)` under table `T` (uncached).  `KeyError` if the
    table has no `?` entry, which an accepted table always has. -/
def getBondingCapacity (T : Constraints) (element : Str) (charge : Int) : Py Nat :=
  match lookup (capKey element charge) T with
  | some v => .ok v
  | none => getKey T qKey

/-- An accepted table: the `?` default is split off so that capacity is total. -/
structure Table where
  entries : Constraints
  dflt : Nat
  deriving Repr, DecidableEq

def Table.ofDict (d : Constraints) : Option Table :=
  match lookup qKey d with
  | some q => some { entries := d, dflt := q }
  | none => none

def Table.capacity (T : Table) (element : Str) (charge : Int) : Nat :=
  match lookup (capKey element charge) T.entries with
  | some v => v
  | none => T.dflt

/-- `Atom.bonding_capacity` (may be negative: too many explicit H) -/
def Atom.bondingCapacity (T : Table) (a : Atom) : Int :=
  (T.capacity a.element a.charge : Int) - (a.hCount.getD 0 : Nat)

/-- `Atom.invert_chirality` -/
def Atom.invertChirality (a : Atom) : Atom :=
  if a.chirality = some ['@'] then { a with chirality := some ['@', '@'] }
  else if a.chirality = some ['@', '@'] then { a with chirality := some ['@'] }
  else a

/-! ### Unicode classes used by the two regular expressions and the SMILES tokenizer -/

/-- value of a Unicode decimal digit (category Nd): regex `\d`, accepted by `int()` -/
def decimalVal? (c : Char) : Option Nat :=
  match Gen.decimalStarts.find? (fun s => s ≤ c.toNat && c.toNat < s + 10) with
  | some s => some (c.toNat - s)
  | none => none

def isDecimal (c : Char) : Bool := (decimalVal? c).isSome
def pyIsDigit (c : Char) : Bool := inRanges Gen.isdigitRanges c
def pyIsNumeric (c : Char) : Bool := inRanges Gen.isnumericRanges c
def pyIsAlpha (c : Char) : Bool := inRanges Gen.isalphaRanges c

/-- `int(s)` for a non-empty string of decimal digits; `none` = `ValueError`
    (more than `sys.get_int_max_str_digits()` digits) -/
def pyIntOfDigits (s : Str) : Option Nat :=
  if s.length > Gen.intMaxStrDigits then none
  else some (digitsVal (s.map fun c => (decimalVal? c).getD 0))

/-- Python frames available to the two recursive functions (`_derive_mol_from_symbols`,
    `_fragment_to_selfies`) before `RecursionError`; the exact threshold depends on the caller's
    stack depth (DESIGN §3), so the harness never compares inputs whose nesting depth is within a
    factor 2 of it. -/
def recursionBudget : Nat := Gen.recursionLimit - 40

def memStr (s : Str) (l : List Str) : Bool := l.contains s

end SV
