/-
  Runtime support for the code that `harness/py2lean.py` emits (NOT generated; hand-written like
  `Py.lean`, which it extends).  One definition per Python primitive that the translator's subset
  uses, each with its failure made explicit.  The translator never emits anything that is not
  either core Lean (`List.foldl`, `List.foldlM`, `List.reverse`, `List.range`, `++`, arithmetic on
  `Int`) or a definition of this file / of `Py.lean`.

  Conventions of the translation:
  * a Python `int` is an `Int`; an `int` that is non-negative by construction (`len(..)`, the
    counter of `enumerate`, the variable of `range`) is a `Nat`;
  * a `str` is a `Str`; a value that may be `None` is an `Option`;
  * a `dict` with `str` keys and `int ≥ 0` values (the generated tables, the constraint table) is
    an association list `List (Str × Nat)` in insertion order, exactly as `gen_tables.py` dumps
    them; keys are passed as `Option Str` because the code also looks up `None`
    (`INDEX_CODE.get(None, 0)`), which is never a key;
  * an iterator is an abstract state `I` together with its `next` function
    `I → Py (item × I)`; exhaustion is `.error .StopIteration`.
-/
import SelfiesVerif.Py

namespace SV.PyRt
open SV

/-! ### integer arithmetic -/

/-- `a // b` (floor division; `ZeroDivisionError` for `b = 0`) -/
def floorDiv (a b : Int) : Py Int :=
  if b = 0 then .error .ZeroDivisionError else .ok (Int.fdiv a b)

/-- `a % b` (sign of the divisor; `ZeroDivisionError` for `b = 0`) -/
def mod (a b : Int) : Py Int :=
  if b = 0 then .error .ZeroDivisionError else .ok (Int.fmod a b)

/-- `divmod(a, b)` -/
def divmod (a b : Int) : Py (Int × Int) :=
  if b = 0 then .error .ZeroDivisionError else .ok (Int.fdiv a b, Int.fmod a b)

/-! ### sequences -/

/-- `seq[i]` for a list / tuple and an `int` index (negative indices count from the end) -/
def index {α} (l : List α) (i : Int) : Py α :=
  if 0 ≤ i then getIdx l i.toNat
  else if i.natAbs ≤ l.length then getIdx l (l.length - i.natAbs)
  else .error .IndexError

/-- `enumerate(seq, start)` -/
def enumerateFrom {α} : Nat → List α → List (Nat × α)
  | _, [] => []
  | k, x :: xs => (k, x) :: enumerateFrom (k + 1) xs

/-- `enumerate(seq)` -/
def enumerate {α} (l : List α) : List (Nat × α) := enumerateFrom 0 l

/-! ### dictionaries `str ↦ int ≥ 0` -/

/-- `d.get(k)` -/
def dictGet? (d : List (Str × Nat)) (k : Option Str) : Option Int :=
  match k with
  | none => none
  | some s =>
    match lookup s d with
    | some v => some (v : Int)
    | none => none

/-- `d.get(k, dflt)` -/
def dictGetD (d : List (Str × Nat)) (k : Option Str) (dflt : Int) : Int :=
  match dictGet? d k with
  | some v => v
  | none => dflt

/-- `k in d` -/
def dictHas (d : List (Str × Nat)) (k : Option Str) : Bool :=
  (dictGet? d k).isSome

/-- `d[k]` -/
def dictItem (d : List (Str × Nat)) (k : Option Str) : Py Int :=
  match dictGet? d k with
  | some v => .ok v
  | none => .error .KeyError

/-! ### values of a `Union[A, B]` annotation (Lean sums), lists of ints, dicts with `int` keys -/

/-- iterating over a value that is a list of `α` or a list of `β` -/
def sumItems {α β} : List α ⊕ List β → List (α ⊕ β)
  | .inl l => l.map .inl
  | .inr l => l.map .inr

/-- `l.index(v)` on a list of ints (`ValueError` if absent) -/
def listIndexOf (l : List Int) (v : Int) : Py Int :=
  match l.findIdx? (· == v) with
  | some i => .ok i
  | none => .error .ValueError

/-- `x.index(v)` where `x` is an int (no such attribute) or a list of ints -/
def sumIndexOf (x : Int ⊕ List Int) (v : Int) : Py Int :=
  match x with
  | .inl _ => .error .AttributeError
  | .inr l => listIndexOf l v

/-- `d[k]` on a dict with `int` keys -/
def dictItemI {β} (d : List (Int × β)) (k : Int) : Py β := getKey d k

/-- `d[k]` on a dict with `int` keys where `k` is an int or a list (unhashable: `TypeError`) -/
def dictItemSum {β} (d : List (Int × β)) (k : Int ⊕ List Int) : Py β :=
  match k with
  | .inl i => getKey d i
  | .inr _ => .error .TypeError

/-- `seq[k]` where `k` is an int or a list (`TypeError`: list indices must be integers) -/
def indexSum {α} (l : List α) (k : Int ⊕ List Int) : Py α :=
  match k with
  | .inl i => index l i
  | .inr _ => .error .TypeError

/-! ### dicts `str ↦ int`, repetition, item assignment, generators -/

/-- `d[k]` on a dict `str ↦ int` -/
def dictItemSI (d : List (Str × Int)) (k : Str) : Py Int := getKey d k

/-- `k in d` on a dict `str ↦ int` -/
def dictHasSI (d : List (Str × Int)) (k : Str) : Bool := (lookup k d).isSome

/-- `d.get(k)` on a dict `str ↦ int` -/
def dictGetSI? (d : List (Str × Int)) (k : Str) : Option Int := lookup k d

/-- `s * n` on a str (empty for `n ≤ 0`) -/
def strMul (s : Str) (n : Int) : Str := (List.replicate n.toNat s).flatten

/-- `l * n` on a list (empty for `n ≤ 0`) -/
def listMul {α} (l : List α) (n : Int) : List α := (List.replicate n.toNat l).flatten

/-- `l[i] = v` (negative indices count from the end; `IndexError` outside) -/
def setItem {α} (l : List α) (i : Int) (v : α) : Py (List α) :=
  if 0 ≤ i ∧ i < l.length then .ok (l.set i.toNat v)
  else if -(l.length : Int) ≤ i ∧ i < 0 then .ok (l.set (i + l.length).toNat v)
  else .error .IndexError

/-- the end of a `for` over a generator: the exception that ended the iteration, if any -/
def genEnd (e : Option PyExc) : Py Unit :=
  match e with
  | some x => .error x
  | none => .ok ()

/-- `needle in hay` on strs (substring test) -/
def strContains : Str → Str → Bool
  | [], needle => needle.isEmpty
  | c :: t, needle => needle.isPrefixOf (c :: t) || strContains t needle

/-! ### `str.count` of one character, sets of hashable values -/

/-- `s.count(c)` for a one-character string `c` (occurrences of one character cannot overlap) -/
def strCount1 (s : Str) (c : Char) : Nat := s.count c

/-- `x.add(v)` on a set, kept as a duplicate-free list in insertion order -/
def setAdd {α} [BEq α] (x : List α) (v : α) : List α := if x.contains v then x else x ++ [v]

/-- `x.discard(v)` on a set (no error if absent) -/
def setDiscard {α} [BEq α] (x : List α) (v : α) : List α := x.filter (· != v)

/-- `set(xs)`: the distinct items in order of first occurrence -/
def setOfList {α} [BEq α] (l : List α) : List α := l.foldl setAdd []

/-- running a generator to its end (`list(g)`, `set(g)`): its items, or the exception that ends it -/
def genList {α} (g : List α × Option PyExc) : Py (List α) :=
  match g.2 with
  | some e => .error e
  | none => .ok g.1

/-- `sep.join(xs)` on strs -/
def strJoin (sep : Str) (xs : List Str) : Str := List.intercalate sep xs

/-! ### `str.find` of one character, slices of strs, generator functions -/

/-- index of the first `c` in `s` -/
def findChar (c : Char) : Str → Option Nat
  | [] => none
  | d :: ds => if d == c then some 0 else (findChar c ds).map (· + 1)

/-- a slice / start index as a position `0 ≤ · ≤ len` (negative: from the end; clamped) -/
def normIdx (len : Nat) (i : Int) : Nat :=
  if i < 0 then (len + i).toNat else min i.toNat len

/-- `s.find(c, start)` for a one-character string `c` (`-1` if absent) -/
def strFind1 (s : Str) (c : Char) (start : Int) : Int :=
  match findChar c (s.drop (normIdx s.length start)) with
  | some k => ((normIdx s.length start + k : Nat) : Int)
  | none => -1

/-- `s[a:b]` on a str -/
def strSlice (s : Str) (a b : Int) : Str :=
  (s.drop (normIdx s.length a)).take (normIdx s.length b - normIdx s.length a)

/-- a translated generator function: its body runs in `Except (PyExc × List item)` (the items
    yielded so far travel with the exception); the outcome in the generator protocol -/
def genRun {α} (r : Except (PyExc × List α) (List α)) : List α × Option PyExc :=
  match r with
  | .ok out => (out, none)
  | .error (e, out) => (out, some e)

end SV.PyRt
