/-
  Hand-written copies of the three grammar state functions over `Int`, used by the generated
  `StateFns.lean` ONLY when the translator reports that a function left its subset
  (`translatorFallbacks ≠ []`); the harness then ties that function to the code by an
  exhaustive grid correspondence instead.  (Not generated.)

  Second part: hand copies of the functions of the wider subset (`IndexFns.lean`,
  `CapacityFns.lean`, `ReadIndexFns.lean`), used in the same way: ONLY when the translator
  reports a fallback for that function (then the group's `translatorFallbacks…` constant is
  non-empty and the theorem `translator_no_fallback_…` of Proofs/GenEq2–4.lean fails).  They
  are frozen copies of the translator's output for the pristine source.
-/
import SelfiesVerif.Py
import SelfiesVerif.Generated.PyRt
import SelfiesVerif.Generated.Tables
set_option linter.unusedVariables false
namespace SV.Gen.Fallback
open SV

def next_atom_state (bond_order bond_cap state : Int) : Py (Int × Option Int) :=
  let bo : Int := if state = 0 then 0 else bond_order
  let bo := min (min bo state) bond_cap
  let left := bond_cap - bo
  .ok (bo, if left = 0 then none else some left)

def next_branch_state (branch_type state : Int) : Py (Int × Int) :=
  if 1 ≤ branch_type ∧ branch_type ≤ 3 then
    if state > 1 then
      let b := min (state - 1) branch_type
      .ok (b, state - b)
    else .error .AssertionError
  else .error .AssertionError

def next_ring_state (ring_type state : Int) : Py (Int × Option Int) :=
  if state > 0 then
    let bo := min ring_type state
    let left := state - bo
    .ok (bo, if left = 0 then none else some left)
  else .error .AssertionError

/-! ### index code (selfies/grammar_rules.py) -/

/-- `get_index_from_selfies` of selfies/grammar_rules.py (line 80), hand copy. -/
def get_index_from_selfies (symbols : (List (Option Str))) : Py Int := do
  let index : Int := (0 : Int)
  let index : Int := List.foldl (fun (index : Int) (x_1 : (Nat × (Option Str))) =>
      let i : Nat := x_1.1
      let c : (Option Str) := x_1.2
      let index : Int := (index + ((PyRt.dictGetD indexCode c (0 : Int)) * ((((List.length indexCode) : Nat) : Int) ^ i)))
      index
      ) index (PyRt.enumerate (List.reverse symbols))
  Except.ok index

/-- `while` loop #1 of `get_selfies_from_index` (line 95).  State: (index, symbols); read only: base.
    Fuel: `index` is only changed by a floor division by `base`, once per iteration, and the loop
    runs while `index` is non-zero.  For `base ≥ 2` and `index > 0` the quotient is smaller, so at
    most `index` iterations happen and `index.toNat + 1` units of fuel (one per test) suffice;
    if `base < 2` the Python loop raises ZeroDivisionError or does not terminate, the latter
    shows up as `.error .NonTermination`.  (Proved in Proofs/GenEq2.lean.) -/
def get_selfies_from_index_while1 (base : Nat) : Nat → (Int × (List Str)) → Py (Int × (List Str))
  | 0, _ => Except.error PyExc.NonTermination
  | py_fuel + 1, st_1 => do
    let index : Int := st_1.1
    let symbols : (List Str) := st_1.2
    if (decide (index ≠ 0)) then
      let t_2 ← PyRt.mod index ((base : Nat) : Int)
      let t_3 ← PyRt.index indexAlphabet t_2
      let symbols : (List Str) := (symbols ++ [t_3])
      let t_4 ← PyRt.floorDiv index ((base : Nat) : Int)
      let index : Int := t_4
      get_selfies_from_index_while1 base py_fuel (index, symbols)
    else
      Except.ok (index, symbols)

/-- `get_selfies_from_index` of selfies/grammar_rules.py (line 87), hand copy. -/
def get_selfies_from_index (index : Int) : Py (List Str) := do
  if ((decide (index < (0 : Int)))) then
    Except.error PyExc.IndexError
  else
    if ((decide (index = (0 : Int)))) then
      let t_1 ← PyRt.index indexAlphabet (0 : Int)
      Except.ok [t_1]
    else
      let symbols : (List Str) := []
      let base : Nat := (List.length indexAlphabet)
      let st_1 : (Int × (List Str)) ← get_selfies_from_index_while1 base (Int.toNat index + 1) (index, symbols)
      let index : Int := st_1.1
      let symbols : (List Str) := st_1.2
      Except.ok (List.reverse symbols)

/-! ### bonding capacity (selfies/bond_constraints.py, selfies/mol_graph.py) -/

/-- `get_bonding_capacity` of selfies/bond_constraints.py (line 189), hand copy. Decorators ignored: functools.lru_cache(). -/
def get_bonding_capacity (_current_constraints : (List (Str × Nat))) (element : Str) (charge : Int) : Py Int := do
  let key : Str := element
  if ((decide (charge ≠ (0 : Int)))) then
    let key : Str := (key ++ (fmtPlus charge))
    if ((PyRt.dictHas _current_constraints (some key))) then
      let t_1 ← PyRt.dictItem _current_constraints (some key)
      Except.ok t_1
    else
      let t_2 ← PyRt.dictItem _current_constraints (some (['?'] : Str))
      Except.ok t_2
  else
    if ((PyRt.dictHas _current_constraints (some key))) then
      let t_3 ← PyRt.dictItem _current_constraints (some key)
      Except.ok t_3
    else
      let t_4 ← PyRt.dictItem _current_constraints (some (['?'] : Str))
      Except.ok t_4

/-- `Atom.bonding_capacity` of selfies/mol_graph.py (line 57), hand copy. Decorators ignored: property, functools.lru_cache(). -/
def Atom_bonding_capacity (_current_constraints : (List (Str × Nat))) (self_element : Str) (self_charge : Int) (self_h_count : (Option Int)) : Py Int := do
  let t_1 ← get_bonding_capacity _current_constraints self_element self_charge
  let bond_cap : Int := t_1
  let bond_cap : Int := (bond_cap - (match self_h_count with | none => (0 : Int) | some self_h_count => self_h_count))
  Except.ok bond_cap

/-! ### index reader (selfies/decoder.py) -/

/-- `_read_index_from_selfies` of selfies/decoder.py (line 210), hand copy. -/
def read_index_from_selfies {ι : Type} (py_next : ι → Py ((Nat × Str) × ι)) (symbol_iter : ι) (n_symbols : Int) : Py ((Int × Int) × ι) := do
  let index_symbols : (List (Option Str)) := []
  let n_read : Int := (0 : Int)
  let st_1 : (Int × (List (Option Str)) × ι) ← List.foldlM (m := Py) (fun (st_1 : (Int × (List (Option Str)) × ι)) (x_1 : Nat) => do
      let n_read : Int := st_1.1
      let index_symbols : (List (Option Str)) := st_1.2.1
      let symbol_iter : ι := st_1.2.2
      match (py_next symbol_iter : Py ((Nat × Str) × ι)) with
      | Except.ok t_1 =>
        let symbol_iter : ι := t_1.2
        let index_symbols : (List (Option Str)) := (index_symbols ++ [(some t_1.1.2)])
        let n_read : Int := (n_read + (1 : Int))
        Except.ok (n_read, index_symbols, symbol_iter)
      | Except.error PyExc.StopIteration =>
        let index_symbols : (List (Option Str)) := (index_symbols ++ [(none : (Option Str))])
        Except.ok (n_read, index_symbols, symbol_iter)
      | Except.error py_e => Except.error py_e
      ) (n_read, index_symbols, symbol_iter) (List.range (Int.toNat n_symbols))
  let n_read : Int := st_1.1
  let index_symbols : (List (Option Str)) := st_1.2.1
  let symbol_iter : ι := st_1.2.2
  let t_2 ← get_index_from_selfies index_symbols
  Except.ok ((t_2, n_read), symbol_iter)

/-! ### encodings (selfies/utils/encoding_utils.py) -/

/-- `encoding_to_selfies` of selfies/utils/encoding_utils.py (line 77), hand copy. -/
def encoding_to_selfies (encoding : ((List Int) ⊕ (List (List Int)))) (vocab_itos : (List (Int × Str))) (enc_type : Str) : Py Str := do
  if ((!(List.elem enc_type [(['l', 'a', 'b', 'e', 'l'] : Str), (['o', 'n', 'e', '_', 'h', 'o', 't'] : Str)]))) then
    Except.error PyExc.ValueError
  else
    if ((decide (enc_type = (['o', 'n', 'e', '_', 'h', 'o', 't'] : Str)))) then
      let integer_encoded : (List Int) := []
      let integer_encoded : (List Int) ← List.foldlM (m := Py) (fun (integer_encoded : (List Int)) (row : (Int ⊕ (List Int))) => do
          let t_1 ← PyRt.sumIndexOf row (1 : Int)
          let integer_encoded : (List Int) := (integer_encoded ++ [t_1])
          Except.ok integer_encoded
          ) integer_encoded (PyRt.sumItems encoding)
      let t_3 ← List.mapM (m := Py) (fun (i : Int) => do let t_2 ← PyRt.dictItemI vocab_itos i; Except.ok t_2) integer_encoded
      let char_list : (List Str) := t_3
      let selfies : Str := (List.flatten char_list)
      Except.ok selfies
    else
      let integer_encoded : ((List Int) ⊕ (List (List Int))) := encoding
      let t_5 ← List.mapM (m := Py) (fun (i : (Int ⊕ (List Int))) => do let t_4 ← PyRt.dictItemSum vocab_itos i; Except.ok t_4) (PyRt.sumItems integer_encoded)
      let char_list : (List Str) := t_5
      let selfies : Str := (List.flatten char_list)
      Except.ok selfies

/-- `selfies_to_encoding` of selfies/utils/encoding_utils.py (line 6), hand copy. -/
def selfies_to_encoding (len_selfies : (Str → Nat)) (split_selfies : (Str → ((List Str) × (Option PyExc)))) (selfies : Str) (vocab_stoi : (List (Str × Int))) (pad_to_len : Int) (enc_type : Str) : Py ((List Int) ⊕ ((List (List Int)) ⊕ ((List Int) × (List (List Int))))) := do
  if ((!(List.elem enc_type [(['l', 'a', 'b', 'e', 'l'] : Str), (['o', 'n', 'e', '_', 'h', 'o', 't'] : Str), (['b', 'o', 't', 'h'] : Str)]))) then
    Except.error PyExc.ValueError
  else
    let selfies : Str := (if ((decide (pad_to_len > (((len_selfies selfies) : Nat) : Int)))) then
        let selfies : Str := (selfies ++ (PyRt.strMul (['[', 'n', 'o', 'p', ']'] : Str) (pad_to_len - (((len_selfies selfies) : Nat) : Int))))
        selfies
      else
        selfies)
    let integer_encoded : (List Int) := []
    let t_1 : ((List Str) × (Option PyExc)) := (split_selfies selfies)
    let integer_encoded : (List Int) ← List.foldlM (m := Py) (fun (integer_encoded : (List Int)) (char : Str) => do
        if (((decide (char = (['.'] : Str)))) && ((!(PyRt.dictHasSI vocab_stoi (['.'] : Str))))) then
          Except.error PyExc.KeyError
        else
          let t_2 ← PyRt.dictItemSI vocab_stoi char
          let integer_encoded : (List Int) := (integer_encoded ++ [t_2])
          Except.ok integer_encoded
        ) integer_encoded t_1.1
    let _ ← PyRt.genEnd t_1.2
    if ((decide (enc_type = (['l', 'a', 'b', 'e', 'l'] : Str)))) then
      Except.ok (Sum.inl integer_encoded)
    else
      let one_hot_encoded : (List (List Int)) := []
      let one_hot_encoded : (List (List Int)) ← List.foldlM (m := Py) (fun (one_hot_encoded : (List (List Int))) (index : Int) => do
          let letter : (List Int) := (PyRt.listMul [(0 : Int)] (((List.length vocab_stoi) : Nat) : Int))
          let t_3 ← PyRt.setItem letter index (1 : Int)
          let letter : (List Int) := t_3
          let one_hot_encoded : (List (List Int)) := (one_hot_encoded ++ [letter])
          Except.ok one_hot_encoded
          ) one_hot_encoded integer_encoded
      if ((decide (enc_type = (['o', 'n', 'e', '_', 'h', 'o', 't'] : Str)))) then
        Except.ok (Sum.inr (Sum.inl one_hot_encoded))
      else
        Except.ok (Sum.inr (Sum.inr (integer_encoded, one_hot_encoded)))

/-- `len_selfies` of selfies/utils/selfies_utils.py (line 4), hand copy. -/
def len_selfies (selfies : Str) : Py Int := do
  Except.ok ((((PyRt.strCount1 selfies '[') : Nat) : Int) + (((PyRt.strCount1 selfies '.') : Nat) : Int))

/-- `get_alphabet_from_selfies` of selfies/utils/selfies_utils.py (line 49), hand copy. -/
def get_alphabet_from_selfies (split_selfies : (Str → ((List Str) × (Option PyExc)))) (selfies_iter : (List Str)) : Py (List Str) := do
  let alphabet : (List Str) := []
  let alphabet : (List Str) ← List.foldlM (m := Py) (fun (alphabet : (List Str)) (s : Str) => do
      let t_1 : ((List Str) × (Option PyExc)) := (split_selfies s)
      let alphabet : (List Str) := List.foldl (fun (alphabet : (List Str)) (symbol : Str) =>
          let alphabet : (List Str) := (PyRt.setAdd alphabet symbol)
          alphabet
          ) alphabet t_1.1
      let _ ← PyRt.genEnd t_1.2
      Except.ok alphabet
      ) alphabet selfies_iter
  let alphabet : (List Str) := (PyRt.setDiscard alphabet (['.'] : Str))
  Except.ok alphabet

/-- the `while` loop of `split_selfies` (line 35): structural recursion on a fuel argument -/
def split_selfies_while1 (selfies : Str) : Nat → (Int × (List Str)) → Except (PyExc × (List Str)) (Int × (List Str))
  | 0, py_st => Except.error (PyExc.NonTermination, py_st.2)
  | py_fuel + 1, py_st => do
    let left_idx : Int := py_st.1
    let py_out : (List Str) := py_st.2
    if ((decide ((0 : Int) ≤ left_idx)) && (decide (left_idx < (((List.length selfies) : Nat) : Int)))) then
      let right_idx : Int := (PyRt.strFind1 selfies ']' (left_idx + (1 : Int)))
      let py_out : (List Str) ← (if ((decide (right_idx = (-(1 : Int))))) then do
          Except.error (PyExc.ValueError, py_out)
        else do
          Except.ok py_out)
      let next_symbol : Str := (PyRt.strSlice selfies left_idx (right_idx + (1 : Int)))
      let py_out : (List Str) := (py_out ++ [next_symbol])
      let left_idx : Int := (right_idx + (1 : Int))
      let py_st_2 : (Int × (List Str)) ← (if ((decide ((PyRt.strSlice selfies left_idx (left_idx + (1 : Int))) = (['.'] : Str)))) then do
          let py_out : (List Str) := (py_out ++ [(['.'] : Str)])
          let left_idx : Int := (left_idx + (1 : Int))
          Except.ok (left_idx, py_out)
        else do
          Except.ok (left_idx, py_out))
      let left_idx : Int := py_st_2.1
      let py_out : (List Str) := py_st_2.2
      split_selfies_while1 selfies py_fuel (left_idx, py_out)
    else
      Except.ok (left_idx, py_out)

/-- `split_selfies` of selfies/utils/selfies_utils.py (line 20), hand copy. -/
def split_selfies (selfies : Str) : ((List Str) × (Option PyExc)) :=
  PyRt.genRun (do
    let py_out : (List Str) := []
    let left_idx : Int := (PyRt.strFind1 selfies '[' (0 : Int))
    let py_st_w1 : (Int × (List Str)) ← split_selfies_while1 selfies (Int.toNat ((((List.length selfies) : Nat) : Int) - left_idx) + 1) (left_idx, py_out)
    let left_idx : Int := py_st_w1.1
    let py_out : (List Str) := py_st_w1.2
    Except.ok py_out)

end SV.Gen.Fallback
