/-
  Hand-written copies of the three grammar state functions over `Int`, used by the generated
  `StateFns.lean` ONLY when the translator reports that a function left its subset
  (`translatorFallbacks ≠ []`); the harness then ties that function to the code by an
  exhaustive grid correspondence instead.  (Not generated.)
-/
import SelfiesVerif.Py
namespace SV.Gen.Fallback
open SV

def next_atom_state (bond_order bond_cap state : Int) : Py (Int × Option Int) :=
  let bo : Int := if state = 0 then 0 else bond_order
  let bo := min (min bo state) bond_cap
  let left := bond_cap - bo
  .ok (bo, if left = 0 then none else some left)

def next_branch_state (branch_type state : Int) : Py (Int × Int) :=
  if 1 ≤ branch_type ∧ branch_type ≤ 3 then
    if state > 1 then
      let b := min (state - 1) branch_type
      .ok (b, state - b)
    else .error .AssertionError
  else .error .AssertionError

def next_ring_state (ring_type state : Int) : Py (Int × Option Int) :=
  if state > 0 then
    let bo := min ring_type state
    let left := state - bo
    .ok (bo, if left = 0 then none else some left)
  else .error .AssertionError

end SV.Gen.Fallback
