/-
  C03: symbol-level facts.  Every symbol `Tree.encode` emits is a bracketed symbol (so the
  decoder's tokenizer returns it unchanged), is not `[nop]`, is dispatched to the right case of the
  decoder's cascade and is read back with the information the encoder put in (C10, C16).
-/
import SelfiesVerif.Proofs.RoundTripEnc
import SelfiesVerif.Props.C10
import SelfiesVerif.Proofs.Tokenize

namespace SV

/-! ### well-formed atoms -/

theorem Atom.wfb_sound (a : Atom) (h : a.wfb = true) : AtomWF a ∧ readback a = a := by
  unfold Atom.wfb at h
  simp only [Bool.and_eq_true, Bool.or_eq_true, beq_iff_eq, decide_eq_true_eq, memStr_iff] at h
  obtain ⟨⟨⟨⟨hel, hchir⟩, hh⟩, hiso⟩, hchg⟩ := h
  refine ⟨⟨⟨hel, ?_, ?_, ?_, ?_⟩, hchg⟩, ?_⟩
  · rcases hchir with (h | h) | h
    · exact Or.inl h
    · exact Or.inr (Or.inl h)
    · exact Or.inr (Or.inr h)
  · intro hn
    rw [hn] at hh
    simp only [Bool.and_eq_true, beq_iff_eq, memStr_iff] at hh
    exact ⟨hh.1.1.1, hh.1.1.2, hh.1.2⟩
  · intro k hk
    rw [hk] at hh
    simpa using hh
  · intro n hn
    rw [hn] at hiso
    simpa using hiso
  · unfold readback
    cases hc : a.hCount with
    | some _ => rfl
    | none =>
      rw [hc] at hh
      simp only [Bool.and_eq_true, beq_iff_eq, memStr_iff] at hh
      have : memStr a.element Gen.organicSubset = true := (memStr_iff _ _).2 hh.2
      simp only [this, if_true]

/-! ### bracketed symbols -/

def bracketFree (c : Char) : Prop := c.toNat ≠ 91 ∧ c.toNat ≠ 93 ∧ c.toNat ≠ 46

instance (c : Char) : Decidable (bracketFree c) := by unfold bracketFree; infer_instance

theorem bodyOK_of_goodChars (body : Str) (h : ∀ c ∈ body, bracketFree c) : BodyOK body := by
  refine ⟨fun hm => (h _ hm).1 (by decide), fun hm => (h _ hm).2.1 (by decide),
    fun hm => (h _ hm).2.2 (by decide)⟩

theorem SelfiesParts.isSymbol (P : SelfiesParts) (hP : P.OK) : IsSymbol P.sym := by
  obtain ⟨bc, iso, e1, e2, chir, h, chg⟩ := P
  obtain ⟨hbc, hiso, he1, he2, hchir, hh, hchg⟩ := hP
  simp only at hbc hiso he1 he2 hchir hh hchg
  refine ⟨bc.toList ++ SelfiesParts.inner ⟨bc, iso, e1, e2, chir, h, chg⟩, bodyOK_of_goodChars _ ?_, ?_⟩
  · have hdig : ∀ c, isAsciiDigit c = true → bracketFree c := by
      intro c hc; rw [isAsciiDigit_iff] at hc; unfold bracketFree; omega
    intro c hc
    simp only [SelfiesParts.inner, List.mem_append, List.mem_cons] at hc
    rcases hc with hc | hc | hc | hc | hc | hc | hc
    · cases bc with
      | none => cases hc
      | some b =>
        simp only [Option.toList_some, List.mem_singleton] at hc
        subst hc
        have := (isBondChar_iff c).1 (hbc c rfl)
        unfold bracketFree; omega
    · exact hdig c (hiso c hc)
    · subst hc
      rw [isAsciiUpper_iff] at he1; unfold bracketFree; omega
    · cases e2 with
      | none => cases hc
      | some l =>
        simp only [Option.toList_some, List.mem_singleton] at hc
        subst hc
        have := (isAsciiLower_iff c).1 (he2 c rfl)
        unfold bracketFree; omega
    · rcases hchir with rfl | rfl | rfl
      · cases hc
      · simp only [List.mem_singleton] at hc; subst hc; decide
      · simp only [List.mem_cons, List.not_mem_nil, or_false, or_self] at hc; subst hc; decide
    · cases h with
      | none => cases hc
      | some d =>
        simp only [hTextS, List.mem_cons, List.not_mem_nil, or_false] at hc
        rcases hc with rfl | rfl
        · decide
        · exact hdig _ (hh _ rfl)
    · cases chg with
      | none => cases hc
      | some sd =>
        obtain ⟨s, ds⟩ := sd
        obtain ⟨hs, d, ds', rfl, hd, hds'⟩ := hchg s _ rfl
        simp only [chgTextS, List.mem_cons] at hc
        rcases hc with rfl | rfl | hc
        · rcases hs with rfl | rfl <;> decide
        · exact hdig _ (isAsciiDigit_of_isDigit19 hd)
        · exact hdig _ (hds' c hc)
  · simp only [SelfiesParts.sym, symbolOf, List.append_assoc, List.cons_append]

/-! ### atom symbols -/

/-- the atom symbol is assembled from well-formed parts -/
theorem atomSym_parts (into : Option PBond) (a : Atom) (hs : AtomShape a) (harom : a.isAromatic = false)
    (hb : ∀ b, into = some b → okOrder2 b.order2) :
    ∃ (o : Option Char) (e1 : Char) (e2 : Option Char),
      (atomParts o a e1 e2).OK ∧ atomSym into a = (atomParts o a e1 e2).sym := by
  obtain ⟨e1, e2, he, h1, h2⟩ := isElementShape_split (elementTablesOK.shape _ hs.element)
  have hx := atomToSelfies_eq_atomSym into a harom hb
  unfold atomToSelfies at hx
  simp only [harom, pyAssert, Bool.not_false, if_true, bind, Except.bind] at hx
  cases into with
  | none =>
    refine ⟨none, e1, e2, atomParts_ok a hs none (fun c hc => by cases hc) e1 e2 h1 h2, ?_⟩
    simp only [pure, Except.pure, atomToSmiles_parts a hs harom none e1 e2 he,
      Except.ok.injEq] at hx
    rw [← hx]
    simp [SelfiesParts.sym, atomParts]
  | some b =>
    simp only at hx
    cases hbc : bondToSelfies b true with
    | error e => rw [hbc] at hx; cases hx
    | ok bc =>
      obtain ⟨o, rfl, ho, _⟩ := bondToSelfies_true b bc hbc
      refine ⟨o, e1, e2, atomParts_ok a hs o ho e1 e2 h1 h2, ?_⟩
      rw [hbc] at hx
      simp only [pure, Except.pure, atomToSmiles_parts a hs harom o e1 e2 he,
        Except.ok.injEq] at hx
      rw [← hx]
      simp [SelfiesParts.sym, atomParts]

structure AtomSymFacts (T : Table) (into : Option PBond) (a : Atom) : Prop where
  isSym : IsSymbol (atomSym into a)
  notNop : atomSym into a ≠ nopSym
  notBranch : sliceFromEnd (atomSym into a) 4 2 ≠ ['c', 'h']
  notRing : sliceFromEnd (atomSym into a) 4 2 ≠ ['n', 'g']
  notEps : containsSub (atomSym into a) ['e', 'p', 's'] = false
  read : processAtomSymbol T (atomSym into a) = some (encBondInfo into, a)

theorem atomSym_facts (T : Table) (into : Option PBond) (a : Atom) (hwf : a.wfb = true)
    (harom : a.isAromatic = false) (hb : ∀ b, into = some b → okOrder2 b.order2)
    (hcap : 0 ≤ a.bondingCapacity T) : AtomSymFacts T into a := by
  obtain ⟨hW, hrb⟩ := Atom.wfb_sound a hwf
  obtain ⟨o, e1, e2, hok, hsym⟩ := atomSym_parts into a hW.toAtomShape harom hb
  have hll : hasLL (atomSym into a) = false := by rw [hsym]; exact SelfiesParts.hasLL_false _ hok
  obtain ⟨d1, d2, d3⟩ := dispatch_of_not_hasLL _ hll
  refine ⟨by rw [hsym]; exact SelfiesParts.isSymbol _ hok, ?_, d1, d2, d3, ?_⟩
  · intro e
    rw [e] at hll
    revert hll; decide
  · have := (C10_atomToSelfies_accepted into a hW _ (atomToSelfies_eq_atomSym into a harom hb)).2
    unfold processAtomSymbol
    rw [this, hrb]
    simp only
    rw [if_neg (by omega)]

/-! ### ring, branch and index symbols -/

theorem index_alphabet_symbols : ∀ x ∈ Gen.indexAlphabet, IsSymbol x ∧ x ≠ nopSym := by
  decide +kernel

theorem ring_branch_symbols_are_symbols :
    ∀ L ∈ [1, 2, 3],
      (∀ p ∈ branchPrefixes, IsSymbol (ringSymbol p.1 "Branch".toList L)
        ∧ ringSymbol p.1 "Branch".toList L ≠ nopSym)
      ∧ (∀ p ∈ ringPrefixes, IsSymbol (ringSymbol p.1 "Ring".toList L)
        ∧ ringSymbol p.1 "Ring".toList L ≠ nopSym) := by
  decide +kernel

structure IdxFacts (n : Nat) : Prop where
  len : 1 ≤ (idxSyms n).length ∧ (idxSyms n).length ≤ 3
  value : getIndexFromSelfies ((idxSyms n).map some) = n
  syms : ∀ x ∈ idxSyms n, IsSymbol x ∧ x ≠ nopSym

theorem idxSyms_facts (n : Nat) (hn : n < 16 ^ 3) : IdxFacts n := by
  obtain ⟨q, hq, h1, h2, _⟩ := C10_branch_ring_symbols_accepted n hn
  have hq' := getSelfiesFromIndex_eq n
  rw [hq] at hq'
  injection hq' with hq'
  subst hq'
  obtain ⟨q', hq1, hq2⟩ := C16_roundtrip n
  rw [hq] at hq1
  injection hq1 with hq1
  subst hq1
  exact ⟨⟨h1, h2⟩, hq2, fun x hx => index_alphabet_symbols x (C16_digits_in_alphabet n _ hq x hx)⟩

theorem okStereo_iff (s : Option Char) : okStereo s ↔ StereoOK s := Iff.rfl

structure RingSymFacts (i p o : Nat) (s s' : Option Char) : Prop where
  idx : IdxFacts (i - p - 1)
  shape : ∃ sym, ringSyms i p o s s' = sym :: idxSyms (i - p - 1)
    ∧ sliceFromEnd sym 4 2 = ['n', 'g']
    ∧ processRingSymbol sym
        = some (o / 2, (idxSyms (i - p - 1)).length, if o = 2 then (s', s) else (none, none))
    ∧ IsSymbol sym ∧ sym ≠ nopSym

theorem ringSyms_facts (i p o : Nat) (s s' : Option Char) (ho : okOrder2 o) (hs : okStereo s)
    (hs' : okStereo s') (hspan : i - p - 1 < 16 ^ 3) : RingSymFacts i p o s s' := by
  have hidx := idxSyms_facts _ hspan
  refine ⟨hidx, ?_⟩
  obtain ⟨pre, hpre⟩ := ringBondsToSelfies_ok (ringBond p i o s') (ringBond i p o s) rfl ho
  obtain ⟨_, hmem⟩ := ringBondsToSelfies_prefix _ _ pre hpre hs' hs
  simp only [ringBond] at hmem
  have hL : (idxSyms (i - p - 1)).length ∈ [1, 2, 3] := by
    have := hidx.len
    simp only [List.mem_cons, List.not_mem_nil, or_false]; omega
  have h1 := (C10_branch_ring_tables _ hL).2 _ hmem
  have h2 := (ring_branch_symbols_are_symbols _ hL).2 _ hmem
  refine ⟨ringSymbol pre "Ring".toList (idxSyms (i - p - 1)).length, ?_, h1.2, h1.1, h2.1, h2.2⟩
  simp only [ringSyms, okOr_ok hpre]

structure BranchSymFacts (b : PBond) (len : Nat) : Prop where
  idx : IdxFacts (len - 1)
  shape : ∃ sym, branchSyms b len = sym :: idxSyms (len - 1)
    ∧ sliceFromEnd sym 4 2 = ['c', 'h']
    ∧ processBranchSymbol sym = some (b.order2 / 2, (idxSyms (len - 1)).length)
    ∧ IsSymbol sym ∧ sym ≠ nopSym

theorem branchSyms_facts (b : PBond) (len : Nat) (ho : okOrder2 b.order2)
    (hspan : len - 1 < 16 ^ 3) : BranchSymFacts b len := by
  have hidx := idxSyms_facts _ hspan
  refine ⟨hidx, ?_⟩
  obtain ⟨pre, hpre⟩ := bondToSelfies_ok b false ho
  have hmem := bondToSelfies_false b pre hpre
  have hL : (idxSyms (len - 1)).length ∈ [1, 2, 3] := by
    have := hidx.len
    simp only [List.mem_cons, List.not_mem_nil, or_false]; omega
  have h1 := (C10_branch_ring_tables _ hL).1 _ hmem
  have h2 := (ring_branch_symbols_are_symbols _ hL).1 _ hmem
  refine ⟨ringSymbol pre "Branch".toList (idxSyms (len - 1)).length, ?_, h1.2, h1.1, h2.1, h2.2⟩
  simp only [branchSyms, okOr_ok hpre]

end SV
