/-
  C03 ⇒ C04: the order of an atom's bonds in the decoded molecule.  The decoder ends with
  `closing ring bonds (written order) ++ opening ring bonds (by partner index) ++ chain bonds
  (written order)`, i.e. `decoderOrder` of Proofs/Parity.lean.
-/
import SelfiesVerif.Proofs.RoundTripGraph
import SelfiesVerif.Proofs.Parity

namespace SV

/-- the decoder's record for a bond of the parsed graph -/
def decDir (b : PBond) : DirBond := if b.ring then dirRingB b else dirOf b

/-! ### rows by class -/

theorem Items.filter_closing (i : Nat) : ∀ its : Items, (∀ r ∈ its.rings, r.1 ≠ i) →
    ((its.row i).filter PBond.isClosing).map decDir = (its.closes i).map recR
  | .nil, _ => rfl
  | .child o s t rest, h => by
    have ih := Items.filter_closing i rest (fun r hr => h r (by simpa [Items.rings] using hr))
    simp only [Items.row, Items.closes]
    rw [List.filter_cons_of_neg (by simp [PBond.isClosing, chainBond]), ih]
  | .ring p o s s' rest, h => by
    have ih := Items.filter_closing i rest (fun r hr => h r (by simp [Items.rings, hr]))
    simp only [Items.row, Items.closes]
    by_cases hip : i < p
    · rw [List.filter_cons_of_neg (by simp [PBond.isClosing, ringBond, hip]), ih]
      simp [hip]
    · rw [List.filter_cons_of_pos (by simp [PBond.isClosing, ringBond, hip])]
      simp only [hip, if_false, List.map_cons, ih]
      rfl

theorem Items.filter_opening (i : Nat) : ∀ its : Items,
    ((its.row i).filter PBond.isOpening).map decDir = (its.opens i).map recL
  | .nil => rfl
  | .child o s t rest => by
    have ih := Items.filter_opening i rest
    simp only [Items.row, Items.opens]
    rw [List.filter_cons_of_neg (by simp [PBond.isOpening, chainBond]), ih]
  | .ring p o s s' rest => by
    have ih := Items.filter_opening i rest
    simp only [Items.row, Items.opens]
    by_cases hip : i < p
    · rw [List.filter_cons_of_pos (by simp [PBond.isOpening, ringBond, hip])]
      simp only [hip, if_true, List.map_cons, ih]
      rfl
    · rw [List.filter_cons_of_neg (by simp [PBond.isOpening, ringBond, hip]), ih]
      simp [hip]

theorem Items.filter_chain (i : Nat) : ∀ its : Items,
    ((its.row i).filter PBond.isChain).map decDir = (its.kidRow i).map dirOf
  | .nil => rfl
  | .child o s t rest => by
    have ih := Items.filter_chain i rest
    simp only [Items.row, Items.kidRow]
    rw [List.filter_cons_of_pos (by simp [PBond.isChain, chainBond])]
    simp only [List.map_cons, ih]
    rfl
  | .ring p o s s' rest => by
    have ih := Items.filter_chain i rest
    simp only [Items.row, Items.kidRow]
    rw [List.filter_cons_of_neg (by simp [PBond.isChain, ringBond]), ih]

/-! ### list facts -/

theorem pairwise_flatMap_of_key {α β} (g : α → List β) (key : β → Nat) (k : α → Nat) :
    ∀ (l : List α), (l.map k).Pairwise (· < ·) → (∀ a ∈ l, ∀ b ∈ g a, key b = k a) →
    (∀ a ∈ l, (g a).length ≤ 1) → (l.flatMap g).Pairwise (fun x y => key x < key y)
  | [], _, _, _ => List.Pairwise.nil
  | a :: l, hp, hk, h1 => by
    simp only [List.map_cons, List.pairwise_cons] at hp
    simp only [List.flatMap_cons]
    refine List.pairwise_append.2 ⟨?_, pairwise_flatMap_of_key g key k l hp.2
      (fun a' ha' => hk a' (List.mem_cons_of_mem _ ha')) (fun a' ha' => h1 a' (List.mem_cons_of_mem _ ha')), ?_⟩
    · have := h1 a List.mem_cons_self
      match hg : g a, this with
      | [], _ => exact List.Pairwise.nil
      | [x], _ => exact List.pairwise_singleton _ _
    · intro x hx y hy
      obtain ⟨a', ha', hy⟩ := List.mem_flatMap.1 hy
      rw [hk a List.mem_cons_self x hx, hk a' (List.mem_cons_of_mem _ ha') y hy]
      exact hp.1 _ (List.mem_map.2 ⟨a', ha', rfl⟩)

theorem flatMap_congr_mem {α β} {f g : α → List β} : ∀ (l : List α), (∀ a ∈ l, f a = g a) →
    l.flatMap f = l.flatMap g
  | [], _ => rfl
  | a :: l, h => by
    simp only [List.flatMap_cons]
    rw [h a List.mem_cons_self, flatMap_congr_mem l (fun b hb => h b (List.mem_cons_of_mem _ hb))]

theorem filter_eq_length_le_one {α} (f : α → Nat) (v : Nat) : ∀ (l : List α), (l.map f).Nodup →
    (l.filter fun x => f x == v).length ≤ 1
  | [], _ => by simp
  | x :: l, hn => by
    simp only [List.map_cons, List.nodup_cons] at hn
    have ih := filter_eq_length_le_one f v l hn.2
    by_cases hx : f x = v
    · have hnil : l.filter (fun y => f y == v) = [] := by
        apply List.filter_eq_nil_iff.2
        intro y hy
        simp only [beq_iff_eq]
        intro e
        exact hn.1 (List.mem_map.2 ⟨y, hy, by rw [e, hx]⟩)
      rw [List.filter_cons_of_pos (by simpa using hx), hnil]
      simp
    · rw [List.filter_cons_of_neg (by simpa using hx)]
      exact ih

/-! ### what each atom's closures leave at atom `i` -/

theorem recAt_ringReqOf (i : Nat) (c : Nat × Nat × Nat × Option Char × Option Char) :
    recAt i (ringReqOf c) = if c.1 = i then [recL c] else if c.2.1 = i then [recR c] else [] := by
  obtain ⟨l, r, o, sl, sr⟩ := c
  simp only [recAt, ringReqOf, recL, recR]
  split
  · rename_i h; subst h; split <;> rfl
  · split
    · rename_i h; subst h; split <;> rfl
    · rfl

def contribAt (i : Nat) (n : NodeInfo) : List DirBond :=
  (n.items.closes n.idx).flatMap fun c => recAt i (ringReqOf c)

theorem ringRecs_eq_contrib (f : PForest) (i : Nat) :
    ringRecs (ringQueue f) i = f.nodes.flatMap (contribAt i) := by
  rw [ringQueue_eq]
  unfold ringRecs PForest.closes contribAt
  rw [List.flatMap_map, List.flatMap_assoc]

theorem contribAt_cases (i : Nat) (n : NodeInfo)
    (h : ∀ c ∈ n.items.closes n.idx, c.2.1 = n.idx ∧ c.1 < n.idx) :
    (n.idx < i → contribAt i n = [])
    ∧ (n.idx = i → contribAt i n = (n.items.closes n.idx).map recR)
    ∧ (i < n.idx → contribAt i n = ((n.items.closes n.idx).filter fun c => c.1 == i).map recL) := by
  unfold contribAt
  generalize n.items.closes n.idx = cl at h
  induction cl with
  | nil => simp
  | cons c cl ih =>
    obtain ⟨i1, i2, i3⟩ := ih (fun c' hc' => h c' (List.mem_cons_of_mem _ hc'))
    obtain ⟨h1, h2⟩ := h c List.mem_cons_self
    simp only [List.flatMap_cons]
    rw [recAt_ringReqOf]
    refine ⟨fun hlt => ?_, fun heq => ?_, fun hgt => ?_⟩
    · rw [i1 hlt, if_neg (by omega), if_neg (by omega)]; rfl
    · rw [i2 heq, if_neg (by omega), if_pos (by omega)]; rfl
    · rw [i3 hgt]
      by_cases hc : c.1 = i
      · rw [if_pos hc, List.filter_cons_of_pos (by simpa using hc)]; rfl
      · rw [if_neg hc, if_neg (by omega), List.filter_cons_of_neg (by simpa using hc)]; rfl

/-- the ring records of atom `i`: its own closures in written order, then the closures of later
    atoms that point back to `i`, in the order of those atoms -/
def laterRecs (f : PForest) (i : Nat) : List DirBond :=
  (f.nodes.drop (i + 1)).flatMap fun m => ((m.items.closes m.idx).filter fun c => c.1 == i).map recL

theorem ringRecs_split {f : PForest} (hwf : f.wf = true) {n : NodeInfo} (hn : n ∈ f.nodes) :
    ringRecs (ringQueue f) n.idx = (n.items.closes n.idx).map recR ++ laterRecs f n.idx
    ∧ (laterRecs f n.idx).Pairwise (fun a b => a.dst < b.dst) := by
  obtain ⟨hnum, hsimple, _⟩ := PForest.wf_parts hwf
  have cf := closesFacts hwf
  have hnk := nodes_getElem_of_mem hnum hn
  have hlen : n.idx < f.nodes.length := (List.getElem?_eq_some_iff.1 hnk).1
  have hcl : ∀ m ∈ f.nodes, ∀ c ∈ m.items.closes m.idx, c.2.1 = m.idx ∧ c.1 < m.idx := by
    intro m hm c hc
    have e := (Items.of_mem_closes m.idx m.items c hc).1
    have := (cf.lt c (List.mem_flatMap.2 ⟨m, hm, hc⟩)).1
    exact ⟨e, by omega⟩
  -- split the node list at position `n.idx`
  have hsplit : f.nodes = f.nodes.take n.idx ++ n :: f.nodes.drop (n.idx + 1) := by
    have h1 := (List.take_append_drop n.idx f.nodes).symm
    have h2 : f.nodes.drop n.idx = n :: f.nodes.drop (n.idx + 1) := by
      rw [List.drop_eq_getElem_cons hlen]
      obtain ⟨_, e⟩ := List.getElem?_eq_some_iff.1 hnk
      rw [e]
    rw [h2] at h1
    exact h1
  have hpw : (f.nodes.map (·.idx)).Pairwise (· < ·) := by rw [hnum]; exact List.pairwise_lt_range
  rw [hsplit, List.map_append, List.map_cons, List.pairwise_append] at hpw
  obtain ⟨_, hpw2, hpw3⟩ := hpw
  rw [List.pairwise_cons] at hpw2
  have hbefore : ∀ m ∈ f.nodes.take n.idx, m.idx < n.idx := fun m hm =>
    hpw3 _ (List.mem_map.2 ⟨m, hm, rfl⟩) _ List.mem_cons_self
  have hafter : ∀ m ∈ f.nodes.drop (n.idx + 1), n.idx < m.idx := fun m hm =>
    hpw2.1 _ (List.mem_map.2 ⟨m, hm, rfl⟩)
  constructor
  · rw [ringRecs_eq_contrib]
    conv => lhs; rw [hsplit]
    rw [List.flatMap_append, List.flatMap_cons]
    have e1 : (f.nodes.take n.idx).flatMap (contribAt n.idx) = [] := by
      apply List.flatMap_eq_nil_iff.2
      intro m hm
      exact (contribAt_cases n.idx m (hcl m (List.mem_of_mem_take hm))).1 (hbefore m hm)
    have e2 := (contribAt_cases n.idx n (hcl n hn)).2.1 rfl
    have e3 : (f.nodes.drop (n.idx + 1)).flatMap (contribAt n.idx) = laterRecs f n.idx := by
      unfold laterRecs
      apply flatMap_congr_mem
      intro m hm
      exact (contribAt_cases n.idx m (hcl m (List.mem_of_mem_drop hm))).2.2 (hafter m hm)
    rw [e1, e2, e3, List.nil_append]
  · unfold laterRecs
    refine pairwise_flatMap_of_key _ (fun b : DirBond => b.dst) (fun m : NodeInfo => m.idx) _ hpw2.2 ?_ ?_
    · intro m hm b hb
      obtain ⟨c, hc, rfl⟩ := List.mem_map.1 hb
      exact (hcl m (List.mem_of_mem_drop hm) c (List.mem_filter.1 hc).1).1
    · intro m hm
      rw [List.length_map]
      have hm' := List.mem_of_mem_drop hm
      exact filter_eq_length_le_one (fun c : Nat × Nat × Nat × Option Char × Option Char => c.1) n.idx _
        ((closes_sublist_dst m.idx m.items).nodup (PForest.simple_node hsimple hm').1)

/-! ### the rows of the decoded molecule -/

theorem decDir_dst (b : PBond) : (decDir b).dst = b.dst := by
  unfold decDir; split <;> rfl

/-- **Row of the decoded molecule.**  Closing ring bonds in written order, then the opening ring
    bonds (a permutation of the written ones) by increasing partner index, then the chain bonds in
    written order. -/
theorem finalMol_row {f : PForest} (hwf : f.wf = true) {n : NodeInfo} (hn : n ∈ f.nodes) :
    (finalMol f).adj[n.idx]? = some ((n.row.filter PBond.isClosing).map decDir ++ laterRecs f n.idx
        ++ (n.row.filter PBond.isChain).map decDir)
    ∧ (laterRecs f n.idx).Perm ((n.row.filter PBond.isOpening).map decDir)
    ∧ (laterRecs f n.idx).Pairwise (fun a b => a.dst < b.dst) := by
  obtain ⟨hnum, hsimple, _⟩ := PForest.wf_parts hwf
  have hnk := nodes_getElem_of_mem hnum hn
  obtain ⟨hsplit, hpw⟩ := ringRecs_split hwf hn
  have hns : ∀ r ∈ n.items.rings, r.1 ≠ n.idx := by
    intro r hr
    obtain ⟨p, o, s, s'⟩ := r
    exact (PForest.simple_node hsimple hn).2 _ (Items.mem_rings_row n.idx n.items p o s s' hr)
  have e1 : (n.row.filter PBond.isClosing).map decDir = (n.items.closes n.idx).map recR :=
    Items.filter_closing n.idx n.items hns
  have e2 : (n.row.filter PBond.isOpening).map decDir = (n.items.opens n.idx).map recL :=
    Items.filter_opening n.idx n.items
  have e3 : (n.row.filter PBond.isChain).map decDir = n.chainRow := Items.filter_chain n.idx n.items
  refine ⟨?_, ?_, hpw⟩
  · unfold finalMol
    simp only [List.getElem?_map, hnk, Option.map_some]
    rw [hsplit, e1, e3]
  · have := ringRecs_perm_items hwf hn
    rw [hsplit] at this
    rw [e2]
    exact (List.perm_append_left_iff _).1 this

/-! ### positions -/

theorem positions_shift (p : PBond → Bool) (d : PBond) : ∀ (out pre : List PBond),
    ((List.range' pre.length out.length).filter fun i =>
        match (pre ++ out)[i]? with
        | some b => p b
        | none => false).map (fun j => (pre ++ out).getD j d) = out.filter p
  | [], _ => by simp
  | b :: out, pre => by
    have ih := positions_shift p d out (pre ++ [b])
    simp only [List.append_assoc, List.singleton_append, List.length_append, List.length_cons,
      List.length_nil, Nat.zero_add] at ih
    simp only [List.length_cons, List.range'_succ, List.filter_cons]
    have hget : (pre ++ b :: out)[pre.length]? = some b := by simp
    have hgetD : (pre ++ b :: out).getD pre.length d = b := by simp [List.getD]
    rw [hget]
    by_cases hp : p b = true
    · simp only [hp, if_true, List.map_cons, hgetD, ih]
    · have hp' : p b = false := by simpa using hp
      simp only [hp', Bool.false_eq_true, if_false, ih]

theorem map_positionsOf (p : PBond → Bool) (d : PBond) (out : List PBond) :
    (positionsOf p out).map (fun j => out.getD j d) = out.filter p := by
  have := positions_shift p d out []
  simp only [List.nil_append, List.length_nil] at this
  rw [← this]
  unfold positionsOf
  rw [List.range_eq_range']
  rfl

/-- the decoder's records of the bonds at the positions `l` of `out` -/
def posBonds (out : List PBond) (l : List Nat) : List DirBond :=
  l.map fun j => decDir (out.getD j default)

theorem posBonds_positionsOf (p : PBond → Bool) (out : List PBond) :
    posBonds out (positionsOf p out) = (out.filter p).map decDir := by
  unfold posBonds
  rw [← map_positionsOf p default out, List.map_map]
  rfl

theorem posBonds_sorted_openings (out : List PBond) (hnd : (out.map (·.dst)).Nodup) :
    (posBonds out (stableSortBy (partnerAt out) (positionsOf PBond.isOpening out))).Perm
        ((out.filter PBond.isOpening).map decDir)
    ∧ (posBonds out (stableSortBy (partnerAt out) (positionsOf PBond.isOpening out))).Pairwise
        (fun a b => a.dst < b.dst) := by
  constructor
  · rw [← posBonds_positionsOf]
    exact (stableSortBy_perm _ _).map _
  · unfold posBonds
    rw [List.pairwise_map]
    have hmem : ∀ j ∈ stableSortBy (partnerAt out) (positionsOf PBond.isOpening out),
        ∃ b, out[j]? = some b := by
      intro j hj
      obtain ⟨b, hb, _⟩ := mem_positionsOf.1 ((stableSortBy_perm _ _).subset hj)
      exact ⟨b, hb⟩
    refine List.Pairwise.imp_of_mem ?_
      (stableSortBy_pairwise (partnerAt out) _ (positionsOf_pairwise _ out))
    intro a b ha hb hk
    obtain ⟨ba, hba⟩ := hmem a ha
    obtain ⟨bb, hbb⟩ := hmem b hb
    have ea : out.getD a default = ba := by simp [List.getD, hba]
    have eb : out.getD b default = bb := by simp [List.getD, hbb]
    have ka : partnerAt out a = ba.dst := by simp [partnerAt, hba]
    have kb : partnerAt out b = bb.dst := by simp [partnerAt, hbb]
    rw [ea, eb, decDir_dst, decDir_dst]
    unfold KeyLt at hk
    rw [ka, kb] at hk
    rcases hk with hk | ⟨hk, hlt⟩
    · exact hk
    · exfalso
      have hal : a < (out.map (·.dst)).length := by
        rw [List.length_map]; exact (List.getElem?_eq_some_iff.1 hba).1
      have := (List.getElem?_inj hal hnd (j := b)).1 (by simp [hba, hbb, hk])
      omega

/-- **The decoder writes the bonds of every atom in the order `decoderOrder`** (the order C04's
    parity argument assumes): position `k` of the atom's adjacency list in the decoded molecule
    holds the bond that the input wrote at position `(decoderOrder row)[k]`. -/
theorem finalMol_row_decoderOrder {f : PForest} (hwf : f.wf = true) {n : NodeInfo}
    (hn : n ∈ f.nodes) :
    (finalMol f).adj[n.idx]? = some (posBonds n.row (decoderOrder n.row)) := by
  obtain ⟨_, hsimple, _⟩ := PForest.wf_parts hwf
  obtain ⟨h1, h2, h3⟩ := finalMol_row hwf hn
  obtain ⟨s1, s2⟩ := posBonds_sorted_openings n.row (PForest.simple_node hsimple hn).1
  have heq : laterRecs f n.idx
      = posBonds n.row (stableSortBy (partnerAt n.row) (positionsOf PBond.isOpening n.row)) :=
    List.Perm.eq_of_pairwise (fun a b _ _ hab hba => absurd hba (by omega)) h3 s2 (h2.trans s1.symm)
  rw [h1, heq]
  unfold decoderOrder
  simp only [posBonds, List.map_append]
  rw [← posBonds_positionsOf, ← posBonds_positionsOf]
  rfl

end SV
