/-
  C03: the closed form of the molecule the decoder's derive phase builds for a forest
  (`Mol.grow`, `Mol.bump`, `Mol.enter`) and its algebra.
-/
import SelfiesVerif.Proofs.RoundTripDerive

namespace SV

/-- the decoder's record for a parsed bond -/
def dirOf (b : PBond) : DirBond :=
  { src := b.src, dst := b.dst, order := (encBondInfo (some b)).1, stereo := (encBondInfo (some b)).2,
    ring := b.ring, attr := none }

def ordSum (l : List DirBond) : Nat := (l.map (·.order)).sum

theorem ordSum_append (a b : List DirBond) : ordSum (a ++ b) = ordSum a + ordSum b := by
  simp [ordSum]

def NodeInfo.intoOrder (n : NodeInfo) : Nat :=
  match n.into with
  | some b => b.order2 / 2
  | none => 0

/-- the chain bonds of an atom as the decoder stores them -/
def NodeInfo.chainRow (n : NodeInfo) : List DirBond := (n.items.kidRow n.idx).map dirOf

/-- `_bond_counts` after the derive phase: the bond into the atom and its chain bonds -/
def NodeInfo.chainCount (n : NodeInfo) : Nat := n.intoOrder + ordSum n.chainRow

structure MolLen (m : Mol) : Prop where
  adj : m.adj.length = m.atoms.length
  counts : m.counts.length = m.atoms.length

/-- append bonds to row `i` -/
def Mol.bump (m : Mol) (i : Nat) (bs : List DirBond) : Mol :=
  { m with adj := m.adj.modify i (· ++ bs), counts := m.counts.modify i (· + ordSum bs) }

/-- append one atom with an empty row -/
def Mol.push (m : Mol) (a : Atom) (c : Nat) : Mol :=
  { atoms := m.atoms ++ [a], roots := m.roots, adj := m.adj ++ [[]], counts := m.counts ++ [c],
    atomAttr := m.atomAttr ++ [none] }

/-- append the atoms of `ns` with their complete chain rows -/
def Mol.grow (m : Mol) (ns : List NodeInfo) : Mol :=
  { atoms := m.atoms ++ ns.map (·.atom), roots := m.roots, adj := m.adj ++ ns.map NodeInfo.chainRow,
    counts := m.counts ++ ns.map NodeInfo.chainCount, atomAttr := m.atomAttr ++ ns.map fun _ => none }

/-- what entering a subtree does to the existing part: a new root, or a bond at the parent -/
def Mol.enter (m : Mol) (into : Option PBond) : Mol :=
  match into with
  | none => { m with roots := m.roots ++ [m.atoms.length] }
  | some b => m.bump b.src [dirOf b]

/-! ### list algebra -/

theorem modify_append_left {α} (f : α → α) : ∀ (l r : List α) (i : Nat), i < l.length →
    (l ++ r).modify i f = l.modify i f ++ r
  | [], _, _, h => by cases h
  | x :: l, r, 0, _ => by simp
  | x :: l, r, i + 1, h => by
    simp only [List.cons_append, List.modify_succ_cons]
    rw [modify_append_left f l r i (by simpa using h)]

theorem modify_append_length {α} (f : α → α) : ∀ (l : List α) (x : α) (r : List α),
    (l ++ x :: r).modify l.length f = l ++ f x :: r
  | [], _, _ => by simp
  | y :: l, x, r => by
    simp only [List.cons_append, List.length_cons, List.modify_succ_cons]
    rw [modify_append_length f l x r]

theorem set_eq_modify {α} (g : α → α) : ∀ (l : List α) (i : Nat) (x : α), l[i]? = some x →
    l.set i (g x) = l.modify i g
  | [], _, _, h => by simp at h
  | y :: l, 0, x, h => by simp at h; subst h; simp
  | y :: l, i + 1, x, h => by
    simp only [List.getElem?_cons_succ] at h
    simp only [List.set_cons_succ, List.modify_succ_cons, set_eq_modify g l i x h]

/-! ### Mol algebra -/

theorem Mol.grow_nil (m : Mol) : m.grow [] = m := by
  simp [Mol.grow]

theorem Mol.grow_grow (m : Mol) (a b : List NodeInfo) : (m.grow a).grow b = m.grow (a ++ b) := by
  simp [Mol.grow]

theorem Mol.bump_nil (m : Mol) (i : Nat) : m.bump i [] = m := by
  have h1 : m.adj.modify i (· ++ []) = m.adj := by
    have : (fun x : List DirBond => x ++ []) = id := by funext x; simp
    rw [this, List.modify_id]
  have h2 : m.counts.modify i (· + ordSum []) = m.counts := by
    have : (fun x : Nat => x + ordSum []) = id := by funext x; simp [ordSum]
    rw [this, List.modify_id]
  simp only [Mol.bump, h1, h2]

theorem Mol.bump_bump (m : Mol) (i : Nat) (a b : List DirBond) :
    (m.bump i a).bump i b = m.bump i (a ++ b) := by
  simp only [Mol.bump, List.modify_modify_eq, Mol.mk.injEq, true_and, and_true]
  constructor
  · congr 1; funext x; simp
  · congr 1; funext x; simp [ordSum_append]; omega

theorem Mol.bump_grow (m : Mol) (hl : MolLen m) (i : Nat) (hi : i < m.atoms.length) (bs : List DirBond)
    (ns : List NodeInfo) : (m.grow ns).bump i bs = (m.bump i bs).grow ns := by
  simp only [Mol.bump, Mol.grow, Mol.mk.injEq, true_and, and_true]
  exact ⟨modify_append_left _ _ _ _ (by rw [hl.adj]; exact hi),
    modify_append_left _ _ _ _ (by rw [hl.counts]; exact hi)⟩

theorem MolLen.bump {m : Mol} (h : MolLen m) (i : Nat) (bs : List DirBond) : MolLen (m.bump i bs) :=
  ⟨by simp [Mol.bump, h.adj], by simp [Mol.bump, h.counts]⟩

theorem MolLen.grow {m : Mol} (h : MolLen m) (ns : List NodeInfo) : MolLen (m.grow ns) :=
  ⟨by simp [Mol.grow, h.adj], by simp [Mol.grow, h.counts]⟩

theorem MolLen.push {m : Mol} (h : MolLen m) (a : Atom) (c : Nat) : MolLen (m.push a c) :=
  ⟨by simp [Mol.push, h.adj], by simp [Mol.push, h.counts]⟩

theorem MolLen.enter {m : Mol} (h : MolLen m) (into : Option PBond) : MolLen (m.enter into) := by
  cases into with
  | none => exact ⟨h.adj, h.counts⟩
  | some b => exact h.bump _ _

theorem Mol.enter_atoms (m : Mol) (into : Option PBond) : (m.enter into).atoms = m.atoms := by
  cases into <;> rfl

theorem Mol.bump_atoms (m : Mol) (i : Nat) (bs : List DirBond) : (m.bump i bs).atoms = m.atoms := rfl

theorem Mol.grow_atoms_length (m : Mol) (ns : List NodeInfo) :
    (m.grow ns).atoms.length = m.atoms.length + ns.length := by simp [Mol.grow]

theorem Mol.push_atoms_length (m : Mol) (a : Atom) (c : Nat) :
    (m.push a c).atoms.length = m.atoms.length + 1 := by simp [Mol.push]

/-- an atom whose row is completed later equals the atom appended with its complete row -/
theorem Mol.push_bump_grow (m : Mol) (hl : MolLen m) (n : NodeInfo) (hidx : n.idx = m.atoms.length)
    (ns : List NodeInfo) :
    ((m.push n.atom n.intoOrder).bump n.idx n.chainRow).grow ns = m.grow (n :: ns) := by
  simp only [Mol.push, Mol.bump, Mol.grow, List.map_cons, Mol.mk.injEq, true_and, and_true, List.append_assoc,
    List.cons_append, List.nil_append]
  refine ⟨?_, ?_⟩
  · rw [hidx, ← hl.adj, modify_append_length]; simp
  · rw [hidx, ← hl.counts, modify_append_length]; simp [NodeInfo.chainCount]

/-- the model's `add_atom` + `add_bond` in closed form -/
theorem addBond_closed (m : Mol) (hl : MolLen m) (a : Atom) (b : PBond) (hp : b.src < m.atoms.length)
    (hd : b.dst = m.atoms.length) (hr : b.ring = false) :
    (m.addAtom a false none).1.addBond b.src m.atoms.length (encBondInfo (some b)).1
        (encBondInfo (some b)).2 none
      = .ok ((m.enter (some b)).push a (b.order2 / 2)) := by
  have hpa : b.src < m.adj.length := by rw [hl.adj]; exact hp
  have hpc : b.src < m.counts.length := by rw [hl.counts]; exact hp
  have h1 : (m.adj ++ [[]])[b.src]? = some m.adj[b.src] := by
    rw [List.getElem?_append_left hpa]; exact List.getElem?_eq_getElem hpa
  have h2 : (m.counts ++ [0])[b.src]? = some m.counts[b.src] := by
    rw [List.getElem?_append_left hpc]; exact List.getElem?_eq_getElem hpc
  have ho : (encBondInfo (some b)).1 = b.order2 / 2 := rfl
  simp only [Mol.addAtom, Mol.addBond, pyAssert, hp, decide_true, if_true, Bool.false_eq_true,
    if_false, bind, Except.bind, Mol.appendOut, h1, Mol.addCount, h2, pure, Except.pure]
  have h3 : ((m.counts ++ [0]).set b.src (m.counts[b.src] + (encBondInfo (some b)).1))[m.atoms.length]?
      = some 0 := by
    rw [List.getElem?_set_ne (by omega), ← hl.counts]; simp
  simp only [h3]
  simp only [Mol.enter, Mol.bump, Mol.push, dirOf, Except.ok.injEq, Mol.mk.injEq, true_and, and_true, hd, hr]
  refine ⟨?_, ?_⟩
  · rw [set_eq_modify (· ++ [_]) _ _ _ h1, modify_append_left _ _ _ _ hpa]
  · rw [set_eq_modify (· + _) _ _ _ h2, modify_append_left _ _ _ _ hpc]
    have : (m.counts.modify b.src (· + (encBondInfo (some b)).1) ++ [0]).set m.atoms.length
        (0 + (encBondInfo (some b)).1)
        = m.counts.modify b.src (· + (encBondInfo (some b)).1) ++ [(encBondInfo (some b)).1] := by
      have hlen : (m.counts.modify b.src (· + (encBondInfo (some b)).1)).length = m.atoms.length := by
        simp [hl.counts]
      rw [← hlen, List.set_append_right _ _ (Nat.le_refl _)]
      simp
    rw [this]
    simp [ordSum, ho]

end SV
