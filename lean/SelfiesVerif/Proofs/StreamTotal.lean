/-
  Totality, part 1: the token stream.  `Stream.next`, `readIndex`, `consumeRest` only ever fail
  with `DecoderError` (hanging bracket), never run out of fuel, and leave a suffix of the stream.
-/
import SelfiesVerif.Proofs.DecoderInv
import SelfiesVerif.Proofs.Compat

namespace SV

theorem bind_err {α β} {x : Py α} {f : α → Py β} {e : PyExc} :
    (x >>= f) = .error e → x = .error e ∨ ∃ a, x = .ok a ∧ f a = .error e := by
  cases x with
  | error e' => intro h; left; cases h; rfl
  | ok a => intro h; exact Or.inr ⟨a, rfl, h⟩

/-- `s'` is what is left of `s` after some tokens were pulled -/
def Stream.Suffix (s' s : Stream) : Prop := s'.hanging = s.hanging ∧ s'.toks <:+ s.toks

theorem Stream.Suffix.refl (s : Stream) : s.Suffix s := ⟨rfl, List.suffix_refl _⟩
theorem Stream.Suffix.trans {a b c : Stream} (h1 : a.Suffix b) (h2 : b.Suffix c) : a.Suffix c :=
  ⟨h1.1.trans h2.1, h1.2.trans h2.2⟩
theorem Stream.Suffix.length_le {a b : Stream} (h : a.Suffix b) : a.toks.length ≤ b.toks.length :=
  h.2.length_le

/-- the symbol as the generator yields it -/
def pulled (compat : Bool) (sym : Str) : Str := if compat then modernSym sym else sym

/-- the three outcomes of `next(symbol_iter)` -/
theorem Stream.next_cases (compat : Bool) (s : Stream) :
    (s.next compat = .error .DecoderError ∧ s.toks = [] ∧ s.hanging = true) ∨
    (s.next compat = .ok none ∧ s.toks = [] ∧ s.hanging = false) ∨
    ∃ i sym rest, s.toks = (i, sym) :: rest ∧
      s.next compat = .ok (some ((i, pulled compat sym), { s with toks := rest })) := by
  unfold Stream.next
  cases hs : s.toks with
  | nil =>
    cases hh : s.hanging <;> simp
  | cons t rest =>
    obtain ⟨i, sym⟩ := t
    right; right
    refine ⟨i, sym, rest, rfl, ?_⟩
    cases compat with
    | false => simp [pulled]
    | true => simp [pulled, modernizeSymbol_total]

theorem Stream.next_ok {compat : Bool} {s : Stream} {i : Nat} {sym : Str} {s' : Stream}
    (h : s.next compat = .ok (some ((i, sym), s'))) :
    ∃ sym0 rest, s.toks = (i, sym0) :: rest ∧ sym = pulled compat sym0 ∧ s' = { s with toks := rest } := by
  rcases Stream.next_cases compat s with ⟨h1, _⟩ | ⟨h1, _⟩ | ⟨i', sym0, rest, h1, h2⟩
  · rw [h1] at h; cases h
  · rw [h1] at h; cases h
  · rw [h2] at h; cases h
    exact ⟨sym0, rest, h1, rfl, rfl⟩

theorem Stream.next_suffix {compat : Bool} {s : Stream} {i : Nat} {sym : Str} {s' : Stream}
    (h : s.next compat = .ok (some ((i, sym), s'))) :
    s'.Suffix s ∧ s'.toks.length + 1 = s.toks.length := by
  obtain ⟨sym0, rest, h1, _, rfl⟩ := Stream.next_ok h
  refine ⟨⟨rfl, ?_⟩, ?_⟩
  · simp only; rw [h1]; exact List.suffix_cons _ _
  · simp only; rw [h1]; rfl

theorem Stream.next_err {compat : Bool} {s : Stream} {e : PyExc} (h : s.next compat = .error e) :
    e = .DecoderError ∧ s.hanging = true := by
  rcases Stream.next_cases compat s with ⟨h1, _, hh⟩ | ⟨h1, _⟩ | ⟨i', sym0, rest, h1, h2⟩
  · rw [h1] at h; cases h; exact ⟨rfl, hh⟩
  · rw [h1] at h; cases h
  · rw [h2] at h; cases h

/-! ### `readIndex` -/

theorem readIndex_ok (compat : Bool) : ∀ (n : Nat) (s : Stream) (acc : List (Option Str)) (nRead : Nat)
    (q k : Nat) (s' : Stream), readIndex compat n s acc nRead = .ok (q, k, s') → s'.Suffix s
  | 0, s, acc, nRead, q, k, s', h => by
    simp only [readIndex] at h; cases h; exact Stream.Suffix.refl _
  | n + 1, s, acc, nRead, q, k, s', h => by
    simp only [readIndex] at h
    bind_at h with ⟨nx, hnx, h⟩
    cases nx with
    | none => exact readIndex_ok compat n _ _ _ _ _ _ h
    | some x =>
      obtain ⟨⟨i, sym⟩, s1⟩ := x
      exact (readIndex_ok compat n _ _ _ _ _ _ h).trans (Stream.next_suffix hnx).1

theorem readIndex_err (compat : Bool) : ∀ (n : Nat) (s : Stream) (acc : List (Option Str)) (nRead : Nat)
    (e : PyExc), readIndex compat n s acc nRead = .error e → e = .DecoderError ∧ s.hanging = true
  | 0, s, acc, nRead, e, h => by simp only [readIndex] at h; cases h
  | n + 1, s, acc, nRead, e, h => by
    simp only [readIndex] at h
    rcases bind_err h with h | ⟨nx, hnx, h⟩
    · exact Stream.next_err h
    · cases nx with
      | none => exact readIndex_err compat n _ _ _ _ h
      | some x =>
        obtain ⟨⟨i, sym⟩, s1⟩ := x
        have := readIndex_err compat n _ _ _ _ h
        exact ⟨this.1, by rw [← (Stream.next_suffix hnx).1.1]; exact this.2⟩

/-! ### `consumeRest` -/

theorem consumeRest_ok (compat : Bool) : ∀ (fuel : Nat) (s : Stream) (md : Option Nat) (nd : Nat)
    (s' : Stream) (n : Nat), consumeRest compat fuel s md nd = .ok (s', n) → s'.Suffix s
  | 0, s, md, nd, s', n, h => by simp only [consumeRest] at h; cases h
  | fuel + 1, s, md, nd, s', n, h => by
    simp only [consumeRest] at h
    split at h
    · bind_at h with ⟨nx, hnx, h⟩
      cases nx with
      | none => cases h; exact Stream.Suffix.refl _
      | some x =>
        obtain ⟨⟨i, sym⟩, s1⟩ := x
        exact (consumeRest_ok compat fuel _ _ _ _ _ h).trans (Stream.next_suffix hnx).1
    · cases h; exact Stream.Suffix.refl _

theorem consumeRest_err (compat : Bool) : ∀ (fuel : Nat) (s : Stream) (md : Option Nat) (nd : Nat)
    (e : PyExc), s.toks.length < fuel → consumeRest compat fuel s md nd = .error e →
    e = .DecoderError ∧ s.hanging = true
  | 0, s, md, nd, e, hf, h => by omega
  | fuel + 1, s, md, nd, e, hf, h => by
    simp only [consumeRest] at h
    split at h
    · rcases bind_err h with h | ⟨nx, hnx, h⟩
      · exact Stream.next_err h
      · cases nx with
        | none => cases h
        | some x =>
          obtain ⟨⟨i, sym⟩, s1⟩ := x
          have hs := Stream.next_suffix hnx
          have := consumeRest_err compat fuel _ _ _ _ (by omega) h
          exact ⟨this.1, by rw [← hs.1.1]; exact this.2⟩
    · cases h

/-- the `finish` continuation of `deriveLoop` -/
theorem fin_suffix {compat} {k : Nat} {s0 : Stream} {mol : Mol} {rings : List RingReq} {md nd}
    {r : DState × Nat}
    (h : (do
      let __x ← consumeRest compat k s0 md nd
      match __x with
        | (s', n) => pure ({ stream := s', mol := mol, rings := rings }, n) : Py (DState × Nat))
      = .ok r) : r.1.stream.Suffix s0 := by
  obtain ⟨⟨s', n⟩, h1, h2⟩ := bind_okD h
  cases h2
  exact consumeRest_ok compat _ _ _ _ _ _ h1

theorem fin_err {compat} {k : Nat} {s0 : Stream} {mol : Mol} {rings : List RingReq} {md nd}
    {e : PyExc} (hk : s0.toks.length < k)
    (h : (do
      let __x ← consumeRest compat k s0 md nd
      match __x with
        | (s', n) => pure ({ stream := s', mol := mol, rings := rings }, n) : Py (DState × Nat))
      = .error e) : e = .DecoderError ∧ s0.hanging = true := by
  rcases bind_err h with h | ⟨⟨s', n⟩, _, h⟩
  · exact consumeRest_err compat _ _ _ _ _ hk h
  · cases h

end SV
