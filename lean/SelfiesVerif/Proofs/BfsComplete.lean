/-
  C05, completeness, stage 2: the BFS of `_find_augmenting_path` is complete.

  If the BFS returns `None`, the set `S` of vertices with a `parents` entry contains the root and is
  CLOSED: every neighbour `v` of a vertex of `S` is the root or is matched, and its mate is in `S`
  (each vertex of `S` was dequeued, and its whole adjacency list was scanned without meeting an
  unmatched vertex other than the root).  Along an alternating walk from the root, the vertices at
  even distance are therefore all in `S` and the walk can never reach an unmatched vertex other
  than the root.  So: if an augmenting path (indeed: any alternating walk) from `root` to another
  unmatched vertex exists, the BFS does not return `None`.

  Bipartiteness is NOT needed for this direction — the blossom-free BFS never marks "inner"
  vertices, so no vertex is blocked by having been reached with the wrong parity.  What fails on
  non-bipartite graphs (finding F9) is the simplicity of the walk that is returned, not its
  existence; bipartiteness enters in stage 3 (Proofs/BipartiteComplete.lean) via
  `findAugmentingPath_simple_of_bipartite`.
-/
import SelfiesVerif.Proofs.EncTotalMatch

namespace SV
open C09

/-- the neighbour `v` of a scanned vertex did not end the search -/
def NbrOK (m : Matching) (root : Nat) (p : Parents) (v : Nat) : Prop :=
  v = root ∨ ∃ w, m[v]? = some (some w) ∧ IsSet p w

/-- all neighbours of `u` were scanned -/
def Scanned (g : Graph) (m : Matching) (root : Nat) (p : Parents) (u : Nat) : Prop :=
  ∀ v, Adj g u v → NbrOK m root p v

theorem NbrOK.mono {m : Matching} {root : Nat} {p p' : Parents} (h : ∀ x, IsSet p x → IsSet p' x)
    {v : Nat} (hv : NbrOK m root p v) : NbrOK m root p' v := by
  rcases hv with e | ⟨w, h1, h2⟩
  · exact Or.inl e
  · exact Or.inr ⟨w, h1, h w h2⟩

theorem Scanned.mono {g : Graph} {m : Matching} {root : Nat} {p p' : Parents}
    (h : ∀ x, IsSet p x → IsSet p' x) {u : Nat} (hu : Scanned g m root p u) : Scanned g m root p' u :=
  fun v hv => (hu v hv).mono h

theorem isSet_of_set {p : Parents} {x y : Nat} {v : Option (Option Nat × Option Nat)}
    (h : IsSet (p.set y v) x) : x = y ∨ IsSet p x := by
  obtain ⟨w, hw⟩ := h
  rw [List.getElem?_set] at hw
  split at hw
  · rename_i e; exact Or.inl e.symm
  · exact Or.inr ⟨w, hw⟩

/-- the `for adj in graph[node]` loop, when it ends without `other_end`: entries are only added,
    every new entry is appended to the queue additions, and every scanned neighbour is the root or
    has its mate in the table -/
theorem bfsScan_none {m : Matching} {root node : Nat} :
    ∀ (l : List Nat) (p : Parents) (added : List Nat) (p' : Parents) (added' : List Nat),
    bfsScan root node m l p added = .ok (p', added', none) →
    (∀ x, IsSet p x → IsSet p' x) ∧ (∀ x, IsSet p' x → IsSet p x ∨ x ∈ added') ∧
      (∀ x ∈ added, x ∈ added') ∧ (∀ v ∈ l, NbrOK m root p' v) := by
  intro l
  induction l with
  | nil =>
    intro p added p' added' h
    simp only [bfsScan] at h
    cases h
    exact ⟨fun _ h => h, fun _ h => Or.inl h, fun _ h => h, by simp⟩
  | cons adj rest ih =>
    intro p added p' added' h
    simp only [bfsScan, bind, Except.bind] at h
    split at h
    · cases h
    · rename_i mo hmo
      rw [getIdx_ok] at hmo
      split at h
      · -- `adj` is unmatched
        split at h
        · split at h
          · cases h
          · simp only [pure, Except.pure] at h
            cases h
        · rename_i hne
          have hroot : adj = root := by simpa using hne
          obtain ⟨i1, i2, i3, i4⟩ := ih _ _ _ _ h
          refine ⟨i1, i2, i3, ?_⟩
          intro v hv
          simp only [List.mem_cons] at hv
          rcases hv with rfl | hv
          · exact Or.inl hroot
          · exact i4 v hv
      · rename_i adjMate
        split at h
        · cases h
        · rename_i pv hpv
          rw [getIdx_ok] at hpv
          split at h
          · -- the mate gets its entry now
            rename_i hnone
            have hpv' : p[adjMate]? = some none := by
              cases pv with
              | none => exact hpv
              | some _ => cases hnone
            obtain ⟨i1, i2, i3, i4⟩ := ih _ _ _ _ h
            have hset : IsSet (p.set adjMate (some (some node, some adj))) adjMate :=
              ⟨_, by rw [List.getElem?_set, if_pos rfl, if_pos (lt_of_getElem?_some hpv')]⟩
            refine ⟨fun x hx => i1 x (hx.set hpv' _), ?_, fun x hx => i3 x (by simp [hx]), ?_⟩
            · intro x hx
              rcases i2 x hx with hx' | hx'
              · rcases isSet_of_set hx' with rfl | hx''
                · exact Or.inr (i3 _ (by simp))
                · exact Or.inl hx''
              · exact Or.inr hx'
            · intro v hv
              simp only [List.mem_cons] at hv
              rcases hv with rfl | hv
              · exact Or.inr ⟨adjMate, hmo, i1 _ hset⟩
              · exact i4 v hv
          · -- the mate already has an entry
            rename_i hnone
            have hset : IsSet p adjMate := by
              cases pv with
              | none => exact absurd rfl hnone
              | some w => exact ⟨w, hpv⟩
            obtain ⟨i1, i2, i3, i4⟩ := ih _ _ _ _ h
            refine ⟨i1, i2, i3, ?_⟩
            intro v hv
            simp only [List.mem_cons] at hv
            rcases hv with rfl | hv
            · exact Or.inr ⟨adjMate, hmo, i1 _ hset⟩
            · exact i4 v hv

/-- the `while queue:` loop, when it ends without `other_end`: if every vertex with an entry is
    still queued or was scanned, then in the end every vertex with an entry was scanned -/
theorem bfsLoop_none {g : Graph} {m : Matching} {root : Nat} :
    ∀ (fuel : Nat) (queue : List Nat) (p p' : Parents),
    bfsLoop g root m fuel queue p = .ok (p', none) →
    (∀ x, IsSet p x → x ∈ queue ∨ Scanned g m root p x) →
    (∀ x, IsSet p x → IsSet p' x) ∧ ∀ x, IsSet p' x → Scanned g m root p' x := by
  intro fuel
  induction fuel with
  | zero =>
    intro queue p p' h hinv
    simp only [bfsLoop] at h
    split at h
    · rename_i he
      cases h
      rw [List.isEmpty_iff] at he
      subst he
      exact ⟨fun _ h => h, fun x hx => (hinv x hx).resolve_left (by simp)⟩
    · cases h
  | succ fuel ih =>
    intro queue p p' h hinv
    cases queue with
    | nil =>
      simp only [bfsLoop] at h
      cases h
      exact ⟨fun _ h => h, fun x hx => (hinv x hx).resolve_left (by simp)⟩
    | cons node queue =>
      simp only [bfsLoop, bind, Except.bind] at h
      split at h
      · cases h
      · rename_i nbrs hnbrs
        rw [getIdx_ok] at hnbrs
        split at h
        · cases h
        · rename_i res hres
          obtain ⟨p1, added, oe1⟩ := res
          simp only at h
          split at h
          · simp only [pure, Except.pure] at h
            cases h
          · obtain ⟨s1, s2, _, s4⟩ := bfsScan_none nbrs p [] p1 added hres
            have hnode : Scanned g m root p1 node := by
              intro v ⟨l, hl, hv⟩
              rw [hnbrs] at hl
              cases hl
              exact s4 v hv
            obtain ⟨j1, j2⟩ := ih _ _ _ h (by
              intro x hx
              rcases s2 x hx with hx' | hx'
              · rcases hinv x hx' with hq | hs
                · simp only [List.mem_cons] at hq
                  rcases hq with rfl | hq
                  · exact Or.inr hnode
                  · exact Or.inl (by simp [hq])
                · exact Or.inr (hs.mono s1)
              · exact Or.inl (by simp [hx']))
            exact ⟨fun x hx => j1 x (s1 x hx), j2⟩

/-- **the Hungarian-tree certificate**: when `_find_augmenting_path` returns `None`, there is a set
    of vertices that contains the root and is closed under "neighbour, then its mate", all of whose
    neighbours are matched (or the root itself) -/
theorem findAugmentingPath_none_closed {g : Graph} {m : Matching} {root : Nat}
    (hv : ValidPartial g m) (h : findAugmentingPath g root m = .ok none) :
    ∃ S : Nat → Prop, S root ∧
      ∀ u, S u → ∀ v, Adj g u v → v = root ∨ ∃ w, m[v]? = some (some w) ∧ S w := by
  simp only [findAugmentingPath, bind, Except.bind] at h
  split at h
  · cases h
  · rename_i mr hmr
    rw [getIdx_ok] at hmr
    have hr : root < g.length := hv.length_eq ▸ lt_of_getElem?_some hmr
    split at h
    · cases h
    · split at h
      · cases h
      · rename_i res hres
        obtain ⟨p', oe⟩ := res
        simp only at h
        split at h
        · obtain ⟨j1, j2⟩ := bfsLoop_none _ _ _ _ hres (by
            intro x hx
            rcases isSet_of_set hx with rfl | ⟨w, hw⟩
            · exact Or.inl (by simp)
            · rw [List.getElem?_replicate] at hw
              split at hw <;> cases hw)
          refine ⟨IsSet p', j1 root ⟨(none, none), by rw [List.getElem?_set, if_pos rfl]; simp [hr]⟩, ?_⟩
          intro u hu v hadj
          exact j2 u hu v hadj
        · split at h
          · cases h
          · simp only [pure, Except.pure] at h
            cases h

/-- the vertices at odd positions of an alternating path that ends at `root` are in every closed set -/
theorem AltTail.in_closed {g : Graph} {m : Matching} {root : Nat} (hv : ValidPartial g m)
    (hroot : m[root]? = some none) {S : Nat → Prop} (hS : S root)
    (hcl : ∀ u, S u → ∀ v, Adj g u v → v = root ∨ ∃ w, m[v]? = some (some w) ∧ S w) :
    ∀ (b : Nat) (rest : List Nat), AltTail g m b rest → (b :: rest).getLast? = some root → S b
  | b, [], _, hl => by
    simp at hl; subst hl; exact hS
  | _, [_], h, _ => h.elim
  | b, c :: d :: rest, h, hl => by
    rw [List.getLast?_cons_cons, List.getLast?_cons_cons] at hl
    have hd : S d := AltTail.in_closed hv hroot hS hcl d rest h.2.2 hl
    have hcb := (hv.matched _ _ h.1).2.2
    rcases hcl d hd c h.2.1 with e | ⟨w, hw, hs⟩
    · subst e; rw [hroot] at hcb; cases hcb
    · rw [hcb] at hw; cases hw; exact hs

/-- **Stage 2.**  If an alternating walk (`AugPath`; simplicity is not needed) leads from the
    unmatched vertex `root` (last position) to an unmatched vertex other than `root` (first
    position), `_find_augmenting_path(graph, root, matching)` does not return `None`.
    Holds on every simple graph, bipartite or not. -/
theorem findAugmentingPath_ne_none {g : Graph} {m : Matching} {root : Nat} {path : List Nat}
    (hv : ValidPartial g m) (hroot : m[root]? = some none) (hap : AugPath g m path)
    (hlast : path.getLast? = some root) (hhead : ∃ e, path.head? = some e ∧ e ≠ root) :
    findAugmentingPath g root m ≠ .ok none := by
  intro h
  obtain ⟨S, hS, hcl⟩ := findAugmentingPath_none_closed hv h
  match path, hap with
  | a :: b :: rest, hap =>
    obtain ⟨e, he, hne⟩ := hhead
    simp only [List.head?_cons, Option.some.injEq] at he
    subst he
    rw [List.getLast?_cons_cons] at hlast
    have hb : S b := AltTail.in_closed hv hroot hS hcl b rest hap.2.2 hlast
    rcases hcl b hb a hap.2.1 with e | ⟨w, hw, _⟩
    · exact hne e
    · rw [hap.1] at hw; cases hw

/-- with the totality of the BFS (Proofs/EncTotalMatch.lean): a path IS returned, and it is an
    alternating path between `root` and another unmatched vertex -/
theorem findAugmentingPath_complete {g : Graph} {m : Matching} {root : Nat} {path : List Nat}
    (hg : GraphOK g) (hv : ValidPartial g m) (hroot : m[root]? = some none) (hap : AugPath g m path)
    (hlast : path.getLast? = some root) (hhead : ∃ e, path.head? = some e ∧ e ≠ root) :
    ∃ path', findAugmentingPath g root m = .ok (some path') ∧ AugPath g m path' ∧
      path'.getLast? = some root ∧ ∃ e, path'.head? = some e ∧ e ≠ root := by
  rcases findAugmentingPath_total hg (weak_of_valid hv) hroot with h | ⟨path', e, h, _, _, _⟩
  · exact absurd h (findAugmentingPath_ne_none hv hroot hap hlast hhead)
  · obtain ⟨_, h2, h3, h4, _, _⟩ := findAugmentingPath_spec hv h
    exact ⟨path', h, h2, h3, h4⟩

end SV
