/-
  Helper lemmas for property C07 (the semantically robust alphabet) and C06 (`capKey`):

  * ASCII digit characters, `natToStr (value of canonical digits) = digits`
    (`Nat.toDigits 10` inverts Horner evaluation on strings matching `[1-9][0-9]*`) and its converse;
  * the shape of an accepted constraint key (`validKey`): `?`, `E`, `E+C`, `E-C`, the charge `C`
    of at most `Gen.intMaxStrDigits` digits (repair of F10; `KeyShape` is the grammar without
    that bound);
  * what `processAtomSelfiesNoCache` / `processAtomSymbol` do on `[` bond-prefix key `]`;
  * membership in `robustAlphabet`.
-/
import SelfiesVerif.Model.Config
namespace SV

/-! ### ASCII characters -/

theorem char_le_iff (a b : Char) : a ≤ b ↔ a.toNat ≤ b.toNat := by
  rw [Char.le_def, UInt32.le_iff_toNat_le]; rfl

/-- value of an ASCII digit character -/
def asciiVal (c : Char) : Nat := c.toNat - 48

theorem isAsciiDigit_iff {c : Char} : isAsciiDigit c = true ↔ 48 ≤ c.toNat ∧ c.toNat ≤ 57 := by
  simp only [isAsciiDigit, Bool.and_eq_true, decide_eq_true_eq, char_le_iff]
  exact Iff.rfl

theorem isDigit19_iff {c : Char} : isDigit19 c = true ↔ 49 ≤ c.toNat ∧ c.toNat ≤ 57 := by
  simp only [isDigit19, Bool.and_eq_true, decide_eq_true_eq, char_le_iff]
  exact Iff.rfl

theorem isAsciiLower_iff {c : Char} : isAsciiLower c = true ↔ 97 ≤ c.toNat ∧ c.toNat ≤ 122 := by
  simp only [isAsciiLower, Bool.and_eq_true, decide_eq_true_eq, char_le_iff]
  exact Iff.rfl

theorem isAsciiUpper_iff {c : Char} : isAsciiUpper c = true ↔ 65 ≤ c.toNat ∧ c.toNat ≤ 90 := by
  simp only [isAsciiUpper, Bool.and_eq_true, decide_eq_true_eq, char_le_iff]
  exact Iff.rfl

theorem isDigit19_isAsciiDigit {c : Char} (h : isDigit19 c = true) : isAsciiDigit c = true := by
  rw [isDigit19_iff] at h; rw [isAsciiDigit_iff]; omega

theorem char_eq_of_toNat {c : Char} {n : Nat} (h : c.toNat = n) : c = Char.ofNat n := by
  rw [← h, Char.ofNat_toNat]

theorem digitChar_asciiVal {c : Char} (h : isAsciiDigit c = true) : Nat.digitChar (asciiVal c) = c := by
  rw [isAsciiDigit_iff] at h
  have h' : c.toNat = 48 ∨ c.toNat = 49 ∨ c.toNat = 50 ∨ c.toNat = 51 ∨ c.toNat = 52 ∨ c.toNat = 53
      ∨ c.toNat = 54 ∨ c.toNat = 55 ∨ c.toNat = 56 ∨ c.toNat = 57 := by omega
  rcases h' with h' | h' | h' | h' | h' | h' | h' | h' | h' | h' <;>
    (rw [char_eq_of_toNat h']; decide)

theorem asciiVal_lt {c : Char} (h : isAsciiDigit c = true) : asciiVal c < 10 := by
  rw [isAsciiDigit_iff] at h; unfold asciiVal; omega

theorem asciiVal_pos {c : Char} (h : isDigit19 c = true) : 0 < asciiVal c := by
  rw [isDigit19_iff] at h; unfold asciiVal; omega

theorem natToStr_asciiVal {c : Char} (h : isAsciiDigit c = true) : natToStr (asciiVal c) = [c] := by
  rw [natToStr, Nat.toDigits_of_lt_base (asciiVal_lt h), digitChar_asciiVal h]

/-! ### `str(int(ds)) == ds` for canonical decimal strings -/

theorem natToStr_foldl (ds : Str) (hds : ds.all isAsciiDigit = true) :
    ∀ (acc : Nat) (pre : Str), 0 < acc → natToStr acc = pre →
      natToStr ((ds.map asciiVal).foldl (fun a d => a * 10 + d) acc) = pre ++ ds
      ∧ 0 < (ds.map asciiVal).foldl (fun a d => a * 10 + d) acc := by
  induction ds with
  | nil => intro acc pre h0 hp; simp [hp, h0]
  | cons c ds ih =>
    intro acc pre h0 hp
    simp only [List.all_cons, Bool.and_eq_true] at hds
    simp only [List.map_cons, List.foldl_cons]
    have hstep : natToStr (acc * 10 + asciiVal c) = pre ++ [c] := by
      have := Nat.toDigits_append_toDigits (b := 10) (n := acc) (d := asciiVal c) (by omega) h0
        (asciiVal_lt hds.1)
      rw [Nat.mul_comm]
      unfold natToStr at *
      rw [← this, hp, Nat.toDigits_of_lt_base (asciiVal_lt hds.1), digitChar_asciiVal hds.1]
    have := ih hds.2 (acc * 10 + asciiVal c) (pre ++ [c]) (by omega) hstep
    simpa using this

/-- **`Nat.toDigits 10` inverts Horner evaluation on canonical digit strings** `[1-9][0-9]*`. -/
theorem natToStr_digitsVal (d : Char) (ds : Str) (hd : isDigit19 d = true)
    (hds : ds.all isAsciiDigit = true) :
    natToStr (digitsVal ((d :: ds).map asciiVal)) = d :: ds
    ∧ 0 < digitsVal ((d :: ds).map asciiVal) := by
  unfold digitsVal
  simp only [List.map_cons, List.foldl_cons, Nat.zero_mul, Nat.zero_add]
  have := natToStr_foldl ds hds (asciiVal d) [d] (asciiVal_pos hd)
    (natToStr_asciiVal (isDigit19_isAsciiDigit hd))
  simpa using this

/-- conversely `str(n)` is canonical and evaluates back to `n` -/
theorem digitChar_isAsciiDigit {m : Nat} (h : m < 10) :
    isAsciiDigit (Nat.digitChar m) = true ∧ (0 < m → isDigit19 (Nat.digitChar m) = true) := by
  have h' : m = 0 ∨ m = 1 ∨ m = 2 ∨ m = 3 ∨ m = 4 ∨ m = 5 ∨ m = 6 ∨ m = 7 ∨ m = 8 ∨ m = 9 := by omega
  rcases h' with h' | h' | h' | h' | h' | h' | h' | h' | h' | h' <;> (subst h'; decide)

theorem natToStr_canonical (n : Nat) (hn : 0 < n) :
    ∃ d ds, natToStr n = d :: ds ∧ isDigit19 d = true ∧ ds.all isAsciiDigit = true
      ∧ digitsVal ((d :: ds).map asciiVal) = n := by
  induction n using Nat.strongRecOn with
  | _ n ih =>
    by_cases hlt : n < 10
    · refine ⟨Nat.digitChar n, [], ?_, (digitChar_isAsciiDigit hlt).2 hn, rfl, ?_⟩
      · rw [natToStr, Nat.toDigits_of_lt_base hlt]
      · simp [digitsVal, asciiVal, Nat.toNat_digitChar_sub_48_of_lt_ten hlt]
    · obtain ⟨d, ds, h1, h2, h3, h4⟩ := ih (n / 10) (by omega) (by omega)
      have hm : n % 10 < 10 := Nat.mod_lt _ (by omega)
      refine ⟨d, ds ++ [Nat.digitChar (n % 10)], ?_, h2, ?_, ?_⟩
      · unfold natToStr at *
        rw [Nat.toDigits_of_base_le (by omega) (by omega), h1]; rfl
      · simp [h3, (digitChar_isAsciiDigit hm).1]
      · have : digitsVal ((d :: (ds ++ [Nat.digitChar (n % 10)])).map asciiVal)
            = digitsVal ((d :: ds).map asciiVal) * 10 + n % 10 := by
          simp [digitsVal, List.foldl_append, asciiVal, Nat.toNat_digitChar_sub_48_of_lt_ten hm]
        rw [this, h4]; omega

/-! ### element names -/

/-- `[A-Z][a-z]?`, checked together with the facts the scanners need about the two characters -/
def elemOK (E : Str) : Bool :=
  match E with
  | [e1] => isAsciiUpper e1 && !isBondChar e1 && !isDecimal e1 && !isAsciiLower e1
      && e1 != '+' && e1 != '-'
  | [e1, e2] => isAsciiUpper e1 && !isBondChar e1 && !isDecimal e1 && !isAsciiLower e1
      && e1 != '+' && e1 != '-' && isAsciiLower e2 && e2 != '+' && e2 != '-'
  | _ => false

/-- every element name of the library matches `[A-Z][a-z]?` -/
theorem elements_ok : Gen.elements.all elemOK = true := by decide

theorem elemOK_of_mem {E : Str} (h : memStr E Gen.elements = true) : elemOK E = true := by
  have := elements_ok
  rw [List.all_eq_true] at this
  exact this E (by simpa [memStr] using h)

/-- no organic-subset name contains a sign -/
theorem organic_no_sign :
    Gen.organicSubset.all (fun s => !s.contains '+' && !s.contains '-') = true := by
  decide

/-! ### bond prefixes -/

def bondPrefixes : List (Str × Nat) := [([], 1), (['='], 2), (['#'], 3)]

theorem takeOpt_bondPrefix {b : Str} {m : Nat} (hb : (b, m) ∈ bondPrefixes) (e1 : Char) (r : Str)
    (h : isBondChar e1 = false) :
    ∃ bc, takeOpt isBondChar (b ++ e1 :: r) = (bc, e1 :: r) ∧ smilesToBond bc = (2 * m, none) := by
  simp only [bondPrefixes, List.mem_cons, Prod.mk.injEq, List.not_mem_nil, or_false] at hb
  rcases hb with ⟨rfl, rfl⟩ | ⟨rfl, rfl⟩ | ⟨rfl, rfl⟩
  · exact ⟨none, by simp [takeOpt, h], by decide⟩
  · exact ⟨some '=', by simp [takeOpt, isBondChar], by decide⟩
  · exact ⟨some '#', by simp [takeOpt, isBondChar], by decide⟩

/-! ### scanners -/

theorem span_loop_all {α} (p : α → Bool) (l r acc : List α) (h : l.all p = true) :
    List.span.loop p (l ++ r) acc = List.span.loop p r (l.reverse ++ acc) := by
  induction l generalizing acc with
  | nil => rfl
  | cons a l ih =>
    simp only [List.all_cons, Bool.and_eq_true] at h
    simp only [List.cons_append, List.span.loop, h.1, ih (a :: acc) h.2, List.reverse_cons,
      List.append_assoc, List.nil_append]

theorem span_append_stop {α} (p : α → Bool) (l : List α) (a : α) (r : List α)
    (hl : l.all p = true) (ha : p a = false) : (l ++ a :: r).span p = (l, a :: r) := by
  simp only [List.span, span_loop_all p l (a :: r) [] hl, List.span.loop, ha, List.append_nil,
    List.reverse_reverse]

theorem span_stop {α} (p : α → Bool) (a : α) (r : List α) (ha : p a = false) :
    (a :: r).span p = ([], a :: r) := span_append_stop p [] a r rfl ha

theorem decimalStarts_head : ∃ tl, Gen.decimalStarts = 48 :: tl := ⟨_, rfl⟩

theorem decimalVal_ascii {c : Char} (h : isAsciiDigit c = true) : decimalVal? c = some (asciiVal c) := by
  obtain ⟨tl, htl⟩ := decimalStarts_head
  rw [isAsciiDigit_iff] at h
  unfold decimalVal?
  rw [htl, List.find?_cons]
  have : (decide (48 ≤ c.toNat) && decide (c.toNat < 48 + 10)) = true := by
    simp; omega
  rw [this]; rfl

theorem pyIntOfDigits_ascii (ds : Str) (h : ds.all isAsciiDigit = true) :
    pyIntOfDigits ds =
      if ds.length > Gen.intMaxStrDigits then none else some (digitsVal (ds.map asciiVal)) := by
  unfold pyIntOfDigits
  have : (ds.map fun c => (decimalVal? c).getD 0) = ds.map asciiVal := by
    apply List.map_congr_left
    intro c hc
    rw [List.all_eq_true] at h
    rw [decimalVal_ascii (h c hc)]; rfl
  rw [this]

/-- the three characters that can follow the element name in `[` prefix key `]` -/
theorem after_elem_char {c : Char} (hc : c = '+' ∨ c = '-' ∨ c = ']') (rest : Str) :
    isAsciiLower c = false ∧ takeChirality (c :: rest) = ([], c :: rest)
      ∧ takeSelfiesH (c :: rest) = (none, c :: rest) := by
  rcases hc with rfl | rfl | rfl <;> exact ⟨by decide, rfl, rfl⟩

theorem takeSelfiesCharge_bracket : takeSelfiesCharge [']'] = (none, [']']) := rfl

theorem takeSelfiesCharge_signed {sgn d : Char} {ds : Str} (hs : sgn = '+' ∨ sgn = '-')
    (hd : isDigit19 d = true) (hds : ds.all isAsciiDigit = true) :
    takeSelfiesCharge (sgn :: d :: (ds ++ [']'])) = (some (sgn, d :: ds), [']']) := by
  have hsp : (ds ++ [']']).span isAsciiDigit = (ds, [']']) :=
    span_append_stop isAsciiDigit ds ']' [] hds (by decide)
  rcases hs with rfl | rfl <;> simp [takeSelfiesCharge, hd, hsp]

/-! ### `_process_atom_selfies_no_cache` on a symbol without isotope, chirality and H count -/

/-- the atom a plain or charged symbol stands for -/
def plainAtom (E : Str) (charge : Int) : Atom :=
  { element := E, isAromatic := false, isotope := none, chirality := none, hCount := some 0,
    charge := charge }

theorem processAtom_simple (body : Str) (bc : Option Char) (r0 : Str) (e1 : Char) (r2 : Str)
    (e2 : Option Char) (r3 : Str) (chg : Option (Char × Str)) (m : Nat)
    (h0 : takeOpt isBondChar body = (bc, r0))
    (hbc : smilesToBond bc = (2 * m, none))
    (h1 : r0.span isDecimal = ([], e1 :: r2))
    (hu : isAsciiUpper e1 = true)
    (h2 : takeOpt isAsciiLower r2 = (e2, r3))
    (h3 : takeChirality r3 = ([], r3))
    (h4 : takeSelfiesH r3 = (none, r3))
    (h5 : takeSelfiesCharge r3 = (chg, [']'])) :
    processAtomSelfiesNoCache ('[' :: body) =
      if memStr r0.dropLast Gen.organicSubset then
        some ((m, none), { element := e1 :: e2.toList, isAromatic := false })
      else if !memStr (e1 :: e2.toList) Gen.elements then none
      else match chg with
        | none => some ((m, none), plainAtom (e1 :: e2.toList) 0)
        | some (sgn, ds) => (pyIntOfDigits ds).map fun (v : Nat) =>
            ((m, none), plainAtom (e1 :: e2.toList) (if sgn == '+' then (v : Int) else -(v : Int))) := by
  simp only [processAtomSelfiesNoCache, h0, h1, hu, h2, h3, h4, h5, hbc]
  cases chg with
  | none => simp [optStr, plainAtom]
  | some p =>
    obtain ⟨sgn, ds⟩ := p
    cases hp : pyIntOfDigits ds <;> simp [optStr, plainAtom, hp]

/-! ### the shape of an accepted key -/

theorem findChar_getElem {c : Char} {s : Str} {i : Nat} (h : findChar c s = some i) :
    ∃ hi : i < s.length, s[i] = c := by
  unfold findChar at h
  rw [List.findIdx?_eq_some_iff_getElem] at h
  obtain ⟨hi, hp, _⟩ := h
  exact ⟨hi, by simpa using hp⟩

theorem split_at {s : Str} {i : Nat} (hi : i < s.length) :
    s = s.take i ++ s[i] :: s.drop (i + 1) := by
  rw [← List.drop_eq_getElem_cons hi, List.take_append_drop]

theorem validKey_aux {k : Str} {j : Nat} (hj : ∃ hi : j < k.length, k[j] = '+' ∨ k[j] = '-')
    (h : (memStr (k.take j) Gen.elements &&
      (match k.drop (j + 1) with
        | d :: ds => isDigit19 d && ds.all isAsciiDigit &&
                     decide ((d :: ds).length ≤ Gen.intMaxStrDigits)
        | [] => false)) = true) :
    ∃ E sgn d ds, k = E ++ sgn :: d :: ds ∧ memStr E Gen.elements = true ∧ (sgn = '+' ∨ sgn = '-')
      ∧ isDigit19 d = true ∧ ds.all isAsciiDigit = true
      ∧ (d :: ds).length ≤ Gen.intMaxStrDigits := by
  obtain ⟨hi, hs⟩ := hj
  rw [Bool.and_eq_true] at h
  obtain ⟨hE, hd⟩ := h
  cases hdr : k.drop (j + 1) with
  | nil => rw [hdr] at hd; exact absurd hd (by simp)
  | cons d ds =>
    rw [hdr] at hd
    simp only [Bool.and_eq_true, decide_eq_true_eq] at hd
    refine ⟨k.take j, k[j], d, ds, ?_, hE, hs, hd.1.1, hd.1.2, hd.2⟩
    rw [← hdr]; exact split_at hi

/-- **key grammar**: an accepted key other than `?` is `E`, `E+C` or `E-C` with `E` an element name
    and `C` matching `[1-9][0-9]*`, of at most `Gen.intMaxStrDigits` digits -/
theorem validKey_cases {k : Str} (h : validKey k = true) (hq : k ≠ qKey) :
    memStr k Gen.elements = true ∨
    ∃ E sgn d ds, k = E ++ sgn :: d :: ds ∧ memStr E Gen.elements = true ∧ (sgn = '+' ∨ sgn = '-')
      ∧ isDigit19 d = true ∧ ds.all isAsciiDigit = true
      ∧ (d :: ds).length ≤ Gen.intMaxStrDigits := by
  have hq' : (k == qKey) = false := by simpa using hq
  simp only [validKey, hq', Bool.false_eq_true, if_false] at h
  cases hp : findChar '+' k with
  | none =>
    cases hm : findChar '-' k with
    | none => rw [hp, hm] at h; exact Or.inl h
    | some b =>
      rw [hp, hm] at h
      obtain ⟨hi, hb⟩ := findChar_getElem hm
      exact Or.inr (validKey_aux ⟨hi, Or.inr hb⟩ h)
  | some a =>
    obtain ⟨hia, ha⟩ := findChar_getElem hp
    cases hm : findChar '-' k with
    | none =>
      rw [hp, hm] at h
      exact Or.inr (validKey_aux ⟨hia, Or.inl ha⟩ h)
    | some b =>
      rw [hp, hm] at h
      obtain ⟨hib, hb⟩ := findChar_getElem hm
      simp only at h
      rcases Nat.le_total a b with hab | hab
      · rw [Nat.max_eq_right hab] at h
        exact Or.inr (validKey_aux ⟨hib, Or.inr hb⟩ h)
      · rw [Nat.max_eq_left hab] at h
        exact Or.inr (validKey_aux ⟨hia, Or.inl ha⟩ h)

/-! ### the parser on `[` prefix key `]` -/

theorem processAtom_elem {E : Str} (hE : elemOK E = true) {b : Str} {m : Nat}
    (hb : (b, m) ∈ bondPrefixes) {c : Char} (rest : Str) (hc : c = '+' ∨ c = '-' ∨ c = ']')
    {chg : Option (Char × Str)} (h5 : takeSelfiesCharge (c :: rest) = (chg, [']'])) :
    processAtomSelfiesNoCache (['['] ++ b ++ E ++ c :: rest) =
      if memStr (E ++ c :: rest).dropLast Gen.organicSubset then
        some ((m, none), { element := E, isAromatic := false })
      else if !memStr E Gen.elements then none
      else match chg with
        | none => some ((m, none), plainAtom E 0)
        | some (sgn, ds) => (pyIntOfDigits ds).map fun (v : Nat) =>
            ((m, none), plainAtom E (if sgn == '+' then (v : Int) else -(v : Int))) := by
  obtain ⟨hl, hch, hH⟩ := after_elem_char hc rest
  match E, hE with
  | [e1], hE =>
    simp only [elemOK, Bool.and_eq_true, Bool.not_eq_true'] at hE
    obtain ⟨⟨⟨⟨⟨hup, hbond⟩, hdec⟩, _⟩, _⟩, _⟩ := hE
    obtain ⟨bc, h0, hbc⟩ := takeOpt_bondPrefix hb e1 (c :: rest) hbond
    have := processAtom_simple (b ++ e1 :: c :: rest) bc (e1 :: c :: rest) e1 (c :: rest) none
      (c :: rest) chg m h0 hbc (span_stop _ _ _ hdec) hup (by simp [takeOpt, hl]) hch hH h5
    have e : ['['] ++ b ++ [e1] ++ c :: rest = '[' :: (b ++ e1 :: c :: rest) := by simp
    rw [e]; exact this
  | [e1, e2], hE =>
    simp only [elemOK, Bool.and_eq_true, Bool.not_eq_true'] at hE
    obtain ⟨⟨⟨⟨⟨⟨⟨⟨hup, hbond⟩, hdec⟩, _⟩, _⟩, _⟩, hlow⟩, _⟩, _⟩ := hE
    obtain ⟨bc, h0, hbc⟩ := takeOpt_bondPrefix hb e1 (e2 :: c :: rest) hbond
    have := processAtom_simple (b ++ e1 :: e2 :: c :: rest) bc (e1 :: e2 :: c :: rest) e1
      (e2 :: c :: rest) (some e2)
      (c :: rest) chg m h0 hbc (span_stop _ _ _ hdec) hup (by simp [takeOpt, hlow]) hch hH h5
    have e : ['['] ++ b ++ [e1, e2] ++ c :: rest = '[' :: (b ++ e1 :: e2 :: c :: rest) := by simp
    rw [e]; exact this

theorem organic_mem_no_sign {s : Str} (h : memStr s Gen.organicSubset = true) :
    '+' ∉ s ∧ '-' ∉ s := by
  have := organic_no_sign
  rw [List.all_eq_true] at this
  have := this s (by simpa [memStr] using h)
  simpa using this

/-- `[E]`, `[=E]`, `[#E]` for an element name `E` -/
theorem processAtom_plainKey {E : Str} (hE : memStr E Gen.elements = true) {b : Str} {m : Nat}
    (hb : (b, m) ∈ bondPrefixes) :
    processAtomSelfiesNoCache (['['] ++ b ++ E ++ [']']) =
      some ((m, none),
        if memStr E Gen.organicSubset then { element := E, isAromatic := false }
        else plainAtom E 0) := by
  have := processAtom_elem (elemOK_of_mem hE) hb (c := ']') [] (Or.inr (Or.inr rfl))
    takeSelfiesCharge_bracket
  rw [this]
  simp [hE]
  split <;> rfl

/-- `[E+C]`, `[=E-C]`, … for an element name `E` and a canonical charge `C` -/
theorem processAtom_chargedKey {E : Str} (hE : memStr E Gen.elements = true) {sgn d : Char}
    {ds : Str} (hs : sgn = '+' ∨ sgn = '-') (hd : isDigit19 d = true)
    (hds : ds.all isAsciiDigit = true) {b : Str} {m : Nat} (hb : (b, m) ∈ bondPrefixes) :
    processAtomSelfiesNoCache (['['] ++ b ++ (E ++ sgn :: d :: ds) ++ [']']) =
      if (d :: ds).length > Gen.intMaxStrDigits then none
      else some ((m, none), plainAtom E
        (if sgn = '+' then (digitsVal ((d :: ds).map asciiVal) : Int)
         else -(digitsVal ((d :: ds).map asciiVal) : Int))) := by
  have hc : sgn = '+' ∨ sgn = '-' ∨ sgn = ']' := by rcases hs with h | h <;> simp [h]
  have := processAtom_elem (elemOK_of_mem hE) hb (c := sgn) (d :: (ds ++ [']'])) hc
    (takeSelfiesCharge_signed hs hd hds)
  have e : ['['] ++ b ++ (E ++ sgn :: d :: ds) ++ [']'] = ['['] ++ b ++ E ++ sgn :: d :: (ds ++ [']']) := by
    simp
  rw [e, this]
  have hno : memStr (E ++ sgn :: d :: (ds ++ [']'])).dropLast Gen.organicSubset = false := by
    cases hm : memStr (E ++ sgn :: d :: (ds ++ [']'])).dropLast Gen.organicSubset with
    | false => rfl
    | true =>
      have h2 := organic_mem_no_sign hm
      have e2 : (E ++ sgn :: d :: (ds ++ [']'])).dropLast = E ++ sgn :: d :: ds := by
        have : E ++ sgn :: d :: (ds ++ [']']) = (E ++ sgn :: d :: ds) ++ [']'] := by simp
        rw [this, List.dropLast_concat]
      rw [e2] at h2
      rcases hs with rfl | rfl <;> simp at h2
  have hdall : (d :: ds).all isAsciiDigit = true := by
    simp [isDigit19_isAsciiDigit hd, hds]
  simp only [hno, Bool.false_eq_true, if_false, hE, Bool.not_true]
  rw [pyIntOfDigits_ascii _ hdall]
  by_cases hlen : (d :: ds).length > Gen.intMaxStrDigits
  · rw [if_pos hlen, if_pos hlen, Option.map_none]
  · rw [if_neg hlen, if_neg hlen, Option.map_some]
    rcases hs with rfl | rfl <;> simp

/-- a symbol whose atom carries no explicit hydrogens is accepted under every table -/
theorem processAtomSymbol_of_noH (Tb : Table) {x : Str} {bi : Nat × Option Char} {a : Atom}
    (h : processAtomSelfiesNoCache x = some (bi, a)) (h0 : a.hCount.getD 0 = 0) :
    processAtomSymbol Tb x = some (bi, a) := by
  unfold processAtomSymbol
  rw [h]
  have : ¬ (a.bondingCapacity Tb < 0) := by
    unfold Atom.bondingCapacity; rw [h0]; omega
  simp [this]

/-! ### the decoder's dispatch tests (`symbol[-4:-2]`, `"eps" in symbol`) -/

/-- the second character of a two-character tag `symbol[-4:-2]` is the third character from the end -/
theorem tag_second {x : Str} {c1 c2 : Char} (h : sliceFromEnd x 4 2 = [c1, c2]) :
    x.dropLast.dropLast.getLast? = some c2 := by
  unfold sliceFromEnd at h
  simp only at h
  have hy : x.dropLast.dropLast = x.take (x.length - 2) := by
    rw [List.dropLast_eq_take, List.dropLast_eq_take, List.take_take, List.length_take]
    congr 1; omega
  have : x.take (x.length - 2)
      = (x.take (x.length - 2)).take (x.length - 4) ++ [c1, c2] := by
    rw [← h, List.take_append_drop]
  rw [hy, this]; simp

theorem startsWith_eq : ∀ {p s : Str}, startsWith s p = true → ∃ post, s = p ++ post
  | [], s, _ => ⟨s, rfl⟩
  | _ :: _, [], h => by simp [startsWith] at h
  | d :: p, c :: s, h => by
    simp only [startsWith, Bool.and_eq_true, beq_iff_eq] at h
    obtain ⟨post, hp⟩ := startsWith_eq h.2
    exact ⟨post, by rw [h.1, hp]; rfl⟩

theorem containsSub_eq {p : Str} : ∀ {s : Str}, containsSub s p = true → ∃ pre post, s = pre ++ p ++ post
  | [], h => by
    simp only [containsSub, List.isEmpty_iff] at h
    exact ⟨[], [], by simp [h]⟩
  | c :: s, h => by
    simp only [containsSub, Bool.or_eq_true] at h
    rcases h with h | h
    · obtain ⟨post, hp⟩ := startsWith_eq h
      exact ⟨[], post, by simpa using hp⟩
    · obtain ⟨pre, post, hp⟩ := containsSub_eq h
      exact ⟨c :: pre, post, by rw [hp]; simp⟩

/-- a string with at most two lower-case letters does not contain `eps` -/
theorem not_contains_eps {x : Str} (h : (x.filter isAsciiLower).length ≤ 2) :
    containsSub x ['e', 'p', 's'] = false := by
  cases hc : containsSub x ['e', 'p', 's'] with
  | false => rfl
  | true =>
    obtain ⟨pre, post, hp⟩ := containsSub_eq hc
    have h3 : (['e', 'p', 's'].filter isAsciiLower).length = 3 := by decide
    rw [hp] at h
    simp only [List.filter_append, List.length_append, h3] at h
    omega

theorem filter_lower_elem {E : Str} (h : elemOK E = true) : (E.filter isAsciiLower).length ≤ 1 := by
  match E, h with
  | [e1], h =>
    simp only [elemOK, Bool.and_eq_true, Bool.not_eq_true'] at h
    simp [h.1.1.2]
  | [e1, e2], h =>
    simp only [elemOK, Bool.and_eq_true, Bool.not_eq_true'] at h
    obtain ⟨⟨⟨⟨⟨⟨⟨⟨_, _⟩, _⟩, hl⟩, _⟩, _⟩, _⟩, _⟩, _⟩ := h
    simp [List.filter_cons, hl]
    split <;> simp

theorem digit_not_lower {c : Char} (h : isAsciiDigit c = true) : isAsciiLower c = false := by
  rw [isAsciiDigit_iff] at h
  cases hl : isAsciiLower c with
  | false => rfl
  | true => rw [isAsciiLower_iff] at hl; omega

theorem filter_lower_digits {ds : Str} (h : ds.all isAsciiDigit = true) :
    ds.filter isAsciiLower = [] := by
  rw [List.filter_eq_nil_iff]
  rw [List.all_eq_true] at h
  intro c hc
  simp [digit_not_lower (h c hc)]

theorem filter_lower_prefix {b : Str} {m : Nat} (hb : (b, m) ∈ bondPrefixes) :
    b.filter isAsciiLower = [] := by
  simp only [bondPrefixes, List.mem_cons, Prod.mk.injEq, List.not_mem_nil, or_false] at hb
  rcases hb with ⟨rfl, rfl⟩ | ⟨rfl, rfl⟩ | ⟨rfl, rfl⟩ <;> decide

theorem no_eps_plain {E : Str} (hE : elemOK E = true) {b : Str} {m : Nat}
    (hb : (b, m) ∈ bondPrefixes) :
    containsSub (['['] ++ b ++ E ++ [']']) ['e', 'p', 's'] = false := by
  apply not_contains_eps
  have h1 := filter_lower_elem hE
  have h2 : (['['] : Str).filter isAsciiLower = [] := by decide
  have h3 : ([']'] : Str).filter isAsciiLower = [] := by decide
  simp only [List.filter_append, List.length_append, filter_lower_prefix hb, h2, h3, List.length_nil]
  omega

theorem no_eps_charged {E : Str} (hE : elemOK E = true) {sgn d : Char} {ds : Str}
    (hs : sgn = '+' ∨ sgn = '-') (hd : isDigit19 d = true) (hds : ds.all isAsciiDigit = true)
    {b : Str} {m : Nat} (hb : (b, m) ∈ bondPrefixes) :
    containsSub (['['] ++ b ++ (E ++ sgn :: d :: ds) ++ [']']) ['e', 'p', 's'] = false := by
  apply not_contains_eps
  have h1 := filter_lower_elem hE
  have h2 : (['['] : Str).filter isAsciiLower = [] := by decide
  have h3 : ([']'] : Str).filter isAsciiLower = [] := by decide
  have h4 : (sgn :: d :: ds).filter isAsciiLower = [] := by
    have hsl : isAsciiLower sgn = false := by rcases hs with rfl | rfl <;> decide
    simp [hsl, digit_not_lower (isDigit19_isAsciiDigit hd), filter_lower_digits hds]
  simp only [List.filter_append, List.length_append, filter_lower_prefix hb, h2, h3, h4,
    List.length_nil]
  omega

/-- third character from the end of `[` prefix `E` `]` -/
theorem third_last_plain {E : Str} (hE : elemOK E = true) {b : Str} {m : Nat}
    (hb : (b, m) ∈ bondPrefixes) {c : Char}
    (h : (['['] ++ b ++ E ++ [']']).dropLast.dropLast.getLast? = some c) :
    isAsciiLower c = false := by
  simp only [bondPrefixes, List.mem_cons, Prod.mk.injEq, List.not_mem_nil, or_false] at hb
  match E, hE with
  | [e1], hE =>
    rcases hb with ⟨rfl, rfl⟩ | ⟨rfl, rfl⟩ | ⟨rfl, rfl⟩ <;> simp at h <;> subst h <;> decide
  | [e1, e2], hE =>
    simp only [elemOK, Bool.and_eq_true, Bool.not_eq_true'] at hE
    obtain ⟨⟨⟨⟨⟨⟨⟨⟨_, _⟩, _⟩, hl⟩, _⟩, _⟩, _⟩, _⟩, _⟩ := hE
    rcases hb with ⟨rfl, rfl⟩ | ⟨rfl, rfl⟩ | ⟨rfl, rfl⟩ <;> simp at h <;> subst h <;> exact hl

theorem third_last_charged {E : Str} {sgn d : Char} {ds : Str}
    (hs : sgn = '+' ∨ sgn = '-') (hd : isDigit19 d = true) (hds : ds.all isAsciiDigit = true)
    {b : Str} {c : Char}
    (h : (['['] ++ b ++ (E ++ sgn :: d :: ds) ++ [']']).dropLast.dropLast.getLast? = some c) :
    isAsciiLower c = false := by
  have e : ['['] ++ b ++ (E ++ sgn :: d :: ds) ++ [']'] = ((['['] ++ b ++ E ++ [sgn]) ++ d :: ds) ++ [']'] := by
    simp
  have hp : (['['] ++ b ++ E ++ [sgn]).getLast? = some sgn := List.getLast?_concat
  rw [e, List.dropLast_concat, List.dropLast_append_of_ne_nil (by simp), List.getLast?_append, hp] at h
  cases hl : (d :: ds).dropLast.getLast? with
  | none =>
    rw [hl] at h
    simp only [Option.none_or, Option.some.injEq] at h
    subst h
    rcases hs with rfl | rfl <;> decide
  | some z =>
    rw [hl] at h
    simp only [Option.some_or, Option.some.injEq] at h
    subst h
    have hz : z ∈ d :: ds := List.dropLast_subset _ (List.mem_of_getLast? hl)
    rcases List.mem_cons.1 hz with rfl | hz
    · exact digit_not_lower (isDigit19_isAsciiDigit hd)
    · rw [List.all_eq_true] at hds
      exact digit_not_lower (hds z hz)

/-! ### `robustAlphabet` -/

/-- the fifteen branch / ring symbols `get_semantic_robust_alphabet` always adds, in insertion order -/
def structSyms : List Str :=
  ["[Ring1]".toList, "[=Ring1]".toList, "[Branch1]".toList, "[=Branch1]".toList, "[#Branch1]".toList,
   "[Ring2]".toList, "[=Ring2]".toList, "[Branch2]".toList, "[=Branch2]".toList, "[#Branch2]".toList,
   "[Ring3]".toList, "[=Ring3]".toList, "[Branch3]".toList, "[=Branch3]".toList, "[#Branch3]".toList]

/-- the atom symbols of a table -/
def atomSyms (T : Constraints) : List Str :=
  T.flatMap fun (a, c) => bondPrefixes.filterMap fun (b, m) =>
    if m > c || a == qKey then none else some (['['] ++ b ++ a ++ [']'])

theorem structSyms_eq :
    ((List.range 3).flatMap fun i =>
      let n := natToStr (i + 1)
      ["[Ring".toList ++ n ++ [']'], "[=Ring".toList ++ n ++ [']'], "[Branch".toList ++ n ++ [']'],
       "[=Branch".toList ++ n ++ [']'], "[#Branch".toList ++ n ++ [']']]) = structSyms := by
  decide

theorem robustAlphabet_eq (T : Constraints) :
    robustAlphabet T = (atomSyms T ++ structSyms ++ Gen.indexAlphabet).eraseDups := by
  unfold robustAlphabet
  simp only [structSyms_eq]
  rfl

theorem nodup_eraseDups {α} [BEq α] [LawfulBEq α] : ∀ l : List α, l.eraseDups.Nodup
  | [] => by simp
  | a :: as => by
    rw [List.eraseDups_cons]
    have : (as.filter fun b => !b == a).length < (a :: as).length :=
      Nat.lt_succ_of_le (List.length_filter_le _ _)
    refine List.nodup_cons.2 ⟨?_, nodup_eraseDups _⟩
    simp [List.mem_eraseDups]
termination_by l => l.length

theorem mem_atomSyms {T : Constraints} {x : Str} :
    x ∈ atomSyms T ↔ ∃ k c, (k, c) ∈ T ∧ k ≠ qKey ∧ ∃ b m, (b, m) ∈ bondPrefixes ∧ m ≤ c
      ∧ x = ['['] ++ b ++ k ++ [']'] := by
  simp only [atomSyms, List.mem_flatMap, List.mem_filterMap, Prod.exists]
  constructor
  · rintro ⟨k, c, hkc, b, m, hbm, h⟩
    split at h
    · exact absurd h (by simp)
    · rename_i hc
      simp only [Bool.or_eq_true, decide_eq_true_eq, beq_iff_eq, not_or, Nat.not_lt] at hc
      exact ⟨k, c, hkc, hc.2, b, m, hbm, hc.1, by simpa using h.symm⟩
  · rintro ⟨k, c, hkc, hq, b, m, hbm, hmc, rfl⟩
    refine ⟨k, c, hkc, b, m, hbm, ?_⟩
    have : (decide (m > c) || k == qKey) = false := by
      simp [hq]; omega
    simp [this]

theorem mem_robustAlphabet {T : Constraints} {x : Str} :
    x ∈ robustAlphabet T ↔ x ∈ atomSyms T ∨ x ∈ structSyms ∨ x ∈ Gen.indexAlphabet := by
  rw [robustAlphabet_eq, List.mem_eraseDups, List.mem_append, List.mem_append, or_assoc]

/-! ### accepted dictionaries -/

theorem validateDict_go {d : PyDict} (h : validateDict.go d = none) :
    ∀ kv ∈ d, ∃ s, kv.1 = PyKey.str s ∧ validKey s = true ∧ kv.2.validCapacity = true := by
  induction d with
  | nil => intro kv hkv; cases hkv
  | cons p d ih =>
    obtain ⟨k, v⟩ := p
    cases k with
    | other => simp [validateDict.go] at h
    | str s =>
      simp only [validateDict.go] at h
      split at h
      · cases h
      · split at h
        · cases h
        · rename_i h1 h2
          intro kv hkv
          rcases List.mem_cons.1 hkv with rfl | hkv
          · exact ⟨s, rfl, by simpa using h1, by simpa using h2⟩
          · exact ih h kv hkv

theorem validateDict_ok {d : PyDict} (h : validateDict d = none) :
    (d.any fun kv => kv.1 == PyKey.str qKey) = true ∧ validateDict.go d = none := by
  unfold validateDict at h
  split at h
  · cases h
  · rename_i h1
    exact ⟨by simpa using h1, h⟩

/-- every key of the table the library stores after accepting `d` obeys the key grammar -/
theorem validateDict_keys {d : PyDict} (h : validateDict d = none) {k : Str} {c : Nat}
    (hkc : (k, c) ∈ d.toConstraints) : validKey k = true := by
  unfold PyDict.toConstraints at hkc
  rw [List.mem_filterMap] at hkc
  obtain ⟨kv, hkv, he⟩ := hkc
  obtain ⟨s, hs, hv, _⟩ := validateDict_go (validateDict_ok h).2 kv hkv
  rw [hs] at he
  simp only [Option.some.injEq, Prod.mk.injEq] at he
  rw [← he.1]; exact hv

theorem lookup_toConstraints_q {d : PyDict}
    (h : (d.any fun kv => kv.1 == PyKey.str qKey) = true) :
    ∃ q, lookup qKey d.toConstraints = some q := by
  induction d with
  | nil => simp at h
  | cons p d ih =>
    obtain ⟨k, v⟩ := p
    simp only [List.any_cons, Bool.or_eq_true] at h
    cases k with
    | other =>
      have : (PyKey.other == PyKey.str qKey) = false := by decide
      simp only [this, Bool.false_eq_true, false_or] at h
      obtain ⟨q, hq⟩ := ih h
      exact ⟨q, by simpa [PyDict.toConstraints] using hq⟩
    | str s =>
      by_cases hs : s = qKey
      · subst hs
        exact ⟨v.toNat, by simp [PyDict.toConstraints, lookup]⟩
      · have : (PyKey.str s == PyKey.str qKey) = false := by simpa using hs
        simp only [this, Bool.false_eq_true, false_or] at h
        obtain ⟨q, hq⟩ := ih h
        refine ⟨q, ?_⟩
        have hne : (s == qKey) = false := by simpa using hs
        simpa [PyDict.toConstraints, lookup, hne] using hq

/-- an accepted dictionary always yields a total table (`?` is present) -/
theorem ofDict_of_valid {d : PyDict} (h : validateDict d = none) :
    ∃ Tb, Table.ofDict d.toConstraints = some Tb := by
  obtain ⟨q, hq⟩ := lookup_toConstraints_q (validateDict_ok h).1
  refine ⟨({ entries := d.toConstraints, dflt := q } : Table), ?_⟩
  simp [Table.ofDict, hq]

theorem ofDict_entries {T : Constraints} {Tb : Table} (h : Table.ofDict T = some Tb) :
    Tb.entries = T := by
  unfold Table.ofDict at h
  split at h
  · simp only [Option.some.injEq] at h; rw [← h]
  · cases h

theorem lookup_of_mem_nodup {T : Constraints} (hnd : (T.map (·.1)).Nodup) {k : Str} {c : Nat}
    (h : (k, c) ∈ T) : lookup k T = some c := by
  induction T with
  | nil => cases h
  | cons p T ih =>
    obtain ⟨k', c'⟩ := p
    simp only [List.map_cons, List.nodup_cons] at hnd
    rcases List.mem_cons.1 h with h | h
    · simp only [Prod.mk.injEq] at h
      simp [lookup, h.1, h.2]
    · have hne : k' ≠ k := by
        rintro rfl
        exact hnd.1 (List.mem_map.2 ⟨(k', c), h, rfl⟩)
      have : (k' == k) = false := by simpa using hne
      simp only [lookup, this, Bool.false_eq_true, if_false]
      exact ih hnd.2 h

/-! ### the charge digits of a key -/

/-- the text after the sign of a key `E+C` / `E-C` (empty for a key without sign) -/
def keyChargeDigits (k : Str) : Str := (k.dropWhile fun c => !(c == '+' || c == '-')).drop 1

theorem dropWhile_append_all {α} (p : α → Bool) (l r : List α) (h : ∀ x ∈ l, p x = true) :
    (l ++ r).dropWhile p = r.dropWhile p := by
  induction l with
  | nil => rfl
  | cons a l ih =>
    simp only [List.cons_append, List.dropWhile_cons, h a (List.mem_cons_self ..), if_true]
    exact ih fun x hx => h x (List.mem_cons_of_mem _ hx)

theorem elem_no_sign {E : Str} (h : elemOK E = true) : ∀ c ∈ E, c ≠ '+' ∧ c ≠ '-' := by
  match E, h with
  | [e1], h =>
    simp only [elemOK, Bool.and_eq_true, Bool.not_eq_true', bne_iff_ne] at h
    intro c hc; simp only [List.mem_cons, List.not_mem_nil, or_false] at hc; subst hc
    exact ⟨h.1.2, h.2⟩
  | [e1, e2], h =>
    simp only [elemOK, Bool.and_eq_true, Bool.not_eq_true', bne_iff_ne] at h
    obtain ⟨⟨⟨⟨⟨⟨⟨⟨_, _⟩, _⟩, _⟩, h1⟩, h2⟩, _⟩, h3⟩, h4⟩ := h
    intro c hc; simp only [List.mem_cons, List.not_mem_nil, or_false] at hc
    rcases hc with rfl | rfl
    · exact ⟨h1, h2⟩
    · exact ⟨h3, h4⟩

theorem keyChargeDigits_plain {E : Str} (h : elemOK E = true) : keyChargeDigits E = [] := by
  have := dropWhile_append_all (fun c => !(c == '+' || c == '-')) E []
    (fun c hc => by have := elem_no_sign h c hc; simp [this.1, this.2])
  simp only [List.append_nil] at this
  unfold keyChargeDigits
  rw [this]; rfl

theorem keyChargeDigits_charged {E : Str} (h : elemOK E = true) {sgn : Char}
    (hs : sgn = '+' ∨ sgn = '-') (ds : Str) : keyChargeDigits (E ++ sgn :: ds) = ds := by
  have := dropWhile_append_all (fun c => !(c == '+' || c == '-')) E (sgn :: ds)
    (fun c hc => by have := elem_no_sign h c hc; simp [this.1, this.2])
  rw [keyChargeDigits, this]
  rcases hs with rfl | rfl <;> simp

/-! ### `capKey` reproduces the key -/

theorem capKey_zero (E : Str) : capKey E 0 = E := by simp [capKey]

theorem capKey_pos (E : Str) {n : Nat} (hn : 0 < n) : capKey E (n : Int) = E ++ '+' :: natToStr n := by
  have h1 : ¬ ((n : Int) = 0) := by omega
  have h2 : ¬ ((n : Int) < 0) := by omega
  simp [capKey, fmtPlus, h2]
  omega

theorem capKey_neg (E : Str) {n : Nat} (hn : 0 < n) : capKey E (-(n : Int)) = E ++ '-' :: natToStr n := by
  have h1 : ¬ (-(n : Int) = 0) := by omega
  have h2 : -(n : Int) < 0 := by omega
  simp [capKey, fmtPlus, h1]
  omega

/-! ### every atom symbol of the alphabet, symbol level -/

/-- What the decoder does with the alphabet symbol `[` prefix key `]`. -/
structure AtomSymbolOK (k : Str) (m : Nat) (x : Str) (a : Atom) : Prop where
  parse : processAtomSelfiesNoCache x = some ((m, none), a)
  element_mem : memStr a.element Gen.elements = true
  not_aromatic : a.isAromatic = false
  isotope : a.isotope = none
  chirality : a.chirality = none
  hCount : a.hCount = none ∨ a.hCount = some 0
  /-- `get_bonding_capacity` looks the atom up under the very key the symbol was built from -/
  capKey_eq : capKey a.element a.charge = k
  /-- the key is `E`, `E+n` or `E-n` (decimal without leading zeros) and the charge is `0`, `n`, `-n` -/
  shape : (k = a.element ∧ a.charge = 0)
    ∨ (∃ n : Nat, 0 < n ∧ k = a.element ++ '+' :: natToStr n ∧ a.charge = n)
    ∨ (∃ n : Nat, 0 < n ∧ k = a.element ++ '-' :: natToStr n ∧ a.charge = -(n : Int))

theorem tag_ne_of_third_last {x : Str}
    (h : ∀ c, x.dropLast.dropLast.getLast? = some c → isAsciiLower c = false) :
    sliceFromEnd x 4 2 ≠ ['c', 'h'] ∧ sliceFromEnd x 4 2 ≠ ['n', 'g'] := by
  constructor
  · intro ht
    have := h _ (tag_second ht)
    exact absurd this (by decide)
  · intro ht
    have := h _ (tag_second ht)
    exact absurd this (by decide)

/-- the key grammar WITHOUT the bound on the number of charge digits (the grammar
    `set_semantic_constraints` checked before the repair of F10): `E`, `E+C`, `E-C` with
    `E ∈ ELEMENTS` and `C` matching `[1-9][0-9]*` -/
def KeyShape (k : Str) : Prop :=
  memStr k Gen.elements = true ∨
  ∃ E sgn d ds, k = E ++ sgn :: d :: ds ∧ memStr E Gen.elements = true ∧ (sgn = '+' ∨ sgn = '-')
    ∧ isDigit19 d = true ∧ ds.all isAsciiDigit = true

theorem validKey_shape {k : Str} (h : validKey k = true) (hq : k ≠ qKey) : KeyShape k := by
  rcases validKey_cases h hq with hE | ⟨E, sgn, d, ds, h1, h2, h3, h4, h5, _⟩
  · exact Or.inl hE
  · exact Or.inr ⟨E, sgn, d, ds, h1, h2, h3, h4, h5⟩

/-- **the repaired validation bounds the charge**: a valid key has at most `intMaxStrDigits`
    charge digits -/
theorem validKey_chargeDigits_le {k : Str} (h : validKey k = true) (hq : k ≠ qKey) :
    (keyChargeDigits k).length ≤ Gen.intMaxStrDigits := by
  rcases validKey_cases h hq with hE | ⟨E, sgn, d, ds, rfl, hE, hs, _, _, hlen⟩
  · rw [keyChargeDigits_plain (elemOK_of_mem hE)]; exact Nat.zero_le _
  · rw [keyChargeDigits_charged (elemOK_of_mem hE) hs]; exact hlen

/-- **Main symbol-level lemma.**  For a key `k ≠ ?` of the shape `E`, `E+C`, `E-C` (no bound on the
    number of digits of `C`) and a bond prefix `b` of order `m`, the symbol `[bk]` is not mistaken
    for a branch, ring or epsilon symbol, and `_process_atom_selfies_no_cache` accepts it iff the
    charge has at most `intMaxStrDigits` digits; the atom it yields is described by
    `AtomSymbolOK`. -/
theorem atomSymbol_spec_shape {k : Str} (hk : KeyShape k) {b : Str} {m : Nat}
    (hb : (b, m) ∈ bondPrefixes) :
    let x := ['['] ++ b ++ k ++ [']']
    sliceFromEnd x 4 2 ≠ ['c', 'h'] ∧ sliceFromEnd x 4 2 ≠ ['n', 'g']
    ∧ containsSub x ['e', 'p', 's'] = false
    ∧ ((keyChargeDigits k).length ≤ Gen.intMaxStrDigits → ∃ a, AtomSymbolOK k m x a)
    ∧ (Gen.intMaxStrDigits < (keyChargeDigits k).length → processAtomSelfiesNoCache x = none) := by
  intro x
  rcases hk with hE | ⟨E, sgn, d, ds, rfl, hE, hs, hd, hds⟩
  · -- plain key
    have hok := elemOK_of_mem hE
    have htag := tag_ne_of_third_last (x := x) fun c hc => third_last_plain hok hb hc
    refine ⟨htag.1, htag.2, no_eps_plain hok hb, ?_, ?_⟩
    · intro _
      refine ⟨_, ⟨processAtom_plainKey hE hb, ?_, ?_, ?_, ?_, ?_, ?_, ?_⟩⟩
      all_goals split <;> simp [plainAtom, hE, capKey_zero]
    · intro h
      rw [keyChargeDigits_plain hok] at h
      exact absurd h (by simp)
  · -- charged key
    have hok := elemOK_of_mem hE
    have htag := tag_ne_of_third_last (x := x) fun c hc => third_last_charged hs hd hds hc
    refine ⟨htag.1, htag.2, no_eps_charged hok hs hd hds hb, ?_, ?_⟩
    · intro hlen
      rw [keyChargeDigits_charged hok hs] at hlen
      obtain ⟨hstr, hpos⟩ := natToStr_digitsVal d ds hd hds
      have hp := processAtom_chargedKey hE hs hd hds hb
      rw [if_neg (by omega)] at hp
      refine ⟨_, ⟨hp, hE, rfl, rfl, rfl, Or.inr rfl, ?_, ?_⟩⟩
      · rcases hs with rfl | rfl
        · simp only [plainAtom, if_true]
          rw [capKey_pos _ hpos, hstr]
        · simp only [plainAtom, show ¬ ('-' = '+') by decide, if_false]
          rw [capKey_neg _ hpos, hstr]
      · rcases hs with rfl | rfl
        · exact Or.inr (Or.inl ⟨_, hpos, by show _ = E ++ '+' :: natToStr _; rw [hstr], by simp [plainAtom]⟩)
        · exact Or.inr (Or.inr ⟨_, hpos, by show _ = E ++ '-' :: natToStr _; rw [hstr], by simp [plainAtom]⟩)
    · intro hlen
      rw [keyChargeDigits_charged hok hs] at hlen
      have hp := processAtom_chargedKey hE hs hd hds hb
      rw [if_pos hlen] at hp
      exact hp

/-- the same for a key accepted by the (repaired) validation -/
theorem atomSymbol_spec {k : Str} (hk : validKey k = true) (hq : k ≠ qKey) {b : Str} {m : Nat}
    (hb : (b, m) ∈ bondPrefixes) :
    let x := ['['] ++ b ++ k ++ [']']
    sliceFromEnd x 4 2 ≠ ['c', 'h'] ∧ sliceFromEnd x 4 2 ≠ ['n', 'g']
    ∧ containsSub x ['e', 'p', 's'] = false
    ∧ ((keyChargeDigits k).length ≤ Gen.intMaxStrDigits → ∃ a, AtomSymbolOK k m x a)
    ∧ (Gen.intMaxStrDigits < (keyChargeDigits k).length → processAtomSelfiesNoCache x = none) :=
  atomSymbol_spec_shape (validKey_shape hk hq) hb

/-- **every atom symbol built from a valid key is accepted** (F10 repaired: no proviso) -/
theorem atomSymbol_valid {k : Str} (hk : validKey k = true) (hq : k ≠ qKey) {b : Str} {m : Nat}
    (hb : (b, m) ∈ bondPrefixes) : ∃ a, AtomSymbolOK k m (['['] ++ b ++ k ++ [']']) a :=
  (atomSymbol_spec hk hq hb).2.2.2.1 (validKey_chargeDigits_le hk hq)

/-! ### the key grammar accepts `E+C` / `E-C` exactly up to `intMaxStrDigits` charge digits -/

theorem findChar_none {c : Char} {s : Str} (h : ∀ x ∈ s, x ≠ c) : findChar c s = none := by
  unfold findChar
  rw [List.findIdx?_eq_none_iff]
  intro x hx; simpa using h x hx

theorem findChar_append_hit {c : Char} {l r : Str} (hl : ∀ x ∈ l, x ≠ c) :
    findChar c (l ++ c :: r) = some l.length := by
  unfold findChar
  induction l with
  | nil => simp [List.findIdx?_cons]
  | cons a l ih =>
    have ha : (a == c) = false := by simpa using hl a (List.mem_cons_self ..)
    simp only [List.cons_append, List.findIdx?_cons, ha, Bool.false_eq_true, if_false,
      ih fun x hx => hl x (List.mem_cons_of_mem _ hx)]
    rfl

theorem digit_ne_sign {c : Char} (h : isAsciiDigit c = true) : c ≠ '+' ∧ c ≠ '-' := by
  rw [isAsciiDigit_iff] at h
  constructor <;> (rintro rfl; revert h; decide)

theorem validKey_charged_eq {E : Str} (hE : memStr E Gen.elements = true) {sgn d : Char} {ds : Str}
    (hs : sgn = '+' ∨ sgn = '-') (hd : isDigit19 d = true) (hds : ds.all isAsciiDigit = true) :
    validKey (E ++ sgn :: d :: ds) = decide ((d :: ds).length ≤ Gen.intMaxStrDigits) := by
  have hok := elemOK_of_mem hE
  have hns := elem_no_sign hok
  have hdig : ∀ x ∈ d :: ds, x ≠ '+' ∧ x ≠ '-' := by
    intro x hx
    rcases List.mem_cons.1 hx with rfl | hx
    · exact digit_ne_sign (isDigit19_isAsciiDigit hd)
    · rw [List.all_eq_true] at hds; exact digit_ne_sign (hds x hx)
  have hnq : (E ++ sgn :: d :: ds == qKey) = false := by
    cases E with
    | nil => simp [elemOK] at hok
    | cons e E => simp [qKey]
  have htake : (E ++ sgn :: d :: ds).take E.length = E := by simp
  have hdrop : (E ++ sgn :: d :: ds).drop (E.length + 1) = d :: ds := by simp
  rcases hs with rfl | rfl
  · have hfp : findChar '+' (E ++ '+' :: d :: ds) = some E.length :=
      findChar_append_hit fun x hx => (hns x hx).1
    have hfm : findChar '-' (E ++ '+' :: d :: ds) = none := by
      apply findChar_none
      intro x hx
      rcases List.mem_append.1 hx with hx | hx
      · exact (hns x hx).2
      · rcases List.mem_cons.1 hx with rfl | hx
        · decide
        · exact (hdig x hx).2
    simp only [validKey, hnq, hfp, hfm, htake, hdrop, hE, hd, hds, Bool.false_eq_true, if_false,
      Bool.and_self, Bool.true_and]
  · have hfm : findChar '-' (E ++ '-' :: d :: ds) = some E.length :=
      findChar_append_hit fun x hx => (hns x hx).2
    have hfp : findChar '+' (E ++ '-' :: d :: ds) = none := by
      apply findChar_none
      intro x hx
      rcases List.mem_append.1 hx with hx | hx
      · exact (hns x hx).1
      · rcases List.mem_cons.1 hx with rfl | hx
        · decide
        · exact (hdig x hx).1
    simp only [validKey, hnq, hfp, hfm, htake, hdrop, hE, hd, hds, Bool.false_eq_true, if_false,
      Bool.and_self, Bool.true_and]

/-- `E+C` / `E-C` with at most `intMaxStrDigits` digits is a valid key ... -/
theorem validKey_charged {E : Str} (hE : memStr E Gen.elements = true) {sgn d : Char} {ds : Str}
    (hs : sgn = '+' ∨ sgn = '-') (hd : isDigit19 d = true) (hds : ds.all isAsciiDigit = true)
    (hlen : (d :: ds).length ≤ Gen.intMaxStrDigits) :
    validKey (E ++ sgn :: d :: ds) = true := by
  rw [validKey_charged_eq hE hs hd hds]; exact decide_eq_true hlen

/-- ... and with more digits it is not (repair of F10) -/
theorem validKey_long_charge {E : Str} (hE : memStr E Gen.elements = true) {sgn d : Char} {ds : Str}
    (hs : sgn = '+' ∨ sgn = '-') (hd : isDigit19 d = true) (hds : ds.all isAsciiDigit = true)
    (hlen : Gen.intMaxStrDigits < (d :: ds).length) :
    validKey (E ++ sgn :: d :: ds) = false := by
  rw [validKey_charged_eq hE hs hd hds]; exact decide_eq_false (by omega)

/-- a key of the old grammar is valid iff its charge has at most `intMaxStrDigits` digits -/
theorem validKey_of_shape {k : Str} (hk : KeyShape k) :
    validKey k = decide ((keyChargeDigits k).length ≤ Gen.intMaxStrDigits) := by
  rcases hk with hE | ⟨E, sgn, d, ds, rfl, hE, hs, hd, hds⟩
  · have hok := elemOK_of_mem hE
    have hns := elem_no_sign hok
    rw [keyChargeDigits_plain hok]
    have hfp : findChar '+' k = none := findChar_none fun x hx => (hns x hx).1
    have hfm : findChar '-' k = none := findChar_none fun x hx => (hns x hx).2
    simp [validKey, hfp, hfm, hE]
  · rw [keyChargeDigits_charged (elemOK_of_mem hE) hs, validKey_charged_eq hE hs hd hds]

/-! ### a dict with an invalid key is rejected with `ValueError` -/

theorem validateDict_go_invalid_key {d : PyDict} (hstr : ∀ kv ∈ d, ∃ s, kv.1 = PyKey.str s)
    {k : Str} {v : PyVal} (hmem : (PyKey.str k, v) ∈ d) (hk : validKey k = false) :
    validateDict.go d = some .ValueError := by
  induction d with
  | nil => cases hmem
  | cons p d ih =>
    obtain ⟨k', v'⟩ := p
    obtain ⟨s, hs⟩ := hstr (k', v') (List.mem_cons_self ..)
    simp only at hs; subst hs
    simp only [validateDict.go]
    by_cases h1 : validKey s = true
    · by_cases h2 : v'.validCapacity = true
      · simp only [h1, h2, Bool.not_true, Bool.false_eq_true, if_false]
        rcases List.mem_cons.1 hmem with h | h
        · simp only [Prod.mk.injEq, PyKey.str.injEq] at h
          rw [h.1, h1] at hk; cases hk
        · exact ih (fun kv hkv => hstr kv (List.mem_cons_of_mem _ hkv)) h
      · simp [h1, h2]
    · simp [h1]

/-- if all keys of `d` are strings and one of them fails the key grammar, the validation loop of
    `set_semantic_constraints` raises `ValueError` (also when `?` is missing) -/
theorem validateDict_invalid_key {d : PyDict} (hstr : ∀ kv ∈ d, ∃ s, kv.1 = PyKey.str s)
    {k : Str} {v : PyVal} (hmem : (PyKey.str k, v) ∈ d) (hk : validKey k = false) :
    validateDict d = some .ValueError := by
  unfold validateDict
  split
  · rfl
  · exact validateDict_go_invalid_key hstr hmem hk

theorem setConstraints_rejected {st : CfgState} {ref : Nat} {e : PyExc}
    (h : validateDict (st.dictOf ref) = some e) :
    setConstraints st (.dict ref) = (st, .error e) := by
  simp [setConstraints, h]

/-! ### the characters of a key -/

theorem elements_chars : ∀ E ∈ Gen.elements, ∀ c ∈ E, c ≠ '[' ∧ c ≠ ']' ∧ c ≠ '.' := by decide

theorem digit_ne_bracket {c : Char} (h : isAsciiDigit c = true) : c ≠ '[' ∧ c ≠ ']' ∧ c ≠ '.' := by
  rw [isAsciiDigit_iff] at h
  refine ⟨?_, ?_, ?_⟩ <;> (rintro rfl; revert h; decide)

/-- a key `E`, `E+C`, `E-C` contains no bracket and no dot -/
theorem keyShape_chars {k : Str} (hk : KeyShape k) : ∀ c ∈ k, c ≠ '[' ∧ c ≠ ']' ∧ c ≠ '.' := by
  rcases hk with hE | ⟨E, sgn, d, ds, rfl, hE, hs, hd, hds⟩
  · exact elements_chars k (by simpa [memStr] using hE)
  · intro c hc
    rcases List.mem_append.1 hc with hc | hc
    · exact elements_chars E (by simpa [memStr] using hE) c hc
    · rcases List.mem_cons.1 hc with rfl | hc
      · rcases hs with rfl | rfl <;> decide
      · rcases List.mem_cons.1 hc with rfl | hc
        · exact digit_ne_bracket (isDigit19_isAsciiDigit hd)
        · rw [List.all_eq_true] at hds; exact digit_ne_bracket (hds c hc)

/-! ### the fifteen structural symbols, grouped as the property text does -/

def branchSyms : List Str :=
  ["[Branch1]".toList, "[Branch2]".toList, "[Branch3]".toList,
   "[=Branch1]".toList, "[=Branch2]".toList, "[=Branch3]".toList,
   "[#Branch1]".toList, "[#Branch2]".toList, "[#Branch3]".toList]

def ringSyms : List Str :=
  ["[Ring1]".toList, "[Ring2]".toList, "[Ring3]".toList,
   "[=Ring1]".toList, "[=Ring2]".toList, "[=Ring3]".toList]

theorem mem_structSyms {x : Str} : x ∈ structSyms ↔ x ∈ branchSyms ∨ x ∈ ringSyms := by
  have h1 : ∀ x ∈ structSyms, x ∈ branchSyms ++ ringSyms := by decide
  have h2 : ∀ x ∈ branchSyms ++ ringSyms, x ∈ structSyms := by decide
  rw [← List.mem_append]; exact ⟨h1 x, h2 x⟩

/-! ### object store -/

theorem lookup_append_fresh {β} (l : List (Nat × β)) (k : Nat) (v : β) (h : ∀ p ∈ l, p.1 ≠ k) :
    lookup k (l ++ [(k, v)]) = some v := by
  induction l with
  | nil => simp [lookup]
  | cons p l ih =>
    obtain ⟨k', v'⟩ := p
    have hne : (k' == k) = false := by simpa using h (k', v') (List.mem_cons_self ..)
    simp only [List.cons_append, lookup, hne, Bool.false_eq_true, if_false]
    exact ih fun q hq => h q (List.mem_cons_of_mem _ hq)

end SV
