/-
  Invariant of the ring phase (`formRings`): a simple graph with mirrored ring bonds whose
  tracked counts equal the true bond sums and respect the capacities; preserved by
  `addRingBond`.
-/
import SelfiesVerif.Proofs.DeriveLoop
namespace SV

structure RInv (T : Table) (m : Mol) : Prop where
  lenA : m.adj.length = m.atoms.length
  lenC : m.counts.length = m.atoms.length
  bonds : ∀ (k : Nat) (row : List DirBond), m.adj[k]? = some row → ∀ b ∈ row,
    b.src = k ∧ b.dst < m.atoms.length ∧ b.dst ≠ k ∧ 1 ≤ b.order ∧ b.order ≤ 3 ∧
    (b.ring = false → k < b.dst)
  nodup : ∀ (k : Nat) (row : List DirBond), m.adj[k]? = some row →
    row.Pairwise (fun b b' => b.dst ≠ b'.dst)
  mirror : ∀ (k : Nat) (row : List DirBond), m.adj[k]? = some row → ∀ b ∈ row, b.ring = true →
    ∃ row', m.adj[b.dst]? = some row' ∧ ∃ b' ∈ row', b'.dst = k ∧ b'.order = b.order ∧ b'.ring = true
  counts : ∀ i, i < m.atoms.length → m.counts[i]? = some (bondSum m.adj i)
  cap : ∀ (i : Nat) (a : Atom) (c : Nat), m.atoms[i]? = some a → m.counts[i]? = some c →
    (c : Int) ≤ a.bondingCapacity T

theorem DInv.toRInv {T m} (h : DInv T m) : RInv T m where
  lenA := h.lenA
  lenC := h.lenC
  bonds := fun k row hk b hb => by
    obtain ⟨h1, h2, h3, h4, h5, h6⟩ := h.bonds k row hk b hb
    exact ⟨h1, h3, by omega, h4, h5, fun _ => h2⟩
  nodup := h.nodup
  mirror := fun k row hk b hb hr => by
    have := (h.bonds k row hk b hb).2.2.2.2.2
    rw [hr] at this; cases this
  counts := h.counts
  cap := h.cap

/-- nothing but bond orders / ring bonds changed: the chain skeleton is the same -/
structure SameChain (m m' : Mol) : Prop where
  atoms : m'.atoms = m.atoms
  roots : m'.roots = m.roots
  chain : ∀ i, chainIn m'.adj i = chainIn m.adj i

theorem SameChain.refl (m : Mol) : SameChain m m := ⟨rfl, rfl, fun _ => rfl⟩
theorem SameChain.trans {m m1 m2 : Mol} (h1 : SameChain m m1) (h2 : SameChain m1 m2) : SameChain m m2 :=
  ⟨h2.atoms.trans h1.atoms, h2.roots.trans h1.roots, fun i => (h2.chain i).trans (h1.chain i)⟩

/-! ### replacing two rows -/

section TwoRows
variable {adj : List (List DirBond)} {a b : Nat} {rowa rowb rowa' rowb' : List DirBond}

theorem two_get (ha : adj[a]? = some rowa) (hb : adj[b]? = some rowb) (k : Nat) :
    ((adj.set a rowa').set b rowb')[k]? =
      if k = b then some rowb' else if k = a then some rowa' else adj[k]? := by
  have hal := (List.getElem?_eq_some_iff.mp ha).1
  have hbl := (List.getElem?_eq_some_iff.mp hb).1
  rw [List.getElem?_set]
  by_cases h1 : b = k
  · subst h1; simp [hbl]
  · rw [if_neg h1, if_neg (fun e => h1 e.symm), List.getElem?_set]
    by_cases h2 : a = k
    · subst h2; simp [hal]
    · rw [if_neg h2, if_neg (fun e => h2 e.symm)]

theorem two_wsum (f) (hab : a ≠ b) (ha : adj[a]? = some rowa) (hb : adj[b]? = some rowb) :
    wsum f ((adj.set a rowa').set b rowb') + rsum f rowa + rsum f rowb =
      wsum f adj + rsum f rowa' + rsum f rowb' := by
  have h1 := wsum_set f adj a rowa rowa' ha
  have hb' : (adj.set a rowa')[b]? = some rowb := by
    rw [List.getElem?_set_ne hab]; exact hb
  have h2 := wsum_set f (adj.set a rowa') b rowb rowb' hb'
  omega

end TwoRows

theorem set_self_of_get {α} (l : List α) (i : Nat) (x : α) (h : l[i]? = some x) : l.set i x = l := by
  obtain ⟨hi, rfl⟩ := List.getElem?_eq_some_iff.mp h
  exact List.set_getElem_self hi


theorem addBondAtLoc_ok {adj : List (List DirBond)} {b : DirBond} {pos : Nat} {adj'}
    (h : Mol.addBondAtLoc adj b pos = .ok adj') :
    ∃ row row', adj[b.src]? = some row ∧ row'.Perm (b :: row) ∧ adj' = adj.set b.src row' := by
  unfold Mol.addBondAtLoc at h
  split at h
  · rename_i out hout
    split at h
    · cases h
      exact ⟨out, _, hout, by simp, rfl⟩
    · split at h
      · cases h
        exact ⟨out, _, hout, insertAt_perm _ _ _, rfl⟩
      · cases h
  · cases h

theorem addCount_ok {l : List Nat} {i d : Nat} {l'} (h : Mol.addCount l i d = .ok l') :
    ∃ c, l[i]? = some c ∧ l' = l.set i (c + d) := by
  unfold Mol.addCount at h
  split at h
  · cases h; exact ⟨_, by assumption, rfl⟩
  · cases h

theorem addRingBond_eq {m : Mol} {a b order : Nat} {ast bst : Option Char} {ap bp : Nat} {m' : Mol}
    (hab : a ≠ b) (h : m.addRingBond a b order ast bst ap bp = .ok m') :
    ∃ rowa rowb rowa' rowb' ca cb, m.adj[a]? = some rowa ∧ m.adj[b]? = some rowb ∧
      rowa'.Perm ({ src := a, dst := b, order := order, stereo := ast, ring := true } :: rowa) ∧
      rowb'.Perm ({ src := b, dst := a, order := order, stereo := bst, ring := true } :: rowb) ∧
      m.counts[a]? = some ca ∧ m.counts[b]? = some cb ∧
      m'.adj = (m.adj.set a rowa').set b rowb' ∧
      m'.counts = (m.counts.set a (ca + order)).set b (cb + order) ∧
      m'.atoms = m.atoms ∧ m'.roots = m.roots := by
  unfold Mol.addRingBond at h
  bind_at h with ⟨adj1, h1, h⟩
  bind_at h with ⟨adj2, h2, h⟩
  bind_at h with ⟨c1, h3, h⟩
  bind_at h with ⟨c2, h4, h⟩
  cases h
  obtain ⟨rowa, rowa', e1, p1, rfl⟩ := addBondAtLoc_ok h1
  obtain ⟨rowb, rowb', e2, p2, rfl⟩ := addBondAtLoc_ok h2
  obtain ⟨ca, e3, rfl⟩ := addCount_ok h3
  obtain ⟨cb, e4, rfl⟩ := addCount_ok h4
  simp only at e1 e2 p1 p2
  rw [List.getElem?_set_ne hab] at e2 e4
  exact ⟨rowa, rowb, rowa', rowb', ca, cb, e1, e2, p1, p2, e3, e4, rfl, rfl, rfl, rfl⟩

theorem RInv.addRing {T m} (h : RInv T m) {a b order : Nat} {ab ba : DirBond} {m' : Mol}
    {rowa rowb rowa' rowb' : List DirBond} {ca cb : Nat} {aa ab' : Atom}
    (hne : a ≠ b) (ha : m.adj[a]? = some rowa) (hb : m.adj[b]? = some rowb)
    (pa : rowa'.Perm (ab :: rowa)) (pb : rowb'.Perm (ba :: rowb))
    (hab : ab.src = a ∧ ab.dst = b ∧ ab.order = order ∧ ab.ring = true)
    (hba : ba.src = b ∧ ba.dst = a ∧ ba.order = order ∧ ba.ring = true)
    (hca : m.counts[a]? = some ca) (hcb : m.counts[b]? = some cb)
    (haa : m.atoms[a]? = some aa) (hbb : m.atoms[b]? = some ab')
    (hcapa : (ca : Int) + order ≤ aa.bondingCapacity T)
    (hcapb : (cb : Int) + order ≤ ab'.bondingCapacity T)
    (ho1 : 1 ≤ order) (ho3 : order ≤ 3)
    (hnoa : ∀ x ∈ rowa, x.dst ≠ b) (hnob : ∀ x ∈ rowb, x.dst ≠ a)
    (eadj : m'.adj = (m.adj.set a rowa').set b rowb')
    (ecnt : m'.counts = (m.counts.set a (ca + order)).set b (cb + order))
    (eat : m'.atoms = m.atoms) (ert : m'.roots = m.roots) : RInv T m' ∧ SameChain m m' := by
  have hA := h.lenA
  have hC := h.lenC
  have hal : a < m.atoms.length := (List.getElem?_eq_some_iff.mp haa).1
  have hbl : b < m.atoms.length := (List.getElem?_eq_some_iff.mp hbb).1
  obtain ⟨ab1, ab2, ab3, ab4⟩ := hab
  obtain ⟨ba1, ba2, ba3, ba4⟩ := hba
  have hget : ∀ k, m'.adj[k]? = if k = b then some rowb' else if k = a then some rowa' else m.adj[k]? := by
    intro k; rw [eadj]; exact two_get ha hb k
  have hsum : ∀ f, wsum f m'.adj = wsum f m.adj + f ab + f ba := by
    intro f
    have := two_wsum (rowa' := rowa') (rowb' := rowb') f hne ha hb
    rw [rsum_perm f pa, rsum_perm f pb, rsum_cons, rsum_cons, ← eadj] at this
    omega
  -- every new bond is an old bond or one of the two ring bonds
  have hnew : ∀ (k : Nat) (row : List DirBond), m'.adj[k]? = some row → ∀ x ∈ row,
      (∃ row0, m.adj[k]? = some row0 ∧ x ∈ row0) ∨ (k = a ∧ x = ab) ∨ (k = b ∧ x = ba) := by
    intro k row hk x hx
    rw [hget k] at hk
    split at hk
    · cases hk; subst_vars
      rcases List.mem_cons.mp (pb.mem_iff.mp hx) with rfl | hx
      · exact Or.inr (Or.inr ⟨rfl, rfl⟩)
      · exact Or.inl ⟨rowb, hb, hx⟩
    · split at hk
      · cases hk; subst_vars
        rcases List.mem_cons.mp (pa.mem_iff.mp hx) with rfl | hx
        · exact Or.inr (Or.inl ⟨rfl, rfl⟩)
        · exact Or.inl ⟨rowa, ha, hx⟩
      · exact Or.inl ⟨row, hk, hx⟩
  -- every old bond is still there
  have hold : ∀ (k : Nat) (row0 : List DirBond), m.adj[k]? = some row0 →
      ∃ row, m'.adj[k]? = some row ∧ ∀ x ∈ row0, x ∈ row := by
    intro k row0 hk
    rw [hget k]
    split
    · subst_vars; rw [hb] at hk; cases hk
      exact ⟨_, rfl, fun x hx => pb.mem_iff.mpr (List.mem_cons_of_mem _ hx)⟩
    · split
      · subst_vars; rw [ha] at hk; cases hk
        exact ⟨_, rfl, fun x hx => pa.mem_iff.mpr (List.mem_cons_of_mem _ hx)⟩
      · exact ⟨row0, hk, fun x hx => hx⟩
  have hcnt : ∀ i, m'.counts[i]? =
      if i = b then some (cb + order) else if i = a then some (ca + order) else m.counts[i]? := by
    intro i
    have hal' : a < m.counts.length := by omega
    have hbl' : b < m.counts.length := by omega
    rw [ecnt, List.getElem?_set]
    by_cases h1 : b = i
    · subst h1; simp [hbl']
    · rw [if_neg h1, if_neg (fun e => h1 e.symm), List.getElem?_set]
      by_cases h2 : a = i
      · subst h2; simp [hal']
      · rw [if_neg h2, if_neg (fun e => h2 e.symm)]
  refine ⟨⟨?_, ?_, ?_, ?_, ?_, ?_, ?_⟩, ⟨eat, ert, ?_⟩⟩
  · rw [eadj, eat]; simpa using hA
  · rw [ecnt, eat]; simpa using hC
  · intro k row hk x hx
    rw [eat]
    rcases hnew k row hk x hx with ⟨row0, hk0, hx0⟩ | ⟨rfl, rfl⟩ | ⟨rfl, rfl⟩
    · exact h.bonds k row0 hk0 x hx0
    · refine ⟨ab1, by omega, by omega, by omega, by omega, ?_⟩
      intro hr; rw [ab4] at hr; cases hr
    · refine ⟨ba1, by omega, by omega, by omega, by omega, ?_⟩
      intro hr; rw [ba4] at hr; cases hr
  · intro k row hk
    have hsymm : ∀ {x y : DirBond}, x.dst ≠ y.dst → y.dst ≠ x.dst := fun h e => h e.symm
    rw [hget k] at hk
    split at hk
    · cases hk
      rw [List.Perm.pairwise_iff hsymm pb, List.pairwise_cons]
      exact ⟨fun x hx => by have := hnob x hx; omega, h.nodup b rowb hb⟩
    · split at hk
      · cases hk
        rw [List.Perm.pairwise_iff hsymm pa, List.pairwise_cons]
        exact ⟨fun x hx => by have := hnoa x hx; omega, h.nodup a rowa ha⟩
      · exact h.nodup k row hk
  · intro k row hk x hx hr
    rcases hnew k row hk x hx with ⟨row0, hk0, hx0⟩ | ⟨rfl, rfl⟩ | ⟨rfl, rfl⟩
    · obtain ⟨row1, hk1, y, hy, hy1, hy2, hy3⟩ := h.mirror k row0 hk0 x hx0 hr
      obtain ⟨row2, hk2, hsub⟩ := hold _ _ hk1
      exact ⟨row2, hk2, y, hsub y hy, hy1, hy2, hy3⟩
    · refine ⟨rowb', ?_, ba, pb.mem_iff.mpr (by simp), ba2, by omega, ba4⟩
      rw [hget, ab2]; simp
    · refine ⟨rowa', ?_, ab, pa.mem_iff.mpr (by simp), ab2, by omega, ab4⟩
      rw [hget, ba2]; simp [hne]
  · intro i hi
    rw [eat] at hi
    rw [hcnt i]
    simp only [bondSum, hsum]
    have hwa : bw i ab = if i = a then order else 0 := by
      simp only [bw, ab1, ab2, ab3, ab4]; simp [eq_comm]
    have hwb : bw i ba = if i = b then order else 0 := by
      simp only [bw, ba1, ba2, ba3, ba4]; simp [eq_comm]
    rw [hwa, hwb]
    have hci := h.counts i hi
    simp only [bondSum] at hci
    by_cases h1 : i = b
    · subst h1
      rw [hcb] at hci; cases hci
      have : ¬ i = a := fun e => hne e.symm
      simp [this]
    · rw [if_neg h1, if_neg h1]
      by_cases h2 : i = a
      · subst h2
        rw [hca] at hci; cases hci
        simp
      · rw [if_neg h2, if_neg h2, hci]; simp
  · intro i a' c' h1 h2
    rw [eat] at h1
    rw [hcnt i] at h2
    split at h2
    · subst_vars; cases h2; rw [hbb] at h1; cases h1; exact_mod_cast hcapb
    · split at h2
      · subst_vars; cases h2; rw [haa] at h1; cases h1; exact_mod_cast hcapa
      · exact h.cap i a' c' h1 h2
  · intro i
    simp only [chainIn, hsum]
    have : cw i ab = 0 := by simp [cw, ab4]
    have : cw i ba = 0 := by simp [cw, ba4]
    omega
end SV
