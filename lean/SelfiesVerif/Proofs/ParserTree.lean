/-
  C03p, stage B (2): the tree the SMILES parser builds.

  Ghost state of the parser loop: the finished trees `done` of earlier fragments and a ZIPPER for
  the current fragment, the list of frames on the path from the previous atom (head) up to the root.
  A frame holds an atom, the items already finished at this atom (ring-closure digits and complete
  branches, in written order) and the bond through which it hangs on the next frame; every frame
  but the head is waiting for the subtree of the frame above it.

  The ghost trees are SKELETONS: ring items only mark a position (their contents are read from the
  adjacency lists at the very end, `Proofs/ParserRealize.lean`).  What ties a skeleton node to the
  graph is the SHAPE of its row: which entries are chain bonds, and to which child.

  The stack discipline: `prevStack` is a non-increasing list of frame indices, its head is the head
  frame; `)` folds the frames above the new head into complete subtrees (`foldTo`).
-/
import SelfiesVerif.Proofs.ParserFlat

namespace SV

/-! ### shapes -/

/-- `none`: a ring-closure digit (ring bond or placeholder); `some (j, o, s)`: the chain bond to child `j` -/
abbrev ShapeE := Option (Nat × Nat × Option Char)

def shapeE (ob : Option PBond) : ShapeE :=
  match ob with
  | some b => if b.ring then none else some (b.dst, b.order2, b.stereo)
  | none => none

def chainShape (row : List (Option PBond)) : List ShapeE := row.map shapeE

def Items.shape : Items → List ShapeE
  | .nil => []
  | .ring _ _ _ _ rest => none :: rest.shape
  | .child o s t rest => some (t.idx, o, s) :: rest.shape

/-- append a ring position -/
def Items.snocRing : Items → Items
  | .nil => .ring 0 0 none none .nil
  | .ring p o s s' rest => .ring p o s s' rest.snocRing
  | .child o s t rest => .child o s t rest.snocRing

/-- append a finished branch -/
def Items.snocChild (o : Nat) (s : Option Char) (t : Tree) : Items → Items
  | .nil => .child o s t .nil
  | .ring p o' s' s'' rest => .ring p o' s' s'' (rest.snocChild o s t)
  | .child o' s' t' rest => .child o' s' t' (rest.snocChild o s t)

theorem Items.shape_snocRing : ∀ its : Items, its.snocRing.shape = its.shape ++ [none]
  | .nil => rfl
  | .ring _ _ _ _ rest => by simp [Items.snocRing, Items.shape, Items.shape_snocRing rest]
  | .child _ _ _ rest => by simp [Items.snocRing, Items.shape, Items.shape_snocRing rest]

theorem Items.shape_snocChild (o : Nat) (s : Option Char) (t : Tree) :
    ∀ its : Items, (its.snocChild o s t).shape = its.shape ++ [some (t.idx, o, s)]
  | .nil => rfl
  | .ring _ _ _ _ rest => by simp [Items.snocChild, Items.shape, Items.shape_snocChild o s t rest]
  | .child _ _ _ rest => by simp [Items.snocChild, Items.shape, Items.shape_snocChild o s t rest]

theorem Items.nodes_snocRing (i : Nat) : ∀ its : Items, its.snocRing.nodes i = its.nodes i
  | .nil => rfl
  | .ring _ _ _ _ rest => by simp [Items.snocRing, Items.nodes, Items.nodes_snocRing i rest]
  | .child _ _ _ rest => by simp [Items.snocRing, Items.nodes, Items.nodes_snocRing i rest]

theorem Items.nodes_snocChild (i o : Nat) (s : Option Char) (t : Tree) :
    ∀ its : Items, (its.snocChild o s t).nodes i = its.nodes i ++ t.nodes (some (chainBond i t.idx o s))
  | .nil => by simp [Items.snocChild, Items.nodes]
  | .ring _ _ _ _ rest => by simp [Items.snocChild, Items.nodes, Items.nodes_snocChild i o s t rest]
  | .child _ _ _ rest => by simp [Items.snocChild, Items.nodes, Items.nodes_snocChild i o s t rest]

theorem chainShape_append (r s : List (Option PBond)) : chainShape (r ++ s) = chainShape r ++ chainShape s := by
  simp [chainShape]

theorem chainShape_set_ring {row : List (Option PBond)} {p : Nat} {b : PBond} (hole : row[p]? = some none)
    (hb : b.ring = true) : chainShape (row.set p (some b)) = chainShape row := by
  unfold chainShape
  rw [List.map_set]
  have : shapeE (some b) = none := by simp [shapeE, hb]
  rw [this]
  apply List.ext_getElem?
  intro q
  rw [List.getElem?_set]
  split
  · rename_i e; subst e
    simp only [List.length_map, List.getElem?_map, hole, Option.map_some]
    have hp : p < row.length := (List.getElem?_eq_some_iff.1 hole).1
    simp [hp, shapeE]
  · rfl

/-! ### frames and zippers -/

structure ZFrame where
  idx : Nat
  atom : Atom
  items : Items
  /-- order and stereo mark of the bond from the parent (unused at the root) -/
  o : Nat
  s : Option Char

def ZFrame.tree (fr : ZFrame) : Tree := .node fr.idx fr.atom fr.items

/-- the finished subtree of `fr` becomes the last item of its parent -/
def foldInto (fr pf : ZFrame) : ZFrame := { pf with items := pf.items.snocChild fr.o fr.s fr.tree }

/-- `)`: fold the frames above the frame of atom `q` -/
def foldTo (q : Nat) : ZFrame → List ZFrame → List ZFrame
  | fr, [] => [fr]
  | fr, pf :: z => if fr.idx = q then fr :: pf :: z else foldTo q (foldInto fr pf) z

/-- end of the fragment: fold everything -/
def closeAll : ZFrame → List ZFrame → Tree
  | fr, [] => fr.tree
  | fr, pf :: z => closeAll (foldInto fr pf) z

/-- the bond into the atom of `fr`, whose parent is the head of `z` -/
def intoOf (fr : ZFrame) (z : List ZFrame) : Option PBond :=
  match z with
  | [] => none
  | pf :: _ => some (chainBond pf.idx fr.idx fr.o fr.s)

/-- the atoms of the zipper in pre-order -/
def zidxs : List ZFrame → List Nat
  | [] => []
  | fr :: z => zidxs z ++ fr.idx :: (fr.items.nodes fr.idx).map (·.idx)

def intoOrd (into : Option PBond) : Nat :=
  match into with
  | some b => b.order2
  | none => 0

/-! ### the invariant of a node -/

/-- a finished skeleton node agrees with the graph -/
def NodeOK (g : PMol) (intos : List Nat) (n : NodeInfo) : Prop :=
  g.atoms[n.idx]? = some n.atom ∧ n.items.shape = chainShape (rowOf g.adj n.idx) ∧
    intoOrd n.into = intos.getD n.idx 0

/-- a frame agrees with the graph; `pend` is the chain bond to the frame above it -/
def ZFrameOK (g : PMol) (intos : List Nat) (into : Option PBond) (fr : ZFrame) (pend : List ShapeE) : Prop :=
  g.atoms[fr.idx]? = some fr.atom ∧ fr.items.shape ++ pend = chainShape (rowOf g.adj fr.idx) ∧
    intoOrd into = intos.getD fr.idx 0

def ZipOK (g : PMol) (intos : List Nat) : List ZFrame → List ShapeE → Prop
  | [], _ => True
  | fr :: z, pend =>
    ZFrameOK g intos (intoOf fr z) fr pend ∧ (∀ n ∈ fr.items.nodes fr.idx, NodeOK g intos n) ∧
      ZipOK g intos z [some (fr.idx, fr.o, fr.s)]

/-- what a step leaves alone at atom `i` -/
def Stable (g g' : PMol) (intos intos' : List Nat) (i : Nat) : Prop :=
  (∀ a, g.atoms[i]? = some a → g'.atoms[i]? = some a) ∧
    chainShape (rowOf g'.adj i) = chainShape (rowOf g.adj i) ∧ intos'.getD i 0 = intos.getD i 0

theorem NodeOK.stable {g g' : PMol} {intos intos' : List Nat} {n : NodeInfo} (h : NodeOK g intos n)
    (hs : Stable g g' intos intos' n.idx) : NodeOK g' intos' n :=
  ⟨hs.1 _ h.1, by rw [hs.2.1]; exact h.2.1, by rw [hs.2.2]; exact h.2.2⟩

theorem ZFrameOK.stable {g g' : PMol} {intos intos' : List Nat} {into : Option PBond} {fr : ZFrame}
    {pend : List ShapeE} (h : ZFrameOK g intos into fr pend) (hs : Stable g g' intos intos' fr.idx) :
    ZFrameOK g' intos' into fr pend :=
  ⟨hs.1 _ h.1, by rw [hs.2.1]; exact h.2.1, by rw [hs.2.2]; exact h.2.2⟩

theorem ZipOK.stable {g g' : PMol} {intos intos' : List Nat} :
    ∀ (z : List ZFrame) (pend : List ShapeE), (∀ i ∈ zidxs z, Stable g g' intos intos' i) →
      ZipOK g intos z pend → ZipOK g' intos' z pend
  | [], _, _, _ => trivial
  | fr :: z, pend, hs, h => by
    obtain ⟨h1, h2, h3⟩ := h
    have hmem : ∀ i, i ∈ zidxs z ∨ i = fr.idx ∨ i ∈ (fr.items.nodes fr.idx).map (·.idx) → i ∈ zidxs (fr :: z) := by
      intro i hi
      simp only [zidxs, List.mem_append, List.mem_cons]
      exact hi
    refine ⟨h1.stable (hs _ (hmem _ (Or.inr (Or.inl rfl)))), ?_, ?_⟩
    · intro n hn
      exact (h2 n hn).stable (hs _ (hmem _ (Or.inr (Or.inr (List.mem_map_of_mem hn)))))
    · exact ZipOK.stable z _ (fun i hi => hs i (hmem i (Or.inl hi))) h3

/-! ### folding -/

theorem zidxs_fold (fr pf : ZFrame) (z : List ZFrame) :
    zidxs (foldInto fr pf :: z) = zidxs (fr :: pf :: z) := by
  simp only [zidxs, foldInto, Items.nodes_snocChild, ZFrame.tree, Tree.nodes, List.map_append,
    List.map_cons, List.append_assoc, List.cons_append]

theorem intoOf_fold (fr pf : ZFrame) (z : List ZFrame) : intoOf (foldInto fr pf) z = intoOf pf z := by
  cases z <;> rfl

theorem ZipOK.fold {g : PMol} {intos : List Nat} {fr pf : ZFrame} {z : List ZFrame}
    (h : ZipOK g intos (fr :: pf :: z) []) : ZipOK g intos (foldInto fr pf :: z) [] := by
  obtain ⟨⟨a1, a2, a3⟩, hA, ⟨b1, b2, b3⟩, hB, hC⟩ := h
  refine ⟨⟨b1, ?_, ?_⟩, ?_, hC⟩
  · show (pf.items.snocChild fr.o fr.s fr.tree).shape ++ [] = _
    rw [Items.shape_snocChild, List.append_nil]
    exact b2
  · rw [intoOf_fold]; exact b3
  · intro n hn
    have : n ∈ pf.items.nodes pf.idx ++ fr.tree.nodes (some (chainBond pf.idx fr.tree.idx fr.o fr.s)) := by
      have := Items.nodes_snocChild pf.idx fr.o fr.s fr.tree pf.items
      rw [← this]; exact hn
    rcases List.mem_append.1 this with h1 | h1
    · exact hB n h1
    · simp only [ZFrame.tree, Tree.nodes, Tree.idx, List.mem_cons] at h1
      rcases h1 with rfl | h1
      · exact ⟨a1, by simpa using a2, a3⟩
      · exact hA n h1

def ZSorted (z : List ZFrame) : Prop := (z.map (·.idx)).Pairwise (· > ·)

theorem foldTo_spec {g : PMol} {intos : List Nat} (q : Nat) :
    ∀ (z : List ZFrame) (fr : ZFrame), ZSorted (fr :: z) → q ∈ (fr :: z).map (·.idx) →
      ZipOK g intos (fr :: z) [] →
      ZipOK g intos (foldTo q fr z) [] ∧ zidxs (foldTo q fr z) = zidxs (fr :: z) ∧
        (foldTo q fr z).getLast?.map (·.idx) = (fr :: z).getLast?.map (·.idx) ∧ ZSorted (foldTo q fr z) ∧
        (foldTo q fr z).head?.map (·.idx) = some q ∧
        (∀ x ∈ (fr :: z).map (·.idx), x ≤ q → x ∈ (foldTo q fr z).map (·.idx)) ∧
        (∀ x ∈ (foldTo q fr z).map (·.idx), x ∈ (fr :: z).map (·.idx))
  | [], fr, hs, hq, hok => by
    have hq' : fr.idx = q := by simpa using Eq.symm (by simpa using hq : q = fr.idx)
    exact ⟨hok, rfl, rfl, hs, by simp [foldTo, hq'], fun x hx _ => hx, fun x hx => hx⟩
  | pf :: z, fr, hs, hq, hok => by
    by_cases hfq : fr.idx = q
    · have e : foldTo q fr (pf :: z) = fr :: pf :: z := by simp [foldTo, hfq]
      rw [e]
      exact ⟨hok, rfl, rfl, hs, by simp [hfq], fun x hx _ => hx, fun x hx => hx⟩
    · have e : foldTo q fr (pf :: z) = foldTo q (foldInto fr pf) z := by simp [foldTo, hfq]
      rw [e]
      have hidx : (foldInto fr pf :: z).map (·.idx) = (pf :: z).map (·.idx) := rfl
      have hs0 : (∀ x ∈ (pf :: z).map (·.idx), fr.idx > x) ∧ ZSorted (pf :: z) := by
        unfold ZSorted at hs ⊢
        rw [List.map_cons, List.pairwise_cons] at hs
        exact hs
      have hs' : ZSorted (foldInto fr pf :: z) := by
        unfold ZSorted; rw [hidx]; exact hs0.2
      have hq0 : q ∈ (pf :: z).map (·.idx) := by
        rw [List.map_cons, List.mem_cons] at hq
        rcases hq with h | h
        · exact absurd h.symm hfq
        · exact h
      obtain ⟨g1, g2, g3, g4, g5, g6, g7⟩ := foldTo_spec q z (foldInto fr pf) hs' (hidx ▸ hq0) hok.fold
      refine ⟨g1, by rw [g2, zidxs_fold], ?_, g4, g5, ?_, ?_⟩
      · rw [g3]; cases z <;> rfl
      · intro x hx hxq
        apply g6 x _ hxq
        rw [hidx]
        rw [List.map_cons, List.mem_cons] at hx
        rcases hx with h | h
        · exfalso
          have := hs0.1 q hq0
          omega
        · exact h
      · intro x hx
        have := g7 x hx
        rw [hidx] at this
        rw [List.map_cons, List.mem_cons]
        exact Or.inr this

theorem closeAll_spec {g : PMol} {intos : List Nat} :
    ∀ (z : List ZFrame) (fr : ZFrame), ZipOK g intos (fr :: z) [] →
      (∀ n ∈ (closeAll fr z).nodes none, NodeOK g intos n) ∧
      ((closeAll fr z).nodes none).map (·.idx) = zidxs (fr :: z) ∧
      some (closeAll fr z).idx = (fr :: z).getLast?.map (·.idx)
  | [], fr, h => by
    obtain ⟨⟨a1, a2, a3⟩, hA, _⟩ := h
    refine ⟨?_, ?_, rfl⟩
    · intro n hn
      simp only [closeAll, ZFrame.tree, Tree.nodes, List.mem_cons] at hn
      rcases hn with rfl | hn
      · exact ⟨a1, by simpa using a2, a3⟩
      · exact hA n hn
    · simp [closeAll, ZFrame.tree, Tree.nodes, zidxs]
  | pf :: z, fr, h => by
    obtain ⟨g1, g2, g3⟩ := closeAll_spec z (foldInto fr pf) h.fold
    refine ⟨g1, by rw [← zidxs_fold]; exact g2, ?_⟩
    show some (closeAll (foldInto fr pf) z).idx = _
    rw [g3]
    cases z <;> rfl

/-! ### the ghost state and the graph -/

def pordSum (l : List PBond) : Nat := (l.map (·.order2)).sum

/-- `_bond_counts[i]` = order of the bond into `i` + orders of the bonds stored at `i` -/
structure CountsOK (g : PMol) (intos : List Nat) : Prop where
  ilen : intos.length = g.adj.length
  counts : ∀ i, i < g.adj.length → g.counts2.getD i 0 = intos.getD i 0 + pordSum (rowAt g.adj i)

structure GhostOK (m : PMol) (done : PForest) (z : List ZFrame) (intos : List Nat) : Prop where
  num : done.nodes.map (·.idx) ++ zidxs z = List.range m.adj.length
  roots : m.roots = done.map Tree.idx ++ (z.getLast?.map (·.idx)).toList
  doneOK : ∀ n ∈ done.nodes, NodeOK m intos n
  zip : ZipOK m intos z []
  sorted : ZSorted z
  counts : CountsOK m intos

theorem num_facts {n : Nat} {A : List Nat} {fr : ZFrame} {z : List ZFrame}
    (h : A ++ zidxs (fr :: z) = List.range n) :
    fr.idx < n ∧ ∀ i, (i ∈ A ∨ i ∈ zidxs z ∨ i ∈ (fr.items.nodes fr.idx).map (·.idx)) → i ≠ fr.idx ∧ i < n := by
  have hnd : (A ++ zidxs (fr :: z)).Nodup := by rw [h]; exact List.nodup_range
  have hmem : ∀ i, i ∈ A ++ zidxs (fr :: z) → i < n := by
    intro i hi; rw [h] at hi; exact List.mem_range.1 hi
  simp only [zidxs] at hnd hmem
  refine ⟨hmem _ (by simp), ?_⟩
  intro i hi
  refine ⟨?_, hmem i (by
    simp only [List.mem_append, List.mem_cons]
    rcases hi with h | h | h
    · exact Or.inl h
    · exact Or.inr (Or.inl h)
    · exact Or.inr (Or.inr (Or.inr h)))⟩
  rw [← List.append_assoc, List.nodup_append] at hnd
  obtain ⟨_, h2, h3⟩ := hnd
  rcases hi with hi | hi | hi
  · exact h3 i (List.mem_append_left _ hi) fr.idx (by simp)
  · exact h3 i (List.mem_append_right _ hi) fr.idx (by simp)
  · rw [List.nodup_cons] at h2
    intro e; subst e; exact h2.1 hi

theorem getD_append_nat (l : List Nat) (x i : Nat) (hi : i < l.length) : (l ++ [x]).getD i 0 = l.getD i 0 := by
  rw [List.getD_eq_getElem?_getD, List.getD_eq_getElem?_getD, List.getElem?_append_left hi]

theorem getD_append_self (l : List Nat) (x : Nat) : (l ++ [x]).getD l.length 0 = x := by
  rw [List.getD_eq_getElem?_getD]; simp

theorem getElem?_append_stable {α} {l : List α} {i : Nat} {a : α} (x : α) (h : l[i]? = some a) :
    (l ++ [x])[i]? = some a := by
  rw [List.getElem?_append_left (List.getElem?_eq_some_iff.1 h).1]; exact h

theorem mem_zidxs_of_mem {z : List ZFrame} {f : ZFrame} (hf : f ∈ z) : f.idx ∈ zidxs z := by
  induction z with
  | nil => cases hf
  | cons g z ih =>
    simp only [zidxs, List.mem_append, List.mem_cons]
    rcases List.mem_cons.1 hf with rfl | hf
    · exact Or.inr (Or.inl rfl)
    · exact Or.inl (ih hf)

/-- first atom of a fragment -/
theorem ghost_root {m : PMol} {done : PForest} {intos : List Nat} (hw : PWF m)
    (h : GhostOK m done [] intos) (a : Atom) :
    GhostOK (m.addAtom a true none).1 done [⟨m.adj.length, a, .nil, 0, none⟩] (intos ++ [0]) := by
  obtain ⟨hok, hal, hcl, _⟩ := (pwf_iff _).1 hw
  obtain ⟨hnum, hroots, hdone, _, _, ⟨hil, hcnt⟩⟩ := h
  have hstab : ∀ i, i < m.adj.length → Stable m (m.addAtom a true none).1 intos (intos ++ [0]) i := by
    intro i hi
    refine ⟨fun x hx => getElem?_append_stable _ hx, ?_, getD_append_nat _ _ _ (hil ▸ hi)⟩
    show chainShape (rowOf (m.adj ++ [[]]) i) = _
    rw [rowOf_append_nil]
  have hlt : ∀ n ∈ done.nodes, n.idx < m.adj.length := by
    intro n hn
    have : n.idx ∈ done.nodes.map (·.idx) ++ zidxs [] := List.mem_append_left _ (List.mem_map_of_mem hn)
    rw [hnum] at this; exact List.mem_range.1 this
  refine ⟨?_, ?_, ?_, ?_, ?_, ?_⟩
  · show _ = List.range (m.adj ++ [[]]).length
    simp only [zidxs, Items.nodes, List.map_nil, List.nil_append, List.length_append, List.length_cons,
      List.length_nil, Nat.zero_add, List.range_succ] at hnum ⊢
    rw [← hnum]; simp
  · show (if true = true then m.roots ++ [m.atoms.length] else m.roots) = _
    rw [if_pos rfl, hroots, hal]; simp
  · intro n hn; exact (hdone n hn).stable (hstab _ (hlt n hn))
  · refine ⟨⟨?_, ?_, ?_⟩, by intro n hn; simp [Items.nodes] at hn, trivial⟩
    · show (m.atoms ++ [a])[m.adj.length]? = some a
      rw [← hal]; simp
    · show [] ++ [] = chainShape (rowOf (m.adj ++ [[]]) m.adj.length)
      rw [rowOf_append_nil, rowOf_ge (Nat.le_refl _)]; rfl
    · show 0 = (intos ++ [0]).getD m.adj.length 0
      rw [← hil, getD_append_self]
  · simp [ZSorted]
  · refine ⟨by show _ = (m.adj ++ [[]]).length; simp [hil], ?_⟩
    intro i hi
    show (m.counts2 ++ [0]).getD i 0 = (intos ++ [0]).getD i 0 + pordSum (rowAt (m.adj ++ [[]]) i)
    have hi' : i < m.adj.length + 1 := by simpa [PMol.addAtom] using hi
    rw [getD_append_zero, rowAt_append_nil]
    by_cases hin : i < m.adj.length
    · rw [getD_append_nat _ _ _ (hil ▸ hin)]; exact hcnt i hin
    · have : i = m.adj.length := by omega
      subst this
      rw [getD_zero_of_ge (by omega), ← hil, getD_append_self, hil, rowAt_ge (Nat.le_refl _)]
      rfl

theorem pordSum_snoc (l : List PBond) (b : PBond) : pordSum (l ++ [b]) = pordSum l + b.order2 := by
  simp [pordSum]

/-- an atom bonded to the head frame -/
theorem ghost_attach {m m' : PMol} {done : PForest} {fr : ZFrame} {z : List ZFrame} {intos : List Nat}
    (hw : PWF m) (h : GhostOK m done (fr :: z) intos) {a : Atom} {o : Nat} {s : Option Char}
    (hinv : AttachInv m m' a fr.idx o s none) :
    GhostOK m' done (⟨m.adj.length, a, .nil, o, s⟩ :: fr :: z) (intos ++ [o]) := by
  obtain ⟨hok, hal, hcl, _⟩ := (pwf_iff _).1 hw
  obtain ⟨hnum, hroots, hdone, hzip, hsort, ⟨hil, hcnt⟩⟩ := h
  obtain ⟨hp, hother⟩ := num_facts hnum
  have hstab : ∀ i, i ≠ fr.idx → i < m.adj.length → Stable m m' intos (intos ++ [o]) i := by
    intro i hne hi
    refine ⟨fun x hx => by rw [hinv.atoms]; exact getElem?_append_stable _ hx, ?_,
      getD_append_nat _ _ _ (hil ▸ hi)⟩
    rw [hinv.rowOf, if_neg hne]
  obtain ⟨⟨a1, a2, a3⟩, hA, hZ⟩ := hzip
  refine ⟨?_, ?_, ?_, ?_, ?_, ?_⟩
  · rw [hinv.length, List.range_succ, ← hnum]
    simp [zidxs, Items.nodes]
  · rw [hinv.roots, hroots]; rfl
  · intro n hn
    have := hother n.idx (Or.inl (List.mem_map_of_mem hn))
    exact (hdone n hn).stable (hstab _ this.1 this.2)
  · refine ⟨⟨?_, ?_, ?_⟩, by intro n hn; simp [Items.nodes] at hn, ⟨?_, ?_, ?_⟩, ?_, ?_⟩
    · show m'.atoms[m.adj.length]? = some a
      rw [hinv.atoms, ← hal]; simp
    · show [] ++ [] = chainShape (rowOf m'.adj m.adj.length)
      rw [hinv.rowOf, if_neg (by omega), rowOf_ge (Nat.le_refl _)]; rfl
    · show o = (intos ++ [o]).getD m.adj.length 0
      rw [← hil, getD_append_self]
    · rw [hinv.atoms]; exact getElem?_append_stable _ a1
    · rw [hinv.rowOf, if_pos rfl, chainShape_append, ← a2, List.append_nil]
      rfl
    · rw [getD_append_nat _ _ _ (hil ▸ hp)]; exact a3
    · intro n hn
      have := hother n.idx (Or.inr (Or.inr (List.mem_map_of_mem hn)))
      exact (hA n hn).stable (hstab _ this.1 this.2)
    · refine ZipOK.stable z _ ?_ hZ
      intro i hi
      have := hother i (Or.inr (Or.inl hi))
      exact hstab _ this.1 this.2
  · unfold ZSorted at hsort ⊢
    rw [List.map_cons, List.pairwise_cons]
    refine ⟨?_, hsort⟩
    intro x hx
    obtain ⟨f, hf, rfl⟩ := List.mem_map.1 hx
    show m.adj.length > f.idx
    rcases List.mem_cons.1 hf with rfl | hf
    · exact hp
    · have : f.idx ∈ zidxs z := mem_zidxs_of_mem hf
      exact (hother _ (Or.inr (Or.inl this))).2
  · refine ⟨by rw [hinv.length]; simp [hil], ?_⟩
    intro i hi
    rw [hinv.length] at hi
    have hcs : fr.idx < (m.counts2 ++ [0]).length := by simp; omega
    have hcd : m.adj.length < (cbump (m.counts2 ++ [0]) fr.idx o).length := by rw [cbump_length]; simp; omega
    rw [hinv.counts, cbump_getD _ _ _ _ hcd, cbump_getD _ _ _ _ hcs, getD_append_zero,
      rowAt_eq_bondsOf_rowOf, hinv.rowOf]
    by_cases hin : i < m.adj.length
    · rw [getD_append_nat _ _ _ (hil ▸ hin), hcnt i hin, if_neg (by omega : ¬ m.adj.length = i)]
      by_cases e : i = fr.idx
      · subst e
        rw [if_pos rfl, if_pos rfl, bondsOf_append, ← rowAt_eq_bondsOf_rowOf]
        have : bondsOf [some (PBond.mk fr.idx m.adj.length o s false none)]
            = [PBond.mk fr.idx m.adj.length o s false none] := by simp [bondsOf]
        rw [this, pordSum_snoc]
        dsimp only
        omega
      · rw [if_neg (Ne.symm e), if_neg e, ← rowAt_eq_bondsOf_rowOf]; omega
    · have : i = m.adj.length := by omega
      subst this
      rw [if_neg (by omega), if_pos rfl, if_neg (by omega), getD_zero_of_ge (by omega), ← hil,
        getD_append_self, hil, rowOf_ge (Nat.le_refl _)]
      simp [pordSum, bondsOf]

/-- a ring-closure digit at the head frame: the row of the head atom gets one more ring position,
    every other row keeps its shape -/
theorem ghost_ring {m m' : PMol} {done : PForest} {fr : ZFrame} {z : List ZFrame} {intos : List Nat}
    (h : GhostOK m done (fr :: z) intos) (hlen : m'.adj.length = m.adj.length)
    (hat : m'.atoms = m.atoms) (hro : m'.roots = m.roots)
    (hhead : chainShape (rowOf m'.adj fr.idx) = chainShape (rowOf m.adj fr.idx) ++ [none])
    (hrest : ∀ i, i ≠ fr.idx → chainShape (rowOf m'.adj i) = chainShape (rowOf m.adj i))
    (hcounts : ∀ i, i < m.adj.length → m'.counts2.getD i 0 + pordSum (rowAt m.adj i)
      = m.counts2.getD i 0 + pordSum (rowAt m'.adj i)) :
    GhostOK m' done ({ fr with items := fr.items.snocRing } :: z) intos := by
  obtain ⟨hnum, hroots, hdone, hzip, hsort, ⟨hil, hcnt⟩⟩ := h
  obtain ⟨hp, hother⟩ := num_facts hnum
  have hstab : ∀ i, i ≠ fr.idx → Stable m m' intos intos i := by
    intro i hne
    exact ⟨fun x hx => by rw [hat]; exact hx, hrest i hne, rfl⟩
  obtain ⟨⟨a1, a2, a3⟩, hA, hZ⟩ := hzip
  refine ⟨?_, ?_, ?_, ?_, hsort, ?_⟩
  · rw [hlen, ← hnum]
    simp only [zidxs, Items.nodes_snocRing]
  · rw [hro, hroots]; cases z <;> rfl
  · intro n hn
    exact (hdone n hn).stable (hstab _ (hother n.idx (Or.inl (List.mem_map_of_mem hn))).1)
  · refine ⟨⟨by rw [hat]; exact a1, ?_, ?_⟩, ?_, ?_⟩
    · show fr.items.snocRing.shape ++ [] = _
      rw [Items.shape_snocRing, hhead, ← a2]; simp
    · cases z <;> exact a3
    · intro n hn
      have hn' : n ∈ fr.items.nodes fr.idx := by
        have : n ∈ fr.items.snocRing.nodes fr.idx := hn
        rw [Items.nodes_snocRing] at this; exact this
      exact (hA n hn').stable (hstab _ (hother n.idx (Or.inr (Or.inr (List.mem_map_of_mem hn')))).1)
    · exact ZipOK.stable z _ (fun i hi => hstab _ (hother i (Or.inr (Or.inl hi))).1) hZ
  · refine ⟨by rw [hlen]; exact hil, ?_⟩
    intro i hi
    rw [hlen] at hi
    have := hcounts i hi
    have := hcnt i hi
    omega

/-- `)` -/
theorem ghost_foldTo {m : PMol} {done : PForest} {fr : ZFrame} {z : List ZFrame} {intos : List Nat}
    (h : GhostOK m done (fr :: z) intos) {q : Nat} (hq : q ∈ (fr :: z).map (·.idx)) :
    GhostOK m done (foldTo q fr z) intos ∧ (foldTo q fr z).head?.map (·.idx) = some q ∧
      (∀ x ∈ (fr :: z).map (·.idx), x ≤ q → x ∈ (foldTo q fr z).map (·.idx)) := by
  obtain ⟨hnum, hroots, hdone, hzip, hsort, hc⟩ := h
  obtain ⟨g1, g2, g3, g4, g5, g6, _⟩ := foldTo_spec q z fr hsort hq hzip
  exact ⟨⟨by rw [g2]; exact hnum, by rw [g3]; exact hroots, hdone, g1, g4, hc⟩, g5, g6⟩

/-! ### the stack discipline -/

def StackOK (st : ParseSt) : List ZFrame → Prop
  | [] => st.prevStack = [none] ∧ st.chainStart = true ∧ st.branchDepth = 0
  | fr :: z => ∃ ps, st.prevStack = (fr.idx :: ps).map some ∧ (fr.idx :: ps).Pairwise (· ≥ ·) ∧
      (∀ p ∈ ps, p ∈ (fr :: z).map (·.idx)) ∧ ps.length = st.branchDepth

/-- the loop invariant: a ghost forest-with-zipper that agrees with the graph and the stack -/
def TreeI (st : ParseSt) : Prop :=
  ∃ (done : PForest) (z : List ZFrame) (intos : List Nat), GhostOK st.mol done z intos ∧ StackOK st z

/-- between fragments: a ghost forest that agrees with the graph -/
def TreeG (m : PMol) : Prop := ∃ (F : PForest) (intos : List Nat), GhostOK m F [] intos

theorem map_some_inj {l l' : List Nat} (h : l.map some = l'.map some) : l = l' := by
  induction l generalizing l' with
  | nil => cases l' with
    | nil => rfl
    | cons => cases h
  | cons a l ih =>
    cases l' with
    | nil => cases h
    | cons b l' =>
      simp only [List.map_cons, List.cons.injEq, Option.some.injEq] at h
      rw [h.1, ih h.2]

theorem shapeE_ring {b : PBond} (h : b.ring = true) : shapeE (some b) = none := by simp [shapeE, h]

theorem pordSum_perm_cons {l l' : List PBond} {b : PBond} (h : l'.Perm (b :: l)) :
    pordSum l' = pordSum l + b.order2 := by
  unfold pordSum
  rw [(h.map (·.order2)).sum_nat]
  simp; omega

theorem tree_step {Q : SmilesTok → Prop} {st st' : ParseSt} (hw : PWF st.mol) (hh : HoleInv st)
    (ht : TreeI st) (hs : PStep false Q st st') : TreeI st' := by
  obtain ⟨hok, hal, hcl, _⟩ := (pwf_iff _).1 hw
  obtain ⟨done, z, intos, hg, hstk⟩ := ht
  cases hs with
  | atomRoot tok curr tl hstack _ _ _ =>
    cases z with
    | cons fr z =>
      obtain ⟨ps, h1, _⟩ := hstk
      rw [hstack] at h1; cases h1
    | nil =>
      obtain ⟨h1, h2, h3⟩ := hstk
      rw [hstack] at h1
      have htl : tl = [] := by injection h1
      subst htl
      refine ⟨done, _, _, ghost_root hw hg curr, [], ?_, ?_, ?_, ?_⟩
      · show [some st.mol.atoms.length] = _
        rw [hal]; rfl
      · simp
      · intro p hp; cases hp
      · exact h3.symm
  | atomAttach tok curr p tl pa mol' hstack _ _ hadd _ _ =>
    cases z with
    | nil =>
      obtain ⟨h1, _⟩ := hstk
      rw [hstack] at h1; cases h1
    | cons fr z =>
      obtain ⟨ps, h1, h2, h3, h4⟩ := hstk
      rw [hstack] at h1
      simp only [List.map_cons, List.cons.injEq, Option.some.injEq] at h1
      obtain ⟨hp, htl⟩ := h1
      subst hp
      obtain ⟨row, hinv⟩ := addBond_inv hadd
      rw [stepAttr_false] at hinv
      have hinv' := attachInv_of hal hinv
      refine ⟨done, _, _, ghost_attach hw hg hinv', ps, ?_, ?_, ?_, h4⟩
      · show some st.mol.atoms.length :: tl = _
        rw [htl, hal]; rfl
      · rw [List.pairwise_cons] at h2 ⊢
        refine ⟨?_, h2.2⟩
        intro x hx
        obtain ⟨f, hf, rfl⟩ := List.mem_map.1 (h3 x hx)
        have := mem_zidxs_of_mem hf
        have hr : f.idx ∈ done.nodes.map (·.idx) ++ zidxs (fr :: z) := List.mem_append_right _ this
        rw [hg.num] at hr
        have := List.mem_range.1 hr
        show st.mol.adj.length ≥ f.idx
        omega
      · intro x hx
        exact List.mem_cons_of_mem _ (h3 x hx)
  | openBranch prev tl hcs hstack =>
    cases z with
    | nil =>
      obtain ⟨_, h2, _⟩ := hstk
      rw [hcs] at h2; cases h2
    | cons fr z =>
      obtain ⟨ps, h1, h2, h3, h4⟩ := hstk
      rw [hstack] at h1
      simp only [List.map_cons, List.cons.injEq] at h1
      obtain ⟨hp, htl⟩ := h1
      subst hp htl
      refine ⟨done, _, _, hg, fr.idx :: ps, rfl, ?_, ?_, by simp [h4]⟩
      · rw [List.pairwise_cons]
        refine ⟨?_, h2⟩
        intro x hx
        rcases List.mem_cons.1 hx with rfl | hx
        · exact Nat.le_refl _
        · exact (List.pairwise_cons.1 h2).1 x hx
      · intro x hx
        rcases List.mem_cons.1 hx with rfl | hx
        · simp
        · exact h3 x hx
  | closeBranch prev tl hcs hbd hstack =>
    cases z with
    | nil =>
      obtain ⟨_, h2, _⟩ := hstk
      rw [hcs] at h2; cases h2
    | cons fr z =>
      obtain ⟨ps, h1, h2, h3, h4⟩ := hstk
      rw [hstack] at h1
      simp only [List.map_cons, List.cons.injEq] at h1
      obtain ⟨hp, htl⟩ := h1
      cases ps with
      | nil => exact absurd h4.symm hbd
      | cons q ps =>
        have hq : q ∈ (fr :: z).map (·.idx) := h3 q (by simp)
        obtain ⟨g1, g2, g3⟩ := ghost_foldTo hg hq
        cases hz : foldTo q fr z with
        | nil => rw [hz] at g2; cases g2
        | cons fr2 z2 =>
          rw [hz] at g1 g2 g3
          have hq2 : fr2.idx = q := by simpa using g2
          rw [List.pairwise_cons] at h2
          refine ⟨done, fr2 :: z2, intos, g1, ps, ?_, ?_, ?_, ?_⟩
          · show tl = _
            rw [htl, hq2]
          · rw [hq2]; exact h2.2
          · intro x hx
            have hxq : x ≤ q := (List.pairwise_cons.1 h2.2).1 x hx
            exact g3 x (h3 x (List.mem_cons_of_mem _ hx)) hxq
          · show ps.length = st.branchDepth - 1
            simp at h4; omega
  | ringOpen tok p tl mol' lpos hcs hstack hfind hadd =>
    cases z with
    | nil =>
      obtain ⟨h1, _⟩ := hstk
      rw [hstack] at h1; cases h1
    | cons fr z =>
      obtain ⟨ps, h1, h2, h3, h4⟩ := hstk
      rw [hstack] at h1
      simp only [List.map_cons, List.cons.injEq, Option.some.injEq] at h1
      obtain ⟨hp, htl⟩ := h1
      subst hp
      obtain ⟨row, hinv⟩ := addPlaceholder_inv hadd
      obtain ⟨hrow, hpos, hat, hro, hfl, haa, hadj, hc, hds⟩ := hinv
      have hp : fr.idx < st.mol.adj.length := (List.getElem?_eq_some_iff.1 hrow).1
      have hrowe := rowOf_of_getElem? hrow
      have hb : bondsOf (row ++ [none]) = bondsOf row := by simp [bondsOf]
      have hrows : ∀ j, rowAt mol'.adj j = rowAt st.mol.adj j := by
        intro j
        rw [hadj, rowAt_set hp]
        split
        · rename_i e; subst e; rw [hb, rowAt_eq_bondsOf_rowOf, hrowe]
        · rfl
      refine ⟨done, _, intos, ghost_ring hg (by rw [hadj]; simp) hat hro ?_ ?_ ?_, ps, ?_, h2, h3, h4⟩
      · rw [hadj, rowOf_set hp, if_pos rfl, chainShape_append, hrowe]; rfl
      · intro i hi; rw [hadj, rowOf_set hp, if_neg hi]
      · intro i _; rw [hc, hrows]
      · show st.prevStack = _
        rw [hstack, htl]; rfl
  | ringClose tok p tl ro mol' hcs hstack hfind hmk =>
    cases z with
    | nil =>
      obtain ⟨h1, _⟩ := hstk
      rw [hstack] at h1; cases h1
    | cons fr z =>
      obtain ⟨ps, h1, h2, h3, h4⟩ := hstk
      rw [hstack] at h1
      simp only [List.map_cons, List.cons.injEq, Option.some.injEq] at h1
      obtain ⟨hp, htl⟩ := h1
      subst hp
      obtain ⟨la, ra, hmr⟩ := makeRingBonds_inv hmk
      obtain ⟨hab, hnb, hla, hra, hadd⟩ := hmr
      obtain ⟨adj1, hinv⟩ := addRingBond_inv hadd
      have hro : ro ∈ st.ringLog := List.mem_of_find?_eq_some hfind
      have hole : (rowOf st.mol.adj ro.atom)[ro.pos]? = some none := (hh.holes _ _).2 ⟨ro, hro, rfl, rfl⟩
      have ha : ro.atom < st.mol.adj.length := by rw [← hal]; exact (List.getElem?_eq_some_iff.1 hla).1
      have hb : fr.idx < st.mol.adj.length := by rw [← hal]; exact (List.getElem?_eq_some_iff.1 hra).1
      have hci := closeInv_of hinv hab ha hb hole
      generalize ringOrder la ra ro.bondChar tok.bondChar = o at hci
      refine ⟨done, _, intos, ghost_ring hg hci.length hci.atoms hci.roots ?_ ?_ ?_, ps, ?_, h2, h3, h4⟩
      · rw [hci.rowOf, if_pos rfl, chainShape_append]
        rfl
      · intro i hi
        rw [hci.rowOf, if_neg hi]
        split
        · rename_i e; subst e
          exact chainShape_set_ring hole rfl
        · rfl
      · intro i _
        have hcb : fr.idx < (cbump st.mol.counts2 ro.atom o).length := by rw [cbump_length]; exact hci.cb
        rw [hci.counts, cbump_getD _ _ _ _ hcb, cbump_getD _ _ _ _ hci.ca, rowAt_eq_bondsOf_rowOf mol'.adj,
          hci.rowOf]
        by_cases e1 : i = fr.idx
        · subst e1
          rw [if_pos rfl, if_neg hab, if_pos rfl, bondsOf_append, ← rowAt_eq_bondsOf_rowOf]
          have : bondsOf [some (ringBondAB fr.idx ro.atom o (smilesToBond tok.bondChar).2)]
              = [ringBondAB fr.idx ro.atom o (smilesToBond tok.bondChar).2] := by simp [bondsOf]
          rw [this, pordSum_snoc]
          show _ = _ + (_ + o)
          omega
        · rw [if_neg e1, if_neg (Ne.symm e1)]
          by_cases e2 : i = ro.atom
          · subst e2
            rw [if_pos rfl, if_pos rfl, pordSum_perm_cons (bondsOf_set_fill _ _ hole),
              ← rowAt_eq_bondsOf_rowOf]
            show _ = _ + (_ + o)
            omega
          · rw [if_neg e2, if_neg (Ne.symm e2), ← rowAt_eq_bondsOf_rowOf]
            omega
      · show st.prevStack = _
        rw [hstack, htl]; rfl

theorem treeI_init {m : PMol} (i : Nat) (h : TreeG m) : TreeI (fragInit m i) := by
  obtain ⟨F, intos, hg⟩ := h
  exact ⟨F, [], intos, hg, rfl, rfl, rfl⟩

theorem PForest.nodes_append (f : PForest) (t : Tree) : PForest.nodes (f ++ [t]) = f.nodes ++ t.nodes none := by
  simp [PForest.nodes]

theorem treeG_fin {st : ParseSt} (h : TreeI st) : TreeG st.mol := by
  obtain ⟨done, z, intos, hg, _⟩ := h
  cases z with
  | nil => exact ⟨done, intos, hg⟩
  | cons fr z =>
    obtain ⟨hnum, hroots, hdone, hzip, hsort, hc⟩ := hg
    obtain ⟨g1, g2, g3⟩ := closeAll_spec z fr hzip
    refine ⟨done ++ [closeAll fr z], intos, ?_, ?_, ?_, trivial, by simp [ZSorted], hc⟩
    · rw [PForest.nodes_append, List.map_append, g2]
      simpa [zidxs] using hnum
    · rw [hroots, ← g3]; simp
    · intro n hn
      rw [PForest.nodes_append] at hn
      rcases List.mem_append.1 hn with h1 | h1
      · exact hdone n h1
      · exact g1 n h1

theorem treeG_empty : TreeG {} := by
  refine ⟨[], [], ?_⟩
  refine { num := rfl, roots := rfl, doneOK := ?_, zip := trivial, sorted := by simp [ZSorted], counts := ?_ }
  · intro n hn; cases hn
  · exact ⟨rfl, by intro i hi; simp at hi⟩

/-! ### all invariants together -/

/-- what holds of every graph `smiles_to_mol(s, attributable=False)` returns -/
structure ParsedInv (m : PMol) : Prop where
  pwf : PWF m
  flat : MFlat m
  noHoles : ∀ (a p : Nat), (rowOf m.adj a)[p]? ≠ some none
  tree : TreeG m

theorem smilesToMol_parsedInv {s : Str} {g : PMol} (h : smilesToMol s false = .ok g) : ParsedInv g := by
  refine smilesToMol_invariant (attrib := false) (Q := fun _ => True) (G := ParsedInv)
    (I := fun st => PWF st.mol ∧ MFlat st.mol ∧ HoleInv st ∧ TreeI st) ?_ ?_ ?_ ?_
    (fun _ _ _ _ => trivial) h
  · exact ⟨pwf_empty, mflat_empty, by intro a p; simp [rowOf], treeG_empty⟩
  · intro m i hG
    refine ⟨hG.pwf, hG.flat, ⟨List.Pairwise.nil, ?_⟩, treeI_init i hG.tree⟩
    intro a p
    constructor
    · intro hp; exact absurd hp (hG.noHoles a p)
    · rintro ⟨ro, hro, _⟩; cases hro
  · rintro st st' ⟨h1, h2, h3, h4⟩ hs
    obtain ⟨g2, g3⟩ := flat_step h1 h2 h3 hs
    exact ⟨pwf_step h1 hs, g2, g3, tree_step h1 h3 h4 hs⟩
  · rintro st ⟨h1, h2, h3, h4⟩ _ hrl _
    refine ⟨h1, h2, ?_, treeG_fin h4⟩
    intro a p hp
    obtain ⟨ro, hro, _⟩ := (h3.holes a p).1 hp
    rw [hrl] at hro; cases hro

end SV
