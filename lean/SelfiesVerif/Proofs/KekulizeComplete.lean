/-
  C05, completeness: the kekulization corollary.  For a well-formed parsed graph whose pruned
  delocalisation subgraph is bipartite and has a perfect matching, `kekulize` never returns `False`
  ("kekulization failed"): for every legal tape it returns `True` and leaves `kekResult` for a
  perfect matching of the pruned subgraph.
-/
import SelfiesVerif.Proofs.BipartiteComplete
import SelfiesVerif.Proofs.EncTotalKek

namespace SV
open C09

/-- the legal-tape notion of `kekulize` (`C09.TapeOK`, Proofs/EncTotalKek.lean) is `LegalTape` of the
    pruned subgraph -/
theorem legalTape_of_tapeOK {m : PMol} {kept : List Nat} {pg : Graph} {tape : List Nat}
    (hk : keptNodes m = .ok kept) (hp : prunedGraph m (kept.mergeSort (· ≤ ·)) = .ok pg)
    (ht : TapeOK m tape) : LegalTape pg tape :=
  fun m0 h => ht kept pg m0 hk hp h

theorem tapeOK_of_legalTape {m : PMol} {kept : List Nat} {pg : Graph} {tape : List Nat}
    (hk : keptNodes m = .ok kept) (hp : prunedGraph m (kept.mergeSort (· ≤ ·)) = .ok pg)
    (ht : LegalTape pg tape) : TapeOK m tape := by
  intro kept' pg' m0 hk' hp' hm
  rw [hk] at hk'; cases hk'
  rw [hp] at hp'; cases hp'
  exact ht m0 hm

/-- non-empty delocalisation subgraph: the matching routine returns a perfect matching of the
    pruned subgraph and `kekulize` returns `kekResult` for it -/
theorem kekulize_complete_of_bipartite {m : PMol} {kept l2n : List Nat} {pg : Graph} {tape : List Nat}
    (hwf : PWF m) (hne : m.ds.isEmpty = false) (hk : keptNodes m = .ok kept)
    (hl : l2n = kept.mergeSort (· ≤ ·)) (hp : prunedGraph m l2n = .ok pg)
    (hb : Bipartite pg) (hex : ∃ p, PerfectMatching pg p) (ht : TapeOK m tape) :
    ∃ mt, findPerfectMatching pg tape = .ok (some mt) ∧ PerfectMatching pg mt ∧
      m.kekulize tape = .ok (some (kekResult m l2n mt)) := by
  have hpre : KekPre m kept l2n pg := ⟨hwf, hk, hl, hp⟩
  subst hl
  obtain ⟨mt, h1, h2⟩ := findPerfectMatching_complete_of_bipartite hpre.graphOK hb hex
    (legalTape_of_tapeOK hk hp ht)
  exact ⟨mt, h1, h2, kekulize_sound ⟨hwf, hk, rfl, hp, h2⟩ hne h1⟩

/-- with or without aromatic atoms: `kekulize` returns `True` -/
theorem kekulize_some_of_bipartite {m : PMol} {kept : List Nat} {pg : Graph} {tape : List Nat}
    (hwf : PWF m) (hk : keptNodes m = .ok kept)
    (hp : prunedGraph m (kept.mergeSort (· ≤ ·)) = .ok pg)
    (hb : Bipartite pg) (hex : ∃ p, PerfectMatching pg p) (ht : TapeOK m tape) :
    ∃ g', m.kekulize tape = .ok (some g') := by
  cases hne : m.ds.isEmpty with
  | true =>
    refine ⟨m, ?_⟩
    rw [kekulize_eq]
    simp only [hne, if_true, pure, Except.pure]
  | false =>
    obtain ⟨mt, _, _, h⟩ := kekulize_complete_of_bipartite hwf hne hk rfl hp hb hex ht
    exact ⟨_, h⟩

end SV
