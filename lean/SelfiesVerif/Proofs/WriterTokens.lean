/-
  From the abstract writer state to tokens: the strings pushed by `emits` are the rendering of
  `labelToks`; `molToSmiles` is the `.`-join of the rendered fragments of the specification.
-/
import SelfiesVerif.Proofs.Writer

namespace SV

theorem emits_log (s : AS) (pre : List PTok) : (emits s pre).log = logAfter s.log pre := by
  induction pre generalizing s with
  | nil => rfl
  | cons t rest ih =>
    rw [emits_cons, ih]
    cases t <;> rfl

theorem render_cons (t : Tok) (ts : List Tok) : renderToks (t :: ts) = t.text ++ renderToks ts := by
  simp [renderToks]

theorem render_append (a b : List Tok) : renderToks (a ++ b) = renderToks a ++ renderToks b := by
  simp [renderToks]

theorem emits_out (s : AS) (pre : List PTok) :
    ((emits s pre).outRev.reverse).flatten =
      (s.outRev.reverse).flatten ++ renderToks (labelToks s.log pre) := by
  induction pre generalizing s with
  | nil => simp [renderToks, labelToks]
  | cons t rest ih =>
    rw [emits_cons, ih]
    cases t with
    | atom i t => simp [emitP, labelToks, render_cons, Tok.text]
    | bond t => simp [emitP, labelToks, render_cons, Tok.text]
    | open_ => simp [emitP, labelToks, render_cons, Tok.text]
    | close => simp [emitP, labelToks, render_cons, Tok.text]
    | ring a b =>
      simp only [emitP, labelToks, render_cons, Tok.text, labelText]
      split <;> simp

theorem labelToks_append (log : RingLog) (a b : List PTok) :
    labelToks log (a ++ b) = labelToks log a ++ labelToks (logAfter log a) b := by
  induction a generalizing log with
  | nil => rfl
  | cons t rest ih => cases t <;> simp [labelToks, logAfter, ih]

theorem logAfter_append (log : RingLog) (a b : List PTok) :
    logAfter log (a ++ b) = logAfter (logAfter log a) b := by
  induction a generalizing log with
  | nil => rfl
  | cons t rest ih => cases t <;> simp [logAfter, ih]

theorem ringOcc_append (log : RingLog) (a b : List PTok) :
    ringOcc log (a ++ b) = ringOcc log a ++ ringOcc (logAfter log a) b := by
  induction a generalizing log with
  | nil => rfl
  | cons t rest ih => cases t <;> simp [ringOcc, logAfter, ih]

/-- the fragments' token lists, concatenated, are the labelling of all pre-tokens -/
theorem specFragsFrom_flatten (g : Mol) (log : RingLog) (roots : List Nat) :
    (specFragsFrom g log roots).flatten = labelToks log ((roots.map (specPre g)).flatten) := by
  induction roots generalizing log with
  | nil => rfl
  | cons r rest ih =>
    simp only [specFragsFrom, List.flatten_cons, List.map_cons, labelToks_append, ih]

/-- the fragment loop of `molToSmiles`, given enough fuel for every root -/
theorem frags_ok {g : Mol} (hg : WGraph g)
    (hfuel : ∀ r ∈ g.roots, atomCost g g.atoms.length r ≤ g.writeFuel) :
    ∀ (roots : List Nat), (∀ r ∈ roots, r ∈ g.roots) →
      ∀ (ai : Nat) (log : RingLog) (acc : List Str) (maps : List AttributionMap),
      ∃ maps', molToSmiles.frags g roots ai log acc maps =
        .ok (acc ++ (specFragsFrom g log roots).map renderToks, maps') := by
  intro roots
  induction roots with
  | nil =>
    intro _ ai log acc maps
    exact ⟨maps, by simp [molToSmiles.frags, specFragsFrom, pure, Except.pure]⟩
  | cons r rest ih =>
    intro hr ai log acc maps
    have hrr := hr r (by simp)
    have hlt := hg.rootsLt r hrr
    obtain ⟨w', e1, e2⟩ := writeLoop_root hg ai hlt { ringLog := log } g.writeFuel (hfuel r hrr)
    have hlog : w'.ringLog = logAfter log (specPre g r) := by
      have := congrArg AS.log e2
      rw [emits_log] at this; exact this
    have hout : (w'.outRev.reverse).flatten = renderToks (labelToks log (specPre g r)) := by
      have := emits_out ({ ringLog := log } : WState).abs (specPre g r)
      rw [← e2] at this
      simpa [WState.abs] using this
    obtain ⟨maps', e3⟩ := ih (fun x hx => hr x (by simp [hx])) (ai + w'.outLen + 1) w'.ringLog
      (acc ++ [(w'.outRev.reverse).flatten]) (maps ++ w'.mapsRev.reverse)
    refine ⟨maps', ?_⟩
    rw [molToSmiles.frags]
    rw [hlog, hout] at e3
    simp only [hg.outBonds hlt, bind, Except.bind, e1, hlog, hout, specFragsFrom, List.map_cons]
    rw [e3]
    simp

theorem molToSmiles_ok {g : Mol} (hg : WGraph g)
    (hfuel : ∀ r ∈ g.roots, atomCost g g.atoms.length r ≤ g.writeFuel) :
    ∃ maps, molToSmiles g = .ok (specSmiles g, maps) := by
  obtain ⟨maps', e⟩ := frags_ok hg hfuel g.roots (fun _ h => h) 0 [] [] []
  refine ⟨maps'.filter (fun a => !a.token.isEmpty), ?_⟩
  unfold molToSmiles
  simp only [e, bind, Except.bind, pure, Except.pure, List.nil_append, specSmiles, specFrags]

end SV

namespace SV

/-- every fragment's token list is the labelling (under some ring log) of a root's pre-order -/
theorem mem_specFragsFrom {g : Mol} {ts : List Tok} :
    ∀ {roots : List Nat} {log : RingLog}, ts ∈ specFragsFrom g log roots →
      ∃ r ∈ roots, ∃ log', ts = labelToks log' (specPre g r)
  | [], _, h => by simp [specFragsFrom] at h
  | r :: rest, log, h => by
    simp only [specFragsFrom, List.mem_cons] at h
    rcases h with rfl | h
    · exact ⟨r, by simp, log, rfl⟩
    · obtain ⟨r', hr', log', e⟩ := mem_specFragsFrom h
      exact ⟨r', by simp [hr'], log', e⟩

theorem length_specFragsFrom (g : Mol) : ∀ (roots : List Nat) (log : RingLog),
    (specFragsFrom g log roots).length = roots.length
  | [], _ => rfl
  | r :: rest, log => by simp [specFragsFrom, length_specFragsFrom g rest]

end SV
