/-
  C01r, stage (b), whole string: the tokenizer on the `.`-join of the written fragments.
-/
import SelfiesVerif.Proofs.ReaderLex
import SelfiesVerif.Proofs.WriterLabels

namespace SV

/-! ### the fuel of `tokenizeSmiles` -/

theorem tokenizeSmiles_nil (F : Nat) : tokenizeSmiles F [] = some [] := by cases F <;> rfl

theorem tokenizeSmiles_cons (F : Nat) (c : Char) (rest : Str) :
    tokenizeSmiles (F + 1) (c :: rest) =
      if c == '.' then
        (tokenizeSmiles F rest).map fun l => { bondChar := none, kind := .dot, text := [c] } :: l
      else
        match lexSymbol (if isSmilesBondChar c then some c else none)
            (if isSmilesBondChar c then rest else c :: rest) with
        | none => none
        | some (tok, rest2) =>
          if rest2.length < (c :: rest).length then (tokenizeSmiles F rest2).map fun l => tok :: l
          else none := by
  rw [tokenizeSmiles]
  split
  · rfl
  · by_cases hb : isSmilesBondChar c = true
    · simp only [hb, if_true]
      generalize lexSymbol (some c) rest = r
      cases r <;> rfl
    · simp only [hb, Bool.false_eq_true, if_false]
      generalize lexSymbol none (c :: rest) = r
      cases r <;> rfl

theorem tokenizeSmiles_mono : ∀ (F : Nat) (s : Str) (toks : List SmilesTok),
    tokenizeSmiles F s = some toks → ∀ F', F ≤ F' → tokenizeSmiles F' s = some toks := by
  intro F
  induction F with
  | zero =>
    intro s toks h F' _
    cases s with
    | nil => simp only [tokenizeSmiles] at h; rw [tokenizeSmiles_nil]; exact h
    | cons c rest => simp [tokenizeSmiles] at h
  | succ F ih =>
    intro s toks h F' hF
    cases s with
    | nil => simp only [tokenizeSmiles] at h; rw [tokenizeSmiles_nil]; exact h
    | cons c rest =>
      obtain ⟨F'', rfl⟩ : ∃ F'', F' = F'' + 1 := ⟨F' - 1, by omega⟩
      have hF'' : F ≤ F'' := by omega
      rw [tokenizeSmiles_cons] at h ⊢
      split at h
      · rename_i hc
        rw [if_pos hc]
        cases h1 : tokenizeSmiles F rest with
        | none => rw [h1] at h; cases h
        | some l => rw [h1] at h; rw [ih _ _ h1 _ hF'']; exact h
      · rename_i hc
        rw [if_neg hc]
        split at h
        · cases h
        · rename_i tok rest2 hlex
          split at h
          · rename_i hlt
            rw [if_pos hlt]
            cases h1 : tokenizeSmiles F rest2 with
            | none => rw [h1] at h; cases h
            | some l => rw [h1] at h; rw [ih _ _ h1 _ hF'']; exact h
          · cases h

theorem tokenizeSmiles_length : ∀ (F : Nat) (s : Str) (toks : List SmilesTok),
    tokenizeSmiles F s = some toks → toks.length ≤ s.length := by
  intro F
  induction F with
  | zero =>
    intro s toks h
    cases s with
    | nil => simp only [tokenizeSmiles, Option.some.injEq] at h; subst h; simp
    | cons c rest => simp [tokenizeSmiles] at h
  | succ F ih =>
    intro s toks h
    cases s with
    | nil => simp only [tokenizeSmiles, Option.some.injEq] at h; subst h; simp
    | cons c rest =>
      rw [tokenizeSmiles_cons] at h
      split at h
      · cases h1 : tokenizeSmiles F rest with
        | none => rw [h1] at h; cases h
        | some l =>
          rw [h1] at h
          simp only [Option.map_some, Option.some.injEq] at h
          subst h
          have := ih _ _ h1
          simp only [List.length_cons]; omega
      · split at h
        · cases h
        · rename_i tok rest2 hlex
          split at h
          · rename_i hlt
            cases h1 : tokenizeSmiles F rest2 with
            | none => rw [h1] at h; cases h
            | some l =>
              rw [h1] at h
              simp only [Option.map_some, Option.some.injEq] at h
              subst h
              have := ih _ _ h1
              simp only [List.length_cons] at hlt ⊢; omega
          · cases h
/-- the fuel `length + 1` of `smilesToMol` suffices whenever any fuel does -/
theorem tokenizeSmiles_std {F : Nat} {s : Str} {toks : List SmilesTok}
    (h : tokenizeSmiles F s = some toks) (hF : F ≤ toks.length) :
    tokenizeSmiles (s.length + 1) s = some toks :=
  tokenizeSmiles_mono F s toks h _ (by have := tokenizeSmiles_length F s toks h; omega)

/-! ### the units of the specification are well formed -/

theorem rBonds_ok (sub : Str → Nat → List RP) (row : List DirBond)
    (h : ∀ b ∈ row, b.ring = false → ∀ t ∈ sub (bondText b) b.dst, t.OK) :
    ∀ t ∈ rBonds sub row, t.OK := by
  induction row with
  | nil => intro t ht; simp [rBonds] at ht
  | cons b rest ih =>
    have ih' := ih (fun x hx => h x (List.mem_cons_of_mem _ hx))
    intro t ht
    unfold rBonds at ht
    cases hr : b.ring with
    | true =>
      simp only [hr, if_true, List.mem_cons] at ht
      rcases ht with rfl | ht
      · exact bondText_ok b
      · exact ih' t ht
    | false =>
      have hb := h b (by simp) hr
      cases rest with
      | nil =>
        simp only [hr, Bool.false_eq_true, if_false, List.isEmpty_nil, if_true] at ht
        exact hb t ht
      | cons b' rest' =>
        simp only [hr, Bool.false_eq_true, if_false, List.isEmpty_cons, List.mem_cons,
          List.mem_append] at ht
        rcases ht with rfl | ht | rfl | ht
        · trivial
        · exact hb t ht
        · trivial
        · exact ih' t ht

theorem rAtom_ok {g : Mol} (hg : WGraph g) (hA : ∀ j, j < g.atoms.length → AtomLex (g.atomTextAt j)) :
    ∀ (f i : Nat) (bt : Str), BondTextOK bt → i < g.atoms.length → ∀ t ∈ rAtom g f bt i, t.OK := by
  intro f
  induction f with
  | zero => intro i bt _ _ t ht; simp [rAtom] at ht
  | succ f ih =>
    intro i bt hbt hi t ht
    simp only [rAtom, List.mem_cons] at ht
    rcases ht with rfl | ht
    · exact ⟨hbt, hA i hi⟩
    · refine rBonds_ok _ _ ?_ t ht
      intro b hb _
      exact ih b.dst _ (bondText_ok b) (hg.row_bonds hi b hb).2.1

theorem rFrag_ok {g : Mol} (hg : WGraph g) (hA : ∀ j, j < g.atoms.length → AtomLex (g.atomTextAt j))
    {r : Nat} (hr : r < g.atoms.length) : ∀ t ∈ rFrag g r, t.OK :=
  rAtom_ok hg hA _ r [] (Or.inl rfl) hr

/-! ### the whole string -/

def dotTok : SmilesTok := { bondChar := none, kind := .dot, text := ['.'] }

/-- the tokens of the whole output: the fragments' units separated by DOT tokens -/
def rLexAll (g : Mol) : RingLog → List Nat → List SmilesTok
  | _, [] => []
  | log, [r] => rLex log (rFrag g r)
  | log, r :: r' :: rest =>
    rLex log (rFrag g r) ++ dotTok :: rLexAll g (rLog log (rFrag g r)) (r' :: rest)

/-- the ring log after all the listed fragments -/
def rLogAll (g : Mol) : RingLog → List Nat → RingLog
  | log, [] => log
  | log, r :: rest => rLogAll g (rLog log (rFrag g r)) rest

theorem rLogAll_length_le (g : Mol) : ∀ (roots : List Nat) (log : RingLog),
    log.length ≤ (rLogAll g log roots).length
  | [], _ => Nat.le_refl _
  | r :: rest, log =>
    Nat.le_trans (rLog_length_le (rFrag g r) log) (rLogAll_length_le g rest _)

theorem rLex_length : ∀ (l : List RP) (log : RingLog), (rLex log l).length = l.length
  | [], _ => rfl
  | t :: l, log => by cases t <;> simp [rLex, rLex_length l]

theorem tokenize_frags {g : Mol} (hg : WGraph g)
    (hA : ∀ j, j < g.atoms.length → AtomLex (g.atomTextAt j)) :
    ∀ (roots : List Nat) (log : RingLog), (∀ r ∈ roots, r < g.atoms.length) → LogOK log →
      (rLogAll g log roots).length ≤ 99 →
      tokenizeSmiles (rLexAll g log roots).length (joinWith ['.'] (rStrs g log roots))
        = some (rLexAll g log roots)
  | [], _, _, _, _ => rfl
  | [r], log, hr, hlog, h99 => by
    have hr' := hr r (by simp)
    have := tokenize_units (rFrag g r) log [] 0 (rFrag_ok hg hA hr') hlog h99
      (fun c hc => by cases hc)
    simp only [rStrs, joinWith, rLexAll, rLex_length]
    simpa [tokenizeSmiles_nil] using this
  | r :: r' :: rest, log, hr, hlog, h99 => by
    have hr' := hr r (by simp)
    have hlog' := rLog_ok (rFrag g r) hlog
    have h99' : (rLog log (rFrag g r)).length ≤ 99 :=
      Nat.le_trans (rLogAll_length_le g (r' :: rest) _) h99
    have ih := tokenize_frags hg hA (r' :: rest) (rLog log (rFrag g r))
      (fun x hx => hr x (by simp [hx])) hlog' h99
    have h1 := tokenize_units (rFrag g r) log
      ('.' :: joinWith ['.'] (rStrs g (rLog log (rFrag g r)) (r' :: rest)))
      ((rLexAll g (rLog log (rFrag g r)) (r' :: rest)).length + 1)
      (rFrag_ok hg hA hr') hlog h99' (fun c hc => by
        simp only [List.head?_cons, Option.some.injEq] at hc; subst hc; exact ⟨by decide, by decide⟩)
    have h2 : tokenizeSmiles ((rLexAll g (rLog log (rFrag g r)) (r' :: rest)).length + 1)
        ('.' :: joinWith ['.'] (rStrs g (rLog log (rFrag g r)) (r' :: rest)))
        = some (dotTok :: rLexAll g (rLog log (rFrag g r)) (r' :: rest)) := by
      simp only [tokenizeSmiles, beq_self_eq_true, if_true, ih]
      rfl
    rw [h2] at h1
    have hj : joinWith ['.'] (rStrs g log (r :: r' :: rest))
        = rStr log (rFrag g r) ++ '.' :: joinWith ['.'] (rStrs g (rLog log (rFrag g r)) (r' :: rest)) := by
      simp [rStrs, joinWith]
    have hl : (rLexAll g log (r :: r' :: rest)).length
        = (rLexAll g (rLog log (rFrag g r)) (r' :: rest)).length + 1 + (rFrag g r).length := by
      simp only [rLexAll, List.length_append, List.length_cons, rLex_length]; omega
    rw [hj, hl, h1]
    rfl

/-- the final ring log of the regrouped fragments is the specification's -/
theorem rLogAll_eq {g : Mol} (hg : WGraph g) : ∀ (roots : List Nat) (log : RingLog),
    (∀ r ∈ roots, r < g.atoms.length) →
      rLogAll g log roots = logAfter log ((roots.map (specPre g)).flatten)
  | [], _, _ => rfl
  | r :: rest, log, h => by
    simp only [rLogAll, List.map_cons, List.flatten_cons, logAfter_append,
      rLog_rFrag hg (h r (by simp))]
    exact rLogAll_eq hg rest _ (fun x hx => h x (by simp [hx]))

/-- **stage (b)**: the library's tokenizer splits the decoder's output into the expected tokens -/
theorem tokenize_specSmiles {g : Mol} (hg : WGraph g)
    (hA : ∀ j, j < g.atoms.length → AtomLex (g.atomTextAt j)) (hR : g.ringHalves ≤ 2 * 99) :
    tokenizeSmiles ((specSmiles g).length + 1) (specSmiles g) = some (rLexAll g [] g.roots) := by
  have h99 : (rLogAll g [] g.roots).length ≤ 99 := by
    rw [rLogAll_eq hg g.roots [] hg.rootsLt]
    have := specLog_length hg
    unfold specLog specPreAll at this
    unfold Mol.ringHalves at hR
    omega
  have := tokenize_frags hg hA g.roots [] hg.rootsLt LogOK.nil h99
  rw [← specSmiles_eq hg] at this
  exact tokenizeSmiles_std this (Nat.le_refl _)

end SV
