/-
  C01r: the fragment loop of `smiles_to_mol` on the decoder's output, and the graph it returns.
-/
import SelfiesVerif.Proofs.ReaderSimTop

namespace SV

section
variable {g : Mol}

theorem rFrag_cons (g : Mol) {r : Nat} (hr : r < g.atoms.length) :
    ∃ t ts, rFrag g r = t :: ts := by
  obtain ⟨f, hf⟩ : ∃ f, g.atoms.length = f + 1 := ⟨g.atoms.length - 1, by omega⟩
  unfold rFrag
  rw [hf]
  exact ⟨_, _, rfl⟩

theorem rLex_cons {l : List RP} (log : RingLog) (h : ∃ t ts, l = t :: ts) :
    ∃ t ts, rLex log l = t :: ts := by
  obtain ⟨t, ts, rfl⟩ := h
  cases t <;> exact ⟨_, _, rfl⟩

theorem visits_head (g : Mol) {n : Nat} (r : Nat) (hn : 0 < n) : ∃ tl, visits g n r = r :: tl := by
  obtain ⟨f, rfl⟩ : ∃ f, n = f + 1 := ⟨n - 1, by omega⟩
  exact ⟨_, rfl⟩

theorem go_nil (F : Nat) (m : PMol) (i : Nat) : smilesToMol.go false F [] m i = .ok m := by
  cases F <;> rfl

/-- the tokens behind the first fragment -/
def fragTail (g : Mol) (log : RingLog) : List Nat → List SmilesTok
  | [] => []
  | r' :: rest => dotTok :: rLexAll g log (r' :: rest)

theorem rLexAll_cons (g : Mol) (log : RingLog) (r : Nat) (todo : List Nat) :
    rLexAll g log (r :: todo) = rLex log (rFrag g r) ++ fragTail g (rLog log (rFrag g r)) todo := by
  cases todo with
  | nil => simp [rLexAll, fragTail]
  | cons r' rest => simp [rLexAll, fragTail]

theorem fragTail_tail (g : Mol) (log : RingLog) (todo : List Nat) :
    (fragTail g log todo).tail = rLexAll g log todo := by
  cases todo with
  | nil => rfl
  | cons r' rest => rfl

theorem fragTail_cases (g : Mol) (log : RingLog) (todo : List Nat) :
    fragTail g log todo = [] ∨ ∃ more, fragTail g log todo = dotTok :: more := by
  cases todo with
  | nil => exact Or.inl rfl
  | cons r' rest => exact Or.inr ⟨_, rfl⟩

/-- the fragment loop -/
theorem sim_go (hg : WGraph g) (hR : AtomsRead g) (hloc : g.RingsLocal) :
    ∀ (todo : List Nat) (k M : Nat) (log : RingLog) (rts : List Nat) (mol : PMol) (i0 F : Nat),
      (∀ r ∈ todo, r ∈ g.roots) →
      todo.flatMap (visits g g.atoms.length) = List.range' k M → k + M = g.atoms.length →
      MSim g k log rts mol → (rLexAll g log todo).length < F →
      ∃ mol', smilesToMol.go false F (rLexAll g log todo) mol i0 = .ok mol' ∧
        MSim g g.atoms.length (rLogAll g log todo) (rts ++ todo) mol' := by
  intro todo
  induction todo with
  | nil =>
    intro k M log rts mol i0 F _ hvis hkM hs _
    have hM : M = 0 := by
      have := congrArg List.length hvis
      simpa using this.symm
    have hk : k = g.atoms.length := by omega
    subst hk
    exact ⟨mol, go_nil _ _ _, by simpa [rLogAll] using hs⟩
  | cons r todo' ih =>
    intro k M log rts mol i0 F hroots hvis hkM hs hF
    have hrr : r ∈ g.roots := hroots r (by simp)
    have hrlt : r < g.atoms.length := hg.rootsLt r hrr
    simp only [List.flatMap_cons] at hvis
    obtain ⟨hv1, hv2, hm1⟩ := range'_append_split hvis
    have hrk : r = k := by
      obtain ⟨tl, htl⟩ := visits_head g r (by omega : 0 < g.atoms.length)
      have h := hv1
      rw [htl] at h
      exact (range'_cons_inv h).1
    subst hrk
    -- ring bonds stay below the next root
    have hlocal : ∀ j, j < r + (visits g g.atoms.length r).length → ∀ x ∈ g.row j, x.ring = true →
        x.dst < r + (visits g g.atoms.length r).length := by
      intro j hj x hx hxr
      have hjlt := hg.row_mem_lt hx
      have hxd : x.dst < g.atoms.length := (hg.row_bonds hjlt x hx).2.1
      cases todo' with
      | nil =>
        simp only [List.flatMap_nil] at hv2
        have : M - (visits g g.atoms.length r).length = 0 := by
          have := congrArg List.length hv2
          simpa using this.symm
        omega
      | cons r' rest =>
        have hr'k : r' = r + (visits g g.atoms.length r).length := by
          have h := hv2
          simp only [List.flatMap_cons] at h
          obtain ⟨h1, _, _⟩ := range'_append_split h
          obtain ⟨tl, htl⟩ := visits_head g r' (by omega : 0 < g.atoms.length)
          rw [htl] at h1
          exact (range'_cons_inv h1).1
        have hr'root : r' ∈ g.roots := hroots r' (by simp)
        have hrowmem : g.row j ∈ g.adj := by
          have := hg.row_get hjlt
          exact List.mem_of_getElem? this
        have := hloc (g.row j) hrowmem x hx hxr r' hr'root
        have hxs : x.src = j := hg.row_src hx
        omega
    obtain ⟨mol1, i1, hpf, hs1⟩ := sim_parseFragment hg hR i0 hrlt hv1 hs hlocal
      (fragTail g (rLog log (rFrag g r)) todo') (fragTail_cases _ _ _)
    rw [fragTail_tail] at hpf
    -- the rest of the loop
    have hlen : (rLexAll g log (r :: todo')).length
        = (rLex log (rFrag g r)).length + (fragTail g (rLog log (rFrag g r)) todo').length := by
      rw [rLexAll_cons, List.length_append]
    obtain ⟨t, ts, hts⟩ := rLex_cons log (rFrag_cons g hrlt)
    have htl : (rLexAll g (rLog log (rFrag g r)) todo').length
        ≤ (fragTail g (rLog log (rFrag g r)) todo').length := by
      rw [← fragTail_tail]; simp
    obtain ⟨F', rfl⟩ : ∃ F', F = F' + 1 := ⟨F - 1, by omega⟩
    have hF' : (rLexAll g (rLog log (rFrag g r)) todo').length < F' := by
      rw [hlen, hts] at hF
      simp only [List.length_cons] at hF
      omega
    obtain ⟨mol', hgo, hs'⟩ := ih (r + (visits g g.atoms.length r).length)
      (M - (visits g g.atoms.length r).length) (rLog log (rFrag g r)) (rts ++ [r]) mol1 i1 F'
      (fun x hx => hroots x (by simp [hx])) hv2 (by omega) hs1 hF'
    refine ⟨mol', ?_, by simpa [rLogAll, List.append_assoc] using hs'⟩
    rw [rLexAll_cons]
    rw [hts] at hpf ⊢
    simp only [List.cons_append] at hpf ⊢
    rw [smilesToMol.go, hpf]
    exact hgo

/-- the rows of the final graph -/
theorem simRow_full (hg : WGraph g) {j : Nat} (hj : j < g.atoms.length) :
    simRow g (cntUpTo g g.atoms.length) j = (g.row j).map fun b => some (readBond b) := by
  unfold simRow
  have hp : ∀ i, i < g.atoms.length → procd g (cntUpTo g g.atoms.length) i = g.row i := by
    intro i hi
    unfold procd cntUpTo
    simp [hi]
  rw [hp j hj]
  apply List.map_congr_left
  intro x hx
  unfold simEntry
  cases hr : x.ring with
  | false => simp
  | true =>
    obtain ⟨row', hrow', y, hy, _, hy2, _, _⟩ := hg.mirror j _ (hg.row_get hj) x hx hr
    have hdlt : x.dst < g.atoms.length := (hg.row_bonds hj x hx).2.1
    rw [hg.row_get hdlt] at hrow'
    cases hrow'
    have : closedB g (cntUpTo g g.atoms.length) x = true := by
      rw [closedB_iff]
      exact ⟨y, by rw [hp _ hdlt]; exact hy, hy2⟩
    simp [this]

theorem msim_init (g : Mol) : MSim g 0 [] [] {} where
  c := ⟨fun j => by simp [cntUpTo], fun j _ => by simp [cntUpTo], Nat.zero_le _⟩
  gr := ⟨rfl, rfl, rfl, fun j hj => by omega, rfl, rfl, rfl⟩
  r := by
    refine ⟨LogOK.nil, ?_, ?_, by simp, ?_, ?_⟩
    · intro j x hx; simp [procd, cntUpTo] at hx
    · intro e he; cases he
    · intro e he; cases he
    · intro j pos x hpos; simp [cntUpTo] at hpos

/-- **the graph the library's parser builds from the decoder's output** (atoms, roots, adjacency) -/
theorem reader_core (hg : WGraph g) (ho : Ordered g) (hR : AtomsRead g)
    (hL : ∀ j, j < g.atoms.length → AtomLex (g.atomTextAt j)) (hloc : g.RingsLocal)
    (h99 : g.ringHalves ≤ 2 * 99) (hne : g.atoms ≠ []) :
    ∃ p, smilesToMol (specSmiles g) false = .ok p ∧ p.atoms = g.atoms ∧ p.roots = g.roots ∧
      p.adj = readAdj g ∧ p.ds = [] := by
  have htok := tokenize_specSmiles hg hL h99
  have hvis : g.roots.flatMap (visits g g.atoms.length) = List.range' 0 g.atoms.length := by
    have := allVisits_eq_range hg ho
    unfold allVisits at this
    rw [this, List.range_eq_range']
  obtain ⟨p, hgo, hs⟩ := sim_go hg hR hloc g.roots 0 g.atoms.length [] [] {} 0
    ((rLexAll g [] g.roots).length + 1) (fun r hr => hr) hvis (by omega) (msim_init g) (by omega)
  have hroots_ne : g.roots ≠ [] := by
    intro h
    rw [h] at hvis
    have := congrArg List.length hvis
    simp at this
    exact hne (List.length_eq_zero_iff.mp this.symm)
  have hstr : (specSmiles g).isEmpty = false := by
    cases hsp : specSmiles g with
    | cons c s => rfl
    | nil =>
      exfalso
      rw [hsp] at htok
      simp only [List.length_nil, tokenizeSmiles_nil, Option.some.injEq] at htok
      cases hro : g.roots with
      | nil => exact hroots_ne hro
      | cons r rest =>
        rw [hro, rLexAll_cons] at htok
        obtain ⟨t, ts, hts⟩ := rLex_cons ([] : RingLog) (rFrag_cons g (hg.rootsLt r (by rw [hro]; simp)))
        rw [hts] at htok
        cases htok
  refine ⟨p, ?_, ?_, ?_, ?_, hs.gr.ds⟩
  · unfold smilesToMol
    rw [hstr]
    simp only [Bool.false_eq_true, if_false, htok]
    exact hgo
  · rw [hs.gr.atoms, List.take_length]
  · simpa using hs.gr.roots
  · apply List.ext_getElem?
    intro j
    unfold readAdj
    by_cases hj : j < g.atoms.length
    · rw [hs.gr.adj j hj, simRow_full hg hj, List.getElem?_map, hg.row_get hj]
      rfl
    · rw [List.getElem?_eq_none (by rw [hs.gr.adjLen]; omega),
        List.getElem?_eq_none (by rw [List.length_map, hg.lenA]; omega)]

end

end SV
