/-
  Tie (a), utilities, second part: the generator `split_selfies` (selfies/utils/selfies_utils.py)
  as TRANSLATED from the Python AST on every run (`Generated/UtilFns.lean`: a `while` loop over
  `str.find` and slices, by recursion on a fuel argument) equals the hand model `SV.splitSelfies`
  (Model/Tokenize.lean, a character-by-character recursion), in the generator protocol `splitGen`
  (items yielded + the exception that ends the iteration), for EVERY string.  In particular the
  fuel the translator supplies always suffices (`NonTermination` never comes out).
-/
import SelfiesVerif.Proofs.GenEq7

set_option linter.unusedSimpArgs false
set_option linter.unusedVariables false

namespace SV

/-! ### the run-time primitives on positions that are natural numbers -/

theorem findChar_lt (c : Char) : ∀ (l : Str) (k : Nat), PyRt.findChar c l = some k → k < l.length
  | [], k, h => by simp [PyRt.findChar] at h
  | d :: ds, k, h => by
    unfold PyRt.findChar at h
    split at h
    · cases h; simp
    · cases hf : PyRt.findChar c ds with
      | none => simp [hf] at h
      | some j =>
        simp [hf] at h
        have := findChar_lt c ds j hf
        subst h; simp; omega

theorem normIdx_nat (len i : Nat) : PyRt.normIdx len (i : Int) = min i len := by
  unfold PyRt.normIdx
  have : ¬ ((i : Int) < 0) := by omega
  simp [this]

theorem strFind1_nat (s : Str) (c : Char) (i : Nat) (hi : i ≤ s.length) :
    PyRt.strFind1 s c (i : Int) =
      match PyRt.findChar c (s.drop i) with
      | some k => ((i + k : Nat) : Int)
      | none => -1 := by
  unfold PyRt.strFind1
  rw [normIdx_nat, Nat.min_eq_left hi]
  cases PyRt.findChar c (List.drop i s) <;> rfl

theorem strSlice_nat (s : Str) (i j : Nat) (hi : i ≤ s.length) :
    PyRt.strSlice s (i : Int) (j : Int) = (s.drop i).take (j - i) := by
  unfold PyRt.strSlice
  rw [normIdx_nat, normIdx_nat, Nat.min_eq_left hi]
  by_cases hj : j ≤ s.length
  · rw [Nat.min_eq_left hj]
  · have hj2 : s.length ≤ j := by omega
    rw [Nat.min_eq_right hj2, List.take_of_length_le (by simp), List.take_of_length_le (by simp; omega)]

/-! ### the model in terms of `findChar` -/

theorem splitGo_some : ∀ (cs : Str) (acc : Str) (b : Bool),
    splitGo (some acc) b cs =
      match PyRt.findChar ']' cs with
      | none => ([], true)
      | some k => ((acc ++ cs.take (k + 1)) :: (splitGo none true (cs.drop (k + 1))).1,
                   (splitGo none true (cs.drop (k + 1))).2)
  | [], acc, b => by simp [splitGo, PyRt.findChar]
  | c :: cs, acc, b => by
    conv => lhs; unfold splitGo
    unfold PyRt.findChar
    by_cases hc : c = ']'
    · subst hc; simp
    · have hc2 : (c == ']') = false := by simp [hc]
      rw [hc2]
      simp only [Bool.false_eq_true, if_false]
      rw [splitGo_some cs (acc ++ [c]) false]
      cases PyRt.findChar ']' cs with
      | none => simp
      | some k => simp

theorem splitGo_none_false (c : Char) (cs : Str) :
    splitGo none false (c :: cs) = splitGo (some [c]) false cs := by
  simp [splitGo]

theorem splitGo_dot (cs : Str) :
    splitGo none true cs =
      if cs.take 1 = ['.'] then (['.'] :: (splitGo none false (cs.drop 1)).1, (splitGo none false (cs.drop 1)).2)
      else splitGo none false cs := by
  cases cs with
  | nil => simp [splitGo]
  | cons d ds =>
    by_cases hd : d = '.'
    · subst hd; simp [splitGo]
    · simp [splitGo, hd]

/-! ### the loop -/

/-- what the loop must deliver from the items already yielded and the model's answer for the rest -/
def splitExpect (out : List Str) (r : List Str × Bool) : Except (PyExc × List Str) (List Str) :=
  if r.2 then .error (.ValueError, out ++ r.1) else .ok (out ++ r.1)

theorem splitExpect_cons (out : List Str) (x : Str) (l : List Str) (b : Bool) :
    splitExpect out (x :: l, b) = splitExpect (out ++ [x]) (l, b) := by
  simp [splitExpect]

syntax "split_while1_proof " ident term : tactic
macro_rules
  | `(tactic| split_while1_proof $W $s) => `(tactic|
      (intro fuel
       induction fuel with
       | zero => intro i out hi hf; omega
       | succ fuel ih =>
       intro i out hi hf
       unfold $W
       by_cases hlt : i < ($s).length
       · have hdrop : ($s).drop i = ($s)[i] :: ($s).drop (i + 1) := List.drop_eq_getElem_cons hlt
         rw [hdrop, splitGo_none_false, splitGo_some]
         have h1 : ((i : Int) + 1) = ((i + 1 : Nat) : Int) := by push_cast; rfl
         have hc : (decide ((0 : Int) ≤ (i : Int)) && decide ((i : Int) < ((($s).length : Nat) : Int))) = true := by
           simp; omega
         simp only [hc, h1, if_true]
         rw [strFind1_nat $s ']' (i + 1) (by omega)]
         cases hfc : PyRt.findChar ']' (($s).drop (i + 1)) with
         | none =>
           simp [splitExpect, bind, Except.bind, Except.map]
         | some k =>
           have hk := findChar_lt _ _ _ hfc
           simp only [List.length_drop] at hk
           have e1 : (((i + 1 + k : Nat) : Int) + 1) = ((i + k + 2 : Nat) : Int) := by push_cast; omega
           have e2 : ((i + k + 2 : Nat) : Int) + 1 = ((i + k + 3 : Nat) : Int) := by push_cast; omega
           have hne : ¬ (((i + 1 + k : Nat) : Int) = -1) := by omega
           have hsym : PyRt.strSlice $s (i : Int) ((i + k + 2 : Nat) : Int)
               = [($s)[i]] ++ List.take (k + 1) (List.drop (i + 1) $s) := by
             rw [strSlice_nat $s i (i + k + 2) hi, hdrop]
             have : i + k + 2 - i = (k + 1) + 1 := by omega
             rw [this, List.take_succ_cons]; rfl
           have hdd : List.drop (k + 1) (List.drop (i + 1) $s) = List.drop (i + k + 2) $s := by
             rw [List.drop_drop]; congr 1; omega
           have hdot : PyRt.strSlice $s ((i + k + 2 : Nat) : Int) ((i + k + 3 : Nat) : Int)
               = List.take 1 (List.drop (i + k + 2) $s) := by
             rw [strSlice_nat $s (i + k + 2) (i + k + 3) (by omega)]
             have : i + k + 3 - (i + k + 2) = 1 := by omega
             rw [this]
           simp only [e1, e2, hne, decide_false, Bool.false_eq_true, if_false, hsym, hdot, hdd,
             bind, Except.bind]
           rw [splitGo_dot, splitExpect_cons]
           by_cases hd : List.take 1 (List.drop (i + k + 2) $s) = ['.']
           · have hlt2 : i + k + 2 < ($s).length := by
               rcases Nat.lt_or_ge (i + k + 2) ($s).length with h | h
               · exact h
               · rw [List.drop_eq_nil_of_le h] at hd
                 simp at hd
             simp only [hd, decide_true, if_true, e2]
             rw [splitExpect_cons, List.drop_drop]
             have := ih (i + k + 3) (out ++ [[($s)[i]] ++ List.take (k + 1) (List.drop (i + 1) $s)] ++ [['.']])
               (by omega) (by omega)
             rw [show i + k + 2 + 1 = i + k + 3 by omega]
             exact this
           · simp only [hd, decide_false, Bool.false_eq_true, if_false]
             exact ih (i + k + 2) _ (by omega) (by omega)
       · have : i = ($s).length := by omega
         subst this
         simp [splitExpect, splitGo, Except.map, pure, Except.pure]))

/-- the hand copy of the loop -/
theorem fallback_while1_eq (s : Str) : ∀ (fuel i : Nat) (out : List Str), i ≤ s.length → s.length - i + 1 ≤ fuel →
    (Gen.Fallback.split_selfies_while1 s fuel ((i : Int), out)).map Prod.snd
      = splitExpect out (splitGo none false (s.drop i)) := by
  split_while1_proof Gen.Fallback.split_selfies_while1 s

/-- the translated loop: with the fuel the translator supplies it delivers the model's items -/
theorem while1_eq (s : Str) : ∀ (fuel i : Nat) (out : List Str), i ≤ s.length → s.length - i + 1 ≤ fuel →
    (Gen.split_selfies_while1 s fuel ((i : Int), out)).map Prod.snd
      = splitExpect out (splitGo none false (s.drop i)) := by
  first
  | split_while1_proof Gen.split_selfies_while1 s
  | exact fallback_while1_eq s

theorem dropWhile_findChar (c : Char) : ∀ (s : Str),
    s.dropWhile (· != c) = match PyRt.findChar c s with
      | none => []
      | some k => s.drop k
  | [] => by simp [PyRt.findChar]
  | d :: ds => by
    unfold PyRt.findChar
    by_cases hd : d = c
    · subst hd; simp [List.dropWhile]
    · have := dropWhile_findChar c ds
      simp only [List.dropWhile, bne_iff_ne, ne_eq, hd, not_false_eq_true, decide_true, beq_iff_eq, if_false]
      rw [this]
      have hb : (d != c) = true := by simp [hd]
      cases PyRt.findChar c ds <;> simp [hb]

theorem genRun_expect (r : List Str × Bool) :
    PyRt.genRun (splitExpect [] r) = (r.1, if r.2 then some PyExc.ValueError else none) := by
  unfold splitExpect PyRt.genRun
  cases r.2 <;> simp

theorem fallback_while1_neg (s : Str) (fuel : Nat) (out : List Str) :
    Gen.Fallback.split_selfies_while1 s (fuel + 1) (-1, out) = .ok (-1, out) := by
  unfold Gen.Fallback.split_selfies_while1
  simp

theorem while1_neg (s : Str) (fuel : Nat) (out : List Str) :
    Gen.split_selfies_while1 s (fuel + 1) (-1, out) = .ok (-1, out) := by
  first
  | (unfold Gen.split_selfies_while1
     simp)
  | exact fallback_while1_neg s fuel out

theorem strFind1_zero (s : Str) (c : Char) :
    PyRt.strFind1 s c 0 = match PyRt.findChar c s with
      | some k => ((k : Nat) : Int)
      | none => -1 := by
  have h := strFind1_nat s c 0 (Nat.zero_le _)
  rw [List.drop_zero] at h
  simp only [Nat.zero_add] at h
  exact h

theorem bind_snd_eq_map {ε α β} (x : Except ε (α × β)) :
    (x >>= fun st => Except.ok st.2) = x.map Prod.snd := by
  cases x <;> rfl

syntax "split_selfies_proof " term:max term:max term:max : tactic
macro_rules
  | `(tactic| split_selfies_proof $s $hneg $heq) => `(tactic|
      (unfold splitGen splitSelfies
       rw [dropWhile_findChar]
       simp only [strFind1_zero]
       cases hfc : PyRt.findChar '[' $s with
       | none =>
         simp only []
         rw [$hneg:term]
         simp [PyRt.genRun, splitGo, bind, Except.bind]
       | some k =>
         have hk := findChar_lt _ _ _ hfc
         simp only []
         rw [bind_snd_eq_map, $heq:term $s _ k [] (by omega) (by omega), genRun_expect]))

/-- the hand copy that the translator substitutes when it reports a fallback -/
theorem fallback_split_selfies_eq (s : Str) : Gen.Fallback.split_selfies s = splitGen s := by
  unfold Gen.Fallback.split_selfies
  split_selfies_proof s fallback_while1_neg fallback_while1_eq

/-- the generator `split_selfies(selfies)` as translated equals the model, for every string: the
    same items in the same order, then `ValueError` exactly when the model reports a hanging
    bracket, and never `NonTermination` -/
theorem gen_split_selfies_eq (s : Str) : Gen.split_selfies s = splitGen s := by
  first
  | (unfold Gen.split_selfies
     split_selfies_proof s while1_neg while1_eq)
  | exact fallback_split_selfies_eq s

/-- `get_alphabet_from_selfies` with the TRANSLATED `split_selfies` as its callee -/
theorem gen_get_alphabet_from_selfies_closed_eq (strs : List Str) :
    Gen.get_alphabet_from_selfies Gen.split_selfies strs = alphabetToPy (alphabetFromSelfies strs) := by
  have h : Gen.split_selfies = splitGen := funext gen_split_selfies_eq
  rw [h]
  exact gen_get_alphabet_from_selfies_eq strs

end SV

#print axioms SV.gen_split_selfies_eq
#print axioms SV.fallback_split_selfies_eq
#print axioms SV.while1_eq
#print axioms SV.gen_get_alphabet_from_selfies_closed_eq

namespace SV

/-! ### non-vacuity on concrete values -/

example : Gen.split_selfies "[C][=C][F].[C]".toList
    = (["[C]".toList, "[=C]".toList, "[F]".toList, ".".toList, "[C]".toList], none) := by decide
example : Gen.split_selfies "xx[C].[F".toList = (["[C]".toList, ".".toList], some .ValueError) := by decide
example : Gen.split_selfies "abc".toList = ([], none) := by decide
example : Gen.get_alphabet_from_selfies Gen.split_selfies ["[C][F]".toList, "[C].[O]".toList]
    = .ok ["[C]".toList, "[F]".toList, "[O]".toList] := by decide

end SV
