/-
  C03p, stage B (3): from the parser's ghost skeleton to a well-formed forest whose graph is the
  parsed graph.

  `Tree.realize g` fills the ring items of a skeleton with what the adjacency lists of `g` say
  (partner, order, stereo mark here, stereo mark at the partner).  For a graph with the invariants
  of Proofs/ParserTree.lean (`ParsedInv`) the realized forest `f` satisfies `PForest.wf` and
  `graphOf f = { g with ds := [] }`.
-/
import SelfiesVerif.Proofs.ParserTree

namespace SV

/-! ### the purely structural part of a skeleton -/

/-- `none`: a ring position; `some j`: the chain bond to child `j` -/
def Items.kids : Items → List (Option Nat)
  | .nil => []
  | .ring _ _ _ _ rest => none :: rest.kids
  | .child _ _ t rest => some t.idx :: rest.kids

def kidE (ob : Option PBond) : Option Nat :=
  match ob with
  | some b => if b.ring then none else some b.dst
  | none => none

def rowKids (row : List (Option PBond)) : List (Option Nat) := row.map kidE

theorem Items.kids_eq_shape : ∀ its : Items, its.kids = its.shape.map (Option.map (·.1))
  | .nil => rfl
  | .ring _ _ _ _ rest => by simp [Items.kids, Items.shape, Items.kids_eq_shape rest]
  | .child _ _ _ rest => by simp [Items.kids, Items.shape, Items.kids_eq_shape rest]

theorem rowKids_eq_chainShape (row : List (Option PBond)) :
    rowKids row = (chainShape row).map (Option.map (·.1)) := by
  unfold rowKids chainShape
  rw [List.map_map]
  apply List.map_congr_left
  intro ob _
  cases ob with
  | none => rfl
  | some b => simp only [kidE, shapeE, Function.comp]; split <;> rfl

/-- the skeleton `F` has the structure of the graph `g`: atoms numbered in pre-order, one tree per
    root, and every row has ring positions and chain bonds to the children where the skeleton says -/
structure Skel (g : PMol) (F : PForest) : Prop where
  num : F.nodes.map (·.idx) = List.range g.adj.length
  roots : g.roots = F.map Tree.idx
  kids : ∀ n ∈ F.nodes, n.items.kids = rowKids (rowOf g.adj n.idx)

theorem skel_of_treeG {g : PMol} (h : TreeG g) : ∃ F, Skel g F := by
  obtain ⟨F, intos, hg⟩ := h
  refine ⟨F, ?_, ?_, ?_⟩
  · have := hg.num; simpa [zidxs] using this
  · have := hg.roots; simpa using this
  · intro n hn
    rw [Items.kids_eq_shape, rowKids_eq_chainShape, (hg.doneOK n hn).2.1]

/-! ### realize -/

/-- the stereo mark stored at the other end of the ring bond `p – i` -/
def revStereo (g : PMol) (p i : Nat) : Option Char :=
  match g.getDirBond p i with
  | .ok b => b.stereo
  | .error _ => none

mutual
/-- read atoms, bond orders, stereo marks and ring partners off the graph -/
def Tree.realize (g : PMol) : Tree → Tree
  | .node i a its => .node i (g.atoms.getD i a) (its.realize g i (rowOf g.adj i))
def Items.realize (g : PMol) (i : Nat) : Items → List (Option PBond) → Items
  | .nil, _ => .nil
  | .ring p o s s' rest, row =>
    match row.head? with
    | some (some b) => .ring b.dst b.order2 b.stereo (revStereo g b.dst i) (rest.realize g i row.tail)
    | _ => .ring p o s s' (rest.realize g i row.tail)
  | .child o s t rest, row =>
    match row.head? with
    | some (some b) => .child b.order2 b.stereo (t.realize g) (rest.realize g i row.tail)
    | _ => .child o s (t.realize g) (rest.realize g i row.tail)
end

theorem Tree.realize_idx (g : PMol) : ∀ t : Tree, (t.realize g).idx = t.idx
  | .node _ _ _ => rfl

def NodeInfo.realize (g : PMol) (n : NodeInfo) : NodeInfo :=
  ⟨n.into, n.idx, g.atoms.getD n.idx n.atom, n.items.realize g n.idx (rowOf g.adj n.idx)⟩

/-- a node without the bond into it -/
def NodeInfo.core (n : NodeInfo) : Nat × Atom × Items := (n.idx, n.atom, n.items)

mutual
theorem Tree.nodes_realize (g : PMol) : ∀ (t : Tree) (into into' : Option PBond),
    ((t.realize g).nodes into').map NodeInfo.core = ((t.nodes into).map (NodeInfo.realize g)).map NodeInfo.core
  | .node i a its, into, into' => by
    simp only [Tree.realize, Tree.nodes, List.map_cons, NodeInfo.realize, NodeInfo.core]
    rw [Items.nodes_realize g i its]
theorem Items.nodes_realize (g : PMol) (i : Nat) : ∀ (its : Items) (row : List (Option PBond)),
    ((its.realize g i row).nodes i).map NodeInfo.core = ((its.nodes i).map (NodeInfo.realize g)).map NodeInfo.core
  | .nil, _ => rfl
  | .ring p o s s' rest, row => by
    simp only [Items.realize]
    split <;> simp only [Items.nodes] <;> exact Items.nodes_realize g i rest _
  | .child o s t rest, row => by
    simp only [Items.realize]
    split <;> simp only [Items.nodes, List.map_append, Tree.realize_idx] <;>
      rw [Tree.nodes_realize g t _ _, Items.nodes_realize g i rest]
end

theorem PForest.nodes_realize (g : PMol) (F : PForest) :
    (PForest.nodes (F.map (Tree.realize g))).map NodeInfo.core
      = (F.nodes.map (NodeInfo.realize g)).map NodeInfo.core := by
  unfold PForest.nodes
  induction F with
  | nil => rfl
  | cons t F ih =>
    simp only [List.map_cons, List.flatMap_cons, List.map_append, ih, Tree.nodes_realize g t none none]

/-! ### the ring items of a realized row -/

def rowOpens (g : PMol) (i : Nat) (l : List PBond) : List (Nat × Nat × Nat × Option Char × Option Char) :=
  l.filterMap fun b =>
    if b.ring = true ∧ i < b.dst then some (i, b.dst, b.order2, b.stereo, revStereo g b.dst i) else none

def rowCloses (g : PMol) (i : Nat) (l : List PBond) : List (Nat × Nat × Nat × Option Char × Option Char) :=
  l.filterMap fun b =>
    if b.ring = true ∧ ¬ i < b.dst then some (b.dst, i, b.order2, revStereo g b.dst i, b.stereo) else none

def rowRings (g : PMol) (i : Nat) (l : List PBond) : List (Nat × Nat × Option Char × Option Char) :=
  l.filterMap fun b =>
    if b.ring = true then some (b.dst, b.order2, b.stereo, revStereo g b.dst i) else none

theorem Items.realize_spec (g : PMol) (i : Nat) : ∀ (its : Items) (row : List (Option PBond)),
    its.kids = rowKids row → (∀ ob ∈ row, ob ≠ none) →
    (∀ b, some b ∈ row → b.src = i ∧ b.attr = none) →
    ((its.realize g i row).row i).map some = row ∧
    (its.realize g i row).opens i = rowOpens g i (bondsOf row) ∧
    (its.realize g i row).closes i = rowCloses g i (bondsOf row) ∧
    (its.realize g i row).rings = rowRings g i (bondsOf row)
  | .nil, row, hsh, _, _ => by
    have : row = [] := by
      cases row with
      | nil => rfl
      | cons _ _ => simp [Items.kids, rowKids] at hsh
    subst this
    exact ⟨rfl, rfl, rfl, rfl⟩
  | .ring p o s s' rest, row, hsh, hnn, hb => by
    cases row with
    | nil => simp [Items.kids, rowKids] at hsh
    | cons ob row =>
      simp only [Items.kids, rowKids, List.map_cons, List.cons.injEq] at hsh
      obtain ⟨hob, hrest⟩ := hsh
      cases ob with
      | none => exact absurd rfl (hnn none (by simp))
      | some b =>
        have hring : b.ring = true := by
          simp only [kidE] at hob
          split at hob
          · assumption
          · cases hob
        obtain ⟨hsrc, hattr⟩ := hb b (by simp)
        obtain ⟨g1, g2, g3, g4⟩ := Items.realize_spec g i rest row hrest
          (fun ob hob => hnn ob (List.mem_cons_of_mem _ hob))
          (fun b' hb' => hb b' (List.mem_cons_of_mem _ hb'))
        have hbe : ringBond i b.dst b.order2 b.stereo = b := by
          cases b; simp only [ringBond] at *; subst hsrc hring hattr; rfl
        have hbo : bondsOf (some b :: row) = b :: bondsOf row := by simp [bondsOf]
        simp only [Items.realize, List.head?_cons, List.tail_cons, Items.row, Items.opens, Items.closes,
          Items.rings, List.map_cons, hbe, g1, g2, g3, g4, hbo, rowOpens, rowCloses, rowRings,
          List.filterMap_cons, hring, true_and]
        by_cases hlt : i < b.dst <;> simp [hlt]
  | .child o s t rest, row, hsh, hnn, hb => by
    cases row with
    | nil => simp [Items.kids, rowKids] at hsh
    | cons ob row =>
      simp only [Items.kids, rowKids, List.map_cons, List.cons.injEq] at hsh
      obtain ⟨hob, hrest⟩ := hsh
      cases ob with
      | none => exact absurd rfl (hnn none (by simp))
      | some b =>
        have hring : b.ring = false ∧ b.dst = t.idx := by
          simp only [kidE] at hob
          split at hob
          · cases hob
          · rename_i hr
            simp only [Option.some.injEq] at hob
            exact ⟨by simpa using hr, hob.symm⟩
        obtain ⟨hsrc, hattr⟩ := hb b (by simp)
        obtain ⟨g1, g2, g3, g4⟩ := Items.realize_spec g i rest row hrest
          (fun ob hob => hnn ob (List.mem_cons_of_mem _ hob))
          (fun b' hb' => hb b' (List.mem_cons_of_mem _ hb'))
        have hbe : chainBond i t.idx b.order2 b.stereo = b := by
          obtain ⟨h1, h2⟩ := hring
          cases b; simp only [chainBond] at *; subst hsrc h1 h2 hattr; rfl
        have hbo : bondsOf (some b :: row) = b :: bondsOf row := by simp [bondsOf]
        simp only [Items.realize, List.head?_cons, List.tail_cons, Items.row, Items.opens, Items.closes,
          Items.rings, List.map_cons, Tree.realize_idx, hbe, g1, g2, g3, g4, hbo, rowOpens, rowCloses,
          rowRings, List.filterMap_cons, hring.1]
        simp

/-! ### indexed lists -/

theorem map_eq_of_indexed {β} {L : List NodeInfo} {X : List β} (φ : NodeInfo → β)
    (hidx : L.map (·.idx) = List.range X.length) (h : ∀ n ∈ L, X[n.idx]? = some (φ n)) :
    L.map φ = X := by
  have hlen : L.length = X.length := by
    have := congrArg List.length hidx
    simpa using this
  apply List.ext_getElem?
  intro k
  rcases Nat.lt_or_ge k L.length with hk | hk
  · have hn : L[k]? = some L[k] := List.getElem?_eq_getElem hk
    have hki : (L[k]).idx = k := by
      have h1 : (L.map (·.idx))[k]? = some (L[k]).idx := by simp [hk]
      rw [hidx, List.getElem?_range (hlen ▸ hk)] at h1
      injection h1 with h1; exact h1.symm
    rw [List.getElem?_map, hn, Option.map_some, ← h _ (List.getElem_mem hk), hki]
  · rw [List.getElem?_eq_none (by simpa using hk), List.getElem?_eq_none (hlen ▸ hk)]

/-! ### ring pairing on the graph -/

theorem sublist_filterMap_key {α β} (f : α → Option β) (ka : α → Nat) (kb : β → Nat)
    (hk : ∀ a b, f a = some b → kb b = ka a) : ∀ l : List α, ((l.filterMap f).map kb).Sublist (l.map ka)
  | [] => List.Sublist.slnil
  | a :: l => by
    rw [List.filterMap_cons]
    cases h : f a with
    | none => exact (sublist_filterMap_key f ka kb hk l).cons _
    | some b =>
      simp only [List.map_cons, hk a b h]
      exact (sublist_filterMap_key f ka kb hk l).cons_cons _

theorem nodup_of_map {α β} (f : α → β) {l : List α} (h : (l.map f).Nodup) : l.Nodup := by
  unfold List.Nodup at h ⊢
  rw [List.pairwise_map] at h
  exact h.imp (fun hne e => hne (congrArg f e))

theorem nodup_flatMap_key {β} (F : Nat → List β) (key : β → Nat) :
    ∀ L : List Nat, L.Nodup → (∀ j ∈ L, (F j).Nodup) → (∀ j ∈ L, ∀ x ∈ F j, key x = j) →
      (L.flatMap F).Nodup
  | [], _, _, _ => by simp
  | j :: L, hnd, h1, h2 => by
    rw [List.nodup_cons] at hnd
    rw [List.flatMap_cons, List.nodup_append]
    refine ⟨h1 j (by simp), nodup_flatMap_key F key L hnd.2 (fun j' hj' => h1 j' (List.mem_cons_of_mem _ hj'))
      (fun j' hj' => h2 j' (List.mem_cons_of_mem _ hj')), ?_⟩
    intro x hx y hy e
    subst e
    obtain ⟨j', hj', hxj'⟩ := List.mem_flatMap.1 hy
    have e1 := h2 j (by simp) x hx
    have e2 := h2 j' (List.mem_cons_of_mem _ hj') x hxj'
    rw [e1] at e2
    subst e2
    exact hnd.1 hj'

theorem revStereo_eq {g : PMol} (hok : AdjOK g.adj) {i : Nat} {b : PBond} (hb : b ∈ rowAt g.adj i) :
    revStereo g i b.dst = b.stereo := by
  unfold revStereo; rw [getDirBond_ok hok hb]

/-- the reverse copy of a ring bond -/
theorem ring_copy {g : PMol} (hok : AdjOK g.adj) {i : Nat} {b : PBond} (hb : b ∈ rowAt g.adj i)
    (hr : b.ring = true) :
    ∃ b' ∈ rowAt g.adj b.dst, b'.dst = i ∧ b'.order2 = b.order2 ∧ b'.ring = true ∧ b.dst < g.adj.length := by
  have hi := lt_of_mem_rowAt hb
  obtain ⟨g1, g2, g3, g4⟩ := (hok i hi).2 b hb
  rw [if_pos hr] at g4
  obtain ⟨b', hb', e1, e2⟩ := g4
  refine ⟨b', hb', e1, e2, ?_, g2⟩
  obtain ⟨f1, f2, f3, f4⟩ := (hok b.dst g2).2 b' hb'
  cases hr' : b'.ring with
  | true => rfl
  | false =>
    exfalso
    rw [hr'] at f4
    simp only [Bool.false_eq_true, if_false] at f4
    obtain ⟨f5, f6⟩ := f4
    rw [e1] at f6
    exact f6 b hb rfl

theorem mem_rowOpens {g : PMol} {i : Nat} {l : List PBond} {x : Nat × Nat × Nat × Option Char × Option Char} :
    x ∈ rowOpens g i l ↔ ∃ b ∈ l, b.ring = true ∧ i < b.dst ∧
      x = (i, b.dst, b.order2, b.stereo, revStereo g b.dst i) := by
  unfold rowOpens
  rw [List.mem_filterMap]
  constructor
  · rintro ⟨b, hb, h⟩
    split at h
    · rename_i hc
      injection h with h
      exact ⟨b, hb, hc.1, hc.2, h.symm⟩
    · cases h
  · rintro ⟨b, hb, h1, h2, rfl⟩
    exact ⟨b, hb, by rw [if_pos ⟨h1, h2⟩]⟩

theorem mem_rowCloses {g : PMol} {i : Nat} {l : List PBond} {x : Nat × Nat × Nat × Option Char × Option Char} :
    x ∈ rowCloses g i l ↔ ∃ b ∈ l, b.ring = true ∧ ¬ i < b.dst ∧
      x = (b.dst, i, b.order2, revStereo g b.dst i, b.stereo) := by
  unfold rowCloses
  rw [List.mem_filterMap]
  constructor
  · rintro ⟨b, hb, h⟩
    split at h
    · rename_i hc
      injection h with h
      exact ⟨b, hb, hc.1, hc.2, h.symm⟩
    · cases h
  · rintro ⟨b, hb, h1, h2, rfl⟩
    exact ⟨b, hb, by rw [if_pos ⟨h1, h2⟩]⟩

/-- **ring items come in matching pairs**, on the graph -/
theorem graph_ringsPaired {g : PMol} (hok : AdjOK g.adj) {k : Nat} (hk : k < g.adj.length) :
    (rowOpens g k (rowAt g.adj k)).Perm
      (((List.range g.adj.length).flatMap fun j => rowCloses g j (rowAt g.adj j)).filter fun c => c.1 == k) := by
  rw [List.filter_flatMap]
  apply (List.perm_ext_iff_of_nodup ?_ ?_).2
  · intro x
    rw [mem_rowOpens, List.mem_flatMap]
    constructor
    · rintro ⟨b, hb, hr, hlt, rfl⟩
      obtain ⟨b', hb', e1, e2, hr', hlen⟩ := ring_copy hok hb hr
      refine ⟨b.dst, List.mem_range.2 hlen, ?_⟩
      rw [List.mem_filter]
      refine ⟨mem_rowCloses.2 ⟨b', hb', hr', by rw [e1]; omega, ?_⟩, by simp⟩
      have r1 := revStereo_eq hok hb
      have r2 := revStereo_eq hok hb'
      rw [e1] at r2 ⊢
      rw [r1, r2, e2]
    · rintro ⟨j, hj, hx⟩
      rw [List.mem_filter] at hx
      obtain ⟨hx, hkx⟩ := hx
      obtain ⟨b', hb', hr', hnlt, rfl⟩ := mem_rowCloses.1 hx
      have hdk : b'.dst = k := by simpa using hkx
      obtain ⟨b, hb, e1, e2, hr, _⟩ := ring_copy hok hb' hr'
      rw [hdk] at hb
      have hjk : j ≠ k := by
        have := ((hok j (List.mem_range.1 hj)).2 b' hb').2.2.1
        rw [hdk] at this; exact Ne.symm this
      refine ⟨b, hb, hr, by rw [e1]; omega, ?_⟩
      have r1 := revStereo_eq hok hb
      have r2 := revStereo_eq hok hb'
      rw [e1] at r1 ⊢
      rw [hdk] at r2 ⊢
      rw [r1, r2, e2]
  · -- openings: distinct partners
    apply nodup_of_map (fun x => x.2.1)
    refine List.Nodup.sublist (sublist_filterMap_key _ PBond.dst (fun x : Nat × Nat × Nat × Option Char × Option Char => x.2.1) ?_ _) (hok k hk).1
    intro a b h
    split at h
    · injection h with h; rw [← h]
    · cases h
  · -- closures: one per closing atom
    refine nodup_flatMap_key _ (fun x => x.2.1) _ List.nodup_range ?_ ?_
    · intro j hj
      refine List.Nodup.sublist List.filter_sublist ?_
      apply nodup_of_map (fun x => x.1)
      refine List.Nodup.sublist (sublist_filterMap_key _ PBond.dst (fun x : Nat × Nat × Nat × Option Char × Option Char => x.1) ?_ _)
        (hok j (List.mem_range.1 hj)).1
      intro a b h
      split at h
      · injection h with h; rw [← h]
      · cases h
    · intro j _ x hx
      rw [List.mem_filter] at hx
      obtain ⟨b', _, _, _, rfl⟩ := mem_rowCloses.1 hx.1
      rfl

end SV
