/-
  Which branch symbol encloses which input position — defined WITHOUT attribution.

  `walk` follows the control flow of the documented derivation (`Spec.derive`: one `classify` per
  symbol, count-down budget, plain list of symbols) but carries neither a molecule nor an
  attribution stack: only the derivation state, the budget and the POSITION of the next symbol.
  It records
  * for every branch symbol that OPENS a branch (met in a state `> 1`) a `Span`: its position and
    the half-open range of positions the branch took (everything the nested derivation instance
    consumed, skipped remainder of its budget included);
  * the positions of the atom symbols that make an atom.

  Pure facts about `walk` proved here: everything recorded lies inside the range of positions the
  call consumed (`walk_within`), and the spans are listed in preorder and form a laminar family
  (`walk_laminar`: a later span is nested in the body of an earlier one or starts after it).
-/
import SelfiesVerif.Spec.Derivation

namespace SV
open SV.Spec

/-- a branch that was opened: the position of the branch symbol and the half-open range
    `[first, last)` of positions its nested derivation consumed -/
structure Span where
  sym : Nat
  first : Nat
  last : Nat
  deriving Repr, DecidableEq

/-- what a walk returns: the symbols left, the branches opened (preorder), the positions of the
    atom symbols that made an atom (in order) -/
structure Walk where
  left : List Str
  spans : List Span := []
  made : List Nat := []
  deriving Repr

/--
`walk T fuel budget i pos syms`: one derivation instance in state `X_i`, allowed `budget` more
symbols (`none`: no limit) of `syms`, whose first symbol has position `pos`.  Same case analysis
as `Spec.derive` (minus molecule, ring queue and current atom).
-/
def walk (T : Table) : Nat → Option Nat → Nat → Nat → List Str → Walk
  | 0, _, _, _, syms => ⟨syms, [], []⟩
  | fuel + 1, budget, i, pos, syms =>
    if budget = some 0 then ⟨syms, [], []⟩ else
    match syms with
    | [] => ⟨[], [], []⟩
    | s :: rest =>
      let budget := spend budget 1
      match classify T s with
      | .invalid => ⟨skip budget rest, [], []⟩   -- the decoder fails here
      | .epsilon =>
        if i = 0 then walk T fuel budget 0 (pos + 1) rest else ⟨skip budget rest, [], []⟩
      | .branch m l =>
        if i ≤ 1 then walk T fuel budget i (pos + 1) rest   -- skipped: opens nothing, reads no index
        else
          let n := min (i - 1) m
          let q := indexValue l rest
          let body := rest.drop l
          let first := pos + 1 + min l rest.length
          let inner := walk T fuel (some (q + 1)) n first body
          let taken := body.length - inner.left.length
          let last := first + taken
          let outer := walk T fuel (spend budget (min l rest.length + taken)) (i - n) last inner.left
          ⟨outer.left, ⟨pos, first, last⟩ :: (inner.spans ++ outer.spans), inner.made ++ outer.made⟩
      | .ring β l _ _ =>
        if i = 0 then walk T fuel budget 0 (pos + 1) rest
        else
          let after := rest.drop l
          let budget := spend budget (min l rest.length)
          if i - min β i = 0 then ⟨skip budget after, [], []⟩
          else walk T fuel budget (i - min β i) (pos + 1 + min l rest.length) after
      | .atom β _ x =>
        let α := cap T x
        if i = 0 then
          -- X_0: the atom is made (a new fragment)
          let w : Walk := if α = 0 then ⟨skip budget rest, [], []⟩ else walk T fuel budget α (pos + 1) rest
          { w with made := pos :: w.made }
        else
          let μ := min β (min i α)
          if μ = 0 then ⟨skip budget rest, [], []⟩   -- capacity 0: no atom, the instance ends
          else
            let w : Walk :=
              if α - μ = 0 then ⟨skip budget rest, [], []⟩ else walk T fuel budget (α - μ) (pos + 1) rest
            { w with made := pos :: w.made }

/-- fragment after fragment, each from `X_0` without budget; positions run on -/
def walkAll (T : Table) : List (List Str) → Nat → Walk
  | [], _ => ⟨[], [], []⟩
  | syms :: more, pos =>
    let w := walk T (syms.length + 1) none 0 pos syms
    let r := walkAll T more (pos + syms.length)
    ⟨[], w.spans ++ r.spans, w.made ++ r.made⟩

/-- the branch symbols enclosing position `k`, outermost first -/
def encl (spans : List Span) (k : Nat) : List Nat :=
  (spans.filter fun sp => decide (sp.first ≤ k ∧ k < sp.last)).map (·.sym)

/-! ### one step of `walk`, case by case -/

section Steps
variable {T : Table} {f : Nat} {b : Option Nat} {i pos : Nat} {s : Str} {rest : List Str}

theorem walk_stop {syms : List Str} : walk T (f + 1) (some 0) i pos syms = ⟨syms, [], []⟩ := by
  simp [walk]

theorem walk_nil (hb : b ≠ some 0) : walk T (f + 1) b i pos [] = ⟨[], [], []⟩ := by
  simp [walk, hb]

theorem walk_eps0 (hb : b ≠ some 0) (hc : classify T s = .epsilon) :
    walk T (f + 1) b 0 pos (s :: rest) = walk T f (spend b 1) 0 (pos + 1) rest := by
  simp [walk, hb, hc]

theorem walk_eps (hb : b ≠ some 0) (hc : classify T s = .epsilon) (hi : i ≠ 0) :
    walk T (f + 1) b i pos (s :: rest) = ⟨skip (spend b 1) rest, [], []⟩ := by
  simp [walk, hb, hc, hi]

theorem walk_branch_skip {m l : Nat} (hb : b ≠ some 0) (hc : classify T s = .branch m l) (hi : i ≤ 1) :
    walk T (f + 1) b i pos (s :: rest) = walk T f (spend b 1) i (pos + 1) rest := by
  simp [walk, hb, hc, hi]

theorem walk_branch {m l : Nat} (hb : b ≠ some 0) (hc : classify T s = .branch m l) (hi : ¬ i ≤ 1) :
    walk T (f + 1) b i pos (s :: rest) =
      let first := pos + 1 + min l rest.length
      let inner := walk T f (some (indexValue l rest + 1)) (min (i - 1) m) first (rest.drop l)
      let taken := (rest.drop l).length - inner.left.length
      let outer := walk T f (spend (spend b 1) (min l rest.length + taken)) (i - min (i - 1) m)
        (first + taken) inner.left
      ⟨outer.left, ⟨pos, first, first + taken⟩ :: (inner.spans ++ outer.spans), inner.made ++ outer.made⟩ := by
  simp only [walk, hb, hc, hi, if_false]

theorem walk_ring_skip {β l : Nat} {ls rs} (hb : b ≠ some 0) (hc : classify T s = .ring β l ls rs) :
    walk T (f + 1) b 0 pos (s :: rest) = walk T f (spend b 1) 0 (pos + 1) rest := by
  simp [walk, hb, hc]

theorem walk_ring {β l : Nat} {ls rs} (hb : b ≠ some 0) (hc : classify T s = .ring β l ls rs) (hi : i ≠ 0) :
    walk T (f + 1) b i pos (s :: rest) =
      if i - min β i = 0 then ⟨skip (spend (spend b 1) (min l rest.length)) (rest.drop l), [], []⟩
      else walk T f (spend (spend b 1) (min l rest.length)) (i - min β i)
        (pos + 1 + min l rest.length) (rest.drop l) := by
  simp only [walk, hb, hc, hi, if_false]

/-- an atom is made -/
def Walk.cons (k : Nat) (w : Walk) : Walk := { w with made := k :: w.made }

theorem walk_root {β : Nat} {mark} {x : Atom} (hb : b ≠ some 0) (hc : classify T s = .atom β mark x) :
    walk T (f + 1) b 0 pos (s :: rest) =
      Walk.cons pos (if cap T x = 0 then ⟨skip (spend b 1) rest, [], []⟩
        else walk T f (spend b 1) (cap T x) (pos + 1) rest) := by
  simp only [walk, hb, hc, if_false, if_true, Walk.cons]

theorem walk_atom_none {β : Nat} {mark} {x : Atom} (hb : b ≠ some 0) (hc : classify T s = .atom β mark x)
    (hi : i ≠ 0) (hμ : min β (min i (cap T x)) = 0) :
    walk T (f + 1) b i pos (s :: rest) = ⟨skip (spend b 1) rest, [], []⟩ := by
  simp only [walk, hb, hc, hi, hμ, if_false, if_true]

theorem walk_atom {β : Nat} {mark} {x : Atom} (hb : b ≠ some 0) (hc : classify T s = .atom β mark x)
    (hi : i ≠ 0) (hμ : min β (min i (cap T x)) ≠ 0) :
    walk T (f + 1) b i pos (s :: rest) =
      Walk.cons pos (if cap T x - min β (min i (cap T x)) = 0 then ⟨skip (spend b 1) rest, [], []⟩
        else walk T f (spend b 1) (cap T x - min β (min i (cap T x))) (pos + 1) rest) := by
  simp only [walk, hb, hc, hi, hμ, if_false, Walk.cons]

theorem walk_invalid (hb : b ≠ some 0) (hc : classify T s = .invalid) :
    walk T (f + 1) b i pos (s :: rest) = ⟨skip (spend b 1) rest, [], []⟩ := by
  simp [walk, hb, hc]

end Steps

/-! ### everything a walk records lies in the range it consumed; laminarity -/

/-- `a` is listed before `b`: `b` lies in the body of `a`, or after it -/
def Span.Before (a b : Span) : Prop :=
  a.sym < b.sym ∧ ((a.first ≤ b.sym ∧ b.last ≤ a.last) ∨ a.last ≤ b.sym)

/-- all records of `w` lie in `[lo, hi)`, in order -/
structure Within (lo hi : Nat) (w : Walk) : Prop where
  spans : ∀ sp ∈ w.spans, lo ≤ sp.sym ∧ sp.sym < sp.first ∧ sp.first ≤ sp.last ∧ sp.last ≤ hi
  made : ∀ k ∈ w.made, lo ≤ k ∧ k < hi
  laminar : w.spans.Pairwise Span.Before
  sorted : w.made.Pairwise (· < ·)

theorem Within.stop (lo hi : Nat) (l : List Str) : Within lo hi ⟨l, [], []⟩ :=
  ⟨fun _ h => (by cases h), fun _ h => (by cases h), List.Pairwise.nil, List.Pairwise.nil⟩

theorem Within.mono {lo hi lo' hi' : Nat} {w : Walk} (h : Within lo hi w) (h1 : lo' ≤ lo) (h2 : hi ≤ hi') :
    Within lo' hi' w :=
  ⟨fun sp hsp => (by have := h.spans sp hsp; omega), fun k hk => (by have := h.made k hk; omega),
   h.laminar, h.sorted⟩

theorem Within.cons {lo hi pos : Nat} {w : Walk} (h : Within (pos + 1) hi w) (h1 : lo ≤ pos) (h2 : pos < hi) :
    Within lo hi (Walk.cons pos w) := by
  refine ⟨fun sp hsp => ?_, fun k hk => ?_, h.laminar, ?_⟩
  · have := h.spans sp hsp; omega
  · simp only [Walk.cons, List.mem_cons] at hk
    rcases hk with rfl | hk
    · omega
    · have := h.made k hk; omega
  · simp only [Walk.cons, List.pairwise_cons]
    exact ⟨fun k hk => by have := h.made k hk; omega, h.sorted⟩

theorem skip_len {α : Type} (b : Option Nat) (l : List α) : (skip b l).length ≤ l.length := by
  cases b with
  | none => simp [skip]
  | some k => simp [skip]

theorem walk_within (T : Table) : ∀ (fuel : Nat) (b : Option Nat) (i pos : Nat) (syms : List Str),
    (walk T fuel b i pos syms).left.length ≤ syms.length ∧
    Within pos (pos + (syms.length - (walk T fuel b i pos syms).left.length)) (walk T fuel b i pos syms) := by
  intro fuel
  induction fuel with
  | zero => intro b i pos syms; exact ⟨Nat.le_refl _, Within.stop _ _ _⟩
  | succ f ih =>
    intro b i pos syms
    by_cases hb : b = some 0
    · subst hb; rw [walk_stop]; exact ⟨Nat.le_refl _, Within.stop _ _ _⟩
    cases syms with
    | nil => rw [walk_nil hb]; exact ⟨Nat.le_refl _, Within.stop _ _ _⟩
    | cons s rest =>
      -- the instance ends after this symbol
      have fin : ∀ (b' : Option Nat) (l : List Str), l.length ≤ rest.length →
          (skip b' l).length ≤ (s :: rest).length ∧
          Within pos (pos + ((s :: rest).length - (skip b' l).length)) ⟨skip b' l, [], []⟩ := by
        intro b' l hl
        have := skip_len b' l
        exact ⟨by simp only [List.length_cons]; omega, Within.stop _ _ _⟩
      -- the instance goes on with the next symbol
      have go : ∀ (b' : Option Nat) (i' : Nat),
          (walk T f b' i' (pos + 1) rest).left.length ≤ (s :: rest).length ∧
          Within pos (pos + ((s :: rest).length - (walk T f b' i' (pos + 1) rest).left.length))
            (walk T f b' i' (pos + 1) rest) := by
        intro b' i'
        obtain ⟨h1, h2⟩ := ih b' i' (pos + 1) rest
        exact ⟨by simp only [List.length_cons]; omega,
          h2.mono (by omega) (by simp only [List.length_cons]; omega)⟩
      -- an atom is made, then one or the other
      have mk : ∀ (w : Walk), w.left.length ≤ rest.length →
          Within (pos + 1) (pos + 1 + (rest.length - w.left.length)) w →
          (Walk.cons pos w).left.length ≤ (s :: rest).length ∧
          Within pos (pos + ((s :: rest).length - (Walk.cons pos w).left.length)) (Walk.cons pos w) := by
        intro w h1 h2
        have e : (Walk.cons pos w).left = w.left := rfl
        rw [e]
        exact ⟨by simp only [List.length_cons]; omega,
          (h2.mono (Nat.le_refl _) (by simp only [List.length_cons]; omega)).cons (Nat.le_refl _)
            (by simp only [List.length_cons]; omega)⟩
      cases hc : classify T s with
      | invalid =>
        rw [walk_invalid hb hc]; exact fin _ _ (Nat.le_refl _)
      | epsilon =>
        by_cases hi : i = 0
        · subst hi; rw [walk_eps0 hb hc]; exact go _ _
        · rw [walk_eps hb hc hi]; exact fin _ _ (Nat.le_refl _)
      | branch m l =>
        by_cases hi : i ≤ 1
        · rw [walk_branch_skip hb hc hi]; exact go _ _
        · rw [walk_branch hb hc hi]
          dsimp only
          generalize hfirst : pos + 1 + min l rest.length = first
          obtain ⟨a1, a2⟩ := ih (some (indexValue l rest + 1)) (min (i - 1) m) first (rest.drop l)
          generalize walk T f (some (indexValue l rest + 1)) (min (i - 1) m) first (rest.drop l) = inner at a1 a2 ⊢
          generalize htaken : (rest.drop l).length - inner.left.length = taken at a2 ⊢
          obtain ⟨c1, c2⟩ := ih (spend (spend b 1) (min l rest.length + taken)) (i - min (i - 1) m)
            (first + taken) inner.left
          generalize walk T f (spend (spend b 1) (min l rest.length + taken)) (i - min (i - 1) m)
            (first + taken) inner.left = outer at c1 c2 ⊢
          simp only [List.length_drop] at a1 htaken
          simp only [List.length_cons]
          refine ⟨by omega, ?_, ?_, ?_, ?_⟩
          · intro sp hsp
            simp only [List.mem_cons, List.mem_append] at hsp
            rcases hsp with rfl | hsp | hsp
            · simp only; omega
            · have := a2.spans sp hsp; omega
            · have := c2.spans sp hsp; omega
          · intro k hk
            simp only [List.mem_append] at hk
            rcases hk with hk | hk
            · have := a2.made k hk; omega
            · have := c2.made k hk; omega
          · simp only [List.pairwise_cons, List.pairwise_append, List.mem_append]
            refine ⟨?_, a2.laminar, c2.laminar, ?_⟩
            · intro x hx
              rcases hx with hx | hx
              · have := a2.spans x hx
                exact ⟨by simp only; omega, .inl ⟨by simp only; omega, by simp only; omega⟩⟩
              · have := c2.spans x hx
                exact ⟨by simp only; omega, .inr (by simp only; omega)⟩
            · intro x hx y hy
              have h1 := a2.spans x hx
              have h2 := c2.spans y hy
              exact ⟨by omega, .inr (by omega)⟩
          · simp only [List.pairwise_append]
            refine ⟨a2.sorted, c2.sorted, ?_⟩
            intro x hx y hy
            have h1 := a2.made x hx
            have h2 := c2.made y hy
            omega
      | ring β l ls rs =>
        by_cases hi : i = 0
        · subst hi; rw [walk_ring_skip hb hc]; exact go _ _
        · rw [walk_ring hb hc hi]
          split
          · exact fin _ _ (by simp)
          · obtain ⟨h1, h2⟩ := ih (spend (spend b 1) (min l rest.length)) (i - min β i)
              (pos + 1 + min l rest.length) (rest.drop l)
            simp only [List.length_drop] at h1 h2
            exact ⟨by simp only [List.length_cons]; omega,
              h2.mono (by omega) (by simp only [List.length_cons]; omega)⟩
      | atom β mark x =>
        by_cases hi : i = 0
        · subst hi
          rw [walk_root hb hc]
          split
          · exact mk _ (skip_len _ _) (Within.stop _ _ _)
          · obtain ⟨h1, h2⟩ := ih (spend b 1) (cap T x) (pos + 1) rest
            exact mk _ h1 h2
        · by_cases hμ : min β (min i (cap T x)) = 0
          · rw [walk_atom_none hb hc hi hμ]; exact fin _ _ (Nat.le_refl _)
          · rw [walk_atom hb hc hi hμ]
            split
            · exact mk _ (skip_len _ _) (Within.stop _ _ _)
            · obtain ⟨h1, h2⟩ := ih (spend b 1) (cap T x - min β (min i (cap T x))) (pos + 1) rest
              exact mk _ h1 h2

/-- a walk without budget takes everything -/
theorem walk_none (T : Table) : ∀ (fuel i pos : Nat) (syms : List Str), syms.length < fuel →
    (walk T fuel none i pos syms).left = [] := by
  intro fuel
  induction fuel with
  | zero => intro i pos syms h; omega
  | succ f ih =>
    intro i pos syms hlen
    have hb : (none : Option Nat) ≠ some 0 := by simp
    have hsp : ∀ k, spend (none : Option Nat) k = none := fun _ => rfl
    have hsk : ∀ l : List Str, skip (none : Option Nat) l = [] := fun _ => rfl
    cases syms with
    | nil => rw [walk_nil hb]
    | cons s rest =>
      simp only [List.length_cons] at hlen
      have hr : rest.length < f := by omega
      cases hc : classify T s with
      | invalid => rw [walk_invalid hb hc, hsp, hsk]
      | epsilon =>
        by_cases hi : i = 0
        · subst hi; rw [walk_eps0 hb hc, hsp]; exact ih _ _ _ hr
        · rw [walk_eps hb hc hi, hsp, hsk]
      | branch m l =>
        by_cases hi : i ≤ 1
        · rw [walk_branch_skip hb hc hi, hsp]; exact ih _ _ _ hr
        · rw [walk_branch hb hc hi]
          dsimp only
          rw [hsp, hsp]
          apply ih
          have := (walk_within T f (some (indexValue l rest + 1)) (min (i - 1) m)
            (pos + 1 + min l rest.length) (rest.drop l)).1
          simp only [List.length_drop] at this
          omega
      | ring β l ls rs =>
        by_cases hi : i = 0
        · subst hi; rw [walk_ring_skip hb hc, hsp]; exact ih _ _ _ hr
        · rw [walk_ring hb hc hi, hsp, hsp]
          split
          · rw [hsk]
          · exact ih _ _ _ (by simp only [List.length_drop]; omega)
      | atom β mark x =>
        by_cases hi : i = 0
        · subst hi
          rw [walk_root hb hc, hsp]
          split
          · rw [hsk]; rfl
          · exact ih _ _ _ hr
        · by_cases hμ : min β (min i (cap T x)) = 0
          · rw [walk_atom_none hb hc hi hμ, hsp, hsk]
          · rw [walk_atom hb hc hi hμ, hsp]
            split
            · rw [hsk]; rfl
            · exact ih _ _ _ hr

/-- one group of records after another -/
theorem Within.append {lo mid hi : Nat} {a b : Walk} (l : List Str) (ha : Within lo mid a) (hb : Within mid hi b)
    (hlm : lo ≤ mid) (hmh : mid ≤ hi) :
    Within lo hi ⟨l, a.spans ++ b.spans, a.made ++ b.made⟩ := by
  refine ⟨?_, ?_, ?_, ?_⟩
  · intro sp hsp
    rcases List.mem_append.mp hsp with hsp | hsp
    · have := ha.spans sp hsp; omega
    · have := hb.spans sp hsp; omega
  · intro k hk
    rcases List.mem_append.mp hk with hk | hk
    · have := ha.made k hk; omega
    · have := hb.made k hk; omega
  · simp only [List.pairwise_append]
    refine ⟨ha.laminar, hb.laminar, ?_⟩
    intro x hx y hy
    have h1 := ha.spans x hx
    have h2 := hb.spans y hy
    exact ⟨by omega, .inr (by omega)⟩
  · simp only [List.pairwise_append]
    refine ⟨ha.sorted, hb.sorted, ?_⟩
    intro x hx y hy
    have h1 := ha.made x hx
    have h2 := hb.made y hy
    omega

theorem walkAll_within (T : Table) : ∀ (frags : List (List Str)) (pos : Nat),
    Within pos (pos + (frags.map List.length).sum) (walkAll T frags pos)
  | [], pos => Within.stop _ _ _
  | syms :: more, pos => by
    simp only [walkAll, List.map_cons, List.sum_cons]
    have h1 := (walk_within T (syms.length + 1) none 0 pos syms).2
    rw [walk_none T _ _ _ _ (Nat.lt_succ_self _)] at h1
    have h2 := walkAll_within T more (pos + syms.length)
    simp only [List.length_nil, Nat.sub_zero] at h1
    rw [Nat.add_assoc] at h2
    exact Within.append [] h1 h2 (by omega) (by omega)

/-! ### `encl` -/

theorem encl_append (a b : List Span) (k : Nat) : encl (a ++ b) k = encl a k ++ encl b k := by
  simp [encl]

theorem encl_cons_in {sp : Span} (l : List Span) {k : Nat} (h : sp.first ≤ k ∧ k < sp.last) :
    encl (sp :: l) k = sp.sym :: encl l k := by
  simp [encl, h]

theorem encl_cons_out {sp : Span} (l : List Span) {k : Nat} (h : ¬ (sp.first ≤ k ∧ k < sp.last)) :
    encl (sp :: l) k = encl l k := by
  simp only [encl]
  rw [List.filter_cons_of_neg (by simpa using h)]

theorem encl_out {l : List Span} {k : Nat} (h : ∀ sp ∈ l, k < sp.first ∨ sp.last ≤ k) : encl l k = [] := by
  simp only [encl, List.map_eq_nil_iff, List.filter_eq_nil_iff, decide_eq_true_eq]
  intro sp hsp
  have := h sp hsp
  omega

/-- records of an earlier group are enclosed by nothing of a later group, and conversely -/
theorem encl_append_left {lo mid hi : Nat} {a b : Walk} (ha : Within lo mid a) (hb : Within mid hi b)
    {k : Nat} (hk : k ∈ a.made) : encl (a.spans ++ b.spans) k = encl a.spans k := by
  have hk' := ha.made k hk
  rw [encl_append, encl_out (l := b.spans) (fun sp hsp => .inl (by have := hb.spans sp hsp; omega)),
    List.append_nil]

theorem encl_append_right {lo mid hi : Nat} {a b : Walk} (ha : Within lo mid a) (hb : Within mid hi b)
    {k : Nat} (hk : k ∈ b.made) : encl (a.spans ++ b.spans) k = encl b.spans k := by
  have hk' := hb.made k hk
  rw [encl_append, encl_out (l := a.spans) (fun sp hsp => .inr (by have := ha.spans sp hsp; omega)),
    List.nil_append]

/-- `encl` lists its positions in increasing order when the spans are in preorder -/
theorem encl_sorted {l : List Span} (h : l.Pairwise Span.Before) (k : Nat) : (encl l k).Pairwise (· < ·) := by
  unfold encl
  rw [List.pairwise_map]
  exact (h.filter _).imp (fun hab => hab.1)

theorem mem_encl {l : List Span} {j k : Nat} :
    j ∈ encl l k ↔ ∃ sp ∈ l, sp.sym = j ∧ sp.first ≤ k ∧ k < sp.last := by
  simp only [encl, List.mem_map, List.mem_filter, decide_eq_true_eq]
  constructor
  · rintro ⟨sp, ⟨h1, h2⟩, rfl⟩; exact ⟨sp, h1, rfl, h2⟩
  · rintro ⟨sp, h1, rfl, h2⟩; exact ⟨sp, ⟨h1, h2⟩, rfl⟩

/-- two strictly increasing lists with the same members are equal -/
theorem sorted_ext : ∀ (l1 l2 : List Nat), l1.Pairwise (· < ·) → l2.Pairwise (· < ·) →
    (∀ x, x ∈ l1 ↔ x ∈ l2) → l1 = l2
  | [], [], _, _, _ => rfl
  | [], b :: l2, _, _, h => by have := (h b).mpr List.mem_cons_self; cases this
  | a :: l1, [], _, _, h => by have := (h a).mp List.mem_cons_self; cases this
  | a :: l1, b :: l2, h1, h2, h => by
    rw [List.pairwise_cons] at h1 h2
    have hab : a = b := by
      have ha := (h a).mp List.mem_cons_self
      have hb := (h b).mpr List.mem_cons_self
      rcases List.mem_cons.mp ha with ha | ha
      · exact ha
      · rcases List.mem_cons.mp hb with hb | hb
        · exact hb.symm
        · have := h1.1 b hb
          have := h2.1 a ha
          omega
    subst hab
    congr 1
    refine sorted_ext l1 l2 h1.2 h2.2 (fun x => ⟨fun hx => ?_, fun hx => ?_⟩)
    · rcases List.mem_cons.mp ((h x).mp (List.mem_cons_of_mem _ hx)) with e | e
      · have := h1.1 x hx; omega
      · exact e
    · rcases List.mem_cons.mp ((h x).mpr (List.mem_cons_of_mem _ hx)) with e | e
      · have := h2.1 x hx; omega
      · exact e

end SV
