/-
  C10r — re-encoding stability from the reader's side.

  `f` is the (well-formed, kekulized, table-obeying) forest of an input SMILES, `f.encode` its
  SELFIES string, `finalMol f` the molecule the decoder builds from it (`C03_decode_encode`).  IF
  the library's parser reads the decoder's output string `out` back as a graph `p` with the atoms
  and roots of `finalMol f` and with adjacency rows equal to those of `finalMol f`, bond for bond
  in the same order (`readAdj`), THEN encoding `out` again gives `f.encode`.

  Proof (Proofs/ReaderEnc1–5): `p` is the graph of the REORDERED forest `f.reord` (every atom lists
  its closing ring items in written order, then its opening ring items by partner, then its chain
  children; stereo marks on non-single bonds dropped):
    1  `PForest.nodes_reord`      same atoms, same pre-order numbering
    2  `PForest.encode_reord`     same SELFIES string
    3  `PForest.wf_reord`, `kekulized_reord`, `obeys_reord`, `bdepth_reord`
    4  `graphOf_reord_adj`        rows of `graphOf f.reord` = `readAdj (finalMol f)` (from `finalMol_row`)
    5  `parsed_eq_graphOf`        a parsed graph with these atoms/roots/rows IS `graphOf f.reord`
    6  `encodePrepare_reord`      nothing to kekulize, constraints hold, no chirality flip
                                  (`decoderOrder` of a row already in decoder order is the identity)
    7  `C03_encode_graph` on `f.reord`.
-/
import SelfiesVerif.Proofs.ReaderEnc5

namespace SV

/-- **Re-encoding stability (C10), reader form.** -/
theorem reencode_of_reader (T : Table) (f : PForest) (h : f.ready T = true) (out : Str) (p : PMol)
    (tape : List Nat)
    (hp : smilesToMol out false = .ok p)
    (hatoms : p.atoms = (finalMol f).atoms) (hroots : p.roots = (finalMol f).roots)
    (hadj : p.adj = readAdj (finalMol f)) (hds : p.ds = []) :
    encoder T out true tape = .ok f.encode := by
  obtain ⟨hwf, hk, _, ho, _, hd⟩ := PForest.ready_parts h
  have hwf' := PForest.wf_reord hwf
  have hpw := (C03p_parser_forest_prop out p hp hds).2
  have hpe : p = graphOf f.reord :=
    parsed_eq_graphOf hwf' p hpw (hatoms.trans (graphOf_reord_atoms f).symm)
      (hroots.trans (graphOf_reord_roots f).symm) (hadj.trans (graphOf_reord_adj hwf hk).symm)
  rw [hpe] at hp
  rw [encoder_eq_prepare_encodeGraph, encodePrepare_reord hwf ho out tape hp]
  simp only [bind, Except.bind]
  rw [C03_encode_graph f.reord hwf' (PForest.kekulized_reord hk) (PForest.bdepth_reord f hd),
    PForest.encode_reord]

/-- the graph the encoder works on when it reads the decoder's output is the graph of the
    reordered forest, whatever the spelling (by-product of the proof) -/
theorem reader_graph_eq (T : Table) (f : PForest) (h : f.ready T = true) (out : Str) (p : PMol)
    (tape : List Nat)
    (hp : smilesToMol out false = .ok p)
    (hatoms : p.atoms = (finalMol f).atoms) (hroots : p.roots = (finalMol f).roots)
    (hadj : p.adj = readAdj (finalMol f)) (hds : p.ds = []) :
    p = graphOf f.reord ∧ encodePrepare T out true false tape = .ok p := by
  obtain ⟨hwf, hk, _, ho, _, _⟩ := PForest.ready_parts h
  have hpw := (C03p_parser_forest_prop out p hp hds).2
  have hpe : p = graphOf f.reord :=
    parsed_eq_graphOf (PForest.wf_reord hwf) p hpw (hatoms.trans (graphOf_reord_atoms f).symm)
      (hroots.trans (graphOf_reord_roots f).symm) (hadj.trans (graphOf_reord_adj hwf hk).symm)
  refine ⟨hpe, ?_⟩
  rw [hpe] at hp ⊢
  exact encodePrepare_reord hwf ho out tape hp

/-! ### non-vacuity -/

/-- `[C@]12(F)CC(C2)1` as parsed (the kernel cannot unfold the well-founded `mergeSort` inside
    `_should_invert_chirality`, so the forest is taken from the parser; by `#eval`, `encodePrepare` returns the
    same graph, the neighbour order of atom 0 is an even permutation) -/
def rdChiral : PForest := (forestOf (okOr {} (smilesToMol "[C@]12(F)CC(C2)1".toList false))).getD []

/-- `C12(F)CC2C1` (`c03Cage`): ready, the reordering really changes the forest (atom 0 writes ring 1,
    closed by atom 4, before ring 2, closed by atom 3), the decoder writes `C12(F)CC1C2`, the parser
    reads that back with the rows of `finalMol`, and the encoder returns the same SELFIES string. -/
example : PForest.ready c03T c03Cage = true ∧ c03Cage.reord ≠ c03Cage
    ∧ decoder c03T c03Cage.encode = .ok "C12(F)CC1C2".toList
    ∧ ∃ p, smilesToMol "C12(F)CC1C2".toList false = .ok p
        ∧ p.atoms = (finalMol c03Cage).atoms ∧ p.roots = (finalMol c03Cage).roots
        ∧ p.adj = readAdj (finalMol c03Cage) ∧ p.ds = [] ∧ p = graphOf c03Cage.reord
        ∧ encoder c03T "C12(F)CC1C2".toList true [] = .ok c03Cage.encode := by
  refine ⟨by decide +kernel, by decide +kernel, by decide +kernel, graphOf c03Cage.reord,
    by decide +kernel, by decide +kernel, by decide +kernel, by decide +kernel, by decide +kernel,
    rfl, by decide +kernel⟩

/-- the chiral one, `[C@]12(F)CC(C2)1`: all hypotheses hold of the real decoder output and the real
    parser, and the conclusion about `encoder` (whose chirality test the kernel cannot evaluate)
    is obtained FROM THE THEOREM -/
example : PForest.ready c03T rdChiral = true ∧ rdChiral.reord ≠ rdChiral
    ∧ decoder c03T rdChiral.encode = .ok "[C@]12(F)CC1C2".toList
    ∧ rdChiral.encode = "[C@][Branch1][C][F][C][C][Ring1][Ring2][C][Ring1][Branch1]".toList
    ∧ encoder c03T "[C@]12(F)CC1C2".toList true [] = .ok rdChiral.encode := by
  refine ⟨by decide +kernel, by decide +kernel, by decide +kernel, by decide +kernel, ?_⟩
  exact reencode_of_reader c03T rdChiral (by decide +kernel) _ (graphOf rdChiral.reord) []
    (by decide +kernel) (by decide +kernel) (by decide +kernel) (by decide +kernel) (by decide +kernel)

/-- an abstract forest with a stereo mark on a double bond (`kekulized` allows it; the parser never
    produces it): `reord` drops the mark, the encoding is the same -/
def rdMarked : PForest := [.node 0 c03C (.child 4 (some '/') (.node 1 c03C .nil) .nil)]

example : PForest.ready c03T rdMarked = true ∧ rdMarked.reord ≠ rdMarked
    ∧ rdMarked.reord.encode = rdMarked.encode ∧ rdMarked.encode = "[C][=C]".toList
    ∧ (graphOf rdMarked.reord).adj = readAdj (finalMol rdMarked) := by
  refine ⟨by decide +kernel, by decide +kernel, by decide +kernel, by decide +kernel, by decide +kernel⟩

end SV
