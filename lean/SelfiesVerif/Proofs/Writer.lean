/-
  The SMILES writer's loop (`writeLoop`, explicit stack) emits exactly the pre-order token list of
  the specification (`atomPre`, structural recursion), on every graph that satisfies the C01 graph
  invariants (`WGraph`).  Fuel accounting: one iteration per out-bond plus one per atom.
-/
import SelfiesVerif.Spec.SmilesTokens
import SelfiesVerif.Proofs.GraphSum

namespace SV

/-- The hypotheses on the graph: the conjuncts of `C01_simple_graph`, `C01_forest`,
    `C01_counts_consistent` (length of `adj`) and "no aromatic atom". -/
structure WGraph (g : Mol) : Prop where
  lenA : g.adj.length = g.atoms.length
  bonds : ∀ (k : Nat) (row : List DirBond), g.adj[k]? = some row → ∀ b ∈ row,
    b.src = k ∧ b.dst < g.atoms.length ∧ b.src ≠ b.dst ∧ 1 ≤ b.order ∧ b.order ≤ 3 ∧
    (b.ring = false → b.src < b.dst)
  nodup : ∀ (k : Nat) (row : List DirBond), g.adj[k]? = some row →
    row.Pairwise (fun b b' => b.dst ≠ b'.dst)
  mirror : ∀ (k : Nat) (row : List DirBond), g.adj[k]? = some row → ∀ b ∈ row, b.ring = true →
    ∃ row', g.adj[b.dst]? = some row' ∧ ∃ b' ∈ row',
      b'.src = b.dst ∧ b'.dst = b.src ∧ b'.order = b.order ∧ b'.ring = true
  noChainRing : ∀ (k k' : Nat) (row row' : List DirBond), g.adj[k]? = some row →
    g.adj[k']? = some row' → ∀ b ∈ row, ∀ b' ∈ row', b.ring = false → b'.ring = true →
    ¬ ((b'.src = b.src ∧ b'.dst = b.dst) ∨ (b'.src = b.dst ∧ b'.dst = b.src))
  rootsLt : ∀ r ∈ g.roots, r < g.atoms.length
  rootsSorted : g.roots.Pairwise (· < ·)
  chainIn : ∀ i, i < g.atoms.length → chainIn g.adj i = if i ∈ g.roots then 0 else 1
  nonarom : ∀ a ∈ g.atoms, a.isAromatic = false

/-! ### the primitive calls succeed -/

theorem Mol.row_eq {g : Mol} {i : Nat} (h : i < g.adj.length) : g.adj[i]? = some (g.row i) := by
  unfold Mol.row
  rw [List.getElem?_eq_getElem h]; rfl

theorem WGraph.row_get {g : Mol} (hg : WGraph g) {i : Nat} (hi : i < g.atoms.length) :
    g.adj[i]? = some (g.row i) := Mol.row_eq (by rw [hg.lenA]; exact hi)

theorem WGraph.outBonds {g : Mol} (hg : WGraph g) {i : Nat} (hi : i < g.atoms.length) :
    g.outBonds i = .ok (g.row i) := by
  unfold Mol.outBonds getIdx
  rw [hg.row_get hi]

theorem WGraph.row_bonds {g : Mol} (hg : WGraph g) {i : Nat} (hi : i < g.atoms.length) :
    ∀ b ∈ g.row i, b.src = i ∧ b.dst < g.atoms.length ∧ b.src ≠ b.dst ∧ 1 ≤ b.order ∧ b.order ≤ 3 ∧
      (b.ring = false → b.src < b.dst) :=
  hg.bonds i _ (hg.row_get hi)

theorem atomToSmiles_okW {a : Atom} (h : a.isAromatic = false) :
    atomToSmiles a = .ok (atomText a) := by
  unfold atomText
  cases h' : atomToSmiles a with
  | ok s => rfl
  | error e =>
    exfalso
    unfold atomToSmiles at h'
    rw [h] at h'
    simp only [Bool.false_eq_true, if_false] at h'
    split at h' <;> cases h'

theorem bondToSmiles_ok {b : DirBond} (h1 : 1 ≤ b.order) (h3 : b.order ≤ 3) :
    bondToSmiles b.order b.stereo = .ok (bondText b) := by
  unfold bondText
  cases h' : bondToSmiles b.order b.stereo with
  | ok s => rfl
  | error e =>
    exfalso
    unfold bondToSmiles at h'
    have : b.order = 1 ∨ b.order = 2 ∨ b.order = 3 := by omega
    rcases this with h | h | h <;> rw [h] at h' <;> simp at h'
    split at h' <;> cases h'

theorem WGraph.getAtom {g : Mol} (hg : WGraph g) {i : Nat} (hi : i < g.atoms.length) :
    ∃ a, getIdx g.atoms i = .ok a ∧ atomToSmiles a = .ok (g.atomTextAt i) := by
  refine ⟨g.atoms[i], ?_, ?_⟩
  · unfold getIdx; rw [List.getElem?_eq_getElem hi]
  · unfold Mol.atomTextAt
    rw [List.getElem?_eq_getElem hi]
    exact atomToSmiles_okW (hg.nonarom _ (List.getElem_mem hi))

/-! ### abstraction of the writer state: emitted strings and ring log -/

structure AS where
  outRev : List Str
  log : RingLog

def WState.abs (w : WState) : AS := ⟨w.outRev, w.ringLog⟩

def emitP (s : AS) : PTok → AS
  | .atom _ t => ⟨t :: s.outRev, s.log⟩
  | .bond t => ⟨t :: s.outRev, s.log⟩
  | .open_ => ⟨['('] :: s.outRev, s.log⟩
  | .close => ⟨[')'] :: s.outRev, s.log⟩
  | .ring a b =>
    ⟨natToStr (ringStep s.log a b).1 ::
      (if (ringStep s.log a b).1 ≥ 10 then ['%'] :: s.outRev else s.outRev), (ringStep s.log a b).2⟩

def emits (s : AS) (l : List PTok) : AS := l.foldl emitP s

@[simp] theorem emits_nil (s : AS) : emits s [] = s := rfl
@[simp] theorem emits_cons (s : AS) (t : PTok) (l) : emits s (t :: l) = emits (emitP s t) l := rfl
theorem emits_append (s : AS) (l1 l2) : emits s (l1 ++ l2) = emits (emits s l1) l2 := by
  simp [emits, List.foldl_append]

def closeIf (nc : Bool) : List PTok := if nc then [.close] else []

/-- number of loop iterations for a list of out-bonds (`cost c` = iterations for the subtree `c`) -/
def bondsCost (cost : Nat → Nat) : List DirBond → Nat
  | [] => 0
  | b :: rest => 1 + (if b.ring then 0 else cost b.dst) + bondsCost cost rest

/-- number of loop iterations for the subtree at atom `i` -/
def atomCost (g : Mol) : Nat → Nat → Nat
  | 0, _ => 0
  | f + 1, i => 1 + bondsCost (atomCost g f) (g.row i)

@[simp] theorem abs_push (w : WState) (t : Str) : (w.push t).abs = ⟨t :: w.abs.outRev, w.abs.log⟩ := rfl
@[simp] theorem abs_pushMap (w : WState) (t : Str) (a) (i) : (w.pushMap t a i).abs = w.abs := rfl

theorem writeLoop_nil (g : Mol) (ai F : Nat) (w : WState) : writeLoop g ai F [] w = .ok w := by
  cases F <;> rfl

end SV

namespace SV

/-! ### one iteration of the loop -/

/-- the state after the atom token (written when `bondIndex = 0`) -/
def atomPrefix (g : Mol) (ai i k : Nat) (w : WState) : WState :=
  if k = 0 then (w.push (g.atomTextAt i)).pushMap (g.atomTextAt i) ((g.atomAttr[i]?).getD none) ai else w

theorem abs_atomPrefix (g : Mol) (ai i k : Nat) (w : WState) :
    (atomPrefix g ai i k w).abs =
      emits w.abs (if k = 0 then [PTok.atom i (g.atomTextAt i)] else []) := by
  unfold atomPrefix
  split <;> rfl

/-- the state after a ring bond -/
def ringW (b : DirBond) (ai : Nat) (w0 : WState) : WState :=
  let w1 := (w0.push (bondText b)).pushMap (bondText b) b.attr ai
  let r := ringStep w1.ringLog b.src b.dst
  let w2 : WState := { w1 with ringLog := r.2 }
  let w3 := if r.1 ≥ 10 then w2.push ['%'] else w2
  w3.push (natToStr r.1)

theorem abs_ringW (b : DirBond) (ai : Nat) (w0 : WState) :
    (ringW b ai w0).abs = emits w0.abs [PTok.bond (bondText b), PTok.ring b.src b.dst] := by
  simp only [ringW, emits_cons, emits_nil, emitP, WState.abs, WState.push, WState.pushMap]
  by_cases h : (ringStep w0.ringLog b.src b.dst).1 ≥ 10
  · simp only [h, if_true]
  · simp only [h, if_false]

theorem writeLoop_pop {g : Mol} (hg : WGraph g) (ai : Nat) {i : Nat} (hi : i < g.atoms.length)
    (k t : Nat) (nc : Bool) (stk : List WFrame) (w : WState) (F : Nat) (hk : ¬ k < t) :
    writeLoop g ai (F + 1) (⟨i, k, t, nc⟩ :: stk) w =
      writeLoop g ai F stk (if nc then (atomPrefix g ai i k w).push [')'] else atomPrefix g ai i k w) := by
  obtain ⟨a, ha, hat⟩ := hg.getAtom hi
  rw [writeLoop]
  simp only [ha, hat, hg.outBonds hi, bind, Except.bind, pure, Except.pure, if_neg hk]
  unfold atomPrefix
  by_cases h0 : k = 0
  · subst h0; simp
  · simp [h0]

end SV

namespace SV

theorem writeLoop_ring {g : Mol} (hg : WGraph g) (ai : Nat) {i : Nat} (hi : i < g.atoms.length)
    (k t : Nat) (nc : Bool) (stk : List WFrame) (w : WState) (F : Nat) (hk : k < t)
    {b : DirBond} (hb : (g.row i)[k]? = some b) (hr : b.ring = true) :
    writeLoop g ai (F + 1) (⟨i, k, t, nc⟩ :: stk) w =
      writeLoop g ai F (⟨i, k + 1, t, nc⟩ :: stk) (ringW b ai (atomPrefix g ai i k w)) := by
  obtain ⟨a, ha, hat⟩ := hg.getAtom hi
  have hbm : b ∈ g.row i := List.mem_of_getElem? hb
  obtain ⟨_, _, _, o1, o3, _⟩ := hg.row_bonds hi b hbm
  have hbs := bondToSmiles_ok o1 o3
  have hgb : getIdx (g.row i) k = .ok b := by unfold getIdx; rw [hb]
  rw [writeLoop]
  simp only [ha, hat, hg.outBonds hi, bind, Except.bind, pure, Except.pure, if_pos hk, hgb, hr,
    if_true, hbs]
  by_cases h0 : k = 0
  · subst h0
    simp only [beq_self_eq_true, if_true]
    rfl
  · have : (k == 0) = false := by simp [h0]
    have hp : atomPrefix g ai i k w = w := by unfold atomPrefix; rw [if_neg h0]
    rw [hp]
    simp only [this, Bool.false_eq_true, if_false]
    rfl

/-- the state after the tokens of a chain bond -/
def chainW (b : DirBond) (ai : Nat) (notLast : Bool) (w0 : WState) : WState :=
  let w1 := if notLast then w0.push ['('] else w0
  (w1.push (bondText b)).pushMap (bondText b) b.attr ai

theorem abs_chainW (b : DirBond) (ai : Nat) (notLast : Bool) (w0 : WState) :
    (chainW b ai notLast w0).abs =
      emits w0.abs ((if notLast then [PTok.open_] else []) ++ [PTok.bond (bondText b)]) := by
  unfold chainW
  cases notLast <;> rfl

theorem writeLoop_chain {g : Mol} (hg : WGraph g) (ai : Nat) {i : Nat} (hi : i < g.atoms.length)
    (k t : Nat) (nc : Bool) (stk : List WFrame) (w : WState) (F : Nat) (hk : k < t)
    {b : DirBond} (hb : (g.row i)[k]? = some b) (hr : b.ring = false) :
    writeLoop g ai (F + 1) (⟨i, k, t, nc⟩ :: stk) w =
      writeLoop g ai F (⟨b.dst, 0, (g.row b.dst).length, decide (k + 1 < t)⟩ :: ⟨i, k + 1, t, nc⟩ :: stk)
        (chainW b ai (decide (k + 1 < t)) (atomPrefix g ai i k w)) := by
  obtain ⟨a, ha, hat⟩ := hg.getAtom hi
  have hbm : b ∈ g.row i := List.mem_of_getElem? hb
  obtain ⟨_, hd, _, o1, o3, _⟩ := hg.row_bonds hi b hbm
  have hbs := bondToSmiles_ok o1 o3
  have hgb : getIdx (g.row i) k = .ok b := by unfold getIdx; rw [hb]
  rw [writeLoop]
  simp only [ha, hat, hg.outBonds hi, hg.outBonds hd, bind, Except.bind, pure, Except.pure, if_pos hk,
    hgb, hr, hbs]
  unfold atomPrefix chainW
  by_cases h0 : k = 0
  · subst h0
    simp
  · have : (k == 0) = false := by simp [h0]
    simp [this, if_neg h0]

end SV

namespace SV

/-! ### one stack frame: the remaining out-bonds of atom `i` from position `k` -/

theorem drop_eq_cons {α} {l : List α} {k : Nat} {b : α} (h : l[k]? = some b) :
    l.drop k = b :: l.drop (k + 1) := by
  obtain ⟨hk, rfl⟩ := List.getElem?_eq_some_iff.mp h
  exact List.drop_eq_getElem_cons hk

theorem writeLoop_frame {g : Mol} (hg : WGraph g) (ai : Nat) (sub : Nat → List PTok) (cost : Nat → Nat)
    {i : Nat} (hi : i < g.atoms.length)
    (hsub : ∀ c, i < c → c < g.atoms.length →
      ∀ (nc : Bool) (stk : List WFrame) (w : WState) (F : Nat),
      ∃ w', writeLoop g ai (F + cost c) (⟨c, 0, (g.row c).length, nc⟩ :: stk) w
            = writeLoop g ai F stk w' ∧
        w'.abs = emits w.abs (sub c ++ closeIf nc)) :
    ∀ (d k : Nat), k + d = (g.row i).length →
      ∀ (nc : Bool) (stk : List WFrame) (w : WState) (F : Nat),
      ∃ w', writeLoop g ai (F + (1 + bondsCost cost ((g.row i).drop k)))
              (⟨i, k, (g.row i).length, nc⟩ :: stk) w = writeLoop g ai F stk w' ∧
        w'.abs = emits w.abs ((if k = 0 then [PTok.atom i (g.atomTextAt i)] else []) ++
          bondsPre sub ((g.row i).drop k) ++ closeIf nc) := by
  intro d
  induction d with
  | zero =>
    intro k hk nc stk w F
    have hdrop : (g.row i).drop k = [] := List.drop_eq_nil_of_le (by omega)
    rw [hdrop]
    simp only [bondsCost, bondsPre, List.append_nil, Nat.add_zero]
    rw [writeLoop_pop hg ai hi k _ nc stk w F (by omega)]
    refine ⟨_, rfl, ?_⟩
    rw [emits_append, ← abs_atomPrefix]
    cases nc <;> rfl
  | succ d ih =>
    intro k hk nc stk w F
    have hkt : k < (g.row i).length := by omega
    have hb : (g.row i)[k]? = some (g.row i)[k] := List.getElem?_eq_getElem hkt
    generalize (g.row i)[k] = b at hb
    have hbm : b ∈ g.row i := List.mem_of_getElem? hb
    obtain ⟨hs, hd, _, _, _, hlt⟩ := hg.row_bonds hi b hbm
    rw [drop_eq_cons hb]
    cases hr : b.ring with
    | true =>
      obtain ⟨w', e1, e2⟩ := ih (k + 1) (by omega) nc stk (ringW b ai (atomPrefix g ai i k w)) F
      refine ⟨w', ?_, ?_⟩
      · rw [← e1]
        simp only [bondsCost, hr, if_true, Nat.add_zero]
        have : F + (1 + (1 + bondsCost cost (List.drop (k + 1) (g.row i)))) =
            (F + (1 + bondsCost cost (List.drop (k + 1) (g.row i)))) + 1 := by omega
        rw [this, writeLoop_ring hg ai hi k _ nc stk w _ hkt hb hr]
      · rw [e2, abs_ringW, abs_atomPrefix]
        simp only [bondsPre, hr, if_true, Nat.add_one_ne_zero, if_false, List.nil_append,
          emits_append, emits_cons, emits_nil]
    | false =>
      have hlt' := hlt hr
      obtain ⟨w1, e1, e2⟩ := hsub b.dst (by omega) hd (decide (k + 1 < (g.row i).length))
        (⟨i, k + 1, (g.row i).length, nc⟩ :: stk)
        (chainW b ai (decide (k + 1 < (g.row i).length)) (atomPrefix g ai i k w))
        (F + (1 + bondsCost cost (List.drop (k + 1) (g.row i))))
      obtain ⟨w', e3, e4⟩ := ih (k + 1) (by omega) nc stk w1 F
      refine ⟨w', ?_, ?_⟩
      · rw [← e3, ← e1]
        simp only [bondsCost, hr, Bool.false_eq_true, if_false]
        have : F + (1 + (1 + cost b.dst + bondsCost cost (List.drop (k + 1) (g.row i)))) =
            (F + (1 + bondsCost cost (List.drop (k + 1) (g.row i))) + cost b.dst) + 1 := by omega
        rw [this, writeLoop_chain hg ai hi k _ nc stk w _ hkt hb hr]
      · rw [e4, e2, abs_chainW, abs_atomPrefix]
        simp only [bondsPre, hr, Bool.false_eq_true, if_false, Nat.add_one_ne_zero, List.nil_append]
        by_cases hlast : k + 1 < (g.row i).length
        · have hne : (List.drop (k + 1) (g.row i)).isEmpty = false := by
            cases hdr : List.drop (k + 1) (g.row i) with
            | nil => have := List.drop_eq_nil_iff.mp hdr; omega
            | cons _ _ => rfl
          simp only [hlast, decide_true, if_true, hne, Bool.false_eq_true, if_false, closeIf,
            emits_append, emits_cons, emits_nil, List.cons_append, List.nil_append, List.append_assoc]
        · have hnil : List.drop (k + 1) (g.row i) = [] := List.drop_eq_nil_of_le (by omega)
          simp only [hlast, decide_false, Bool.false_eq_true, if_false, if_true, closeIf,
            emits_append, emits_cons, emits_nil, List.nil_append, List.append_nil,
            hnil, bondsPre, List.isEmpty_nil]

end SV

namespace SV

/-- **Simulation.**  Started on a fresh frame for atom `i`, the loop runs `atomCost` iterations, pops
    the frame and has emitted exactly the pre-order tokens of the subtree at `i` (and `)` if the
    frame needs closing). -/
theorem writeLoop_atom {g : Mol} (hg : WGraph g) (ai : Nat) :
    ∀ (f i : Nat), i < g.atoms.length → g.atoms.length ≤ f + i →
      ∀ (nc : Bool) (stk : List WFrame) (w : WState) (F : Nat),
      ∃ w', writeLoop g ai (F + atomCost g f i) (⟨i, 0, (g.row i).length, nc⟩ :: stk) w
            = writeLoop g ai F stk w' ∧
        w'.abs = emits w.abs (atomPre g f i ++ closeIf nc) := by
  intro f
  induction f with
  | zero => intro i h1 h2; omega
  | succ f ih =>
    intro i h1 h2 nc stk w F
    have := writeLoop_frame hg ai (atomPre g f) (atomCost g f) h1
      (fun c hc1 hc2 => ih c hc2 (by omega)) (g.row i).length 0 (by omega) nc stk w F
    simpa only [List.drop_zero, if_true, atomCost, atomPre, List.cons_append, List.nil_append] using this

/-- a whole fragment -/
theorem writeLoop_root {g : Mol} (hg : WGraph g) (ai : Nat) {r : Nat} (hr : r < g.atoms.length)
    (w : WState) (F : Nat) (hF : atomCost g g.atoms.length r ≤ F) :
    ∃ w', writeLoop g ai F [⟨r, 0, (g.row r).length, false⟩] w = .ok w' ∧
      w'.abs = emits w.abs (specPre g r) := by
  obtain ⟨w', e1, e2⟩ := writeLoop_atom hg ai g.atoms.length r hr (by omega) false [] w
    (F - atomCost g g.atoms.length r)
  refine ⟨w', ?_, ?_⟩
  · rw [← writeLoop_nil g ai (F - atomCost g g.atoms.length r) w', ← e1]
    congr 1; omega
  · rw [e2]; simp [closeIf, specPre]

end SV
