/-
  C10r (re-encoding stability), part 1: the REORDERED forest.

  `Tree.reord` rearranges the items of every atom the way the decoder + writer + reader do:
  closing ring items in written order, opening ring items by increasing partner, chain children in
  written order (subtrees reordered recursively); the stereo mark of a bond whose order is not 1
  is dropped (`normS`).  Pre-order numbering is unchanged; this file has the definitions and the
  purely structural facts (nodes, rows, ring items, `hasKid`, `bdepth`).
-/
import SelfiesVerif.Props.C03p
import SelfiesVerif.Props.C04
import SelfiesVerif.Proofs.ReaderDefs

namespace SV

/-- a ring item `(partner, order2, sHere, sThere)` -/
abbrev RItem := Nat × Nat × Option Char × Option Char

/-- a ring closure `(opener, closer, order2, stereo at opener, stereo at closer)` -/
abbrev RClose := Nat × Nat × Nat × Option Char × Option Char

/-- only a single bond keeps its stereo mark through writer and reader -/
def normS (o : Nat) (s : Option Char) : Option Char := if o = 2 then s else none

def normR (r : RItem) : RItem := (r.1, r.2.1, normS r.2.1 r.2.2.1, normS r.2.1 r.2.2.2)

def normC (c : RClose) : RClose :=
  (c.1, c.2.1, c.2.2.1, normS c.2.2.1 c.2.2.2.1, normS c.2.2.1 c.2.2.2.2)

def normB (b : PBond) : PBond := { b with stereo := normS b.order2 b.stereo }

/-- insertion sort of ring items by partner index -/
def insR (x : RItem) : List RItem → List RItem
  | [] => [x]
  | y :: l => if x.1 ≤ y.1 then x :: y :: l else y :: insR x l

def sortR : List RItem → List RItem
  | [] => []
  | x :: l => insR x (sortR l)

/-- closing ring items in written order, then the opening ones by increasing partner -/
def arrange (i : Nat) (rs : List RItem) : List RItem :=
  (rs.filter fun r => !decide (i < r.1)) ++ sortR (rs.filter fun r => decide (i < r.1))

/-- put ring items in front of an item list -/
def ringsOnto : List RItem → Items → Items
  | [], k => k
  | r :: l, k => .ring r.1 r.2.1 r.2.2.1 r.2.2.2 (ringsOnto l k)

mutual
/-- the reordered tree -/
def Tree.reord : Tree → Tree
  | .node i a its => .node i a (ringsOnto (arrange i (its.rings.map normR)) its.reordKids)
/-- the chain children of an item list, subtrees reordered, stereo marks normalised -/
def Items.reordKids : Items → Items
  | .nil => .nil
  | .ring _ _ _ _ rest => rest.reordKids
  | .child o s t rest => .child o (normS o s) t.reord rest.reordKids
end

def Items.reordAt (i : Nat) (its : Items) : Items :=
  ringsOnto (arrange i (its.rings.map normR)) its.reordKids

def PForest.reord (f : PForest) : PForest := f.map Tree.reord

def NodeInfo.reord (n : NodeInfo) : NodeInfo :=
  ⟨n.into.map normB, n.idx, n.atom, n.items.reordAt n.idx⟩

/-! ### sorting -/

theorem insR_perm (x : RItem) : ∀ l : List RItem, (insR x l).Perm (x :: l)
  | [] => List.Perm.refl _
  | y :: l => by
    simp only [insR]
    split
    · exact List.Perm.refl _
    · exact ((insR_perm x l).cons y).trans (List.Perm.swap x y l)

theorem sortR_perm : ∀ l : List RItem, (sortR l).Perm l
  | [] => List.Perm.refl _
  | x :: l => (insR_perm x (sortR l)).trans ((sortR_perm l).cons x)

theorem insR_sorted (x : RItem) : ∀ l : List RItem, l.Pairwise (fun a b => a.1 ≤ b.1) →
    (insR x l).Pairwise (fun a b => a.1 ≤ b.1)
  | [], _ => List.pairwise_singleton _ _
  | y :: l, h => by
    simp only [insR]
    split
    · rename_i hxy
      refine List.pairwise_cons.2 ⟨?_, h⟩
      intro z hz
      rcases List.mem_cons.1 hz with rfl | hz
      · exact hxy
      · exact Nat.le_trans hxy ((List.pairwise_cons.1 h).1 z hz)
    · rename_i hxy
      refine List.pairwise_cons.2 ⟨?_, insR_sorted x l (List.pairwise_cons.1 h).2⟩
      intro z hz
      rcases List.mem_cons.1 ((insR_perm x l).subset hz) with rfl | hz
      · omega
      · exact (List.pairwise_cons.1 h).1 z hz

theorem sortR_sorted : ∀ l : List RItem, (sortR l).Pairwise (fun a b => a.1 ≤ b.1)
  | [] => List.Pairwise.nil
  | x :: l => insR_sorted x _ (sortR_sorted l)

theorem filter_eq_self_of_perm {α} (p : α → Bool) {l l' : List α} (h : l'.Perm l)
    (hp : ∀ a ∈ l, p a = true) : l'.filter p = l' :=
  List.filter_eq_self.2 fun a ha => hp a (h.subset ha)

theorem filter_eq_nil_of_perm {α} (p : α → Bool) {l l' : List α} (h : l'.Perm l)
    (hp : ∀ a ∈ l, p a = false) : l'.filter p = [] :=
  List.filter_eq_nil_iff.2 fun a ha => by simp [hp a (h.subset ha)]

theorem arrange_closing (i : Nat) (rs : List RItem) :
    (arrange i rs).filter (fun r => !decide (i < r.1)) = rs.filter fun r => !decide (i < r.1) := by
  unfold arrange
  rw [List.filter_append, List.filter_filter]
  rw [filter_eq_nil_of_perm _ (sortR_perm _) (fun a ha => by
    have := (List.mem_filter.1 ha).2
    simpa using this)]
  simp

theorem arrange_opening (i : Nat) (rs : List RItem) :
    (arrange i rs).filter (fun r => decide (i < r.1)) = sortR (rs.filter fun r => decide (i < r.1)) := by
  unfold arrange
  rw [List.filter_append, List.filter_filter]
  rw [filter_eq_self_of_perm _ (sortR_perm _) (fun a ha => (List.mem_filter.1 ha).2)]
  have : rs.filter (fun a => decide (i < a.1) && !decide (i < a.1)) = [] :=
    List.filter_eq_nil_iff.2 fun a _ => by simp
  rw [this, List.nil_append]

theorem arrange_perm (i : Nat) (rs : List RItem) : (arrange i rs).Perm rs := by
  unfold arrange
  refine (List.Perm.append_left _ (sortR_perm _)).trans ?_
  have := List.filter_append_perm (fun r : RItem => decide (i < r.1)) rs
  exact List.perm_append_comm.trans this

/-! ### normalisation -/

@[simp] theorem normR_fst (r : RItem) : (normR r).1 = r.1 := rfl
@[simp] theorem normR_ord (r : RItem) : (normR r).2.1 = r.2.1 := rfl
@[simp] theorem normB_src (b : PBond) : (normB b).src = b.src := rfl
@[simp] theorem normB_dst (b : PBond) : (normB b).dst = b.dst := rfl
@[simp] theorem normB_order2 (b : PBond) : (normB b).order2 = b.order2 := rfl
@[simp] theorem normB_ring (b : PBond) : (normB b).ring = b.ring := rfl
@[simp] theorem normB_stereo (b : PBond) : (normB b).stereo = normS b.order2 b.stereo := rfl

theorem normS_idem (o : Nat) (s : Option Char) : normS o (normS o s) = normS o s := by
  unfold normS; split <;> rfl

theorem okStereo_normS (o : Nat) (s : Option Char) (h : okStereo s) : okStereo (normS o s) := by
  unfold normS; split
  · exact h
  · exact Or.inl rfl

theorem filter_map_normR (p : Nat → Bool) (rs : List RItem) :
    (rs.map normR).filter (fun r => p r.1) = (rs.filter fun r => p r.1).map normR := by
  rw [List.filter_map]
  rfl

/-! ### structure of the reordered items -/

/-- the row record of a ring item -/
def rbOf (i : Nat) (r : RItem) : PBond := ringBond i r.1 r.2.1 r.2.2.1

def openOf (i : Nat) (r : RItem) : RClose := (i, r.1, r.2.1, r.2.2.1, r.2.2.2)
def closeOf (i : Nat) (r : RItem) : RClose := (r.1, i, r.2.1, r.2.2.2, r.2.2.1)

theorem Tree.reord_idx : ∀ t : Tree, t.reord.idx = t.idx
  | .node _ _ _ => by simp [Tree.reord, Tree.idx]

theorem Tree.reord_atom : ∀ t : Tree, t.reord.atom = t.atom
  | .node _ _ _ => by simp [Tree.reord, Tree.atom]

theorem Tree.reord_items : ∀ t : Tree, t.reord.items = t.items.reordAt t.idx
  | .node _ _ _ => by simp [Tree.reord, Tree.items, Tree.idx, Items.reordAt]

theorem ringsOnto_nodes (i : Nat) : ∀ (l : List RItem) (k : Items), (ringsOnto l k).nodes i = k.nodes i
  | [], _ => rfl
  | r :: l, k => by simp only [ringsOnto, Items.nodes]; exact ringsOnto_nodes i l k

theorem ringsOnto_row (i : Nat) : ∀ (l : List RItem) (k : Items),
    (ringsOnto l k).row i = l.map (rbOf i) ++ k.row i
  | [], _ => rfl
  | r :: l, k => by
    simp only [ringsOnto, Items.row, List.map_cons, List.cons_append, ringsOnto_row i l k]; rfl

theorem ringsOnto_rings : ∀ (l : List RItem) (k : Items), (ringsOnto l k).rings = l ++ k.rings
  | [], _ => rfl
  | r :: l, k => by simp only [ringsOnto, Items.rings, List.cons_append, ringsOnto_rings l k]

theorem ringsOnto_hasKid : ∀ (l : List RItem) (k : Items), (ringsOnto l k).hasKid = k.hasKid
  | [], _ => rfl
  | r :: l, k => by simp only [ringsOnto, Items.hasKid, ringsOnto_hasKid l k]

theorem ringsOnto_bdepth : ∀ (l : List RItem) (k : Items), (ringsOnto l k).bdepth = k.bdepth
  | [], _ => rfl
  | r :: l, k => by simp only [ringsOnto, Items.bdepth, ringsOnto_bdepth l k]

theorem ringsOnto_encKids (i : Nat) : ∀ (l : List RItem) (k : Items),
    (ringsOnto l k).encKids i = k.encKids i
  | [], _ => rfl
  | r :: l, k => by simp only [ringsOnto, Items.encKids, ringsOnto_encKids i l k]

theorem Items.reordKids_rings : ∀ its : Items, its.reordKids.rings = []
  | .nil => rfl
  | .ring _ _ _ _ rest => by simp only [Items.reordKids]; exact Items.reordKids_rings rest
  | .child _ _ _ rest => by simp only [Items.reordKids, Items.rings]; exact Items.reordKids_rings rest

theorem Items.reordKids_hasKid : ∀ its : Items, its.reordKids.hasKid = its.hasKid
  | .nil => rfl
  | .ring _ _ _ _ rest => by simp only [Items.reordKids, Items.hasKid]; exact Items.reordKids_hasKid rest
  | .child _ _ _ _ => rfl

theorem Items.reordKids_row (i : Nat) : ∀ its : Items, its.reordKids.row i = (its.kidRow i).map normB
  | .nil => rfl
  | .ring _ _ _ _ rest => by simp only [Items.reordKids, Items.kidRow]; exact Items.reordKids_row i rest
  | .child o s t rest => by
    simp only [Items.reordKids, Items.kidRow, Items.row, List.map_cons, Items.reordKids_row i rest,
      Tree.reord_idx]
    rfl

theorem Items.reordAt_rings (i : Nat) (its : Items) :
    (its.reordAt i).rings = arrange i (its.rings.map normR) := by
  unfold Items.reordAt
  rw [ringsOnto_rings, Items.reordKids_rings, List.append_nil]

theorem Items.reordAt_row (i : Nat) (its : Items) :
    (its.reordAt i).row i = (arrange i (its.rings.map normR)).map (rbOf i) ++ (its.kidRow i).map normB := by
  unfold Items.reordAt
  rw [ringsOnto_row, Items.reordKids_row]

theorem Items.reordAt_hasKid (i : Nat) (its : Items) : (its.reordAt i).hasKid = its.hasKid := by
  unfold Items.reordAt
  rw [ringsOnto_hasKid, Items.reordKids_hasKid]

/-! ### nodes -/

mutual
theorem Tree.nodes_reord : ∀ (t : Tree) (into : Option PBond),
    t.reord.nodes (into.map normB) = (t.nodes into).map NodeInfo.reord
  | .node i a its, into => by
    simp only [Tree.reord, Tree.nodes, List.map_cons, ringsOnto_nodes, Items.nodes_reordKids its i]
    rfl
theorem Items.nodes_reordKids : ∀ (its : Items) (i : Nat),
    its.reordKids.nodes i = (its.nodes i).map NodeInfo.reord
  | .nil, _ => rfl
  | .ring _ _ _ _ rest, i => by
    simp only [Items.reordKids, Items.nodes]; exact Items.nodes_reordKids rest i
  | .child o s t rest, i => by
    simp only [Items.reordKids, Items.nodes, List.map_append, Tree.reord_idx]
    rw [Items.nodes_reordKids rest i]
    have := Tree.nodes_reord t (some (chainBond i t.idx o s))
    simp only [Option.map_some] at this
    rw [← this]
    rfl
end

/-- **Nodes of the reordered forest**: the same atoms with the same indices; items reordered,
    stereo marks normalised. -/
theorem PForest.nodes_reord (f : PForest) : f.reord.nodes = f.nodes.map NodeInfo.reord := by
  unfold PForest.reord PForest.nodes
  rw [List.flatMap_map, List.map_flatMap]
  congr 1
  funext t
  exact Tree.nodes_reord t none

theorem NodeInfo.reord_row (n : NodeInfo) :
    n.reord.row = (arrange n.idx (n.items.rings.map normR)).map (rbOf n.idx)
      ++ (n.items.kidRow n.idx).map normB :=
  Items.reordAt_row n.idx n.items

/-! ### depth -/

mutual
theorem Tree.bdepth_reord : ∀ t : Tree, t.reord.bdepth = t.bdepth
  | .node i a its => by
    simp only [Tree.reord, Tree.bdepth, ringsOnto_bdepth]; exact Items.bdepth_reordKids its
theorem Items.bdepth_reordKids : ∀ its : Items, its.reordKids.bdepth = its.bdepth
  | .nil => rfl
  | .ring _ _ _ _ rest => by simp only [Items.reordKids, Items.bdepth]; exact Items.bdepth_reordKids rest
  | .child o s t rest => by
    simp only [Items.reordKids, Items.bdepth, Items.reordKids_hasKid, Tree.bdepth_reord t,
      Items.bdepth_reordKids rest]
end

/-! ### ring items through `Items.rings` -/

theorem Items.opens_eq (i : Nat) : ∀ its : Items,
    its.opens i = (its.rings.filter fun r => decide (i < r.1)).map (openOf i)
  | .nil => rfl
  | .child _ _ _ rest => by simp only [Items.opens, Items.rings]; exact Items.opens_eq i rest
  | .ring p o s s' rest => by
    simp only [Items.opens, Items.rings, List.filter_cons]
    by_cases h : i < p
    · simp only [h, if_true, decide_true, List.map_cons, Items.opens_eq i rest]; rfl
    · simp only [h, if_false, decide_false, Bool.false_eq_true, Items.opens_eq i rest]

theorem Items.closes_eq (i : Nat) : ∀ its : Items,
    its.closes i = (its.rings.filter fun r => !decide (i < r.1)).map (closeOf i)
  | .nil => rfl
  | .child _ _ _ rest => by simp only [Items.closes, Items.rings]; exact Items.closes_eq i rest
  | .ring p o s s' rest => by
    simp only [Items.closes, Items.rings, List.filter_cons]
    by_cases h : i < p
    · simp only [h, if_true, decide_true, Bool.not_true, Bool.false_eq_true, if_false,
        Items.closes_eq i rest]
    · simp only [h, if_false, decide_false, Bool.not_false, if_true, List.map_cons,
        Items.closes_eq i rest]; rfl

theorem Items.encRings_eq (i : Nat) : ∀ its : Items,
    its.encRings i = (its.rings.filter fun r => !decide (i < r.1)).flatMap
      fun r => ringSyms i r.1 r.2.1 r.2.2.1 r.2.2.2
  | .nil => rfl
  | .child _ _ _ rest => by simp only [Items.encRings, Items.rings]; exact Items.encRings_eq i rest
  | .ring p o s s' rest => by
    simp only [Items.encRings, Items.rings, List.filter_cons]
    by_cases h : i < p
    · simp only [h, if_true, decide_true, Bool.not_true, Bool.false_eq_true, if_false,
        Items.encRings_eq i rest]
    · simp only [h, if_false, decide_false, Bool.not_false, if_true, List.flatMap_cons,
        Items.encRings_eq i rest]

theorem Items.ringRow_eq (i : Nat) : ∀ its : Items, its.ringRow i = its.rings.map (rbOf i)
  | .nil => rfl
  | .child _ _ _ rest => by simp only [Items.ringRow, Items.rings]; exact Items.ringRow_eq i rest
  | .ring p o s s' rest => by
    simp only [Items.ringRow, Items.rings, List.map_cons, Items.ringRow_eq i rest]; rfl

theorem openOf_normR (i : Nat) (r : RItem) : openOf i (normR r) = normC (openOf i r) := rfl
theorem closeOf_normR (i : Nat) (r : RItem) : closeOf i (normR r) = normC (closeOf i r) := rfl
theorem rbOf_normR (i : Nat) (r : RItem) : rbOf i (normR r) = normB (rbOf i r) := rfl

/-- the closing ring items keep their written order -/
theorem Items.reordAt_closes (i : Nat) (its : Items) :
    (its.reordAt i).closes i = (its.closes i).map normC := by
  rw [Items.closes_eq, Items.closes_eq, Items.reordAt_rings, arrange_closing,
    filter_map_normR (fun p => !decide (i < p)), List.map_map, List.map_map]
  rfl

/-- the opening ring items are permuted -/
theorem Items.reordAt_opens (i : Nat) (its : Items) :
    ((its.reordAt i).opens i).Perm ((its.opens i).map normC) := by
  rw [Items.opens_eq, Items.opens_eq, Items.reordAt_rings, arrange_opening,
    filter_map_normR (fun p => decide (i < p))]
  refine ((sortR_perm _).map _).trans (List.Perm.of_eq ?_)
  rw [List.map_map, List.map_map]
  rfl

/-- the row of a reordered node is a permutation of the normalised old row -/
theorem NodeInfo.reord_row_perm (n : NodeInfo) : n.reord.row.Perm (n.row.map normB) := by
  rw [NodeInfo.reord_row]
  have hsplit : n.row.Perm (n.items.ringRow n.idx ++ n.items.kidRow n.idx) := by
    have := List.filter_append_perm (fun b : PBond => b.ring) n.row
    unfold NodeInfo.row at this ⊢
    rw [Items.filter_ring_row] at this
    simp only [Items.filter_chain_row] at this
    exact this.symm
  refine List.Perm.trans ?_ (hsplit.map normB).symm
  rw [List.map_append]
  refine List.Perm.append_right _ ?_
  refine ((arrange_perm _ _).map _).trans (List.Perm.of_eq ?_)
  rw [Items.ringRow_eq, List.map_map, List.map_map]
  rfl

end SV
