/-
  C05: the `while unmatched:` loop of `find_perfect_matching`.
  * if every augmenting path found is simple, the result is a perfect matching;
  * on bipartite graphs every path found is simple.
-/
import SelfiesVerif.Proofs.AugPath

namespace SV

/-! ### the inner vertices of an alternating path are matched -/

theorem AltTail.unmatched_last {g : Graph} {m : Matching} (hv : ValidPartial g m) :
    ∀ (b : Nat) (rest : List Nat), AltTail g m b rest →
    ∀ x ∈ b :: rest, m[x]? = some none → (b :: rest).getLast? = some x
  | b, [], _ => by intro x hx _; simp at hx; subst hx; rfl
  | _, [_], h => h.elim
  | b, c :: d :: rest, h => by
    intro x hx hn
    simp only [List.mem_cons] at hx
    rw [List.getLast?_cons_cons, List.getLast?_cons_cons]
    rcases hx with rfl | rfl | hx
    · rw [h.1] at hn; cases hn
    · rw [(hv.matched _ _ h.1).2.2] at hn; cases hn
    · exact AltTail.unmatched_last hv d rest h.2.2 x (by simpa using hx) hn

theorem AugPath.unmatched_ends {g : Graph} {m : Matching} (hv : ValidPartial g m) {path : List Nat}
    (hp : AugPath g m path) :
    ∀ x ∈ path, m[x]? = some none → path.head? = some x ∨ path.getLast? = some x := by
  match path, hp with
  | a :: b :: rest, hp =>
    intro x hx hn
    simp only [List.mem_cons] at hx
    rcases hx with rfl | hx
    · exact Or.inl rfl
    · right
      rw [List.getLast?_cons_cons]
      exact AltTail.unmatched_last hv b rest hp.2.2 x (by simpa using hx) hn

/-! ### soundness of the loop with the simplicity assertion -/

theorem augmentLoopSimple_sound {g : Graph} (hg : GraphOK g) :
    ∀ (fuel : Nat) (unmatched tape : List Nat) (m r : Matching),
    ValidPartial g m → (∀ i : Nat, i ∈ unmatched ↔ m[i]? = some none) →
    augmentLoopSimple g fuel unmatched tape m = .ok (some r) → PerfectMatching g r := by
  intro fuel
  have hdone : ∀ (unmatched : List Nat) (m : Matching), ValidPartial g m →
      (∀ i : Nat, i ∈ unmatched ↔ m[i]? = some none) → unmatched.isEmpty = true → PerfectMatching g m := by
    intro unmatched m hv hu he
    refine ⟨hv, fun i hi => ?_⟩
    have := (hu i).2 hi
    rw [List.isEmpty_iff] at he
    rw [he] at this; cases this
  induction fuel with
  | zero =>
    intro unmatched tape m r hv hu h
    simp only [augmentLoopSimple] at h
    split at h
    · cases h; exact hdone _ _ hv hu ‹_›
    · cases h
  | succ fuel ih =>
    intro unmatched tape m r hv hu h
    simp only [augmentLoopSimple] at h
    split at h
    · cases h; exact hdone _ _ hv hu ‹_›
    · split at h
      · cases h
      · rename_i root tape'
        split at h
        · cases h
        · simp only [bind, Except.bind] at h
          split at h
          · cases h
          · rename_i res hres
            split at h
            · cases h
            · rename_i path
              obtain ⟨hroot, hap, hlast, ⟨e, hhead, hne⟩, _, _⟩ := findAugmentingPath_spec hv hres
              split at h
              · cases h
              · rename_i hassert
                have hnd : path.Nodup := by
                  simp only [pyAssert] at hassert
                  split at hassert
                  · rename_i hd; exact of_decide_eq_true hd
                  · cases hassert
                obtain ⟨m', hf1, hf2, hf3, hf4⟩ := flipPath_valid hg hv hap hnd
                rw [hf1] at h
                simp only at h
                refine ih _ _ _ _ hf2 ?_ h
                intro i
                simp only [List.mem_filter, bne_iff_ne, ne_eq, Bool.not_eq_true',
                  Bool.or_eq_false_iff, beq_eq_false_iff_ne]
                constructor
                · rintro ⟨⟨hi, _⟩, hh, hl⟩
                  have hmi := (hu i).1 hi
                  have : i ∉ path := by
                    intro hip
                    rcases hap.unmatched_ends hv i hip hmi with h' | h'
                    · exact hh h'.symm
                    · exact hl h'.symm
                  rw [hf4 i this]; exact hmi
                · intro hmi
                  have hip : i ∉ path := by
                    intro hip
                    obtain ⟨y, hy, _⟩ := pairs_partner hg path hap.pairsAdj hf3 i hip
                    rw [hy] at hmi; cases hmi
                  rw [hf4 i hip] at hmi
                  refine ⟨⟨(hu i).2 hmi, ?_⟩, ?_, ?_⟩
                  · intro e'; subst e'
                    exact hip (List.mem_of_getLast? hlast)
                  · intro e'
                    exact hip (List.mem_of_head? e'.symm)
                  · intro e'
                    exact hip (List.mem_of_getLast? e'.symm)

/-- the checked loop only ever fails more often than the real one -/
theorem augmentLoopSimple_agrees {g : Graph} : ∀ (fuel : Nat) (unmatched tape : List Nat) (m : Matching)
    (r : Option Matching),
    augmentLoopSimple g fuel unmatched tape m = .ok r → augmentLoop g fuel unmatched tape m = .ok r := by
  intro fuel
  induction fuel with
  | zero => intro unmatched tape m r h; simpa only [augmentLoopSimple, augmentLoop] using h
  | succ fuel ih =>
    intro unmatched tape m r h
    cases tape with
    | nil => simpa only [augmentLoopSimple, augmentLoop] using h
    | cons root tape =>
      simp only [augmentLoopSimple] at h
      simp only [augmentLoop]
      split at h
      · rename_i he; rw [if_pos he]; exact h
      · rename_i he; rw [if_neg he]
        split at h
        · cases h
        · rename_i hc; rw [if_neg hc]
          simp only [bind, Except.bind] at h ⊢
          cases hres : findAugmentingPath g root m with
          | error e => rw [hres] at h; cases h
          | ok res =>
            rw [hres] at h
            cases res with
            | none => exact h
            | some path =>
              simp only at h ⊢
              split at h
              · cases h
              · split at h
                · cases h
                · rename_i m' hm'
                  exact ih _ _ _ _ h

theorem findPerfectMatchingSimple_agrees {g : Graph} {tape : List Nat} {r : Option Matching}
    (h : findPerfectMatchingSimple g tape = .ok r) : findPerfectMatching g tape = .ok r := by
  simp only [findPerfectMatchingSimple, findPerfectMatching, bind, Except.bind] at h ⊢
  cases hm : greedyMatching g with
  | error e => rw [hm] at h; cases h
  | ok m =>
    rw [hm] at h
    exact augmentLoopSimple_agrees _ _ _ _ _ h

theorem unmatched_list_spec (m : Matching) (n : Nat) (hn : m.length = n) (i : Nat) :
    i ∈ (List.range n).filter (fun i => (m.getD i none).isNone) ↔ m[i]? = some none := by
  simp only [List.mem_filter, List.mem_range, List.getD_eq_getElem?_getD]
  constructor
  · rintro ⟨hi, h⟩
    rw [List.getElem?_eq_getElem (hn ▸ hi)] at h ⊢
    simp only [Option.getD_some] at h
    cases hx : m[i] with
    | none => rfl
    | some _ => rw [hx] at h; cases h
  · intro h
    exact ⟨hn ▸ lt_of_getElem?_some h, by rw [h]; rfl⟩

theorem findPerfectMatchingSimple_sound {g : Graph} (hg : GraphOK g) {tape : List Nat} {r : Matching}
    (h : findPerfectMatchingSimple g tape = .ok (some r)) : PerfectMatching g r := by
  simp only [findPerfectMatchingSimple, bind, Except.bind] at h
  split at h
  · cases h
  · rename_i m hm
    have hv := greedyMatching_valid hg hm
    exact augmentLoopSimple_sound hg _ _ _ _ _ hv (unmatched_list_spec m _ hv.length_eq) h

/-! ### bipartite graphs: every path the BFS returns is simple -/

theorem mem_evens_or_odds : ∀ (l : List Nat) (x : Nat), x ∈ l → x ∈ evens l ∨ x ∈ odds l
  | [], _, h => by cases h
  | [a], x, h => by simp [evens] at *; exact Or.inl h
  | a :: b :: rest, x, h => by
    simp only [List.mem_cons] at h
    simp only [evens, odds, List.mem_cons]
    rcases h with rfl | rfl | h
    · exact Or.inl (Or.inl rfl)
    · exact Or.inr (Or.inl rfl)
    · rcases mem_evens_or_odds rest x h with h' | h'
      · exact Or.inl (Or.inr h')
      · exact Or.inr (Or.inr h')

theorem nodup_of_evens_odds : ∀ (l : List Nat), (evens l).Nodup → (odds l).Nodup →
    (∀ x ∈ evens l, x ∉ odds l) → l.Nodup
  | [], _, _, _ => List.nodup_nil
  | [a], _, _, _ => by simp
  | a :: b :: rest, he, ho, hd => by
    simp only [evens, odds, List.nodup_cons] at he ho
    have ih := nodup_of_evens_odds rest he.2 ho.2
      (fun x hx hx' => hd x (by simp [evens, hx]) (by simp [odds, hx']))
    have hab : a ≠ b := fun e => hd a (by simp [evens]) (by simp [odds, e])
    refine List.nodup_cons.2 ⟨?_, List.nodup_cons.2 ⟨?_, ih⟩⟩
    · simp only [List.mem_cons, not_or]
      refine ⟨hab, fun h => ?_⟩
      rcases mem_evens_or_odds rest a h with h' | h'
      · exact he.1 h'
      · exact hd a (by simp [evens]) (by simp [odds, h'])
    · intro h
      rcases mem_evens_or_odds rest b h with h' | h'
      · exact hd b (by simp [evens, h']) (by simp [odds])
      · exact ho.1 h'

/-- the even-position vertices after `b` are the mates of `b` and the odd-position vertices -/
theorem AltTail.evens_mates {g : Graph} {m : Matching} (hv : ValidPartial g m) :
    ∀ (b : Nat) (rest : List Nat), AltTail g m b rest →
    ∀ c ∈ evens rest, ∃ b' ∈ b :: odds rest, m[c]? = some (some b')
  | _, [], _ => by simp [evens]
  | _, [_], h => h.elim
  | b, c :: d :: rest, h => by
    intro x hx
    simp only [evens, List.mem_cons] at hx
    rcases hx with rfl | hx
    · exact ⟨b, by simp, (hv.matched _ _ h.1).2.2⟩
    · obtain ⟨b', hb', h'⟩ := AltTail.evens_mates hv d rest h.2.2 x hx
      exact ⟨b', by simp only [odds]; exact List.mem_cons_of_mem _ hb', h'⟩

theorem AltTail.nodup_evens {g : Graph} {m : Matching} (hv : ValidPartial g m) :
    ∀ (b : Nat) (rest : List Nat), AltTail g m b rest → (b :: odds rest).Nodup → (evens rest).Nodup
  | _, [], _, _ => by simp [evens]
  | _, [_], h, _ => h.elim
  | b, c :: d :: rest, h, hnd => by
    simp only [odds] at hnd
    have hnd' := List.nodup_cons.1 hnd
    simp only [evens]
    refine List.nodup_cons.2 ⟨?_, AltTail.nodup_evens hv d rest h.2.2 hnd'.2⟩
    intro hc
    obtain ⟨b', hb', h'⟩ := AltTail.evens_mates hv d rest h.2.2 c hc
    rw [(hv.matched _ _ h.1).2.2] at h'
    cases h'
    exact hnd'.1 hb'

theorem PairsAdj.evens_adj {g : Graph} : ∀ (l : List Nat), PairsAdj g l →
    ∀ x ∈ evens l, ∃ y ∈ odds l, Adj g y x
  | [], _ => by simp [evens]
  | [_], h => h.elim
  | a :: b :: rest, h => by
    intro x hx
    simp only [evens, List.mem_cons] at hx
    rcases hx with rfl | hx
    · exact ⟨b, by simp [odds], h.1⟩
    · obtain ⟨y, hy, h'⟩ := PairsAdj.evens_adj rest h.2 x hx
      exact ⟨y, by simp [odds, hy], h'⟩

theorem Outer.colour {g : Graph} {m : Matching} {root : Nat} (hv : ValidPartial g m)
    {c : Nat → Bool} (hc : ∀ i j, Adj g i j → c i ≠ c j) {x : Nat} (h : Outer g m root x) :
    c x = c root := by
  induction h with
  | root => rfl
  | @step node adj am _ h2 h3 ih =>
    have e1 := hc _ _ h2
    have e2 := hc _ _ (hv.matched _ _ h3).2.1
    rw [← ih]
    revert e1 e2
    cases c node <;> cases c adj <;> cases c am <;> simp

/-- C05 (5): on a bipartite graph the blossom-free BFS only returns simple paths -/
theorem findAugmentingPath_simple_of_bipartite {g : Graph} (hb : Bipartite g) {m : Matching}
    (hv : ValidPartial g m) {root : Nat} {path : List Nat}
    (h : findAugmentingPath g root m = .ok (some path)) : path.Nodup := by
  obtain ⟨c, hc⟩ := hb
  obtain ⟨_, hap, _, _, hodd, hout⟩ := findAugmentingPath_spec hv h
  have hpa := hap.pairsAdj
  match path, hap with
  | a :: b :: rest, hap =>
    apply nodup_of_evens_odds _ _ hodd
    · intro x hx hx'
      obtain ⟨y, hy, hadj⟩ := PairsAdj.evens_adj _ hpa x hx
      have e1 := (hout y hy).colour hv hc
      have e2 := (hout x hx').colour hv hc
      exact hc _ _ hadj (e1.trans e2.symm)
    · simp only [evens]
      simp only [odds] at hodd
      refine List.nodup_cons.2 ⟨?_, AltTail.nodup_evens hv b rest hap.2.2 hodd⟩
      intro ha
      obtain ⟨b', _, h'⟩ := AltTail.evens_mates hv b rest hap.2.2 a ha
      rw [hap.1] at h'; cases h'

theorem augmentLoop_eq_simple_of_bipartite {g : Graph} (hg : GraphOK g) (hb : Bipartite g) :
    ∀ (fuel : Nat) (unmatched tape : List Nat) (m : Matching), ValidPartial g m →
    augmentLoop g fuel unmatched tape m = augmentLoopSimple g fuel unmatched tape m := by
  intro fuel
  induction fuel with
  | zero => intro unmatched tape m _; simp only [augmentLoopSimple, augmentLoop]
  | succ fuel ih =>
    intro unmatched tape m hv
    cases tape with
    | nil => simp only [augmentLoopSimple, augmentLoop]
    | cons root tape =>
      simp only [augmentLoopSimple, augmentLoop]
      split
      · rfl
      · split
        · rfl
        · simp only [bind, Except.bind]
          cases hres : findAugmentingPath g root m with
          | error e => rfl
          | ok res =>
            cases res with
            | none => rfl
            | some path =>
              simp only
              have hnd := findAugmentingPath_simple_of_bipartite hb hv hres
              have hap := (findAugmentingPath_spec hv hres).2.1
              obtain ⟨m', hf1, hf2, _, _⟩ := flipPath_valid hg hv hap hnd
              simp only [pyAssert, decide_eq_true hnd, if_true, hf1]
              exact ih _ _ _ hf2

theorem findPerfectMatching_eq_simple_of_bipartite {g : Graph} (hg : GraphOK g) (hb : Bipartite g)
    (tape : List Nat) : findPerfectMatching g tape = findPerfectMatchingSimple g tape := by
  simp only [findPerfectMatchingSimple, findPerfectMatching, bind, Except.bind]
  cases hm : greedyMatching g with
  | error e => rfl
  | ok m => exact augmentLoop_eq_simple_of_bipartite hg hb _ _ _ _ (greedyMatching_valid hg hm)

/-! ### index form of the alternation -/

theorem AltTail.index {g : Graph} {m : Matching} : ∀ (b : Nat) (rest : List Nat), AltTail g m b rest →
    ∀ i : Nat,
      (∀ x y, (b :: rest)[2 * i]? = some x → (b :: rest)[2 * i + 1]? = some y → m[x]? = some (some y)) ∧
      (∀ x y, (b :: rest)[2 * i + 1]? = some x → (b :: rest)[2 * i + 2]? = some y → Adj g y x)
  | b, [], _ => by intro i; constructor <;> intro x y h1 h2 <;> simp at h2
  | _, [_], h => h.elim
  | b, c :: d :: rest, h => by
    intro i
    cases i with
    | zero =>
      constructor
      · intro x y h1 h2
        simp at h1 h2; subst h1 h2; exact h.1
      · intro x y h1 h2
        simp at h1 h2; subst h1 h2; exact h.2.1
    | succ i =>
      have ih := AltTail.index d rest h.2.2 i
      have e1 : 2 * (i + 1) = (2 * i) + 1 + 1 := by omega
      have e3 : 2 * i + 1 + 1 + 2 = (2 * i + 2) + 1 + 1 := by omega
      rw [e1, e3]
      simp only [List.getElem?_cons_succ]
      exact ih

/-- the alternation in index form: `path[2i]` is listed in `graph[path[2i+1]]` and
    `matching[path[2i+1]] = path[2i+2]` -/
theorem AugPath.index {g : Graph} {m : Matching} {path : List Nat} (hp : AugPath g m path) (i : Nat) :
    (∀ x y, path[2 * i]? = some x → path[2 * i + 1]? = some y → Adj g y x) ∧
    (∀ x y, path[2 * i + 1]? = some x → path[2 * i + 2]? = some y → m[x]? = some (some y)) := by
  match path, hp with
  | a :: b :: rest, hp =>
    have key := AltTail.index b rest hp.2.2
    constructor
    · intro x y h1 h2
      cases i with
      | zero => simp at h1 h2; subst h1 h2; exact hp.2.1
      | succ i =>
        have e1 : 2 * (i + 1) = (2 * i + 1) + 1 := by omega
        have e2 : 2 * (i + 1) + 1 = (2 * i + 2) + 1 := by omega
        rw [e2] at h2; rw [e1] at h1
        simp only [List.getElem?_cons_succ] at h1 h2
        exact (key i).2 x y h1 h2
    · intro x y h1 h2
      have e2 : 2 * i + 2 = (2 * i + 1) + 1 := by omega
      rw [e2] at h2
      simp only [List.getElem?_cons_succ] at h1 h2
      exact (key i).1 x y h1 h2

end SV
