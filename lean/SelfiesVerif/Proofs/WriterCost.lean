/-
  Totality of the SMILES writer, part 1: how many iterations the explicit-stack loop of
  `_derive_smiles_from_fragment` makes below an atom (`cost`), and why, in a forest, this is at
  most `totalOut + size` for every root.
-/
import SelfiesVerif.Proofs.DecoderTotal

namespace SV

/-- what the writer needs of a graph: indices in range, bond orders 1..3, no aromatic atom, chain
    bonds point upward and every atom has at most one incoming chain bond, a root has none -/
structure WInv (m : Mol) : Prop where
  lenA : m.adj.length = m.atoms.length
  bonds : ∀ (k : Nat) (row : List DirBond), m.adj[k]? = some row → ∀ b ∈ row,
    b.dst < m.atoms.length ∧ 1 ≤ b.order ∧ b.order ≤ 3 ∧ (b.ring = false → k < b.dst)
  nonarom : ∀ a ∈ m.atoms, a.isAromatic = false
  rootsLt : ∀ r ∈ m.roots, r < m.atoms.length
  rootIn : ∀ r ∈ m.roots, chainIn m.adj r = 0
  chainLe : ∀ i, i < m.atoms.length → chainIn m.adj i ≤ 1

theorem WInv.of_inv {T : Table} {m : Mol} (hI : RInv T m) (hF : Forest m) (hN : NonArom m) : WInv m where
  lenA := hI.lenA
  bonds := fun k row hk b hb => by
    obtain ⟨_, h2, _, h4, h5, h6⟩ := hI.bonds k row hk b hb
    exact ⟨h2, h4, h5, h6⟩
  nonarom := hN
  rootsLt := hF.rootsLt
  rootIn := fun r hr => by rw [hF.chainIn r (hF.rootsLt r hr), if_pos hr]
  chainLe := fun i hi => by rw [hF.chainIn i hi]; split <;> omega

/-- `adj[a]`, empty out of range -/
def Mol.outRow (m : Mol) (a : Nat) : List DirBond := (m.adj[a]?).getD []

/-- iterations spent on one out-bond: 1, plus the whole subtree if it is a chain bond -/
def bcost (c : Nat → Nat) (b : DirBond) : Nat := 1 + if b.ring then 0 else c b.dst

/-- iterations of the writer loop for the subtree below `a`, chain depth at most `k` -/
def costN (m : Mol) : Nat → Nat → Nat
  | 0, _ => 1
  | k + 1, a => 1 + rsum (bcost (costN m k)) (m.outRow a)

def cost (m : Mol) (a : Nat) : Nat := costN m m.atoms.length a

theorem rsum_congr (f g : DirBond → Nat) (row : List DirBond) (h : ∀ b ∈ row, f b = g b) :
    rsum f row = rsum g row := by
  induction row with
  | nil => rfl
  | cons b row ih =>
    simp only [rsum_cons]
    rw [h b (by simp), ih (fun b hb => h b (by simp [hb]))]

theorem outRow_mem {m : Mol} {a : Nat} {b : DirBond} (h : b ∈ m.outRow a) :
    ∃ row, m.adj[a]? = some row ∧ b ∈ row := by
  unfold Mol.outRow at h
  cases hr : m.adj[a]? with
  | none => rw [hr] at h; simp at h
  | some row => rw [hr] at h; exact ⟨row, rfl, h⟩

theorem costN_stable {m : Mol} (hW : WInv m) : ∀ (k a : Nat), m.atoms.length - a ≤ k →
    costN m k a = costN m (k + 1) a := by
  intro k
  induction k with
  | zero =>
    intro a ha
    have : m.outRow a = [] := by
      unfold Mol.outRow
      rw [List.getElem?_eq_none (by rw [hW.lenA]; omega)]; rfl
    simp [costN, this]
  | succ k ih =>
    intro a ha
    rw [costN, costN]
    congr 1
    apply rsum_congr
    intro b hb
    obtain ⟨row, hrow, hbr⟩ := outRow_mem hb
    unfold bcost
    cases hr : b.ring with
    | true => rfl
    | false =>
      have := (hW.bonds a row hrow b hbr).2.2.2 hr
      simp only [Bool.false_eq_true, if_false]
      rw [ih b.dst (by omega)]

theorem cost_eq {m : Mol} (hW : WInv m) (a : Nat) :
    cost m a = 1 + rsum (bcost (cost m)) (m.outRow a) := by
  unfold cost
  rw [costN_stable hW _ a (by omega), costN]

/-! ### sums over `range n` -/

theorem sum_map_addC {α} (l : List α) (f g : α → Nat) :
    (l.map fun x => f x + g x).sum = (l.map f).sum + (l.map g).sum := by
  induction l with
  | nil => rfl
  | cons x l ih => simp only [List.map_cons, List.sum_cons, ih]; omega

theorem sum_map_le {α} (l : List α) (f g : α → Nat) (h : ∀ x ∈ l, f x ≤ g x) :
    (l.map f).sum ≤ (l.map g).sum := by
  induction l with
  | nil => exact Nat.le_refl _
  | cons x l ih =>
    simp only [List.map_cons, List.sum_cons]
    have := h x (by simp)
    have := ih (fun y hy => h y (by simp [hy]))
    omega

theorem sum_map_zero {α} (l : List α) (f : α → Nat) (h : ∀ x ∈ l, f x = 0) : (l.map f).sum = 0 := by
  induction l with
  | nil => rfl
  | cons x l ih =>
    simp only [List.map_cons, List.sum_cons]
    rw [h x (by simp), ih (fun y hy => h y (by simp [hy]))]

theorem sum_map_const_oneC {α} (l : List α) : (l.map fun _ => 1).sum = l.length := by
  induction l with
  | nil => rfl
  | cons x l ih => simp only [List.map_cons, List.sum_cons, List.length_cons, ih]; omega

/-- `Σ_{d<n} [x = d] · c d = c x` for `x < n` -/
theorem sum_indicator (c : Nat → Nat) (x : Nat) : ∀ n : Nat,
    ((List.range n).map fun d => (if x = d then 1 else 0) * c d).sum = if x < n then c x else 0
  | 0 => by simp
  | n + 1 => by
    rw [List.range_succ, List.map_append, List.sum_append, sum_indicator c x n]
    simp only [List.map_cons, List.map_nil, List.sum_cons, List.sum_nil]
    by_cases h1 : x < n
    · have : x ≠ n := by omega
      simp [h1, this]; omega
    · by_cases h2 : x = n
      · subst h2; simp
      · have : ¬ x < n + 1 := by omega
        simp [h1, h2, this]

/-- double counting: the subtree costs summed over all chain bonds = summed over atoms, weighted
    by the number of incoming chain bonds -/
theorem chain_sum_swap (c : Nat → Nat) (n : Nat) : ∀ (L : List DirBond),
    (∀ b ∈ L, b.ring = false → b.dst < n) →
    (L.map fun b => if b.ring then 0 else c b.dst).sum =
      ((List.range n).map fun d => (L.map (cw d)).sum * c d).sum
  | [], _ => by
    simp only [List.map_nil, List.sum_nil, Nat.zero_mul]
    exact (sum_map_zero _ _ (fun _ _ => rfl)).symm
  | b :: L, h => by
    have ih := chain_sum_swap c n L (fun b hb => h b (by simp [hb]))
    simp only [List.map_cons, List.sum_cons, Nat.add_mul]
    rw [sum_map_addC, ← ih]
    congr 1
    cases hr : b.ring with
    | true =>
      simp only [if_true]
      exact (sum_map_zero _ _ (fun d _ => by simp [cw, hr])).symm
    | false =>
      have hd := h b (by simp) hr
      simp only [Bool.false_eq_true, if_false]
      have := sum_indicator c b.dst n
      rw [if_pos hd] at this
      rw [← this]
      congr 1
      apply List.map_congr_left
      intro d _
      simp [cw, hr]

theorem wsum_add (f g : DirBond → Nat) (adj : List (List DirBond)) :
    wsum (fun b => f b + g b) adj = wsum f adj + wsum g adj := by
  unfold wsum; exact sum_map_addC _ _ _

theorem sum_rows (f : DirBond → Nat) (adj : List (List DirBond)) :
    (adj.map (rsum f)).sum = wsum f adj := by
  induction adj with
  | nil => rfl
  | cons r adj ih => simp only [List.map_cons, List.sum_cons, wsum_cons, ih]

theorem wsum_one (adj : List (List DirBond)) : wsum (fun _ => 1) adj = (adj.map List.length).sum := by
  induction adj with
  | nil => rfl
  | cons r adj ih =>
    simp only [wsum_cons, List.map_cons, List.sum_cons, ih]
    congr 1
    unfold rsum; exact sum_map_const_oneC r

theorem range_map_outRow (m : Mol) (g : List DirBond → Nat) :
    (List.range m.adj.length).map (fun a => g (m.outRow a)) = m.adj.map g := by
  apply List.ext_getElem
  · simp
  · intro i h1 h2
    simp only [List.length_map, List.length_range] at h1
    simp [Mol.outRow, List.getElem?_eq_getElem h1]

/-- in a forest the subtree below a root is visited in at most `totalOut + size` iterations -/
theorem cost_root_le {m : Mol} (hW : WInv m) {r : Nat} (hr : r ∈ m.roots) :
    cost m r ≤ m.totalOut + m.size := by
  have hrl := hW.rootsLt r hr
  have hr0 := hW.rootIn r hr
  let n := m.atoms.length
  let c := cost m
  -- Σ_{d<n} c d, computed from the unfolding equation
  have e1 : ((List.range n).map c).sum =
      n + m.totalOut + ((List.range n).map fun d => chainIn m.adj d * c d).sum := by
    have : (List.range n).map c = (List.range n).map (fun a => 1 + rsum (bcost c) (m.outRow a)) :=
      List.map_congr_left (fun a _ => cost_eq hW a)
    rw [this, sum_map_addC, sum_map_const_oneC, List.length_range]
    have : (List.range n).map (fun a => rsum (bcost c) (m.outRow a)) = m.adj.map (rsum (bcost c)) := by
      have := range_map_outRow m (rsum (bcost c))
      rw [hW.lenA] at this; exact this
    rw [this, sum_rows]
    have : wsum (bcost c) m.adj = wsum (fun _ => 1) m.adj +
        wsum (fun b => if b.ring then 0 else c b.dst) m.adj := wsum_add _ _ _
    rw [this, wsum_one]
    have hsw := chain_sum_swap c n m.adj.flatten (by
      intro b hb hrg
      obtain ⟨row, hrow, hbr⟩ := List.mem_flatten.mp hb
      obtain ⟨k, hk⟩ := List.mem_iff_getElem?.mp hrow
      exact (hW.bonds k row hk b hbr).1)
    unfold wsum
    rw [hsw]
    unfold Mol.totalOut chainIn wsum
    omega
  -- the root and the chain-bond targets are distinct atoms
  have e2 : ((List.range n).map fun d => chainIn m.adj d * c d).sum + c r ≤ ((List.range n).map c).sum := by
    have hi := sum_indicator c r n
    rw [if_pos hrl] at hi
    rw [← hi, ← sum_map_addC]
    apply sum_map_le
    intro d hd
    have hdn : d < n := List.mem_range.mp hd
    have := hW.chainLe d hdn
    rw [← Nat.add_mul]
    by_cases hrd : r = d
    · subst hrd; rw [hr0]; simp
    · rw [if_neg hrd]
      calc (chainIn m.adj d + 0) * c d ≤ 1 * c d := Nat.mul_le_mul_right _ (by omega)
        _ = c d := Nat.one_mul _
  show c r ≤ m.totalOut + m.size
  unfold Mol.size
  omega

end SV
