/-
  C10r, part 5: `encodePrepare` on the decoder's output returns the graph of the reordered forest
  unchanged, and the re-encoding theorem.
-/
import SelfiesVerif.Proofs.ReaderEnc4

namespace SV

/-! ### list facts -/

theorem mapM_ok_map {α β} (F : β → Py α) (g : β → α) : ∀ l : List β,
    (∀ x ∈ l, F x = .ok (g x)) → l.mapM F = .ok (l.map g)
  | [], _ => rfl
  | x :: l, h => by
    have ih := mapM_ok_map F g l (fun y hy => h y (List.mem_cons_of_mem _ hy))
    simp only [List.mapM_cons, h x List.mem_cons_self, ih, bind, Except.bind, pure, Except.pure,
      List.map_cons]

theorem mem_zip_range_get {α} {l : List α} {x : Nat × α} (h : x ∈ (List.range l.length).zip l) :
    l[x.1]? = some x.2 :=
  (mem_zip_range l x.1 x.2).1 h

theorem map_snd_zip_range {α} (l : List α) : ((List.range l.length).zip l).map Prod.snd = l :=
  List.map_snd_zip (by simp)

/-! ### the steps of `encodePrepare` -/

theorem kekulize_noDs (m : PMol) (tape : List Nat) (h : m.ds = []) : m.kekulize tape = .ok (some m) := by
  unfold PMol.kekulize
  simp [h]
  rfl

/-- the node at position `i` of the reordered graph -/
theorem graphOf_reord_atom_node {f : PForest} (hwf : f.wf = true) {i : Nat} {a : Atom}
    (h : (graphOf f.reord).atoms[i]? = some a) : ∃ n ∈ f.nodes, n.idx = i ∧ n.atom = a ∧ f.nodes[i]? = some n := by
  obtain ⟨hnum, _, _⟩ := PForest.wf_parts hwf
  rw [graphOf_atoms, PForest.nodes_reord, List.map_map, List.getElem?_map] at h
  cases hn : f.nodes[i]? with
  | none => rw [hn] at h; cases h
  | some n =>
    rw [hn] at h
    simp only [Option.map_some, Option.some.injEq] at h
    exact ⟨n, List.mem_of_getElem? hn, nodes_idx_of_getElem hnum hn, h, rfl⟩

theorem violates_reord {T : Table} {f : PForest} (hwf : f.wf = true) (ho : f.obeys T = true) :
    violatesConstraints T (graphOf f.reord) = false := by
  unfold violatesConstraints
  apply List.any_eq_false.2
  intro x hx
  obtain ⟨n, hn, hidx, hat, hnk⟩ := graphOf_reord_atom_node hwf (mem_zip_range_get hx)
  have hc : (graphOf f.reord).counts2.getD x.1 0 = n.count2 := by
    rw [graphOf_counts2, PForest.nodes_reord, List.map_map]
    simp only [List.getD, List.getElem?_map, hnk, Option.map_some, Function.comp,
      NodeInfo.reord_count2, Option.getD_some]
  have hob : (n.count2 : Int) ≤ 2 * n.atom.bondingCapacity T := by
    unfold PForest.obeys at ho
    simpa using List.all_eq_true.1 ho _ hn
  obtain ⟨i, a⟩ := x
  simp only at hc hat
  simp only [hc, ← hat, decide_eq_true_eq]
  omega

/-- **`encodePrepare` on a string that parses to the reordered graph**: kekulization has nothing to
    do, the constraint check passes, and no chirality tag is flipped (every row is already in the
    order the decoder would produce). -/
theorem encodePrepare_reord {T : Table} {f : PForest} (hwf : f.wf = true) (ho : f.obeys T = true)
    (out : Str) (tape : List Nat) (hp : smilesToMol out false = .ok (graphOf f.reord)) :
    encodePrepare T out true false tape = .ok (graphOf f.reord) := by
  have hmap : ((List.range (graphOf f.reord).atoms.length).zip (graphOf f.reord).atoms).mapM
      (fun (x : Nat × Atom) => do
        if x.2.chirality.isSome && ((graphOf f.reord).ringFlags.getD x.1 false) then
          let inv ← shouldInvertChirality (graphOf f.reord) x.1
          pure (if inv then x.2.invertChirality else x.2)
        else pure x.2) = .ok (graphOf f.reord).atoms := by
    have := mapM_ok_map (fun (x : Nat × Atom) => do
        if x.2.chirality.isSome && ((graphOf f.reord).ringFlags.getD x.1 false) then
          let inv ← shouldInvertChirality (graphOf f.reord) x.1
          pure (if inv then x.2.invertChirality else x.2)
        else pure x.2) Prod.snd ((List.range (graphOf f.reord).atoms.length).zip (graphOf f.reord).atoms) ?_
    · rw [this, map_snd_zip_range]
    · intro x hx
      obtain ⟨n, hn, hidx, _, _⟩ := graphOf_reord_atom_node hwf (mem_zip_range_get hx)
      split
      · rw [← hidx, shouldInvert_reord hwf hn]
        rfl
      · rfl
  unfold encodePrepare
  rw [hp]
  simp only [bind, Except.bind, pure, Except.pure, kekulize_noDs (graphOf f.reord) tape rfl,
    violates_reord hwf ho, Bool.and_false, Bool.false_eq_true, if_false]
  simp only [bind, Except.bind, pure, Except.pure] at hmap
  rw [hmap]

end SV
