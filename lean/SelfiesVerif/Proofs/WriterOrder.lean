/-
  If the chain bonds are laid out the way the decoder lays them out (`Ordered`: children in
  increasing order, no two chain bonds cross, no chain bond jumps over a later root), then the
  pre-order of the forest is the index order: the k-th atom token is atom k.
-/
import SelfiesVerif.Proofs.WriterForest

namespace SV

/-- end points of the chain bonds leaving atom `k`, in `adj` order -/
def Mol.cd (m : Mol) (k : Nat) : List Nat := chainDsts (m.row k)

structure Ordered (m : Mol) : Prop where
  rng : ∀ k, ∀ c ∈ m.cd k, k < c ∧ c < m.atoms.length
  sorted : ∀ k, (m.cd k).Pairwise (· < ·)
  noCross : ∀ k k' c c', c ∈ m.cd k → c' ∈ m.cd k' → k < k' → k' < c → c' < c
  noJump : ∀ k c r, c ∈ m.cd k → r ∈ m.roots → k < r → c < r

/-- no chain bond leaves the index interval `[i, B)` -/
def Closed (g : Mol) (i B : Nat) : Prop := ∀ P, i ≤ P → P < B → ∀ c ∈ g.cd P, c < B

theorem visits_sorted {g : Mol} (ho : Ordered g) :
    ∀ (f c B : Nat), c < B → Closed g c B →
      (visits g f c).Pairwise (· < ·) ∧ ∀ y ∈ visits g f c, c ≤ y ∧ y < B := by
  intro f
  induction f with
  | zero => intro c B _ _; exact ⟨List.Pairwise.nil, fun y hy => by simp [visits] at hy⟩
  | succ f ih =>
    intro c B hcB hcl
    have hchild : ∀ c1 ∈ g.cd c, c < c1 ∧ c1 < B := fun c1 h1 =>
      ⟨(ho.rng c c1 h1).1, hcl c (Nat.le_refl _) hcB c1 h1⟩
    have hclB : ∀ c1 ∈ g.cd c, Closed g c1 B := by
      intro c1 h1 P hP1 hP2
      exact hcl P (by have := (hchild c1 h1).1; omega) hP2
    have hcl2 : ∀ c1 ∈ g.cd c, ∀ c2 ∈ g.cd c, c1 < c2 → Closed g c1 c2 := by
      intro c1 h1 c2 h2 h12 P hP1 hP2 y hy
      exact ho.noCross c P c2 y h2 hy (by have := (hchild c1 h1).1; omega) hP2
    have hmem : ∀ y ∈ (g.cd c).flatMap (visits g f), c < y ∧ y < B := by
      intro y hy
      obtain ⟨c1, h1, hy1⟩ := List.mem_flatMap.mp hy
      have := (ih c1 B (hchild c1 h1).2 (hclB c1 h1)).2 y hy1
      have := (hchild c1 h1).1
      omega
    refine ⟨?_, ?_⟩
    · show (c :: (g.cd c).flatMap (visits g f)).Pairwise (· < ·)
      rw [List.pairwise_cons]
      refine ⟨fun y hy => (hmem y hy).1, ?_⟩
      rw [List.pairwise_flatMap]
      refine ⟨fun c1 h1 => (ih c1 B (hchild c1 h1).2 (hclB c1 h1)).1, ?_⟩
      apply List.Pairwise.imp_of_mem _ (ho.sorted c)
      intro c1 c2 h1 h2 h12 x hx y hy
      have e1 := (ih c1 c2 h12 (hcl2 c1 h1 c2 h2 h12)).2 x hx
      have e2 := (ih c2 B (hchild c2 h2).2 (hclB c2 h2)).2 y hy
      omega
    · intro y hy
      rcases List.mem_cons.mp hy with rfl | hy'
      · exact ⟨Nat.le_refl _, hcB⟩
      · have := hmem y hy'; omega

/-- the pre-order is the index order -/
theorem allVisits_eq_range {g : Mol} (hg : WGraph g) (ho : Ordered g) :
    allVisits g = List.range g.atoms.length := by
  apply List.Perm.eq_of_pairwise (le := (· < ·)) _ _ List.pairwise_lt_range (allVisits_perm hg)
  · intro a b _ _ h1 h2; omega
  · unfold allVisits
    rw [List.pairwise_flatMap]
    have hclN : ∀ r, Closed g r g.atoms.length := fun r P _ _ c hc => (ho.rng P c hc).2
    refine ⟨fun r hr => (visits_sorted ho _ r _ (hg.rootsLt r hr) (hclN r)).1, ?_⟩
    apply List.Pairwise.imp_of_mem _ hg.rootsSorted
    intro r1 r2 h1 h2 h12 x hx y hy
    have hcl : Closed g r1 r2 := fun P _ hP2 c hc => ho.noJump P c r2 hc h2 hP2
    have e1 := (visits_sorted ho _ r1 r2 h12 hcl).2 x hx
    have e2 := (visits_sorted ho _ r2 _ (hg.rootsLt r2 h2) (hclN r2)).2 y hy
    omega

end SV
