/-
  C02, part 2 of the refinement proof: the relation `MRel` between the implementation's graph
  (`Mol`: adjacency lists of directed bonds + tracked counts) and the specification's molecule
  (`Spec.Build`: bond list + written neighbour order), preserved by the derive-phase updates.
-/
import SelfiesVerif.Proofs.SpecRefineBasic

namespace SV
open SV.Spec

def nbrOf (d : DirBond) : Nbr := { atom := d.dst, order := d.order, mark := d.stereo, ring := d.ring }

structure MRel (T : Table) (m : Mol) (B : Build) : Prop where
  atoms : B.atoms = m.atoms
  roots : B.roots = m.roots
  lenA : m.adj.length = m.atoms.length
  lenC : m.counts.length = m.atoms.length
  lenN : B.nbrs.length = m.atoms.length
  nbrs : ∀ k : Nat, B.nbrs[k]? = (m.adj[k]?).map (fun (row : List DirBond) => row.map (·.dst))
  row : ∀ (k : Nat) (row : List DirBond), m.adj[k]? = some row → ∀ d ∈ row,
    d.src = k ∧ 1 ≤ d.order ∧ d.order ≤ 3 ∧ d.dst < m.atoms.length ∧ (d.ring = false → k < d.dst) ∧
    ∃ e, B.bonds.find? (·.joins k d.dst) = some e ∧ e.order = d.order ∧
      (if e.a == k then e.markA else e.markB) = d.stereo ∧ e.ring = d.ring
  bonds : ∀ e ∈ B.bonds, e.a < e.b ∧ e.b < m.atoms.length ∧
    (∃ row, m.adj[e.a]? = some row ∧ ∃ d ∈ row, d.dst = e.b) ∧
    (e.ring = true → ∃ row, m.adj[e.b]? = some row ∧ ∃ d ∈ row, d.dst = e.a)
  uniq : B.bonds.Pairwise (fun e e' => ¬(e.a = e'.a ∧ e.b = e'.b))
  counts : ∀ k, k < m.atoms.length → m.counts[k]? = some (usedValence B.bonds k)
  capOk : ∀ a ∈ m.atoms, 0 ≤ a.bondingCapacity T

theorem MRel_empty (T : Table) : MRel T {} {} := by
  constructor <;> simp [usedValence]

/-! ### sums over the bond list -/

theorem usedValence_append (l1 l2 : List Bond) (k : Nat) :
    usedValence (l1 ++ l2) k = usedValence l1 k + usedValence l2 k := by
  simp [usedValence]

theorem usedValence_single (e : Bond) (k : Nat) :
    usedValence [e] k = if e.touches k then e.order else 0 := by
  simp [usedValence]

theorem usedValence_zero (l : List Bond) (k : Nat) (h : ∀ e ∈ l, e.touches k = false) :
    usedValence l k = 0 := by
  induction l with
  | nil => rfl
  | cons x l ih =>
    have hx := h x (by simp)
    have := ih (fun e he => h e (by simp [he]))
    simp only [usedValence, List.map_cons, List.sum_cons] at this ⊢
    rw [this, hx]; simp

theorem MRel.used_fresh {T m B} (h : MRel T m B) {k : Nat} (hk : m.atoms.length ≤ k) :
    usedValence B.bonds k = 0 := by
  apply usedValence_zero
  intro e he
  obtain ⟨h1, h2, _⟩ := h.bonds e he
  simp only [Bond.touches, Bool.or_eq_false_iff, beq_eq_false_iff_ne]
  omega

theorem find?_append_some {α} {p : α → Bool} {l1 l2 : List α} {x : α} (h : l1.find? p = some x) :
    (l1 ++ l2).find? p = some x := by
  rw [List.find?_append, h]; rfl

theorem find?_append_none {α} {p : α → Bool} {l1 l2 : List α} (h : ∀ x ∈ l1, p x = false) :
    (l1 ++ l2).find? p = l2.find? p := by
  rw [List.find?_append]
  have : l1.find? p = none := by
    rw [List.find?_eq_none]; intro x hx; simp [h x hx]
  rw [this]; rfl

/-! ### a new fragment root -/

theorem MRel.addRoot {T m B} (h : MRel T m B) (a : Atom) (attr) (ha : 0 ≤ a.bondingCapacity T) :
    MRel T (m.addAtom a true attr).1 (B.addRoot a) := by
  have hA := h.lenA
  have hC := h.lenC
  have hN := h.lenN
  constructor
  · simp [Mol.addAtom, Build.addRoot, h.atoms]
  · simp [Mol.addAtom, Build.addRoot, h.atoms, h.roots]
  · simp [Mol.addAtom, hA]
  · simp [Mol.addAtom, hC]
  · simp [Mol.addAtom, Build.addRoot, hN]
  · intro k
    simp only [Mol.addAtom, Build.addRoot]
    rw [List.getElem?_append, List.getElem?_append, hN, hA]
    split
    · exact h.nbrs k
    · rw [List.getElem?_singleton, List.getElem?_singleton]
      split <;> rfl
  · intro k row hk d hd
    simp only [Mol.addAtom] at hk ⊢
    rw [List.getElem?_append] at hk
    split at hk
    · obtain ⟨h1, h2, h3, h4, h5, h6⟩ := h.row k row hk d hd
      refine ⟨h1, h2, h3, ?_, h5, h6⟩
      simp only [List.length_append, List.length_cons, List.length_nil]; omega
    · rw [List.getElem?_singleton] at hk
      split at hk
      · cases hk; cases hd
      · cases hk
  · intro e he
    simp only [Build.addRoot] at he
    obtain ⟨h1, h2, ⟨row, hr, hd⟩, h4⟩ := h.bonds e he
    simp only [Mol.addAtom, List.length_append, List.length_cons, List.length_nil]
    refine ⟨h1, by omega, ⟨row, ?_, hd⟩, ?_⟩
    · rw [List.getElem?_append_left (by omega)]; exact hr
    · intro hring
      obtain ⟨row', hr', hd'⟩ := h4 hring
      exact ⟨row', by rw [List.getElem?_append_left (by omega)]; exact hr', hd'⟩
  · exact h.uniq
  · intro k hk
    simp only [Mol.addAtom, Build.addRoot, List.length_append, List.length_cons, List.length_nil] at hk ⊢
    rw [List.getElem?_append]
    split
    · rename_i hlt; exact h.counts k (by omega)
    · rename_i hge
      have : k = m.atoms.length := by omega
      subst this
      rw [h.used_fresh (Nat.le_refl _), hC]; simp
  · intro x hx
    simp only [Mol.addAtom, List.mem_append, List.mem_singleton] at hx
    rcases hx with hx | rfl
    · exact h.capOk x hx
    · exact ha

/-! ### a new chained atom -/

theorem MRel.addChained {T m B} (h : MRel T m B) {a : Atom} {p bo c : Nat} {st : Option Char}
    {row : List DirBond} {attr' : Option (List Attribution)} {m' : Mol}
    (ha : 0 ≤ a.bondingCapacity T) (hrow : m.adj[p]? = some row) (hc : m.counts[p]? = some c)
    (hbo1 : 1 ≤ bo) (hbo3 : bo ≤ 3)
    (e1 : m'.atoms = m.atoms ++ [a]) (e2 : m'.roots = m.roots)
    (e3 : m'.adj = m.adj.set p (row ++ [{ src := p, dst := m.atoms.length, order := bo, stereo := st, ring := false, attr := attr' }]) ++ [[]])
    (e4 : m'.counts = m.counts.set p (c + bo) ++ [bo]) :
    MRel T m' (B.addChained p a bo st) := by
  have hA := h.lenA
  have hC := h.lenC
  have hN := h.lenN
  have hp : p < m.atoms.length := by
    have := (List.getElem?_eq_some_iff.mp hrow).1; omega
  have hBlen : B.atoms.length = m.atoms.length := by rw [h.atoms]
  -- rows of the new adjacency
  have rows : ∀ (k : Nat) (row' : List DirBond), m'.adj[k]? = some row' →
      (k = p ∧ row' = row ++ [{ src := p, dst := m.atoms.length, order := bo, stereo := st, ring := false, attr := attr' }]) ∨
      (k ≠ p ∧ m.adj[k]? = some row') ∨ row' = [] := by
    intro k row' hk
    rw [e3, List.getElem?_append] at hk
    split at hk
    · rw [List.getElem?_set] at hk
      split at hk
      · subst_vars; rw [if_pos (by omega)] at hk; cases hk; exact Or.inl ⟨rfl, rfl⟩
      · exact Or.inr (Or.inl ⟨by omega, hk⟩)
    · rw [List.getElem?_singleton] at hk
      split at hk
      · cases hk; exact Or.inr (Or.inr rfl)
      · cases hk
  have oldrow : ∀ (k : Nat) (row0 : List DirBond), m.adj[k]? = some row0 →
      ∃ row1, m'.adj[k]? = some row1 ∧ ∀ d ∈ row0, d ∈ row1 := by
    intro k row0 hk
    have hkl : k < m.adj.length := (List.getElem?_eq_some_iff.mp hk).1
    rw [e3, List.getElem?_append_left (by simpa using hkl), List.getElem?_set]
    split
    · subst_vars
      rw [hrow] at hk; cases hk
      rw [if_pos hkl]
      exact ⟨_, rfl, fun d hd => List.mem_append_left _ hd⟩
    · exact ⟨row0, hk, fun d hd => hd⟩
  have nojoin : ∀ x ∈ B.bonds, x.joins p m.atoms.length = false := by
    intro x hx
    obtain ⟨h1, h2, _⟩ := h.bonds x hx
    simp only [Bond.joins, Bool.or_eq_false_iff, Bool.and_eq_false_iff, beq_eq_false_iff_ne]
    omega
  constructor
  · simp [Build.addChained, h.atoms, e1]
  · simp [Build.addChained, h.roots, e2]
  · rw [e3, e1]; simp [hA]
  · rw [e4, e1]; simp [hC]
  · rw [e1]; simp [Build.addChained, hN]
  · intro k
    simp only [Build.addChained]
    rw [e3, List.getElem?_append, List.getElem?_append, List.length_modify, List.length_set, hN, hA]
    split
    · rw [List.getElem?_modify, List.getElem?_set, h.nbrs k, hBlen]
      by_cases hpk : p = k
      · subst hpk
        have : m.adj[p] = row := by
          have := List.getElem?_eq_some_iff.mp hrow
          exact this.2
        simp [hA, hp, this]
      · simp [hpk]
    · rw [List.getElem?_singleton, List.getElem?_singleton]
      split <;> rfl
  · intro k row' hk d hd
    rw [e1]
    simp only [Build.addChained, List.length_append, List.length_cons, List.length_nil]
    rcases rows k row' hk with ⟨rfl, rfl⟩ | ⟨_, hk'⟩ | rfl
    · rcases List.mem_append.mp hd with hd | hd
      · obtain ⟨h1, h2, h3, h4, h5, e, he1, he2⟩ := h.row _ row hrow d hd
        exact ⟨h1, h2, h3, by omega, h5, e, find?_append_some he1, he2⟩
      · simp only [List.mem_singleton] at hd; subst hd
        refine ⟨rfl, hbo1, hbo3, by simp, fun _ => hp,
          { a := k, b := m.atoms.length, order := bo, markA := st }, ?_, rfl, ?_, rfl⟩
        · simp only
          rw [find?_append_none nojoin, hBlen]
          simp [Bond.joins]
        · simp
    · obtain ⟨h1, h2, h3, h4, h5, e, he1, he2⟩ := h.row k row' hk' d hd
      exact ⟨h1, h2, h3, by omega, h5, e, find?_append_some he1, he2⟩
    · cases hd
  · intro e he
    simp only [Build.addChained, List.mem_append, List.mem_singleton] at he
    rw [e1]
    simp only [List.length_append, List.length_cons, List.length_nil]
    rcases he with he | rfl
    · obtain ⟨h1, h2, ⟨row0, hr, d, hd, hdd⟩, h4⟩ := h.bonds e he
      refine ⟨h1, by omega, ?_, ?_⟩
      · obtain ⟨row1, hr1, hsub⟩ := oldrow _ _ hr
        exact ⟨row1, hr1, d, hsub d hd, hdd⟩
      · intro hring
        obtain ⟨row0', hr', d', hd', hdd'⟩ := h4 hring
        obtain ⟨row1, hr1, hsub⟩ := oldrow _ _ hr'
        exact ⟨row1, hr1, d', hsub d' hd', hdd'⟩
    · simp only [hBlen]
      refine ⟨hp, by omega, ?_, fun hr => by cases hr⟩
      refine ⟨row ++ [{ src := p, dst := m.atoms.length, order := bo, stereo := st, ring := false, attr := attr' }],
        ?_, { src := p, dst := m.atoms.length, order := bo, stereo := st, ring := false, attr := attr' },
        List.mem_append_right _ (List.mem_singleton.mpr rfl), rfl⟩
      rw [e3, List.getElem?_append_left (by simp; omega), List.getElem?_set_self (by omega)]
  · simp only [Build.addChained]
    rw [List.pairwise_append]
    refine ⟨h.uniq, by simp, ?_⟩
    intro x hx y hy
    simp only [List.mem_singleton] at hy; subst hy
    obtain ⟨h1, h2, _⟩ := h.bonds x hx
    simp only [hBlen]; omega
  · intro k hk
    rw [e1] at hk
    simp only [List.length_append, List.length_cons, List.length_nil] at hk
    simp only [Build.addChained, usedValence_append, usedValence_single, Bond.touches, hBlen]
    rw [e4, List.getElem?_append, List.length_set, hC]
    by_cases h1 : k = p
    · subst h1
      have := h.counts k hp
      rw [hc] at this; cases this
      rw [if_pos hp, List.getElem?_set_self (by omega)]
      simp
    · by_cases h2 : k = m.atoms.length
      · subst h2
        rw [if_neg (by omega), h.used_fresh (Nat.le_refl _)]
        have : (p == m.atoms.length) = false := by simp; omega
        simp [this]
      · rw [if_pos (by omega), List.getElem?_set_ne (by omega), h.counts k (by omega)]
        have e5 : (p == k) = false := by simp; omega
        have e6 : (m.atoms.length == k) = false := by simp; omega
        simp [e5, e6]
  · intro x hx
    rw [e1] at hx
    simp only [List.mem_append, List.mem_singleton] at hx
    rcases hx with hx | rfl
    · exact h.capOk x hx
    · exact ha

end SV
