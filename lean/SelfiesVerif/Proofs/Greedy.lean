/-
  C05: `_greedy_matching` returns a valid partial matching (and, further below, never fails).
-/
import SelfiesVerif.Proofs.Matching

namespace SV

theorem getIdx_ok {α} {l : List α} {i : Nat} {x : α} : getIdx l i = .ok x ↔ l[i]? = some x := by
  unfold getIdx
  cases l[i]? <;> simp

theorem getIdx_ok_of_lt {α} {l : List α} {i : Nat} (h : i < l.length) : getIdx l i = .ok l[i] := by
  rw [getIdx_ok]; exact List.getElem?_eq_getElem h

/-- matching two distinct, unmatched, adjacent vertices keeps a valid matching valid -/
theorem ValidPartial.add_edge {g : Graph} {m : Matching} (hv : ValidPartial g m) {a b : Nat}
    (ha : m[a]? = some none) (hb : m[b]? = some none) (hab : a ≠ b)
    (h1 : Adj g a b) (h2 : Adj g b a) :
    ValidPartial g ((m.set a (some b)).set b (some a)) := by
  have hal : a < m.length := lt_of_getElem?_some ha
  have hbl : b < m.length := lt_of_getElem?_some hb
  refine ⟨by simp [hv.length_eq], fun i j hij => ?_⟩
  simp only [List.getElem?_set, List.length_set] at hij ⊢
  by_cases hib : b = i
  · subst hib
    simp only [hbl, if_true] at hij
    cases hij
    simp [hal, hv.length_eq ▸ hal, h2, Ne.symm hab]
  · simp only [hib, if_false] at hij
    by_cases hia : a = i
    · subst hia
      simp only [hal, if_true] at hij
      cases hij
      simp [hbl, hv.length_eq ▸ hbl, h1]
    · simp only [hia, if_false] at hij
      obtain ⟨h1', h2', h3'⟩ := hv.matched i j hij
      have hjb : b ≠ j := fun e => by subst e; rw [hb] at h3'; cases h3'
      have hja : a ≠ j := fun e => by subst e; rw [ha] at h3'; cases h3'
      simp [hjb, hja, h1', h2', h3']

theorem greedyUpdate_matching : ∀ (l : List Nat) (st st' : GreedySt),
    greedyUpdate l st = .ok st' → st'.matching = st.matching := by
  intro l
  induction l with
  | nil => intro st st' h; simp only [greedyUpdate] at h; cases h; rfl
  | cons adj rest ih =>
    intro st st' h
    simp only [greedyUpdate, bind, Except.bind] at h
    split at h
    · cases h
    · split at h
      · cases h
      · have := ih _ _ h
        rw [this]; split <;> rfl

theorem firstFree_spec (st : GreedySt) : ∀ (l : List Nat) (mate : Nat),
    greedyLoop.firstFree st l = .ok mate → mate ∈ l ∧ st.matching[mate]? = some none := by
  intro l
  induction l with
  | nil => intro mate h; simp [greedyLoop.firstFree] at h
  | cons i is ih =>
    intro mate h
    simp only [greedyLoop.firstFree, bind, Except.bind] at h
    split at h
    · cases h
    · rename_i mi hmi
      split at h
      · simp only [pure, Except.pure] at h
        cases h
        rw [getIdx_ok] at hmi
        cases mi with
        | none => exact ⟨List.mem_cons_self, hmi⟩
        | some _ => simp at *
      · have := ih mate h
        exact ⟨List.mem_cons_of_mem _ this.1, this.2⟩

theorem greedyLoop_valid {g : Graph} (hg : GraphOK g) : ∀ (fuel : Nat) (st : GreedySt) (m : Matching),
    ValidPartial g st.matching → greedyLoop g fuel st = .ok m → ValidPartial g m := by
  intro fuel
  induction fuel with
  | zero =>
    intro st m hv h
    simp only [greedyLoop] at h
    split at h
    · cases h; exact hv
    · cases h
  | succ fuel ih =>
    intro st m hv h
    simp only [greedyLoop] at h
    split at h
    · cases h; exact hv
    · rename_i node heap hpop
      simp only [bind, Except.bind] at h
      split at h
      · cases h
      · rename_i mn hmn
        split at h
        · cases h
        · rename_i fd hfd
          split at h
          · exact ih _ m (by exact hv) h
          · rename_i hcond
            split at h
            · cases h
            · rename_i nbrs hnbrs
              split at h
              · cases h
              · rename_i mate hmate
                split at h
                · cases h
                · split at h
                  · cases h
                  · rename_i mnbrs hmnbrs
                    split at h
                    · cases h
                    · rename_i st2 hst2
                      refine ih st2 m ?_ h
                      rw [greedyUpdate_matching _ _ _ hst2]
                      obtain ⟨hmem, hfree⟩ := firstFree_spec _ _ _ hmate
                      rw [getIdx_ok] at hmn hnbrs
                      have hnone : st.matching[node]? = some none := by
                        cases mn with
                        | none => exact hmn
                        | some _ => simp at hcond
                      have hadj : Adj g node mate := ⟨nbrs, hnbrs, hmem⟩
                      have hne : node ≠ mate := fun e => hg.noLoop node (e ▸ hadj)
                      exact hv.add_edge hnone hfree hne hadj (hg.symm _ _ hadj)

theorem validPartial_replicate (g : Graph) : ValidPartial g (List.replicate g.length none) := by
  refine ⟨by simp, fun i j h => ?_⟩
  rw [List.getElem?_replicate] at h
  split at h <;> cases h

/-- `_greedy_matching` returns a valid partial matching -/
theorem greedyMatching_valid {g : Graph} (hg : GraphOK g) {m : Matching}
    (h : greedyMatching g = .ok m) : ValidPartial g m :=
  greedyLoop_valid hg _ _ m (validPartial_replicate g) h

/-! ### totality of the greedy phase -/

theorem heapPopMin_spec : ∀ (h : List (Int × Nat)) (x : Int × Nat) (rest : List (Int × Nat)),
    heapPopMin h = some (x, rest) → x ∈ h ∧ rest.length + 1 = h.length ∧ ∀ p ∈ rest, p ∈ h := by
  intro h
  induction h with
  | nil => intro x rest hh; simp [heapPopMin] at hh
  | cons y ys ih =>
    intro x rest hh
    simp only [heapPopMin] at hh
    split at hh
    · rename_i hnone
      cases hh
      cases ys with
      | nil => simp
      | cons z zs =>
        simp only [heapPopMin] at hnone
        split at hnone
        · cases hnone
        · split at hnone <;> cases hnone
    · rename_i m rest' hsome
      obtain ⟨i1, i2, i3⟩ := ih m rest' hsome
      split at hh
      · cases hh
        exact ⟨by simp, rfl, fun p hp => List.mem_cons_of_mem _ hp⟩
      · cases hh
        refine ⟨List.mem_cons_of_mem _ i1, by simp [i2], ?_⟩
        intro p hp
        simp only [List.mem_cons] at hp ⊢
        rcases hp with rfl | hp
        · exact Or.inl rfl
        · exact Or.inr (i3 p hp)

theorem heapPopMin_none : ∀ (h : List (Int × Nat)), heapPopMin h = none → h = [] := by
  intro h hh
  cases h with
  | nil => rfl
  | cons y ys =>
    simp only [heapPopMin] at hh
    split at hh
    · cases hh
    · split at hh <;> cases hh

/-- number of unmatched neighbours -/
def countFree (g : Graph) (m : Matching) (x : Nat) : Nat :=
  ((g.getD x []).filter fun j => m[j]? == some none).length

theorem getD_set_int {l : List Int} {i : Nat} (hi : i < l.length) (x : Int) (v : Nat) :
    (l.set i x).getD v 0 = if v = i then x else l.getD v 0 := by
  simp only [List.getD_eq_getElem?_getD, List.getElem?_set]
  by_cases h : i = v
  · subst h; simp [hi]
  · simp [h, Ne.symm h]

theorem greedyUpdate_spec : ∀ (l : List Nat) (st : GreedySt),
    (∀ a ∈ l, a < st.freeDeg.length ∧ a < st.matching.length) →
    ∃ st', greedyUpdate l st = .ok st' ∧ st'.matching = st.matching ∧
      st'.freeDeg.length = st.freeDeg.length ∧
      (∀ x, st'.freeDeg.getD x 0 = st.freeDeg.getD x 0 - (l.count x : Int)) ∧
      st'.heap.length ≤ st.heap.length + l.length ∧
      (∀ p ∈ st'.heap, p ∈ st.heap ∨ p.2 ∈ l) := by
  intro l
  induction l with
  | nil =>
    intro st _
    exact ⟨st, rfl, rfl, rfl, fun x => by simp, by simp, fun p hp => Or.inl hp⟩
  | cons adj rest ih =>
    intro st hl
    obtain ⟨h1, h2⟩ := hl adj (by simp)
    simp only [greedyUpdate, bind, Except.bind, getIdx_ok_of_lt h1]
    have h2' : adj < ({ st with freeDeg := st.freeDeg.set adj (st.freeDeg[adj] - 1) } : GreedySt).matching.length := h2
    simp only [getIdx_ok_of_lt h2']
    have hrest : ∀ (hp : List (Int × Nat)), ∀ a ∈ rest,
        a < ({ matching := st.matching, freeDeg := st.freeDeg.set adj (st.freeDeg[adj] - 1), heap := hp } : GreedySt).freeDeg.length ∧
        a < ({ matching := st.matching, freeDeg := st.freeDeg.set adj (st.freeDeg[adj] - 1), heap := hp } : GreedySt).matching.length := by
      intro hp a ha
      have := hl a (List.mem_cons_of_mem _ ha)
      simpa using this
    have hgetD : ∀ x, (st.freeDeg.set adj (st.freeDeg[adj] - 1)).getD x 0
        = st.freeDeg.getD x 0 - (if adj = x then 1 else 0 : Int) := by
      intro x
      rw [getD_set_int h1]
      by_cases hx : x = adj
      · subst hx
        simp only [if_true]
        rw [List.getD_eq_getElem?_getD, List.getElem?_eq_getElem h1]; rfl
      · simp [hx, Ne.symm hx]
    split
    · obtain ⟨st', g1, g2, g3, g4, g5, g6⟩ := ih _ (hrest ((st.freeDeg[adj] - 1, adj) :: st.heap))
      refine ⟨st', g1, g2, by simpa using g3, ?_, ?_, ?_⟩
      · intro x
        rw [g4 x]
        simp only
        rw [hgetD x, List.count_cons]
        simp only [beq_iff_eq]
        split <;> simp <;> omega
      · simp only [List.length_cons] at g5 ⊢; omega
      · intro p hp
        rcases g6 p hp with h | h
        · simp only [List.mem_cons] at h
          rcases h with rfl | h
          · exact Or.inr (by simp)
          · exact Or.inl h
        · exact Or.inr (List.mem_cons_of_mem _ h)
    · obtain ⟨st', g1, g2, g3, g4, g5, g6⟩ := ih _ (hrest st.heap)
      refine ⟨st', g1, g2, by simpa using g3, ?_, ?_, ?_⟩
      · intro x
        rw [g4 x]
        simp only
        rw [hgetD x, List.count_cons]
        simp only [beq_iff_eq]
        split <;> simp <;> omega
      · simp only [List.length_cons] at g5 ⊢; omega
      · intro p hp
        rcases g6 p hp with h | h
        · exact Or.inl h
        · exact Or.inr (List.mem_cons_of_mem _ h)

theorem filter_free_set {m : Matching} {a : Nat} (ha : m[a]? = some none) (v : Nat) :
    ∀ (l : List Nat), l.Nodup →
    (l.filter fun j => (m.set a (some v))[j]? == some none).length + (if a ∈ l then 1 else 0)
      = (l.filter fun j => m[j]? == some none).length := by
  intro l
  induction l with
  | nil => intro _; simp
  | cons x xs ih =>
    intro hnd
    simp only [List.nodup_cons] at hnd
    have := ih hnd.2
    simp only [List.filter_cons, List.mem_cons]
    by_cases hx : x = a
    · subst hx
      have h1 : ((m.set x (some v))[x]? == some none) = false := by
        rw [List.getElem?_set_self (lt_of_getElem?_some ha)]; rfl
      have h2 : (m[x]? == some none) = true := by rw [ha]; rfl
      simp only [h1, h2, Bool.false_eq_true, if_false, if_true, true_or, List.length_cons]
      simp only [hnd.1, if_false] at this
      omega
    · have h1 : (m.set a (some v))[x]? = m[x]? := List.getElem?_set_ne (Ne.symm hx)
      rw [h1]
      have h3 : (a = x ∨ a ∈ xs) ↔ a ∈ xs := ⟨fun h => h.resolve_left (Ne.symm hx), Or.inr⟩
      simp only [h3]
      split
      · simp only [List.length_cons]; omega
      · exact this

theorem firstFree_total (st : GreedySt) : ∀ (l : List Nat), (∀ i ∈ l, i < st.matching.length) →
    (∃ j ∈ l, st.matching[j]? = some none) → ∃ mate, greedyLoop.firstFree st l = .ok mate := by
  intro l
  induction l with
  | nil => intro _ ⟨j, hj, _⟩; cases hj
  | cons i is ih =>
    intro hl hex
    have hi := hl i (by simp)
    simp only [greedyLoop.firstFree, bind, Except.bind, getIdx_ok_of_lt hi]
    split
    · exact ⟨i, rfl⟩
    · rename_i hsome
      apply ih (fun x hx => hl x (List.mem_cons_of_mem _ hx))
      obtain ⟨j, hj, hjn⟩ := hex
      simp only [List.mem_cons] at hj
      rcases hj with rfl | hj
      · rw [List.getElem?_eq_getElem hi] at hjn
        cases hjn' : st.matching[j] with
        | none => rw [hjn'] at hsome; simp at hsome
        | some _ => rw [hjn'] at hjn; cases hjn
      · exact ⟨j, hj, hjn⟩

/-- `Σ_{i < n} f i` -/
def sumTo (f : Nat → Nat) : Nat → Nat
  | 0 => 0
  | n + 1 => sumTo f n + f n

theorem sumTo_congr {f f' : Nat → Nat} : ∀ n, (∀ i, i < n → f' i = f i) → sumTo f' n = sumTo f n
  | 0, _ => rfl
  | n + 1, h => by
    simp only [sumTo]
    rw [sumTo_congr n (fun i hi => h i (by omega)), h n (by omega)]

theorem sumTo_remove (f : Nat → Nat) (a : Nat) : ∀ n, a < n →
    sumTo (fun i => if i = a then 0 else f i) n + f a = sumTo f n
  | 0, h => by omega
  | n + 1, h => by
    simp only [sumTo]
    by_cases hn : a = n
    · subst hn
      simp only [if_true]
      have := sumTo_congr (f := f) (f' := fun i => if i = a then 0 else f i) a
        (fun i hi => by simp [Nat.ne_of_lt hi])
      omega
    · have := sumTo_remove f a n (by omega)
      simp only [Ne.symm hn, if_false]
      omega

/-- the potential that bounds the remaining iterations: total degree of the unmatched vertices -/
def unmatchedDeg (g : Graph) (m : Matching) : Nat :=
  sumTo (fun i => if m[i]? == some none then (g.getD i []).length else 0) g.length

theorem unmatchedDeg_match (g : Graph) (m : Matching) {a b : Nat} (ha : a < g.length) (hb : b < g.length)
    (hab : a ≠ b) (hma : m[a]? = some none) (hmb : m[b]? = some none) :
    unmatchedDeg g ((m.set a (some b)).set b (some a)) + (g.getD a []).length + (g.getD b []).length
      = unmatchedDeg g m := by
  unfold unmatchedDeg
  have h1 := sumTo_remove (fun i => if m[i]? == some none then (g.getD i []).length else 0) a g.length ha
  have h2 := sumTo_remove (fun i => if i = a then 0 else if m[i]? == some none then (g.getD i []).length else 0)
    b g.length hb
  simp only [hma, hmb, beq_self_eq_true, if_true, Ne.symm hab, if_false] at h1 h2
  have h3 : sumTo (fun i => if ((m.set a (some b)).set b (some a))[i]? == some none then (g.getD i []).length else 0) g.length
      = sumTo (fun i => if i = b then 0 else if i = a then 0 else if m[i]? == some none then (g.getD i []).length else 0) g.length := by
    apply sumTo_congr
    intro i _
    have hal := lt_of_getElem?_some hma
    have hbl := lt_of_getElem?_some hmb
    by_cases hib : i = b
    · subst hib
      rw [List.getElem?_set_self (by simpa using hbl)]; simp
    · rw [List.getElem?_set_ne (Ne.symm hib)]
      by_cases hia : i = a
      · subst hia
        rw [List.getElem?_set_self hal]; simp [hib]
      · rw [List.getElem?_set_ne (Ne.symm hia)]; simp [hib, hia]
  rw [h3]
  omega

theorem sumTo_eq_sum (g : Graph) : ∀ n, n ≤ g.length →
    sumTo (fun i => (g.getD i []).length) n = ((g.take n).map List.length).sum
  | 0, _ => by simp [sumTo]
  | n + 1, h => by
    simp only [sumTo]
    rw [sumTo_eq_sum g n (by omega), List.take_add_one, List.getElem?_eq_getElem (by omega)]
    simp only [Option.toList_some, List.map_append, List.map_cons, List.map_nil, List.sum_append,
      List.sum_cons, List.sum_nil, Nat.add_zero]
    rw [List.getD_eq_getElem?_getD, List.getElem?_eq_getElem (by omega)]; rfl

/-- invariant of the `while node_pqueue:` loop -/
structure GInv (g : Graph) (st : GreedySt) : Prop where
  valid : ValidPartial g st.matching
  fdlen : st.freeDeg.length = g.length
  fd : ∀ x, x < g.length → st.freeDeg.getD x 0 = (countFree g st.matching x : Int)
  heap : ∀ p ∈ st.heap, p.2 < g.length

theorem indicator_mem_symm {g : Graph} (hg : GraphOK g) (x a : Nat) :
    (if x ∈ g.getD a [] then 1 else 0 : Nat) = (if a ∈ g.getD x [] then 1 else 0) := by
  have : x ∈ g.getD a [] ↔ a ∈ g.getD x [] := by
    have e1 := adj_iff_contains g a x
    have e2 := adj_iff_contains g x a
    simp only [List.contains_iff_mem] at e1 e2
    rw [e1, e2]
    exact ⟨hg.symm a x, hg.symm x a⟩
  simp only [this]

theorem greedyLoop_total {g : Graph} (hg : GraphOK g) : ∀ (fuel : Nat) (st : GreedySt), GInv g st →
    st.heap.length + unmatchedDeg g st.matching ≤ fuel → ∃ m, greedyLoop g fuel st = .ok m := by
  intro fuel
  induction fuel with
  | zero =>
    intro st _ hf
    have : st.heap = [] := List.eq_nil_of_length_eq_zero (by omega)
    exact ⟨st.matching, by simp [greedyLoop, this]⟩
  | succ fuel ih =>
    intro st inv hf
    simp only [greedyLoop]
    cases hpop : heapPopMin st.heap with
    | none => exact ⟨st.matching, rfl⟩
    | some res =>
      obtain ⟨⟨d, node⟩, heap'⟩ := res
      obtain ⟨p1, p2, p3⟩ := heapPopMin_spec _ _ _ hpop
      have hnode : node < g.length := inv.heap _ p1
      have hmlen : st.matching.length = g.length := inv.valid.length_eq
      simp only [bind, Except.bind]
      have e1 : getIdx st.matching node = .ok st.matching[node] := getIdx_ok_of_lt (hmlen ▸ hnode)
      have hfl : node < st.freeDeg.length := by rw [inv.fdlen]; exact hnode
      have e2 : getIdx st.freeDeg node = .ok st.freeDeg[node] := getIdx_ok_of_lt hfl
      simp only [e1, e2]
      split
      · -- node cannot be matched
        apply ih
        · exact ⟨inv.valid, inv.fdlen, inv.fd, fun p hp => inv.heap p (p3 p hp)⟩
        · simp only; omega
      · rename_i hcond
        simp only [Bool.or_eq_true, Option.isSome_iff_ne_none, ne_eq, beq_iff_eq, not_or,
          Decidable.not_not] at hcond
        obtain ⟨hmn, hfd0⟩ := hcond
        have hnone : st.matching[node]? = some none := by
          rw [List.getElem?_eq_getElem (hmlen ▸ hnode), hmn]
        have e3 : getIdx g node = .ok g[node] := getIdx_ok_of_lt hnode
        simp only [e3]
        have hgetD : g.getD node [] = g[node] := getD_of_getElem? (List.getElem?_eq_getElem hnode)
        -- an unmatched neighbour exists
        have hfdn := inv.fd node hnode
        rw [List.getD_eq_getElem?_getD, List.getElem?_eq_getElem hfl] at hfdn
        simp only [Option.getD_some] at hfdn
        have hcf : countFree g st.matching node ≠ 0 := by
          intro h0; rw [h0] at hfdn; exact hfd0 hfdn
        have hex : ∃ j ∈ g[node], st.matching[j]? = some none := by
          unfold countFree at hcf
          rw [hgetD] at hcf
          obtain ⟨j, hj⟩ := List.exists_mem_of_length_pos (Nat.pos_of_ne_zero hcf)
          obtain ⟨hj1, hj2⟩ := List.mem_filter.1 hj
          exact ⟨j, hj1, by simpa using hj2⟩
        have hnbr : ∀ i ∈ g[node], i < g.length := fun i hi =>
          hg.inRange node i ⟨_, List.getElem?_eq_getElem hnode, hi⟩
        obtain ⟨mate, hmate⟩ := firstFree_total { st with heap := heap' } g[node]
          (fun i hi => by simpa [hmlen] using hnbr i hi) hex
        simp only [hmate]
        obtain ⟨hmem, hfree⟩ := firstFree_spec _ _ _ hmate
        have hfree' : st.matching[mate]? = some none := hfree
        have hmateN : mate < g.length := hnbr mate hmem
        have e4 : getIdx st.matching mate = .ok st.matching[mate] := getIdx_ok_of_lt (hmlen ▸ hmateN)
        have e5 : getIdx g mate = .ok g[mate] := getIdx_ok_of_lt hmateN
        simp only [e4, e5]
        have hadj : Adj g node mate := ⟨_, List.getElem?_eq_getElem hnode, hmem⟩
        have hne : node ≠ mate := fun e => hg.noLoop node (e ▸ hadj)
        have hgetD' : g.getD mate [] = g[mate] := getD_of_getElem? (List.getElem?_eq_getElem hmateN)
        -- the inner loop
        obtain ⟨st3, u1, u2, u3, u4, u5, u6⟩ := greedyUpdate_spec (g[node] ++ g[mate])
          { matching := (st.matching.set node (some mate)).set mate (some node),
            freeDeg := st.freeDeg, heap := heap' }
          (by
            intro a ha
            simp only [List.mem_append] at ha
            have : a < g.length := by
              rcases ha with ha | ha
              · exact hnbr a ha
              · exact hg.inRange mate a ⟨_, List.getElem?_eq_getElem hmateN, ha⟩
            simp [inv.fdlen, hmlen, this])
        simp only [u1]
        have u2' : st3.matching = (st.matching.set node (some mate)).set mate (some node) := u2
        have u5' : st3.heap.length ≤ heap'.length + (g[node] ++ g[mate]).length := u5
        apply ih
        · refine ⟨?_, by rw [u3]; exact inv.fdlen, ?_, ?_⟩
          · rw [u2]; exact inv.valid.add_edge hnone hfree' hne hadj (hg.symm _ _ hadj)
          · intro x hx
            rw [u4 x, u2]
            simp only
            rw [inv.fd x hx, List.count_append,
              (hg.nodup node _ (List.getElem?_eq_getElem hnode)).count,
              (hg.nodup mate _ (List.getElem?_eq_getElem hmateN)).count]
            have hxl : g.getD x [] = g[x] := getD_of_getElem? (List.getElem?_eq_getElem hx)
            have hndx : (g.getD x []).Nodup := by rw [hxl]; exact hg.nodup x _ (List.getElem?_eq_getElem hx)
            have c1 := filter_free_set hnone mate (g.getD x []) hndx
            have hfree1 : (st.matching.set node (some mate))[mate]? = some none := by
              rw [List.getElem?_set_ne hne]; exact hfree'
            have c2 := filter_free_set hfree1 node (g.getD x []) hndx
            have s1 := indicator_mem_symm hg x node
            have s2 := indicator_mem_symm hg x mate
            rw [hgetD] at s1; rw [hgetD'] at s2
            unfold countFree
            omega
          · intro p hp
            rcases u6 p hp with h | h
            · exact inv.heap p (p3 p h)
            · simp only [List.mem_append] at h
              rcases h with h | h
              · exact hnbr _ h
              · exact hg.inRange mate _ ⟨_, List.getElem?_eq_getElem hmateN, h⟩
        · rw [u2']
          have := unmatchedDeg_match g st.matching hnode hmateN hne hnone hfree'
          rw [hgetD, hgetD'] at this
          simp only [List.length_append] at u5'
          omega

theorem countFree_init {g : Graph} (hg : GraphOK g) {x : Nat} (hx : x < g.length) :
    countFree g (List.replicate g.length none) x = g[x].length := by
  unfold countFree
  rw [getD_of_getElem? (List.getElem?_eq_getElem hx)]
  congr 1
  rw [List.filter_eq_self]
  intro j hj
  have : j < g.length := hg.inRange x j ⟨_, List.getElem?_eq_getElem hx, hj⟩
  simp [this]

theorem unmatchedDeg_le (g : Graph) (m : Matching) : unmatchedDeg g m ≤ degreeSum g := by
  unfold unmatchedDeg degreeSum
  have h1 : ∀ n, sumTo (fun i => if m[i]? == some none then (g.getD i []).length else 0) n
      ≤ sumTo (fun i => (g.getD i []).length) n := by
    intro n
    induction n with
    | zero => exact Nat.le_refl _
    | succ n ih =>
      simp only [sumTo]
      split <;> omega
  have h2 := sumTo_eq_sum g g.length (Nat.le_refl _)
  rw [List.take_length] at h2
  have := h1 g.length
  omega

/-- `_greedy_matching` never raises: no `StopIteration`, no `IndexError`, and the model's fuel suffices -/
theorem greedyMatching_total {g : Graph} (hg : GraphOK g) : ∃ m, greedyMatching g = .ok m := by
  unfold greedyMatching
  apply greedyLoop_total hg
  · refine ⟨validPartial_replicate g, by simp, ?_, ?_⟩
    · intro x hx
      simp only
      rw [countFree_init hg hx, List.getD_eq_getElem?_getD, List.getElem?_map,
        List.getElem?_eq_getElem hx]
      rfl
    · intro p hp
      simp only [List.mem_map, List.mem_range] at hp
      obtain ⟨i, hi, rfl⟩ := hp
      exact hi
  · have := unmatchedDeg_le g (List.replicate g.length none)
    simp only [List.length_map, List.length_range]
    omega

end SV
