/-
  C01r, stages (c)/(d): the reader on the tokens of a whole subtree.

  `StmtA g f`: running the parser over the units of the subtree at atom `i` (entered from its
  parent `p` through a chain bond) extends the graph by exactly that subtree: the atoms
  `i, …, i+m-1`, all their bonds, and the bond at `p`.
  `StmtB g f`: the same for the out-bonds of one atom from position `c` on.
  Ring bonds whose partner comes later leave a placeholder and an entry in the ring log; they are
  filled when the partner is read (`step_ring`).  The pre-order numbering of the parser agrees
  with the numbering of `g` because the visit lists are index intervals (`visits … = range' …`).
-/
import SelfiesVerif.Proofs.ReaderSimRing

namespace SV

/-! ### index intervals -/

theorem range'_append_split {a b : List Nat} {s m : Nat} (h : a ++ b = List.range' s m) :
    a = List.range' s a.length ∧ b = List.range' (s + a.length) (m - a.length) ∧ a.length ≤ m := by
  have hl : a.length + b.length = m := by
    have := congrArg List.length h
    simpa using this
  have hsplit : List.range' s m = List.range' s a.length ++ List.range' (s + a.length) b.length := by
    rw [← hl, List.range'_append_1]
  rw [hsplit] at h
  have h1 := List.append_inj_left h (by simp)
  have h2 := List.append_inj_right h (by simp)
  have hb : m - a.length = b.length := by omega
  exact ⟨h1, by rw [hb]; exact h2, by omega⟩

theorem visits_succ (g : Mol) (f i : Nat) :
    visits g (f + 1) i = i :: (chainDsts (g.row i)).flatMap (visits g f) := rfl

theorem range'_cons_inv {x : Nat} {l : List Nat} {s m : Nat} (h : x :: l = List.range' s m) :
    x = s ∧ 1 ≤ m ∧ l = List.range' (s + 1) (m - 1) := by
  cases m with
  | zero => simp at h
  | succ m =>
    rw [List.range'_succ] at h
    simp only [List.cons.injEq] at h
    exact ⟨h.1, by omega, by simpa using h.2⟩

theorem rBonds_ring (sub : Str → Nat → List RP) {b : DirBond} (rest : List DirBond) (h : b.ring = true) :
    rBonds sub (b :: rest) = .ring (bondText b) b.src b.dst :: rBonds sub rest := by
  rw [rBonds, if_pos h]

theorem rBonds_last (sub : Str → Nat → List RP) {b : DirBond} (h : b.ring = false) :
    rBonds sub [b] = sub (bondText b) b.dst := by
  rw [rBonds]; simp [h]

theorem rBonds_branch (sub : Str → Nat → List RP) {b : DirBond} (b2 : DirBond) (rest : List DirBond)
    (h : b.ring = false) :
    rBonds sub (b :: b2 :: rest)
      = .open_ :: (sub (bondText b) b.dst ++ .close :: rBonds sub (b2 :: rest)) := by
  rw [rBonds]; simp [h]

/-! ### the invariant only looks at the graph and the ring log -/

theorem RdSim.of_eq {g : Mol} {k : Nat} {cnt : Nat → Nat} {log : RingLog} {rts : List Nat} {st st' : ParseSt}
    (hs : RdSim g k cnt log rts st) (h1 : st'.mol = st.mol) (h2 : st'.ringLog = st.ringLog) :
    RdSim g k cnt log rts st' :=
  ⟨hs.c, by rw [h1]; exact hs.gr, by rw [h2]; exact hs.r⟩

/-! ### counters after a subtree -/

/-- after the subtree at `i` (atoms `i … i+m-1`) entered from `p` -/
def cntA (g : Mol) (cnt : Nat → Nat) (p i m : Nat) : Nat → Nat :=
  fun j => if i ≤ j ∧ j < i + m then (g.row j).length else cntBump cnt p j

/-- after the remaining out-bonds of `i`, whose subtrees are the atoms `k … k+m-1` -/
def cntB (g : Mol) (cnt : Nat → Nat) (i k m : Nat) : Nat → Nat :=
  fun j => if j = i then (g.row i).length else if k ≤ j ∧ j < k + m then (g.row j).length else cnt j

/-! ### the two statements -/

def StmtA (g : Mol) (f : Nat) : Prop :=
  ∀ (i m : Nat) (st : ParseSt) (cnt : Nat → Nat) (log : RingLog) (rts : List Nat) (p : Nat) (b : DirBond)
    (stk : List (Option Nat)),
    i < g.atoms.length → g.atoms.length ≤ f + i → visits g f i = List.range' i m →
    RdSim g i cnt log rts st → st.prevStack = some p :: stk → p < i →
    (g.row p)[cnt p]? = some b → b.ring = false → b.dst = i →
    ∃ st', (∀ rest, parseFragmentLoop false (rLex log (rAtom g f (bondText b) i) ++ rest) st
              = parseFragmentLoop false rest st') ∧
      RdSim g (i + m) (cntA g cnt p i m) (rLog log (rAtom g f (bondText b) i)) rts st' ∧
      (∃ j', st'.prevStack = some j' :: stk) ∧ st'.branchDepth = st.branchDepth ∧
      st'.chainStart = false

def StmtB (g : Mol) (f : Nat) : Prop :=
  ∀ (l : List DirBond) (i c k m : Nat) (st : ParseSt) (cnt : Nat → Nat) (log : RingLog) (rts : List Nat)
    (stk : List (Option Nat)),
    (g.row i).drop c = l → i < k → g.atoms.length ≤ f + i + 1 → cnt i = c →
    (chainDsts l).flatMap (visits g f) = List.range' k m →
    RdSim g k cnt log rts st → st.prevStack = some i :: stk → st.chainStart = false →
    ∃ st', (∀ rest, parseFragmentLoop false (rLex log (rBonds (rAtom g f) l) ++ rest) st
              = parseFragmentLoop false rest st') ∧
      RdSim g (k + m) (cntB g cnt i k m) (rLog log (rBonds (rAtom g f) l)) rts st' ∧
      (∃ j', st'.prevStack = some j' :: stk) ∧ st'.branchDepth = st.branchDepth ∧
      st'.chainStart = false

theorem drop_cons_getElem? {α} {l : List α} {c : Nat} {x : α} {l' : List α} (h : l.drop c = x :: l') :
    l[c]? = some x ∧ l.drop (c + 1) = l' := by
  constructor
  · have := congrArg List.head? h
    simpa [List.head?_drop] using this
  · have := congrArg List.tail h
    simpa [List.tail_drop] using this

theorem chainDsts_cons (b : DirBond) (l : List DirBond) :
    chainDsts (b :: l) = if b.ring then chainDsts l else b.dst :: chainDsts l := by
  unfold chainDsts
  cases hb : b.ring <;> simp [hb]

/-- the out-bonds, given the subtrees -/
theorem simB {g : Mol} (hg : WGraph g) {f : Nat} (hA : StmtA g f) : StmtB g f := by
  intro l
  induction l with
  | nil =>
    intro i c k m st cnt log rts stk hl hik hfuel hci hvis hs hstack hcs
    have hm : m = 0 := by
      have := congrArg List.length hvis
      simpa [chainDsts] using this.symm
    subst hm
    have hlen : (g.row i).length = c := by
      have h1 : (g.row i).length ≤ c := by
        have := congrArg List.length hl
        simp only [List.length_drop, List.length_nil] at this
        omega
      have h2 := hs.c.le i
      omega
    refine ⟨st, fun rest => by simp [rBonds, rLex], ?_, ⟨i, hstack⟩, rfl, hcs⟩
    have : cntB g cnt i k 0 = cnt := by
      funext j
      unfold cntB
      by_cases hj : j = i
      · subst hj; simp [hlen, hci]
      · simp [hj]; omega
    rw [this]
    simpa [rBonds] using hs
  | cons b l' ih =>
    intro i c k m st cnt log rts stk hl hik hfuel hci hvis hs hstack hcs
    obtain ⟨hb, hl'⟩ := drop_cons_getElem? hl
    rw [← hci] at hb
    have hbm := getElem?_mem_row hb
    have hin : i < g.atoms.length := hg.row_mem_lt hbm
    obtain ⟨hbs, hdlt, _, _, _, hchainlt⟩ := hg.row_bonds hin b hbm
    cases hr : b.ring with
    | true =>
      -- a ring-closure digit
      rw [chainDsts_cons, hr] at hvis
      simp only [if_true] at hvis
      obtain ⟨st1, hrun1, hs1, hst1, hbd1, hcs1⟩ := step_ring hg hs hik hb hr stk hstack hcs
      obtain ⟨st2, hrun2, hs2, hst2, hbd2, hcs2⟩ :=
        ih i (c + 1) k m st1 (cntBump cnt i) (ringStep log b.src b.dst).2 rts stk hl' hik hfuel
          (by rw [cntBump_self, hci]) hvis hs1 hst1 hcs1
      refine ⟨st2, fun rest => ?_, ?_, hst2, by rw [hbd2, hbd1], hcs2⟩
      · rw [rBonds_ring _ _ hr]
        simp only [rLex, List.cons_append]
        rw [hrun1, hrun2]
      · have : cntB g (cntBump cnt i) i k m = cntB g cnt i k m := by
          funext j
          unfold cntB
          by_cases hj : j = i
          · simp [hj]
          · simp [hj, cntBump_ne cnt hj]
        rw [this] at hs2
        rw [rBonds_ring _ _ hr, rLog_ring]
        exact hs2
    | false =>
      have hlt : i < b.dst := by have := hchainlt hr; omega
      rw [chainDsts_cons, hr] at hvis
      simp only [Bool.false_eq_true, if_false, List.flatMap_cons] at hvis
      obtain ⟨hv1, hv2, hm1⟩ := range'_append_split hvis
      -- the child is the next atom
      obtain ⟨f', rfl⟩ : ∃ f', f = f' + 1 := ⟨f - 1, by omega⟩
      have hdk : b.dst = k := by
        rw [visits_succ] at hv1
        exact (range'_cons_inv hv1).1
      subst hdk
      cases l' with
      | nil =>
        -- the last out-bond: the chain goes on
        simp only [chainDsts, List.filter_nil, List.map_nil, List.flatMap_nil, List.append_nil] at hvis
        obtain ⟨st1, hrun1, hs1, hst1, hbd1, hcs1⟩ :=
          hA b.dst m st cnt log rts i b stk hdlt (by omega) hvis hs hstack hik hb hr rfl
        refine ⟨st1, fun rest => ?_, ?_, hst1, hbd1, hcs1⟩
        · rw [rBonds_last _ hr]
          exact hrun1 rest
        · have hlen : (g.row i).length = cnt i + 1 := by
            have := congrArg List.length hl
            simp only [List.length_drop, List.length_cons, List.length_nil] at this
            omega
          have : cntA g cnt i b.dst m = cntB g cnt i b.dst m := by
            funext j
            unfold cntA cntB
            by_cases hj : j = i
            · subst hj
              have : ¬ (b.dst ≤ j ∧ j < b.dst + m) := by omega
              simp [this, hlen]
            · simp [hj, cntBump_ne cnt hj]
          rw [this] at hs1
          rw [rBonds_last _ hr]
          exact hs1
      | cons b2 l'' =>
        -- a parenthesised branch
        have hopen := run_open st (some i) stk
        have hs0 : RdSim g b.dst cnt log rts
            { st with prevStack := some i :: some i :: stk, branchDepth := st.branchDepth + 1,
                      chainStart := true, i := st.i + 1 } := hs.of_eq rfl rfl
        obtain ⟨st1, hrun1, hs1, ⟨j1, hst1⟩, hbd1, hcs1⟩ :=
          hA b.dst (visits g (f' + 1) b.dst).length _ cnt log rts i b (some i :: stk) hdlt (by omega) hv1 hs0 rfl
            hik hb hr rfl
        have hs2 : RdSim g (b.dst + (visits g (f' + 1) b.dst).length)
            (cntA g cnt i b.dst (visits g (f' + 1) b.dst).length)
            (rLog log (rAtom g (f' + 1) (bondText b) b.dst)) rts
            { st1 with prevStack := some i :: stk, branchDepth := st1.branchDepth - 1, i := st1.i + 1 } :=
          hs1.of_eq rfl rfl
        have hc2 : cntA g cnt i b.dst (visits g (f' + 1) b.dst).length i = c + 1 := by
          unfold cntA
          have : ¬ (b.dst ≤ i ∧ i < b.dst + (visits g (f' + 1) b.dst).length) := by omega
          simp [this, hci]
        obtain ⟨st3, hrun3, hs3, hst3, hbd3, hcs3⟩ :=
          ih i (c + 1) (b.dst + (visits g (f' + 1) b.dst).length) (m - (visits g (f' + 1) b.dst).length) _
            (cntA g cnt i b.dst (visits g (f' + 1) b.dst).length) _ rts stk hl' (by omega) hfuel hc2 hv2
            hs2 rfl hcs1
        refine ⟨st3, fun rest => ?_, ?_, hst3, ?_, hcs3⟩
        · rw [rBonds_branch _ _ _ hr]
          simp only [rLex, List.cons_append, rLex_append, List.append_assoc]
          rw [hopen _ hcs hstack, hrun1,
            run_close st1 (some j1) (some i :: stk) _ hcs1 (by rw [hbd1]; simp) hst1]
          exact hrun3 rest
        · have e1 : b.dst + (visits g (f' + 1) b.dst).length + (m - (visits g (f' + 1) b.dst).length)
              = b.dst + m := by omega
          have e2 : cntB g (cntA g cnt i b.dst (visits g (f' + 1) b.dst).length) i
              (b.dst + (visits g (f' + 1) b.dst).length) (m - (visits g (f' + 1) b.dst).length)
              = cntB g cnt i b.dst m := by
            funext j
            unfold cntB cntA
            by_cases hj : j = i
            · simp [hj]
            · simp only [hj, if_false, cntBump_ne cnt hj]
              by_cases h1 : b.dst + (visits g (f' + 1) b.dst).length ≤ j ∧
                  j < b.dst + (visits g (f' + 1) b.dst).length + (m - (visits g (f' + 1) b.dst).length)
              · have h2 : b.dst ≤ j ∧ j < b.dst + m := by omega
                simp [h1, h2]
              · by_cases h3 : b.dst ≤ j ∧ j < b.dst + (visits g (f' + 1) b.dst).length
                · have h2 : b.dst ≤ j ∧ j < b.dst + m := by omega
                  simp [h1, h2, h3]
                · have h2 : ¬ (b.dst ≤ j ∧ j < b.dst + m) := by omega
                  simp [h1, h2, h3]
          rw [e1, e2] at hs3
          rw [rBonds_branch _ _ _ hr, rLog_open, rLog_append, rLog_close]
          exact hs3
        · rw [hbd3]
          show st1.branchDepth - 1 = st.branchDepth
          rw [hbd1]; simp

/-- the subtree below an atom that is bonded to its parent -/
theorem simA {g : Mol} (hg : WGraph g) (hR : AtomsRead g) : ∀ f, StmtA g f := by
  intro f
  induction f with
  | zero => intro i m st cnt log rts p b stk h1 h2; omega
  | succ f ih =>
    intro i m st cnt log rts p b stk hin hfuel hvis hs hstack hpi hb hchain hd
    rw [visits_succ] at hvis
    obtain ⟨_, hm1, hvis'⟩ := range'_cons_inv hvis
    obtain ⟨st1, hrun1, hs1, hst1, hbd1, hcs1⟩ := step_attach hg hR hs hin hpi hb hchain hd stk hstack
    have hci : cntBump cnt p i = 0 := by
      rw [cntBump_ne cnt (by omega)]; exact hs.c.zero i (Nat.le_refl _)
    obtain ⟨st2, hrun2, hs2, hst2, hbd2, hcs2⟩ :=
      simB hg ih (g.row i) i 0 (i + 1) (m - 1) st1 (cntBump cnt p) log rts stk (by simp) (by omega)
        (by omega) hci hvis' hs1 hst1 hcs1
    refine ⟨st2, fun rest => ?_, ?_, hst2, by rw [hbd2, hbd1], hcs2⟩
    · simp only [rAtom, rLex, List.cons_append]
      rw [hrun1, hrun2]
    · have e1 : i + 1 + (m - 1) = i + m := by omega
      have e2 : cntB g (cntBump cnt p) i (i + 1) (m - 1) = cntA g cnt p i m := by
        funext j
        unfold cntB cntA
        by_cases hj : j = i
        · subst hj
          have : j ≤ j ∧ j < j + m := by omega
          simp [this]
        · by_cases h1 : i + 1 ≤ j ∧ j < i + 1 + (m - 1)
          · have h2 : i ≤ j ∧ j < i + m := by omega
            simp [hj, h1, h2]
          · have h2 : ¬ (i ≤ j ∧ j < i + m) := by omega
            simp [hj, h1, h2]
      rw [e1, e2] at hs2
      simpa [rAtom, rLog_atom] using hs2

end SV
