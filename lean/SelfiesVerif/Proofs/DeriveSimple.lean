/-
  Totality, part 2: facts about a successful `deriveLoop` call that need no graph invariant:
  the stream that is left is a suffix of the stream it started with, the molecule only grows,
  every ring request points to existing atoms, no atom is aromatic.
-/
import SelfiesVerif.Proofs.StreamTotal

namespace SV

def PrevLt (prev : Option Nat) (m : Mol) : Prop := ∀ p, prev = some p → p < m.atoms.length
def RingsLt (rings : List RingReq) (m : Mol) : Prop := ∀ r ∈ rings, r.2.1 < m.atoms.length
def NonArom (m : Mol) : Prop := ∀ a ∈ m.atoms, a.isAromatic = false

/-- every out-bond list is in creation order: strictly increasing end points, all existing atoms -/
def RowsSorted (m : Mol) : Prop :=
  ∀ (k : Nat) (row : List DirBond), m.adj[k]? = some row →
    row.Pairwise (fun b b' => b.dst < b'.dst) ∧ ∀ b ∈ row, b.dst < m.atoms.length

theorem PrevLt.mono {prev m m'} (h : PrevLt prev m) (hm : m.atoms.length ≤ m'.atoms.length) :
    PrevLt prev m' := fun p hp => Nat.lt_of_lt_of_le (h p hp) hm
theorem RingsLt.mono {rings m m'} (h : RingsLt rings m) (hm : m.atoms.length ≤ m'.atoms.length) :
    RingsLt rings m' := fun r hr => Nat.lt_of_lt_of_le (h r hr) hm
theorem PrevLt_none (m) : PrevLt none m := fun _ h => by cases h

structure Simple (s : Stream) (m : Mol) (rings : List RingReq) (prev : Option Nat) (st' : DState) : Prop where
  suffix : st'.stream.Suffix s
  size : m.atoms.length ≤ st'.mol.atoms.length
  rings : PrevLt prev m → RingsLt rings m → RingsLt st'.rings st'.mol
  arom : NonArom m → NonArom st'.mol
  sorted : RowsSorted m → RowsSorted st'.mol

theorem Simple.base {s m rings prev} {st' : DState} (h1 : st'.stream.Suffix s)
    (h2 : st'.mol = m ∧ st'.rings = rings) : Simple s m rings prev st' := by
  refine ⟨h1, by rw [h2.1]; exact Nat.le_refl _, ?_, ?_, ?_⟩
  · intro _ h; rw [h2.1, h2.2]; exact h
  · intro h; rw [h2.1]; exact h
  · intro h; rw [h2.1]; exact h

theorem Simple.step {s m rings prev s1 m1 rings1 prev1 st'}
    (hs : s1.Suffix s) (hm : m.atoms.length ≤ m1.atoms.length)
    (hr : PrevLt prev m → RingsLt rings m → RingsLt rings1 m1 ∧ PrevLt prev1 m1)
    (ha : (NonArom m → NonArom m1) ∧ (RowsSorted m → RowsSorted m1))
    (h : Simple s1 m1 rings1 prev1 st') : Simple s m rings prev st' :=
  ⟨h.suffix.trans hs, Nat.le_trans hm h.size,
   fun h1 h2 => h.rings (hr h1 h2).2 (hr h1 h2).1, fun h1 => h.arom (ha.1 h1),
   fun h1 => h.sorted (ha.2 h1)⟩

/-- only the stream moved -/
theorem Simple.stream {s m rings prev s1 st'} (hs : s1.Suffix s)
    (h : Simple s1 m rings prev st') : Simple s m rings prev st' :=
  h.step hs (Nat.le_refl _) (fun h1 h2 => ⟨h2, h1⟩) ⟨id, id⟩

theorem processAtomSelfiesNoCache_nonarom {sym bi a} (h : processAtomSelfiesNoCache sym = some (bi, a)) :
    a.isAromatic = false := by
  unfold processAtomSelfiesNoCache at h
  simp only [smilesToBond] at h
  repeat' split at h
  all_goals (try cases h)
  all_goals rfl

theorem processAtomSymbol_nonarom {T sym bi a} (h : processAtomSymbol T sym = some (bi, a)) :
    a.isAromatic = false := by
  unfold processAtomSymbol at h
  split at h
  · cases h
  · rename_i bi' a' heq
    split at h
    · cases h
    · cases h; exact processAtomSelfiesNoCache_nonarom heq

theorem addBond_atoms {m : Mol} {src dst order st attr m'} (h : m.addBond src dst order st attr = .ok m') :
    m'.atoms = m.atoms := by
  unfold Mol.addBond at h
  bind_at h with ⟨_, _, h⟩
  bind_at h with ⟨_, _, h⟩
  bind_at h with ⟨_, _, h⟩
  bind_at h with ⟨_, _, h⟩
  cases h; rfl

theorem NonArom.addAtom {m : Mol} (h : NonArom m) {a : Atom} (ha : a.isAromatic = false) (root attr) :
    NonArom (m.addAtom a root attr).1 := by
  intro x hx
  simp only [Mol.addAtom, List.mem_append, List.mem_singleton] at hx
  rcases hx with hx | rfl
  · exact h x hx
  · exact ha

theorem RowsSorted.addAtom {m : Mol} (h : RowsSorted m) (a : Atom) (root attr) :
    RowsSorted (m.addAtom a root attr).1 := by
  intro k row hk
  simp only [Mol.addAtom, List.length_append, List.length_cons, List.length_nil] at hk ⊢
  rw [List.getElem?_append] at hk
  split at hk
  · obtain ⟨h1, h2⟩ := h k row hk
    exact ⟨h1, fun b hb => Nat.lt_succ_of_lt (h2 b hb)⟩
  · rw [List.getElem?_singleton] at hk
    split at hk
    · cases hk; exact ⟨List.Pairwise.nil, fun b hb => by cases hb⟩
    · cases hk

theorem addBond_adj {m : Mol} {src dst order st attr m'} (h : m.addBond src dst order st attr = .ok m') :
    ∃ row, m.adj[src]? = some row ∧ m'.adj = m.adj.set src
      (row ++ [{ src := src, dst := dst, order := order, stereo := st, ring := false, attr := attr }]) := by
  unfold Mol.addBond at h
  bind_at h with ⟨_, _, h⟩
  bind_at h with ⟨adj', h1, h⟩
  bind_at h with ⟨_, _, h⟩
  bind_at h with ⟨_, _, h⟩
  cases h
  unfold Mol.appendOut at h1
  split at h1
  · cases h1; exact ⟨_, by assumption, rfl⟩
  · cases h1

/-- appending the bond to the atom just created keeps the rows in creation order -/
theorem RowsSorted.addAtomBond {m : Mol} (h : RowsSorted m) {a : Atom} {attr attr' p bo st m'}
    (hab : (m.addAtom a false attr).1.addBond p m.atoms.length bo st attr' = .ok m') : RowsSorted m' := by
  obtain ⟨row, hrow, eadj⟩ := addBond_adj hab
  have eat : m'.atoms = m.atoms ++ [a] := by rw [addBond_atoms hab]; rfl
  have h0 := h.addAtom a false attr
  have hrow0 : row.Pairwise (fun b b' => b.dst < b'.dst) ∧ ∀ b ∈ row, b.dst < m.atoms.length := by
    simp only [Mol.addAtom] at hrow
    rw [List.getElem?_append] at hrow
    split at hrow
    · exact h p row hrow
    · rw [List.getElem?_singleton] at hrow
      split at hrow
      · cases hrow; exact ⟨List.Pairwise.nil, fun b hb => by cases hb⟩
      · cases hrow
  intro k row' hk
  rw [eadj, List.getElem?_set] at hk
  rw [eat]
  split at hk
  · split at hk
    · cases hk
      refine ⟨?_, ?_⟩
      · rw [List.pairwise_append]
        refine ⟨hrow0.1, by simp, ?_⟩
        intro x hx y hy
        simp only [List.mem_singleton] at hy
        subst hy
        exact hrow0.2 x hx
      · intro b hb
        rcases List.mem_append.mp hb with hb | hb
        · have := hrow0.2 b hb; simp; omega
        · simp only [List.mem_singleton] at hb
          subst hb; simp
    · cases hk
  · have := h0 k row' hk
    simpa [Mol.addAtom] using this

theorem deriveLoop_simple (T : Table) (compat : Bool) : ∀ (fuel depth : Nat) (st : DState) (maxDerive : Option Nat)
    (nDerived state : Nat) (prev : Option Nat) (attrStack : Option (List Attribution)) (attrIndex : Nat)
    (r : DState × Nat),
    deriveLoop T compat fuel depth st maxDerive nDerived state prev attrStack attrIndex = .ok r →
    Simple st.stream st.mol st.rings prev r.1 := by
  intro fuel
  induction fuel with
  | zero => intro _ _ _ _ _ _ _ _ _ h; simp [deriveLoop] at h
  | succ fuel ih =>
    intro depth st maxDerive nDerived state prev attrStack attrIndex r h
    unfold deriveLoop at h
    dsimp only at h
    split at h
    · exact Simple.base (fin_suffix h) (fin_ok h)
    · bind_at h with ⟨nx, hnx, h⟩
      split at h
      · exact Simple.base (fin_suffix h) (fin_ok h)
      · rename_i index symbol stream'
        have hsx := (Stream.next_suffix hnx).1
        apply Simple.stream hsx
        split at h
        · -- branch
          split at h
          · cases h
          · rename_i btype n hbr
            split at h
            · exact ih _ _ _ _ _ _ _ _ _ h
            · bind_at h with ⟨⟨binit, nextState⟩, hnb, h⟩
              dsimp only at h
              bind_at h with ⟨⟨q, nRead, stream2⟩, hri, h⟩
              dsimp only at h
              split at h
              · cases h
              · bind_at h with ⟨⟨st1, nb⟩, hrec, h⟩
                dsimp only at h
                have g1 := ih _ _ _ _ _ _ _ _ _ hrec
                have g2 := ih _ _ _ _ _ _ _ _ _ h
                dsimp only at g1
                apply Simple.stream (readIndex_ok compat _ _ _ _ _ _ _ hri)
                exact g2.step g1.suffix g1.size
                  (fun h1 h2 => ⟨g1.rings h1 h2, h1.mono g1.size⟩) ⟨g1.arom, g1.sorted⟩
        · split at h
          · -- ring
            split at h
            · cases h
            · rename_i rtype n stereo hrs
              split at h
              · exact ih _ _ _ _ _ _ _ _ _ h
              · bind_at h with ⟨⟨order, nextState⟩, hnr, h⟩
                dsimp only at h
                bind_at h with ⟨⟨q, nRead, stream2⟩, hri, h⟩
                dsimp only at h
                split at h
                · cases h
                · rename_i p
                  bind_at h with ⟨_, _, h⟩
                  apply Simple.stream (readIndex_ok compat _ _ _ _ _ _ _ hri)
                  have hR' : PrevLt (some p) st.mol → RingsLt st.rings st.mol →
                      RingsLt (st.rings ++ [(p - (q + 1), p, order, stereo)]) st.mol ∧
                        PrevLt (some p) st.mol := by
                    intro h1 h2
                    refine ⟨?_, h1⟩
                    intro r hr
                    rcases List.mem_append.mp hr with hr | hr
                    · exact h2 r hr
                    · simp at hr; subst hr; exact h1 p rfl
                  split at h
                  · exact (Simple.base (prev := some p) (fin_suffix h) (fin_ok h)).step
                      (Stream.Suffix.refl _) (Nat.le_refl _) hR' ⟨id, id⟩
                  · exact (ih _ _ _ _ _ _ _ _ _ h).step (Stream.Suffix.refl _) (Nat.le_refl _) hR' ⟨id, id⟩
          · split at h
            · -- epsilon
              split at h
              · exact ih _ _ _ _ _ _ _ _ _ h
              · exact Simple.base (fin_suffix h) (fin_ok h)
            · -- atom
              split at h
              · cases h
              · rename_i bondOrder stereo atom hpa
                have hna := processAtomSymbol_nonarom hpa
                generalize nextAtomState bondOrder (Atom.bondingCapacity T atom).toNat state = nas at h
                obtain ⟨bo, ns⟩ := nas
                dsimp only at h
                split at h
                · split at h
                  · -- new root
                    have hsz : st.mol.atoms.length ≤
                        (st.mol.addAtom atom true (attrPush attrStack (index + attrIndex) symbol)).1.atoms.length := by
                      simp [Mol.addAtom]
                    have hR' : PrevLt prev st.mol → RingsLt st.rings st.mol →
                        RingsLt st.rings (st.mol.addAtom atom true (attrPush attrStack (index + attrIndex) symbol)).1 ∧
                        PrevLt (some (st.mol.addAtom atom true (attrPush attrStack (index + attrIndex) symbol)).2)
                          (st.mol.addAtom atom true (attrPush attrStack (index + attrIndex) symbol)).1 := by
                      intro _ h2
                      refine ⟨h2.mono hsz, ?_⟩
                      intro p hp; cases hp; simp [Mol.addAtom]
                    split at h
                    · exact (Simple.base (prev := some _) (fin_suffix h) (fin_ok h)).step
                        (Stream.Suffix.refl _) hsz hR' ⟨fun h1 => h1.addAtom hna _ _, fun h1 => h1.addAtom _ _ _⟩
                    · exact (ih _ _ _ _ _ _ _ _ _ h).step
                        (Stream.Suffix.refl _) hsz hR' ⟨fun h1 => h1.addAtom hna _ _, fun h1 => h1.addAtom _ _ _⟩
                  · split at h
                    · exact Simple.base (fin_suffix h) (fin_ok h)
                    · exact (ih _ _ _ _ _ _ _ _ _ h).step (Stream.Suffix.refl _) (Nat.le_refl _)
                        (fun _ h2 => ⟨h2, PrevLt_none _⟩) ⟨id, id⟩
                · split at h
                  · cases h
                  · rename_i p
                    bind_at h with ⟨mol1, hab, h⟩
                    have hat := addBond_atoms hab
                    have hat' : mol1.atoms = st.mol.atoms ++ [atom] := by rw [hat]; rfl
                    have hsz : st.mol.atoms.length ≤ mol1.atoms.length := by rw [hat']; simp
                    have hR' : PrevLt (some p) st.mol → RingsLt st.rings st.mol →
                        RingsLt st.rings mol1 ∧ PrevLt (some st.mol.atoms.length) mol1 := by
                      intro _ h2
                      refine ⟨h2.mono hsz, ?_⟩
                      intro p' hp'; cases hp'; rw [hat']; simp
                    have hA' : NonArom st.mol → NonArom mol1 := by
                      intro h1 x hx
                      rw [hat', List.mem_append, List.mem_singleton] at hx
                      rcases hx with hx | rfl
                      · exact h1 x hx
                      · exact hna
                    have hS' : RowsSorted st.mol → RowsSorted mol1 := fun h1 => h1.addAtomBond hab
                    split at h
                    · exact (Simple.base (prev := some _) (fin_suffix h) (fin_ok h)).step
                        (Stream.Suffix.refl _) hsz hR' ⟨hA', hS'⟩
                    · exact (ih _ _ _ _ _ _ _ _ _ h).step (Stream.Suffix.refl _) hsz hR' ⟨hA', hS'⟩

theorem deriveFragments_simple (T : Table) (compat attrib : Bool) :
    ∀ (frags : List Str) (m : Mol) (rings : List RingReq) (ai : Nat) (r : Mol × List RingReq),
    deriveFragments T compat attrib frags m rings ai = .ok r →
    m.atoms.length ≤ r.1.atoms.length ∧ (RingsLt rings m → RingsLt r.2 r.1) ∧ (NonArom m → NonArom r.1) ∧
      (RowsSorted m → RowsSorted r.1) := by
  intro frags
  induction frags with
  | nil =>
    intro m rings ai r h
    simp only [deriveFragments] at h
    cases h; exact ⟨Nat.le_refl _, id, id, id⟩
  | cons s rest ih =>
    intro m rings ai r h
    simp only [deriveFragments] at h
    bind_at h with ⟨⟨st, n⟩, h1, h⟩
    have g := deriveLoop_simple T compat _ _ _ _ _ _ _ _ _ _ h1
    obtain ⟨i1, i2, i3, i4⟩ := ih _ _ _ _ h
    dsimp only at g
    exact ⟨Nat.le_trans g.size i1, fun hr => i2 (g.rings (PrevLt_none _) hr), fun ha => i3 (g.arom ha),
      fun hs => i4 (g.sorted hs)⟩

end SV
