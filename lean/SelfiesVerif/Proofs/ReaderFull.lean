/-
  C01r: from atoms / roots / adjacency to the whole parsed graph.  The remaining fields of the
  parser's graph (`_bond_counts`, ring flags, attributions) are functions of the adjacency lists:
  `PWF` (bond counts are the incident sums) and `ParsedWF` (the graph is `graphOf` of a forest).
-/
import SelfiesVerif.Proofs.ReaderMain
import SelfiesVerif.Proofs.ReaderAtoms
import SelfiesVerif.Props.C03p
import SelfiesVerif.Props.C01w

namespace SV

/-! ### bond counts -/

theorem bondsOf_read (row : List DirBond) :
    bondsOf (row.map fun b => some (readBond b)) = row.map readBond := by
  unfold bondsOf
  induction row with
  | nil => rfl
  | cons b row ih => simp [ih]

theorem contrib_read (v : Nat) (b : DirBond) (hne : b.src ≠ b.dst) :
    contrib v (readBond b) = 2 * bw v b := by
  unfold contrib bw readBond
  cases hr : b.ring <;> by_cases h1 : b.src = v <;> by_cases h2 : b.dst = v <;> simp [h1, h2] <;> omega

theorem incident2_read_adj (v : Nat) : ∀ (adj : List (List DirBond)),
    (∀ row ∈ adj, ∀ b ∈ row, b.src ≠ b.dst) →
    incident2 (adj.map fun row => row.map fun b => some (readBond b)) v = 2 * bondSum adj v
  | [], _ => rfl
  | row :: adj, hne => by
    have ih := incident2_read_adj v adj (fun r hr => hne r (List.mem_cons_of_mem _ hr))
    unfold incident2 bondSum wsum at ih ⊢
    simp only [List.map_cons, List.sum_cons, List.flatten_cons, List.map_append, List.sum_append]
    rw [ih, Nat.mul_add]
    congr 1
    unfold rowSum
    rw [bondsOf_read, List.map_map]
    have hrow := hne row (by simp)
    clear ih hne
    induction row with
    | nil => rfl
    | cons b row ih2 =>
      simp only [List.map_cons, List.sum_cons, Function.comp]
      rw [ih2 (fun x hx => hrow x (List.mem_cons_of_mem _ hx)), contrib_read v b (hrow b (by simp))]
      omega

theorem incident2_read {g : Mol} (hne : ∀ row ∈ g.adj, ∀ b ∈ row, b.src ≠ b.dst) (v : Nat) :
    incident2 (readAdj g) v = 2 * bondSum g.adj v := incident2_read_adj v g.adj hne

/-! ### the whole graph -/

/-- a parsed graph (no aromatic bond) whose atoms, roots and adjacency are those of `readMol g` is
    `readMol g` -/
theorem eq_readMol {T : Table} {s : Str} {compat attrib : Bool} {g : Mol}
    (hdec : decodeGraph T s compat attrib = .ok g) {str : Str} {p : PMol}
    (hp : smilesToMol str false = .ok p) (hat : p.atoms = g.atoms) (hro : p.roots = g.roots)
    (hadj : p.adj = readAdj g) (hds : p.ds = []) : p = readMol g := by
  obtain ⟨hcl, hal, hcnt⟩ := C01_counts_consistent hdec
  have hg := C01w_wgraph hdec
  -- counts
  obtain ⟨_, _, pc2, pinc, _⟩ := smilesToMol_pwf hp
  have hc2 : p.counts2 = g.counts.map (2 * ·) := by
    apply List.ext_getElem?
    intro j
    have hlen : p.adj.length = g.atoms.length := by rw [hadj]; simp [readAdj, hal]
    by_cases hj : j < g.atoms.length
    · have h1 := pinc j (by omega)
      rw [hadj, incident2_read (fun row hrow b hb => by
        obtain ⟨k, hk⟩ := List.mem_iff_getElem?.mp hrow
        exact (hg.bonds k row hk b hb).2.2.1) j] at h1
      have hjc : j < p.counts2.length := by omega
      rw [List.getElem?_eq_getElem hjc, List.getElem?_map, hcnt j hj, Mol.bondSum_eq]
      simp only [Option.map_some, Option.some.injEq]
      rw [← h1, List.getD_eq_getElem?_getD, List.getElem?_eq_getElem hjc]
      rfl
    · rw [List.getElem?_eq_none (by omega), List.getElem?_eq_none (by simp; omega)]
  -- ring flags and attributions
  obtain ⟨⟨F, _, hF⟩, _⟩ := C03p_parser_forest_prop str p hp hds
  have hrows : ∀ (j : Nat) (row : List DirBond), g.adj[j]? = some row →
      ∃ n : NodeInfo, F.nodes[j]? = some n ∧ n.row = row.map readBond := by
    intro j row hrow
    have h1 : p.adj[j]? = some (row.map fun b => some (readBond b)) := by
      rw [hadj]; simp [readAdj, hrow]
    rw [hF, graphOf_adj, List.getElem?_map] at h1
    cases hn : F.nodes[j]? with
    | none => rw [hn] at h1; cases h1
    | some n =>
      rw [hn] at h1
      simp only [Option.map_some, Option.some.injEq] at h1
      refine ⟨n, rfl, ?_⟩
      have : (n.row.map some).filterMap id = (row.map fun b => some (readBond b)).filterMap id := by rw [h1]
      simpa [List.filterMap_map] using this
  have hnl : F.nodes.length = g.atoms.length := by
    have := congrArg List.length hat
    rw [hF, graphOf_atoms, List.length_map] at this
    exact this
  have hrf : p.ringFlags = g.adj.map fun row => row.any (·.ring) := by
    apply List.ext_getElem?
    intro j
    rw [hF]
    simp only [graphOf, List.getElem?_map]
    cases hrow : g.adj[j]? with
    | none =>
      have : F.nodes[j]? = none := by
        rw [List.getElem?_eq_none_iff] at hrow ⊢; omega
      rw [this]; rfl
    | some row =>
      obtain ⟨n, hn, hnr⟩ := hrows j row hrow
      rw [hn]
      simp only [Option.map_some, Option.some.injEq]
      rw [hnr, List.any_map]
      rfl
  have haa : p.atomAttr = g.atoms.map fun _ => none := by
    rw [hF]
    simp only [graphOf]
    apply List.ext_getElem?
    intro j
    simp only [List.getElem?_map]
    by_cases hj : j < g.atoms.length
    · rw [List.getElem?_eq_getElem (by omega : j < F.nodes.length), List.getElem?_eq_getElem hj]; rfl
    · rw [List.getElem?_eq_none (by omega), List.getElem?_eq_none (by omega)]; rfl
  cases p
  simp only [readMol] at *
  subst hat hro hadj hds hc2 hrf haa
  rfl

/-- **C01r, core form**: for a decoded graph without ring bonds across fragments and with at most
    99 ring bonds, the library's SMILES parser reads the decoder's output back as `readMol g` -/
theorem reader_full {T : Table} {s : Str} {compat attrib : Bool} {g : Mol}
    (hdec : decodeGraph T s compat attrib = .ok g) (hne : g.atoms ≠ []) (h99 : g.ringHalves ≤ 2 * 99)
    (hloc : g.RingsLocal) : smilesToMol (specSmiles g) false = .ok (readMol g) := by
  have hg := C01w_wgraph hdec
  have ho := C01w_ordered hdec
  have hw := decodeGraph_atoms_wfb hdec
  have hR : AtomsRead g := fun a ha => smilesToAtom_atomText a (hw a ha) (hg.nonarom a ha)
  have hL : ∀ j, j < g.atoms.length → AtomLex (g.atomTextAt j) := by
    intro j hj
    obtain ⟨a, ha, ham⟩ := getElem?_lt hj
    rw [atomTextAt_eq ha]
    exact atomText_lex a (hw a ham) (hg.nonarom a ham)
  obtain ⟨p, hp, h1, h2, h3, h4⟩ := reader_core hg ho hR hL hloc h99 hne
  rw [hp, eq_readMol hdec hp h1 h2 h3 h4]

end SV
