/-
  C03p, stage C (3): the graph `encodePrepare` hands to the encoder's fragment loop (parsed,
  kekulized, constraint check passed, chirality adjusted) is the graph of a forest that is well
  formed, kekulized, has well-formed atoms and obeys the constraint table: every conjunct of
  `PForest.ready` except the index-span and nesting-depth bounds.
-/
import SelfiesVerif.Proofs.ParserKekulize
import SelfiesVerif.Proofs.ParserAtoms

namespace SV

/-! ### graphs that differ from a parsed graph by an order map -/

structure Prepared (g g' : PMol) (G : PBond → Nat) : Prop where
  roots : g'.roots = g.roots
  flags : g'.ringFlags = g.ringFlags
  atomAttr : g'.atomAttr = g.atomAttr
  ds : g'.ds = []
  adj : g'.adj = mapOrders G g.adj
  ord : KekOrd g G
  alen : g'.atoms.length = g.atoms.length
  clen : g'.counts2.length = g.adj.length
  cnt : ∀ v, v < g.adj.length → g'.counts2.getD v 0 = incident2 g'.adj v

theorem rowOf_mapOrders (G : PBond → Nat) (adj : List (List (Option PBond))) (i : Nat) :
    rowOf (mapOrders G adj) i = (rowOf adj i).map (Option.map (setOrd G)) := by
  unfold rowOf mapOrders
  rw [List.getD_eq_getElem?_getD, List.getD_eq_getElem?_getD, List.getElem?_map]
  cases adj[i]? <;> rfl

theorem rowKids_mapOrders (G : PBond → Nat) (row : List (Option PBond)) :
    rowKids (row.map (Option.map (setOrd G))) = rowKids row := by
  unfold rowKids
  rw [List.map_map]
  apply List.map_congr_left
  intro ob _
  cases ob <;> rfl

theorem prepared_assemblable {g g' : PMol} {G : PBond → Nat} {F : PForest} (h : ParsedInv g)
    (hp : Prepared g g' G) (hsk : Skel g F) : Assemblable g' F := by
  obtain ⟨hok, hal, hcl, _⟩ := (pwf_iff _).1 h.pwf
  have hlen : g'.adj.length = g.adj.length := by rw [hp.adj, mapOrders_length]
  have hrows : ∀ i, rowAt g'.adj i = (rowAt g.adj i).map (setOrd G) := by
    intro i; rw [hp.adj, rowAt_mapOrders]
  refine ⟨?_, by rw [hp.alen, hal, hlen], by rw [hp.clen, hlen], ?_, ?_, ?_, ?_, hp.ds⟩
  · rw [hp.adj]; exact hok.mapOrders hp.ord.1
  · intro v hv; exact hp.cnt v (hlen ▸ hv)
  · refine ⟨by rw [hp.flags, hlen]; exact h.flat.flagsLen, ?_, by rw [hp.atomAttr, hlen]; exact h.flat.attrs, ?_⟩
    · intro i hi
      rw [hp.flags, h.flat.flags i (hlen ▸ hi), hrows]
      constructor
      · rintro ⟨b, hb, hr⟩; exact ⟨setOrd G b, List.mem_map_of_mem hb, hr⟩
      · rintro ⟨b', hb', hr⟩
        obtain ⟨b, hb, rfl⟩ := List.mem_map.1 hb'
        exact ⟨b, hb, hr⟩
    · intro i b' hb'
      rw [hrows] at hb'
      obtain ⟨b, hb, rfl⟩ := List.mem_map.1 hb'
      exact (h.flat.bonds i b hb).1
  · intro a p hp'
    rw [hp.adj, rowOf_mapOrders, List.getElem?_map] at hp'
    cases hx : (rowOf g.adj a)[p]? with
    | none => rw [hx] at hp'; cases hp'
    | some ob =>
      rw [hx] at hp'
      cases ob with
      | none => exact h.noHoles a p hx
      | some b => cases hp'
  · refine ⟨by rw [hlen]; exact hsk.num, by rw [hp.roots]; exact hsk.roots, ?_⟩
    intro n hn
    rw [hp.adj, rowOf_mapOrders, rowKids_mapOrders]
    exact hsk.kids n hn

/-! ### `encodePrepare`, step by step -/

theorem zip_range_getElem? {α} (l : List α) (i : Nat) (a : α) (h : l[i]? = some a) :
    ((List.range l.length).zip l)[i]? = some (i, a) := by
  have hi : i < l.length := (List.getElem?_eq_some_iff.1 h).1
  rw [List.getElem?_zip_eq_some]
  exact ⟨List.getElem?_range hi, h⟩

theorem encodeTail_inv {T : Table} {g1 g' : PMol} (h : encodeTail T true g1 = .ok g') :
    violatesConstraints T g1 = false ∧ g'.roots = g1.roots ∧ g'.adj = g1.adj ∧ g'.counts2 = g1.counts2 ∧
    g'.ringFlags = g1.ringFlags ∧ g'.ds = g1.ds ∧ g'.atomAttr = g1.atomAttr ∧
    g'.atoms.length = g1.atoms.length ∧
    ∀ (i : Nat) (a' : Atom), g'.atoms[i]? = some a' →
      ∃ a : Atom, g1.atoms[i]? = some a ∧ (a' = a ∨ a' = a.invertChirality) := by
  unfold encodeTail at h
  cases hv : violatesConstraints T g1 with
  | true =>
    simp only [hv, Bool.and_self, if_true, bind, Except.bind] at h
    split at h <;> cases h
  | false =>
    simp only [hv, Bool.and_false, Bool.false_eq_true, if_false] at h
    obtain ⟨atoms, hm, h⟩ := bind_ok h
    simp only [pure, Except.pure, Except.ok.injEq] at h
    subst h
    obtain ⟨hl, hf⟩ := mapM_ok _ _ _ hm
    have hlen : atoms.length = g1.atoms.length := by rw [hl]; simp
    refine ⟨rfl, rfl, rfl, rfl, rfl, rfl, rfl, hlen, ?_⟩
    intro i a' ha'
    have hi : i < g1.atoms.length := by rw [← hlen]; exact (List.getElem?_eq_some_iff.1 ha').1
    have ha : g1.atoms[i]? = some g1.atoms[i] := List.getElem?_eq_getElem hi
    obtain ⟨y, hy, hr⟩ := hf i (i, g1.atoms[i]) (zip_range_getElem? _ _ _ ha)
    have hya : y = a' := by
      have : atoms[i]? = some a' := ha'
      rw [hr] at this; injection this
    subst hya
    refine ⟨_, ha, ?_⟩
    dsimp only at hy
    split at hy
    · obtain ⟨inv, _, hy⟩ := bind_ok hy
      simp only [pure, Except.pure, Except.ok.injEq] at hy
      rw [← hy]
      split
      · exact Or.inr rfl
      · exact Or.inl rfl
    · simp only [pure, Except.pure, Except.ok.injEq] at hy
      exact Or.inl hy.symm

theorem encodePrepare_inv {T : Table} {s : Str} {tape : List Nat} {g' : PMol}
    (h : encodePrepare T s true false tape = .ok g') :
    ∃ g g1, smilesToMol s false = .ok g ∧ g.kekulize tape = .ok (some g1) ∧ encodeTail T true g1 = .ok g' := by
  rw [encodePrepare_eq] at h
  cases hs : smilesToMol s false with
  | error e => rw [hs] at h; cases e <;> cases h
  | ok g =>
    rw [hs] at h
    simp only at h
    cases hk : g.kekulize tape with
    | error e => rw [hk] at h; cases h
    | ok r =>
      rw [hk] at h
      cases r with
      | none => cases h
      | some g1 => exact ⟨g, g1, rfl, hk, h⟩

theorem deArom_getElem? (keys : List Nat) (atoms : List Atom) (i : Nat) (a1 : Atom)
    (h : (deArom keys atoms)[i]? = some a1) :
    ∃ a, atoms[i]? = some a ∧ (a1 = a ∨ a1 = { a with isAromatic := false }) := by
  unfold deArom at h
  rw [List.getElem?_mapIdx] at h
  cases ha : atoms[i]? with
  | none => rw [ha] at h; cases h
  | some a =>
    rw [ha] at h
    simp only [Option.map_some, Option.some.injEq] at h
    refine ⟨a, rfl, ?_⟩
    rw [← h]
    split
    · exact Or.inr rfl
    · exact Or.inl rfl

theorem invertChirality_keep (a : Atom) :
    a.invertChirality.element = a.element ∧ a.invertChirality.charge = a.charge ∧
    a.invertChirality.hCount = a.hCount ∧ a.invertChirality.isAromatic = a.isAromatic := by
  unfold Atom.invertChirality
  split
  · exact ⟨rfl, rfl, rfl, rfl⟩
  · split <;> exact ⟨rfl, rfl, rfl, rfl⟩

/-- everything the later theorems need to know about the prepared graph -/
structure PreparedGraph (T : Table) (g' : PMol) (F : PForest) : Prop where
  asm : Assemblable g' F
  orders : ∀ i, ∀ b ∈ rowAt g'.adj i, okOrder2 b.order2 ∧ okStereo b.stereo
  atoms : ∀ a ∈ g'.atoms, a.isAromatic = false
  obeys : ∀ i a, g'.atoms[i]? = some a → (g'.counts2.getD i 0 : Int) ≤ 2 * a.bondingCapacity T

/-- how the atoms of the prepared graph come from the parsed ones -/
theorem encodePrepare_atom {T : Table} {s : Str} {tape : List Nat} {g' : PMol}
    (h : encodePrepare T s true false tape = .ok g') :
    ∃ g g1, smilesToMol s false = .ok g ∧ g.kekulize tape = .ok (some g1) ∧
      ∀ a' ∈ g'.atoms, ∃ a0 ∈ g.atoms, ∃ a1 ∈ g1.atoms,
        (a1 = a0 ∨ a1 = { a0 with isAromatic := false }) ∧ (a' = a1 ∨ a' = a1.invertChirality) := by
  obtain ⟨g, g1, hs, hk, ht⟩ := encodePrepare_inv h
  refine ⟨g, g1, hs, hk, ?_⟩
  obtain ⟨_, _, keys, hat⟩ := kekulize_struct (smilesToMol_pwf hs) hk
  obtain ⟨_, _, _, _, _, _, _, _, t8⟩ := encodeTail_inv ht
  intro a' ha'
  obtain ⟨i, hi⟩ := List.mem_iff_getElem?.1 ha'
  obtain ⟨a1, ha1, hrel⟩ := t8 i a' hi
  have ha1' := ha1
  rw [hat] at ha1'
  obtain ⟨a0, ha0, hrel0⟩ := deArom_getElem? _ _ _ _ ha1'
  exact ⟨a0, List.mem_of_getElem? ha0, a1, List.mem_of_getElem? ha1, hrel0, hrel⟩

/-- the atoms of the prepared graph are well formed (C10's length bound) -/
theorem encodePrepare_atoms_wfb {T : Table} {s : Str} {tape : List Nat} {g' : PMol}
    (hlen : s.length ≤ 10 ^ Gen.intMaxStrDigits)
    (h : encodePrepare T s true false tape = .ok g') : ∀ a ∈ g'.atoms, a.wfb = true := by
  obtain ⟨g, g1, hs, _, hrel⟩ := encodePrepare_atom h
  have hatoms := smilesToMol_atoms hlen hs
  intro a' ha'
  obtain ⟨a0, ha0, a1, _, h0, h1⟩ := hrel a' ha'
  have hw0 := hatoms a0 ha0
  have hw1 : a1.wfb = true := by
    rcases h0 with rfl | rfl
    · exact hw0
    · exact dearom_wfb hw0
  rcases h1 with rfl | rfl
  · exact hw1
  · exact invertChirality_wfb hw1

theorem encodePrepare_graph {T : Table} {s : Str} {tape : List Nat} {g' : PMol}
    (h : encodePrepare T s true false tape = .ok g') : ∃ F, PreparedGraph T g' F := by
  obtain ⟨g, g1, hs, hk, ht⟩ := encodePrepare_inv h
  have hinv := smilesToMol_parsedInv hs
  obtain ⟨F, hsk⟩ := skel_of_treeG hinv.tree
  obtain ⟨hst, hds, keys, hat⟩ := kekulize_struct hinv.pwf hk
  obtain ⟨G, hG, hadj⟩ := hst.adj
  have hnoarom := kekulize_no_aromatic (smilesToMol_aromInv hs) hk
  obtain ⟨hviol, t1, t2, t3, t4, t5, t6, t7, t8⟩ := encodeTail_inv ht
  have hal : g.atoms.length = g.adj.length := ((pwf_iff _).1 hinv.pwf).2.1
  have hprep : Prepared g g' G := by
    refine ⟨by rw [t1, hst.roots], by rw [t4, hst.flags], by rw [t6, hst.atomAttr], by rw [t5, hds],
      by rw [t2, hadj], hG, by rw [t7, hat, deArom_length], by rw [t3, hst.clen], ?_⟩
    intro v hv
    rw [t3, t2]; exact hst.cnt v hv
  refine ⟨F, prepared_assemblable hinv hprep hsk, ?_, ?_, ?_⟩
  · intro i b' hb'
    rw [t2, hadj, rowAt_mapOrders] at hb'
    obtain ⟨b, hb, rfl⟩ := List.mem_map.1 hb'
    obtain ⟨_, ho, hst'⟩ := hinv.flat.bonds i b hb
    refine ⟨?_, hst'⟩
    show okOrder2 (G b)
    unfold okOrder2
    unfold okOrder4 at ho
    rcases hG.2 i b hb with h2 | h4 | ⟨he, hne⟩
    · exact Or.inl h2
    · exact Or.inr (Or.inl h4)
    · rw [he]; omega
  · intro a' ha'
    obtain ⟨i, hi⟩ := List.mem_iff_getElem?.1 ha'
    obtain ⟨a1, ha1, hrel⟩ := t8 i a' hi
    have har1 : a1.isAromatic = false := hnoarom a1 (List.mem_of_getElem? ha1)
    rcases hrel with rfl | rfl
    · exact har1
    · rw [(invertChirality_keep a1).2.2.2]; exact har1
  · intro i a' hi
    obtain ⟨a1, ha1, hrel⟩ := t8 i a' hi
    have hcap : a'.bondingCapacity T = a1.bondingCapacity T := by
      rcases hrel with rfl | rfl
      · rfl
      · obtain ⟨e1, e2, e3, _⟩ := invertChirality_keep a1
        unfold Atom.bondingCapacity
        rw [e1, e2, e3]
    rw [hcap, t3]
    have hnot : ¬ ((g1.counts2.getD i 0 : Int) > 2 * a1.bondingCapacity T) := by
      intro hc
      have := (violatesConstraints_iff T g1).2 ⟨i, a1, ha1, hc⟩
      rw [hviol] at this; cases this
    omega

theorem revStereo_ok {g : PMol} (h : ∀ i, ∀ b ∈ rowAt g.adj i, okStereo b.stereo) (p i : Nat) :
    okStereo (revStereo g p i) := by
  unfold revStereo
  cases hd : g.getDirBond p i with
  | error e => exact Or.inl rfl
  | ok b => exact h p b (getDirBond_mem hd).1

/-- **the prepared graph is the graph of a forest that is ready for the round trip**, up to the
    index-span and nesting-depth bounds (and the well-formedness of the atoms, which needs C10's
    length bound: `preparedGraph_atomsOK`) -/
theorem preparedGraph_forest {T : Table} {g' : PMol} {F : PForest} (h : PreparedGraph T g' F) :
    (forestFor g' F).wf = true ∧ g' = graphOf (forestFor g' F) ∧ (forestFor g' F).kekulized = true ∧
      (forestFor g' F).obeys T = true := by
  have hwf := forestFor_wf h.asm
  have hgr := forestFor_graph h.asm
  refine ⟨hwf, hgr, ?_, ?_⟩
  · unfold PForest.kekulized
    rw [List.all_eq_true]
    intro n hn
    obtain ⟨hk, hat, _, hrow, _, _, hrings⟩ := forestFor_node h.asm hn
    have ha := h.atoms n.atom (List.mem_of_getElem? hat)
    simp only [Bool.and_eq_true, Bool.not_eq_true', List.all_eq_true, decide_eq_true_eq]
    refine ⟨⟨ha, ?_⟩, ?_⟩
    · intro b hb
      rw [hrow] at hb
      exact h.orders _ b hb
    · intro r hr
      rw [hrings] at hr
      unfold rowRings at hr
      obtain ⟨b, _, hb⟩ := List.mem_filterMap.1 hr
      split at hb
      · injection hb with hb
        rw [← hb]
        exact revStereo_ok (fun i b hb => (h.orders i b hb).2) _ _
      · cases hb
  · unfold PForest.obeys
    rw [List.all_eq_true]
    intro n hn
    obtain ⟨hk, hat, _⟩ := forestFor_node h.asm hn
    rw [decide_eq_true_eq]
    have hnum := (PForest.wf_parts hwf).1
    have hnk := nodes_getElem_of_mem hnum hn
    have hc : g'.counts2[n.idx]? = some n.count2 := by
      have hc2 := congrArg PMol.counts2 hgr
      rw [hc2, graphOf_counts2, List.getElem?_map, hnk]; rfl
    have := h.obeys n.idx n.atom hat
    rw [List.getD_eq_getElem?_getD, hc] at this
    exact this

theorem preparedGraph_atomsOK {T : Table} {g' : PMol} {F : PForest} (h : PreparedGraph T g' F)
    (hw : ∀ a ∈ g'.atoms, a.wfb = true) : (forestFor g' F).atomsOK = true := by
  unfold PForest.atomsOK
  rw [List.all_eq_true]
  intro n hn
  obtain ⟨_, hat, _⟩ := forestFor_node h.asm hn
  exact hw n.atom (List.mem_of_getElem? hat)

end SV
