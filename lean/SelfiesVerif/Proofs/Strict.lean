/-
  Helper lemmas for property C06 (strict encoding):

  * `encodePrepare` = parse, kekulize, then `encodeTail` (the strict check / chirality pass);
  * `violatesConstraints` as an existential over `enumerate(atoms)`;
  * the invariant "every aromatic atom is a node of the delocalisation subgraph" of the SMILES
    parser, and its consequence: after a successful `kekulize()` no atom is aromatic, so the
    `atom_to_smiles` calls made for the error message of `_check_bond_constraints` cannot fail;
  * the fragment loop of `encoder` never raises `EncoderError`.
-/
import SelfiesVerif.Model.Encoder
namespace SV

/-! ### `Except` plumbing -/

theorem bind_ok {α β} {x : Py α} {f : α → Py β} {b : β} (h : (x >>= f) = .ok b) :
    ∃ a, x = .ok a ∧ f a = .ok b := by
  cases x with
  | error e => cases h
  | ok a => exact ⟨a, rfl, h⟩

theorem foldlM_preserve {σ α} (P : σ → Prop) (f : σ → α → Py σ)
    (hf : ∀ s x s', f s x = .ok s' → P s → P s') :
    ∀ (l : List α) (s s' : σ), l.foldlM f s = .ok s' → P s → P s' := by
  intro l
  induction l with
  | nil => intro s s' h hp; simp [List.foldlM, pure, Except.pure] at h; rw [← h]; exact hp
  | cons a l ih =>
    intro s s' h hp
    rw [List.foldlM_cons] at h
    obtain ⟨s1, h1, h2⟩ := bind_ok h
    exact ih s1 s' h2 (hf s a s1 h1 hp)

/-! ### keys of the delocalisation subgraph -/

theorem mem_keys_setKey {β} (k : Nat) (v : β) (l : List (Nat × β)) (i : Nat) :
    i ∈ (setKey k v l).map (·.1) ↔ i = k ∨ i ∈ l.map (·.1) := by
  induction l with
  | nil => simp [setKey]
  | cons p l ih =>
    obtain ⟨k', v'⟩ := p
    unfold setKey
    by_cases h : k' = k
    · subst h; simp
    · have : (k' == k) = false := by simpa using h
      simp only [this, Bool.false_eq_true, if_false, List.map_cons, List.mem_cons, ih]
      constructor <;> rintro (h | h | h) <;> simp [h]

theorem keys_dsAppend (ds : List (Nat × List Nat)) (a b i : Nat) (h : i ∈ ds.map (·.1)) :
    i ∈ (PMol.dsAppend ds a b).map (·.1) := by
  unfold PMol.dsAppend
  split
  · exact (mem_keys_setKey ..).2 (Or.inr h)
  · simp only [List.map_append, List.mem_append]; exact Or.inl h

/-- every aromatic atom is a node of the delocalisation subgraph -/
def AromInv (m : PMol) : Prop :=
  ∀ i a, m.atoms[i]? = some a → a.isAromatic = true → i ∈ m.ds.map (·.1)

theorem AromInv.mono {m m' : PMol} (h : AromInv m) (ha : m'.atoms = m.atoms)
    (hd : ∀ i, i ∈ m.ds.map (·.1) → i ∈ m'.ds.map (·.1)) : AromInv m' := by
  intro i a hi har
  rw [ha] at hi
  exact hd i (h i a hi har)

theorem aromInv_empty : AromInv {} := by
  intro i a hi; simp at hi

theorem aromInv_addAtom {m : PMol} (h : AromInv m) (a : Atom) (r : Bool)
    (attr : Option (List Attribution)) : AromInv (m.addAtom a r attr).1 := by
  intro i a' hi har
  simp only [PMol.addAtom] at hi ⊢
  by_cases hlt : i < m.atoms.length
  · rw [List.getElem?_append_left hlt] at hi
    have := h i a' hi har
    split
    · exact (mem_keys_setKey ..).2 (Or.inr this)
    · exact this
  · rw [List.getElem?_append_right (by omega)] at hi
    have hi0 : i - m.atoms.length = 0 := by
      cases hz : i - m.atoms.length with
      | zero => rfl
      | succ n => rw [hz] at hi; simp at hi
    rw [hi0] at hi
    simp only [List.getElem?_cons_zero, Option.some.injEq] at hi
    subst hi
    rw [if_pos har]
    exact (mem_keys_setKey ..).2 (Or.inl (by omega))

theorem addBond_ok {m m' : PMol} {src dst o2 : Nat} {st : Option Char}
    {attr : Option (List Attribution)} (h : m.addBond src dst o2 st attr = .ok m') :
    m'.atoms = m.atoms ∧ ∀ i, i ∈ m.ds.map (·.1) → i ∈ m'.ds.map (·.1) := by
  unfold PMol.addBond at h
  obtain ⟨_, _, h⟩ := bind_ok h
  obtain ⟨out, _, h⟩ := bind_ok h
  obtain ⟨c1, _, h⟩ := bind_ok h
  obtain ⟨c2, _, h⟩ := bind_ok h
  simp only [pure, Except.pure, Except.ok.injEq] at h
  subst h
  refine ⟨rfl, fun i hi => ?_⟩
  simp only
  split
  · exact keys_dsAppend _ _ _ _ (keys_dsAppend _ _ _ _ hi)
  · exact hi

theorem addPlaceholder_ok {m m' : PMol} {src pos : Nat} (h : m.addPlaceholder src = .ok (m', pos)) :
    m'.atoms = m.atoms ∧ m'.ds = m.ds := by
  unfold PMol.addPlaceholder at h
  obtain ⟨out, _, h⟩ := bind_ok h
  simp only [pure, Except.pure, Except.ok.injEq, Prod.mk.injEq] at h
  rw [← h.1]; exact ⟨rfl, rfl⟩

theorem addRingBond_ok {m m' : PMol} {a b o2 : Nat} {sa sb : Option Char} {pa pb : Option Nat}
    (h : m.addRingBond a b o2 sa sb pa pb = .ok m') :
    m'.atoms = m.atoms ∧ ∀ i, i ∈ m.ds.map (·.1) → i ∈ m'.ds.map (·.1) := by
  unfold PMol.addRingBond at h
  obtain ⟨adj1, _, h⟩ := bind_ok h
  obtain ⟨adj2, _, h⟩ := bind_ok h
  obtain ⟨c1, _, h⟩ := bind_ok h
  obtain ⟨c2, _, h⟩ := bind_ok h
  obtain ⟨_, _, h⟩ := bind_ok h
  obtain ⟨_, _, h⟩ := bind_ok h
  simp only [pure, Except.pure, Except.ok.injEq] at h
  subst h
  refine ⟨rfl, fun i hi => ?_⟩
  simp only
  split
  · exact keys_dsAppend _ _ _ _ (keys_dsAppend _ _ _ _ hi)
  · exact hi

theorem makeRingBonds_ok {m m' : PMol} {lb rb : Option Char} {la lp ra : Nat}
    (h : makeRingBonds m lb la lp rb ra = .ok m') :
    m'.atoms = m.atoms ∧ ∀ i, i ∈ m.ds.map (·.1) → i ∈ m'.ds.map (·.1) := by
  unfold makeRingBonds at h
  split at h
  · cases h
  · split at h
    · cases h
    · revert h
      generalize (if lb.isNone = true then (rb, lb) else (lb, rb)) = bonds
      intro h
      simp only at h
      split at h
      · cases h
      · obtain ⟨_, _, h⟩ := bind_ok h
        obtain ⟨_, _, h⟩ := bind_ok h
        exact addRingBond_ok h

/-! ### `enumerate` -/

theorem mem_zip_range' {α} (l : List α) (s i : Nat) (a : α) :
    (i, a) ∈ (List.range' s l.length).zip l ↔ s ≤ i ∧ l[i - s]? = some a := by
  induction l generalizing s with
  | nil => simp
  | cons x l ih =>
    simp only [List.length_cons, List.range'_succ, List.zip_cons_cons, List.mem_cons,
      Prod.mk.injEq, ih]
    constructor
    · rintro (⟨rfl, rfl⟩ | ⟨h1, h2⟩)
      · simp
      · refine ⟨by omega, ?_⟩
        have : i - s = (i - (s + 1)) + 1 := by omega
        rw [this]; simpa using h2
    · rintro ⟨h1, h2⟩
      by_cases h : i = s
      · left; subst h; simp at h2; simp [h2]
      · right; refine ⟨by omega, ?_⟩
        have : i - s = (i - (s + 1)) + 1 := by omega
        rw [this] at h2; simpa using h2

/-- `(i, a) in enumerate(l)` -/
theorem mem_zip_range {α} (l : List α) (i : Nat) (a : α) :
    (i, a) ∈ (List.range l.length).zip l ↔ l[i]? = some a := by
  rw [List.range_eq_range', mem_zip_range']; simp

/-! ### `mapM` over `Except` -/

theorem mapM_ok_of_forall {α β} (f : α → Py β) (l : List α) (h : ∀ x ∈ l, ∃ y, f x = .ok y) :
    ∃ ys, l.mapM f = .ok ys := by
  induction l with
  | nil => exact ⟨[], rfl⟩
  | cons a l ih =>
    obtain ⟨y, hy⟩ := h a (List.mem_cons_self ..)
    obtain ⟨ys, hys⟩ := ih fun x hx => h x (List.mem_cons_of_mem _ hx)
    exact ⟨y :: ys, by simp [List.mapM_cons, hy, hys, bind, Except.bind, pure, Except.pure]⟩

theorem mapM_error {α β} (f : α → Py β) (l : List α) (e : PyExc) (h : l.mapM f = .error e) :
    ∃ x ∈ l, f x = .error e := by
  induction l with
  | nil => simp [pure, Except.pure] at h
  | cons a l ih =>
    simp only [List.mapM_cons, bind, Except.bind] at h
    cases ha : f a with
    | error e' => rw [ha] at h; simp only at h; cases h; exact ⟨a, List.mem_cons_self .., ha⟩
    | ok y =>
      rw [ha] at h; simp only at h
      cases hl : l.mapM f with
      | error e' =>
        rw [hl] at h; simp only at h; cases h
        obtain ⟨x, hx, hfx⟩ := ih hl
        exact ⟨x, List.mem_cons_of_mem _ hx, hfx⟩
      | ok ys => rw [hl] at h; simp [pure, Except.pure] at h

/-! ### the encoder after kekulization -/

/-- the part of `encoder` between a successful `kekulize()` and the fragment loop -/
def encodeTail (T : Table) (strict : Bool) (m : PMol) : Py PMol :=
  if strict && violatesConstraints T m then do
    let _ ← ((List.range m.atoms.length).zip m.atoms).mapM fun (i, a) =>
      if ((m.counts2.getD i 0 : Int) > 2 * a.bondingCapacity T) then atomToSmiles a else pure []
    .error .EncoderError
  else do
    let atoms ← ((List.range m.atoms.length).zip m.atoms).mapM fun (i, a) => do
      if a.chirality.isSome && (m.ringFlags.getD i false) then
        let inv ← shouldInvertChirality m i
        pure (if inv then a.invertChirality else a)
      else pure a
    pure { m with atoms := atoms }

theorem encodePrepare_eq (T : Table) (s : Str) (strict attrib : Bool) (tape : List Nat) :
    encodePrepare T s strict attrib tape =
      match smilesToMol s attrib with
      | .ok g =>
        (match g.kekulize tape with
         | .ok (some g') => encodeTail T strict g'
         | .ok none => .error .EncoderError
         | .error e => .error e)
      | .error .SMILESParserError => .error .EncoderError
      | .error e => .error e := by
  unfold encodePrepare
  cases hp : smilesToMol s attrib with
  | error e => cases e <;> rfl
  | ok g =>
    simp only [bind, Except.bind, pure, Except.pure]
    cases hk : g.kekulize tape with
    | error e => rfl
    | ok r =>
      cases r with
      | none => rfl
      | some g' => rfl

theorem violatesConstraints_iff (T : Table) (m : PMol) :
    violatesConstraints T m = true ↔
      ∃ i a, m.atoms[i]? = some a ∧ (m.counts2.getD i 0 : Int) > 2 * a.bondingCapacity T := by
  unfold violatesConstraints
  rw [List.any_eq_true]
  constructor
  · rintro ⟨⟨i, a⟩, hm, h⟩
    exact ⟨i, a, (mem_zip_range ..).1 hm, by simpa using h⟩
  · rintro ⟨i, a, hm, h⟩
    exact ⟨(i, a), (mem_zip_range ..).2 hm, by simpa using h⟩

/-- non-strict: the table is never consulted -/
theorem encodeTail_nonstrict (T₁ T₂ : Table) (m : PMol) :
    encodeTail T₁ false m = encodeTail T₂ false m := by
  simp [encodeTail]

/-- strict, no violation: same as non-strict -/
theorem encodeTail_strict_ok (T : Table) (m : PMol) (h : violatesConstraints T m = false) :
    encodeTail T true m = encodeTail T false m := by
  simp [encodeTail, h]

theorem getOut_ne_encoderError (m : PMol) (i : Nat) : getOut m i ≠ .error .EncoderError := by
  intro he
  unfold getOut getIdx at he
  simp only [bind, Except.bind] at he
  split at he
  · rename_i h
    split at h <;> cases h
    cases he
  · obtain ⟨x, _, hx⟩ := mapM_error _ _ _ he
    split at hx <;> cases hx

theorem shouldInvert_ne_encoderError (m : PMol) (i : Nat) :
    shouldInvertChirality m i ≠ .error .EncoderError := by
  unfold shouldInvertChirality
  simp only [bind, Except.bind]
  have := getOut_ne_encoderError m i
  split
  · rename_i e h; intro he; cases he; exact this h
  · intro he; cases he

/-- the chirality pass cannot raise `EncoderError` -/
theorem encodeTail_nonstrict_ne_encoderError (T : Table) (m : PMol) :
    encodeTail T false m ≠ .error .EncoderError := by
  simp only [encodeTail, Bool.false_and, Bool.false_eq_true, if_false, bind, Except.bind]
  split
  · rename_i e h
    intro he; cases he
    obtain ⟨⟨i, a⟩, _, hx⟩ := mapM_error _ _ _ h
    split at hx
    · split at hx
      · rename_i e' h'; cases hx; exact shouldInvert_ne_encoderError m i h'
      · cases hx
    · cases hx
  · intro he; cases he

/-- strict with a violation and no aromatic atom: `EncoderError` -/
theorem encodeTail_strict_violation (T : Table) (m : PMol)
    (h : violatesConstraints T m = true) (har : ∀ a ∈ m.atoms, a.isAromatic = false) :
    encodeTail T true m = .error .EncoderError := by
  simp only [encodeTail, h, Bool.and_self, if_true, bind, Except.bind]
  obtain ⟨ys, hys⟩ := mapM_ok_of_forall
    (fun (x : Nat × Atom) =>
      if ((m.counts2.getD x.1 0 : Int) > 2 * x.2.bondingCapacity T) then atomToSmiles x.2 else pure [])
    ((List.range m.atoms.length).zip m.atoms) (by
      rintro ⟨i, a⟩ hx
      have ha : a ∈ m.atoms := (List.of_mem_zip hx).2
      by_cases hc : ((m.counts2.getD i 0 : Int) > 2 * a.bondingCapacity T)
      · simp only [hc, if_true]
        unfold atomToSmiles
        rw [har a ha]
        simp only [Bool.false_eq_true, if_false]
        split <;> exact ⟨_, rfl⟩
      · simp only [hc, if_false]; exact ⟨_, rfl⟩)
  rw [hys]

/-- strict never succeeds where non-strict would not give the same result -/
theorem encodeTail_strict_ok_imp (T : Table) (m r : PMol) (h : encodeTail T true m = .ok r) :
    encodeTail T false m = .ok r := by
  cases hv : violatesConstraints T m with
  | false => rw [← encodeTail_strict_ok T m hv]; exact h
  | true =>
    exfalso
    simp only [encodeTail, hv, Bool.and_self, if_true, bind, Except.bind] at h
    split at h <;> cases h

/-! ### the SMILES parser keeps every aromatic atom in the delocalisation subgraph -/

theorem parseFragmentLoop_aromInv (attrib : Bool) :
    ∀ (toks : List SmilesTok) (st st' : ParseSt) (rest' : List SmilesTok),
      parseFragmentLoop attrib toks st = .ok (st', rest') → AromInv st.mol → AromInv st'.mol := by
  intro toks
  induction toks with
  | nil =>
    intro st st' rest' h hinv
    simp only [parseFragmentLoop, Except.ok.injEq, Prod.mk.injEq] at h
    rw [← h.1]; exact hinv
  | cons tok rest ih =>
    intro st st' rest' h hinv
    rw [parseFragmentLoop] at h
    split at h
    rotate_left
    · obtain ⟨_, hp, _⟩ := bind_ok h; cases hp
    obtain ⟨prev, hprev, h⟩ := bind_ok h
    dsimp only at h
    split at h
    · -- dot
      simp only [pure, Except.pure, Except.ok.injEq, Prod.mk.injEq] at h
      rw [← h.1]; exact hinv
    · -- atom
      split at h
      · cases h
      · rename_i curr hcurr
        simp only [PMol.addAtom] at h
        obtain ⟨mol', hmol, h⟩ := bind_ok h
        refine ih _ _ _ h ?_
        have hadd := fun r attr => aromInv_addAtom hinv curr r attr
        cases prev with
        | none =>
          simp only [pure, Except.pure, Except.ok.injEq] at hmol
          rw [← hmol]; exact hadd _ _
        | some p =>
          simp only [smilesToBond] at hmol
          obtain ⟨pa, _, hmol⟩ := bind_ok hmol
          obtain ⟨ha, hd⟩ := addBond_ok hmol
          exact (hadd _ _).mono ha hd
    · -- branch
      split at h
      · cases h
      · split at h
        · exact ih _ _ _ h hinv
        · split at h
          · cases h
          · exact ih _ _ _ h hinv
    · -- ring
      split at h
      · cases h
      · split at h
        · cases h
        · split at h
          · obtain ⟨⟨mol1, lpos⟩, h1, h⟩ := bind_ok h
            obtain ⟨ha, hd⟩ := addPlaceholder_ok h1
            exact ih _ _ _ h (hinv.mono ha (fun i hi => by rw [hd]; exact hi))
          · obtain ⟨mol1, h1, h⟩ := bind_ok h
            obtain ⟨ha, hd⟩ := makeRingBonds_ok h1
            exact ih _ _ _ h (hinv.mono ha hd)

theorem parseFragment_aromInv {attrib : Bool} {toks rest : List SmilesTok} {m m' : PMol} {i i' : Nat}
    (h : parseFragment attrib toks m i = .ok (m', i', rest)) (hinv : AromInv m) : AromInv m' := by
  unfold parseFragment at h
  obtain ⟨⟨st, r⟩, h1, h⟩ := bind_ok h
  have := parseFragmentLoop_aromInv attrib _ _ _ _ h1 hinv
  simp only at h
  split at h
  · cases h
  · split at h
    · cases h
    · split at h
      · cases h
      · simp only [pure, Except.pure, Except.ok.injEq, Prod.mk.injEq] at h
        rw [← h.1]; exact this

theorem smilesToMol_go_aromInv (attrib : Bool) :
    ∀ (fuel : Nat) (toks : List SmilesTok) (m m' : PMol) (i : Nat),
      smilesToMol.go attrib fuel toks m i = .ok m' → AromInv m → AromInv m' := by
  intro fuel
  induction fuel with
  | zero =>
    intro toks m m' i h hinv
    cases toks with
    | nil => simp only [smilesToMol.go, Except.ok.injEq] at h; rw [← h]; exact hinv
    | cons t ts => simp [smilesToMol.go] at h
  | succ fuel ih =>
    intro toks m m' i h hinv
    cases toks with
    | nil => simp only [smilesToMol.go, Except.ok.injEq] at h; rw [← h]; exact hinv
    | cons t ts =>
      rw [smilesToMol.go] at h
      obtain ⟨⟨m1, i1, rest⟩, h1, h⟩ := bind_ok h
      exact ih _ _ _ _ h (parseFragment_aromInv h1 hinv)

theorem smilesToMol_aromInv {s : Str} {attrib : Bool} {g : PMol}
    (h : smilesToMol s attrib = .ok g) : AromInv g := by
  unfold smilesToMol at h
  split at h
  · cases h
  · split at h
    · cases h
    · exact smilesToMol_go_aromInv attrib _ _ _ _ _ h aromInv_empty

/-! ### `kekulize` clears every aromatic flag -/

theorem updateBondOrder_atoms {m m' : PMol} {a b o : Nat} (h : m.updateBondOrder a b o = .ok m') :
    m'.atoms = m.atoms := by
  unfold PMol.updateBondOrder at h
  obtain ⟨_, _, h⟩ := bind_ok h
  obtain ⟨ab, _, h⟩ := bind_ok h
  split at h
  · simp only [pure, Except.pure, Except.ok.injEq] at h; rw [h]
  · obtain ⟨adj, _, h⟩ := bind_ok h
    obtain ⟨cl, _, h⟩ := bind_ok h
    obtain ⟨ch, _, h⟩ := bind_ok h
    simp only [pure, Except.pure, Except.ok.injEq] at h; rw [← h]

theorem foldlM_dearom {step : PMol → Nat × List Nat → Py PMol}
    (hstep : ∀ m p m', step m p = .ok m' →
      ∃ atom : Atom, m'.atoms = m.atoms.set p.1 atom ∧ atom.isAromatic = false) :
    ∀ (L : List (Nat × List Nat)) (m m' : PMol), L.foldlM step m = .ok m' →
      ∀ i a, m'.atoms[i]? = some a → a.isAromatic = true →
        i ∉ L.map (·.1) ∧ m.atoms[i]? = some a := by
  intro L
  induction L with
  | nil =>
    intro m m' h i a hi _
    simp only [List.foldlM, pure, Except.pure, Except.ok.injEq] at h
    rw [h]; exact ⟨by simp, hi⟩
  | cons p L ih =>
    intro m m' h i a hi har
    rw [List.foldlM_cons] at h
    obtain ⟨m1, h1, h2⟩ := bind_ok h
    obtain ⟨hnot, hi1⟩ := ih m1 m' h2 i a hi har
    obtain ⟨atom, hset, hatom⟩ := hstep m p m1 h1
    rw [hset, List.getElem?_set] at hi1
    by_cases hp : p.1 = i
    · rw [if_pos hp] at hi1
      split at hi1
      · simp only [Option.some.injEq] at hi1
        rw [← hi1, hatom] at har; cases har
      · cases hi1
    · rw [if_neg hp] at hi1
      refine ⟨?_, hi1⟩
      simp only [List.map_cons, List.mem_cons, not_or]
      exact ⟨fun e => hp e.symm, hnot⟩

/-- **After a successful `kekulize()` no atom is aromatic**, provided every aromatic atom was a
    node of the delocalisation subgraph (which the SMILES parser guarantees). -/
theorem kekulize_no_aromatic {m g' : PMol} {tape : List Nat} (hinv : AromInv m)
    (h : m.kekulize tape = .ok (some g')) : ∀ a ∈ g'.atoms, a.isAromatic = false := by
  intro a ha
  obtain ⟨i, hi⟩ := List.mem_iff_getElem?.1 ha
  cases har : a.isAromatic with
  | false => rfl
  | true =>
    exfalso
    unfold PMol.kekulize at h
    split at h
    · rename_i hempty
      simp only [pure, Except.pure, Except.ok.injEq, Option.some.injEq] at h
      subst h
      have := hinv i a hi har
      rw [List.isEmpty_iff.1 hempty] at this
      simp at this
    · obtain ⟨bad, _, h⟩ := bind_ok h
      split at h
      · simp [pure, Except.pure] at h
      · obtain ⟨kept, _, h⟩ := bind_ok h
        obtain ⟨pruned, _, h⟩ := bind_ok h
        obtain ⟨ml, _, h⟩ := bind_ok h
        split at h
        · simp [pure, Except.pure] at h
        · rename_i matching
          obtain ⟨m1, h1, h⟩ := bind_ok h
          obtain ⟨m2, h2, h⟩ := bind_ok h
          simp only [pure, Except.pure, Except.ok.injEq, Option.some.injEq] at h
          have hg : g'.atoms = m2.atoms := by rw [← h]
          -- second fold keeps the atoms
          have h21 : m2.atoms = m1.atoms := by
            refine foldlM_preserve (fun x : PMol => x.atoms = m1.atoms) _ ?_ _ _ _ h2 rfl
            intro s x s' hs hP
            obtain ⟨mi, _, hs⟩ := bind_ok hs
            split at hs
            · cases hs
            · obtain ⟨_, _, hs⟩ := bind_ok hs
              obtain ⟨_, _, hs⟩ := bind_ok hs
              rw [updateBondOrder_atoms hs]; exact hP
          -- first fold clears the flags of all nodes of the subgraph
          rw [hg, h21] at hi
          have := foldlM_dearom (fun s p s' hs => by
            obtain ⟨s1, hs1, hs⟩ := bind_ok hs
            obtain ⟨atom, _, hs⟩ := bind_ok hs
            obtain ⟨c, _, hs⟩ := bind_ok hs
            simp only [pure, Except.pure, Except.ok.injEq] at hs
            have hs1a : s1.atoms = s.atoms :=
              foldlM_preserve (fun x : PMol => x.atoms = s.atoms) _
                (fun y b y' hy hP => by rw [updateBondOrder_atoms hy]; exact hP) _ _ _ hs1 rfl
            refine ⟨{ atom with isAromatic := false }, ?_, rfl⟩
            rw [← hs, ← hs1a]) m.ds m m1 h1 i a hi har
          exact this.1 (hinv i a this.2 har)

/-! ### the fragment loop never raises `EncoderError` -/

/-- `x` does not raise `EncoderError` -/
def NoEE {α} (x : Py α) : Prop := x ≠ .error .EncoderError

theorem noEE_ok {α} (a : α) : NoEE (Except.ok a : Py α) := by intro h; cases h
theorem noEE_pure {α} (a : α) : NoEE (pure a : Py α) := by intro h; cases h

theorem noEE_error {α} {e : PyExc} (h : e ≠ .EncoderError) : NoEE (Except.error e : Py α) := by
  intro h'; cases h'; exact h rfl

theorem noEE_bind {α β} {x : Py α} {f : α → Py β} (hx : NoEE x)
    (hf : ∀ a, x = .ok a → NoEE (f a)) : NoEE (x >>= f) := by
  cases x with
  | error e => intro h; simp only [bind, Except.bind] at h; cases h; exact hx rfl
  | ok a => exact hf a rfl

theorem noEE_getIdx {α} (l : List α) (i : Nat) : NoEE (getIdx l i) := by
  unfold getIdx; split
  · exact noEE_ok _
  · exact noEE_error (by decide)

theorem noEE_pyAssert (c : Bool) : NoEE (pyAssert c) := by
  unfold pyAssert; split
  · exact noEE_ok _
  · exact noEE_error (by decide)

theorem noEE_mapM {α β} (f : α → Py β) (l : List α) (h : ∀ x ∈ l, NoEE (f x)) :
    NoEE (l.mapM f) := by
  intro he
  obtain ⟨x, hx, hfx⟩ := mapM_error _ _ _ he
  exact h x hx hfx

theorem noEE_bondToSmiles2 (o : Nat) (s : Option Char) : NoEE (bondToSmiles2 o s) := by
  unfold bondToSmiles2
  split
  · split <;> exact noEE_ok _
  · split
    · exact noEE_ok _
    · split
      · exact noEE_ok _
      · exact noEE_error (by decide)

theorem noEE_bondToSelfies (b : PBond) (s : Bool) : NoEE (bondToSelfies b s) := by
  unfold bondToSelfies; split
  · exact noEE_ok _
  · exact noEE_bondToSmiles2 _ _

theorem noEE_atomToSmiles (a : Atom) (b : Bool) : NoEE (atomToSmiles a b) := by
  unfold atomToSmiles
  split
  · exact noEE_error (by decide)
  · split <;> exact noEE_ok _

theorem noEE_atomToSelfies (bond : Option PBond) (a : Atom) : NoEE (atomToSelfies bond a) := by
  unfold atomToSelfies
  refine noEE_bind (noEE_pyAssert _) fun _ _ => ?_
  cases bond with
  | none =>
    exact noEE_bind (noEE_pure _) fun _ _ =>
      noEE_bind (noEE_atomToSmiles _ _) fun _ _ => noEE_pure _
  | some b =>
    exact noEE_bind (noEE_bondToSelfies _ _) fun _ _ =>
      noEE_bind (noEE_atomToSmiles _ _) fun _ _ => noEE_pure _

theorem noEE_getOut (m : PMol) (i : Nat) : NoEE (getOut m i) := getOut_ne_encoderError m i

theorem noEE_getDirBond (m : PMol) (a b : Nat) : NoEE (m.getDirBond a b) := by
  unfold PMol.getDirBond
  split
  · split
    · exact noEE_ok _
    · exact noEE_error (by decide)
  · exact noEE_error (by decide)

theorem noEE_getSelfiesFromIndex (z : Int) : NoEE (getSelfiesFromIndex z) := by
  unfold getSelfiesFromIndex
  split
  · exact noEE_error (by decide)
  · split
    · exact noEE_bind (noEE_getIdx _ _) fun _ _ => noEE_pure _
    · simp only
      split
      · exact noEE_error (by decide)
      · exact noEE_mapM _ _ fun _ _ => noEE_getIdx _ _

theorem noEE_ringBondsToSelfies (l r : PBond) : NoEE (ringBondsToSelfies l r) := by
  unfold ringBondsToSelfies
  refine noEE_bind (noEE_pyAssert _) fun _ _ => ?_
  split
  · exact noEE_bondToSelfies _ _
  · exact noEE_pure _

theorem noEE_fragmentGo (m : PMol) :
    ∀ (fuel depth : Nat) (task : EncTask) (derived : List Str) (maps : List AttributionMap)
      (ai : Nat), NoEE (fragmentGo m fuel depth task derived maps ai) := by
  intro fuel
  induction fuel with
  | zero => intro depth task derived maps ai; rw [fragmentGo]; exact noEE_error (by decide)
  | succ fuel ih =>
    intro depth task derived maps ai
    cases task with
    | atomVisit bondInto curr =>
      rw [fragmentGo]
      refine noEE_bind (noEE_getIdx _ _) fun atom _ => ?_
      refine noEE_bind (noEE_atomToSelfies _ _) fun token _ => ?_
      exact noEE_bind (noEE_getOut _ _) fun out _ => ih _ _ _ _ _
    | bondLoop rest i outLen next =>
      cases rest with
      | nil =>
        unfold fragmentGo
        split
        · exact noEE_pure _
        · exact ih _ _ _ _ _
      | cons bond rest =>
        unfold fragmentGo
        split
        · split
          · exact ih _ _ _ _ _
          · refine noEE_bind (noEE_getDirBond _ _ _) fun rev _ => ?_
            refine noEE_bind (noEE_getSelfiesFromIndex _) fun q _ => ?_
            refine noEE_bind (noEE_ringBondsToSelfies _ _) fun pre _ => ?_
            exact ih _ _ _ _ _
        · split
          · exact ih _ _ _ _ _
          · split
            · exact noEE_error (by decide)
            · refine noEE_bind (ih _ _ _ _ _) fun bm _ => ?_
              refine noEE_bind (noEE_getSelfiesFromIndex _) fun q _ => ?_
              refine noEE_bind (noEE_bondToSelfies _ _) fun pre _ => ?_
              exact ih _ _ _ _ _

theorem noEE_fragmentToSelfies (m : PMol) (root : Nat) (maps : List AttributionMap) (ai : Nat) :
    NoEE (fragmentToSelfies m root maps ai) := noEE_fragmentGo m _ _ _ _ _ _

theorem noEE_frags (m : PMol) : ∀ (roots : List Nat) (ai : Nat) (acc : List Str)
    (maps : List AttributionMap), NoEE (encoderFull.frags m roots ai acc maps) := by
  intro roots
  induction roots with
  | nil => intro ai acc maps; rw [encoderFull.frags]; exact noEE_pure _
  | cons r roots ih =>
    intro ai acc maps
    rw [encoderFull.frags]
    exact noEE_bind (noEE_fragmentToSelfies _ _ _ _) fun _ _ => ih _ _ _

/-- `encoder` raises `EncoderError` only from the part before the fragment loop -/
theorem encoderFull_encoderError_iff (T : Table) (s : Str) (strict attrib : Bool) (tape : List Nat) :
    encoderFull T s strict attrib tape = .error .EncoderError ↔
      encodePrepare T s strict attrib tape = .error .EncoderError := by
  unfold encoderFull
  cases hp : encodePrepare T s strict attrib tape with
  | error e =>
    constructor <;> intro h <;> simpa [bind, Except.bind] using h
  | ok m =>
    constructor
    · intro h
      exfalso
      refine noEE_bind (noEE_frags m m.roots 0 [] []) (fun p _ => ?_) h
      exact noEE_pure _
    · intro h; cases h

/-! ### `encodePrepare`: strict versus non-strict -/

theorem encodePrepare_nonstrict (T₁ T₂ : Table) (s : Str) (attrib : Bool) (tape : List Nat) :
    encodePrepare T₁ s false attrib tape = encodePrepare T₂ s false attrib tape := by
  rw [encodePrepare_eq, encodePrepare_eq]
  cases smilesToMol s attrib with
  | error e => rfl
  | ok g =>
    simp only
    cases g.kekulize tape with
    | error e => rfl
    | ok r =>
      cases r with
      | none => rfl
      | some g' => exact encodeTail_nonstrict T₁ T₂ g'

theorem encodePrepare_strict_ok_imp {T : Table} {s : Str} {attrib : Bool} {tape : List Nat}
    {m : PMol} (h : encodePrepare T s true attrib tape = .ok m) :
    encodePrepare T s false attrib tape = .ok m := by
  rw [encodePrepare_eq] at h ⊢
  cases hp : smilesToMol s attrib with
  | error e => rw [hp] at h; cases e <;> exact h
  | ok g =>
    rw [hp] at h
    simp only at h ⊢
    cases hk : g.kekulize tape with
    | error e => rw [hk] at h; exact h
    | ok r =>
      rw [hk] at h
      cases r with
      | none => exact h
      | some g' => exact encodeTail_strict_ok_imp T g' m h

end SV
