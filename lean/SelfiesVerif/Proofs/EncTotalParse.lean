/-
  C09 (stages 1 and 2): the SMILES tokenizer and the SMILES parser are total.

  * `tokenizeSmilesI` is the tokenizer with its three ways of returning `none` told apart
    (`lex` = the Python tokenizer raises `SMILESParserError`; `fuel` = the model ran out of fuel;
    `stuck` = a token that consumed no character).  With fuel `≥ length` only `lex` is reachable.
  * `PInv` is the invariant of the `while tokens:` loop of `_derive_mol_from_tokens`; under it
    every step returns or raises `SMILESParserError`.
-/
import SelfiesVerif.Proofs.Strict

namespace SV.C09

/-! ## stage 1: the tokenizer -/

inductive TokFail
  /-- `tokenize_smiles` raises `SMILESParserError` -/
  | lex
  /-- the model's fuel ran out (not a Python behaviour) -/
  | fuel
  /-- a token that consumed no character (the Python loop would not advance) -/
  | stuck
  deriving DecidableEq, Repr

/-- `tokenizeSmiles`, with the reason for `none` made explicit -/
def tokenizeSmilesI : Nat → Str → Except TokFail (List SmilesTok)
  | 0, [] => .ok []
  | 0, _ :: _ => .error .fuel
  | _ + 1, [] => .ok []
  | fuel + 1, c :: rest =>
    if c == '.' then
      (tokenizeSmilesI fuel rest).map fun l => { bondChar := none, kind := .dot, text := [c] } :: l
    else
      let (bond, rest1) : Option Char × Str :=
        if isSmilesBondChar c then (some c, rest) else (none, c :: rest)
      match lexSymbol bond rest1 with
      | none => .error .lex
      | some (tok, rest2) =>
        if rest2.length < (c :: rest).length then
          (tokenizeSmilesI fuel rest2).map fun l => tok :: l
        else .error .stuck

def Except.toOption' {ε α} : Except ε α → Option α
  | .ok a => some a
  | .error _ => none

theorem toOption'_map {ε α β} (f : α → β) (x : Except ε α) :
    Except.toOption' (x.map f) = (Except.toOption' x).map f := by
  cases x <;> rfl

/-- the instrumented tokenizer is the tokenizer -/
theorem tokenizeSmilesI_eq : ∀ (fuel : Nat) (s : Str),
    tokenizeSmiles fuel s = Except.toOption' (tokenizeSmilesI fuel s) := by
  intro fuel
  induction fuel with
  | zero => intro s; cases s <;> rfl
  | succ fuel ih =>
    intro s
    cases s with
    | nil => rfl
    | cons c rest =>
      simp only [tokenizeSmiles, tokenizeSmilesI]
      split
      · rw [toOption'_map, ih]
      · generalize (if isSmilesBondChar c = true then (some c, rest) else (none, c :: rest)) = br
        obtain ⟨bond, rest1⟩ := br
        simp only
        cases lexSymbol bond rest1 with
        | none => rfl
        | some r =>
          obtain ⟨tok, rest2⟩ := r
          simp only
          split
          · rw [toOption'_map, ih]
          · rfl

theorem spanCloseBracket_length : ∀ (s body rest : Str),
    spanCloseBracket s = some (body, rest) → rest.length < s.length ∧ body ≠ [] := by
  intro s
  induction s with
  | nil => intro body rest h; simp [spanCloseBracket] at h
  | cons c s ih =>
    intro body rest h
    simp only [spanCloseBracket] at h
    split at h
    · simp only [Option.some.injEq, Prod.mk.injEq] at h
      obtain ⟨h1, h2⟩ := h
      subst h1 h2
      exact ⟨by simp, by simp⟩
    · split at h
      · rename_i a r hs
        simp only [Option.some.injEq, Prod.mk.injEq] at h
        obtain ⟨h1, h2⟩ := h
        subst h1 h2
        have := (ih _ _ hs).1
        exact ⟨by simp; omega, by simp⟩
      · cases h

/-- every token consumes at least one character and has a non-empty text -/
theorem lexSymbol_progress (bond : Option Char) (s : Str) (tok : SmilesTok) (rest : Str)
    (h : lexSymbol bond s = some (tok, rest)) : rest.length < s.length ∧ tok.text ≠ [] := by
  cases s with
  | nil => simp [lexSymbol] at h
  | cons c s =>
    simp only [lexSymbol] at h
    split at h
    · -- alpha
      split at h
      · split at h
        · simp only [Option.some.injEq, Prod.mk.injEq] at h
          obtain ⟨h1, h2⟩ := h; subst h1 h2
          exact ⟨by simp; omega, by simp⟩
        · simp only [Option.some.injEq, Prod.mk.injEq] at h
          obtain ⟨h1, h2⟩ := h; subst h1 h2
          exact ⟨by simp, by simp⟩
      · simp only [Option.some.injEq, Prod.mk.injEq] at h
        obtain ⟨h1, h2⟩ := h; subst h1 h2
        exact ⟨by simp, by simp⟩
    · split at h
      · -- bracket
        split at h
        · rename_i body rest' hs
          simp only [Option.some.injEq, Prod.mk.injEq] at h
          obtain ⟨h1, h2⟩ := h; subst h1 h2
          have := (spanCloseBracket_length _ _ _ hs).1
          exact ⟨by simp; omega, by simp⟩
        · cases h
      · split at h
        · split at h
          · cases h
          · simp only [Option.some.injEq, Prod.mk.injEq] at h
            obtain ⟨h1, h2⟩ := h; subst h1 h2
            exact ⟨by simp, by simp⟩
        · split at h
          · simp only [Option.some.injEq, Prod.mk.injEq] at h
            obtain ⟨h1, h2⟩ := h; subst h1 h2
            exact ⟨by simp, by simp⟩
          · split at h
            · split at h
              · split at h
                · simp only [Option.some.injEq, Prod.mk.injEq] at h
                  obtain ⟨h1, h2⟩ := h; subst h1 h2
                  exact ⟨by simp; omega, by simp⟩
                · cases h
              · cases h
            · cases h

/-- with fuel `≥ length` the tokenizer fails only where the Python tokenizer raises
    `SMILESParserError`; all token texts are non-empty; there are at most `length` tokens -/
theorem tokenizeSmilesI_total : ∀ (fuel : Nat) (s : Str), s.length ≤ fuel →
    (∃ toks, tokenizeSmilesI fuel s = .ok toks ∧ (∀ t ∈ toks, t.text ≠ []) ∧ toks.length ≤ s.length)
      ∨ tokenizeSmilesI fuel s = .error .lex := by
  intro fuel
  induction fuel with
  | zero =>
    intro s hs
    cases s with
    | nil => exact Or.inl ⟨[], rfl, by simp, by simp⟩
    | cons c s => simp at hs
  | succ fuel ih =>
    intro s hs
    cases s with
    | nil => exact Or.inl ⟨[], rfl, by simp, by simp⟩
    | cons c rest =>
      simp only [List.length_cons] at hs
      simp only [tokenizeSmilesI]
      split
      · rcases ih rest (by omega) with ⟨toks, h1, h2, h3⟩ | h1
        · left
          refine ⟨_ :: toks, by rw [h1]; rfl, ?_, by simp; omega⟩
          intro t ht
          simp only [List.mem_cons] at ht
          rcases ht with rfl | ht
          · simp
          · exact h2 t ht
        · right; rw [h1]; rfl
      · generalize hb : (if isSmilesBondChar c = true then (some c, rest) else (none, c :: rest)) = br
        obtain ⟨bond, rest1⟩ := br
        have hr1 : rest1.length ≤ (c :: rest).length := by
          split at hb
          · cases hb; simp
          · cases hb; simp
        simp only
        split
        · right; rfl
        · rename_i tok rest2 hlex
          obtain ⟨hp1, hp2⟩ := lexSymbol_progress _ _ _ _ hlex
          have hlt : rest2.length < (c :: rest).length := by omega
          rw [if_pos hlt]
          simp only [List.length_cons] at hlt
          rcases ih rest2 (by omega) with ⟨toks, h1, h2, h3⟩ | h1
          · left
            refine ⟨tok :: toks, by rw [h1]; rfl, ?_, by simp; omega⟩
            intro t ht
            simp only [List.mem_cons] at ht
            rcases ht with rfl | ht
            · exact hp2
            · exact h2 t ht
          · right; rw [h1]; rfl

/-! ## stage 2: the parser -/

/-- all per-atom lists of the graph have one entry per atom; the roots are atoms -/
structure MolLen (m : PMol) : Prop where
  adj : m.adj.length = m.atoms.length
  counts : m.counts2.length = m.atoms.length
  flags : m.ringFlags.length = m.atoms.length
  roots : ∀ r ∈ m.roots, r < m.atoms.length

/-- position `p` of row `i` holds the placeholder of an opened ring number -/
def IsPh (adj : List (List (Option PBond))) (i p : Nat) : Prop :=
  ∃ row : List (Option PBond), adj[i]? = some row ∧ row[p]? = some none

/-- the bond orders `smiles_to_bond` can produce (half units; 3 = aromatic) -/
def OrdOK (o : Nat) : Prop := o = 2 ∨ o = 3 ∨ o = 4 ∨ o = 6

/-- every stored bond has one of these orders -/
def BondsOK (adj : List (List (Option PBond))) : Prop :=
  ∀ row ∈ adj, ∀ b : PBond, some b ∈ row → OrdOK b.order2

theorem getElem?_some_of_lt {α} {l : List α} {i : Nat} (h : i < l.length) : ∃ x, l[i]? = some x :=
  ⟨l[i], List.getElem?_eq_getElem h⟩

theorem getIdx_some {α} {l : List α} {i : Nat} {x : α} (h : l[i]? = some x) : getIdx l i = .ok x := by
  unfold getIdx; rw [h]

theorem lt_of_getElem?_eq_some {α} {l : List α} {i : Nat} {x : α} (h : l[i]? = some x) :
    i < l.length := by
  rcases Nat.lt_or_ge i l.length with h' | h'
  · exact h'
  · rw [List.getElem?_eq_none h'] at h; cases h

theorem addCount_ok {l : List Nat} {i d : Nat} (h : i < l.length) :
    ∃ l', Mol.addCount l i d = .ok l' ∧ l'.length = l.length := by
  obtain ⟨c, hc⟩ := getElem?_some_of_lt h
  exact ⟨l.set i (c + d), by unfold Mol.addCount; rw [hc], by simp⟩

/-! ### placeholders and orders under the list operations of the graph -/

theorem isPh_set {adj : List (List (Option PBond))} {s : Nat} (hs : s < adj.length)
    (new : List (Option PBond)) (i p : Nat) :
    IsPh (adj.set s new) i p ↔ if i = s then new[p]? = some none else IsPh adj i p := by
  unfold IsPh
  split
  · rename_i e
    subst e
    rw [List.getElem?_set, if_pos rfl, if_pos hs]
    constructor
    · rintro ⟨row, h1, h2⟩; cases h1; exact h2
    · intro h; exact ⟨new, rfl, h⟩
  · rename_i e
    rw [List.getElem?_set, if_neg (fun e' => e e'.symm)]

theorem isPh_append_nil (adj : List (List (Option PBond))) (i p : Nat) :
    IsPh (adj ++ [[]]) i p ↔ IsPh adj i p := by
  unfold IsPh
  rcases Nat.lt_or_ge i adj.length with hi | hi
  · rw [List.getElem?_append_left hi]
  · rw [List.getElem?_append_right hi, List.getElem?_eq_none hi]
    constructor
    · rintro ⟨row, h1, h2⟩
      cases hz : i - adj.length with
      | zero => rw [hz] at h1; simp at h1; subst h1; simp at h2
      | succ n => rw [hz] at h1; simp at h1
    · rintro ⟨row, h1, _⟩; cases h1

theorem getElem?_append_singleton_none {out : List (Option PBond)} (x : Option PBond) (p : Nat) :
    (out ++ [x])[p]? = some none ↔ out[p]? = some none ∨ (p = out.length ∧ x = none) := by
  rcases Nat.lt_or_ge p out.length with hp | hp
  · rw [List.getElem?_append_left hp]
    constructor
    · exact Or.inl
    · rintro (h | ⟨h, _⟩)
      · exact h
      · omega
  · rw [List.getElem?_append_right hp, List.getElem?_eq_none hp]
    constructor
    · intro h
      cases hz : p - out.length with
      | zero => rw [hz] at h; simp at h; exact Or.inr ⟨by omega, h⟩
      | succ n => rw [hz] at h; simp at h
    · rintro (h | ⟨h, rfl⟩)
      · cases h
      · subst h; simp

theorem isPh_set_append_some {adj : List (List (Option PBond))} {s : Nat} {out : List (Option PBond)}
    (h : adj[s]? = some out) (b : PBond) (i p : Nat) :
    IsPh (adj.set s (out ++ [some b])) i p ↔ IsPh adj i p := by
  rw [isPh_set (lt_of_getElem?_eq_some h)]
  split
  · rename_i e; subst e
    rw [getElem?_append_singleton_none]
    constructor
    · rintro (h' | ⟨_, h'⟩)
      · exact ⟨out, h, h'⟩
      · cases h'
    · rintro ⟨row, h1, h2⟩
      rw [h] at h1; cases h1; exact Or.inl h2
  · rfl

theorem isPh_set_append_none {adj : List (List (Option PBond))} {s : Nat} {out : List (Option PBond)}
    (h : adj[s]? = some out) (i p : Nat) :
    IsPh (adj.set s (out ++ [none])) i p ↔ IsPh adj i p ∨ (i = s ∧ p = out.length) := by
  rw [isPh_set (lt_of_getElem?_eq_some h)]
  split
  · rename_i e; subst e
    rw [getElem?_append_singleton_none]
    constructor
    · rintro (h' | ⟨h', _⟩)
      · exact Or.inl ⟨out, h, h'⟩
      · exact Or.inr ⟨rfl, h'⟩
    · rintro (⟨row, h1, h2⟩ | ⟨_, h'⟩)
      · rw [h] at h1; cases h1; exact Or.inl h2
      · exact Or.inr ⟨h', rfl⟩
  · rename_i e
    constructor
    · exact Or.inl
    · rintro (h' | ⟨h', _⟩)
      · exact h'
      · exact absurd h' e

theorem isPh_set_set {adj : List (List (Option PBond))} {s : Nat} {out : List (Option PBond)}
    (h : adj[s]? = some out) (q : Nat) (b : PBond) (i p : Nat) :
    IsPh (adj.set s (out.set q (some b))) i p ↔ IsPh adj i p ∧ ¬ (i = s ∧ p = q) := by
  rw [isPh_set (lt_of_getElem?_eq_some h)]
  split
  · rename_i e; subst e
    rw [List.getElem?_set]
    constructor
    · intro h'
      split at h'
      · split at h' <;> cases h'
      · rename_i hne
        exact ⟨⟨out, h, h'⟩, fun hh => hne hh.2.symm⟩
    · rintro ⟨⟨row, h1, h2⟩, hne⟩
      rw [h] at h1; cases h1
      rw [if_neg (fun e => hne ⟨rfl, e.symm⟩)]
      exact h2
  · rename_i e
    constructor
    · intro h'; exact ⟨h', fun hh => e hh.1⟩
    · exact fun h' => h'.1

theorem bondsOK_append_nil {adj : List (List (Option PBond))} (h : BondsOK adj) : BondsOK (adj ++ [[]]) := by
  intro row hrow b hb
  simp only [List.mem_append, List.mem_singleton] at hrow
  rcases hrow with hrow | rfl
  · exact h row hrow b hb
  · cases hb

theorem bondsOK_set {adj : List (List (Option PBond))} (h : BondsOK adj) (s : Nat)
    {new : List (Option PBond)} (hnew : ∀ b : PBond, some b ∈ new → OrdOK b.order2) :
    BondsOK (adj.set s new) := by
  intro row hrow b hb
  rcases List.mem_or_eq_of_mem_set hrow with hrow | rfl
  · exact h row hrow b hb
  · exact hnew b hb

theorem bondsOK_row {adj : List (List (Option PBond))} (h : BondsOK adj) {s : Nat}
    {out : List (Option PBond)} (hs : adj[s]? = some out) : ∀ b : PBond, some b ∈ out → OrdOK b.order2 :=
  h out (List.mem_of_getElem? hs)

/-- the table `SMILES_BOND_ORDERS` holds the orders 1, 1.5, 2, 3 only -/
def BondTableOK : Prop := ∀ p ∈ Gen.smilesBondOrders2, OrdOK p.2

theorem bondTableOK : BondTableOK := by unfold BondTableOK OrdOK; decide

theorem lookup_char_mem {β : Type} {k : Char} {v : β} : ∀ {l : List (Char × β)},
    lookup k l = some v → (k, v) ∈ l := by
  intro l
  induction l with
  | nil => intro h; cases h
  | cons p ps ih =>
    intro h
    obtain ⟨k', v'⟩ := p
    unfold lookup at h
    split at h
    · rename_i e
      have : k' = k := by simpa using e
      cases h; subst this; simp
    · exact List.mem_cons_of_mem _ (ih h)

theorem bondOrder2_ok (ht : BondTableOK) (c : Option Char) : OrdOK (bondOrder2 c) := by
  unfold bondOrder2
  cases c with
  | none => exact Or.inl rfl
  | some c =>
    simp only
    cases h : lookup c Gen.smilesBondOrders2 with
    | none => exact Or.inl rfl
    | some v => exact ht _ (lookup_char_mem h)

theorem ordOK_max {a b : Nat} (ha : OrdOK a) (hb : OrdOK b) : OrdOK (max a b) := by
  rcases Nat.le_total a b with h | h
  · rw [Nat.max_eq_right h]; exact hb
  · rw [Nat.max_eq_left h]; exact ha

/-! ### the graph primitives -/

/-- `add_bond(src, dst, …)` with `src < dst < len(mol)` -/
theorem addBond_total {m : PMol} (hl : MolLen m) {src dst : Nat} (hlt : src < dst)
    (hd : dst < m.atoms.length) (o2 : Nat) (st : Option Char) (attr : Option (List Attribution)) :
    ∃ m' out, m.addBond src dst o2 st attr = .ok m' ∧ m'.atoms = m.atoms ∧ MolLen m' ∧
      m.adj[src]? = some out ∧
      m'.adj = m.adj.set src (out ++ [some { src, dst, order2 := o2, stereo := st, ring := false, attr }]) := by
  have hs : src < m.adj.length := by rw [hl.adj]; omega
  obtain ⟨out, hout⟩ := getElem?_some_of_lt hs
  obtain ⟨c1, hc1, hl1⟩ := addCount_ok (l := m.counts2) (i := src) (d := o2) (by rw [hl.counts]; omega)
  obtain ⟨c2, hc2, hl2⟩ := addCount_ok (l := c1) (i := dst) (d := o2) (by rw [hl1, hl.counts]; omega)
  unfold PMol.addBond
  simp only [pyAssert, hlt, decide_true, if_true, bind, Except.bind, getIdx_some hout, hc1, hc2,
    pure, Except.pure]
  exact ⟨_, out, rfl, rfl, ⟨by simp [hl.adj], by simp [hl2, hl1, hl.counts], hl.flags, hl.roots⟩, hout, rfl⟩

/-- `add_placeholder_bond(src)` -/
theorem addPlaceholder_total {m : PMol} (hl : MolLen m) {src : Nat} (hs : src < m.atoms.length) :
    ∃ m' pos out, m.addPlaceholder src = .ok (m', pos) ∧ m'.atoms = m.atoms ∧ MolLen m' ∧
      m.adj[src]? = some out ∧ m'.adj = m.adj.set src (out ++ [none]) ∧ pos = out.length := by
  have hs' : src < m.adj.length := by rw [hl.adj]; exact hs
  obtain ⟨out, hout⟩ := getElem?_some_of_lt hs'
  unfold PMol.addPlaceholder
  simp only [bind, Except.bind, getIdx_some hout, pure, Except.pure]
  exact ⟨_, out.length, out, rfl, rfl, ⟨by simp [hl.adj], hl.counts, hl.flags, hl.roots⟩, hout, rfl, rfl⟩

/-- `add_ring_bond(a, b, …, a_pos, b_pos = -1)`, the placeholder of the ring number is at `a_pos` -/
theorem addRingBond_total {m : PMol} (hl : MolLen m) {a b : Nat} (ha : a < m.atoms.length)
    (hb : b < m.atoms.length) (hab : a ≠ b) {lpos : Nat} {row : List (Option PBond)}
    (hrow : m.adj[a]? = some row) (hph : row[lpos]? = some none) (o2 : Nat) (sa sb : Option Char) :
    ∃ m' outb, m.addRingBond a b o2 sa sb (some lpos) none = .ok m' ∧ m'.atoms = m.atoms ∧ MolLen m' ∧
      m.adj[b]? = some outb ∧
      m'.adj = (m.adj.set a (row.set lpos (some { src := a, dst := b, order2 := o2, stereo := sa, ring := true }))).set b
        (outb ++ [some { src := b, dst := a, order2 := o2, stereo := sb, ring := true }]) := by
  have hb' : b < m.adj.length := by rw [hl.adj]; exact hb
  obtain ⟨outb, houtb⟩ := getElem?_some_of_lt hb'
  have hlp : lpos < row.length := lt_of_getElem?_eq_some hph
  have hne : (lpos == row.length) = false := by simp; omega
  have e1 : PMol.addBondAtLoc m.adj { src := a, dst := b, order2 := o2, stereo := sa, ring := true } (some lpos)
      = .ok (m.adj.set a (row.set lpos (some { src := a, dst := b, order2 := o2, stereo := sa, ring := true }))) := by
    unfold PMol.addBondAtLoc
    simp only [bind, Except.bind, getIdx_some hrow, hne, Bool.false_eq_true, if_false, hph, pure, Except.pure]
  have houtb' : (m.adj.set a (row.set lpos (some { src := a, dst := b, order2 := o2, stereo := sa, ring := true })))[b]?
      = some outb := by
    rw [List.getElem?_set, if_neg hab]; exact houtb
  have e2 : PMol.addBondAtLoc (m.adj.set a (row.set lpos (some { src := a, dst := b, order2 := o2, stereo := sa, ring := true })))
      { src := b, dst := a, order2 := o2, stereo := sb, ring := true } none
      = .ok ((m.adj.set a (row.set lpos (some { src := a, dst := b, order2 := o2, stereo := sa, ring := true }))).set b
        (outb ++ [some { src := b, dst := a, order2 := o2, stereo := sb, ring := true }])) := by
    unfold PMol.addBondAtLoc
    simp only [bind, Except.bind, getIdx_some houtb', pure, Except.pure]
  obtain ⟨c1, hc1, hl1⟩ := addCount_ok (l := m.counts2) (i := a) (d := o2) (by rw [hl.counts]; exact ha)
  obtain ⟨c2, hc2, hl2⟩ := addCount_ok (l := c1) (i := b) (d := o2) (by rw [hl1, hl.counts]; exact hb)
  obtain ⟨fa, hfa⟩ := getElem?_some_of_lt (l := m.ringFlags) (i := a) (by rw [hl.flags]; exact ha)
  obtain ⟨fb, hfb⟩ := getElem?_some_of_lt (l := m.ringFlags) (i := b) (by rw [hl.flags]; exact hb)
  unfold PMol.addRingBond
  simp only [bind, Except.bind, e1, e2, hc1, hc2, getIdx_some hfa, getIdx_some hfb, pure, Except.pure]
  exact ⟨_, outb, rfl, rfl,
    ⟨by simp [hl.adj], by simp [hl2, hl1, hl.counts], by simp [hl.flags], hl.roots⟩, houtb, rfl⟩

theorem makeRing_aux {m : PMol} (hl : MolLen m) {la ra : Nat}
    (hla : la < m.atoms.length) (hra : ra < m.atoms.length) (hab : la ≠ ra) {lpos : Nat}
    {row : List (Option PBond)} (hrow : m.adj[la]? = some row) (hph : row[lpos]? = some none)
    {o2 : Nat} (sa sb : Option Char) (hord : OrdOK o2) :
    ∃ m' outb o2' sa' sb', m.addRingBond la ra o2 sa sb (some lpos) none = .ok m' ∧ m'.atoms = m.atoms ∧
      MolLen m' ∧ la ≠ ra ∧ OrdOK o2' ∧ m.adj[ra]? = some outb ∧
      m'.adj = (m.adj.set la (row.set lpos (some { src := la, dst := ra, order2 := o2', stereo := sa', ring := true }))).set ra
        (outb ++ [some { src := ra, dst := la, order2 := o2', stereo := sb', ring := true }]) := by
  obtain ⟨m', outb, e1, e2, e3, e4, e5⟩ := addRingBond_total hl hla hra hab hrow hph o2 sa sb
  exact ⟨m', outb, o2, sa, sb, e1, e2, e3, hab, hord, e4, e5⟩

/-- `_make_ring_bonds` -/
theorem makeRingBonds_total (ht : BondTableOK) {m : PMol} (hl : MolLen m) {la ra : Nat}
    (hla : la < m.atoms.length) (hra : ra < m.atoms.length) {lpos : Nat} {row : List (Option PBond)}
    (hrow : m.adj[la]? = some row) (hph : row[lpos]? = some none) (lb rb : Option Char) :
    (∃ m' outb o2 sa sb, makeRingBonds m lb la lpos rb ra = .ok m' ∧ m'.atoms = m.atoms ∧ MolLen m' ∧
      la ≠ ra ∧ OrdOK o2 ∧ m.adj[ra]? = some outb ∧
      m'.adj = (m.adj.set la (row.set lpos (some { src := la, dst := ra, order2 := o2, stereo := sa, ring := true }))).set ra
        (outb ++ [some { src := ra, dst := la, order2 := o2, stereo := sb, ring := true }]))
    ∨ makeRingBonds m lb la lpos rb ra = .error .SMILESParserError := by
  unfold makeRingBonds
  split
  · right; rfl
  · rename_i hne
    have hab : la ≠ ra := by simpa using hne
    split
    · right; rfl
    · generalize (if lb.isNone = true then (rb, lb) else (lb, rb)) = bonds
      simp only
      split
      · right; rfl
      · obtain ⟨xa, hxa⟩ := getElem?_some_of_lt hla
        obtain ⟨xb, hxb⟩ := getElem?_some_of_lt hra
        simp only [bind, Except.bind, getIdx_some hxa, getIdx_some hxb]
        left
        refine makeRing_aux hl hla hra hab hrow hph _ _ ?_
        apply ordOK_max
        · split
          · exact Or.inr (Or.inl rfl)
          · exact bondOrder2_ok ht lb
        · split
          · exact Or.inr (Or.inl rfl)
          · exact bondOrder2_ok ht rb

/-! ### chain bonds per atom: the quantity that bounds the branch recursion of the encoder -/

def isChainOpt (ob : Option PBond) : Bool :=
  match ob with
  | some b => !b.ring
  | none => false

/-- the number of chain (non-ring) bonds stored in a row -/
def ccRow (row : List (Option PBond)) : Nat := row.countP isChainOpt

/-- `Σ_atoms (chain bonds − 1)`: the number of chain bonds that are not the last of their atom -/
def phi (adj : List (List (Option PBond))) : Nat :=
  ((List.range adj.length).map fun i => ccRow (adj.getD i []) - 1).sum

theorem sum_range_congr {f g : Nat → Nat} : ∀ (n : Nat), (∀ i, i < n → f i = g i) →
    ((List.range n).map f).sum = ((List.range n).map g).sum := by
  intro n
  induction n with
  | zero => intro _; rfl
  | succ n ih =>
    intro h
    rw [List.range_succ, List.map_append, List.map_append, List.sum_append, List.sum_append,
      ih (fun i hi => h i (by omega))]
    simp [h n (by omega)]

theorem sum_range_update {f g : Nat → Nat} {p : Nat} : ∀ (n : Nat), p < n →
    (∀ i, i < n → i ≠ p → g i = f i) →
    ((List.range n).map g).sum + f p = ((List.range n).map f).sum + g p := by
  intro n
  induction n with
  | zero => intro h; omega
  | succ n ih =>
    intro hp h
    rw [List.range_succ, List.map_append, List.map_append, List.sum_append, List.sum_append]
    simp only [List.map_cons, List.map_nil, List.sum_cons, List.sum_nil, Nat.add_zero]
    by_cases hpn : p = n
    · subst hpn
      rw [sum_range_congr p (fun i hi => h i (by omega) (by omega))]
      omega
    · have := ih (by omega) (fun i hi hne => h i (by omega) hne)
      rw [h n (by omega) (fun e => hpn e.symm)]
      omega

theorem getD_set_self {adj : List (List (Option PBond))} {s : Nat} (hs : s < adj.length)
    (new : List (Option PBond)) : (adj.set s new).getD s [] = new := by
  rw [List.getD_eq_getElem?_getD, List.getElem?_set, if_pos rfl, if_pos hs]; rfl

theorem getD_set_ne {adj : List (List (Option PBond))} {s i : Nat} (h : s ≠ i)
    (new : List (Option PBond)) : (adj.set s new).getD i [] = adj.getD i [] := by
  rw [List.getD_eq_getElem?_getD, List.getD_eq_getElem?_getD, List.getElem?_set, if_neg h]

theorem phi_append_nil (adj : List (List (Option PBond))) : phi (adj ++ [[]]) = phi adj := by
  unfold phi
  simp only [List.length_append, List.length_cons, List.length_nil]
  rw [List.range_succ, List.map_append, List.sum_append]
  have h1 : (adj ++ [[]]).getD adj.length [] = [] := by
    rw [List.getD_eq_getElem?_getD, List.getElem?_append_right (Nat.le_refl _)]; simp
  have h0 : ccRow ([] : List (Option PBond)) = 0 := rfl
  simp only [List.map_cons, List.map_nil, List.sum_cons, List.sum_nil, h1, h0]
  have hc := sum_range_congr (f := fun i => ccRow ((adj ++ [[]]).getD i []) - 1)
    (g := fun i => ccRow (adj.getD i []) - 1) adj.length (by
      intro i hi
      simp only [List.getD_eq_getElem?_getD, List.getElem?_append_left hi])
  rw [hc]
  omega

/-- replacing row `s` changes `phi` by the change of that row's term -/
theorem phi_set {adj : List (List (Option PBond))} {s : Nat} {out : List (Option PBond)}
    (h : adj[s]? = some out) (new : List (Option PBond)) :
    phi (adj.set s new) + (ccRow out - 1) = phi adj + (ccRow new - 1) := by
  have hs : s < adj.length := by
    rcases Nat.lt_or_ge s adj.length with h' | h'
    · exact h'
    · rw [List.getElem?_eq_none h'] at h; cases h
  unfold phi
  simp only [List.length_set]
  have hout : adj.getD s [] = out := by rw [List.getD_eq_getElem?_getD, h]; rfl
  have := sum_range_update (f := fun i => ccRow (adj.getD i []) - 1)
    (g := fun i => ccRow ((adj.set s new).getD i []) - 1) (p := s) adj.length hs
    (fun i _ hne => by simp only [getD_set_ne (Ne.symm hne)])
  simp only [getD_set_self hs, hout] at this
  exact this

theorem phi_set_same {adj : List (List (Option PBond))} {s : Nat} {out new : List (Option PBond)}
    (h : adj[s]? = some out) (hc : ccRow new = ccRow out) : phi (adj.set s new) = phi adj := by
  have := phi_set h new
  rw [hc] at this
  omega

theorem ccRow_append_single (out : List (Option PBond)) (x : Option PBond) :
    ccRow (out ++ [x]) = ccRow out + (if isChainOpt x then 1 else 0) := by
  unfold ccRow
  rw [List.countP_append, List.countP_cons, List.countP_nil]
  simp

theorem ccRow_set {out : List (Option PBond)} {q : Nat} {x : Option PBond} (h : out[q]? = some x)
    (hx : isChainOpt x = false) {y : Option PBond} (hy : isChainOpt y = false) :
    ccRow (out.set q y) = ccRow out := by
  have hq : q < out.length := by
    rcases Nat.lt_or_ge q out.length with h' | h'
    · exact h'
    · rw [List.getElem?_eq_none h'] at h; cases h
  have hxe : out[q] = x := by
    rw [List.getElem?_eq_getElem hq] at h; exact Option.some.inj h
  unfold ccRow
  rw [List.set_eq_take_append_cons_drop, if_pos hq]
  conv => rhs; rw [← List.take_append_drop q out, List.drop_eq_getElem_cons hq]
  simp only [List.countP_append, List.countP_cons, hxe, hx, hy]

def isOpenTok (t : SmilesTok) : Bool := t.kind == .branch && t.text == ['(']

/-- the number of `(` tokens -/
def opens (toks : List SmilesTok) : Nat := toks.countP isOpenTok

/-- 1 if the next atom bonded to `prev` will not be that atom's first child -/
def childNeed (adj : List (List (Option PBond))) (prev : Option Nat) : Nat :=
  match prev with
  | some p => if 1 ≤ ccRow (adj.getD p []) then 1 else 0
  | none => 0

theorem childNeed_le (adj : List (List (Option PBond))) (prev : Option Nat) : childNeed adj prev ≤ 1 := by
  unfold childNeed
  cases prev with
  | none => exact Nat.zero_le _
  | some p => simp only; split <;> omega

/-- … for the top of `prev_stack` -/
def topNeed (st : ParseSt) : Nat := childNeed st.mol.adj (st.prevStack.headD none)

/-- every chain bond that is not the last one of its atom has been paid for by a `(` token; every
    open branch and a top-of-stack atom that already has a child hold one more payment in reserve -/
def QInv (K : Nat) (st : ParseSt) (toks : List SmilesTok) : Prop :=
  phi st.mol.adj + st.branchDepth + topNeed st + opens toks ≤ K

/-- `_attach_atom` (the graph part) -/
def attachAtom (m : PMol) (bc : Option Char) (curr : Atom) (prev : Option Nat)
    (attr : Option (List Attribution)) : Py PMol :=
  match prev with
  | none => pure (m.addAtom curr prev.isNone attr).1
  | some p => do
    let pa ← getIdx (m.addAtom curr prev.isNone attr).1.atoms p
    let (o2, stereo) := smilesToBond bc
    let o2 := if pa.isAromatic && curr.isAromatic && bc.isNone then 3 else o2
    (m.addAtom curr prev.isNone attr).1.addBond p (m.addAtom curr prev.isNone attr).2 o2 stereo attr

theorem attachAtom_total (ht : BondTableOK) {m : PMol} (hl : MolLen m) (bc : Option Char) (curr : Atom)
    (prev : Option Nat) (hprev : ∀ p, prev = some p → p < m.atoms.length)
    (attr : Option (List Attribution)) :
    ∃ mol', attachAtom m bc curr prev attr = .ok mol' ∧ mol'.atoms = m.atoms ++ [curr] ∧
      MolLen mol' ∧ (∀ i p, IsPh mol'.adj i p ↔ IsPh m.adj i p) ∧
      (BondsOK m.adj → BondsOK mol'.adj) ∧
      phi mol'.adj = phi m.adj + childNeed m.adj prev ∧
      ccRow (mol'.adj.getD m.atoms.length []) = 0 := by
  have hl1 : MolLen (m.addAtom curr prev.isNone attr).1 := by
    refine ⟨?_, ?_, ?_, ?_⟩
    · simp [PMol.addAtom, hl.adj]
    · simp [PMol.addAtom, hl.counts]
    · simp [PMol.addAtom, hl.flags]
    · intro r hr
      simp only [PMol.addAtom, List.length_append, List.length_cons, List.length_nil] at hr ⊢
      split at hr
      · simp only [List.mem_append, List.mem_singleton] at hr
        rcases hr with hr | rfl
        · have := hl.roots r hr; omega
        · omega
      · have := hl.roots r hr; omega
  cases prev with
  | none =>
    refine ⟨_, rfl, rfl, hl1, fun i p => isPh_append_nil _ i p, bondsOK_append_nil, ?_, ?_⟩
    · show phi (m.adj ++ [[]]) = phi m.adj + 0
      rw [phi_append_nil]; rfl
    · show ccRow ((m.adj ++ [[]]).getD m.atoms.length []) = 0
      rw [← hl.adj, List.getD_eq_getElem?_getD, List.getElem?_append_right (Nat.le_refl _)]
      simp [ccRow]
  | some p =>
    have hp : p < m.atoms.length := hprev p rfl
    have hp' : p < (m.addAtom curr (some p).isNone attr).1.atoms.length := by
      simp [PMol.addAtom]; omega
    obtain ⟨pa, hpa⟩ := getElem?_some_of_lt hp'
    unfold attachAtom
    simp only [bind, Except.bind, getIdx_some hpa]
    obtain ⟨m', out, e1, e2, e3, e4, e5⟩ := addBond_total hl1 (src := p) (dst := m.atoms.length) hp
      (by simp [PMol.addAtom])
      (if (pa.isAromatic && curr.isAromatic && bc.isNone) = true then 3 else (smilesToBond bc).1)
      (smilesToBond bc).2 attr
    have e4' : (m.adj ++ [[]])[p]? = some out := e4
    have hpadj : p < m.adj.length := hl.adj ▸ hp
    have hout : m.adj.getD p [] = out := by
      rw [List.getElem?_append_left hpadj] at e4'
      rw [List.getD_eq_getElem?_getD, e4']; rfl
    refine ⟨m', e1, e2, e3, ?_, ?_, ?_, ?_⟩
    rotate_left 2
    · show phi m'.adj = phi m.adj + (if 1 ≤ ccRow (m.adj.getD p []) then 1 else 0)
      rw [e5, hout]
      generalize hO : (if (pa.isAromatic && curr.isAromatic && bc.isNone) = true then 3
        else (smilesToBond bc).1) = O
      have h1 := phi_set e4' (out ++ [some (PBond.mk p m.atoms.length O (smilesToBond bc).2 false attr)])
      rw [ccRow_append_single, phi_append_nil] at h1
      simp only [isChainOpt, Bool.not_false, if_true] at h1
      show phi ((m.adj ++ [[]]).set p _) = _
      split <;> omega
    · show ccRow (m'.adj.getD m.atoms.length []) = 0
      rw [e5]
      have hne : p ≠ m.atoms.length := by omega
      show ccRow (((m.adj ++ [[]]).set p _).getD m.atoms.length []) = 0
      rw [getD_set_ne hne, ← hl.adj, List.getD_eq_getElem?_getD,
        List.getElem?_append_right (Nat.le_refl _)]
      simp [ccRow]
    · intro i q
      rw [e5, isPh_set_append_some e4]
      exact isPh_append_nil _ i q
    · intro hb
      rw [e5]
      have hb1 : BondsOK (m.addAtom curr (some p).isNone attr).1.adj := bondsOK_append_nil hb
      refine bondsOK_set hb1 p ?_
      intro b hbm
      simp only [List.mem_append, List.mem_singleton, Option.some.injEq] at hbm
      rcases hbm with hbm | rfl
      · exact bondsOK_row hb1 e4 b hbm
      · show OrdOK (if (pa.isAromatic && curr.isAromatic && bc.isNone) = true then 3 else (smilesToBond bc).1)
        split
        · exact Or.inr (Or.inl rfl)
        · exact bondOrder2_ok ht bc

/-- the loop state after an ATOM token -/
def afterAtom (st : ParseSt) (tok : SmilesTok) (mol : PMol) : ParseSt :=
  { st with mol := mol, prevStack := some st.mol.atoms.length :: st.prevStack.tail,
            chainStart := false, i := (if tok.bondChar.isSome then st.i + 1 else st.i) + 1 }

def afterOpen (st : ParseSt) (prev : Option Nat) : ParseSt :=
  { st with prevStack := prev :: st.prevStack, branchDepth := st.branchDepth + 1,
            chainStart := true, i := st.i + 1 }

def afterClose (st : ParseSt) : ParseSt :=
  { st with prevStack := st.prevStack.tail, branchDepth := st.branchDepth - 1, i := st.i + 1 }

def afterRingOpen (st : ParseSt) (tok : SmilesTok) (p : Nat) (m' : PMol) (pos : Nat) : ParseSt :=
  { st with mol := m', i := st.i + 1,
            ringLog := st.ringLog ++ [{ label := tok.text, bondChar := tok.bondChar, atom := p, pos := pos }] }

def afterRingClose (st : ParseSt) (tok : SmilesTok) (m' : PMol) : ParseSt :=
  { st with mol := m', i := st.i + 1, ringLog := st.ringLog.filter (·.label != tok.text) }

/-- the invariant of the `while tokens:` loop of `_derive_mol_from_tokens` -/
structure PInv (st : ParseSt) : Prop where
  len : MolLen st.mol
  /-- `prev_stack` holds one entry per open branch plus one: it is never empty -/
  stack : st.prevStack.length = st.branchDepth + 1
  /-- the atoms on `prev_stack` are atoms of the graph -/
  inRange : ∀ x, some x ∈ st.prevStack → x < st.mol.atoms.length
  /-- only the top of `prev_stack` can be `None` -/
  tailSome : ∀ p ∈ st.prevStack.tail, p ≠ none
  /-- … and only at the start of a chain -/
  headSome : st.chainStart = false → ∀ p, st.prevStack.head? = some p → p ≠ none
  /-- the placeholders in the adjacency lists are exactly the positions the open ring numbers
      remember -/
  ph : ∀ i p, IsPh st.mol.adj i p ↔ ∃ ro ∈ st.ringLog, ro.atom = i ∧ ro.pos = p
  /-- `ring_log` is a dict: its keys are distinct -/
  labels : (st.ringLog.map (·.label)).Nodup
  /-- two open ring numbers never share a placeholder -/
  inj : ∀ ro ∈ st.ringLog, ∀ ro' ∈ st.ringLog, ro.atom = ro'.atom → ro.pos = ro'.pos → ro = ro'
  /-- every stored bond has order 1, 1.5, 2 or 3 -/
  bonds : BondsOK st.mol.adj

theorem eq_of_label_eq {log : List RingOpen} (hnd : (log.map (·.label)).Nodup) {a b : RingOpen}
    (ha : a ∈ log) (hb : b ∈ log) (h : a.label = b.label) : a = b := by
  induction log with
  | nil => cases ha
  | cons x xs ih =>
    simp only [List.map_cons, List.nodup_cons, List.mem_map, not_exists, not_and] at hnd
    simp only [List.mem_cons] at ha hb
    rcases ha with rfl | ha <;> rcases hb with rfl | hb
    · rfl
    · exact absurd h.symm (hnd.1 _ hb)
    · exact absurd h (hnd.1 _ ha)
    · exact ih hnd.2 ha hb

/-- result of one run of the loop: it returns (with the invariant, having consumed at least one
    token if there was one) or raises `SMILESParserError` -/
def LoopTotal (attrib : Bool) (toks : List SmilesTok) (st : ParseSt) : Prop :=
  (∃ st' rest, parseFragmentLoop attrib toks st = .ok (st', rest) ∧ PInv st' ∧
      rest.length ≤ toks.length ∧ (toks ≠ [] → rest.length < toks.length) ∧
      st.mol.atoms.length ≤ st'.mol.atoms.length ∧
      st'.mol.atoms.length + rest.length ≤ st.mol.atoms.length + toks.length ∧
      ∀ K, QInv K st toks → QInv K st' rest)
    ∨ parseFragmentLoop attrib toks st = .error .SMILESParserError

theorem LoopTotal.step {attrib : Bool} {tok : SmilesTok} {rest : List SmilesTok} {st st1 : ParseSt}
    (heq : parseFragmentLoop attrib (tok :: rest) st = parseFragmentLoop attrib rest st1)
    (hsz : st.mol.atoms.length ≤ st1.mol.atoms.length ∧ st1.mol.atoms.length ≤ st.mol.atoms.length + 1)
    (hQ : ∀ K, QInv K st (tok :: rest) → QInv K st1 rest)
    (h : LoopTotal attrib rest st1) : LoopTotal attrib (tok :: rest) st := by
  rcases h with ⟨st', r, h1, h2, h3, _, h5, h6, h7⟩ | h1
  · left
    exact ⟨st', r, heq.trans h1, h2, by simp; omega, fun _ => by simp; omega, by omega,
      by simp only [List.length_cons]; omega, fun K hK => h7 K (hQ K hK)⟩
  · right; exact heq.trans h1

theorem parseFragmentLoop_total (attrib : Bool) :
    ∀ (toks : List SmilesTok) (st : ParseSt), PInv st → LoopTotal attrib toks st := by
  intro toks
  induction toks with
  | nil =>
    intro st hinv
    exact Or.inl ⟨st, [], rfl, hinv, by simp, fun h => absurd rfl h, Nat.le_refl _, Nat.le_refl _, fun _ h => h⟩
  | cons tok rest ih =>
    intro st hinv
    -- the stack is not empty
    obtain ⟨prev, stk, hstk⟩ : ∃ p s, st.prevStack = p :: s := by
      cases hs : st.prevStack with
      | nil => have := hinv.stack; rw [hs] at this; simp at this
      | cons p s => exact ⟨p, s, rfl⟩
    have hlen := hinv.len
    cases hk : tok.kind with
    | dot =>
      left
      refine ⟨st, rest, ?_, hinv, by simp, fun _ => by simp, Nat.le_refl _, by simp, ?_⟩
      · rw [parseFragmentLoop]
        simp only [hstk, hk, bind, Except.bind, pure, Except.pure]
      · intro K hK
        unfold QInv opens at hK ⊢
        rw [List.countP_cons] at hK
        omega
    | atom =>
      cases hsa : smilesToAtom tok.text with
      | none =>
        right
        rw [parseFragmentLoop]
        simp only [hstk, hk, hsa, bind, Except.bind, pure, Except.pure]
      | some curr =>
        obtain ⟨mol', hm1, hm2, hm3, hm4, hm5⟩ := attachAtom_total bondTableOK hlen tok.bondChar curr prev
          (fun p hp => hinv.inRange p (by rw [hstk, hp]; simp))
          (if attrib then some [Attribution.mk (if tok.bondChar.isSome then st.i + 1 else st.i) tok.text]
            else none)
        have heq : parseFragmentLoop attrib (tok :: rest) st =
            (attachAtom st.mol tok.bondChar curr prev
              (if attrib then some [Attribution.mk (if tok.bondChar.isSome then st.i + 1 else st.i) tok.text]
                else none)) >>= fun mol =>
              parseFragmentLoop attrib rest (afterAtom st tok mol) := by
          rw [parseFragmentLoop]
          simp only [hstk, hk, hsa, bind, Except.bind, pure, Except.pure]
          cases prev <;> simp only [afterAtom, hstk] <;> rfl
        have hnotopen : isOpenTok tok = false := by simp [isOpenTok, hk]
        refine LoopTotal.step (st1 := afterAtom st tok mol') ?_ (by simp [afterAtom, hm2]) ?_ (ih _ ?_)
        · rw [heq, hm1]; rfl
        · intro K hK
          unfold QInv opens at hK ⊢
          rw [List.countP_cons, hnotopen] at hK
          have ht0 : topNeed (afterAtom st tok mol') = 0 := by
            simp only [topNeed, afterAtom, List.headD_cons, childNeed, hm5.2.2]
            rfl
          have ht1 : topNeed st = childNeed st.mol.adj prev := by
            simp only [topNeed, hstk, List.headD_cons]
          rw [ht0]
          have := hm5.2.1
          simp only [afterAtom]
          rw [ht1] at hK
          simp only [Bool.false_eq_true, if_false] at hK
          omega
        · unfold afterAtom
          refine ⟨hm3, ?_, ?_, ?_, ?_, ?_, hinv.labels, hinv.inj, hm5.1 hinv.bonds⟩
          · simp only [hstk, List.tail_cons, List.length_cons]
            have := hinv.stack; rw [hstk] at this; simpa using this
          · intro x hx
            simp only [hm2, List.length_append, List.length_cons, List.length_nil]
            simp only [List.mem_cons, Option.some.injEq] at hx
            rcases hx with rfl | hx
            · omega
            · have := hinv.inRange x (by rw [hstk]; exact List.mem_cons_of_mem _ (by simpa [hstk] using hx))
              omega
          · exact hinv.tailSome
          · intro _ p hp; simp at hp; subst hp; simp
          · intro i p; rw [hm4]; exact hinv.ph i p
    | branch =>
      cases hcs : st.chainStart with
      | true =>
        right
        rw [parseFragmentLoop]
        simp only [hstk, hk, hcs, bind, Except.bind, pure, Except.pure, if_true]
      | false =>
        by_cases hopen : tok.text = ['(']
        · refine LoopTotal.step (st1 := afterOpen st prev) ?_ ⟨Nat.le_refl _, Nat.le_succ _⟩ ?_ (ih _ ?_)
          · rw [parseFragmentLoop]
            simp only [hstk, hk, hcs, hopen, bind, Except.bind, pure, Except.pure, if_true,
              Bool.false_eq_true, if_false, beq_self_eq_true, afterOpen]
          · intro K hK
            have hop : isOpenTok tok = true := by simp [isOpenTok, hk, hopen]
            unfold QInv opens at hK ⊢
            rw [List.countP_cons, hop] at hK
            have ht : topNeed (afterOpen st prev) = topNeed st := by
              simp only [topNeed, afterOpen, hstk, List.headD_cons]
            rw [ht]
            simp only [afterOpen]
            simp only [if_true] at hK
            omega
          · have hps : prev ≠ none := hinv.headSome hcs prev (by rw [hstk]; rfl)
            unfold afterOpen
            refine ⟨hlen, by simp [hinv.stack], ?_, ?_, (by intro h; cases h), hinv.ph, hinv.labels,
              hinv.inj, hinv.bonds⟩
            · intro x hx
              simp only [List.mem_cons] at hx
              rcases hx with hx | hx
              · exact hinv.inRange x (by rw [hstk, ← hx]; simp)
              · exact hinv.inRange x hx
            · intro p hp
              simp only [List.tail_cons, hstk, List.mem_cons] at hp
              rcases hp with rfl | hp
              · exact hps
              · exact hinv.tailSome p (by rw [hstk]; exact hp)
        · by_cases hd : st.branchDepth = 0
          · right
            rw [parseFragmentLoop]
            simp only [hstk, hk, hcs, hopen, hd, bind, Except.bind, pure, Except.pure, if_true,
              Bool.false_eq_true, if_false, beq_iff_eq, beq_self_eq_true]
          · refine LoopTotal.step (st1 := afterClose st) ?_ ⟨Nat.le_refl _, Nat.le_succ _⟩ ?_ (ih _ ?_)
            · rw [parseFragmentLoop]
              simp only [hstk, hk, hcs, hopen, hd, bind, Except.bind, pure, Except.pure,
                Bool.false_eq_true, if_false, beq_iff_eq, List.tail_cons, afterClose]
            · intro K hK
              unfold QInv opens at hK ⊢
              rw [List.countP_cons] at hK
              have ht : topNeed (afterClose st) ≤ 1 := childNeed_le _ _
              simp only [afterClose] at ht ⊢
              omega
            · have hst := hinv.stack
              unfold afterClose
              refine ⟨hlen, by simp only [List.length_tail]; omega, ?_, ?_, ?_, hinv.ph, hinv.labels,
                hinv.inj, hinv.bonds⟩
              · intro x hx; exact hinv.inRange x (List.mem_of_mem_tail hx)
              · intro p hp; exact hinv.tailSome p (List.mem_of_mem_tail hp)
              · intro _ p hp
                simp only at hp
                exact hinv.tailSome p (List.mem_of_mem_head? hp)
    | ring =>
      cases hcs : st.chainStart with
      | true =>
        right
        rw [parseFragmentLoop]
        simp only [hstk, hk, hcs, bind, Except.bind, pure, Except.pure, if_true]
      | false =>
        have hps : prev ≠ none := hinv.headSome hcs prev (by rw [hstk]; rfl)
        obtain ⟨p, rfl⟩ : ∃ p, prev = some p := by
          cases prev with
          | none => exact absurd rfl hps
          | some p => exact ⟨p, rfl⟩
        have hp : p < st.mol.atoms.length := hinv.inRange p (by rw [hstk]; simp)
        cases hfind : st.ringLog.find? (·.label == tok.text) with
        | none =>
          obtain ⟨m', pos, out, e1, e2, e3, e4, e5, e6⟩ := addPlaceholder_total hlen hp
          have hccp : ccRow (out ++ [none]) = ccRow out := by
            rw [ccRow_append_single]; simp [isChainOpt]
          refine LoopTotal.step (st1 := afterRingOpen st tok p m' pos) ?_ (by simp [afterRingOpen, e2])
            ?_ (ih _ ?_)
          · rw [parseFragmentLoop]
            simp only [hstk, hk, hcs, hfind, e1, bind, Except.bind, pure, Except.pure,
              Bool.false_eq_true, if_false, afterRingOpen]
          · intro K hK
            unfold QInv opens at hK ⊢
            rw [List.countP_cons] at hK
            have hphi : phi m'.adj = phi st.mol.adj := by rw [e5]; exact phi_set_same e4 hccp
            have hout : st.mol.adj.getD p [] = out := by rw [List.getD_eq_getElem?_getD, e4]; rfl
            have ht : topNeed (afterRingOpen st tok p m' pos) = topNeed st := by
              simp only [topNeed, afterRingOpen, hstk, List.headD_cons, childNeed, e5,
                getD_set_self (lt_of_getElem?_eq_some e4), hccp, hout]
            rw [ht]
            simp only [afterRingOpen]
            rw [hphi]
            omega
          · have hnew : ∀ ro ∈ st.ringLog, ¬ (ro.atom = p ∧ ro.pos = out.length) := by
              rintro ro hro ⟨h1, h2⟩
              obtain ⟨row, g1, g2⟩ := (hinv.ph p out.length).2 ⟨ro, hro, h1, h2⟩
              rw [e4] at g1; cases g1
              have := lt_of_getElem?_eq_some g2
              omega
            have hlab : ∀ ro ∈ st.ringLog, ro.label ≠ tok.text := by
              intro ro hro e
              rw [List.find?_eq_none] at hfind
              exact hfind ro hro (by simp [e])
            unfold afterRingOpen
            refine ⟨e3, hinv.stack, ?_, hinv.tailSome, hinv.headSome, ?_, ?_, ?_, ?_⟩
            · intro x hx; simp only [e2]; exact hinv.inRange x hx
            · intro i q
              simp only [e5]
              rw [isPh_set_append_none e4, hinv.ph i q]
              constructor
              · rintro (⟨ro, hro, h1, h2⟩ | ⟨h1, h2⟩)
                · exact ⟨ro, by simp [hro], h1, h2⟩
                · exact ⟨{ label := tok.text, bondChar := tok.bondChar, atom := p, pos := pos }, by simp,
                    h1.symm, by show pos = q; rw [e6, h2]⟩
              · rintro ⟨ro, hro, h1, h2⟩
                simp only [List.mem_append, List.mem_singleton] at hro
                rcases hro with hro | rfl
                · exact Or.inl ⟨ro, hro, h1, h2⟩
                · exact Or.inr ⟨h1.symm, by rw [← h2, e6]⟩
            · simp only [List.map_append, List.map_cons, List.map_nil]
              rw [List.nodup_append]
              refine ⟨hinv.labels, by simp, ?_⟩
              intro a ha b hb
              simp only [List.mem_singleton] at hb
              obtain ⟨ro, hro, rfl⟩ := List.mem_map.1 ha
              rw [hb]
              exact hlab ro hro
            · intro ro hro ro' hro' h1 h2
              simp only [List.mem_append, List.mem_singleton] at hro hro'
              rcases hro with hro | rfl <;> rcases hro' with hro' | rfl
              · exact hinv.inj ro hro ro' hro' h1 h2
              · exact absurd ⟨h1, by rw [h2, e6]⟩ (hnew ro hro)
              · exact absurd ⟨h1.symm, by rw [← h2, e6]⟩ (hnew ro' hro')
              · rfl
            · simp only [e5]
              refine bondsOK_set hinv.bonds p ?_
              intro b hb
              simp only [List.mem_append, List.mem_singleton] at hb
              rcases hb with hb | hb
              · exact bondsOK_row hinv.bonds e4 b hb
              · cases hb
        | some ro =>
          have hro : ro ∈ st.ringLog := List.mem_of_find?_eq_some hfind
          have hrolab : ro.label = tok.text := by
            have := List.find?_some hfind
            simpa using this
          obtain ⟨row, h2, h3⟩ := (hinv.ph ro.atom ro.pos).2 ⟨ro, hro, rfl, rfl⟩
          have h1 : ro.atom < st.mol.atoms.length := hlen.adj ▸ lt_of_getElem?_eq_some h2
          rcases makeRingBonds_total bondTableOK hlen h1 hp h2 h3 ro.bondChar tok.bondChar with
            ⟨m', outb, o2, sa, sb, e1, e2, e3, hab, hord, e4, e5⟩ | e1
          · have e4'' : (st.mol.adj.set ro.atom (row.set ro.pos
                  (some { src := ro.atom, dst := p, order2 := o2, stereo := sa, ring := true })))[p]? = some outb := by
              rw [List.getElem?_set, if_neg hab]; exact e4
            have hcc1 : ccRow (row.set ro.pos (some { src := ro.atom, dst := p, order2 := o2, stereo := sa, ring := true }))
                = ccRow row := ccRow_set h3 rfl rfl
            have hcc2 : ccRow (outb ++ [some { src := p, dst := ro.atom, order2 := o2, stereo := sb, ring := true }])
                = ccRow outb := by rw [ccRow_append_single]; simp [isChainOpt]
            refine LoopTotal.step (st1 := afterRingClose st tok m') ?_ (by simp [afterRingClose, e2])
              ?_ (ih _ ?_)
            · rw [parseFragmentLoop]
              simp only [hstk, hk, hcs, hfind, e1, bind, Except.bind, pure, Except.pure,
                Bool.false_eq_true, if_false, afterRingClose]
            · intro K hK
              unfold QInv opens at hK ⊢
              rw [List.countP_cons] at hK
              have hphi : phi m'.adj = phi st.mol.adj := by
                rw [e5, phi_set_same e4'' hcc2, phi_set_same h2 hcc1]
              have houtb : st.mol.adj.getD p [] = outb := by rw [List.getD_eq_getElem?_getD, e4]; rfl
              have ht : topNeed (afterRingClose st tok m') = topNeed st := by
                simp only [topNeed, afterRingClose, hstk, List.headD_cons, childNeed, e5,
                  getD_set_self (lt_of_getElem?_eq_some e4''), hcc2, houtb]
              rw [ht]
              simp only [afterRingClose]
              rw [hphi]
              omega
            · have e4' : (st.mol.adj.set ro.atom (row.set ro.pos
                  (some { src := ro.atom, dst := p, order2 := o2, stereo := sa, ring := true })))[p]? = some outb := by
                rw [List.getElem?_set, if_neg hab]; exact e4
              unfold afterRingClose
              refine ⟨e3, hinv.stack, ?_, hinv.tailSome, hinv.headSome, ?_, ?_, ?_, ?_⟩
              · intro x hx; simp only [e2]; exact hinv.inRange x hx
              · intro i q
                simp only [e5]
                rw [isPh_set_append_some e4', isPh_set_set h2, hinv.ph i q]
                constructor
                · rintro ⟨⟨ro', hro', g1, g2⟩, hne⟩
                  refine ⟨ro', List.mem_filter.2 ⟨hro', ?_⟩, g1, g2⟩
                  simp only [bne_iff_ne, ne_eq]
                  intro e
                  have : ro' = ro := eq_of_label_eq hinv.labels hro' hro (e.trans hrolab.symm)
                  subst this
                  exact hne ⟨g1.symm, g2.symm⟩
                · rintro ⟨ro', hro', g1, g2⟩
                  obtain ⟨hm, hl'⟩ := List.mem_filter.1 hro'
                  refine ⟨⟨ro', hm, g1, g2⟩, ?_⟩
                  rintro ⟨f1, f2⟩
                  have : ro' = ro := hinv.inj ro' hm ro hro (g1.trans f1) (g2.trans f2)
                  subst this
                  simp [hrolab] at hl'
              · exact (hinv.labels.sublist ((List.filter_sublist).map _))
              · intro a ha b hb
                exact hinv.inj a (List.mem_filter.1 ha).1 b (List.mem_filter.1 hb).1
              · simp only [e5]
                refine bondsOK_set (bondsOK_set hinv.bonds ro.atom ?_) p ?_
                · intro b hb
                  rcases List.mem_or_eq_of_mem_set hb with hb | hb
                  · exact bondsOK_row hinv.bonds h2 b hb
                  · cases hb; exact hord
                · intro b hb
                  simp only [List.mem_append, List.mem_singleton, Option.some.injEq] at hb
                  rcases hb with hb | rfl
                  · have hb0 : BondsOK (st.mol.adj.set ro.atom (row.set ro.pos
                        (some { src := ro.atom, dst := p, order2 := o2, stereo := sa, ring := true }))) := by
                      refine bondsOK_set hinv.bonds ro.atom ?_
                      intro b' hb'
                      rcases List.mem_or_eq_of_mem_set hb' with hb' | hb'
                      · exact bondsOK_row hinv.bonds h2 b' hb'
                      · cases hb'; exact hord
                    exact bondsOK_row hb0 e4' b hb
                  · exact hord
          · right
            rw [parseFragmentLoop]
            simp only [hstk, hk, hcs, hfind, e1, bind, Except.bind, pure, Except.pure,
              Bool.false_eq_true, if_false]

/-! ### `(` tokens come from `(` characters -/

theorem spanCloseBracket_append : ∀ (s body rest : Str),
    spanCloseBracket s = some (body, rest) → s = body ++ rest := by
  intro s
  induction s with
  | nil => intro body rest h; simp [spanCloseBracket] at h
  | cons c s ih =>
    intro body rest h
    simp only [spanCloseBracket] at h
    split at h
    · simp only [Option.some.injEq, Prod.mk.injEq] at h
      obtain ⟨h1, h2⟩ := h
      subst h1 h2
      rfl
    · split at h
      · rename_i a r hs
        simp only [Option.some.injEq, Prod.mk.injEq] at h
        obtain ⟨h1, h2⟩ := h
        subst h1 h2
        rw [ih _ _ hs]; rfl
      · cases h

theorem count_cons_ge (c : Char) (s : Str) : s.count '(' ≤ (c :: s).count '(' := by
  rw [List.count_cons]; omega

theorem count_suffix (pre rest : Str) : rest.count '(' ≤ (pre ++ rest).count '(' := by
  rw [List.count_append]; omega

theorem isOpenTok_atom (b : Option Char) (t : Str) :
    isOpenTok { bondChar := b, kind := .atom, text := t } = false := by simp [isOpenTok]

theorem isOpenTok_ring (b : Option Char) (t : Str) :
    isOpenTok { bondChar := b, kind := .ring, text := t } = false := by simp [isOpenTok]

/-- a token is a `(` token only if it consumed a `(` character -/
theorem lexSymbol_opens (bond : Option Char) (s : Str) (tok : SmilesTok) (rest : Str)
    (h : lexSymbol bond s = some (tok, rest)) :
    (if isOpenTok tok then 1 else 0) + rest.count '(' ≤ s.count '(' := by
  cases s with
  | nil => simp [lexSymbol] at h
  | cons c s =>
    simp only [lexSymbol] at h
    split at h
    · -- alpha: an ATOM token
      split at h
      · rename_i d rest'
        split at h
        · cases h
          rw [isOpenTok_atom]
          simp only [Bool.false_eq_true, if_false, Nat.zero_add]
          exact count_suffix [c, d] rest
        · cases h
          rw [isOpenTok_atom]
          simp only [Bool.false_eq_true, if_false, Nat.zero_add]
          exact count_suffix [c] (d :: rest')
      · cases h
        rw [isOpenTok_atom]
        simp only [Bool.false_eq_true, if_false, Nat.zero_add]
        exact count_suffix [c] []
    · split at h
      · -- bracket atom
        split at h
        · rename_i body rest' hs
          cases h
          have e := spanCloseBracket_append _ _ _ hs
          rw [isOpenTok_atom, e]
          simp only [Bool.false_eq_true, if_false, Nat.zero_add]
          exact count_suffix (c :: body) rest
        · cases h
      · split at h
        · -- branch
          split at h
          · cases h
          · cases h
            by_cases hc : c = '('
            · subst hc
              simp only [isOpenTok, beq_self_eq_true, Bool.true_and, if_true, List.count_cons]
              omega
            · have e : isOpenTok { bondChar := none, kind := .branch, text := [c] } = false := by
                simp [isOpenTok, hc]
              rw [e]
              simp only [Bool.false_eq_true, if_false, Nat.zero_add]
              exact count_suffix [c] rest
        · split at h
          · cases h
            rw [isOpenTok_ring]
            simp only [Bool.false_eq_true, if_false, Nat.zero_add]
            exact count_suffix [c] rest
          · split at h
            · split at h
              · rename_i d1 d2 rest'
                split at h
                · cases h
                  rw [isOpenTok_ring]
                  simp only [Bool.false_eq_true, if_false, Nat.zero_add]
                  exact count_suffix [c, d1, d2] rest
                · cases h
              · cases h
            · cases h

theorem tokenizeSmilesI_opens : ∀ (fuel : Nat) (s : Str) (toks : List SmilesTok),
    tokenizeSmilesI fuel s = .ok toks → opens toks ≤ s.count '(' := by
  intro fuel
  induction fuel with
  | zero =>
    intro s toks h
    cases s with
    | nil => simp only [tokenizeSmilesI] at h; cases h; simp [opens]
    | cons c s => simp [tokenizeSmilesI] at h
  | succ fuel ih =>
    intro s toks h
    cases s with
    | nil => simp only [tokenizeSmilesI] at h; cases h; simp [opens]
    | cons c rest =>
      simp only [tokenizeSmilesI] at h
      split at h
      · cases hr : tokenizeSmilesI fuel rest with
        | error e => rw [hr] at h; cases h
        | ok l =>
          rw [hr] at h
          simp only [Except.map, Except.ok.injEq] at h
          subst h
          have := ih rest l hr
          have := count_cons_ge c rest
          simp only [opens, List.countP_cons, isOpenTok] at *
          simp; omega
      · generalize hb : (if isSmilesBondChar c = true then (some c, rest) else (none, c :: rest)) = br at h
        obtain ⟨bond, rest1⟩ := br
        have hr1 : rest1.count '(' ≤ (c :: rest).count '(' := by
          split at hb
          · cases hb; exact count_cons_ge c rest
          · cases hb; exact Nat.le_refl _
        simp only at h
        split at h
        · cases h
        · rename_i tok rest2 hlex
          split at h
          · cases hr : tokenizeSmilesI fuel rest2 with
            | error e => rw [hr] at h; cases h
            | ok l =>
              rw [hr] at h
              simp only [Except.map, Except.ok.injEq] at h
              subst h
              have h1 := ih rest2 l hr
              have h2 := lexSymbol_opens _ _ _ _ hlex
              simp only [opens, List.countP_cons] at h1 ⊢
              omega
          · cases h

/-- a graph between two fragments: no placeholder left -/
structure MolOK (m : PMol) : Prop where
  len : MolLen m
  noPh : ∀ i p, ¬ IsPh m.adj i p
  bonds : BondsOK m.adj

theorem pinv_init {m : PMol} (hm : MolOK m) (i : Nat) :
    PInv { mol := m, prevStack := [none], branchDepth := 0, ringLog := [], chainStart := true, i := i } :=
  ⟨hm.len, rfl, by simp, by simp, (by intro h; cases h),
    fun i p => ⟨fun h => absurd h (hm.noPh i p), fun ⟨_, h, _⟩ => by cases h⟩,
    List.nodup_nil, (by intro ro h; cases h), hm.bonds⟩

/-- `_derive_mol_from_tokens` returns (having consumed a token) or raises `SMILESParserError` -/
theorem parseFragment_total (attrib : Bool) (toks : List SmilesTok) (m : PMol) (hm : MolOK m)
    (i : Nat) :
    (∃ m' i' rest, parseFragment attrib toks m i = .ok (m', i', rest) ∧ MolOK m' ∧
        (toks ≠ [] → rest.length < toks.length) ∧
        m'.atoms.length + rest.length ≤ m.atoms.length + toks.length ∧
        phi m'.adj + opens rest ≤ phi m.adj + opens toks)
      ∨ parseFragment attrib toks m i = .error .SMILESParserError := by
  unfold parseFragment
  rcases parseFragmentLoop_total attrib toks _ (pinv_init hm i) with ⟨st', rest, h1, h2, _, h4, _, h6, h7⟩ | h1
  · simp only [bind, Except.bind, h1]
    split
    · right; rfl
    · split
      · right; rfl
      · split
        · right; rfl
        · rename_i hlog
          left
          have hq := h7 (phi m.adj + opens toks) (by
            unfold QInv topNeed childNeed
            simp)
          refine ⟨_, _, _, rfl, ⟨h2.len, ?_, h2.bonds⟩, h4, h6, by unfold QInv at hq; omega⟩
          intro i p hph
          obtain ⟨ro, hro, _⟩ := (h2.ph i p).1 hph
          have : st'.ringLog = [] := by
            cases hl : st'.ringLog with
            | nil => rfl
            | cons x xs => rw [hl] at hlog; simp at hlog
          rw [this] at hro; cases hro
  · right; simp only [bind, Except.bind, h1]

theorem smilesToMol_go_total (attrib : Bool) : ∀ (fuel : Nat) (toks : List SmilesTok) (m : PMol)
    (i : Nat), MolOK m → toks.length < fuel →
    (∃ g, smilesToMol.go attrib fuel toks m i = .ok g ∧ MolOK g ∧
        g.atoms.length ≤ m.atoms.length + toks.length ∧ phi g.adj ≤ phi m.adj + opens toks)
      ∨ smilesToMol.go attrib fuel toks m i = .error .SMILESParserError := by
  intro fuel
  induction fuel with
  | zero => intro toks m i _ h; omega
  | succ fuel ih =>
    intro toks m i hl hf
    cases toks with
    | nil => exact Or.inl ⟨m, rfl, hl, by simp, by simp⟩
    | cons t ts =>
      rw [smilesToMol.go]
      rcases parseFragment_total attrib (t :: ts) m hl i with ⟨m', i', rest, h1, h2, h3, h4, h5⟩ | h1
      · simp only [bind, Except.bind, h1]
        have := h3 (by simp)
        rcases ih rest m' i' h2 (by simp only [List.length_cons] at hf this; omega) with
          ⟨g, g1, g2, g3, g4⟩ | g1
        · exact Or.inl ⟨g, g1, g2, by omega, by omega⟩
        · exact Or.inr g1
      · right; simp only [bind, Except.bind, h1]

theorem molOK_empty : MolOK {} :=
  ⟨⟨rfl, rfl, rfl, by intro r h; cases h⟩, by rintro i p ⟨row, h, _⟩; simp at h,
    by intro row h; cases h⟩

/-- `smiles_to_mol` returns a graph or raises `SMILESParserError`; the graph has one entry per atom
    in every per-atom list, roots that are atoms, no ring placeholder left and only the bond orders
    1, 1.5, 2, 3 -/
theorem smilesToMol_total (s : Str) (attrib : Bool) :
    (∃ g, smilesToMol s attrib = .ok g ∧ MolOK g ∧ g.atoms.length ≤ s.length ∧
        phi g.adj ≤ s.count '(') ∨
      smilesToMol s attrib = .error .SMILESParserError := by
  unfold smilesToMol
  split
  · right; rfl
  · split
    · right; rfl
    · rename_i toks htoks
      have hlen : toks.length ≤ s.length ∧ opens toks ≤ s.count '(' := by
        rw [tokenizeSmilesI_eq] at htoks
        rcases tokenizeSmilesI_total (s.length + 1) s (by omega) with ⟨toks', h1, _, h3⟩ | h1
        · have h4 := tokenizeSmilesI_opens _ _ _ h1
          rw [h1] at htoks; cases htoks; exact ⟨h3, h4⟩
        · rw [h1] at htoks; cases htoks
      rcases smilesToMol_go_total attrib (toks.length + 1) toks {} 0 molOK_empty (by omega) with
        ⟨g, g1, g2, g3, g4⟩ | g1
      · refine Or.inl ⟨g, g1, g2, ?_, ?_⟩
        · have : ({} : PMol).atoms.length = 0 := rfl
          omega
        · have : phi ({} : PMol).adj = 0 := rfl
          omega
      · exact Or.inr g1

/-! ### every atom of the parsed graph was produced by `smiles_to_atom` -/

/-- every atom of the graph satisfies `P` -/
def AtomsAll (P : Atom → Prop) (m : PMol) : Prop := ∀ a ∈ m.atoms, P a

theorem parseFragmentLoop_atomsAll (P : Atom → Prop)
    (hP : ∀ tok a, smilesToAtom tok = some a → P a) (attrib : Bool) :
    ∀ (toks : List SmilesTok) (st st' : ParseSt) (rest' : List SmilesTok),
      parseFragmentLoop attrib toks st = .ok (st', rest') → AtomsAll P st.mol → AtomsAll P st'.mol := by
  intro toks
  induction toks with
  | nil =>
    intro st st' rest' h hinv
    simp only [parseFragmentLoop, Except.ok.injEq, Prod.mk.injEq] at h
    rw [← h.1]; exact hinv
  | cons tok rest ih =>
    intro st st' rest' h hinv
    rw [parseFragmentLoop] at h
    split at h
    rotate_left
    · obtain ⟨_, hp, _⟩ := bind_ok h; cases hp
    obtain ⟨prev, hprev, h⟩ := bind_ok h
    dsimp only at h
    split at h
    · simp only [pure, Except.pure, Except.ok.injEq, Prod.mk.injEq] at h
      rw [← h.1]; exact hinv
    · split at h
      · cases h
      · rename_i curr hcurr
        simp only [PMol.addAtom] at h
        obtain ⟨mol', hmol, h⟩ := bind_ok h
        refine ih _ _ _ h ?_
        have hadd : ∀ a ∈ st.mol.atoms ++ [curr], P a := by
          intro a ha
          simp only [List.mem_append, List.mem_singleton] at ha
          rcases ha with ha | rfl
          · exact hinv a ha
          · exact hP _ _ hcurr
        cases prev with
        | none =>
          simp only [pure, Except.pure, Except.ok.injEq] at hmol
          rw [← hmol]; exact hadd
        | some p =>
          simp only [smilesToBond] at hmol
          obtain ⟨pa, _, hmol⟩ := bind_ok hmol
          obtain ⟨ha, _⟩ := addBond_ok hmol
          intro a hmem
          simp only at hmem
          rw [ha] at hmem
          exact hadd a hmem
    · split at h
      · cases h
      · split at h
        · exact ih _ _ _ h hinv
        · split at h
          · cases h
          · exact ih _ _ _ h hinv
    · split at h
      · cases h
      · split at h
        · cases h
        · split at h
          · obtain ⟨⟨mol1, lpos⟩, h1, h⟩ := bind_ok h
            obtain ⟨ha, _⟩ := addPlaceholder_ok h1
            exact ih _ _ _ h (by intro a hmem; simp only at hmem; rw [ha] at hmem; exact hinv a hmem)
          · obtain ⟨mol1, h1, h⟩ := bind_ok h
            obtain ⟨ha, _⟩ := makeRingBonds_ok h1
            exact ih _ _ _ h (by intro a hmem; simp only at hmem; rw [ha] at hmem; exact hinv a hmem)

theorem parseFragment_atomsAll (P : Atom → Prop) (hP : ∀ tok a, smilesToAtom tok = some a → P a)
    {attrib : Bool} {toks rest : List SmilesTok} {m m' : PMol} {i i' : Nat}
    (h : parseFragment attrib toks m i = .ok (m', i', rest)) (hinv : AtomsAll P m) : AtomsAll P m' := by
  unfold parseFragment at h
  obtain ⟨⟨st, r⟩, h1, h⟩ := bind_ok h
  have := parseFragmentLoop_atomsAll P hP attrib _ _ _ _ h1 hinv
  simp only at h
  split at h
  · cases h
  · split at h
    · cases h
    · split at h
      · cases h
      · simp only [pure, Except.pure, Except.ok.injEq, Prod.mk.injEq] at h
        rw [← h.1]; exact this

theorem smilesToMol_go_atomsAll (P : Atom → Prop) (hP : ∀ tok a, smilesToAtom tok = some a → P a)
    (attrib : Bool) :
    ∀ (fuel : Nat) (toks : List SmilesTok) (m m' : PMol) (i : Nat),
      smilesToMol.go attrib fuel toks m i = .ok m' → AtomsAll P m → AtomsAll P m' := by
  intro fuel
  induction fuel with
  | zero =>
    intro toks m m' i h hinv
    cases toks with
    | nil => simp only [smilesToMol.go, Except.ok.injEq] at h; rw [← h]; exact hinv
    | cons t ts => simp [smilesToMol.go] at h
  | succ fuel ih =>
    intro toks m m' i h hinv
    cases toks with
    | nil => simp only [smilesToMol.go, Except.ok.injEq] at h; rw [← h]; exact hinv
    | cons t ts =>
      rw [smilesToMol.go] at h
      obtain ⟨⟨m1, i1, rest⟩, h1, h⟩ := bind_ok h
      exact ih _ _ _ _ h (parseFragment_atomsAll P hP h1 hinv)

/-- every atom of a parsed graph is an atom `smiles_to_atom` returned -/
theorem smilesToMol_atomsAll (P : Atom → Prop) (hP : ∀ tok a, smilesToAtom tok = some a → P a)
    {s : Str} {attrib : Bool} {g : PMol} (h : smilesToMol s attrib = .ok g) : AtomsAll P g := by
  unfold smilesToMol at h
  split at h
  · cases h
  · split at h
    · cases h
    · exact smilesToMol_go_atomsAll P hP attrib _ _ _ _ _ h (by intro a ha; simp at ha)

end SV.C09
