/-
  Helper notions and lemmas for property C19 (concurrent calls over shared memo tables,
  model in Model/Memo.lean).

  * `Coherent f c`   : every entry of the shared table is a value of the memoised function;
  * `UsesMemo f p`   : the call `p` is memo-correct for `f`:
      (i)  every `store k v` it performs has `f k = some v`,
      (ii) at every `lookup k`, a hit returning `f k` leads to the same result as a miss,
    both hereditarily along all continuations that are reachable over a coherent table
    (the miss continuation, and the hit continuation for the value `f k`; a hit returning a
    value that is NOT `f k` cannot happen over a coherent table and nothing is required of it).
-/
import SelfiesVerif.Model.Memo

namespace SV

variable {K V R : Type}

/-- every entry of the shared table is a value of the memoised (partial) function -/
def Coherent (f : K → Option V) (c : Cache K V) : Prop := ∀ k v, (k, v) ∈ c → f k = some v

/-- memo-correctness of a call for the memoised function `f` -/
def UsesMemo (f : K → Option V) : Prog K V R → Prop
  | .ret _ => True
  | .lookup k cont =>
    UsesMemo f (cont none) ∧
      ∀ v, f k = some v → UsesMemo f (cont (some v)) ∧ (cont (some v)).runAlone = (cont none).runAlone
  | .store k v cont => f k = some v ∧ UsesMemo f cont

/-- programs built from `ret` and `memoCall` -/
inductive MemoBuilt (f : K → Option V) : Prog K V R → Prop
  | ret (r : R) : MemoBuilt f (.ret r)
  | call (k : K) (rest : Option V → Prog K V R) :
      (∀ o, MemoBuilt f (rest o)) → MemoBuilt f (memoCall f k rest)

/-! ### association-list facts -/

section
variable [DecidableEq K]

theorem lookup_mem {k : K} {c : Cache K V} {v : V} : lookup k c = some v → (k, v) ∈ c := by
  induction c with
  | nil => simp [lookup]
  | cons kv c ih =>
    obtain ⟨k', v'⟩ := kv
    simp only [lookup]
    split
    · rename_i h
      intro hv
      have : k' = k := by simpa using h
      simp_all
    · intro hv
      exact List.mem_cons_of_mem _ (ih hv)

theorem mem_setKey {k k0 : K} {v v0 : V} {c : Cache K V} :
    (k, v) ∈ setKey k0 v0 c → (k, v) = (k0, v0) ∨ (k, v) ∈ c := by
  induction c with
  | nil => simp [setKey]
  | cons kv c ih =>
    obtain ⟨k', v'⟩ := kv
    simp only [setKey]
    split
    · rename_i h
      have hk : k' = k0 := by simpa using h
      intro hm
      rcases List.mem_cons.1 hm with h1 | h1
      · left; rw [h1, hk]
      · right; exact List.mem_cons_of_mem _ h1
    · intro hm
      rcases List.mem_cons.1 hm with h1 | h1
      · right; rw [h1]; exact List.mem_cons_self
      · rcases ih h1 with h2 | h2
        · left; exact h2
        · right; exact List.mem_cons_of_mem _ h2

end

theorem mem_evictMask {α : Type} {x : α} : ∀ {m : List Bool} {c : List α}, x ∈ evictMask m c → x ∈ c
  | _, [] => by simp [evictMask]
  | [], _ :: _ => by simp [evictMask]
  | true :: m, _ :: c => by
    simp only [evictMask]
    intro h
    exact List.mem_cons_of_mem _ (mem_evictMask h)
  | false :: m, y :: c => by
    simp only [evictMask]
    intro h
    rcases List.mem_cons.1 h with h1 | h1
    · rw [h1]; exact List.mem_cons_self
    · exact List.mem_cons_of_mem _ (mem_evictMask h1)

theorem mem_touchEntry {α : Type} {x : α} {j : Nat} {c : List α} : x ∈ touchEntry j c → x ∈ c := by
  unfold touchEntry
  split
  · rename_i y hy
    intro h
    rcases List.mem_append.1 h with h1 | h1
    · exact List.mem_of_mem_eraseIdx h1
    · have : x = y := by simpa using h1
      rw [this]
      exact List.mem_of_getElem? hy
  · exact id

/-! ### coherence -/

theorem Coherent.nil (f : K → Option V) : Coherent f ([] : Cache K V) := by
  intro k v h; cases h

/-- for a total memoised function `g` (`f = some ∘ g`) coherence reads `v = g k` -/
theorem coherent_total_iff (g : K → V) (c : Cache K V) :
    Coherent (fun k => some (g k)) c ↔ ∀ k v, (k, v) ∈ c → v = g k := by
  constructor
  · intro h k v hm
    have := h k v hm
    simpa using this.symm
  · intro h k v hm
    rw [h k v hm]

theorem Coherent.mono {f : K → Option V} {c c' : Cache K V}
    (h : Coherent f c) (hsub : ∀ x, x ∈ c' → x ∈ c) : Coherent f c' :=
  fun k v hm => h k v (hsub _ hm)

theorem Coherent.setKey [DecidableEq K] {f : K → Option V} {c : Cache K V} {k : K} {v : V}
    (h : Coherent f c) (hv : f k = some v) : Coherent f (setKey k v c) := by
  intro k' v' hm
  rcases mem_setKey hm with h1 | h1
  · cases h1; exact hv
  · exact h k' v' h1

theorem Coherent.lookup [DecidableEq K] {f : K → Option V} {c : Cache K V} {k : K} {v : V}
    (h : Coherent f c) (hl : lookup k c = some v) : f k = some v :=
  h k v (lookup_mem hl)

/-! ### size -/

namespace Prog

theorem size_eq_zero {f : K → Option V} : ∀ {p : Prog K V R}, p.size f = 0 → ∃ r, p = .ret r
  | .ret r, _ => ⟨r, rfl⟩
  | .lookup _ _, h => by simp [size] at h
  | .store _ _ _, h => by simp [size] at h

theorem size_cont_none (f : K → Option V) (k : K) (cont : Option V → Prog K V R) :
    (cont none).size f + 1 ≤ (Prog.lookup k cont).size f := by
  simp only [size]; omega

theorem size_cont_some {f : K → Option V} {k : K} {v : V} (cont : Option V → Prog K V R)
    (h : f k = some v) : (cont (some v)).size f + 1 ≤ (Prog.lookup k cont).size f := by
  simp only [size, h]; omega

end Prog

/-! ### one step of one thread -/

section
variable [DecidableEq K]

/-- One atomic step of a memo-correct call over a coherent table keeps the table coherent, keeps
    the call memo-correct, does not change what the call returns when run alone, and consumes
    one unit of `size` (unless the call has finished). -/
theorem Prog.step_inv {f : K → Option V} {c : Cache K V} (hc : Coherent f c) :
    ∀ {p : Prog K V R}, UsesMemo f p →
      Coherent f (p.step c).1 ∧ UsesMemo f (p.step c).2 ∧
        (p.step c).2.runAlone = p.runAlone ∧ (p.step c).2.size f ≤ p.size f - 1
  | .ret r, _ => ⟨hc, trivial, rfl, by simp [Prog.step, Prog.size]⟩
  | .store k v cont, h => by
    obtain ⟨hv, hu⟩ := h
    refine ⟨hc.setKey hv, hu, rfl, ?_⟩
    simp only [Prog.step, Prog.size]; omega
  | .lookup k cont, h => by
    obtain ⟨hn, hs⟩ := h
    simp only [Prog.step]
    cases hl : SV.lookup k c with
    | none =>
      refine ⟨hc, hn, rfl, ?_⟩
      have := Prog.size_cont_none f k cont
      omega
    | some v =>
      have hv := hc.lookup hl
      refine ⟨hc, (hs v hv).1, (hs v hv).2, ?_⟩
      have := Prog.size_cont_some cont hv
      omega

theorem Prog.step_ret (c : Cache K V) (r : R) : (Prog.ret r : Prog K V R).step c = (c, .ret r) := rfl

/-! ### one event -/

/-- the invariant of a schedule: coherent table, and every thread is memo-correct and still
    returns (alone) what its initial program returns (alone) -/
def SchedInv (f : K → Option V) (ts₀ : List (Prog K V R)) (c : Cache K V) (ts : List (Prog K V R)) : Prop :=
  Coherent f c ∧ ts.length = ts₀.length ∧
    ∀ (i : Nat) (p : Prog K V R), ts[i]? = some p → UsesMemo f p ∧ ∃ p₀ : Prog K V R, ts₀[i]? = some p₀ ∧ p.runAlone = p₀.runAlone

omit [DecidableEq K] in
theorem SchedInv.init {f : K → Option V} {c₀ : Cache K V} {ts₀ : List (Prog K V R)}
    (hc : Coherent f c₀) (hts : ∀ p ∈ ts₀, UsesMemo f p) : SchedInv f ts₀ c₀ ts₀ :=
  ⟨hc, rfl, fun _ p hp => ⟨hts p (List.mem_of_getElem? hp), p, hp, rfl⟩⟩

theorem stepEvent_length (c : Cache K V) (ts : List (Prog K V R)) (e : Event) :
    (stepEvent c ts e).2.length = ts.length := by
  cases e with
  | step i =>
    simp only [stepEvent]
    split <;> simp
  | evict m => rfl
  | touch j => rfl

theorem stepEvent_inv {f : K → Option V} {ts₀ ts : List (Prog K V R)} {c : Cache K V}
    (h : SchedInv f ts₀ c ts) (e : Event) :
    SchedInv f ts₀ (stepEvent c ts e).1 (stepEvent c ts e).2 := by
  obtain ⟨hc, hlen, hts⟩ := h
  cases e with
  | evict m => exact ⟨hc.mono fun _ => mem_evictMask, hlen, hts⟩
  | touch j => exact ⟨hc.mono fun _ => mem_touchEntry, hlen, hts⟩
  | step i =>
    simp only [stepEvent]
    cases hi : ts[i]? with
    | none => exact ⟨hc, hlen, hts⟩
    | some p =>
      obtain ⟨hu, p₀, hp₀, hr⟩ := hts i p hi
      obtain ⟨hc', hu', hr', _⟩ := Prog.step_inv hc hu
      refine ⟨hc', by simpa using hlen, ?_⟩
      intro j q hq
      by_cases hij : i = j
      · subst hij
        have hlt : i < ts.length := (List.getElem?_eq_some_iff.1 hi).1
        rw [List.getElem?_set_self hlt] at hq
        cases hq
        exact ⟨hu', p₀, hp₀, hr'.trans hr⟩
      · rw [List.getElem?_set_ne hij] at hq
        exact hts j q hq

/-- what one event does to thread `i`: it stays a thread, and loses a unit of `size` if the event
    steps it -/
theorem stepEvent_size {f : K → Option V} {ts₀ ts : List (Prog K V R)} {c : Cache K V}
    (h : SchedInv f ts₀ c ts) (e : Event) {i : Nat} {p : Prog K V R} (hi : ts[i]? = some p) :
    ∃ p', (stepEvent c ts e).2[i]? = some p' ∧
      p'.size f ≤ p.size f - (if e.isStep i then 1 else 0) := by
  obtain ⟨hc, _, hts⟩ := h
  cases e with
  | evict m => exact ⟨p, hi, by simp [Event.isStep]⟩
  | touch j => exact ⟨p, hi, by simp [Event.isStep]⟩
  | step j =>
    simp only [stepEvent, Event.isStep]
    cases hj : ts[j]? with
    | none =>
      refine ⟨p, hi, ?_⟩
      have : j ≠ i := by rintro rfl; simp [hi] at hj
      simp [this]
    | some q =>
      by_cases hji : j = i
      · subst hji
        have hq : q = p := by simpa [hi] using hj.symm
        subst hq
        have hlt : j < ts.length := (List.getElem?_eq_some_iff.1 hi).1
        refine ⟨(q.step c).2, by simp [List.getElem?_set_self hlt], ?_⟩
        simpa using (Prog.step_inv hc (hts j q hi).1).2.2.2
      · refine ⟨p, by simp [List.getElem?_set_ne hji, hi], ?_⟩
        simp [hji]

/-! ### whole schedules -/

theorem runSchedule_inv {f : K → Option V} {ts₀ : List (Prog K V R)} :
    ∀ (evs : List Event) {c : Cache K V} {ts : List (Prog K V R)}, SchedInv f ts₀ c ts →
      SchedInv f ts₀ (runSchedule c ts evs).1 (runSchedule c ts evs).2
  | [], _, _, h => h
  | e :: es, _, _, h => runSchedule_inv es (stepEvent_inv h e)

theorem runSchedule_append (c : Cache K V) (ts : List (Prog K V R)) (es es' : List Event) :
    runSchedule c ts (es ++ es') =
      runSchedule (runSchedule c ts es).1 (runSchedule c ts es).2 es' := by
  induction es generalizing c ts with
  | nil => rfl
  | cons e es ih => exact ih _ _

theorem runSchedule_progress {f : K → Option V} {ts₀ : List (Prog K V R)} {i : Nat} :
    ∀ (evs : List Event) {c : Cache K V} {ts : List (Prog K V R)} {p : Prog K V R},
      SchedInv f ts₀ c ts → ts[i]? = some p → p.size f ≤ stepsOf i evs →
      ∃ r, (runSchedule c ts evs).2[i]? = some (.ret r)
  | [], _, _, p, _, hi, hn => by
    have h0 : p.size f = 0 := by simpa [stepsOf] using hn
    obtain ⟨r, rfl⟩ := Prog.size_eq_zero h0
    exact ⟨r, hi⟩
  | e :: es, _, _, p, h, hi, hn => by
    obtain ⟨p', hi', hsz⟩ := stepEvent_size h e hi
    refine runSchedule_progress es (stepEvent_inv h e) hi' ?_
    simp only [stepsOf, List.countP_cons] at hn ⊢
    omega

end

/-! ### the memoisation combinators -/

section

@[simp] theorem runAlone_memoCall (f : K → Option V) (k : K) (rest : Option V → Prog K V R) :
    (memoCall f k rest).runAlone = (rest (f k)).runAlone := by
  simp only [memoCall, Prog.runAlone]
  cases f k <;> rfl

theorem usesMemo_memoCall {f : K → Option V} {k : K} {rest : Option V → Prog K V R}
    (h : UsesMemo f (rest (f k))) : UsesMemo f (memoCall f k rest) := by
  simp only [memoCall, UsesMemo]
  constructor
  · cases hf : f k with
    | none => simpa [hf] using h
    | some v => exact ⟨hf, by simpa [hf] using h⟩
  · intro v hv
    refine ⟨by simpa [hv] using h, ?_⟩
    simp only [hv, Prog.runAlone]

theorem MemoBuilt.usesMemo {f : K → Option V} {p : Prog K V R} (h : MemoBuilt f p) : UsesMemo f p := by
  induction h with
  | ret r => trivial
  | call k rest _ ih => exact usesMemo_memoCall (ih _)

theorem size_memoCall_le {f : K → Option V} {k : K} {rest : Option V → Prog K V R} :
    (memoCall f k rest).size f ≤ (rest (f k)).size f + 2 := by
  simp only [memoCall, Prog.size]
  cases hf : f k with
  | none => simp only []; omega
  | some v => simp only [Prog.size]; omega

@[simp] theorem runAlone_memoMapM (f : K → Option V) (ks : List K) (rest : List (Option V) → Prog K V R) :
    (memoMapM f ks rest).runAlone = (rest (ks.map f)).runAlone := by
  induction ks generalizing rest with
  | nil => rfl
  | cons k ks ih => simp only [memoMapM, runAlone_memoCall, ih, List.map_cons]

theorem usesMemo_memoMapM {f : K → Option V} (ks : List K) {rest : List (Option V) → Prog K V R}
    (h : UsesMemo f (rest (ks.map f))) : UsesMemo f (memoMapM f ks rest) := by
  induction ks generalizing rest with
  | nil => exact h
  | cons k ks ih =>
    simp only [memoMapM]
    exact usesMemo_memoCall (ih (by simpa using h))

theorem size_memoMapM_le {f : K → Option V} (ks : List K) {rest : List (Option V) → Prog K V R} :
    (memoMapM f ks rest).size f ≤ (rest (ks.map f)).size f + 2 * ks.length := by
  induction ks generalizing rest with
  | nil => simp [memoMapM]
  | cons k ks ih =>
    simp only [memoMapM]
    refine Nat.le_trans size_memoCall_le ?_
    have := ih (rest := fun os => rest (f k :: os))
    simp only [List.map_cons, List.length_cons]
    omega

end

/-! ### the capacity memo -/

theorem capacityFn_some {T : Constraints} {k : Str × Int} {v : Nat} :
    capacityFn T k = some v ↔ getBondingCapacity T k.1 k.2 = .ok v := by
  unfold capacityFn
  cases getBondingCapacity T k.1 k.2 <;> simp

theorem runAlone_capacityCall {R : Type} (T : Constraints) (element : Str) (charge : Int)
    (rest : Py Nat → Prog (Str × Int) Nat R) :
    (capacityCall T element charge rest).runAlone =
      (rest (getBondingCapacity T element charge)).runAlone := by
  simp only [capacityCall, Prog.runAlone]
  cases getBondingCapacity T element charge <;> rfl

theorem usesMemo_capacityCall {R : Type} {T : Constraints} {element : Str} {charge : Int}
    {rest : Py Nat → Prog (Str × Int) Nat R}
    (h : UsesMemo (capacityFn T) (rest (getBondingCapacity T element charge))) :
    UsesMemo (capacityFn T) (capacityCall T element charge rest) := by
  simp only [capacityCall, UsesMemo]
  constructor
  · cases hg : getBondingCapacity T element charge with
    | error e => simpa [hg] using h
    | ok v => exact ⟨capacityFn_some.2 hg, by simpa [hg] using h⟩
  · intro v hv
    have hg : getBondingCapacity T element charge = .ok v := capacityFn_some.1 hv
    refine ⟨by simpa [hg] using h, ?_⟩
    simp only [hg, Prog.runAlone]

theorem capacityProg_eq_call (T : Constraints) (element : Str) (charge : Int) :
    capacityProg T element charge = capacityCall T element charge .ret := by
  unfold capacityProg capacityCall
  congr 1

/-- `SV.lookup` does not depend on which lawful `BEq` instance is used -/
theorem lookup_beq_irrel {α β : Type} (i₁ i₂ : BEq α) [@LawfulBEq α i₁] [@LawfulBEq α i₂]
    (k : α) (c : List (α × β)) : @lookup α β i₁ k c = @lookup α β i₂ k c := by
  induction c with
  | nil => rfl
  | cons kv c ih =>
    obtain ⟨k', v⟩ := kv
    simp only [lookup, ih]
    have : @BEq.beq α i₁ k' k = @BEq.beq α i₂ k' k := by
      rw [Bool.eq_iff_iff, @beq_iff_eq α i₁, @beq_iff_eq α i₂]
    rw [this]

/-- The program really is `cachedCapacity`: run alone (two atomic steps: probe, insert) against
    the capacity cache of a library state, it returns what the model of
    `get_bonding_capacity` with its `lru_cache` returns in that state. -/
theorem capacityProg_cachedCapacity (st : CfgState) (element : Str) (charge : Int) :
    (runSchedule st.capCache [capacityProg st.currentTable element charge]
        [.step 0, .step 0]).2.map Prog.result? = [some (cachedCapacity st element charge).2] := by
  simp only [runSchedule, stepEvent, capacityProg, cachedCapacity, List.getElem?_cons_zero,
    Prog.step, List.set_cons_zero]
  rw [lookup_beq_irrel instBEqOfDecidableEq instBEqProd]
  cases lookup (element, charge) st.capCache with
  | some v => rfl
  | none =>
    cases getBondingCapacity st.currentTable element charge <;> rfl

/-! ### the atom-symbol memo -/

theorem processAtomSymbol_eq_atomPost (T : Table) (sym : Str) :
    processAtomSymbol T sym = atomPost T (processAtomSelfiesNoCache sym) := by
  unfold processAtomSymbol atomPost
  cases processAtomSelfiesNoCache sym with
  | none => rfl
  | some x => obtain ⟨bi, a⟩ := x; rfl

/-- the import-time `_PROCESS_ATOM_CACHE` only holds values of `_process_atom_selfies_no_cache`
    (checked on the generated table) -/
theorem atomCacheInit_coherent : Coherent processAtomSelfiesNoCache atomCacheInit := by
  have h : atomCacheInit.all (fun kv => processAtomSelfiesNoCache kv.1 == some kv.2) = true := by
    decide +kernel
  intro k v hm
  have := List.all_eq_true.1 h (k, v) hm
  simpa using this

end SV
