/-
  C01r: exact results of the parser's graph operations on the states the simulation reaches
  (forward direction: the operation succeeds and returns this graph).
-/
import SelfiesVerif.Proofs.ReaderSimDefs

namespace SV

/-! ### bond characters read back -/

/-- the bond character in front of a written bond is none, a stereo mark (single bond), `=` or `#` -/
theorem bondText_head (b : DirBond) (h1 : 1 ≤ b.order) (h3 : b.order ≤ 3) :
    (b.order = 1 ∧ ((bondText b).head? = none ∧ readStereo b = none ∨
        ∃ c, (bondText b).head? = some c ∧ readStereo b = some c ∧ Gen.smilesStereoBonds.contains c = true)) ∨
    (b.order = 2 ∧ (bondText b).head? = some '=' ∧ readStereo b = none) ∨
    (b.order = 3 ∧ (bondText b).head? = some '#' ∧ readStereo b = none) := by
  have : b.order = 1 ∨ b.order = 2 ∨ b.order = 3 := by omega
  unfold bondText bondToSmiles readStereo
  rcases this with h | h | h
  · left
    refine ⟨h, ?_⟩
    simp only [h, beq_self_eq_true, if_true]
    cases b.stereo with
    | none => exact Or.inl ⟨rfl, rfl⟩
    | some c =>
      by_cases hc : Gen.smilesStereoBonds.contains c = true
      · right
        have hm : c ∈ Gen.smilesStereoBonds := by simpa using hc
        exact ⟨c, by simp [hm], by simp [hm], hc⟩
      · left
        have hm : ¬ c ∈ Gen.smilesStereoBonds := by simpa using hc
        simp [hm]
  · right; left
    refine ⟨h, ?_⟩
    simp [h]
  · right; right
    refine ⟨h, ?_⟩
    simp [h]

theorem stereo_cases {c : Char} (h : Gen.smilesStereoBonds.contains c = true) : c = '/' ∨ c = '\\' := by
  have : c ∈ Gen.smilesStereoBonds := by simpa using h
  simpa [Gen.smilesStereoBonds] using this

/-- `smiles_to_bond` on the written bond character returns the order (half units) and the mark -/
theorem smilesToBond_bondText (b : DirBond) (h1 : 1 ≤ b.order) (h3 : b.order ≤ 3) :
    smilesToBond (bondText b).head? = (2 * b.order, readStereo b) := by
  rcases bondText_head b h1 h3 with ⟨ho, ⟨e1, e2⟩ | ⟨c, e1, e2, hc⟩⟩ | ⟨ho, e1, e2⟩ | ⟨ho, e1, e2⟩
  · rw [e1, e2, ho]; rfl
  · rw [e1, e2, ho]
    rcases stereo_cases hc with rfl | rfl <;> decide
  · rw [e1, e2, ho]; decide
  · rw [e1, e2, ho]; decide

/-- the "mismatched ring bonds" check of `_make_ring_bonds` -/
def ringCompat (lb rb : Option Char) : Bool :=
  let bonds : Option Char × Option Char := if lb.isNone then (rb, lb) else (lb, rb)
  bonds.1 == bonds.2 || bonds.2.isNone || (stereoChar bonds.1 && stereoChar bonds.2)

/-- the two halves of a ring bond (same order) pass the check -/
theorem ring_chars_ok (b b' : DirBond) (h1 : 1 ≤ b.order) (h3 : b.order ≤ 3) (ho : b'.order = b.order) :
    ringCompat (bondText b').head? (bondText b).head? = true := by
  have h1' : 1 ≤ b'.order := by omega
  have h3' : b'.order ≤ 3 := by omega
  rcases bondText_head b h1 h3 with ⟨o1, ⟨e1, _⟩ | ⟨c, e1, _, hc⟩⟩ | ⟨o1, e1, _⟩ | ⟨o1, e1, _⟩ <;>
  rcases bondText_head b' h1' h3' with ⟨o2, ⟨e2, _⟩ | ⟨c', e2, _, hc'⟩⟩ | ⟨o2, e2, _⟩ | ⟨o2, e2, _⟩ <;>
  first
    | (exfalso; omega)
    | (rw [e1, e2]; simp_all [ringCompat, stereoChar])

/-! ### `addBond`, `addPlaceholder`, `makeRingBonds` -/

theorem pAddCount_run {l : List Nat} {i d : Nat} (h : i < l.length) :
    ∃ c, Mol.addCount l i d = .ok c ∧ c.length = l.length := by
  unfold Mol.addCount
  rw [List.getElem?_eq_getElem h]
  exact ⟨_, rfl, by simp⟩

theorem getIdx_run {α} {l : List α} {i : Nat} {x : α} (h : l[i]? = some x) : getIdx l i = .ok x := by
  unfold getIdx; rw [h]

theorem pAddBond_run {m : PMol} {src dst o2 : Nat} {st : Option Char} {attr : Option (List Attribution)}
    {out : List (Option PBond)} (hlt : src < dst) (hout : m.adj[src]? = some out)
    (hs : src < m.counts2.length) (hd : dst < m.counts2.length) (ho : o2 ≠ 3) :
    ∃ c, m.addBond src dst o2 st attr = .ok { m with
        adj := m.adj.set src (out ++ [some ⟨src, dst, o2, st, false, attr⟩]), counts2 := c }
      ∧ c.length = m.counts2.length := by
  obtain ⟨c1, e1, l1⟩ := pAddCount_run (l := m.counts2) (i := src) (d := o2) hs
  obtain ⟨c2, e2, l2⟩ := pAddCount_run (l := c1) (i := dst) (d := o2) (by omega)
  refine ⟨c2, ?_, by omega⟩
  unfold PMol.addBond
  have ho' : (o2 == 3) = false := by simpa using ho
  simp [pyAssert, hlt, getIdx_run hout, e1, e2, ho', bind, Except.bind, pure, Except.pure]

theorem addPlaceholder_run {m : PMol} {src : Nat} {out : List (Option PBond)} (hout : m.adj[src]? = some out) :
    m.addPlaceholder src = .ok ({ m with adj := m.adj.set src (out ++ [none]) }, out.length) := by
  unfold PMol.addPlaceholder
  simp [getIdx_run hout, bind, Except.bind, pure, Except.pure]

theorem hasBond_false {m : PMol} {a b : Nat} {out : List (Option PBond)}
    (hout : m.adj[min a b]? = some out) (h : ∀ bd, some bd ∈ out → bd.dst ≠ max a b) :
    m.hasBond a b = false := by
  unfold PMol.hasBond
  simp only [hout]
  rw [Bool.eq_false_iff]
  intro ht
  rw [List.any_eq_true] at ht
  obtain ⟨ob, hob, hp⟩ := ht
  cases ob with
  | none => cases hp
  | some bd => exact h bd hob (by simpa using hp)

/-- closing a ring between `la` (placeholder at `lp`) and `ra` -/
theorem makeRingBonds_run {m : PMol} {la lp ra : Nat} {outL outR : List (Option PBond)} {aL aR : Atom}
    (b b' : DirBond) (h1 : 1 ≤ b.order) (h3 : b.order ≤ 3) (ho : b'.order = b.order)
    (hne : la ≠ ra) (hhas : m.hasBond la ra = false)
    (haL : m.atoms[la]? = some aL) (haR : m.atoms[ra]? = some aR)
    (hnaL : aL.isAromatic = false)
    (hL : m.adj[la]? = some outL) (hR : m.adj[ra]? = some outR)
    (hph : outL[lp]? = some none)
    (hcL : la < m.counts2.length) (hcR : ra < m.counts2.length)
    (hfL : la < m.ringFlags.length) (hfR : ra < m.ringFlags.length) :
    ∃ c f, makeRingBonds m (bondText b').head? la lp (bondText b).head? ra = .ok { m with
        adj := (m.adj.set la (outL.set lp (some ⟨la, ra, 2 * b.order, readStereo b', true, none⟩))).set ra
                 (outR ++ [some ⟨ra, la, 2 * b.order, readStereo b, true, none⟩]),
        counts2 := c, ringFlags := f }
      ∧ c.length = m.counts2.length ∧ f.length = m.ringFlags.length := by
  have hcompat := ring_chars_ok b b' h1 h3 ho
  have s1 := smilesToBond_bondText b h1 h3
  have s2 := smilesToBond_bondText b' (by omega) (by omega)
  obtain ⟨c1, e1, l1⟩ := pAddCount_run (l := m.counts2) (i := la) (d := 2 * b.order) hcL
  obtain ⟨c2, e2, l2⟩ := pAddCount_run (l := c1) (i := ra) (d := 2 * b.order) (by omega)
  have hlplt : lp < outL.length := (List.getElem?_eq_some_iff.mp hph).1
  have hlpne : (lp == outL.length) = false := by
    rw [beq_eq_false_iff_ne]; omega
  have hR' : (m.adj.set la (outL.set lp (some ⟨la, ra, 2 * b.order, readStereo b', true, none⟩)))[ra]?
      = some outR := by
    rw [List.getElem?_set_ne hne]; exact hR
  have hfl : ∃ x, m.ringFlags[la]? = some x := ⟨_, List.getElem?_eq_getElem hfL⟩
  have hfr : ∃ x, m.ringFlags[ra]? = some x := ⟨_, List.getElem?_eq_getElem hfR⟩
  obtain ⟨xl, hxl⟩ := hfl
  obtain ⟨xr, hxr⟩ := hfr
  refine ⟨c2, (m.ringFlags.set la true).set ra true, ?_, by omega, by simp⟩
  unfold makeRingBonds
  have hne' : (la == ra) = false := by simpa using hne
  simp only [hne', Bool.false_eq_true, if_false, hhas]
  unfold ringCompat at hcompat
  simp only at hcompat
  rw [if_neg (by rw [hcompat]; simp)]
  simp only [s1, s2, getIdx_run haL, getIdx_run haR, hnaL, Bool.false_and, Bool.false_eq_true,
    if_false, bind, Except.bind]
  have hmax' : max (2 * b'.order) (2 * b.order) = 2 * b.order := by rw [ho]; simp
  rw [hmax']
  unfold PMol.addRingBond PMol.addBondAtLoc
  have ho3 : (2 * b.order == 3) = false := by
    rw [beq_eq_false_iff_ne]; omega
  simp only [getIdx_run hL, bind, Except.bind, hlpne, Bool.false_eq_true, if_false, hph, pure,
    Except.pure, getIdx_run hR', e1, e2, getIdx_run hxl, getIdx_run hxr, ho3]

end SV
