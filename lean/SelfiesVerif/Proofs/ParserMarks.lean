/-
  C04h helper: in every graph `smiles_to_mol(s, attributable=False)` returns, a bond that carries a
  `/` or `\` mark is a single bond (`smilesToMol_marks_single`).

  In a SMILES string the mark IS the bond symbol, so
    * a chain bond written `/` or `\` has the order of that symbol (1; it is not made aromatic,
      because the aromatic default only applies when no bond symbol is written);
    * a ring-closure bond takes `max` of the orders of the symbols written at its two ends, and
      `_make_ring_bonds` rejects two different symbols unless one is missing or both are marks;
      whenever one end is a mark the other is therefore the same mark, missing, or the other mark,
      each of order 1.
  Side conditions on the generated tables (`marks_are_single`): every character of
  `SMILES_STEREO_BONDS` has order 1 in `SMILES_BOND_ORDERS`.

  Proof: one more invariant carried through `smilesToMol_invariant` (Proofs/ParserSteps.lean), next
  to `PWF`, `MFlat`, `HoleInv` (which supply the exact adjacency lists after each step).
-/
import SelfiesVerif.Proofs.ParserFlat

namespace SV

/-- every marked bond of the graph is a single bond -/
def MarksSingle (m : PMol) : Prop := ∀ i, ∀ b ∈ rowAt m.adj i, b.stereo ≠ none → b.order2 = 2

/-- side condition on the generated tables -/
theorem marks_are_single : ∀ c ∈ Gen.smilesStereoBonds, bondOrder2 (some c) = 2 := by decide

theorem smilesToBond_marked {bc : Option Char} (h : (smilesToBond bc).2 ≠ none) :
    bc.isNone = false ∧ stereoChar bc = true ∧ (smilesToBond bc).1 = 2 := by
  cases bc with
  | none => exact absurd rfl h
  | some c =>
    unfold smilesToBond at h
    simp only at h
    split at h
    · rename_i hc
      refine ⟨rfl, hc, ?_⟩
      exact marks_are_single c (by simpa using hc)
    · exact absurd rfl h

theorem smilesToBond_of_stereoChar {bc : Option Char} (h : stereoChar bc = true) :
    (smilesToBond bc).1 = 2 := by
  cases bc with
  | none => cases h
  | some c => exact marks_are_single c (by simpa [stereoChar] using h)

/-- the chain bond written `bc`: marked implies single -/
theorem attachOrder_marked (pa curr : Atom) (bc : Option Char) (h : (smilesToBond bc).2 ≠ none) :
    attachOrder pa curr bc = 2 := by
  obtain ⟨h1, _, h3⟩ := smilesToBond_marked h
  unfold attachOrder
  rw [h1]
  simpa using h3

/-- the compatibility check of `_make_ring_bonds` -/
theorem makeRingBonds_check {m m' : PMol} {lb rb : Option Char} {latom lpos ratom : Nat}
    (h : makeRingBonds m lb latom lpos rb ratom = .ok m') :
    ((if lb.isNone then (rb, lb) else (lb, rb)).1 == (if lb.isNone then (rb, lb) else (lb, rb)).2
      || (if lb.isNone then (rb, lb) else (lb, rb)).2.isNone
      || (stereoChar (if lb.isNone then (rb, lb) else (lb, rb)).1
          && stereoChar (if lb.isNone then (rb, lb) else (lb, rb)).2)) = true := by
  unfold makeRingBonds at h
  split at h
  · cases h
  · split at h
    · cases h
    · revert h
      generalize (if lb.isNone = true then (rb, lb) else (lb, rb)) = bonds
      intro h
      simp only at h
      split at h
      · cases h
      · rename_i hc
        cases hX : (bonds.1 == bonds.2 || bonds.2.isNone || (stereoChar bonds.1 && stereoChar bonds.2)) with
        | true => rfl
        | false => rw [hX] at hc; exact absurd rfl hc

/-- the ring-closure bond opened with `lb` and closed with `rb`: if either end is marked the bond
    is single -/
theorem ringOrder_marked (la ra : Atom) (lb rb : Option Char)
    (hchk : ((if lb.isNone then (rb, lb) else (lb, rb)).1 == (if lb.isNone then (rb, lb) else (lb, rb)).2
      || (if lb.isNone then (rb, lb) else (lb, rb)).2.isNone
      || (stereoChar (if lb.isNone then (rb, lb) else (lb, rb)).1
          && stereoChar (if lb.isNone then (rb, lb) else (lb, rb)).2)) = true)
    (h : (smilesToBond lb).2 ≠ none ∨ (smilesToBond rb).2 ≠ none) :
    ringOrder la ra lb rb = 2 := by
  have hnone : (smilesToBond none).1 = 2 := rfl
  unfold ringOrder
  rcases h with h | h
  · obtain ⟨h1, h2, h3⟩ := smilesToBond_marked h
    rw [h1] at hchk ⊢
    simp only [Bool.false_eq_true, if_false, Bool.or_eq_true, Bool.and_eq_true, beq_iff_eq] at hchk
    have hr : (smilesToBond rb).1 = 2 := by
      rcases hchk with (e | e) | e
      · rw [← e]; exact h3
      · cases rb with
        | none => rfl
        | some c => cases e
      · exact smilesToBond_of_stereoChar e.2
    simp [h3, hr]
  · obtain ⟨h1, h2, h3⟩ := smilesToBond_marked h
    have hl : (smilesToBond lb).1 = 2 := by
      cases lb with
      | none => rfl
      | some d =>
        simp only [Option.isNone_some, Bool.false_eq_true, if_false, Bool.or_eq_true,
          Bool.and_eq_true, beq_iff_eq] at hchk
        rcases hchk with (e | e) | e
        · rw [e]; exact h3
        · rw [h1] at e; cases e
        · exact smilesToBond_of_stereoChar e.1
    rw [h1]
    simp [h3, hl]

/-- the invariant is kept by every step of the parser loop -/
theorem marks_step {Q : SmilesTok → Prop} {st st' : ParseSt} (hw : PWF st.mol) (hh : HoleInv st)
    (hm : MarksSingle st.mol) (hs : PStep false Q st st') : MarksSingle st'.mol := by
  have hal : st.mol.atoms.length = st.mol.adj.length := ((pwf_iff _).1 hw).2.1
  cases hs with
  | atomRoot tok curr tl _ _ _ _ =>
    intro i b hb
    have hb' : b ∈ rowAt (st.mol.adj ++ [[]]) i := hb
    rw [rowAt_append_nil] at hb'
    exact hm i b hb'
  | atomAttach tok curr p tl pa mol' _ _ _ hadd _ _ =>
    obtain ⟨row, hinv⟩ := addBond_inv hadd
    rw [stepAttr_false] at hinv
    have hinv' := attachInv_of hal hinv
    intro i b hb
    rcases (hinv'.mem i b).1 hb with h0 | ⟨_, e⟩
    · exact hm i b h0
    · rw [e]
      intro hst
      exact attachOrder_marked pa curr tok.bondChar hst
  | openBranch prev tl _ _ => exact hm
  | closeBranch prev tl _ _ _ => exact hm
  | ringOpen tok p tl mol' lpos _ _ hfind hadd =>
    obtain ⟨row, hinv⟩ := addPlaceholder_inv hadd
    obtain ⟨hrow, hpos, hat, _, hfl, haa, hadj, hc, hds⟩ := hinv
    have hp : p < st.mol.adj.length := (List.getElem?_eq_some_iff.1 hrow).1
    have hrowe := rowOf_of_getElem? hrow
    have hb : bondsOf (row ++ [none]) = bondsOf row := by simp [bondsOf]
    intro j b hbm
    have hbm' : b ∈ rowAt mol'.adj j := hbm
    rw [hadj, rowAt_set hp] at hbm'
    split at hbm'
    · rename_i e; subst e
      rw [hb] at hbm'
      apply hm j b
      rw [rowAt_eq_bondsOf_rowOf, hrowe]; exact hbm'
    · exact hm j b hbm'
  | ringClose tok p tl ro mol' _ _ hfind hmk =>
    have hchk := makeRingBonds_check hmk
    obtain ⟨la, ra, hmr⟩ := makeRingBonds_inv hmk
    obtain ⟨hab, hnb, hla, hra, hadd⟩ := hmr
    obtain ⟨adj1, hinv⟩ := addRingBond_inv hadd
    have hro : ro ∈ st.ringLog := List.mem_of_find?_eq_some hfind
    have hole : (rowOf st.mol.adj ro.atom)[ro.pos]? = some none := (hh.holes _ _).2 ⟨ro, hro, rfl, rfl⟩
    have ha : ro.atom < st.mol.adj.length := by rw [← hal]; exact (List.getElem?_eq_some_iff.1 hla).1
    have hb : p < st.mol.adj.length := by rw [← hal]; exact (List.getElem?_eq_some_iff.1 hra).1
    have hci := closeInv_of hinv hab ha hb hole
    intro i x hx
    rcases (hci.mem hole i x).1 hx with h0 | ⟨_, e⟩ | ⟨_, e⟩
    · exact hm i x h0
    · rw [e]
      intro hst
      exact ringOrder_marked la ra _ _ hchk (Or.inl hst)
    · rw [e]
      intro hst
      exact ringOrder_marked la ra _ _ hchk (Or.inr hst)

/-- **every marked bond of a parsed graph is a single bond** -/
theorem smilesToMol_marks_single {s : Str} {g : PMol} (h : smilesToMol s false = .ok g) :
    MarksSingle g := by
  have key : PWF g ∧ MFlat g ∧ (∀ (a p : Nat), (rowOf g.adj a)[p]? ≠ some none) ∧ MarksSingle g := by
    refine smilesToMol_invariant (attrib := false) (Q := fun _ => True)
      (G := fun m => PWF m ∧ MFlat m ∧ (∀ (a p : Nat), (rowOf m.adj a)[p]? ≠ some none) ∧ MarksSingle m)
      (I := fun st => PWF st.mol ∧ MFlat st.mol ∧ HoleInv st ∧ MarksSingle st.mol) ?_ ?_ ?_ ?_
      (fun _ _ _ _ => trivial) h
    · refine ⟨pwf_empty, mflat_empty, by intro a p; simp [rowOf], ?_⟩
      intro i b hb; simp [rowAt, bondsOf] at hb
    · intro m i hG
      refine ⟨hG.1, hG.2.1, ⟨List.Pairwise.nil, ?_⟩, hG.2.2.2⟩
      intro a p
      constructor
      · intro hp; exact absurd hp (hG.2.2.1 a p)
      · rintro ⟨ro, hro, _⟩; cases hro
    · rintro st st' ⟨h1, h2, h3, h4⟩ hs
      obtain ⟨g2, g3⟩ := flat_step h1 h2 h3 hs
      exact ⟨pwf_step h1 hs, g2, g3, marks_step h1 h3 h4 hs⟩
    · rintro st ⟨h1, h2, h3, h4⟩ _ hrl _
      refine ⟨h1, h2, ?_, h4⟩
      intro a p hp
      obtain ⟨ro, hro, _⟩ := (h3.holes a p).1 hp
      rw [hrl] at hro; cases hro
  exact key.2.2.2

end SV
