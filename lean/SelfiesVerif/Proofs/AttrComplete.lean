/-
  The SMILES writer makes an attribution entry for every atom that can be reached from a root
  along chain (non-ring) bonds; in a forest these are all atoms.
-/
import SelfiesVerif.Proofs.AttrWriter
namespace SV

/-- a chain bond `p → c` stored in `adj[p]` -/
def ChainEdge (m : Mol) (p c : Nat) : Prop :=
  ∃ (row : List DirBond) (b : DirBond), m.adj[p]? = some row ∧ b ∈ row ∧ b.ring = false ∧ b.dst = c

/-- `c` is `a` or a descendant of `a` along chain bonds -/
inductive Desc (m : Mol) : Nat → Nat → Prop
  | refl (a : Nat) : Desc m a a
  | step {a b c : Nat} : ChainEdge m a b → Desc m b c → Desc m a c

theorem Desc.snoc {m : Mol} {a b c : Nat} (h : Desc m a b) (e : ChainEdge m b c) : Desc m a c := by
  induction h with
  | refl a => exact .step e (.refl _)
  | step e' _ ih => exact .step e' (ih e)

/-- the list of maps has an entry made from atom `i` -/
def VisitedL (m : Mol) (l : List AttributionMap) (i : Nat) : Prop :=
  ∃ mp ∈ l, ∃ a, m.atoms[i]? = some a ∧ atomToSmiles a = .ok mp.token ∧
    mp.attribution = (m.atomAttr[i]?).getD none

theorem VisitedL.mono {m : Mol} {l l' : List AttributionMap} {i : Nat} (h : VisitedL m l i)
    (hs : ∀ mp ∈ l, mp ∈ l') : VisitedL m l' i := by
  obtain ⟨mp, hmp, r⟩ := h
  exact ⟨mp, hs mp hmp, r⟩

/-- maps are only ever added -/
def Grows (w r : WState) : Prop := ∀ mp ∈ w.mapsRev, mp ∈ r.mapsRev

theorem Grows.refl (w : WState) : Grows w w := fun _ h => h
theorem Grows.trans {a b c : WState} (h1 : Grows a b) (h2 : Grows b c) : Grows a c :=
  fun mp h => h2 mp (h1 mp h)
theorem Grows.push (w : WState) (x : Str) : Grows w (w.push x) := fun _ h => h
theorem Grows.ite_push (w : WState) (c : Prop) [Decidable c] (x : Str) :
    Grows w (if c then w.push x else w) := by
  split
  · exact Grows.push w x
  · exact Grows.refl w
theorem Grows.pushMap (w : WState) (tok : Str) (a) (ai : Nat) : Grows w (w.pushMap tok a ai) :=
  fun _ h => List.mem_cons_of_mem _ h
theorem Grows.ringPush (w : WState) (ends : Nat × Nat) : Grows w (ringPush w ends) := by
  unfold SV.ringPush
  intro mp h
  apply Grows.push
  apply Grows.ite_push
  exact h

theorem wstepAtom_spec {m ai top w w1} (hs : wstepAtom m ai top w = .ok w1) :
    Grows w w1 ∧ (top.bondIndex = 0 → VisitedL m w1.mapsRev top.curr) := by
  unfold wstepAtom at hs
  bind_at hs with ⟨currAtom, h1, hs⟩
  split at hs
  · bind_at hs with ⟨tok, h2, hs⟩
    cases hs
    refine ⟨(Grows.push w tok).trans (Grows.pushMap _ _ _ _), fun _ => ?_⟩
    exact ⟨_, List.mem_cons_self, currAtom, getIdx_ok' h1, h2, rfl⟩
  · rename_i hb
    cases hs
    exact ⟨Grows.refl w, fun h0 => by simp [h0] at hb⟩

/-- what one bond step does to the stack -/
theorem wstepTail_spec {m ai top stack w r} (hs : wstepTail m ai top stack w = .ok r) :
    Grows w r.2 ∧
    ((top.bondIndex < top.totalBonds ∧ ∃ (row : List DirBond) (bond : DirBond),
        m.adj[top.curr]? = some row ∧ row[top.bondIndex]? = some bond ∧
        ((bond.ring = true ∧ r.1 = { top with bondIndex := top.bondIndex + 1 } :: stack) ∨
         (bond.ring = false ∧ ∃ (row' : List DirBond) (nc : Bool), m.adj[bond.dst]? = some row' ∧
            r.1 = { curr := bond.dst, bondIndex := 0, totalBonds := row'.length, needsClosing := nc }
              :: { top with bondIndex := top.bondIndex + 1 } :: stack)))
     ∨ (¬ top.bondIndex < top.totalBonds ∧ r.1 = stack)) := by
  unfold wstepTail at hs
  bind_at hs with ⟨out, h1, hs⟩
  have hrow := getIdx_ok' h1
  split at hs
  · rename_i hlt
    bind_at hs with ⟨bond, h2, hs⟩
    have hb := getIdx_ok' h2
    split at hs
    · rename_i hr
      bind_at hs with ⟨tok, h3, hs⟩
      cases hs
      refine ⟨((Grows.push w tok).trans (Grows.pushMap _ _ _ _)).trans (Grows.ringPush _ _), ?_⟩
      exact .inl ⟨hlt, out, bond, hrow, hb, .inl ⟨hr, rfl⟩⟩
    · rename_i hr
      bind_at hs with ⟨tok, h3, hs⟩
      bind_at hs with ⟨dstOut, h4, hs⟩
      cases hs
      refine ⟨((Grows.ite_push w _ _).trans (Grows.push _ tok)).trans (Grows.pushMap _ _ _ _), ?_⟩
      exact .inl ⟨hlt, out, bond, hrow, hb, .inr ⟨by simpa using hr, dstOut, _, getIdx_ok' h4, rfl⟩⟩
  · rename_i hlt
    cases hs
    exact ⟨Grows.ite_push w _ _, .inr ⟨hlt, rfl⟩⟩

/-- atoms a frame still has to write: itself (before its first step) and everything below its
    remaining chain bonds -/
def Pending (m : Mol) (f : WFrame) (x : Nat) : Prop :=
  (f.bondIndex = 0 ∧ x = f.curr) ∨
  ∃ (row : List DirBond) (j : Nat) (b : DirBond), m.adj[f.curr]? = some row ∧ f.bondIndex ≤ j ∧
    j < f.totalBonds ∧ row[j]? = some b ∧ b.ring = false ∧ Desc m b.dst x

/-- a fresh frame for atom `r` has all descendants of `r` pending -/
theorem Pending.fresh {m : Mol} {r x : Nat} {row : List DirBond} {nc : Bool}
    (hrow : m.adj[r]? = some row) (h : Desc m r x) :
    Pending m { curr := r, bondIndex := 0, totalBonds := row.length, needsClosing := nc } x := by
  cases h with
  | refl => exact .inl ⟨rfl, rfl⟩
  | step e hd =>
    obtain ⟨row', b, h1, h2, h3, h4⟩ := e
    rw [hrow] at h1
    cases h1
    obtain ⟨j, hj⟩ := List.mem_iff_getElem?.mp h2
    refine .inr ⟨row, j, b, hrow, Nat.zero_le _, (List.getElem?_eq_some_iff.mp hj).1, hj, h3, ?_⟩
    rw [h4]; exact hd

theorem writeLoop_grows (m : Mol) (ai : Nat) : ∀ (fuel : Nat) (stack : List WFrame) (w r : WState),
    writeLoop m ai fuel stack w = .ok r → Grows w r := by
  intro fuel
  induction fuel with
  | zero =>
    intro stack w r hs
    cases stack with
    | nil => simp only [writeLoop] at hs; cases hs; exact Grows.refl _
    | cons _ _ => simp [writeLoop] at hs
  | succ fuel ih =>
    intro stack w r hs
    cases stack with
    | nil => simp only [writeLoop] at hs; cases hs; exact Grows.refl _
    | cons top stack =>
      rw [writeLoop_succ] at hs
      bind_at hs with ⟨r1, h1, hs⟩
      unfold wstep at h1
      bind_at h1 with ⟨w1, ha, h1⟩
      exact ((wstepAtom_spec ha).1.trans (wstepTail_spec h1).1).trans (ih _ _ _ hs)

theorem writeLoop_complete (m : Mol) (ai : Nat) : ∀ (fuel : Nat) (stack : List WFrame) (w r : WState),
    writeLoop m ai fuel stack w = .ok r →
    ∀ f ∈ stack, ∀ x, Pending m f x → VisitedL m r.mapsRev x := by
  intro fuel
  induction fuel with
  | zero =>
    intro stack w r hs f hf
    cases stack with
    | nil => cases hf
    | cons _ _ => simp [writeLoop] at hs
  | succ fuel ih =>
    intro stack w r hs f hf x hp
    cases stack with
    | nil => cases hf
    | cons top stack =>
      rw [writeLoop_succ] at hs
      bind_at hs with ⟨r1, h1, hs⟩
      unfold wstep at h1
      bind_at h1 with ⟨w1, ha, h1⟩
      obtain ⟨g1, hvis⟩ := wstepAtom_spec ha
      obtain ⟨g2, hshape⟩ := wstepTail_spec h1
      have g3 := writeLoop_grows m ai _ _ _ _ hs
      have ih' := ih _ _ _ hs
      -- frames below the top stay on the stack
      have hrest : ∀ f' ∈ stack, f' ∈ r1.1 := by
        intro f' hf'
        rcases hshape with ⟨_, row, bond, _, _, h | h⟩ | ⟨_, h⟩
        · rw [h.2]; exact List.mem_cons_of_mem _ hf'
        · obtain ⟨_, row', nc, _, h⟩ := h
          rw [h]; exact List.mem_cons_of_mem _ (List.mem_cons_of_mem _ hf')
        · rw [h]; exact hf'
      rcases List.mem_cons.mp hf with rfl | hf
      · rcases hp with ⟨h0, rfl⟩ | ⟨row, j, b, hrow, hj1, hj2, hb, hbr, hd⟩
        · exact (hvis h0).mono (fun mp h => g3 mp (g2 mp h))
        · rcases hshape with ⟨hlt, row2, bond, hrow2, hbond, h | h⟩ | ⟨hlt, _⟩
          · -- ring bond at `bondIndex`: `j` is a later bond
            rw [hrow] at hrow2; cases hrow2
            have hne : f.bondIndex ≠ j := by
              intro e; rw [← e, hbond] at hb; cases hb; rw [h.1] at hbr; cases hbr
            refine ih' _ (by rw [h.2]; exact List.mem_cons_self) x ?_
            exact .inr ⟨row, j, b, hrow, by simp only; omega, hj2, hb, hbr, hd⟩
          · obtain ⟨hring, row', nc, hrow', hst⟩ := h
            rw [hrow] at hrow2; cases hrow2
            by_cases hje : f.bondIndex = j
            · rw [← hje, hbond] at hb; cases hb
              refine ih' _ (by rw [hst]; exact List.mem_cons_self) x ?_
              exact Pending.fresh hrow' hd
            · refine ih' _ (by rw [hst]; exact List.mem_cons_of_mem _ List.mem_cons_self) x ?_
              exact .inr ⟨row, j, b, hrow, by simp only; omega, hj2, hb, hbr, hd⟩
          · omega
      · exact ih' f (hrest f hf) x hp

theorem frags_complete (m : Mol) : ∀ (roots : List Nat) (ai : Nat) (log : List ((Nat × Nat) × Nat))
    (acc : List Str) (maps : List AttributionMap) (r : List Str × List AttributionMap),
    molToSmiles.frags m roots ai log acc maps = .ok r →
    (∀ mp ∈ maps, mp ∈ r.2) ∧ ∀ root ∈ roots, ∀ x, Desc m root x → VisitedL m r.2 x := by
  intro roots
  induction roots with
  | nil =>
    intro ai log acc maps r h
    simp only [molToSmiles.frags, pure, Except.pure] at h
    cases h
    exact ⟨fun _ h => h, fun _ hr => by cases hr⟩
  | cons root rest ih =>
    intro ai log acc maps r h
    rw [molToSmiles.frags] at h
    bind_at h with ⟨out, h1, h⟩
    bind_at h with ⟨w, h2, h⟩
    obtain ⟨k1, k2⟩ := ih _ _ _ _ _ h
    refine ⟨fun mp hmp => k1 mp (List.mem_append_left _ hmp), ?_⟩
    intro rt hrt x hd
    rcases List.mem_cons.mp hrt with rfl | hrt
    · have hv := writeLoop_complete m ai _ _ _ _ h2 _ List.mem_cons_self x
        (Pending.fresh (getIdx_ok' h1) hd)
      exact hv.mono (fun mp hmp => k1 mp (List.mem_append_right _ (List.mem_reverse.mpr hmp)))
    · exact k2 rt hrt x hd

/-- If every atom is reachable from a root along chain bonds and atom tokens are non-empty, the
    writer's (trimmed) attribution list has an entry for every atom. -/
theorem molToSmiles_complete {m : Mol} {out : Str} {maps : List AttributionMap}
    (h : molToSmiles m = .ok (out, maps))
    (hreach : ∀ i, i < m.atoms.length → ∃ r ∈ m.roots, Desc m r i)
    (hne : ∀ (i : Nat) (a : Atom) (tok : Str), m.atoms[i]? = some a → atomToSmiles a = .ok tok → tok ≠ []) :
    ∀ (i : Nat) (a : Atom), m.atoms[i]? = some a →
      ∃ mp ∈ maps, atomToSmiles a = .ok mp.token ∧ mp.attribution = (m.atomAttr[i]?).getD none := by
  unfold molToSmiles at h
  bind_at h with ⟨⟨fragments, maps0⟩, h1, h⟩
  simp only [pure, Except.pure, Except.ok.injEq, Prod.mk.injEq] at h
  obtain ⟨rfl, rfl⟩ := h
  obtain ⟨_, k2⟩ := frags_complete m _ _ _ _ _ _ h1
  intro i a ha
  obtain ⟨r, hr, hd⟩ := hreach i (List.getElem?_eq_some_iff.mp ha).1
  obtain ⟨mp, hmp, a', ha', htok, hattr⟩ := k2 r hr i hd
  rw [ha] at ha'; cases ha'
  refine ⟨mp, List.mem_filter.mpr ⟨hmp, ?_⟩, htok, hattr⟩
  have := hne i a mp.token ha htok
  cases hk : mp.token with
  | nil => exact absurd hk this
  | cons _ _ => rfl

/-- in a forest (C01.4) every atom is reachable from a root along chain bonds -/
theorem forest_reach {m : Mol}
    (hsrc : ∀ (k : Nat) (row : List DirBond), m.adj[k]? = some row → ∀ b ∈ row, b.src = k)
    (hlt : ∀ b ∈ m.adj.flatten, b.ring = false → b.src < b.dst)
    (hin : ∀ i, i < m.atoms.length → i ∉ m.roots →
      ∃ b ∈ m.adj.flatten, b.dst = i ∧ b.ring = false) :
    ∀ i, i < m.atoms.length → ∃ r ∈ m.roots, Desc m r i := by
  intro i
  induction i using Nat.strongRecOn with
  | _ i ih =>
    intro hi
    by_cases hr : i ∈ m.roots
    · exact ⟨i, hr, .refl i⟩
    · obtain ⟨b, hb, hd, hring⟩ := hin i hi hr
      obtain ⟨row, hrow, hbr⟩ := List.mem_flatten.mp hb
      obtain ⟨k, hk⟩ := List.mem_iff_getElem?.mp hrow
      have hs := hsrc k row hk b hbr
      have hl := hlt b hb hring
      have hk' : k < i := by omega
      obtain ⟨r, hr', hdesc⟩ := ih k hk' (by omega)
      exact ⟨r, hr', hdesc.snoc ⟨row, b, hk, hbr, hring, hd⟩⟩

/-- atoms made from SELFIES atom symbols are not aromatic and have a non-empty element -/
theorem processAtomSelfiesNoCache_elem {sym : Str} {bi : Nat × Option Char} {a : Atom}
    (h : processAtomSelfiesNoCache sym = some (bi, a)) : a.element ≠ [] ∧ a.isAromatic = false := by
  unfold processAtomSelfiesNoCache at h
  simp only [smilesToBond] at h
  repeat' split at h
  all_goals (try cases h)
  all_goals exact ⟨by simp, rfl⟩

theorem atomToSmiles_ne_nil {a : Atom} {tok : Str} (he : a.element ≠ []) (h : atomToSmiles a = .ok tok) :
    tok ≠ [] := by
  unfold atomToSmiles at h
  split at h
  · cases h
  · split at h
    · cases h; exact he
    · cases h; simp

end SV
