/-
  C01r, stages (c)/(d): one parser step on one expected token, on a state that satisfies the
  simulation invariant `RdSim`.
-/
import SelfiesVerif.Proofs.ReaderSimClose

namespace SV

/-! ### unfolding one iteration of `parseFragmentLoop` -/

theorem run_open (st : ParseSt) (prev : Option Nat) (stk : List (Option Nat)) (rest : List SmilesTok)
    (hcs : st.chainStart = false) (hstack : st.prevStack = prev :: stk) :
    parseFragmentLoop false ({ bondChar := none, kind := .branch, text := ['('] } :: rest) st =
      parseFragmentLoop false rest
        { st with prevStack := prev :: prev :: stk, branchDepth := st.branchDepth + 1,
                  chainStart := true, i := st.i + 1 } := by
  rw [parseFragmentLoop]
  simp only [hstack, hcs, bind, Except.bind, pure, Except.pure, Bool.false_eq_true, if_false]
  simp

theorem run_close (st : ParseSt) (prev : Option Nat) (stk : List (Option Nat)) (rest : List SmilesTok)
    (hcs : st.chainStart = false) (hbd : st.branchDepth ≠ 0) (hstack : st.prevStack = prev :: stk) :
    parseFragmentLoop false ({ bondChar := none, kind := .branch, text := [')'] } :: rest) st =
      parseFragmentLoop false rest
        { st with prevStack := stk, branchDepth := st.branchDepth - 1, i := st.i + 1 } := by
  rw [parseFragmentLoop]
  have : (st.branchDepth == 0) = false := by simpa using hbd
  simp only [hstack, hcs, bind, Except.bind, pure, Except.pure, Bool.false_eq_true, if_false, this]
  simp

theorem run_atomRoot (st : ParseSt) (stk : List (Option Nat)) (rest : List SmilesTok) (bc : Option Char)
    (text : Str) (a : Atom) (hstack : st.prevStack = none :: stk) (ha : smilesToAtom text = some a) :
    parseFragmentLoop false ({ bondChar := bc, kind := .atom, text := text } :: rest) st =
      parseFragmentLoop false rest
        { st with mol := (st.mol.addAtom a true none).1, prevStack := some st.mol.atoms.length :: stk,
                  chainStart := false, i := (if bc.isSome then st.i + 1 else st.i) + 1 } := by
  rw [parseFragmentLoop]
  simp only [hstack, ha, bind, Except.bind, pure, Except.pure, Bool.false_eq_true, if_false]
  rfl

theorem run_atomAttach (st : ParseSt) (p : Nat) (stk : List (Option Nat)) (rest : List SmilesTok)
    (bc : Option Char) (text : Str) (a pa : Atom) (mol' : PMol)
    (hstack : st.prevStack = some p :: stk) (ha : smilesToAtom text = some a)
    (hpa : (st.mol.addAtom a false none).1.atoms[p]? = some pa) (hna : pa.isAromatic = false)
    (hbond : (st.mol.addAtom a false none).1.addBond p st.mol.atoms.length (smilesToBond bc).1
      (smilesToBond bc).2 none = .ok mol') :
    parseFragmentLoop false ({ bondChar := bc, kind := .atom, text := text } :: rest) st =
      parseFragmentLoop false rest
        { st with mol := mol', prevStack := some st.mol.atoms.length :: stk,
                  chainStart := false, i := (if bc.isSome then st.i + 1 else st.i) + 1 } := by
  rw [parseFragmentLoop]
  simp only [hstack, ha, bind, Except.bind, pure, Except.pure, Bool.false_eq_true, if_false]
  have h1 : getIdx (st.mol.addAtom a false none).1.atoms p = .ok pa := getIdx_run hpa
  simp only [PMol.addAtom, Option.isNone_some, Bool.false_eq_true, if_false] at h1 hbond ⊢
  simp only [h1, hna, Bool.false_and, Bool.false_eq_true, if_false, hbond]
  rfl

theorem run_ringOpen (st : ParseSt) (p : Nat) (stk : List (Option Nat)) (rest : List SmilesTok)
    (bc : Option Char) (text : Str) (mol' : PMol) (lpos : Nat)
    (hcs : st.chainStart = false) (hstack : st.prevStack = some p :: stk)
    (hfind : st.ringLog.find? (·.label == text) = none)
    (hph : st.mol.addPlaceholder p = .ok (mol', lpos)) :
    parseFragmentLoop false ({ bondChar := bc, kind := .ring, text := text } :: rest) st =
      parseFragmentLoop false rest
        { st with mol := mol', i := st.i + 1,
                  ringLog := st.ringLog ++ [{ label := text, bondChar := bc, atom := p, pos := lpos }] } := by
  rw [parseFragmentLoop]
  simp only [hstack, hcs, hfind, hph, bind, Except.bind, pure, Except.pure, Bool.false_eq_true, if_false]

theorem run_ringClose (st : ParseSt) (p : Nat) (stk : List (Option Nat)) (rest : List SmilesTok)
    (bc : Option Char) (text : Str) (mol' : PMol) (ro : RingOpen)
    (hcs : st.chainStart = false) (hstack : st.prevStack = some p :: stk)
    (hfind : st.ringLog.find? (·.label == text) = some ro)
    (hmk : makeRingBonds st.mol ro.bondChar ro.atom ro.pos bc p = .ok mol') :
    parseFragmentLoop false ({ bondChar := bc, kind := .ring, text := text } :: rest) st =
      parseFragmentLoop false rest
        { st with mol := mol', i := st.i + 1, ringLog := st.ringLog.filter (·.label != text) } := by
  rw [parseFragmentLoop]
  simp only [hstack, hcs, hfind, hmk, bind, Except.bind, pure, Except.pure, Bool.false_eq_true, if_false]

end SV
