/-
  C02, part 3 of the refinement proof: `deriveLoop` (count-up `n_derived` against `max_derive`,
  token stream, tracked counts) is simulated by `Spec.derive` (count-down budget, plain list,
  bond list), by induction on the implementation's fuel.
-/
import SelfiesVerif.Proofs.SpecRefineMol

namespace SV
open SV.Spec

/-! ### one step of the specification, case by case -/

section Steps
variable {T : Table} {f : Nat} {b : Option Nat} {i : Nat} {prev : Option Nat} {s : Str}
  {rest : List Str} {ds : DS}

theorem derive_stop {syms : List Str} : derive T (f + 1) (some 0) i prev syms ds = .ok (syms, ds) := by
  simp [derive]

theorem derive_nil (hb : b ≠ some 0) : derive T (f + 1) b i prev [] ds = .ok ([], ds) := by
  simp [derive, hb]

theorem derive_invalid (hb : b ≠ some 0) (hc : classify T s = .invalid) :
    derive T (f + 1) b i prev (s :: rest) ds = .error .DecoderError := by
  simp [derive, hb, hc]

theorem derive_eps0 (hb : b ≠ some 0) (hc : classify T s = .epsilon) :
    derive T (f + 1) b 0 prev (s :: rest) ds = derive T f (spend b 1) 0 prev rest ds := by
  simp [derive, hb, hc]

theorem derive_eps (hb : b ≠ some 0) (hc : classify T s = .epsilon) (hi : i ≠ 0) :
    derive T (f + 1) b i prev (s :: rest) ds = .ok (skip (spend b 1) rest, ds) := by
  simp [derive, hb, hc, hi]

theorem derive_branch_skip {m l : Nat} (hb : b ≠ some 0) (hc : classify T s = .branch m l) (hi : i ≤ 1) :
    derive T (f + 1) b i prev (s :: rest) ds = derive T f (spend b 1) i prev rest ds := by
  simp [derive, hb, hc, hi]

theorem derive_branch_err {m l : Nat} {e} (hb : b ≠ some 0) (hc : classify T s = .branch m l) (hi : ¬ i ≤ 1)
    (hn : derive T f (some (indexValue l rest + 1)) (min (i - 1) m) prev (rest.drop l) ds = .error e) :
    derive T (f + 1) b i prev (s :: rest) ds = .error e := by
  simp only [derive, hb, hc, hi, if_false, hn]

theorem derive_branch_ok {m l : Nat} {after ds'} (hb : b ≠ some 0) (hc : classify T s = .branch m l)
    (hi : ¬ i ≤ 1)
    (hn : derive T f (some (indexValue l rest + 1)) (min (i - 1) m) prev (rest.drop l) ds = .ok (after, ds')) :
    derive T (f + 1) b i prev (s :: rest) ds =
      derive T f (spend (spend b 1) (min l rest.length + ((rest.drop l).length - after.length)))
          (i - min (i - 1) m) prev after ds' := by
  simp only [derive, hb, hc, hi, if_false, hn]

theorem derive_ring_skip {β l : Nat} {ls rs} (hb : b ≠ some 0) (hc : classify T s = .ring β l ls rs) :
    derive T (f + 1) b 0 prev (s :: rest) ds = derive T f (spend b 1) 0 prev rest ds := by
  simp [derive, hb, hc]

theorem derive_ring {β l p : Nat} {ls rs} (hb : b ≠ some 0) (hc : classify T s = .ring β l ls rs)
    (hi : i ≠ 0) :
    derive T (f + 1) b i (some p) (s :: rest) ds =
      let ds' : DS := { ds with queue := ds.queue ++
        [{ a := p - (indexValue l rest + 1), b := p, order := min β i, ls, rs }] }
      if i - min β i = 0 then .ok (skip (spend (spend b 1) (min l rest.length)) (rest.drop l), ds')
      else derive T f (spend (spend b 1) (min l rest.length)) (i - min β i) (some p) (rest.drop l) ds' := by
  simp only [derive, hb, hc, hi, if_false]

theorem derive_root {β : Nat} {mark} {x : Atom} (hb : b ≠ some 0) (hc : classify T s = .atom β mark x) :
    derive T (f + 1) b 0 prev (s :: rest) ds =
      if cap T x = 0 then .ok (skip (spend b 1) rest, { ds with mol := ds.mol.addRoot x })
      else derive T f (spend b 1) (cap T x) (some ds.mol.atoms.length) rest
        { ds with mol := ds.mol.addRoot x } := by
  simp only [derive, hb, hc, if_false, if_true]

theorem derive_atom_none {β : Nat} {mark} {x : Atom} (hb : b ≠ some 0) (hc : classify T s = .atom β mark x)
    (hi : i ≠ 0) (hμ : min β (min i (cap T x)) = 0) :
    derive T (f + 1) b i prev (s :: rest) ds = .ok (skip (spend b 1) rest, ds) := by
  simp only [derive, hb, hc, hi, hμ, if_false, if_true]

theorem derive_atom {β p : Nat} {mark} {x : Atom} (hb : b ≠ some 0) (hc : classify T s = .atom β mark x)
    (hi : i ≠ 0) (hμ : min β (min i (cap T x)) ≠ 0) :
    derive T (f + 1) b i (some p) (s :: rest) ds =
      let μ := min β (min i (cap T x))
      let ds' : DS := { ds with mol := ds.mol.addChained p x μ mark }
      if cap T x - μ = 0 then .ok (skip (spend b 1) rest, ds')
      else derive T f (spend b 1) (cap T x - μ) (some ds.mol.atoms.length) rest ds' := by
  simp only [derive, hb, hc, hi, hμ, if_false]

end Steps

end SV

namespace SV
open SV.Spec

def ringOf (r : RingCand) : RingReq := (r.a, r.b, (r.order, (r.ls, r.rs)))

structure Sim (T : Table) (st : DState) (ds : DS) : Prop where
  mol : MRel T st.mol ds.mol
  rings : st.rings = ds.queue.map ringOf
  qok : ∀ r ∈ ds.queue, r.a ≤ r.b ∧ r.b < st.mol.atoms.length ∧ 1 ≤ r.order ∧ r.order ≤ 3
  /-- no ring bond is made before the second pass -/
  chain : ∀ e ∈ ds.mol.bonds, e.ring = false

/-- how a result of the implementation relates to a result of the specification -/
def SimRes (T : Table) (h : Bool) (unlimited : Bool) (nd len0 size0 : Nat)
    (res : Py (DState × Nat)) (sres : Py (List Str × DS)) : Prop :=
  match res with
  | .ok (st', n') => ∃ ds', sres = .ok (st'.stream.toks.map (·.2), ds') ∧ Sim T st' ds' ∧
      st'.stream.hanging = h ∧ nd ≤ n' ∧ n' + st'.stream.toks.length = nd + len0 ∧
      size0 ≤ st'.mol.atoms.length ∧ (unlimited = true → h = false)
  | .error .RecursionError => True
  | .error .DecoderError => h = true ∨ sres = .error .DecoderError
  | .error _ => False

theorem bind_res {α β} {x : Py α} {f : α → Py β} {res : Py β} (h : (x >>= f) = res) :
    (∃ e, x = .error e ∧ res = .error e) ∨ (∃ a, x = .ok a ∧ f a = res) := by
  cases x with
  | error e => exact Or.inl ⟨e, rfl, h.symm⟩
  | ok a => exact Or.inr ⟨a, rfl, h⟩

theorem ok_bind {α β} (a : α) (f : α → Py β) : ((Except.ok a : Py α) >>= f) = f a := rfl
theorem error_bind {α β} (e : PyExc) (f : α → Py β) : ((Except.error e : Py α) >>= f) = .error e := rfl

theorem fin_sim {T : Table} {k : Nat} {s0 : Stream} {mol : Mol} {rings : List RingReq} {md : Option Nat}
    {nd nd0 len0 size0 : Nat} {ds : DS} {res : Py (DState × Nat)} {s1 : Stream}
    (hres : (do
      let __x ← consumeRest false k s0 md nd
      match __x with
        | (s', n) => pure ({ stream := s', mol := mol, rings := rings }, n) : Py (DState × Nat)) = res)
    (hk : s0.toks.length < k)
    (hs : Sim T { stream := s1, mol := mol, rings := rings } ds)
    (h1 : nd0 ≤ nd) (h2 : nd + s0.toks.length = nd0 + len0) (h3 : size0 ≤ mol.atoms.length) :
    SimRes T s0.hanging md.isNone nd0 len0 size0 res
      (.ok (skip (bud md nd) (s0.toks.map (·.2)), ds)) := by
  rw [consumeRest_eq _ _ _ _ hk] at hres
  split at hres
  · rename_i hc
    subst hres
    simp only [bind, Except.bind, SimRes]
    exact Or.inl hc.1
  · rename_i hc
    subst hres
    simp only [bind, Except.bind, pure, Except.pure, SimRes]
    have hle := skip_length_le (bud md nd) s0.toks
    refine ⟨ds, by rw [skip_map], ⟨hs.mol, hs.rings, hs.qok, hs.chain⟩, trivial, by omega, by omega, h3, ?_⟩
    intro hu
    cases md with
    | some M => cases hu
    | none =>
      simp only [bud, Option.map, needsMore, and_true] at hc
      simpa using hc


theorem fin_sim' {T : Table} {k : Nat} {s0 : Stream} {mol : Mol} {rings : List RingReq} {md : Option Nat}
    {nd nd0 len0 size0 : Nat} {ds : DS} {res : Py (DState × Nat)} {s1 : Stream}
    (hres : (do
      let __x ← consumeRest false k s0 md nd
      pure ({ stream := __x.fst, mol := mol, rings := rings }, __x.snd) : Py (DState × Nat)) = res)
    (hk : s0.toks.length < k)
    (hs : Sim T { stream := s1, mol := mol, rings := rings } ds)
    (h1 : nd0 ≤ nd) (h2 : nd + s0.toks.length = nd0 + len0) (h3 : size0 ≤ mol.atoms.length) :
    SimRes T s0.hanging md.isNone nd0 len0 size0 res
      (.ok (skip (bud md nd) (s0.toks.map (·.2)), ds)) :=
  fin_sim (s1 := s1) hres hk hs h1 h2 h3

theorem SimRes.mono {T h u nd len size nd' len' size' res sres}
    (hr : SimRes T h u nd' len' size' res sres)
    (h1 : nd ≤ nd') (h2 : nd' + len' = nd + len) (h3 : size ≤ size') :
    SimRes T h u nd len size res sres := by
  unfold SimRes at hr ⊢
  split
  · rename_i st' n'
    obtain ⟨ds', e1, e2, e3, e4, e5, e6, e7⟩ := hr
    exact ⟨ds', e1, e2, e3, by omega, by omega, by omega, e7⟩
  · trivial
  · exact hr
  · rename_i e h1 h2
    cases e <;> first | exact hr | exact absurd rfl h1 | exact absurd rfl h2

theorem SimRes.error_elim {T h u nd len size e sres}
    (hr : SimRes T h u nd len size (.error e) sres) :
    e = .RecursionError ∨ (e = .DecoderError ∧ (h = true ∨ sres = .error .DecoderError)) := by
  cases e <;> simp only [SimRes] at hr <;> first | exact hr.elim | exact Or.inl rfl | exact Or.inr ⟨rfl, hr⟩

theorem SimRes.error_intro {T h u nd len size e sres}
    (hr : e = .RecursionError ∨ (e = .DecoderError ∧ (h = true ∨ sres = .error .DecoderError))) :
    SimRes T h u nd len size (.error e) sres := by
  rcases hr with rfl | ⟨rfl, hr⟩
  · trivial
  · exact hr

theorem processBranchSymbol_ok {sym bt n} (h : processBranchSymbol sym = some (bt, n)) :
    1 ≤ bt ∧ bt ≤ 3 := by
  have key : ∀ e ∈ Gen.branchTable, 1 ≤ e.2.1 ∧ e.2.1 ≤ 3 := by decide +kernel
  obtain ⟨k, hk⟩ := lookup_mem _ _ _ h
  exact key _ hk

theorem nextBranchState_eq {bt s : Nat} (h1 : 1 ≤ bt) (h3 : bt ≤ 3) (hs : ¬ s ≤ 1) :
    nextBranchState bt s = .ok (min (s - 1) bt, s - min (s - 1) bt) := by
  unfold nextBranchState
  rw [if_pos ⟨h1, h3⟩, if_pos (by omega)]

theorem nextRingState_eq {rt s : Nat} (hs : s ≠ 0) :
    nextRingState rt s = .ok (min rt s, if s - min rt s = 0 then none else some (s - min rt s)) := by
  unfold nextRingState
  rw [if_pos (by omega)]

theorem nextAtomState_zero (β c : Nat) :
    nextAtomState β c 0 = (0, if c = 0 then none else some c) := by
  simp [nextAtomState]

theorem nextAtomState_pos {β c s : Nat} (hs : s ≠ 0) :
    nextAtomState β c s = (min β (min s c),
      if c - min β (min s c) = 0 then none else some (c - min β (min s c))) := by
  unfold nextAtomState
  simp only [hs, if_false]
  have : min (min β s) c = min β (min s c) := by omega
  rw [this]

theorem getIdx_lt {α} {l : List α} {i : Nat} (h : i < l.length) : getIdx l i = .ok l[i] := by
  unfold getIdx; rw [List.getElem?_eq_getElem h]

theorem addAtomBond_run {m : Mol} (a : Atom) (attr attr' : Option (List Attribution)) {p : Nat} (bo : Nat)
    (st : Option Char) (hA : m.adj.length = m.atoms.length) (hC : m.counts.length = m.atoms.length)
    (hp : p < m.atoms.length) :
    ∃ m', (m.addAtom a false attr).1.addBond p m.atoms.length bo st attr' = .ok m' := by
  have e1 : (m.adj ++ [[]])[p]? = some m.adj[p] := by
    rw [List.getElem?_append_left (by omega), List.getElem?_eq_getElem]
  have e2 : (m.counts ++ [0])[p]? = some m.counts[p] := by
    rw [List.getElem?_append_left (by omega), List.getElem?_eq_getElem]
  have e3 : ((m.counts ++ [0]).set p (m.counts[p] + bo))[m.atoms.length]? = some 0 := by
    rw [List.getElem?_set_ne (by omega), ← hC]; simp
  simp only [Mol.addBond, Mol.addAtom, pyAssert, hp, decide_true, if_true, Mol.appendOut, Mol.addCount,
    e1, e2, e3, bind, Except.bind, pure, Except.pure]
  exact ⟨_, rfl⟩

theorem deriveLoop_sim (T : Table) : ∀ (fuel depth : Nat) (st : DState) (md : Option Nat)
    (nd state : Nat) (prev : Option Nat) (as : Option (List Attribution)) (ai : Nat)
    (ds : DS) (sfuel : Nat) (res : Py (DState × Nat)),
    deriveLoop T false fuel depth st md nd state prev as ai = res →
    st.stream.toks.length < fuel → st.stream.toks.length < sfuel →
    Sim T st ds → (0 < state → ∃ p, prev = some p ∧ p < st.mol.atoms.length) →
    SimRes T st.stream.hanging md.isNone nd st.stream.toks.length st.mol.atoms.length res
      (derive T sfuel (bud md nd) state prev (st.stream.toks.map (·.2)) ds) := by
  intro fuel
  induction fuel with
  | zero => intro _ st _ _ _ _ _ _ _ _ _ _ h; omega
  | succ fuel ih =>
    intro depth st md nd state prev as ai ds sfuel res hres hfuel hsfuel hsim hprev
    obtain ⟨sf, rfl⟩ : ∃ sf, sfuel = sf + 1 := ⟨sfuel - 1, by omega⟩
    unfold deriveLoop at hres
    dsimp only at hres
    split at hres
    · -- budget exhausted
      rename_i hub
      have hb : bud md nd = some 0 := by
        cases md with
        | none => simp [underBudget] at hub
        | some M => simp [underBudget] at hub; simp [bud]; omega
      have := fin_sim (nd0 := nd) (len0 := st.stream.toks.length) (size0 := st.mol.atoms.length)
        (ds := ds) (s1 := st.stream) hres (by omega) hsim (Nat.le_refl _) rfl (Nat.le_refl _)
      rw [hb] at this ⊢
      rw [derive_stop]
      simpa [skip] using this
    · rename_i hub
      have hb : bud md nd ≠ some 0 := (underBudget_iff md nd).mp (by simpa using hub)
      cases htoks : st.stream.toks with
      | nil =>
        rw [next_nil htoks] at hres
        cases hh : st.stream.hanging with
        | true =>
          rw [hh] at hres
          simp only [if_true, error_bind] at hres
          subst hres
          simp [SimRes]
        | false =>
          rw [hh] at hres
          simp only [Bool.false_eq_true, if_false, ok_bind] at hres
          have := fin_sim (nd0 := nd) (len0 := st.stream.toks.length) (size0 := st.mol.atoms.length)
            (ds := ds) (s1 := st.stream) hres (by omega) hsim (Nat.le_refl _) rfl (Nat.le_refl _)
          rw [htoks] at this
          rw [hh] at this
          simp only [List.map_nil, List.length_nil] at this ⊢
          rw [derive_nil hb]
          have e : skip (bud md nd) ([] : List Str) = [] := by cases bud md nd <;> simp [skip]
          rw [e] at this
          exact this
      | cons t rest =>
        obtain ⟨index, symbol⟩ := t
        rw [next_cons htoks] at hres
        simp only [ok_bind] at hres
        simp only [List.map_cons, List.length_cons]
        -- the state after pulling the symbol
        have hsim1 : Sim T (⟨⟨rest, st.stream.hanging⟩, st.mol, st.rings⟩ : DState) ds :=
          ⟨hsim.mol, hsim.rings, hsim.qok, hsim.chain⟩
        have hrf : rest.length < fuel := by rw [htoks] at hfuel; simpa using hfuel
        have hrsf : rest.length < sf := by rw [htoks] at hsfuel; simpa using hsfuel
        -- a recursive call on the rest in the same instance
        have same : ∀ (state' : Nat) (res' : Py (DState × Nat)),
            deriveLoop T false fuel depth (⟨⟨rest, st.stream.hanging⟩, st.mol, st.rings⟩ : DState)
              md (nd + 1) state' prev as ai = res' →
            (0 < state' → ∃ p, prev = some p ∧ p < st.mol.atoms.length) →
            SimRes T st.stream.hanging md.isNone nd (rest.length + 1) st.mol.atoms.length res'
              (derive T sf (spend (bud md nd) 1) state' prev (rest.map (·.2)) ds) := by
          intro state' res' h' hp'
          have := ih depth _ md (nd + 1) state' prev as ai ds sf res' h' hrf hrsf hsim1 hp'
          rw [bud_add] at this
          exact this.mono (by omega) (by simp; omega) (Nat.le_refl _)
        -- termination of the instance right after the symbol
        have fin : ∀ (mol : Mol) (rings : List RingReq) (ds' : DS) (res' : Py (DState × Nat)),
            (do
              let __x ← consumeRest false (rest.length + 2) (⟨rest, st.stream.hanging⟩ : Stream) md (nd + 1)
              pure ((⟨__x.fst, mol, rings⟩ : DState), __x.snd) : Py (DState × Nat)) = res' →
            Sim T (⟨st.stream, mol, rings⟩ : DState) ds' →
            st.mol.atoms.length ≤ mol.atoms.length →
            SimRes T st.stream.hanging md.isNone nd (rest.length + 1) st.mol.atoms.length res'
              (.ok (skip (spend (bud md nd) 1) (rest.map (·.2)), ds')) := by
          intro mol rings ds' res' h' hs' hsz
          have := fin_sim' (nd0 := nd) (len0 := rest.length + 1) (size0 := st.mol.atoms.length)
            (s1 := st.stream) h' (by simp) hs' (by omega) (by simp; omega) hsz
          rw [bud_add] at this
          exact this
        split at hres
        · -- branch symbol
          rename_i htag
          split at hres
          · rename_i hbr
            subst hres
            have hc : classify T symbol = .invalid := by simp [classify, htag, hbr]
            rw [derive_invalid hb hc]
            simp [SimRes]
          · rename_i btype n hbr
            have hc : classify T symbol = .branch btype n := by simp [classify, htag, hbr]
            obtain ⟨hbt1, hbt3⟩ := processBranchSymbol_ok hbr
            split at hres
            · rename_i hle
              rw [derive_branch_skip hb hc hle]
              exact same _ _ hres hprev
            · rename_i hgt
              rw [nextBranchState_eq hbt1 hbt3 hgt, ok_bind, readIndex_eq] at hres
              dsimp only at hres
              by_cases hcond : st.stream.hanging = true ∧ rest.length < n
              · rw [if_pos hcond, error_bind] at hres
                subst hres
                exact Or.inl hcond.1
              · rw [if_neg hcond, ok_bind] at hres
                dsimp only at hres
                split at hres
                · subst hres; trivial
                · simp only [List.nil_append, indexValue_eq, Nat.zero_add] at hres
                  have hsim2 : Sim T (⟨⟨rest.drop n, st.stream.hanging⟩, st.mol, st.rings⟩ : DState) ds :=
                    ⟨hsim.mol, hsim.rings, hsim.qok, hsim.chain⟩
                  have hp2 : 0 < min (state - 1) btype → ∃ p, prev = some p ∧ p < st.mol.atoms.length :=
                    fun _ => hprev (by omega)
                  have hbud : bud (some (indexValue n (rest.map (·.2)) + 1)) 0
                      = some (indexValue n (rest.map (·.2)) + 1) := by simp [bud]
                  have hdl : (rest.drop n).length ≤ rest.length := by simp
                  rcases bind_res hres with ⟨e, he, rfl⟩ | ⟨⟨st2, nb⟩, h2, hres⟩
                  · have nest := ih (depth + 1) _ _ 0 _ prev _ ai ds sf _ he
                      (by simp only; omega) (by simp only; omega) hsim2 hp2
                    simp only [hbud, List.map_drop] at nest
                    apply SimRes.error_intro
                    rcases nest.error_elim with h | ⟨h1, h2⟩
                    · exact Or.inl h
                    · refine Or.inr ⟨h1, ?_⟩
                      rcases h2 with h2 | h2
                      · exact Or.inl h2
                      · exact Or.inr (derive_branch_err hb hc hgt h2)
                  · have nest := ih (depth + 1) _ _ 0 _ prev _ ai ds sf _ h2
                      (by simp only; omega) (by simp only; omega) hsim2 hp2
                    simp only [hbud, List.map_drop] at nest
                    obtain ⟨ds2, hn, hsim2', hh2, _, hlen2, hsz2, _⟩ := nest
                    simp only [Nat.zero_add] at hlen2 hsz2
                    have hp3 : 0 < state - min (state - 1) btype →
                        ∃ p, prev = some p ∧ p < st2.mol.atoms.length := by
                      intro _
                      obtain ⟨p, hp, hlt⟩ := hprev (by omega)
                      exact ⟨p, hp, by omega⟩
                    have fin2 := ih depth st2 md (nd + 1 + min n rest.length + nb) _ prev as ai ds2 sf res hres
                      (by omega) (by omega) hsim2' hp3
                    rw [derive_branch_ok hb hc hgt hn]
                    have hbeq : spend (spend (bud md nd) 1)
                        (min n (rest.map (·.2)).length + (((rest.map (·.2)).drop n).length
                          - (st2.stream.toks.map (·.2)).length))
                        = bud md (nd + 1 + min n rest.length + nb) := by
                      rw [spend_spend, ← bud_add]
                      congr 1
                      simp only [List.length_map, List.length_drop] at hlen2 ⊢
                      omega
                    rw [hbeq]
                    rw [hh2] at fin2
                    simp only [List.length_drop] at hlen2
                    exact fin2.mono (by omega) (by omega) hsz2
        · split at hres
          · -- ring symbol
            rename_i hnch hng
            split at hres
            · rename_i hrs
              subst hres
              have hc : classify T symbol = .invalid := by simp [classify, hnch, hng, hrs]
              rw [derive_invalid hb hc]
              simp [SimRes]
            · rename_i rtype n stereo hrs
              obtain ⟨ls, rs⟩ := stereo
              have hc : classify T symbol = .ring rtype n ls rs := by simp [classify, hnch, hng, hrs]
              obtain ⟨hrt1, hrt3⟩ := processRingSymbol_ok hrs
              split at hres
              · rename_i hs0
                have hs0' : state = 0 := by simpa using hs0
                subst hs0'
                rw [derive_ring_skip hb hc]
                exact same _ _ hres hprev
              · rename_i hs0
                have hs0' : state ≠ 0 := by simpa using hs0
                obtain ⟨p, rfl, hplt⟩ := hprev (by omega)
                rw [nextRingState_eq hs0', ok_bind, readIndex_eq] at hres
                dsimp only at hres
                by_cases hcond : st.stream.hanging = true ∧ rest.length < n
                · rw [if_pos hcond, error_bind] at hres
                  subst hres
                  exact Or.inl hcond.1
                · rw [if_neg hcond, ok_bind] at hres
                  dsimp only at hres
                  simp only [List.nil_append, indexValue_eq, Nat.zero_add] at hres
                  rw [getIdx_lt (by omega : p - (indexValue n (rest.map (·.2)) + 1) < st.mol.atoms.length),
                    ok_bind] at hres
                  rw [derive_ring hb hc hs0']
                  dsimp only
                  have hsimR : Sim T (⟨st.stream, st.mol, st.rings ++
                        [(p - (indexValue n (rest.map (·.2)) + 1), p, min rtype state, (ls, rs))]⟩ : DState)
                      { ds with queue := ds.queue ++ [{ a := p - (indexValue n (rest.map (·.2)) + 1), b := p,
                                                        order := min rtype state, ls := ls, rs := rs }] } := by
                    refine ⟨hsim.mol, ?_, ?_, hsim.chain⟩
                    · simp [hsim.rings, ringOf]
                    · intro r hr
                      simp only [List.mem_append, List.mem_singleton] at hr
                      rcases hr with hr | rfl
                      · exact hsim.qok r hr
                      · simp only; omega
                  have hbeq : spend (spend (bud md nd) 1) (min n (rest.map (·.2)).length)
                      = bud md (nd + 1 + min n rest.length) := by
                    rw [← bud_add, ← bud_add, List.length_map]
                  rw [hbeq]
                  by_cases hz : state - min rtype state = 0
                  · rw [if_pos hz] at hres
                    rw [if_pos hz]
                    dsimp only at hres
                    have := fin_sim' (nd0 := nd) (len0 := rest.length + 1) (size0 := st.mol.atoms.length)
                      (s1 := st.stream) hres (by simp) hsimR (by omega)
                      (by simp only [List.length_drop]; omega) (Nat.le_refl _)
                    simp only [List.map_drop] at this
                    exact this
                  · rw [if_neg hz] at hres
                    rw [if_neg hz]
                    dsimp only at hres
                    have := ih depth _ md (nd + 1 + min n rest.length) _ (some p) as ai _ sf res hres
                      (by simp only [List.length_drop]; omega) (by simp only [List.length_drop]; omega)
                      ⟨hsimR.mol, hsimR.rings, hsimR.qok, hsimR.chain⟩ (fun _ => ⟨p, rfl, hplt⟩)
                    simp only [List.map_drop] at this
                    exact this.mono (by omega) (by simp only [List.length_drop]; omega) (Nat.le_refl _)
          · split at hres
            · -- epsilon
              rename_i hnch hnng heps
              have hc : classify T symbol = .epsilon := by simp [classify, hnch, hnng, heps]
              split at hres
              · rename_i hs0
                have hs0' : state = 0 := by simpa using hs0
                subst hs0'
                rw [derive_eps0 hb hc]
                exact same _ _ hres hprev
              · rename_i hs0
                have hs0' : state ≠ 0 := by simpa using hs0
                rw [derive_eps hb hc hs0']
                exact fin _ _ _ _ hres hsim (Nat.le_refl _)
            · -- atom symbol
              rename_i hnch hnng hneps
              split at hres
              · rename_i hpa
                subst hres
                have hc : classify T symbol = .invalid := by simp [classify, hnch, hnng, hneps, hpa]
                rw [derive_invalid hb hc]
                simp [SimRes]
              · rename_i bondOrder stereo atom hpa
                have hc : classify T symbol = .atom bondOrder stereo atom := by
                  simp [classify, hnch, hnng, hneps, hpa]
                obtain ⟨hbO1, hbO3, hcap0⟩ := processAtomSymbol_ok hpa
                have hcapdef : (Atom.bondingCapacity T atom).toNat = cap T atom := rfl
                rw [hcapdef] at hres
                have hBlen : ds.mol.atoms.length = st.mol.atoms.length := by rw [hsim.mol.atoms]
                by_cases hs0 : state = 0
                · -- X_0: a new root
                  subst hs0
                  rw [nextAtomState_zero] at hres
                  simp only [beq_self_eq_true, if_true] at hres
                  rw [derive_root hb hc, hBlen]
                  have hsimA : Sim T (⟨st.stream, (st.mol.addAtom atom true (attrPush as (index + ai) symbol)).fst,
                      st.rings⟩ : DState) { ds with mol := ds.mol.addRoot atom } := by
                    refine ⟨hsim.mol.addRoot atom _ hcap0, hsim.rings, ?_, hsim.chain⟩
                    intro r hr
                    obtain ⟨q1, q2, q3⟩ := hsim.qok r hr
                    refine ⟨q1, ?_, q3⟩
                    simp only [Mol.addAtom, List.length_append, List.length_cons, List.length_nil]
                    omega
                  have hszA : st.mol.atoms.length ≤
                      (st.mol.addAtom atom true (attrPush as (index + ai) symbol)).fst.atoms.length := by
                    simp [Mol.addAtom]
                  by_cases hz : cap T atom = 0
                  · rw [if_pos hz] at hres
                    rw [if_pos hz]
                    dsimp only at hres
                    exact fin _ _ _ _ hres hsimA hszA
                  · rw [if_neg hz] at hres
                    rw [if_neg hz]
                    dsimp only at hres
                    have := ih depth _ md (nd + 1) _ _ as ai _ sf res hres hrf hrsf
                      ⟨hsimA.mol, hsimA.rings, hsimA.qok, hsimA.chain⟩
                      (fun _ => ⟨_, rfl, by simp [Mol.addAtom]⟩)
                    rw [bud_add] at this
                    exact this.mono (by omega) (by simp only; omega) hszA
                · rw [nextAtomState_pos hs0] at hres
                  dsimp only at hres
                  obtain ⟨p, rfl, hplt⟩ := hprev (by omega)
                  by_cases hμ : min bondOrder (min state (cap T atom)) = 0
                  · -- capacity 0: not added
                    have hcz : cap T atom = 0 := by omega
                    rw [hμ] at hres
                    simp only [beq_self_eq_true, if_true, hcz, Nat.sub_self, if_true] at hres
                    have hs0b : (state == 0) = false := by simpa using hs0
                    simp only [hs0b, Bool.false_eq_true, if_false] at hres
                    rw [derive_atom_none hb hc hs0 hμ]
                    exact fin _ _ _ _ hres hsim (Nat.le_refl _)
                  · have hμb : (min bondOrder (min state (cap T atom)) == 0) = false := by simpa using hμ
                    simp only [hμb, Bool.false_eq_true, if_false] at hres
                    rw [derive_atom hb hc hs0 hμ]
                    dsimp only
                    obtain ⟨m1, hm1⟩ := addAtomBond_run (m := st.mol) atom (attrPush as (index + ai) symbol)
                      (attrPush as (index + ai) symbol) (min bondOrder (min state (cap T atom))) stereo
                      hsim.mol.lenA hsim.mol.lenC hplt
                    have hidx : (st.mol.addAtom atom false (attrPush as (index + ai) symbol)).snd
                        = st.mol.atoms.length := rfl
                    rw [hidx, hm1, ok_bind] at hres
                    have hpA : p < st.mol.adj.length := by rw [hsim.mol.lenA]; exact hplt
                    have hpC : p < st.mol.counts.length := by rw [hsim.mol.lenC]; exact hplt
                    have hrow : st.mol.adj[p]? = some st.mol.adj[p] :=
                      List.getElem?_eq_getElem (by rw [hsim.mol.lenA]; exact hplt)
                    have hcnt : st.mol.counts[p]? = some st.mol.counts[p] :=
                      List.getElem?_eq_getElem (by rw [hsim.mol.lenC]; exact hplt)
                    obtain ⟨_, e1, e2, e3, e4⟩ := addAtomBond_eq hsim.mol.lenA hsim.mol.lenC hrow hcnt hm1
                    have hrel1 : MRel T m1 (ds.mol.addChained p atom
                        (min bondOrder (min state (cap T atom))) stereo) :=
                      hsim.mol.addChained hcap0 hrow hcnt (by omega) (by omega) e1 e2 e3 e4
                    have hsz1 : st.mol.atoms.length ≤ m1.atoms.length := by rw [e1]; simp
                    have hsimB : Sim T (⟨st.stream, m1, st.rings⟩ : DState)
                        (⟨ds.mol.addChained p atom (min bondOrder (min state (cap T atom))) stereo, ds.queue⟩ : DS) := by
                      refine ⟨hrel1, hsim.rings, ?_, ?_⟩
                      rotate_left
                      · intro e he
                        simp only [Build.addChained, List.mem_append, List.mem_singleton] at he
                        rcases he with he | rfl
                        · exact hsim.chain e he
                        · rfl
                      intro r hr
                      obtain ⟨q1, q2, q3⟩ := hsim.qok r hr
                      exact ⟨q1, by simp only; omega, q3⟩
                    rw [hBlen]
                    by_cases hz : cap T atom - min bondOrder (min state (cap T atom)) = 0
                    · rw [if_pos hz] at hres
                      rw [if_pos hz]
                      dsimp only at hres
                      exact fin _ _ _ _ hres hsimB hsz1
                    · rw [if_neg hz] at hres
                      rw [if_neg hz]
                      dsimp only at hres
                      have := ih depth _ md (nd + 1) _ _ as ai _ sf res hres hrf hrsf
                        ⟨hsimB.mol, hsimB.rings, hsimB.qok, hsimB.chain⟩
                        (fun _ => ⟨_, rfl, by rw [e1]; simp⟩)
                      rw [bud_add] at this
                      exact this.mono (by omega) (by simp only; omega) hsz1
