/-
  Decimal digit lemmas: Python's `str(n)` (`natToStr`), `int(s)` (`pyIntOfDigits`), the Unicode
  decimal class (`decimalVal?`, regex `\d`) restricted to ASCII.

  The generated table `Gen.decimalStarts` is used only through the side condition `AsciiDigitsOK`
  (the first run of decimal digits starts at `'0'` and every other run lies outside ASCII) and
  `Gen.intMaxStrDigits` only through `0 < Gen.intMaxStrDigits`; both are discharged by `decide`.
-/
import SelfiesVerif.Proofs.IndexCode

namespace SV

/-! ### side conditions on the generated tables -/

/-- `'0'.toNat = 48` is the FIRST start in `Gen.decimalStarts`, all other runs are non-ASCII. -/
structure AsciiDigitsOK : Prop where
  head : Gen.decimalStarts.head? = some 48
  tail : ∀ s ∈ Gen.decimalStarts.tail, 128 ≤ s

theorem asciiDigitsOK : AsciiDigitsOK where
  head := by decide
  tail := by decide +kernel

theorem intMaxStrDigits_pos : 0 < Gen.intMaxStrDigits := by decide

/-! ### ASCII character classes as code-point ranges -/

theorem char_le_iff (a b : Char) : a ≤ b ↔ a.toNat ≤ b.toNat := by
  simp only [Char.le_def, Char.toNat]
  exact UInt32.le_iff_toNat_le

theorem isAsciiDigit_iff (c : Char) : isAsciiDigit c = true ↔ 48 ≤ c.toNat ∧ c.toNat ≤ 57 := by
  simp only [isAsciiDigit, Bool.and_eq_true, decide_eq_true_eq, char_le_iff]
  exact Iff.rfl

theorem isAsciiUpper_iff (c : Char) : isAsciiUpper c = true ↔ 65 ≤ c.toNat ∧ c.toNat ≤ 90 := by
  simp only [isAsciiUpper, Bool.and_eq_true, decide_eq_true_eq, char_le_iff]
  exact Iff.rfl

theorem isAsciiLower_iff (c : Char) : isAsciiLower c = true ↔ 97 ≤ c.toNat ∧ c.toNat ≤ 122 := by
  simp only [isAsciiLower, Bool.and_eq_true, decide_eq_true_eq, char_le_iff]
  exact Iff.rfl

theorem isDigit19_iff (c : Char) : isDigit19 c = true ↔ 49 ≤ c.toNat ∧ c.toNat ≤ 57 := by
  simp only [isDigit19, Bool.and_eq_true, decide_eq_true_eq, char_le_iff]
  exact Iff.rfl

theorem isAsciiDigit_of_isDigit19 {c : Char} (h : isDigit19 c = true) : isAsciiDigit c = true := by
  rw [isDigit19_iff] at h; rw [isAsciiDigit_iff]; omega

theorem isAsciiDigit_eq_isDigit (c : Char) : isAsciiDigit c = c.isDigit := by
  rw [Bool.eq_iff_iff, isAsciiDigit_iff]
  simp only [Char.isDigit, Bool.and_eq_true, decide_eq_true_eq, ge_iff_le, UInt32.le_iff_toNat_le,
    Char.toNat]
  exact Iff.rfl

/-! ### `decimalVal?` on ASCII -/

theorem decimalVal?_lt_ten (c : Char) (v : Nat) (h : decimalVal? c = some v) : v < 10 := by
  unfold decimalVal? at h
  split at h
  · rename_i s hs
    have := List.find?_some hs
    simp only [Bool.and_eq_true, decide_eq_true_eq] at this
    injection h with h; omega
  · cases h

theorem decimalVal?_getD_lt_ten (c : Char) : (decimalVal? c).getD 0 < 10 := by
  cases h : decimalVal? c with
  | none => simp
  | some v => simpa using decimalVal?_lt_ten c v h

/-- on ASCII, `\d` is `[0-9]` with the usual values -/
theorem decimalVal?_ascii (ok : AsciiDigitsOK) (c : Char) (hc : c.toNat < 128) :
    decimalVal? c = if 48 ≤ c.toNat ∧ c.toNat ≤ 57 then some (c.toNat - 48) else none := by
  unfold decimalVal?
  have hhead := ok.head
  have htail := ok.tail
  cases hds : Gen.decimalStarts with
  | nil => rw [hds] at hhead; cases hhead
  | cons s0 tl =>
    rw [hds] at hhead htail
    simp only [List.head?_cons, Option.some.injEq] at hhead
    subst hhead
    simp only [List.tail_cons] at htail
    have hnone : tl.find? (fun s => decide (s ≤ c.toNat) && decide (c.toNat < s + 10)) = none := by
      rw [List.find?_eq_none]
      intro s hs
      have := htail s hs
      simp only [Bool.and_eq_true, decide_eq_true_eq, not_and]
      omega
    rw [List.find?_cons]
    by_cases h : 48 ≤ c.toNat ∧ c.toNat ≤ 57
    · have : (decide (48 ≤ c.toNat) && decide (c.toNat < 48 + 10)) = true := by
        simp only [Bool.and_eq_true, decide_eq_true_eq]; omega
      rw [this, if_pos h]
    · have : (decide (48 ≤ c.toNat) && decide (c.toNat < 48 + 10)) = false := by
        rw [Bool.eq_false_iff]
        simp only [ne_eq, Bool.and_eq_true, decide_eq_true_eq, not_and]; omega
      rw [this, if_neg h, hnone]

/-- `decimalVal?` of an ASCII digit character is its value -/
theorem decimalVal?_of_isAsciiDigit (ok : AsciiDigitsOK) {c : Char} (h : isAsciiDigit c = true) :
    decimalVal? c = some (c.toNat - 48) := by
  rw [isAsciiDigit_iff] at h
  rw [decimalVal?_ascii ok c (by omega), if_pos h]

theorem isDecimal_of_isAsciiDigit (ok : AsciiDigitsOK) {c : Char} (h : isAsciiDigit c = true) :
    isDecimal c = true := by
  simp [isDecimal, decimalVal?_of_isAsciiDigit ok h]

/-- an ASCII character that is not `[0-9]` is not a decimal digit -/
theorem isDecimal_ascii_false (ok : AsciiDigitsOK) {c : Char} (hc : c.toNat < 128)
    (h : isAsciiDigit c = false) : isDecimal c = false := by
  have h' : ¬ (48 ≤ c.toNat ∧ c.toNat ≤ 57) := by
    rw [← isAsciiDigit_iff, h]; simp
  simp [isDecimal, decimalVal?_ascii ok c hc, if_neg h']

/-! ### `natToStr` -/

theorem natToStr_lt_ten {n : Nat} (h : n < 10) : natToStr n = [Nat.digitChar n] :=
  Nat.toDigits_of_lt_base h

theorem natToStr_ge_ten {n : Nat} (h : 10 ≤ n) :
    natToStr n = natToStr (n / 10) ++ [Nat.digitChar (n % 10)] :=
  Nat.toDigits_of_base_le (by omega) h

theorem natToStr_ne_nil (n : Nat) : natToStr n ≠ [] := Nat.toDigits_ne_nil

/-- `str(n)` consists of ASCII digits -/
theorem natToStr_all_digits (n : Nat) : ∀ c ∈ natToStr n, isAsciiDigit c = true := by
  intro c hc
  rw [isAsciiDigit_eq_isDigit]
  exact Nat.isDigit_of_mem_toDigits (by omega) (by omega) hc

theorem digitChar_toNat {d : Nat} (h : d < 10) : (Nat.digitChar d).toNat = 48 + d :=
  Nat.toNat_digitChar_of_lt_ten h

theorem isDigit19_digitChar {d : Nat} (h0 : 0 < d) (h : d < 10) :
    isDigit19 (Nat.digitChar d) = true := by
  rw [isDigit19_iff, digitChar_toNat h]; omega

/-- `str(n)` for `n > 0` starts with a digit `1 … 9` (no leading zero) -/
theorem natToStr_pos_head (n : Nat) (hn : 0 < n) :
    ∃ d ds, natToStr n = d :: ds ∧ isDigit19 d = true := by
  induction n using Nat.strongRecOn with
  | _ n ih =>
    by_cases h : n < 10
    · exact ⟨_, [], natToStr_lt_ten h, isDigit19_digitChar hn h⟩
    · obtain ⟨d, ds, hds, hd⟩ := ih (n / 10) (Nat.div_lt_self hn (by omega))
        (Nat.div_pos (by omega) (by omega))
      refine ⟨d, ds ++ [Nat.digitChar (n % 10)], ?_, hd⟩
      rw [natToStr_ge_ten (by omega), hds]; rfl

/-- no leading `'0'` unless `n = 0` -/
theorem natToStr_head_zero (n : Nat) (h : (natToStr n).head? = some '0') : n = 0 := by
  by_cases hn : n = 0
  · exact hn
  · obtain ⟨d, ds, hds, hd⟩ := natToStr_pos_head n (by omega)
    rw [hds] at h
    simp only [List.head?_cons, Option.some.injEq] at h
    subst h
    exact absurd hd (by decide)

theorem natToStr_zero : natToStr 0 = ['0'] := Nat.toDigits_zero 10

/-- length bound: `n < 10 ^ k → len(str(n)) ≤ max k 1` -/
theorem natToStr_length_le (n k : Nat) (h : n < 10 ^ k) : (natToStr n).length ≤ max k 1 := by
  unfold natToStr
  rw [Nat.length_toDigits_le_iff (by omega) (by omega)]
  exact Nat.lt_of_lt_of_le h (Nat.pow_le_pow_right (by omega) (by omega))

theorem natToStr_length_le_iff (n k : Nat) (hk : 0 < k) : (natToStr n).length ≤ k ↔ n < 10 ^ k :=
  Nat.length_toDigits_le_iff (by omega) hk

/-! ### value of a digit string -/

theorem digitsVal_eq_hornerBE (ds : List Nat) : digitsVal ds = hornerBE 10 ds := rfl

theorem digitsVal_lt (ds : List Nat) (h : ∀ d ∈ ds, d < 10) : digitsVal ds < 10 ^ ds.length :=
  hornerBE_lt 10 ds h

theorem digitsVal_cons_zero (ds : List Nat) : digitsVal (0 :: ds) = digitsVal ds := by
  simp [digitsVal]

theorem digitsVal_replicate_zero_append (k : Nat) (ds : List Nat) :
    digitsVal (List.replicate k 0 ++ ds) = digitsVal ds := by
  induction k with
  | zero => rfl
  | succ k ih => rw [List.replicate_succ, List.cons_append, digitsVal_cons_zero, ih]

/-- the value `int()` gives to a character -/
def charVal (c : Char) : Nat := (decimalVal? c).getD 0

theorem charVal_lt_ten (c : Char) : charVal c < 10 := decimalVal?_getD_lt_ten c

theorem charVal_of_isAsciiDigit (ok : AsciiDigitsOK) {c : Char} (h : isAsciiDigit c = true) :
    charVal c = c.toNat - 48 := by
  simp [charVal, decimalVal?_of_isAsciiDigit ok h]

theorem foldl_digits_congr (l : List Char) (f g : Char → Nat) (h : ∀ c ∈ l, f c = g c) (init : Nat) :
    l.foldl (fun acc c => acc * 10 + f c) init = l.foldl (fun acc c => 10 * acc + g c) init := by
  induction l generalizing init with
  | nil => rfl
  | cons c l ih =>
    simp only [List.foldl_cons]
    rw [h c List.mem_cons_self, Nat.mul_comm init 10]
    exact ih (fun c hc => h c (List.mem_cons_of_mem _ hc)) _

/-- round trip on values: `int(str(n)) = n` at the level of `digitsVal`, for ALL `n` -/
theorem digitsVal_natToStr (ok : AsciiDigitsOK) (n : Nat) :
    digitsVal ((natToStr n).map charVal) = n := by
  have h1 : digitsVal ((natToStr n).map charVal)
      = (natToStr n).foldl (fun acc c => acc * 10 + charVal c) 0 := by
    simp only [digitsVal, List.foldl_map]
  rw [h1, foldl_digits_congr (natToStr n) charVal (fun c => c.toNat - '0'.toNat)
    (fun c hc => charVal_of_isAsciiDigit ok (natToStr_all_digits n c hc))]
  exact Nat.ofDigitChars_ten_toDigits

/-! ### `pyIntOfDigits` -/

theorem pyIntOfDigits_eq (s : Str) :
    pyIntOfDigits s = if s.length > Gen.intMaxStrDigits then none else some (digitsVal (s.map charVal)) :=
  rfl

/-- anything `int()` returns is below `10 ^ sys.get_int_max_str_digits()` -/
theorem pyIntOfDigits_lt (s : Str) (n : Nat) (h : pyIntOfDigits s = some n) :
    n < 10 ^ Gen.intMaxStrDigits := by
  rw [pyIntOfDigits_eq] at h
  split at h
  · cases h
  · injection h with h
    subst h
    have := digitsVal_lt (s.map charVal) (by
      intro d hd
      obtain ⟨c, _, rfl⟩ := List.mem_map.1 hd
      exact charVal_lt_ten c)
    rw [List.length_map] at this
    exact Nat.lt_of_lt_of_le this (Nat.pow_le_pow_right (by omega) (by omega))

/-- `int(str(n)) = n` as long as `str(n)` has at most `sys.get_int_max_str_digits()` digits -/
theorem pyIntOfDigits_natToStr (ok : AsciiDigitsOK) (n : Nat) (h : n < 10 ^ Gen.intMaxStrDigits) :
    pyIntOfDigits (natToStr n) = some n := by
  rw [pyIntOfDigits_eq, if_neg, digitsVal_natToStr ok]
  have := (natToStr_length_le_iff n _ intMaxStrDigits_pos).2 h
  omega

/-- … and `int()` refuses `str(n)` for larger `n` -/
theorem pyIntOfDigits_natToStr_big (n : Nat) (h : 10 ^ Gen.intMaxStrDigits ≤ n) :
    pyIntOfDigits (natToStr n) = none := by
  rw [pyIntOfDigits_eq, if_pos]
  have := (natToStr_length_le_iff n _ intMaxStrDigits_pos)
  omega

/-- leading zeros do not change the value -/
theorem pyIntOfDigits_leading_zeros (ok : AsciiDigitsOK) (k : Nat) (s : Str)
    (hlen : k + s.length ≤ Gen.intMaxStrDigits) :
    pyIntOfDigits (List.replicate k '0' ++ s) = pyIntOfDigits s := by
  have h0 : charVal '0' = 0 := by
    rw [charVal_of_isAsciiDigit ok (by decide)]; decide
  rw [pyIntOfDigits_eq, pyIntOfDigits_eq, if_neg (by simp; omega), if_neg (by omega)]
  rw [List.map_append, List.map_replicate, h0, digitsVal_replicate_zero_append]

end SV
