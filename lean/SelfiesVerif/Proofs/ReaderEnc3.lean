/-
  C10r, part 3: the graph of the reordered forest is the graph the reader builds from the decoder's
  molecule: same atoms, same roots, and every adjacency row is the decoder's row, bond for bond in
  the same order (`readAdj (finalMol f)`).
-/
import SelfiesVerif.Proofs.ReaderEnc2

namespace SV

/-! ### one bond: decoder record → reader record -/

/-- side condition on the generated table: `/` and `\` are the stereo bond characters -/
theorem stereo_table : Gen.smilesStereoBonds.contains '/' = true ∧ Gen.smilesStereoBonds.contains '\\' = true := by
  decide

theorem keepStereo_ok : ∀ (s : Option Char), okStereo s →
    (match s with
      | some c => if Gen.smilesStereoBonds.contains c then some c else none
      | none => none) = s := by
  intro s h
  rcases h with rfl | rfl | rfl
  · rfl
  · simp only [stereo_table.1, if_true]
  · simp only [stereo_table.2, if_true]

theorem filterStereo_ok (s : Option Char) (h : okStereo s) :
    s.filter (fun c => Gen.smilesStereoBonds.contains c) = s := by
  rcases h with rfl | rfl | rfl
  · rfl
  · simp only [Option.filter, stereo_table.1, if_true]
  · simp only [Option.filter, stereo_table.2, if_true]

theorem readStereo_eq (src dst o : Nat) (s : Option Char) (r : Bool) (a : Option (List Attribution))
    (ho : okOrder2 o) (hs : okStereo s) :
    readStereo ⟨src, dst, o / 2, if o = 2 then s else none, r, a⟩ = normS o s := by
  unfold readStereo normS
  rcases ho with rfl | rfl | rfl
  · simp only [if_true, Nat.div_self (by decide : 0 < 2)]
    exact keepStereo_ok s hs
  · simp
  · simp

theorem two_mul_half (o : Nat) (ho : okOrder2 o) : 2 * (o / 2) = o := by
  rcases ho with rfl | rfl | rfl <;> rfl

theorem readBond_recR (i : Nat) (r : RItem) (ho : okOrder2 r.2.1) (hs : okStereo r.2.2.1) :
    readBond (recR (closeOf i r)) = rbOf i (normR r) := by
  obtain ⟨p, o, s, s'⟩ := r
  simp only at ho hs
  show readBond ⟨i, p, o / 2, if o = 2 then s else none, true, none⟩ = ringBond i p o (normS o s)
  simp only [readBond, ringBond, two_mul_half o ho, readStereo_eq i p o s true none ho hs]

theorem readBond_recL (i : Nat) (r : RItem) (ho : okOrder2 r.2.1) (hs : okStereo r.2.2.1) :
    readBond (recL (openOf i r)) = rbOf i (normR r) := by
  obtain ⟨p, o, s, s'⟩ := r
  simp only at ho hs
  show readBond ⟨i, p, o / 2, if o = 2 then s else none, true, none⟩ = ringBond i p o (normS o s)
  simp only [readBond, ringBond, two_mul_half o ho, readStereo_eq i p o s true none ho hs]

theorem readBond_dirOf (b : PBond) (ha : b.attr = none) (ho : okOrder2 b.order2) (hs : okStereo b.stereo) :
    readBond (dirOf b) = normB b := by
  obtain ⟨src, dst, o, s, r, a⟩ := b
  simp only at ha ho hs
  subst ha
  show readBond ⟨src, dst, o / 2, if o = 2 then s.filter (fun c => Gen.smilesStereoBonds.contains c)
      else none, r, none⟩ = ⟨src, dst, o, normS o s, r, none⟩
  simp only [readBond, two_mul_half o ho, filterStereo_ok s hs, readStereo_eq src dst o s r none ho hs]

theorem Items.kidRow_attr (i : Nat) : ∀ (its : Items), ∀ b ∈ its.kidRow i, b.attr = none
  | .nil, _, h => by simp [Items.kidRow] at h
  | .ring _ _ _ _ rest, b, h => Items.kidRow_attr i rest b (by simpa [Items.kidRow] using h)
  | .child _ _ _ rest, b, h => by
    simp only [Items.kidRow, List.mem_cons] at h
    rcases h with rfl | h
    · rfl
    · exact Items.kidRow_attr i rest b h

/-! ### list facts -/

theorem pairwise_lt_of_le_of_nodup {α} (k : α → Nat) {l : List α}
    (h1 : l.Pairwise (fun a b => k a ≤ k b)) (h2 : (l.map k).Nodup) :
    l.Pairwise (fun a b => k a < k b) := by
  have h3 : l.Pairwise (fun a b => k a ≠ k b) := by
    unfold List.Nodup at h2
    exact List.pairwise_map.1 h2
  exact (h1.and h3).imp (fun ⟨a, b⟩ => by omega)

theorem nodup_of_pairwise_lt {α} (k : α → Nat) {l : List α}
    (h : l.Pairwise (fun a b => k a < k b)) : (l.map k).Nodup := by
  unfold List.Nodup
  rw [List.pairwise_map]
  exact h.imp (fun h => by omega)

/-! ### one row -/

theorem mem_rings_ok {f : PForest} (hk : f.kekulized = true) {n : NodeInfo} (hn : n ∈ f.nodes)
    (r : RItem) (hr : r ∈ n.items.rings) : okOrder2 r.2.1 ∧ okStereo r.2.2.1 := by
  obtain ⟨p, o, s, s'⟩ := r
  have := (PForest.kekulized_node hk hn).2.1 _ (Items.mem_rings_row n.idx n.items p o s s' hr)
  exact this

/-- **Row of the reordered node = the reader's copy of the decoder's row**, bond for bond. -/
theorem reord_row_eq {f : PForest} (hwf : f.wf = true) (hk : f.kekulized = true) {n : NodeInfo}
    (hn : n ∈ f.nodes) :
    n.reord.row = (ringRecs (ringQueue f) n.idx ++ n.chainRow).map readBond := by
  obtain ⟨hsplit, hpw⟩ := ringRecs_split hwf hn
  have hperm : (laterRecs f n.idx).Perm ((n.items.opens n.idx).map recL) := by
    have := (finalMol_row hwf hn).2.1
    rw [show (n.row.filter PBond.isOpening).map decDir = (n.items.opens n.idx).map recL from
      Items.filter_opening n.idx n.items] at this
    exact this
  have hok := mem_rings_ok hk hn
  rw [hsplit, NodeInfo.reord_row, List.map_append, List.map_append]
  unfold arrange
  rw [List.map_append]
  congr 1
  congr 1
  · -- closing ring items, written order
    rw [Items.closes_eq, filter_map_normR (fun p => !decide (n.idx < p)), List.map_map, List.map_map,
      List.map_map]
    apply List.map_congr_left
    intro r hr
    have := hok r (List.mem_filter.1 hr).1
    exact (readBond_recR n.idx r this.1 this.2).symm
  · -- opening ring items: both sides sorted by partner
    have hP : ((sortR ((n.items.rings.map normR).filter fun r => decide (n.idx < r.1))).map (rbOf n.idx)).Perm
        ((laterRecs f n.idx).map readBond) := by
      refine ((sortR_perm _).map _).trans ?_
      refine List.Perm.trans (List.Perm.of_eq ?_) (hperm.map readBond).symm
      rw [Items.opens_eq, filter_map_normR (fun p => decide (n.idx < p)), List.map_map, List.map_map,
        List.map_map]
      apply List.map_congr_left
      intro r hr
      have := hok r (List.mem_filter.1 hr).1
      exact (readBond_recL n.idx r this.1 this.2).symm
    have hS2 : ((laterRecs f n.idx).map readBond).Pairwise (fun a b => a.dst < b.dst) := by
      rw [List.pairwise_map]
      exact hpw
    have hS1le : ((sortR ((n.items.rings.map normR).filter fun r => decide (n.idx < r.1))).map
        (rbOf n.idx)).Pairwise (fun a b => a.dst ≤ b.dst) := by
      rw [List.pairwise_map]
      exact sortR_sorted _
    have hnd := (hP.map (fun b : PBond => b.dst)).nodup_iff.2
      (nodup_of_pairwise_lt (fun b : PBond => b.dst) hS2)
    have hS1 := pairwise_lt_of_le_of_nodup (fun b : PBond => b.dst) hS1le hnd
    exact List.Perm.eq_of_pairwise (fun a b _ _ hab hba => absurd hba (by omega)) hS1 hS2 hP
  · -- chain bonds, written order
    unfold NodeInfo.chainRow
    rw [List.map_map]
    apply List.map_congr_left
    intro b hb
    have hb' := Items.kidRow_sub_row _ _ _ hb
    have := (PForest.kekulized_node hk hn).2.1 b hb'
    exact (readBond_dirOf b (Items.kidRow_attr _ _ b hb) this.1 this.2).symm

/-! ### the whole graph -/

theorem graphOf_reord_atoms (f : PForest) : (graphOf f.reord).atoms = (finalMol f).atoms := by
  rw [graphOf_atoms, PForest.nodes_reord, List.map_map]
  rfl

theorem graphOf_reord_roots (f : PForest) : (graphOf f.reord).roots = (finalMol f).roots := by
  rw [graphOf_roots, PForest.roots_reord]
  rfl

/-- **Adjacency of the reordered forest = what the reader sees.** -/
theorem graphOf_reord_adj {f : PForest} (hwf : f.wf = true) (hk : f.kekulized = true) :
    (graphOf f.reord).adj = readAdj (finalMol f) := by
  rw [graphOf_adj, PForest.nodes_reord, List.map_map]
  unfold readAdj finalMol
  simp only [List.map_map]
  apply List.map_congr_left
  intro n hn
  simp only [Function.comp, reord_row_eq hwf hk hn, List.map_map]
  rfl

end SV
