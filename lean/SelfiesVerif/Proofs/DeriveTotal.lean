/-
  Totality, part 3: `deriveLoop` / `deriveFragments` fail only with `DecoderError` or
  `RecursionError`.  Every other failure branch of the model (`NonTermination`, `AttributeError`,
  `IndexError`, `AssertionError`) is unreachable, for all inputs.
-/
import SelfiesVerif.Proofs.DeriveSimple

namespace SV

-- `bind_err` on hypothesis `h`: first goal `h : x = .error e`, second goal continues
open Lean.Parser.Tactic in
syntax "bind_err_at " ident " with " rcasesPat : tactic
macro_rules
  | `(tactic| bind_err_at $h with $pat) =>
    `(tactic| (have h2 := bind_err $h; clear $h; rcases h2 with $h:ident | $pat))

theorem processBranchSymbol_ok {sym bt n} (h : processBranchSymbol sym = some (bt, n)) :
    1 ≤ bt ∧ bt ≤ 3 := by
  have key : ∀ e ∈ Gen.branchTable, 1 ≤ e.2.1 ∧ e.2.1 ≤ 3 := by decide +kernel
  obtain ⟨k, hk⟩ := lookup_mem _ _ _ h
  exact key _ hk

theorem nextBranchState_total {bt s : Nat} (h1 : 1 ≤ bt) (h3 : bt ≤ 3) (hs : 1 < s) :
    ∃ r, nextBranchState bt s = .ok r := by
  unfold nextBranchState
  rw [if_pos ⟨h1, h3⟩, if_pos hs]
  exact ⟨_, rfl⟩

theorem nextRingState_total {rt s : Nat} (hs : 0 < s) : ∃ r, nextRingState rt s = .ok r := by
  unfold nextRingState
  rw [if_pos hs]
  exact ⟨_, rfl⟩

theorem readIndex_total_of_not_hanging (compat : Bool) (n : Nat) (s : Stream) (acc : List (Option Str))
    (k : Nat) (h : s.hanging = false) : ∃ r, readIndex compat n s acc k = .ok r := by
  cases hr : readIndex compat n s acc k with
  | ok r => exact ⟨r, rfl⟩
  | error e =>
    have := (readIndex_err compat _ _ _ _ _ hr).2
    rw [h] at this; cases this

theorem getIdx_total {α} {l : List α} {i : Nat} (h : i < l.length) : getIdx l i = .ok l[i] := by
  unfold getIdx
  rw [List.getElem?_eq_getElem h]

theorem addAtomBond_total {m : Mol} {a : Atom} {attr attr'} {p bo : Nat} {st}
    (hA : m.adj.length = m.atoms.length) (hC : m.counts.length = m.atoms.length)
    (hp : p < m.atoms.length) :
    ∃ m', (m.addAtom a false attr).1.addBond p m.atoms.length bo st attr' = .ok m' := by
  have e1 : (m.adj ++ [[]])[p]? = some (m.adj[p]'(by omega)) := by
    rw [List.getElem?_append_left (by omega)]; exact List.getElem?_eq_getElem _
  have e2 : (m.counts ++ [0])[p]? = some (m.counts[p]'(by omega)) := by
    rw [List.getElem?_append_left (by omega)]; exact List.getElem?_eq_getElem _
  have e3 : ((m.counts ++ [0]).set p (m.counts[p]'(by omega) + bo))[m.atoms.length]? = some 0 := by
    rw [List.getElem?_set_ne (by omega), ← hC]; simp
  simp only [Mol.addBond, Mol.addAtom, pyAssert, hp, decide_true, if_true, Mol.appendOut, Mol.addCount,
    e1, e2, e3, bind, Except.bind, pure, Except.pure]
  exact ⟨_, rfl⟩

/-! ### nesting depth -/

/-- the token is dispatched to the branch case (after `modernize_symbol` if `compat`) -/
def isBranchTok (compat : Bool) (t : Nat × Str) : Bool :=
  sliceFromEnd (pulled compat t.2) 4 2 == ['c', 'h']

/-- number of branch symbols left in the stream: a bound on the recursion depth still to come -/
def branchCount (compat : Bool) (s : Stream) : Nat := (s.toks.filter (isBranchTok compat)).length

theorem branchCount_suffix {compat : Bool} {s' s : Stream} (h : s'.Suffix s) :
    branchCount compat s' ≤ branchCount compat s :=
  (h.2.filter _).length_le

theorem branchCount_le_length (compat : Bool) (s : Stream) : branchCount compat s ≤ s.toks.length :=
  List.length_filter_le _ _

theorem branchCount_next {compat : Bool} {s : Stream} {i : Nat} {sym : Str} {s' : Stream}
    (h : s.next compat = .ok (some ((i, sym), s')))
    (htag : (sliceFromEnd sym 4 2 == ['c', 'h']) = true) :
    branchCount compat s' + 1 = branchCount compat s := by
  obtain ⟨sym0, rest, h1, h2, rfl⟩ := Stream.next_ok h
  subst h2
  unfold branchCount
  rw [h1]
  simp only
  rw [List.filter_cons_of_pos (by simpa [isBranchTok] using htag)]
  rfl

/-- the only errors `deriveLoop` can end in: `DecoderError`, or `RecursionError` when at least
    `recursionBudget - depth` branch symbols are still ahead -/
def ErrOK (compat : Bool) (e : PyExc) (depth : Nat) (s : Stream) : Prop :=
  e = .DecoderError ∨ (e = .RecursionError ∧ recursionBudget ≤ depth + branchCount compat s)

theorem ErrOK.lift {compat : Bool} {e : PyExc} {d d' : Nat} {s s' : Stream} (h : ErrOK compat e d' s')
    (hle : d' + branchCount compat s' ≤ d + branchCount compat s) : ErrOK compat e d s := by
  rcases h with h | ⟨h1, h2⟩
  · exact Or.inl h
  · exact Or.inr ⟨h1, Nat.le_trans h2 hle⟩

theorem deriveLoop_err (T : Table) (compat : Bool) : ∀ (fuel depth : Nat) (st : DState) (maxDerive : Option Nat)
    (nDerived state : Nat) (prev : Option Nat) (attrStack : Option (List Attribution)) (attrIndex : Nat)
    (e : PyExc),
    deriveLoop T compat fuel depth st maxDerive nDerived state prev attrStack attrIndex = .error e →
    st.stream.toks.length < fuel → DInv T st.mol → RingsOK st.rings → Pre T st.mol state prev →
    ErrOK compat e depth st.stream := by
  intro fuel
  induction fuel with
  | zero => intro _ _ _ _ _ _ _ _ _ _ hf; omega
  | succ fuel ih =>
    intro depth st maxDerive nDerived state prev attrStack attrIndex e h hf hI hR hP
    unfold deriveLoop at h
    dsimp only at h
    split at h
    · exact Or.inl (fin_err (by omega) h).1
    · bind_err_at h with ⟨nx, hnx, h⟩
      · exact Or.inl (Stream.next_err h).1
      split at h
      · exact Or.inl (fin_err (by omega) h).1
      · rename_i index symbol stream'
        have hsx := Stream.next_suffix hnx
        have hf' : stream'.toks.length < fuel := by omega
        have hbc' := branchCount_suffix (compat := compat) hsx.1
        have hle' : depth + branchCount compat stream' ≤ depth + branchCount compat st.stream := by omega
        split at h
        · -- branch
          rename_i htag
          have hb1 := branchCount_next hnx htag
          split at h
          · cases h; exact Or.inl rfl
          · rename_i btype n hbr
            split at h
            · exact (ih _ _ _ _ _ _ _ _ _ h hf' hI hR hP).lift hle'
            · rename_i hst
              obtain ⟨hbt1, hbt3⟩ := processBranchSymbol_ok hbr
              obtain ⟨⟨binit, nextState⟩, hnb⟩ := nextBranchState_total hbt1 hbt3 (by omega : 1 < state)
              rw [hnb] at h
              simp only [bind, Except.bind] at h
              obtain ⟨hb1, hb2, hb3⟩ := nextBranchState_ok hnb
              have hP' : Pre T st.mol (binit + nextState) prev := by rw [hb3]; exact hP
              cases hri : readIndex compat n stream' [] 0 with
              | error e' =>
                rw [hri] at h; cases h
                exact Or.inl (readIndex_err compat _ _ _ _ _ hri).1
              | ok x =>
                obtain ⟨q, nRead, stream2⟩ := x
                rw [hri] at h
                dsimp only at h
                have hs2 := readIndex_ok compat _ _ _ _ _ _ _ hri
                have hf2 : stream2.toks.length < fuel := by have := hs2.length_le; omega
                have hbc2 := branchCount_suffix (compat := compat) hs2
                split at h
                · rename_i hdep
                  cases h; exact Or.inr ⟨rfl, by omega⟩
                · cases hrec : deriveLoop T compat fuel (depth + 1)
                      { stream := stream2, mol := st.mol, rings := st.rings } (some (q + 1)) 0 binit prev
                      (attrPush attrStack (index + attrIndex) symbol) attrIndex with
                  | error e' =>
                    rw [hrec] at h; cases h
                    have hle2 : depth + 1 + branchCount compat stream2 ≤ depth + branchCount compat st.stream := by
                      omega
                    exact (ih _ _ _ _ _ _ _ _ _ hrec hf2 hI hR (hP'.mono (by omega))).lift hle2
                  | ok x =>
                    obtain ⟨st1, nb⟩ := x
                    rw [hrec] at h
                    dsimp only at h
                    obtain ⟨i1, r1, f1⟩ := deriveLoop_inv T compat _ _ _ _ _ _ _ _ _ _ hrec hI hR
                      (hP'.mono (by omega))
                    have s1 := (deriveLoop_simple T compat _ _ _ _ _ _ _ _ _ _ hrec).suffix
                    dsimp only at s1
                    have hbc3 := branchCount_suffix (compat := compat) s1
                    have hle3 : depth + branchCount compat st1.stream ≤ depth + branchCount compat st.stream := by
                      omega
                    exact (ih _ _ _ _ _ _ _ _ _ h (by have := s1.length_le; omega) i1 r1 (hP'.after f1)).lift hle3
        · split at h
          · -- ring
            split at h
            · cases h; exact Or.inl rfl
            · rename_i rtype n stereo hrs
              split at h
              · exact (ih _ _ _ _ _ _ _ _ _ h hf' hI hR hP).lift hle'
              · rename_i hst
                have hs0 : 0 < state := by
                  have : state ≠ 0 := by simpa using hst
                  omega
                obtain ⟨⟨order, nextState⟩, hnr⟩ := nextRingState_total (rt := rtype) hs0
                rw [hnr] at h
                simp only [bind, Except.bind] at h
                obtain ⟨ho, _, hns⟩ := nextRingState_ok hnr
                have hrt := processRingSymbol_ok hrs
                cases hri : readIndex compat n stream' [] 0 with
                | error e' =>
                  rw [hri] at h; cases h
                  exact Or.inl (readIndex_err compat _ _ _ _ _ hri).1
                | ok x =>
                  obtain ⟨q, nRead, stream2⟩ := x
                  rw [hri] at h
                  dsimp only at h
                  have hs2 := readIndex_ok compat _ _ _ _ _ _ _ hri
                  have hf2 : stream2.toks.length < fuel := by have := hs2.length_le; omega
                  obtain ⟨p, ap, c, hprev, hap, hc, hcap⟩ := hP hs0
                  subst hprev
                  dsimp only at h
                  have hplt : p < st.mol.atoms.length := (List.getElem?_eq_some_iff.mp hap).1
                  rw [getIdx_total (show p - (q + 1) < st.mol.atoms.length by omega)] at h
                  dsimp only at h
                  have hR' : RingsOK (st.rings ++ [(p - (q + 1), p, order, stereo)]) := by
                    intro r hr
                    rcases List.mem_append.mp hr with hr | hr
                    · exact hR r hr
                    · simp at hr; subst hr
                      simp only
                      omega
                  split at h
                  · exact Or.inl (fin_err (by omega) h).1
                  · rename_i s'
                    obtain ⟨hs1, hs2'⟩ := hns s' rfl
                    have hbc2 := branchCount_suffix (compat := compat) hs2
                    have hle2 : depth + branchCount compat stream2 ≤ depth + branchCount compat st.stream := by
                      omega
                    exact (ih _ _ _ _ _ _ _ _ _ h hf2 hI hR' (hP.mono hs2')).lift hle2
          · split at h
            · -- epsilon
              split at h
              · rename_i hs0
                have hs0' : state = 0 := by simpa using hs0
                subst hs0'
                exact (ih _ _ _ _ _ _ _ _ _ h hf' hI hR hP).lift hle'
              · exact Or.inl (fin_err (by omega) h).1
            · -- atom
              split at h
              · cases h; exact Or.inl rfl
              · rename_i bondOrder stereo atom hpa
                obtain ⟨hbO1, hbO3, hcap0⟩ := processAtomSymbol_ok hpa
                generalize hna : nextAtomState bondOrder (Atom.bondingCapacity T atom).toNat state = nas at h
                obtain ⟨bo, ns⟩ := nas
                obtain ⟨n1, n2, n3, n4, n5, n6⟩ := nextAtomState_ok hna
                dsimp only at h
                split at h
                · rename_i hbo0
                  have hbo0' : bo = 0 := by simpa using hbo0
                  subst hbo0'
                  split at h
                  · -- new root
                    rename_i hs0
                    have hs0' : state = 0 := by simpa using hs0
                    subst hs0'
                    have hI1 := hI.addAtom_root atom (attrPush attrStack (index + attrIndex) symbol) hcap0
                    split at h
                    · exact Or.inl (fin_err (by omega) h).1
                    · rename_i s'
                      obtain ⟨e1, e2⟩ := n5 s' rfl
                      have hP1 : Pre T (st.mol.addAtom atom true (attrPush attrStack (index + attrIndex) symbol)).1 s'
                          (some (st.mol.addAtom atom true (attrPush attrStack (index + attrIndex) symbol)).2) := by
                        intro _
                        refine ⟨_, atom, 0, rfl, ?_, ?_, ?_⟩
                        · simp [Mol.addAtom]
                        · simp [Mol.addAtom, ← hI.lenC]
                        · omega
                      exact (ih _ _ _ _ _ _ _ _ _ h hf' hI1 hR hP1).lift hle'
                  · rename_i hs0
                    have hs0' : state ≠ 0 := by simpa using hs0
                    have hc0 := n6 rfl hbO1 hs0'
                    split at h
                    · exact Or.inl (fin_err (by omega) h).1
                    · rename_i s'
                      have := n5 s' rfl
                      omega
                · rename_i hbo0
                  have hbo1 : 1 ≤ bo := by
                    have : bo ≠ 0 := by simpa using hbo0
                    omega
                  obtain ⟨p, ap, c, hprev, hap, hc, hcap⟩ := hP (by omega)
                  subst hprev
                  dsimp only at h
                  have hplt : p < st.mol.atoms.length := (List.getElem?_eq_some_iff.mp hap).1
                  obtain ⟨mol1, hab⟩ := addAtomBond_total (a := atom)
                    (attr := attrPush attrStack (index + attrIndex) symbol)
                    (attr' := attrPush attrStack (index + attrIndex) symbol) (bo := bo) (st := stereo)
                    hI.lenA hI.lenC hplt
                  have hab' : (st.mol.addAtom atom false (attrPush attrStack (index + attrIndex) symbol)).1.addBond p
                      (st.mol.addAtom atom false (attrPush attrStack (index + attrIndex) symbol)).2 bo stereo
                      (attrPush attrStack (index + attrIndex) symbol) = .ok mol1 := hab
                  rw [hab'] at h
                  simp only [bind, Except.bind] at h
                  obtain ⟨row, hrow⟩ : ∃ row, st.mol.adj[p]? = some row :=
                    ⟨_, List.getElem?_eq_getElem (by rw [hI.lenA]; exact hplt)⟩
                  obtain ⟨_, e1, e2, e3, e4⟩ := addAtomBond_eq hI.lenA hI.lenC hrow hc hab
                  have hI1 : DInv T mol1 :=
                    hI.addAtomBond (a := atom) (by omega) hrow hc hap (by omega) hbo1 (by omega)
                      ⟨rfl, rfl, rfl, rfl⟩ e1 e2 e3 e4
                  have hC := hI.lenC
                  split at h
                  · exact Or.inl (fin_err (by omega) h).1
                  · rename_i s'
                    obtain ⟨e5, e6⟩ := n5 s' rfl
                    have hP1 : Pre T mol1 s' (some st.mol.atoms.length) := by
                      intro _
                      refine ⟨_, atom, bo, rfl, ?_, ?_, ?_⟩
                      · rw [e1]; simp
                      · rw [e4, ← hC, ← List.length_set (as := st.mol.counts) (i := p) (a := c + bo)]
                        simp
                      · omega
                    exact (ih _ _ _ _ _ _ _ _ _ h hf' hI1 hR hP1).lift hle'

theorem deriveFragments_err (T : Table) (compat attrib : Bool) :
    ∀ (frags : List Str) (m : Mol) (rings : List RingReq) (ai : Nat) (e : PyExc),
    deriveFragments T compat attrib frags m rings ai = .error e →
    DInv T m → RingsOK rings →
    e = .DecoderError ∨ (e = .RecursionError ∧
      ∃ frag ∈ frags, recursionBudget ≤ branchCount compat (tokenizeFragment frag)) := by
  intro frags
  induction frags with
  | nil =>
    intro m rings ai e h
    simp only [deriveFragments] at h
    cases h
  | cons s rest ih =>
    intro m rings ai e h hI hR
    simp only [deriveFragments] at h
    bind_err_at h with ⟨⟨st, n⟩, h1, h⟩
    · rcases deriveLoop_err T compat _ _ _ _ _ _ _ _ _ _ h (Nat.lt_succ_self _) hI hR
        (fun h0 => absurd h0 (by omega)) with h | ⟨h1, h2⟩
      · exact Or.inl h
      · exact Or.inr ⟨h1, s, List.mem_cons_self, by simpa using h2⟩
    · have g := deriveLoop_inv T compat _ _ _ _ _ _ _ _ _ _ h1 hI hR (fun h0 => absurd h0 (by omega))
      rcases ih _ _ _ _ h g.1 g.2.1 with h | ⟨h1, f, hf, h2⟩
      · exact Or.inl h
      · exact Or.inr ⟨h1, f, List.mem_cons_of_mem _ hf, h2⟩

end SV
