/-
  The derive phase of the decoder (`deriveLoop`, `deriveFragments`) preserves the
  well-formedness of the molecule: no ring bonds yet, chain bonds go from smaller to larger
  index, the tracked counts equal the true bond sums and respect the bonding capacities.
-/
import SelfiesVerif.Proofs.GraphSum

namespace SV

theorem bind_okD {α β} {x : Py α} {f : α → Py β} {r : β} :
    (x >>= f) = .ok r → ∃ a, x = .ok a ∧ f a = .ok r := by
  cases x with
  | error e => intro h; cases h
  | ok a => intro h; exact ⟨a, rfl, h⟩

theorem lookup_mem {α β} [BEq α] (k : α) : ∀ (l : List (α × β)) (v : β),
    lookup k l = some v → ∃ k', (k', v) ∈ l
  | [], _, h => by simp [lookup] at h
  | (k', v') :: rest, v, h => by
    simp only [lookup] at h
    split at h
    · cases h; exact ⟨k', by simp⟩
    · obtain ⟨k'', hk⟩ := lookup_mem k rest v h
      exact ⟨k'', by simp [hk]⟩

theorem bondOrder2_range (c : Option Char) : 1 ≤ bondOrder2 c / 2 ∧ bondOrder2 c / 2 ≤ 3 := by
  have key : ∀ e ∈ Gen.smilesBondOrders2, 2 ≤ e.2 ∧ e.2 ≤ 7 := by decide
  unfold bondOrder2
  cases c with
  | none => simp
  | some c =>
    simp only
    cases h : lookup c Gen.smilesBondOrders2 with
    | none => simp
    | some v =>
      obtain ⟨k', hk⟩ := lookup_mem _ _ _ h
      have := key _ hk
      simp only [Option.getD_some]
      omega

theorem processAtomSelfiesNoCache_order {sym bi a} (h : processAtomSelfiesNoCache sym = some (bi, a)) :
    ∃ c, bi.1 = bondOrder2 c / 2 := by
  unfold processAtomSelfiesNoCache at h
  simp only [smilesToBond] at h
  repeat' split at h
  all_goals (try cases h)
  all_goals exact ⟨_, rfl⟩

structure DInv (T : Table) (m : Mol) : Prop where
  lenA : m.adj.length = m.atoms.length
  lenC : m.counts.length = m.atoms.length
  bonds : ∀ (k : Nat) (row : List DirBond), m.adj[k]? = some row → ∀ b ∈ row,
    b.src = k ∧ k < b.dst ∧ b.dst < m.atoms.length ∧ 1 ≤ b.order ∧ b.order ≤ 3 ∧ b.ring = false
  nodup : ∀ (k : Nat) (row : List DirBond), m.adj[k]? = some row → row.Pairwise (fun b b' => b.dst ≠ b'.dst)
  counts : ∀ i, i < m.atoms.length → m.counts[i]? = some (bondSum m.adj i)
  cap : ∀ (i : Nat) (a : Atom) (c : Nat), m.atoms[i]? = some a → m.counts[i]? = some c → (c : Int) ≤ a.bondingCapacity T
  rootsLt : ∀ r ∈ m.roots, r < m.atoms.length
  forest : ∀ i, i < m.atoms.length → chainIn m.adj i = if i ∈ m.roots then 0 else 1
  rootsSorted : m.roots.Pairwise (· < ·)

theorem DInv.wsum_zero {T m} (h : DInv T m) (f : DirBond → Nat)
    (hf : ∀ b : DirBond, b.src < b.dst → b.dst < m.atoms.length → f b = 0) : wsum f m.adj = 0 := by
  apply wsum_eq_zero
  intro row hrow b hb
  obtain ⟨k, hk⟩ := List.mem_iff_getElem?.mp hrow
  have := h.bonds k row hk b hb
  exact hf b (by omega) (by omega)

theorem DInv.bondSum_ge {T m} (h : DInv T m) {i} (hi : m.atoms.length ≤ i) : bondSum m.adj i = 0 := by
  apply h.wsum_zero
  intro b h1 h2
  simp only [bw]; rw [if_neg]; omega

theorem DInv.chainIn_ge {T m} (h : DInv T m) {i} (hi : m.atoms.length ≤ i) : chainIn m.adj i = 0 := by
  apply h.wsum_zero
  intro b h1 h2
  simp only [cw]; rw [if_neg]; omega

theorem DInv_empty (T) : DInv T {} := by
  constructor <;> simp

/-- a new root atom -/
theorem DInv.addAtom_root {T m} (h : DInv T m) (a : Atom) (attr) (ha : 0 ≤ a.bondingCapacity T) :
    DInv T (m.addAtom a true attr).1 := by
  have hz := h.bondSum_ge (Nat.le_refl _)
  have hz2 := h.chainIn_ge (Nat.le_refl _)
  constructor
  · simp [Mol.addAtom, h.lenA]
  · simp [Mol.addAtom, h.lenC]
  · intro k row hk b hb
    simp only [Mol.addAtom] at hk ⊢
    rw [List.getElem?_append] at hk
    split at hk
    · obtain ⟨h1, h2, h3, h4, h5, h6⟩ := h.bonds k row hk b hb
      simp only [List.length_append, List.length_cons, List.length_nil]
      exact ⟨h1, h2, by omega, h4, h5, h6⟩
    · rw [List.getElem?_singleton] at hk
      split at hk
      · cases hk; cases hb
      · cases hk
  · intro k row hk
    simp only [Mol.addAtom] at hk
    rw [List.getElem?_append] at hk
    split at hk
    · exact h.nodup k row hk
    · rw [List.getElem?_singleton] at hk
      split at hk
      · cases hk; exact List.Pairwise.nil
      · cases hk
  · intro i hi
    simp only [Mol.addAtom, List.length_append, List.length_cons, List.length_nil] at hi ⊢
    simp only [bondSum, wsum_append_empty]
    rw [List.getElem?_append]
    split
    · rename_i hlt; rw [h.lenC] at hlt; exact h.counts i hlt
    · rename_i hge; rw [h.lenC] at hge
      have : i = m.atoms.length := by omega
      subst this
      simp only [bondSum] at hz
      simp [h.lenC, hz]
  · intro i a' c h1 h2
    simp only [Mol.addAtom] at h1 h2
    rw [List.getElem?_append] at h1 h2
    rw [h.lenC] at h2
    split at h1
    · rw [if_pos (by assumption)] at h2; exact h.cap i a' c h1 h2
    · rw [if_neg (by assumption)] at h2
      rw [List.getElem?_singleton] at h1 h2
      split at h1
      · rw [if_pos (by assumption)] at h2; cases h1; cases h2; simpa using ha
      · cases h1
  · intro r hr
    simp only [Mol.addAtom, if_true, List.mem_append, List.mem_singleton, List.length_append,
      List.length_cons, List.length_nil] at hr ⊢
    rcases hr with hr | hr
    · have := h.rootsLt r hr; omega
    · omega
  · intro i hi
    simp only [Mol.addAtom, List.length_append, List.length_cons, List.length_nil, if_true,
      List.mem_append, List.mem_singleton] at hi ⊢
    simp only [chainIn, wsum_append_empty]
    by_cases hlt : i < m.atoms.length
    · have := h.forest i hlt
      simp only [chainIn] at this
      rw [this]
      have hne : i ≠ m.atoms.length := by omega
      simp [hne]
    · have : i = m.atoms.length := by omega
      subst this
      simp only [chainIn] at hz2
      simp [hz2]
  · simp only [Mol.addAtom, if_true]
    rw [List.pairwise_append]
    exact ⟨h.rootsSorted, by simp, fun x hx y hy => by
      have := h.rootsLt x hx; simp at hy; omega⟩

theorem addAtomBond_eq {m : Mol} {a : Atom} {attr attr'} {p bo : Nat} {st} {m' : Mol}
    {row : List DirBond} {c : Nat}
    (hA : m.adj.length = m.atoms.length) (hC : m.counts.length = m.atoms.length)
    (hrow : m.adj[p]? = some row) (hc : m.counts[p]? = some c)
    (h : (m.addAtom a false attr).1.addBond p m.atoms.length bo st attr' = .ok m') :
    p < m.atoms.length ∧ m'.atoms = m.atoms ++ [a] ∧ m'.roots = m.roots ∧
    m'.adj = m.adj.set p (row ++ [{ src := p, dst := m.atoms.length, order := bo, stereo := st,
                                     ring := false, attr := attr' }]) ++ [[]] ∧
    m'.counts = m.counts.set p (c + bo) ++ [bo] := by
  have hp : p < m.atoms.length := by
    have := (List.getElem?_eq_some_iff.mp hrow).1; omega
  simp only [Mol.addBond, Mol.addAtom, pyAssert, hp, decide_true, if_true] at h
  have e1 : (m.adj ++ [[]])[p]? = some row := by
    rw [List.getElem?_append_left (by omega)]; exact hrow
  have e2 : (m.counts ++ [0])[p]? = some c := by
    rw [List.getElem?_append_left (by omega)]; exact hc
  have e3 : ((m.counts ++ [0]).set p (c + bo))[m.atoms.length]? = some 0 := by
    rw [List.getElem?_set_ne (by omega), ← hC]; simp
  have e4 : (m.counts ++ [0]).set p (c + bo) = m.counts.set p (c + bo) ++ [0] := by
    rw [List.set_append_left _ _ (by omega)]
  simp only [Mol.appendOut, Mol.addCount, e1, e2, e3, bind, Except.bind, pure, Except.pure] at h
  cases h
  refine ⟨hp, rfl, by simp, ?_, ?_⟩
  · simp only; rw [List.set_append_left _ _ (by omega)]
  · simp only; rw [e4, ← hC, ← List.length_set (as := m.counts) (i := p) (a := c + bo)]
    simp

theorem wsum_addBond (f) (adj : List (List DirBond)) (p : Nat) (row : List DirBond) (b : DirBond)
    (hrow : adj[p]? = some row) : wsum f (adj.set p (row ++ [b]) ++ [[]]) = wsum f adj + f b := by
  have := wsum_set f adj p row (row ++ [b]) hrow
  rw [wsum_append_empty, rsum_snoc] at *
  omega

theorem DInv.addAtomBond {T m} (h : DInv T m) {a : Atom} {p bo c : Nat} {row : List DirBond}
    {ap : Atom} {m' : Mol} {b : DirBond}
    (ha : (bo : Int) ≤ a.bondingCapacity T)
    (hrow : m.adj[p]? = some row) (hc : m.counts[p]? = some c) (hap : m.atoms[p]? = some ap)
    (hcap : (c : Int) + bo ≤ ap.bondingCapacity T) (hbo1 : 1 ≤ bo) (hbo3 : bo ≤ 3)
    (hb : b.src = p ∧ b.dst = m.atoms.length ∧ b.order = bo ∧ b.ring = false)
    (e1 : m'.atoms = m.atoms ++ [a]) (e2 : m'.roots = m.roots)
    (e3 : m'.adj = m.adj.set p (row ++ [b]) ++ [[]])
    (e4 : m'.counts = m.counts.set p (c + bo) ++ [bo]) : DInv T m' := by
  have hp : p < m.atoms.length := by
    have := (List.getElem?_eq_some_iff.mp hrow).1; have := h.lenA; omega
  have hA := h.lenA
  have hC := h.lenC
  have rows : ∀ (k : Nat) (row' : List DirBond), m'.adj[k]? = some row' →
      (k = p ∧ row' = row ++ [b]) ∨ (k ≠ p ∧ m.adj[k]? = some row') ∨ row' = [] := by
    intro k row' hk
    rw [e3, List.getElem?_append] at hk
    split at hk
    · rw [List.getElem?_set] at hk
      split at hk
      · subst_vars; rw [if_pos (by omega)] at hk; cases hk; exact Or.inl ⟨rfl, rfl⟩
      · exact Or.inr (Or.inl ⟨by omega, hk⟩)
    · rw [List.getElem?_singleton] at hk
      split at hk
      · cases hk; exact Or.inr (Or.inr rfl)
      · cases hk
  have hsum : ∀ f, wsum f m'.adj = wsum f m.adj + f b := by
    intro f; rw [e3]; exact wsum_addBond f _ _ _ _ hrow
  obtain ⟨hb1, hb2, hb3, hb4⟩ := hb
  have hcnt : ∀ i, m'.counts[i]? =
      if i = p then some (c + bo) else if i = m.atoms.length then some bo else m.counts[i]? := by
    intro i
    rw [e4, List.getElem?_append, List.length_set, hC]
    by_cases h1 : i = p
    · subst h1; simp [hp, hC]
    · rw [if_neg h1]
      by_cases h2 : i = m.atoms.length
      · subst h2; simp
      · rw [if_neg h2]
        split
        · rw [List.getElem?_set_ne (by omega)]
        · rw [List.getElem?_eq_none (by simp; omega), List.getElem?_eq_none (by omega)]
  constructor
  · rw [e3, e1]; simp [hA]
  · rw [e4, e1]; simp [hC]
  · intro k row' hk b' hb'
    rw [e1]; simp only [List.length_append, List.length_cons, List.length_nil]
    rcases rows k row' hk with ⟨rfl, rfl⟩ | ⟨_, hk'⟩ | rfl
    · rcases List.mem_append.mp hb' with hb' | hb'
      · obtain ⟨h1, h2, h3, h4, h5, h6⟩ := h.bonds _ row hrow b' hb'
        exact ⟨h1, h2, by omega, h4, h5, h6⟩
      · simp at hb'; subst hb'
        exact ⟨hb1, by omega, by omega, by omega, by omega, hb4⟩
    · obtain ⟨h1, h2, h3, h4, h5, h6⟩ := h.bonds k row' hk' b' hb'
      exact ⟨h1, h2, by omega, h4, h5, h6⟩
    · cases hb'
  · intro k row' hk
    rcases rows k row' hk with ⟨rfl, rfl⟩ | ⟨_, hk'⟩ | rfl
    · rw [List.pairwise_append]
      refine ⟨h.nodup _ row hrow, by simp, ?_⟩
      intro x hx y hy
      simp at hy; subst hy
      have := h.bonds _ row hrow x hx
      omega
    · exact h.nodup k row' hk'
    · exact List.Pairwise.nil
  · intro i hi
    rw [e1] at hi; simp only [List.length_append, List.length_cons, List.length_nil] at hi
    rw [hcnt i]
    simp only [bondSum, hsum]
    by_cases h1 : i = p
    · subst h1
      have := h.counts i hp
      rw [hc] at this; cases this
      simp [bw, hb1, hb3, bondSum]
    · rw [if_neg h1]
      by_cases h2 : i = m.atoms.length
      · subst h2
        have := h.bondSum_ge (Nat.le_refl m.atoms.length)
        simp only [bondSum] at this
        simp [bw, hb2, hb3, hb4, this]
      · rw [if_neg h2, h.counts i (by omega)]
        have : bw i b = 0 := by simp only [bw]; rw [if_neg]; omega
        simp [bondSum, this]
  · intro i a' c' h1 h2
    rw [hcnt i] at h2
    rw [e1, List.getElem?_append] at h1
    by_cases hip : i = p
    · subst hip
      rw [if_pos rfl] at h2; cases h2
      rw [if_pos hp, hap] at h1; cases h1
      exact_mod_cast hcap
    · rw [if_neg hip] at h2
      by_cases his : i = m.atoms.length
      · subst his
        rw [if_pos rfl] at h2; cases h2
        simp at h1; subst h1; exact ha
      · rw [if_neg his] at h2
        split at h1
        · exact h.cap i a' c' h1 h2
        · rw [List.getElem?_singleton] at h1
          split at h1
          · omega
          · cases h1
  · intro r hr
    rw [e2] at hr; rw [e1]
    have := h.rootsLt r hr
    simp; omega
  · intro i hi
    rw [e1] at hi; simp only [List.length_append, List.length_cons, List.length_nil] at hi
    rw [e2]
    simp only [chainIn, hsum]
    by_cases h2 : i = m.atoms.length
    · subst h2
      have := h.chainIn_ge (Nat.le_refl m.atoms.length)
      simp only [chainIn] at this
      have hnr : m.atoms.length ∉ m.roots := fun hr => by have := h.rootsLt _ hr; omega
      simp [cw, hb2, hb4, this, hnr]
    · have := h.forest i (by omega)
      simp only [chainIn] at this
      have hz : cw i b = 0 := by simp only [cw]; rw [if_neg]; omega
      rw [this, hz]; simp
  · rw [e2]; exact h.rootsSorted
end SV
