/-
  Facts about the runtime primitives of `Generated/PyRt.lean` (the vocabulary of the translated
  code), in the form that the shape-insensitive proofs of `GenEq2`–`GenEq4` rewrite with.
-/
import SelfiesVerif.Generated.PyRt

namespace SV.PyRt
open SV

/-! ### arithmetic on natural arguments -/

theorem floorDiv_natCast (n b : Nat) (hb : b ≠ 0) :
    floorDiv (n : Int) (b : Int) = .ok ((n / b : Nat) : Int) := by
  have : (b : Int) ≠ 0 := by omega
  simp only [floorDiv, this, if_false]
  rw [Int.fdiv_eq_ediv_of_nonneg _ (by omega)]
  rfl

theorem mod_natCast (n b : Nat) (hb : b ≠ 0) :
    mod (n : Int) (b : Int) = .ok ((n % b : Nat) : Int) := by
  have : (b : Int) ≠ 0 := by omega
  simp only [mod, this, if_false]
  rw [Int.fmod_eq_emod_of_nonneg _ (by omega)]
  rfl

theorem divmod_natCast (n b : Nat) (hb : b ≠ 0) :
    divmod (n : Int) (b : Int) = .ok (((n / b : Nat) : Int), ((n % b : Nat) : Int)) := by
  have : (b : Int) ≠ 0 := by omega
  simp only [divmod, this, if_false]
  rw [Int.fdiv_eq_ediv_of_nonneg _ (by omega), Int.fmod_eq_emod_of_nonneg _ (by omega)]
  rfl

/-! ### sequences -/

theorem index_natCast {α} (l : List α) (n : Nat) : index l (n : Int) = getIdx l n := by
  have : (0 : Int) ≤ (n : Int) := by omega
  simp only [index, this, if_true, Int.toNat_natCast]

theorem index_zero {α} (l : List α) : index l (0 : Int) = getIdx l 0 := index_natCast l 0

/-! ### dictionaries -/

theorem dictGet?_some (d : List (Str × Nat)) (s : Str) :
    dictGet? d (some s) = (lookup s d).map (fun (n : Nat) => (n : Int)) := by
  simp only [dictGet?]
  cases lookup s d <;> rfl

theorem dictGet?_none (d : List (Str × Nat)) : dictGet? d none = none := rfl

end SV.PyRt
