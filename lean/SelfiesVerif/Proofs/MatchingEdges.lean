/-
  C05 (sigma skeleton, unconditional): what survives of `find_perfect_matching` and `kekulize`
  on NON-bipartite aromatic systems, where the blossom-free BFS can return a list that is not a
  matching (finding F9, `C05_soundness_false`).

  1. `findPerfectMatching_edges` (EdgeOnly): whatever list `find_perfect_matching(g)` returns, on
     every simple graph and for every tape, every entry `mt[i] = j` is along an EDGE `i – j` of
     `g` (and `j` is in range, and no entry is `None`).  No bipartiteness, no soundness assumption.
     (The invariant behind it is `C09.WeakValid`, Proofs/EncTotalMatch.lean: the greedy phase pairs
     adjacent vertices; consecutive vertices of the BFS path are adjacent; a flip along ANY walk,
     simple or not, writes only pairs of consecutive walk vertices.)

  2. `kekulize_touches_only_ds`: a successful `kekulize()` on a well-formed parsed graph changes
     the stored bond records by an order map `G` and nothing else, where `G` keeps the order of
     every bond that is not aromatic (order 1.5, `order2 = 3`) and turns every aromatic bond into a
     single or a double bond.  Phase 2 (`update_bond_order(a, b, 2)` for the pairs of the list) only
     ever reaches pairs that are edges of the pruned subgraph (item 1), and those are aromatic bonds
     between kept atoms — so even an unsound list cannot touch a non-aromatic bond.
-/
import SelfiesVerif.Proofs.EncTotalKek
import SelfiesVerif.Proofs.KekulizeEnd

namespace SV
open C09

/-! ### 1. EdgeOnly -/

/-- **EdgeOnly.**  On a simple graph, for every tape: if `find_perfect_matching` returns a list,
    every entry of it is along an edge of the graph, in range, and no entry is `None`. -/
theorem findPerfectMatching_edges {g : Graph} (hg : GraphOK g) {tape : List Nat} {mt : Matching}
    (h : findPerfectMatching g tape = .ok (some mt)) :
    mt.length = g.length ∧
    (∀ i j, mt[i]? = some (some j) → j < g.length ∧ Adj g i j ∧ Adj g j i) ∧
    (∀ i, i < g.length → ∃ j, mt[i]? = some (some j)) := by
  rcases findPerfectMatching_total hg tape with h' | ⟨m, h', hw, hnone⟩ | ⟨h', _⟩
  · rw [h] at h'; cases h'
  · rw [h] at h'
    injection h' with h'
    injection h' with h'
    subst h'
    refine ⟨hw.length_eq, fun i j hij => ?_, fun i hi => ?_⟩
    · obtain ⟨h1, h2, _⟩ := hw.matched i j hij
      exact ⟨h1, h2, hg.symm _ _ h2⟩
    · have hi' : i < mt.length := hw.length_eq ▸ hi
      cases hx : mt[i] with
      | none => exact absurd (by rw [List.getElem?_eq_getElem hi', hx]) (hnone i)
      | some j => exact ⟨j, by rw [List.getElem?_eq_getElem hi', hx]⟩
  · rw [h] at h'; cases h'

/-- EdgeOnly in the adjacency-list form: `j ∈ g[i]` -/
theorem findPerfectMatching_edges_mem {g : Graph} (hg : GraphOK g) {tape : List Nat} {mt : Matching}
    (h : findPerfectMatching g tape = .ok (some mt)) (i j : Nat) (hij : mt[i]? = some (some j)) :
    j < g.length ∧ i < g.length ∧ ∃ l, g[i]? = some l ∧ j ∈ l := by
  obtain ⟨hlen, hed, _⟩ := findPerfectMatching_edges hg h
  obtain ⟨h1, h2, _⟩ := hed i j hij
  exact ⟨h1, hlen ▸ lt_of_getElem?_some hij, h2⟩

/-- the result is `MatchingUsable` (restated for use below) -/
theorem findPerfectMatching_usable {g : Graph} (hg : GraphOK g) {tape : List Nat} {mt : Matching}
    (h : findPerfectMatching g tape = .ok (some mt)) : MatchingUsable g mt := by
  rcases findPerfectMatching_total hg tape with h' | ⟨m, h', hu⟩ | ⟨h', _⟩
  · rw [h] at h'; cases h'
  · rw [h] at h'
    injection h' with h'
    injection h' with h'
    subst h'
    exact hu
  · rw [h] at h'; cases h'

/-! ### 2. `kekulize` touches only the delocalisation subgraph -/

/-- the order map of a successful kekulization: non-aromatic orders stay, aromatic ones become
    single or double, both copies of a ring bond alike -/
structure SigmaOrd (m : PMol) (G : PBond → Nat) : Prop where
  ringSym : RingSym m.adj G
  keep : ∀ i, ∀ b ∈ rowAt m.adj i, b.order2 ≠ 3 → G b = b.order2
  arom : ∀ i, ∀ b ∈ rowAt m.adj i, b.order2 = 3 → G b = 2 ∨ G b = 4

/-- a pair of the delocalisation subgraph matches only order-1.5 bonds -/
theorem order3_of_pair {m : PMol} (hwf : PWF m) {q : Nat × Nat} (hq : q ∈ pairsOf m.ds)
    {i : Nat} {b : PBond} (hb : b ∈ rowAt m.adj i) (hpm : pairMatch q.1 q.2 b = true) :
    b.order2 = 3 := by
  obtain ⟨bd0, h1, h2, h3⟩ := pairs_hasBond hwf hq
  rw [order_of_pair hwf.1 h1 h2 hb hpm, h3]

theorem any_pairs_order3 {m : PMol} (hwf : PWF m) {ps : List (Nat × Nat)}
    (hps : ∀ p ∈ ps, p ∈ pairsOf m.ds) {i : Nat} {b : PBond} (hb : b ∈ rowAt m.adj i)
    (h : ps.any (fun p => pairMatch p.1 p.2 b) = true) : b.order2 = 3 := by
  obtain ⟨p, hp, hpm⟩ := List.any_eq_true.1 h
  exact order3_of_pair hwf (hps p hp) hb hpm

/-- the two phases compose to a `SigmaOrd` map, whatever pairs of the delocalisation subgraph
    phase 2 doubles -/
theorem sigmaOrd_updAll {m : PMol} (hwf : PWF m) {ps : List (Nat × Nat)}
    (hps : ∀ p ∈ ps, p ∈ pairsOf m.ds) :
    SigmaOrd m (updAll 4 ps (updAll 2 (pairsOf m.ds) ord0)) := by
  refine ⟨((RingSym.ord0 _).updAll hwf.1 2 _).updAll hwf.1 4 _, ?_, ?_⟩
  · intro i b hb hne
    rcases updAll_cases 4 ps (updAll 2 (pairsOf m.ds) ord0) b with ⟨_, hany⟩ | ⟨e, _⟩
    · exact absurd (any_pairs_order3 hwf hps hb hany) hne
    · rcases updAll_cases 2 (pairsOf m.ds) ord0 b with ⟨_, hany⟩ | ⟨e', _⟩
      · exact absurd (any_pairs_order3 hwf (fun p hp => hp) hb hany) hne
      · exact e.trans e'
  · intro i b hb h3
    rcases updAll_cases 4 ps (updAll 2 (pairsOf m.ds) ord0) b with ⟨e, _⟩ | ⟨e, _⟩
    · exact Or.inr e
    · rcases updAll_cases 2 (pairsOf m.ds) ord0 b with ⟨e', _⟩ | ⟨_, hn⟩
      · exact Or.inl (e.trans e')
      · rw [C09.order3_in_pairs hwf hb h3] at hn
        cases hn

/-- the stages of a successful `kekulize` call on a graph with aromatic atoms or bonds, with the
    two update loops -/
theorem kekulize_ok_loops {m g1 : PMol} {tape : List Nat} (hne : m.ds.isEmpty = false)
    (h : m.kekulize tape = .ok (some g1)) :
    ∃ kept pg mt m1 m2, keptNodes m = .ok kept ∧ prunedGraph m (kept.mergeSort (· ≤ ·)) = .ok pg ∧
      findPerfectMatching pg tape = .ok (some mt) ∧
      m.ds.foldlM (fun m p => deAromNode m p.1 p.2) m = .ok m1 ∧
      (List.range mt.length).foldlM (doubleStep (kept.mergeSort (· ≤ ·)) mt) m1 = .ok m2 ∧
      g1 = { m2 with ds := [] } := by
  rw [kekulize_eq] at h
  simp only [hne, Bool.false_eq_true, if_false] at h
  obtain ⟨bad, _, h⟩ := bind_ok h
  split at h
  · simp [pure, Except.pure] at h
  · obtain ⟨kept, hk, h⟩ := bind_ok h
    obtain ⟨pg, hp, h⟩ := bind_ok h
    obtain ⟨ml, hm, h⟩ := bind_ok h
    split at h
    · simp [pure, Except.pure] at h
    · rename_i mt
      obtain ⟨m1, h1, h⟩ := bind_ok h
      obtain ⟨m2, h2, h⟩ := bind_ok h
      simp only [pure, Except.pure, Except.ok.injEq, Option.some.injEq] at h
      exact ⟨kept, pg, mt, m1, m2, hk, hp, hm, h1, h2, h.symm⟩

/-- what `kekulize` leaves behind, for an arbitrary order map -/
def kekResultWith (m : PMol) (G : PBond → Nat) : PMol :=
  { m with
    atoms := deArom (m.ds.map (·.1)) m.atoms,
    adj := mapOrders G m.adj,
    counts2 := (List.range m.adj.length).map (incident2 (mapOrders G m.adj)),
    ds := [] }

/-- **`kekulize` touches only the delocalisation subgraph** — for EVERY successful run on a
    well-formed parsed graph, also when the matching routine's list is not a matching.
    The result is the input with
      * every stored bond record's order replaced by `G` of that record, where `G` keeps every
        order other than 1.5 and turns 1.5 into 1 or 2 (`SigmaOrd`); same rows, same positions, same
        `src`, `dst`, `stereo`, ring flag, attribution; nothing added, nothing removed;
      * the aromatic flag cleared on the atoms of the delocalisation subgraph, atoms otherwise equal;
      * bond counts recomputed as the incident sums; roots, ring flags, attributions unchanged;
        the delocalisation subgraph emptied. -/
theorem kekulize_touches_only_ds {m g1 : PMol} {tape : List Nat} (hwf : PWF m)
    (h : m.kekulize tape = .ok (some g1)) :
    ∃ G, SigmaOrd m G ∧ g1 = kekResultWith m G := by
  cases hne : m.ds.isEmpty with
  | true =>
    have hds : m.ds = [] := List.isEmpty_iff.1 hne
    rw [kekulize_eq] at h
    simp only [hne, if_true, pure, Except.pure, Except.ok.injEq, Option.some.injEq] at h
    subst h
    have hno3 : ∀ i, ∀ b ∈ rowAt m.adj i, b.order2 ≠ 3 := by
      intro i b hb h3
      have := C09.order3_in_pairs hwf hb h3
      rw [hds] at this
      simp [pairsOf] at this
    refine ⟨ord0, ⟨RingSym.ord0 _, fun _ _ _ _ => rfl, fun i b hb h3 => absurd h3 (hno3 i b hb)⟩, ?_⟩
    unfold kekResultWith
    rw [show mapOrders ord0 m.adj = m.adj from mapOrders_ord0 m.adj, hds]
    simp only [List.map_nil, deArom_nil]
    rw [← eq_range_map _ hwf.2.2.1 hwf.2.2.2.1, ← hds]
  | false =>
    obtain ⟨kept, pg, mt, m1, m2, hk, hp, hm, h1, h2, hg1⟩ := kekulize_ok_loops hne h
    have hpre : KekPre m kept (kept.mergeSort (· ≤ ·)) pg := ⟨hwf, hk, rfl, hp⟩
    have hu : MatchingUsable pg mt := findPerfectMatching_usable hpre.graphOK hm
    -- phase 1
    obtain ⟨c1, p1, p2, p3⟩ := phase1 hwf m.ds [] m.counts2 rfl hwf.2.2.1 (by
      intro v hv
      simp only [pairsOf, List.flatMap_nil, updAll_nil]
      rw [show mapOrders ord0 m.adj = m.adj from mapOrders_ord0 m.adj]
      exact hwf.2.2.2.1 v hv)
    have hst0 : st m (([] : List (Nat × List Nat)).map (·.1)) (updAll 2 (pairsOf []) ord0) m.counts2 = m := by
      simp only [st, List.map_nil, deArom_nil, pairsOf, List.flatMap_nil, updAll_nil]
      rw [show mapOrders ord0 m.adj = m.adj from mapOrders_ord0 m.adj]
    rw [hst0, h1] at p1
    injection p1 with p1
    -- phase 2: every pair is a pair of the delocalisation subgraph (EdgeOnly)
    have hpairs : ∀ p ∈ (List.range mt.length).map (pair2 (kept.mergeSort (· ≤ ·)) mt),
        p ∈ pairsOf m.ds := by
      intro p hp'
      obtain ⟨t, ht, rfl⟩ := List.mem_map.1 hp'
      have ht' : t < (kept.mergeSort (· ≤ ·)).length := by rw [← hpre.mt_length hu]; simpa using ht
      obtain ⟨j, hj, _, hmem⟩ := hpre.usable_pair hu ht'
      have : pair2 (kept.mergeSort (· ≤ ·)) mt t
          = ((kept.mergeSort (· ≤ ·)).getD t 0, (kept.mergeSort (· ≤ ·)).getD j 0) := by
        have : mt.getD t none = some j := by rw [List.getD_eq_getElem?_getD, hj]; rfl
        unfold pair2; rw [this]; rfl
      rw [this]
      exact hmem
    have hbonds : ∀ p ∈ (List.range mt.length).map (pair2 (kept.mergeSort (· ≤ ·)) mt),
        HasBond m.adj p := by
      intro p hp'
      obtain ⟨bd, b1, b2, _⟩ := pairs_hasBond hwf (hpairs p hp')
      exact ⟨bd, b1, b2⟩
    obtain ⟨c2, q1, q2, q3⟩ := foldl_updates hwf.1 4 (by omega) _ (updAll 2 (pairsOf m.ds) ord0)
      (st m (m.ds.map (·.1)) (updAll 2 (pairsOf m.ds) ord0) c1) hbonds
      ((RingSym.ord0 _).updAll hwf.1 2 _) rfl p2 p3
    rw [hpre.phase2 hu, p1, q1] at h2
    injection h2 with h2
    refine ⟨_, sigmaOrd_updAll hwf hpairs, ?_⟩
    rw [hg1, ← h2, eq_range_map _ q2 q3]
    rfl

/-! ### record-level corollaries -/

theorem rowAt_kekResultWith (m : PMol) (G : PBond → Nat) (i : Nat) :
    rowAt (kekResultWith m G).adj i = (rowAt m.adj i).map (setOrd G) :=
  rowAt_mapOrders G m.adj i

/-- every stored bond record that is not aromatic is present in the result, unchanged, at the
    same atom -/
theorem SigmaOrd.keep_mem {m : PMol} {G : PBond → Nat} (hG : SigmaOrd m G) {i : Nat} {b : PBond}
    (hb : b ∈ rowAt m.adj i) (hne : b.order2 ≠ 3) : b ∈ rowAt (kekResultWith m G).adj i := by
  rw [rowAt_kekResultWith]
  refine List.mem_map.2 ⟨b, hb, ?_⟩
  unfold setOrd
  rw [hG.keep i b hb hne]

/-- every aromatic bond record is present in the result as a single or a double bond with
    otherwise the same fields -/
theorem SigmaOrd.arom_mem {m : PMol} {G : PBond → Nat} (hG : SigmaOrd m G) {i : Nat} {b : PBond}
    (hb : b ∈ rowAt m.adj i) (h3 : b.order2 = 3) :
    { b with order2 := 2 } ∈ rowAt (kekResultWith m G).adj i ∨
    { b with order2 := 4 } ∈ rowAt (kekResultWith m G).adj i := by
  rw [rowAt_kekResultWith]
  rcases hG.arom i b hb h3 with e | e
  · exact Or.inl (List.mem_map.2 ⟨b, hb, by unfold setOrd; rw [e]⟩)
  · exact Or.inr (List.mem_map.2 ⟨b, hb, by unfold setOrd; rw [e]⟩)

/-- nothing else: every bond record of the result is one of the input's, at the same atom, with
    the same fields except possibly the order, which changed only if it was 1.5 -/
theorem SigmaOrd.of_mem {m : PMol} {G : PBond → Nat} (hG : SigmaOrd m G) {i : Nat} {b1 : PBond}
    (hb1 : b1 ∈ rowAt (kekResultWith m G).adj i) :
    ∃ b ∈ rowAt m.adj i, b1.src = b.src ∧ b1.dst = b.dst ∧ b1.stereo = b.stereo ∧ b1.ring = b.ring ∧
      b1.attr = b.attr ∧
      ((b.order2 ≠ 3 ∧ b1 = b) ∨ (b.order2 = 3 ∧ (b1.order2 = 2 ∨ b1.order2 = 4))) := by
  rw [rowAt_kekResultWith] at hb1
  obtain ⟨b, hb, rfl⟩ := List.mem_map.1 hb1
  refine ⟨b, hb, rfl, rfl, rfl, rfl, rfl, ?_⟩
  by_cases h3 : b.order2 = 3
  · exact Or.inr ⟨h3, hG.arom i b hb h3⟩
  · refine Or.inl ⟨h3, ?_⟩
    unfold setOrd
    rw [hG.keep i b hb h3]

/-- rows keep their lengths and positions: the `j`-th slot of row `i` holds the same record (or
    the same placeholder) up to the order -/
theorem kekResultWith_slot (m : PMol) (G : PBond → Nat) (i j : Nat) :
    ((kekResultWith m G).adj.getD i []).length = (m.adj.getD i []).length ∧
    ((kekResultWith m G).adj.getD i [])[j]? = ((m.adj.getD i [])[j]?).map (Option.map (setOrd G)) := by
  show ((mapOrders G m.adj).getD i []).length = _ ∧ ((mapOrders G m.adj).getD i [])[j]? = _
  unfold mapOrders
  rw [List.getD_eq_getElem?_getD, List.getD_eq_getElem?_getD, List.getElem?_map]
  cases m.adj[i]? with
  | none => simp
  | some row => simp

/-- the atoms: same number, and atom `i` differs from the input's at most in the aromatic flag,
    which is cleared exactly on the atoms of the delocalisation subgraph -/
theorem kekResultWith_atoms (m : PMol) (G : PBond → Nat) :
    (kekResultWith m G).atoms.length = m.atoms.length ∧
    ∀ i a, m.atoms[i]? = some a →
      (kekResultWith m G).atoms[i]? =
        some (if i ∈ m.ds.map (·.1) then { a with isAromatic := false } else a) := by
  refine ⟨deArom_length _ _, fun i a ha => ?_⟩
  show (deArom (m.ds.map (·.1)) m.atoms)[i]? = _
  simp only [deArom, List.getElem?_mapIdx, ha, Option.map_some, List.contains_iff_mem]

end SV
