/-
  C09 (stage 3, part 2): `MolecularGraph.kekulize` is total on well-formed parsed graphs.

  Downstream of finding F9: `find_perfect_matching` may return a list that is not a matching.
  `kekulize` does not notice: the list has no `None` entry (no `label_to_node[None]` TypeError) and
  every entry `i ↦ j` is along an edge of the pruned subgraph, so every `update_bond_order` call
  finds its bond (no KeyError / AssertionError).  The result can have an atom with two double
  bonds (a wrong Kekulé structure, C05), but no exception other than `EncoderError` arises from it.
-/
import SelfiesVerif.Proofs.KekulizeSound
import SelfiesVerif.Proofs.EncTotalMatch
import SelfiesVerif.Proofs.Strict

namespace SV.C09

/-! ### list-monad totality -/

theorem anyM_total {α : Type} (f : α → Py Bool) : ∀ (l : List α), (∀ a ∈ l, ∃ b, f a = .ok b) →
    ∃ b, l.anyM f = .ok b ∧ (b = false → ∀ a ∈ l, f a = .ok false) := by
  intro l
  induction l with
  | nil => intro _; exact ⟨false, rfl, fun _ a ha => by cases ha⟩
  | cons x xs ih =>
    intro h
    obtain ⟨b, hb⟩ := h x (by simp)
    cases b with
    | true =>
      refine ⟨true, ?_, fun e => by cases e⟩
      simp only [List.anyM, bind, Except.bind, hb]; rfl
    | false =>
      obtain ⟨b', h1, h2⟩ := ih (fun a ha => h a (List.mem_cons_of_mem _ ha))
      refine ⟨b', ?_, ?_⟩
      · simp only [List.anyM, bind, Except.bind, hb]; exact h1
      · intro e a ha
        simp only [List.mem_cons] at ha
        rcases ha with rfl | ha
        · exact hb
        · exact h2 e a ha

theorem filterAuxM_total {α : Type} (f : α → Py Bool) : ∀ (l acc : List α),
    (∀ a ∈ l, ∃ b, f a = .ok b) → ∃ r, List.filterAuxM f l acc = .ok r := by
  intro l
  induction l with
  | nil => intro acc _; exact ⟨acc, rfl⟩
  | cons x xs ih =>
    intro acc h
    obtain ⟨b, hb⟩ := h x (by simp)
    simp only [List.filterAuxM, bind, Except.bind, hb]
    exact ih _ (fun a ha => h a (List.mem_cons_of_mem _ ha))

theorem filterM_total {α : Type} (f : α → Py Bool) (l : List α) (h : ∀ a ∈ l, ∃ b, f a = .ok b) :
    ∃ r, l.filterM f = .ok r := by
  obtain ⟨r, hr⟩ := filterAuxM_total f l [] h
  exact ⟨r.reverse, by simp only [List.filterM, bind, Except.bind, hr]; rfl⟩

/-! ### the tables `_prune_from_ds` reads -/

/-- every aromatic element has a non-empty valence list and a valence-electron entry -/
def AromTablesOK : Prop :=
  ∀ p ∈ Gen.aromaticValences, p.2 ≠ [] ∧ (lookup p.1 Gen.valenceElectrons).isSome = true

theorem aromTablesOK : AromTablesOK := by unfold AromTablesOK; decide

theorem lookup_str_mem {β : Type} {k : Str} {v : β} : ∀ {l : List (Str × β)},
    lookup k l = some v → (k, v) ∈ l := by
  intro l
  induction l with
  | nil => intro h; cases h
  | cons p ps ih =>
    intro h
    obtain ⟨k', v'⟩ := p
    unfold lookup at h
    split at h
    · rename_i e
      have : k' = k := by simpa using e
      cases h; subst this; simp
    · exact List.mem_cons_of_mem _ (ih h)

/-! ### `_prune_from_ds` -/

/-- unbracketed atoms carry no charge (`smiles_to_atom`) -/
def ChargeInv (m : PMol) : Prop := ∀ a ∈ m.atoms, a.hCount = none → a.charge = 0

theorem pruneFromDs_total (ht : AromTablesOK) {m : PMol} {node : Nat} {adj : List Nat} {a : Atom}
    {c2 : Nat} (h1 : lookup node m.ds = some adj) (h2 : m.atoms[node]? = some a)
    (h3 : m.counts2[node]? = some c2)
    (hval : adj.isEmpty = false → (lookup a.element Gen.aromaticValences).isSome = true)
    (hchg : a.hCount = none → a.charge = 0) :
    ∃ b, m.pruneFromDs node = .ok b := by
  unfold PMol.pruneFromDs
  simp only [bind, Except.bind, getKey, h1]
  cases hadj : adj.isEmpty with
  | true => exact ⟨true, rfl⟩
  | false =>
    simp only [Bool.false_eq_true, if_false, getIdx_ok.2 h2, getIdx_ok.2 h3]
    have hv := hval hadj
    cases hlk : lookup a.element Gen.aromaticValences with
    | none => rw [hlk] at hv; cases hv
    | some vals =>
      simp only
      obtain ⟨hne, hve⟩ := ht _ (lookup_str_mem hlk)
      cases hh : a.hCount with
      | none =>
        simp only [pyAssert, hchg hh, beq_self_eq_true, if_true, pure, Except.pure]
        exact ⟨_, rfl⟩
      | some h =>
        simp only
        cases hgl : vals.getLast? with
        | none =>
          exfalso
          rw [List.getLast?_eq_none_iff] at hgl
          exact hne hgl
        | some vlast =>
          simp only [pure, Except.pure]
          cases hvl : lookup a.element Gen.valenceElectrons with
          | none => rw [hvl] at hve; cases hve
          | some ve =>
            simp only
            split <;> exact ⟨_, rfl⟩

/-! ### the context of a `kekulize` run, without a matching -/

structure KekPre (m : PMol) (kept l2n : List Nat) (pg : Graph) : Prop where
  hwf : PWF m
  hk : keptNodes m = .ok kept
  hl : l2n = kept.mergeSort (· ≤ ·)
  hp : prunedGraph m l2n = .ok pg

namespace KekPre
variable {m : PMol} {kept l2n : List Nat} {pg : Graph}

theorem kept_eq (h : KekPre m kept l2n pg) :
    kept = (m.ds.map (·.1)).filter fun k => m.pruneFromDs k == .ok false := by
  obtain ⟨_, h2⟩ := filterM_ok _ _ _ h.hk
  rw [h2]
  apply List.filter_congr
  intro k _
  simp only [bind, Except.bind]
  cases m.pruneFromDs k with
  | error e => rfl
  | ok p => cases p <;> rfl

theorem mem_l2n (h : KekPre m kept l2n pg) {a : Nat} :
    a ∈ l2n ↔ a ∈ m.ds.map (·.1) ∧ m.pruneFromDs a = .ok false := by
  rw [h.hl, (List.mergeSort_perm kept _).mem_iff, h.kept_eq, List.mem_filter, beq_iff_eq]

theorem l2n_nodup (h : KekPre m kept l2n pg) : l2n.Nodup := by
  rw [h.hl, (List.mergeSort_perm kept _).nodup_iff, h.kept_eq]
  exact List.Nodup.sublist List.filter_sublist h.hwf.2.2.2.2.2.1

theorem key_of_l2n (h : KekPre m kept l2n pg) {a : Nat} (ha : a ∈ l2n) :
    (a, dsAdj m a) ∈ m.ds := by
  obtain ⟨p, hp, rfl⟩ := List.mem_map.1 (h.mem_l2n.1 ha).1
  have := lookup_of_mem h.hwf.2.2.2.2.2.1 (show (p.1, p.2) ∈ m.ds from hp)
  unfold dsAdj
  rw [this]
  exact hp

theorem pg_rows (h : KekPre m kept l2n pg) :
    pg.length = l2n.length ∧ ∀ t, t < l2n.length →
      pg[t]? = some (((dsAdj m (l2n.getD t 0)).filter fun v => l2n.contains v).map fun v => l2n.idxOf v) := by
  obtain ⟨h1, h2⟩ := mapM_ok _ _ _ h.hp
  refine ⟨h1, fun t ht => ?_⟩
  obtain ⟨y, hy1, hy2⟩ := h2 t l2n[t] (List.getElem?_eq_getElem ht)
  rw [hy2, getD_of_lt ht]
  simp only [bind, Except.bind] at hy1
  unfold getKey at hy1
  unfold dsAdj
  cases hlk : lookup l2n[t] m.ds with
  | none => rw [hlk] at hy1; cases hy1
  | some adj =>
    rw [hlk] at hy1
    simp only [pure, Except.pure] at hy1
    cases hy1
    rfl

/-- an edge of the pruned graph is an aromatic bond between two kept atoms -/
theorem adj_iff (h : KekPre m kept l2n pg) (i j : Nat) :
    Adj pg i j ↔ i < l2n.length ∧ ∃ v, v ∈ dsAdj m (l2n.getD i 0) ∧ v ∈ l2n ∧ j = l2n.idxOf v := by
  obtain ⟨hlen, hrows⟩ := h.pg_rows
  constructor
  · rintro ⟨l, hl, hj⟩
    have hi : i < l2n.length := hlen ▸ lt_of_getElem?_some hl
    rw [hrows i hi] at hl
    cases hl
    obtain ⟨v, hv, rfl⟩ := List.mem_map.1 hj
    obtain ⟨hv1, hv2⟩ := List.mem_filter.1 hv
    exact ⟨hi, v, hv1, by simpa using hv2, rfl⟩
  · rintro ⟨hi, v, hv1, hv2, rfl⟩
    exact ⟨_, hrows i hi, List.mem_map.2 ⟨v, List.mem_filter.2 ⟨hv1, by simpa using hv2⟩, rfl⟩⟩

/-- the aromatic neighbour relation is irreflexive and symmetric (from `PWF`) -/
theorem ds_symm (h : KekPre m kept l2n pg) {u v : Nat} (hu : (u, dsAdj m u) ∈ m.ds)
    (hv : v ∈ dsAdj m u) : u ≠ v ∧ u ∈ dsAdj m v := by
  obtain ⟨hok, _, _, _, _, _, h7, h8⟩ := h.hwf
  obtain ⟨_, _, hb⟩ := h7 _ hu
  obtain ⟨bd, hbd, hdst, ho⟩ := hb v hv
  simp only at hbd hdst
  have hlo := lt_of_mem_rowAt hbd
  obtain ⟨_, _, hne, _⟩ := (hok _ hlo).2 bd hbd
  have huv : u ≠ v := by
    intro e; subst e
    simp only [Nat.min_self, Nat.max_self] at hdst hne
    exact hne hdst
  obtain ⟨g1, g2⟩ := h8 _ hlo bd hbd ho
  rw [hdst] at g1 g2
  refine ⟨huv, ?_⟩
  rcases Nat.lt_or_ge u v with hlt | hge
  · rw [Nat.min_eq_left (Nat.le_of_lt hlt), Nat.max_eq_right (Nat.le_of_lt hlt)] at g2
    exact g2
  · rw [Nat.min_eq_right hge, Nat.max_eq_left hge] at g1
    exact g1

theorem nodup_map_on {α β : Type} (f : α → β) : ∀ (l : List α), l.Nodup →
    (∀ a ∈ l, ∀ b ∈ l, f a = f b → a = b) → (l.map f).Nodup := by
  intro l
  induction l with
  | nil => intro _ _; exact List.nodup_nil
  | cons x xs ih =>
    intro hnd hinj
    simp only [List.nodup_cons] at hnd
    simp only [List.map_cons, List.nodup_cons, List.mem_map, not_exists, not_and]
    refine ⟨?_, ih hnd.2 (fun a ha b hb => hinj a (List.mem_cons_of_mem _ ha) b (List.mem_cons_of_mem _ hb))⟩
    intro y hy e
    have := hinj y (List.mem_cons_of_mem _ hy) x (by simp) e
    subst this
    exact hnd.1 hy

/-- the pruned, relabelled delocalisation subgraph is a simple graph -/
theorem graphOK (h : KekPre m kept l2n pg) : GraphOK pg := by
  obtain ⟨hlen, hrows⟩ := h.pg_rows
  have hnd := h.l2n_nodup
  refine ⟨?_, ?_, ?_, ?_⟩
  · intro i j hij
    obtain ⟨_, v, _, hv2, rfl⟩ := (h.adj_iff i j).1 hij
    rw [hlen]; exact List.idxOf_lt_length_of_mem hv2
  · intro i hii
    obtain ⟨hi, v, hv1, hv2, e⟩ := (h.adj_iff i i).1 hii
    have : l2n.getD i 0 = v := by rw [e, getD_idxOf hv2]
    rw [this] at hv1
    exact (h.ds_symm (h.key_of_l2n hv2) hv1).1 rfl
  · intro i j hij
    obtain ⟨hi, v, hv1, hv2, rfl⟩ := (h.adj_iff i j).1 hij
    have hu : l2n.getD i 0 ∈ l2n := getD_mem hi
    refine (h.adj_iff _ _).2 ⟨List.idxOf_lt_length_of_mem hv2, l2n.getD i 0, ?_, hu, ?_⟩
    · rw [getD_idxOf hv2]
      exact (h.ds_symm (h.key_of_l2n hu) hv1).2
    · rw [idxOf_getD hnd hi]
  · intro i l hl
    have hi : i < l2n.length := hlen ▸ lt_of_getElem?_some hl
    rw [hrows i hi] at hl
    cases hl
    have hkey := h.key_of_l2n (getD_mem hi)
    have hnd' : (dsAdj m (l2n.getD i 0)).Nodup := (h.hwf.2.2.2.2.2.2.1 _ hkey).2.1
    apply nodup_map_on _ _ (hnd'.sublist List.filter_sublist)
    intro a ha b hb e
    have ha' : a ∈ l2n := by simpa using (List.mem_filter.1 ha).2
    have hb' : b ∈ l2n := by simpa using (List.mem_filter.1 hb).2
    rw [← getD_idxOf ha', ← getD_idxOf hb', e]

/-- a usable list: every label has a partner, which is an aromatic neighbour -/
theorem usable_pair (h : KekPre m kept l2n pg) {mt : Matching} (hu : MatchingUsable pg mt) {t : Nat}
    (ht : t < l2n.length) :
    ∃ j, mt[t]? = some (some j) ∧ j < l2n.length ∧ (l2n.getD t 0, l2n.getD j 0) ∈ pairsOf m.ds := by
  obtain ⟨hw, hnone⟩ := hu
  have hlen := h.pg_rows.1
  have ht' : t < mt.length := by rw [hw.length_eq, hlen]; exact ht
  cases hx : mt[t] with
  | none => exact absurd (by rw [List.getElem?_eq_getElem ht', hx]) (hnone t)
  | some j =>
    have htj : mt[t]? = some (some j) := by rw [List.getElem?_eq_getElem ht', hx]
    obtain ⟨g1, g2, _⟩ := hw.matched t j htj
    obtain ⟨_, v, hv1, hv2, rfl⟩ := (h.adj_iff t j).1 g2
    refine ⟨_, htj, hlen ▸ g1, ?_⟩
    rw [getD_idxOf hv2]
    exact mem_pairsOf.2 ⟨_, h.key_of_l2n (getD_mem ht), rfl, hv1⟩

theorem mt_length (h : KekPre m kept l2n pg) {mt : Matching} (hu : MatchingUsable pg mt) :
    mt.length = l2n.length := by rw [hu.1.length_eq, h.pg_rows.1]

/-- the "make double bonds" loop is a sequence of `update_bond_order` calls -/
theorem phase2 (h : KekPre m kept l2n pg) {mt : Matching} (hu : MatchingUsable pg mt) (m1 : PMol) :
    (List.range mt.length).foldlM (doubleStep l2n mt) m1 =
      ((List.range mt.length).map (pair2 l2n mt)).foldlM (fun m p => m.updateBondOrder p.1 p.2 4) m1 := by
  rw [foldlM_map_eq]
  apply foldlM_congr_mem
  intro t ht x
  have ht' : t < l2n.length := by rw [← h.mt_length hu]; simpa using ht
  obtain ⟨j, hj, hjl, _⟩ := h.usable_pair hu ht'
  unfold doubleStep
  simp only [bind, Except.bind, getIdx_ok.2 hj, getIdx_ok_of_lt ht', getIdx_ok_of_lt hjl]
  have : mt.getD t none = some j := by rw [List.getD_eq_getElem?_getD, hj]; rfl
  unfold pair2
  rw [this, getD_of_lt ht']
  simp only [Option.getD_some, getD_of_lt hjl]

end KekPre

/-! ### the shape of the kekulized graph -/

/-- what `kekulize` leaves: the same graph with the bond orders changed by a map `G` that treats
    both copies of a ring bond alike; atoms, roots, flags, attributions keep their places -/
structure KekShape (m g' : PMol) : Prop where
  adj : ∃ G : PBond → Nat, g'.adj = mapOrders G m.adj ∧ RingSym m.adj G ∧
    ∀ i, ∀ b ∈ rowAt m.adj i, G b = 2 ∨ G b = 4 ∨ (G b = b.order2 ∧ b.order2 ≠ 3)
  atoms : g'.atoms.length = m.atoms.length
  roots : g'.roots = m.roots
  flags : g'.ringFlags = m.ringFlags

theorem updAll_cases (o : Nat) (ps : List (Nat × Nat)) (G : PBond → Nat) (b : PBond) :
    (updAll o ps G b = o ∧ ps.any (fun p => pairMatch p.1 p.2 b) = true) ∨
    (updAll o ps G b = G b ∧ ps.any (fun p => pairMatch p.1 p.2 b) = false) := by
  unfold updAll
  cases h : ps.any (fun p => pairMatch p.1 p.2 b) with
  | true => left; simp
  | false => right; simp

/-- every order-1.5 bond is listed in the delocalisation subgraph -/
theorem order3_in_pairs {m : PMol} (hwf : PWF m) {i : Nat} {b : PBond} (hb : b ∈ rowAt m.adj i)
    (h3 : b.order2 = 3) : (pairsOf m.ds).any (fun p => pairMatch p.1 p.2 b) = true := by
  obtain ⟨hok, _, _, _, _, _, _, h8⟩ := hwf
  have hi := lt_of_mem_rowAt hb
  have hsrc := ((hok i hi).2 b hb).1
  obtain ⟨g1, _⟩ := h8 i hi b hb h3
  unfold dsAdj at g1
  cases hlk : lookup i m.ds with
  | none => rw [hlk] at g1; simp at g1
  | some l =>
    rw [hlk] at g1
    simp only [Option.getD_some] at g1
    rw [List.any_eq_true]
    exact ⟨(i, b.dst), mem_pairsOf.2 ⟨(i, l), mem_of_lookup hlk, rfl, g1⟩, by simp [pairMatch, hsrc]⟩

/-! ### `kekulize` is total -/

/-- the tape is a legal record of the `set.pop()` results of this `kekulize` run -/
def TapeOK (m : PMol) (tape : List Nat) : Prop :=
  ∀ kept pg m0, keptNodes m = .ok kept → prunedGraph m (kept.mergeSort (· ≤ ·)) = .ok pg →
    greedyMatching pg = .ok m0 →
    TapeOKLoop pg (pg.length + 1) ((List.range pg.length).filter fun i => (m0.getD i none).isNone) tape m0

/-- every graph has a legal tape (so `TapeOK` is never an unsatisfiable hypothesis) -/
theorem tapeOK_exists (m : PMol) : ∃ tape, TapeOK m tape := by
  cases hk : keptNodes m with
  | error e => exact ⟨[], fun kept pg m0 h _ _ => by rw [hk] at h; cases h⟩
  | ok kept =>
    cases hp : prunedGraph m (kept.mergeSort (· ≤ ·)) with
    | error e =>
      refine ⟨[], fun kept' pg m0 h h' _ => ?_⟩
      rw [hk] at h; cases h; rw [hp] at h'; cases h'
    | ok pg =>
      cases hm : greedyMatching pg with
      | error e =>
        refine ⟨[], fun kept' pg' m0 h h' h'' => ?_⟩
        rw [hk] at h; cases h; rw [hp] at h'; cases h'; rw [hm] at h''; cases h''
      | ok m0 =>
        refine ⟨legalTape pg (pg.length + 1)
          ((List.range pg.length).filter fun i => (m0.getD i none).isNone) m0,
          fun kept' pg' m0' h h' h'' => ?_⟩
        rw [hk] at h; cases h; rw [hp] at h'; cases h'; rw [hm] at h''; cases h''
        exact legalTape_ok _ _ _ _

theorem badCheck_total {m : PMol} (hwf : PWF m) :
    ∃ b, badCheck m = .ok b ∧ (b = false → ∀ p ∈ m.ds, ∀ a, m.atoms[p.1]? = some a →
      p.2.isEmpty = false → (lookup a.element Gen.aromaticValences).isSome = true) := by
  have hlen : ∀ p ∈ m.ds, p.1 < m.atoms.length := fun p hp => by
    rw [hwf.2.1]; exact (hwf.2.2.2.2.2.2.1 p hp).1
  obtain ⟨b, h1, h2⟩ := anyM_total (fun (p : Nat × List Nat) => do
      let a ← getIdx m.atoms p.1
      pure (!p.2.isEmpty && (lookup a.element Gen.aromaticValences).isNone)) m.ds (by
    intro p hp
    simp only [bind, Except.bind, getIdx_ok_of_lt (hlen p hp), pure, Except.pure]
    exact ⟨_, rfl⟩)
  refine ⟨b, h1, ?_⟩
  intro hb p hp a ha hne
  have := h2 hb p hp
  simp only [bind, Except.bind, getIdx_ok.2 ha, pure, Except.pure, Except.ok.injEq, hne,
    Bool.not_false, Bool.true_and] at this
  cases hx : lookup a.element Gen.aromaticValences with
  | none => rw [hx] at this; cases this
  | some _ => rfl

theorem keptNodes_total {m : PMol} (hwf : PWF m) (hchg : ChargeInv m)
    (hbad : ∀ p ∈ m.ds, ∀ a, m.atoms[p.1]? = some a →
      p.2.isEmpty = false → (lookup a.element Gen.aromaticValences).isSome = true) :
    ∃ kept, keptNodes m = .ok kept := by
  unfold keptNodes
  apply filterM_total
  intro k hk
  obtain ⟨p, hp, rfl⟩ := List.mem_map.1 hk
  have hk1 : p.1 < m.atoms.length := by rw [hwf.2.1]; exact (hwf.2.2.2.2.2.2.1 p hp).1
  have hk2 : p.1 < m.counts2.length := by rw [hwf.2.2.1]; exact (hwf.2.2.2.2.2.2.1 p hp).1
  obtain ⟨b, hb⟩ := pruneFromDs_total aromTablesOK (lookup_of_mem hwf.2.2.2.2.2.1 (show (p.1, p.2) ∈ m.ds from hp))
    (List.getElem?_eq_getElem hk1) (List.getElem?_eq_getElem hk2)
    (hbad p hp _ (List.getElem?_eq_getElem hk1))
    (hchg _ (List.getElem_mem hk1))
  exact ⟨!b, by simp only [bind, Except.bind, hb, pure, Except.pure]⟩

theorem prunedGraph_total {m : PMol} {kept : List Nat} (hwf : PWF m) (hk : keptNodes m = .ok kept) :
    ∃ pg, prunedGraph m (kept.mergeSort (· ≤ ·)) = .ok pg := by
  unfold prunedGraph
  apply mapM_ok_of_forall
  intro node hnode
  rw [(List.mergeSort_perm kept _).mem_iff] at hnode
  obtain ⟨_, h2⟩ := filterM_ok _ _ _ hk
  rw [h2] at hnode
  obtain ⟨p, hp, rfl⟩ := List.mem_map.1 (List.mem_filter.1 hnode).1
  have := lookup_of_mem hwf.2.2.2.2.2.1 (show (p.1, p.2) ∈ m.ds from hp)
  simp only [bind, Except.bind, getKey, this, pure, Except.pure]
  exact ⟨_, rfl⟩

/-- the two update loops of `kekulize`, for a usable list -/
theorem kekulize_loops {m : PMol} {kept l2n : List Nat} {pg : Graph} {mt : Matching}
    (h : KekPre m kept l2n pg) (hu : MatchingUsable pg mt) :
    ∃ g', (do
        let m1 ← m.ds.foldlM (fun m p => deAromNode m p.1 p.2) m
        let m2 ← (List.range mt.length).foldlM (doubleStep l2n mt) m1
        pure (some { m2 with ds := [] }) : Py (Option PMol)) = .ok (some g') ∧ KekShape m g' := by
  have hwf := h.hwf
  obtain ⟨c1, p1, p2, p3⟩ := phase1 hwf m.ds [] m.counts2 rfl hwf.2.2.1 (by
    intro v hv
    simp only [pairsOf, List.flatMap_nil, updAll_nil]
    rw [show mapOrders ord0 m.adj = m.adj from mapOrders_ord0 m.adj]
    exact hwf.2.2.2.1 v hv)
  have hst0 : st m (([] : List (Nat × List Nat)).map (·.1)) (updAll 2 (pairsOf []) ord0) m.counts2 = m := by
    simp only [st, List.map_nil, deArom_nil, pairsOf, List.flatMap_nil, updAll_nil]
    rw [show mapOrders ord0 m.adj = m.adj from mapOrders_ord0 m.adj]
  rw [hst0] at p1
  have hpairs : ∀ p ∈ (List.range mt.length).map (pair2 l2n mt), HasBond m.adj p := by
    intro p hp
    obtain ⟨t, ht, rfl⟩ := List.mem_map.1 hp
    have ht' : t < l2n.length := by rw [← h.mt_length hu]; simpa using ht
    obtain ⟨j, hj, _, hmem⟩ := h.usable_pair hu ht'
    have : pair2 l2n mt t = (l2n.getD t 0, l2n.getD j 0) := by
      have : mt.getD t none = some j := by rw [List.getD_eq_getElem?_getD, hj]; rfl
      unfold pair2; rw [this]; rfl
    rw [this]
    obtain ⟨bd, h1, h2, _⟩ := pairs_hasBond hwf hmem
    exact ⟨bd, h1, h2⟩
  obtain ⟨c2, q1, q2, q3⟩ := foldl_updates hwf.1 4 (by omega) _ (updAll 2 (pairsOf m.ds) ord0)
    (st m (m.ds.map (·.1)) (updAll 2 (pairsOf m.ds) ord0) c1) hpairs
    ((RingSym.ord0 _).updAll hwf.1 2 _) rfl p2 p3
  simp only [bind, Except.bind, p1, h.phase2 hu, q1, pure, Except.pure]
  refine ⟨_, rfl, ?_⟩
  · refine ⟨⟨_, rfl, ((RingSym.ord0 _).updAll hwf.1 2 _).updAll hwf.1 4 _, ?_⟩, ?_, rfl, rfl⟩
    · intro i b hb
      rcases updAll_cases 4 ((List.range mt.length).map (pair2 l2n mt)) (updAll 2 (pairsOf m.ds) ord0) b
        with ⟨e, _⟩ | ⟨e, _⟩
      · exact Or.inr (Or.inl e)
      · rcases updAll_cases 2 (pairsOf m.ds) ord0 b with ⟨e', _⟩ | ⟨e', hn⟩
        · exact Or.inl (e.trans e')
        · refine Or.inr (Or.inr ⟨e.trans e', ?_⟩)
          intro h3
          rw [order3_in_pairs hwf hb h3] at hn
          cases hn
    · simp [st, deArom_length]

/-- **`kekulize` is total on well-formed parsed graphs, for every tape.**  It returns `False`
    (`none`), or `True` leaving a graph of the same shape, or the tape was not a legal record of
    `set.pop()` results (`KeyError` in the model; impossible in Python). -/
theorem kekulize_total {m : PMol} (hwf : PWF m) (hchg : ChargeInv m) (tape : List Nat) :
    m.kekulize tape = .ok none ∨
    (∃ g', m.kekulize tape = .ok (some g') ∧ KekShape m g') ∨
    (m.kekulize tape = .error .KeyError ∧ ¬ TapeOK m tape) := by
  rw [kekulize_eq]
  cases hds : m.ds.isEmpty with
  | true =>
    right; left
    refine ⟨m, by simp only [if_true, pure, Except.pure], ⟨fun b => b.order2, ?_, RingSym.ord0 _, ?_⟩, rfl, rfl, rfl⟩
    · exact (mapOrders_ord0 m.adj).symm
    · intro i b hb
      refine Or.inr (Or.inr ⟨rfl, ?_⟩)
      intro h3
      have := order3_in_pairs hwf hb h3
      rw [List.isEmpty_iff] at hds
      rw [hds] at this
      simp [pairsOf] at this
  | false =>
    simp only [Bool.false_eq_true, if_false]
    obtain ⟨bad, hb1, hb2⟩ := badCheck_total hwf
    simp only [bind, Except.bind, hb1]
    cases bad with
    | true => left; simp only [if_true, pure, Except.pure]
    | false =>
      simp only [Bool.false_eq_true, if_false]
      obtain ⟨kept, hk⟩ := keptNodes_total hwf hchg (hb2 rfl)
      obtain ⟨pg, hp⟩ := prunedGraph_total hwf hk
      simp only [hk, hp]
      have hpre : KekPre m kept (kept.mergeSort (· ≤ ·)) pg := ⟨hwf, hk, rfl, hp⟩
      rcases findPerfectMatching_total hpre.graphOK tape with h | ⟨mt, h, hu⟩ | ⟨h, m0, hm0, ht⟩
      · left; simp only [h, pure, Except.pure]
      · right; left
        simp only [h]
        exact kekulize_loops hpre hu
      · right; right
        simp only [h]
        refine ⟨trivial, fun hok => ht (hok kept pg m0 hk hp hm0)⟩

end SV.C09
