/-
  Tie (a), utilities: `len_selfies` and `get_alphabet_from_selfies` (selfies/utils/selfies_utils.py)
  as TRANSLATED from the Python AST on every run (`Generated/UtilFns.lean`) equal the hand model
  (`SV.lenSelfies`, `SV.alphabetFromSelfies` of Model/Tokenize.lean) for every argument.

  Domain.  `len_selfies`: any string.  `get_alphabet_from_selfies`: any list of strings (the
  iterable); the Python `set` is a duplicate-free list in insertion order (`PyRt.setAdd`,
  `PyRt.setDiscard`), as in the model.  The generator `split_selfies` of the same module is called
  but not translated: it is a parameter `Str → List Str × Option PyExc` (items yielded and the
  exception, if any, that ends the iteration), instantiated with `splitGen` = the model's
  `splitSelfies` (Proofs/GenEq6.lean).  A hanging bracket in any string gives `ValueError`
  (the model's `none`).
-/
import SelfiesVerif.Generated.UtilFns
import SelfiesVerif.Proofs.GenEq6

set_option linter.unusedSimpArgs false

namespace SV

/- `translator_no_fallback_util` lives in Proofs/GenEq7nf.lean: a fallback of this group (a rewrite of
   selfies_utils.py that leaves the translator's subset) must not take the `gen_*_eq` theorems below with it -
   they then hold of the hand copy, and the functions stay tied by the differential correspondence. -/

/-! ### `len_selfies` -/

/-- shape-insensitive: any sum of the two counts, in `Int` -/
theorem len_shape (s : Str) (a b : Nat) (ha : a = s.count '[') (hb : b = s.count '.') :
    (Except.ok ((a : Int) + (b : Int)) : Py Int) = .ok ((lenSelfies s : Nat) : Int) := by
  subst ha hb
  simp [lenSelfies]

syntax "len_selfies_proof " term : tactic
macro_rules
  | `(tactic| len_selfies_proof $s) => `(tactic|
      first
      | exact len_shape $s _ _ rfl rfl
      | (simp only [PyRt.strCount1, lenSelfies, pure, Except.pure, bind, Except.bind]
         first | rfl | (congr 1; push_cast; omega))
      | (simp (config := { zeta := true }) only [PyRt.strCount1, lenSelfies, pure, Except.pure, bind, Except.bind]
         first | rfl | (congr 1; push_cast; omega)))

/-- the hand copy that the translator substitutes when it reports a fallback -/
theorem fallback_len_selfies_eq (s : Str) :
    Gen.Fallback.len_selfies s = .ok ((lenSelfies s : Nat) : Int) := by
  unfold Gen.Fallback.len_selfies
  len_selfies_proof s

/-- `len_selfies(selfies)` as translated equals the model, for every string -/
theorem gen_len_selfies_eq (s : Str) :
    Gen.len_selfies s = .ok ((lenSelfies s : Nat) : Int) := by
  first
  | (unfold Gen.len_selfies
     len_selfies_proof s)
  | exact fallback_len_selfies_eq s
  | (unfold Gen.len_selfies
     len_selfies_proof s)

/-! ### `get_alphabet_from_selfies` -/

/-- the model's result as the Python outcome -/
def alphabetToPy : Option (List Str) → Py (List Str)
  | some a => .ok a
  | none => .error .ValueError

/-- the outer loop against the model's `go`, for any loop body with the stated behaviour -/
theorem alphabet_loop (step : List Str → Str → Py (List Str))
    (hstep : ∀ acc s, step acc s =
      if (splitSelfies s).2 then .error .ValueError
      else .ok ((splitSelfies s).1.foldl (fun a x => if a.contains x then a else a ++ [x]) acc)) :
    ∀ (strs : List Str) (acc : List Str),
      List.foldlM step acc strs = alphabetToPy (alphabetFromSelfies.go strs acc)
  | [], acc => by simp [alphabetFromSelfies.go, alphabetToPy, pure, Except.pure]
  | s :: rest, acc => by
    rw [List.foldlM_cons, hstep, alphabetFromSelfies.go]
    cases hb : (splitSelfies s).2
    · simp only [hb, Bool.false_eq_true, if_false, bind, Except.bind]
      exact alphabet_loop step hstep rest _
    · simp only [hb, if_true, alphabetToPy, bind, Except.bind]

/-- shape-insensitive: any outer loop body and final step with the stated behaviour -/
theorem alphabet_shape (step : List Str → Str → Py (List Str)) (fin : List Str → List Str)
    (hstep : ∀ acc s, step acc s =
      if (splitSelfies s).2 then .error .ValueError
      else .ok ((splitSelfies s).1.foldl (fun a x => if a.contains x then a else a ++ [x]) acc))
    (hfin : ∀ a, fin a = a.filter (· != ['.'])) (strs : List Str) :
    (List.foldlM step [] strs >>= fun a => Except.ok (fin a))
      = alphabetToPy (alphabetFromSelfies strs) := by
  rw [alphabet_loop step hstep, alphabetFromSelfies]
  cases alphabetFromSelfies.go strs [] with
  | none => rfl
  | some a => simp [alphabetToPy, bind, Except.bind, hfin]

syntax "alphabet_step" : tactic
macro_rules
  | `(tactic| alphabet_step) => `(tactic|
      (intro acc s
       simp only [splitGen, PyRt.genEnd, PyRt.setAdd]
       cases (splitSelfies s).2 <;> simp [bind, Except.bind, pure, Except.pure]))

syntax "alphabet_proof " term : tactic
macro_rules
  | `(tactic| alphabet_proof $strs) => `(tactic|
      exact alphabet_shape _ _ (by alphabet_step) (by intro a; simp only [PyRt.setDiscard]) $strs)

/-- the hand copy that the translator substitutes when it reports a fallback -/
theorem fallback_get_alphabet_from_selfies_eq (strs : List Str) :
    Gen.Fallback.get_alphabet_from_selfies splitGen strs = alphabetToPy (alphabetFromSelfies strs) := by
  unfold Gen.Fallback.get_alphabet_from_selfies
  alphabet_proof strs

/-- `get_alphabet_from_selfies(selfies_iter)` as translated equals the model, for every list of
    strings -/
theorem gen_get_alphabet_from_selfies_eq (strs : List Str) :
    Gen.get_alphabet_from_selfies splitGen strs = alphabetToPy (alphabetFromSelfies strs) := by
  first
  | (unfold Gen.get_alphabet_from_selfies
     alphabet_proof strs)
  | exact fallback_get_alphabet_from_selfies_eq strs
  | (unfold Gen.get_alphabet_from_selfies
     alphabet_proof strs)

end SV

#print axioms SV.gen_len_selfies_eq
#print axioms SV.fallback_len_selfies_eq
#print axioms SV.gen_get_alphabet_from_selfies_eq
#print axioms SV.fallback_get_alphabet_from_selfies_eq

namespace SV

/-! ### non-vacuity on concrete values -/

example : Gen.len_selfies "[C][=C][F].[C]".toList = .ok 5 := by decide
example : Gen.len_selfies "C.[".toList = .ok 2 := by decide
example : Gen.get_alphabet_from_selfies splitGen ["[C][F][O]".toList, "[C].[O]".toList, "[F][F]".toList]
    = .ok ["[C]".toList, "[F]".toList, "[O]".toList] := by decide
example : Gen.get_alphabet_from_selfies splitGen ["[C]".toList, "[C][F".toList] = .error .ValueError := by
  decide
example : Gen.get_alphabet_from_selfies splitGen [] = .ok [] := by decide

end SV
