/-
  The pre-order traversal of the chain-bond forest visits every atom exactly once
  (roots + exactly one incoming chain bond per non-root + chain bonds go upwards),
  hence the writer's fuel suffices.
-/
import SelfiesVerif.Proofs.WriterTokens

namespace SV

/-! ### generic list lemmas -/

theorem sum_map_filter (F : Nat → Nat) (p : Nat → Bool) (hF : ∀ y, p y = false → F y = 0) (L : List Nat) :
    ((L.filter p).map F).sum = (L.map F).sum := by
  induction L with
  | nil => rfl
  | cons a L ih =>
    cases hp : p a with
    | true => simp [hp, ih]
    | false => simp [hp, ih, hF a hp]

theorem count_filter_eq (p : Nat → Bool) (L : List Nat) (y : Nat) :
    (L.filter p).count y = if p y then L.count y else 0 := by
  cases hp : p y with
  | true => simp [List.count_filter hp]
  | false =>
    simp only [Bool.false_eq_true, if_false]
    apply List.count_eq_zero_of_not_mem
    intro hm
    have := (List.mem_filter.mp hm).2
    rw [hp] at this; cases this

/-- two lists that contain every index with `p` equally often have the same `F`-sum, if `F`
    vanishes off `p` -/
theorem sum_map_eq_of_count (F : Nat → Nat) (p : Nat → Bool) (L1 L2 : List Nat)
    (hF : ∀ y, p y = false → F y = 0) (hc : ∀ y, p y = true → L1.count y = L2.count y) :
    (L1.map F).sum = (L2.map F).sum := by
  rw [← sum_map_filter F p hF L1, ← sum_map_filter F p hF L2]
  apply List.Perm.sum_nat
  apply List.Perm.map
  rw [List.perm_iff_count]
  intro y
  rw [count_filter_eq, count_filter_eq]
  cases hp : p y with
  | true => simp [hc y hp]
  | false => rfl

/-- a duplicate-free list of indices below `n` has an `F`-sum bounded by the sum over `range n` -/
theorem sum_map_le_range (F : Nat → Nat) (n : Nat) (L : List Nat) (hlt : ∀ y ∈ L, y < n)
    (hc : ∀ y, L.count y ≤ 1) : (L.map F).sum ≤ ((List.range n).map F).sum := by
  have hperm : (L ++ (List.range n).filter (fun y => !L.contains y)).Perm (List.range n) := by
    rw [List.perm_iff_count]
    intro y
    rw [List.count_append, count_filter_eq, List.count_range]
    by_cases hm : y ∈ L
    · have h1 : L.count y = 1 := by
        have := List.count_pos_iff.mpr hm
        have := hc y
        omega
      have := hlt y hm
      simp [hm, h1, this]
    · have h0 : L.count y = 0 := List.count_eq_zero_of_not_mem hm
      simp [hm, h0]
  have := (hperm.map F).sum_nat
  rw [List.map_append, List.sum_append_nat] at this
  omega

theorem sum_map_range_getD {α} (d : α) (h : α → Nat) (l : List α) :
    (l.map h).sum = ((List.range l.length).map (fun i => h (l[i]?.getD d))).sum := by
  congr 1
  apply List.ext_getElem?
  intro i
  simp only [List.getElem?_map]
  by_cases hi : i < l.length
  · simp [hi]
  · simp [hi]

end SV

namespace SV

/-! ### the visit list -/

/-- end points of the chain bonds of an out-bond list -/
def chainDsts (row : List DirBond) : List Nat := (row.filter (fun b => !b.ring)).map (·.dst)

/-- atoms in pre-order below `i` -/
def visits (g : Mol) : Nat → Nat → List Nat
  | 0, _ => []
  | f + 1, i => i :: (chainDsts (g.row i)).flatMap (visits g f)

/-- the atom indices of a pre-token list -/
def preAtoms : List PTok → List Nat
  | [] => []
  | .atom i _ :: rest => i :: preAtoms rest
  | _ :: rest => preAtoms rest

theorem preAtoms_append (a b : List PTok) : preAtoms (a ++ b) = preAtoms a ++ preAtoms b := by
  induction a with
  | nil => rfl
  | cons t rest ih => cases t <;> simp [preAtoms, ih]

theorem preAtoms_bondsPre (sub : Nat → List PTok) (row : List DirBond) :
    preAtoms (bondsPre sub row) = (chainDsts row).flatMap (fun c => preAtoms (sub c)) := by
  induction row with
  | nil => rfl
  | cons b rest ih =>
    unfold bondsPre
    cases hr : b.ring with
    | true => simp [preAtoms, ih, chainDsts, hr]
    | false =>
      cases rest with
      | nil => simp [preAtoms, chainDsts, hr]
      | cons b' rest' =>
        simp only [Bool.false_eq_true, if_false, List.isEmpty_cons, preAtoms, preAtoms_append, ih]
        simp [chainDsts, hr, List.filter_cons]

theorem preAtoms_atomPre (g : Mol) (f i : Nat) : preAtoms (atomPre g f i) = visits g f i := by
  induction f generalizing i with
  | zero => rfl
  | succ f ih =>
    simp only [atomPre, preAtoms, visits, preAtoms_bondsPre]
    congr 1
    congr 1
    funext c
    exact ih c

theorem atomIdxs_labelToks (log : RingLog) (pre : List PTok) :
    atomIdxs (labelToks log pre) = preAtoms pre := by
  induction pre generalizing log with
  | nil => rfl
  | cons t rest ih => cases t <;> simp [labelToks, atomIdxs, preAtoms, ih]

/-! ### cost = sum over the visited atoms -/

theorem bondsCost_eq (cost : Nat → Nat) (row : List DirBond) :
    bondsCost cost row = row.length + ((chainDsts row).map cost).sum := by
  induction row with
  | nil => rfl
  | cons b rest ih =>
    cases hr : b.ring <;> simp [bondsCost, chainDsts, hr, ih] <;> omega

theorem sum_map_flatMap (F : Nat → Nat) (h : Nat → List Nat) (l : List Nat) :
    ((l.flatMap h).map F).sum = (l.map (fun c => ((h c).map F).sum)).sum := by
  induction l with
  | nil => rfl
  | cons a l ih => simp [List.flatMap_cons, ih]

theorem atomCost_eq (g : Mol) (f i : Nat) :
    atomCost g f i = ((visits g f i).map (fun y => (g.row y).length + 1)).sum := by
  induction f generalizing i with
  | zero => rfl
  | succ f ih =>
    simp only [atomCost, visits, bondsCost_eq, List.map_cons, List.sum_cons, sum_map_flatMap]
    have : (fun c => atomCost g f c) = fun c => ((visits g f c).map (fun y => (g.row y).length + 1)).sum :=
      funext ih
    rw [show atomCost g f = fun c => atomCost g f c from rfl, this]
    omega

end SV

namespace SV

/-! ### every atom is visited exactly once -/

theorem sum_map_add (A B : Nat → Nat) (l : List Nat) :
    (l.map (fun c => A c + B c)).sum = (l.map A).sum + (l.map B).sum := by
  induction l with
  | nil => rfl
  | cons a l ih => simp [ih]; omega

theorem count_eq_sum_ind (x : Nat) (l : List Nat) :
    l.count x = (l.map (fun c => if c = x then 1 else 0)).sum := by
  induction l with
  | nil => rfl
  | cons a l ih =>
    simp only [List.count_cons, List.map_cons, List.sum_cons, ih, beq_iff_eq]
    omega

theorem Mol.row_nil {g : Mol} {y : Nat} (h : g.adj.length ≤ y) : g.row y = [] := by
  unfold Mol.row
  rw [List.getElem?_eq_none h]; rfl

theorem WGraph.row_nil {g : Mol} (hg : WGraph g) {y : Nat} (h : g.atoms.length ≤ y) : g.row y = [] :=
  Mol.row_nil (by rw [hg.lenA]; exact h)

theorem WGraph.mem_chainDsts {g : Mol} (hg : WGraph g) {y c : Nat} (h : c ∈ chainDsts (g.row y)) :
    y < c ∧ c < g.atoms.length ∧ y < g.atoms.length := by
  by_cases hy : y < g.atoms.length
  · unfold chainDsts at h
    obtain ⟨b, hb, rfl⟩ := List.mem_map.mp h
    obtain ⟨hbm, hbr⟩ := List.mem_filter.mp hb
    obtain ⟨h1, h2, _, _, _, h6⟩ := hg.row_bonds hy b hbm
    have := h6 (by simpa using hbr)
    omega
  · rw [hg.row_nil (by omega)] at h
    simp [chainDsts] at h

/-- counting form of "the visited atoms are the start plus the chain children of the visited atoms" -/
theorem count_visits {g : Mol} (hg : WGraph g) (x : Nat) :
    ∀ (f i : Nat), i < g.atoms.length → g.atoms.length ≤ f + i →
      (visits g f i).count x = (if i = x then 1 else 0) +
        ((visits g f i).map (fun y => (chainDsts (g.row y)).count x)).sum := by
  intro f
  induction f with
  | zero => intro i h1 h2; omega
  | succ f ih =>
    intro i h1 h2
    have hc : ∀ c ∈ chainDsts (g.row i), (List.count x ∘ visits g f) c =
        (fun c => (if c = x then 1 else 0) +
          ((visits g f c).map (fun y => (chainDsts (g.row y)).count x)).sum) c := by
      intro c hc
      obtain ⟨c1, c2, _⟩ := hg.mem_chainDsts hc
      exact ih c c2 (by omega)
    simp only [visits, List.count_cons, List.count_flatMap, List.map_cons, List.sum_cons,
      sum_map_flatMap, beq_iff_eq]
    rw [List.map_congr_left hc, sum_map_add, ← count_eq_sum_ind]
    omega

/-- all atoms in writing order -/
def allVisits (g : Mol) : List Nat := g.roots.flatMap (visits g g.atoms.length)

theorem count_allVisits_eq {g : Mol} (hg : WGraph g) (x : Nat) :
    (allVisits g).count x = g.roots.count x +
      ((allVisits g).map (fun y => (chainDsts (g.row y)).count x)).sum := by
  have hc : ∀ r ∈ g.roots, (List.count x ∘ visits g g.atoms.length) r =
      (fun r => (if r = x then 1 else 0) +
        ((visits g g.atoms.length r).map (fun y => (chainDsts (g.row y)).count x)).sum) r := by
    intro r hr
    exact count_visits hg x _ r (hg.rootsLt r hr) (by omega)
  unfold allVisits
  rw [List.count_flatMap, List.map_congr_left hc, sum_map_add, ← count_eq_sum_ind, sum_map_flatMap]

theorem count_chainDsts (x : Nat) (row : List DirBond) : (chainDsts row).count x = rsum (cw x) row := by
  induction row with
  | nil => rfl
  | cons b rest ih =>
    cases hr : b.ring <;> by_cases hd : b.dst = x <;>
      simp [chainDsts, hr, hd, cw, rsum_cons] <;>
      simp [chainDsts] at ih <;> omega

theorem wsum_eq_rows (f : DirBond → Nat) (adj : List (List DirBond)) :
    wsum f adj = (adj.map (rsum f)).sum := by
  induction adj with
  | nil => rfl
  | cons r adj ih => simp [wsum_cons, ih]

theorem chainIn_eq_range {g : Mol} (hg : WGraph g) (x : Nat) :
    chainIn g.adj x =
      ((List.range g.atoms.length).map (fun y => (chainDsts (g.row y)).count x)).sum := by
  unfold chainIn
  rw [wsum_eq_rows, sum_map_range_getD [] (rsum (cw x)) g.adj, hg.lenA]
  congr 1
  apply List.map_congr_left
  intro y _
  rw [count_chainDsts]; rfl

theorem WGraph.roots_count {g : Mol} (hg : WGraph g) (x : Nat) :
    g.roots.count x = if x ∈ g.roots then 1 else 0 := by
  have hnd : g.roots.Nodup := hg.rootsSorted.imp (fun h => Nat.ne_of_lt h)
  by_cases hx : x ∈ g.roots
  · have h1 := List.nodup_iff_count.mp hnd x
    have h2 := List.count_pos_iff.mpr hx
    simp [hx]; omega
  · simp [hx, List.count_eq_zero_of_not_mem hx]

/-- **every atom exactly once** -/
theorem count_allVisits {g : Mol} (hg : WGraph g) :
    ∀ x, x < g.atoms.length → (allVisits g).count x = 1 := by
  intro x
  induction x using Nat.strongRecOn with
  | _ x ih =>
    intro hx
    rw [count_allVisits_eq hg x]
    have hsum : ((allVisits g).map (fun y => (chainDsts (g.row y)).count x)).sum =
        ((List.range g.atoms.length).map (fun y => (chainDsts (g.row y)).count x)).sum := by
      apply sum_map_eq_of_count _ (fun y => decide (y < x))
      · intro y hy
        apply List.count_eq_zero_of_not_mem
        intro hm
        have := hg.mem_chainDsts hm
        simp at hy; omega
      · intro y hy
        have hy' : y < x := by simpa using hy
        rw [ih y hy' (by omega), List.count_range, if_pos (by omega)]
    rw [hsum, ← chainIn_eq_range hg x, hg.chainIn x hx, hg.roots_count]
    split <;> rfl

theorem mem_visits_lt {g : Mol} (hg : WGraph g) :
    ∀ (f i : Nat), i < g.atoms.length → ∀ y ∈ visits g f i, y < g.atoms.length := by
  intro f
  induction f with
  | zero => intro i _ y hy; simp [visits] at hy
  | succ f ih =>
    intro i hi y hy
    simp only [visits, List.mem_cons, List.mem_flatMap] at hy
    rcases hy with rfl | ⟨c, hc, hy⟩
    · exact hi
    · exact ih c (hg.mem_chainDsts hc).2.1 y hy

theorem mem_allVisits_lt {g : Mol} (hg : WGraph g) : ∀ y ∈ allVisits g, y < g.atoms.length := by
  intro y hy
  obtain ⟨r, hr, hy⟩ := List.mem_flatMap.mp hy
  exact mem_visits_lt hg _ r (hg.rootsLt r hr) y hy

/-- the atoms in writing order are a permutation of all atom indices -/
theorem allVisits_perm {g : Mol} (hg : WGraph g) : (allVisits g).Perm (List.range g.atoms.length) := by
  rw [List.perm_iff_count]
  intro x
  rw [List.count_range]
  by_cases hx : x < g.atoms.length
  · rw [count_allVisits hg x hx, if_pos hx]
  · rw [if_neg hx]
    apply List.count_eq_zero_of_not_mem
    intro hm
    exact hx (mem_allVisits_lt hg x hm)

end SV

namespace SV

/-! ### the fuel suffices -/

theorem count_visits_le {g : Mol} (hg : WGraph g) {r : Nat} (hr : r ∈ g.roots) (y : Nat) :
    (visits g g.atoms.length r).count y ≤ 1 := by
  have hsub : (visits g g.atoms.length r).Sublist (allVisits g) := by
    unfold allVisits
    rw [List.flatMap_def]
    exact List.sublist_flatten_of_mem (List.mem_map.mpr ⟨r, hr, rfl⟩)
  have h1 := hsub.count_le y
  have h2 : (allVisits g).count y ≤ 1 := by
    have := (allVisits_perm hg).count_eq y
    rw [this, List.count_range]; split <;> omega
  omega

theorem sum_map_const_one (l : List Nat) : (l.map (fun _ => 1)).sum = l.length := by
  induction l with
  | nil => rfl
  | cons a l ih => simp [ih]; omega

theorem atomCost_le {g : Mol} (hg : WGraph g) {r : Nat} (hr : r ∈ g.roots) :
    atomCost g g.atoms.length r ≤ g.writeFuel := by
  rw [atomCost_eq]
  have h1 := sum_map_le_range (fun y => (g.row y).length + 1) g.atoms.length
    (visits g g.atoms.length r) (mem_visits_lt hg _ r (hg.rootsLt r hr)) (count_visits_le hg hr)
  have h2 : ((List.range g.atoms.length).map (fun y => (g.row y).length + 1)).sum =
      g.totalOut + g.atoms.length := by
    rw [sum_map_add (fun y => (g.row y).length) (fun _ => 1), sum_map_const_one, List.length_range]
    congr 1
    unfold Mol.totalOut
    rw [sum_map_range_getD [] List.length g.adj, hg.lenA]
    rfl
  unfold Mol.writeFuel Mol.size
  omega

/-- **Totality and refinement**: on a graph with the C01 invariants the writer returns the
    specification's string; no failure branch is taken, `Mol.writeFuel` suffices. -/
theorem molToSmiles_eq_spec {g : Mol} (hg : WGraph g) :
    ∃ maps, molToSmiles g = .ok (specSmiles g, maps) :=
  molToSmiles_ok hg (fun _ hr => atomCost_le hg hr)

end SV
