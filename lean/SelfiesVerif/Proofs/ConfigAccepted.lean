/-
  After ANY history of API calls and caller-side mutations (the state machine of
  Proofs/Config.lean), the dict in force (`_current_constraints`) is one that the validation loop
  of `set_semantic_constraints` accepts: it was either validated by a successful
  `set_semantic_constraints(dict)`, or it is a copy of a preset, or it is the initial table; and
  no caller-side mutation can reach it (`Inv.curPriv`).

  Side conditions on the generated tables (discharged by `decide +kernel`): every preset and the
  initial table pass the validation.
-/
import SelfiesVerif.Proofs.Config

namespace SV

/-- the dict in force passes the validation of `set_semantic_constraints` -/
def CurAccepted (s : Cfg) : Prop := validateDict (s.1.dictOf s.1.current) = none

set_option maxRecDepth 100000 in
theorem curAccepted_init : CurAccepted (CfgState.init, []) := by
  unfold CurAccepted; decide +kernel

set_option maxRecDepth 100000 in
/-- side condition on the generated presets: each passes the validation -/
theorem presets_accepted :
    ∀ p ∈ CfgState.init.presets, validateDict (CfgState.init.dictOf p.2) = none := by
  decide +kernel

theorem CurAccepted.allocDict {s : Cfg} (hi : Inv s) (h : CurAccepted s) (d : PyDict)
    (held : List Nat) : CurAccepted ((s.1.allocDict d).1, held) := by
  unfold CurAccepted at h ⊢
  show validateDict ((s.1.allocDict d).1.dictOf s.1.current) = none
  rw [dictOf_allocDict_old d hi.curLive]; exact h

theorem CurAccepted.commit {s : Cfg} (hi : Inv s) {d : PyDict} (hd : validateDict d = none)
    (held : List Nat) : CurAccepted (s.1.commit d, held) := by
  unfold CurAccepted
  show validateDict ((s.1.commit d).dictOf (s.1.commit d).current) = none
  rw [dictOf_commit hi d]; exact hd

theorem CurAccepted.step {s : Cfg} (hi : Inv s) (h : CurAccepted s) (op : Op) :
    CurAccepted (step s op).1 := by
  cases op with
  | getPreset n =>
    rw [step_getPreset]; split
    · exact h
    · exact h.allocDict hi _ _
  | getConstraints => rw [step_getConstraints]; exact h.allocDict hi _ _
  | setName n =>
    rw [step_setName]; split
    · exact h
    · rename_i ref href
      have hm : (n, ref) ∈ s.1.presets := lookup_some_mem href
      have hv : validateDict (s.1.dictOf ref) = none := by
        rw [hi.presetsVal _ hm]
        exact presets_accepted _ (hi.presetsEq ▸ hm)
      exact CurAccepted.commit hi hv _
  | setDict i =>
    rw [step_setDict]; split
    · exact h
    · split
      · exact h
      · rename_i hv
        exact CurAccepted.commit hi hv _
  | setOther => exact h
  | getAlphabet =>
    rw [step_getAlphabet]; split
    · exact h
    · exact h
  | newDict d => rw [step_newDict]; exact h.allocDict hi _ _
  | mutDict i k v =>
    rw [step_mutDict]; split
    · exact h
    · rename_i ref href
      have hmem := List.mem_of_getElem? href
      have hne : s.1.current ≠ ref := fun he => hi.curPriv (he ▸ hmem)
      unfold CurAccepted at h ⊢
      show validateDict ((mutateDict s.1 ref k v).dictOf s.1.current) = none
      rw [dictOf_mutateDict_ne _ k v hne]; exact h
  | mutSet i x =>
    rw [step_mutSet]; split
    · exact h
    · exact h
  | capacity e c =>
    rw [step_capacity]
    unfold CurAccepted at h ⊢
    show validateDict ((cachedCapacity s.1 e c).1.dictOf (cachedCapacity s.1 e c).1.current) = none
    rw [cachedCapacity_current]
    unfold CfgState.dictOf
    rw [cachedCapacity_dicts]; exact h

theorem CurAccepted.runFrom {s : Cfg} (hi : Inv s) (h : CurAccepted s) (ops : List Op) :
    CurAccepted (runFrom s ops).1 := by
  induction ops generalizing s with
  | nil => exact h
  | cons op ops ih => exact ih (hi.step op) (h.step hi op)

/-- after any history the dict in force is an accepted one -/
theorem CurAccepted.run (ops : List Op) : CurAccepted (run ops).1 :=
  curAccepted_init.runFrom Inv.init ops

end SV
