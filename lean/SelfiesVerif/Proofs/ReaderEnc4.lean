/-
  C10r, part 4: (a) a parsed graph that has the atoms, roots and adjacency rows of `graphOf f'`
  for a well-formed forest `f'` IS `graphOf f'` (all fields); (b) a row that is already in decoder
  order has `decoderOrder = identity`, so `_should_invert_chirality` answers `False`.
-/
import SelfiesVerif.Proofs.ReaderEnc3

namespace SV

/-! ### (a) the graph is determined by atoms, roots and rows -/

theorem getDirBond_congr {g p : PMol} (hadj : p.adj = g.adj) (a b : Nat) :
    p.getDirBond a b = g.getDirBond a b := by
  unfold PMol.getDirBond
  rw [hadj]

theorem nodeRec_congr {g p : PMol} (ha : p.atoms = g.atoms) (hadj : p.adj = g.adj) {n : NodeInfo}
    (h : NodeRec g n) : NodeRec p n := by
  obtain ⟨h1, h2, h3⟩ := h
  refine ⟨by rw [ha]; exact h1, by rw [hadj]; exact h2, ?_⟩
  intro q o s s' hr
  rw [getDirBond_congr hadj]
  exact h3 q o s s' hr

/-- `forestOf` reads only atoms, roots and adjacency rows -/
theorem forestOf_of_fields {f' : PForest} (hwf' : f'.wf = true) (p : PMol)
    (ha : p.atoms = (graphOf f').atoms) (hr : p.roots = (graphOf f').roots)
    (hadj : p.adj = (graphOf f').adj) : forestOf p = some f' := by
  unfold forestOf
  rw [hr, graphOf_roots]
  apply mapM_treeOf
  intro t ht
  have hfuel := graphOf_fuel f' t ht
  have e1 : p.size = (graphOf f').size := by unfold PMol.size; rw [ha]
  have e2 : p.totalOut = (graphOf f').totalOut := by unfold PMol.totalOut; rw [hadj]
  rw [← e1, ← e2] at hfuel
  exact treeOf_spec p t none _
    (fun n hn => nodeRec_congr ha hadj (nodeRec_graphOf hwf' (mem_nodes_of_mem_forest ht hn))) hfuel

/-- a parsed (well-formed) graph with the atoms, roots and rows of `graphOf f'` is `graphOf f'`:
    bond counts, ring flags, (absent) attributions and the empty delocalisation subgraph included -/
theorem parsed_eq_graphOf {f' : PForest} (hwf' : f'.wf = true) (p : PMol)
    (hpw : isParsedWF p = true)
    (ha : p.atoms = (graphOf f').atoms) (hr : p.roots = (graphOf f').roots)
    (hadj : p.adj = (graphOf f').adj) : p = graphOf f' := by
  unfold isParsedWF at hpw
  rw [forestOf_of_fields hwf' p ha hr hadj] at hpw
  simp only [Bool.and_eq_true, decide_eq_true_eq] at hpw
  exact hpw.2

/-! ### (b) a row in decoder order -/

def clsOf (b : PBond) : Nat := if b.isClosing then 0 else if b.isOpening then 1 else 2
def keyOf (b : PBond) : Nat := if b.isOpening then b.dst else 0

/-- "not later in decoder order" -/
def RowLE (b c : PBond) : Prop := clsOf b < clsOf c ∨ (clsOf b = clsOf c ∧ keyOf b ≤ keyOf c)

theorem decoderOrder_of_sorted (row : List PBond) (h : row.Pairwise RowLE) :
    decoderOrder row = List.range row.length := by
  symm
  apply decoderOrder_unique row _ (List.Perm.refl _)
  refine List.Pairwise.imp_of_mem ?_ (List.pairwise_lt_range (n := row.length))
  intro i j hi hj hij
  rw [List.mem_range] at hi hj
  have hR := (List.pairwise_iff_getElem.1 h) i j hi hj hij
  have ci : bondClassAt row i = clsOf row[i] := by
    simp only [bondClassAt, List.getElem?_eq_getElem hi, clsOf]
  have cj : bondClassAt row j = clsOf row[j] := by
    simp only [bondClassAt, List.getElem?_eq_getElem hj, clsOf]
  have ki : openKeyAt row i = keyOf row[i] := by
    simp only [openKeyAt, List.getElem?_eq_getElem hi, keyOf]
  have kj : openKeyAt row j = keyOf row[j] := by
    simp only [openKeyAt, List.getElem?_eq_getElem hj, keyOf]
  unfold Before
  rw [ci, cj, ki, kj]
  unfold RowLE at hR
  omega

theorem pairwise_three {α} {R : α → α → Prop} {A B C : List α} (hA : A.Pairwise R)
    (hB : B.Pairwise R) (hC : C.Pairwise R) (hAB : ∀ a ∈ A, ∀ b ∈ B, R a b)
    (hAC : ∀ a ∈ A, ∀ c ∈ C, R a c) (hBC : ∀ b ∈ B, ∀ c ∈ C, R b c) :
    (A ++ B ++ C).Pairwise R := by
  refine List.pairwise_append.2 ⟨List.pairwise_append.2 ⟨hA, hB, hAB⟩, hC, ?_⟩
  intro x hx c hc
  rcases List.mem_append.1 hx with hx | hx
  · exact hAC x hx c hc
  · exact hBC x hx c hc

theorem clsOf_closing (i : Nat) (r : RItem) (h : ¬ i < r.1) :
    clsOf (rbOf i r) = 0 ∧ keyOf (rbOf i r) = 0 := by
  simp [clsOf, keyOf, rbOf, ringBond, PBond.isClosing, PBond.isOpening, h]

theorem clsOf_opening (i : Nat) (r : RItem) (h : i < r.1) :
    clsOf (rbOf i r) = 1 ∧ keyOf (rbOf i r) = r.1 := by
  simp [clsOf, keyOf, rbOf, ringBond, PBond.isClosing, PBond.isOpening, h]

theorem clsOf_chain (b : PBond) (h : b.ring = false) : clsOf b = 2 ∧ keyOf b = 0 := by
  simp [clsOf, keyOf, PBond.isClosing, PBond.isOpening, h]

/-- the row of a reordered node is in decoder order -/
theorem NodeInfo.reord_row_sorted (n : NodeInfo) : n.reord.row.Pairwise RowLE := by
  rw [NodeInfo.reord_row]
  unfold arrange
  rw [List.map_append]
  have hA : ∀ b ∈ ((n.items.rings.map normR).filter fun r => !decide (n.idx < r.1)).map (rbOf n.idx),
      clsOf b = 0 ∧ keyOf b = 0 := by
    intro b hb
    obtain ⟨r, hr, rfl⟩ := List.mem_map.1 hb
    exact clsOf_closing n.idx r (by simpa using (List.mem_filter.1 hr).2)
  have hB : ∀ b ∈ (sortR ((n.items.rings.map normR).filter fun r => decide (n.idx < r.1))).map (rbOf n.idx),
      clsOf b = 1 := by
    intro b hb
    obtain ⟨r, hr, rfl⟩ := List.mem_map.1 hb
    exact (clsOf_opening n.idx r (by simpa using (List.mem_filter.1 ((sortR_perm _).subset hr)).2)).1
  have hC : ∀ b ∈ (n.items.kidRow n.idx).map normB, clsOf b = 2 ∧ keyOf b = 0 := by
    intro b hb
    obtain ⟨b0, hb0, rfl⟩ := List.mem_map.1 hb
    exact clsOf_chain _ (by rw [normB_ring]; exact Items.kidRow_not_ring _ _ b0 hb0)
  apply pairwise_three
  · apply List.pairwise_of_forall_mem_list
    intro a ha b hb
    have := hA a ha; have := hA b hb
    unfold RowLE; omega
  · rw [List.pairwise_map]
    refine List.Pairwise.imp_of_mem ?_ (sortR_sorted _)
    intro a b ha hb hab
    have ha' := clsOf_opening n.idx a (by simpa using (List.mem_filter.1 ((sortR_perm _).subset ha)).2)
    have hb' := clsOf_opening n.idx b (by simpa using (List.mem_filter.1 ((sortR_perm _).subset hb)).2)
    unfold RowLE; omega
  · apply List.pairwise_of_forall_mem_list
    intro a ha b hb
    have := hC a ha; have := hC b hb
    unfold RowLE; omega
  · intro a ha b hb
    have := hA a ha; have := hB b hb
    unfold RowLE; omega
  · intro a ha b hb
    have := hA a ha; have := hC b hb
    unfold RowLE; omega
  · intro a ha b hb
    have := hB a ha; have := hC b hb
    unfold RowLE; omega

/-- … so the encoder's parity test answers `False` at every atom of the reordered graph -/
theorem shouldInvert_reord {f : PForest} (hwf : f.wf = true) {n : NodeInfo} (hn : n ∈ f.nodes) :
    shouldInvertChirality (graphOf f.reord) n.idx = .ok false := by
  obtain ⟨hnum, _, _⟩ := PForest.wf_parts hwf
  have hnk := nodes_getElem_of_mem hnum hn
  have hadj : (graphOf f.reord).adj[n.idx]? = some (n.reord.row.map some) := by
    rw [graphOf_adj, PForest.nodes_reord, List.map_map, List.getElem?_map, hnk]
    rfl
  rw [shouldInvertChirality_eq _ _ _ (getOut_eq _ _ _ hadj),
    decoderOrder_of_sorted _ (NodeInfo.reord_row_sorted n), inversions_range]
  rfl

end SV
