/-
  The decoder lays out the chain bonds in derivation order (`Ordered`): a new atom is always the
  largest index and hangs off an atom that no existing chain bond passes over (`OpenAt`);
  `formRings` only inserts ring bonds and changes bond orders.  Hence (Proofs/WriterOrder.lean)
  the writer's pre-order is the index order.
-/
import SelfiesVerif.Proofs.DecoderInv
import SelfiesVerif.Proofs.WriterOrder

namespace SV

/-- `Ordered` plus "roots exist" -/
structure OrdD (m : Mol) : Prop extends Ordered m where
  rootsLt : ∀ r ∈ m.roots, r < m.atoms.length

/-- no chain bond passes over `p`, and `p` lies in the last fragment -/
def OpenAt (m : Mol) (p : Nat) : Prop :=
  p < m.atoms.length ∧ (∀ k c, c ∈ m.cd k → k < p → c ≤ p) ∧ (∀ r ∈ m.roots, r ≤ p)

/-- `m'` extends `m`: every new chain bond ends in a new atom and starts at `low` or later -/
structure Ext (m m' : Mol) (low : Nat) : Prop where
  size : m.atoms.length ≤ m'.atoms.length
  bonds : ∀ k c, c ∈ m'.cd k → c ∈ m.cd k ∨ (m.atoms.length ≤ c ∧ low ≤ k)

theorem Ext.refl (m : Mol) (low : Nat) : Ext m m low := ⟨Nat.le_refl _, fun _ _ h => Or.inl h⟩

theorem Ext.weaken {m m' low low'} (h : Ext m m' low) (hl : low' ≤ low) : Ext m m' low' :=
  ⟨h.size, fun k c hc => by
    rcases h.bonds k c hc with h1 | ⟨h1, h2⟩
    · exact Or.inl h1
    · exact Or.inr ⟨h1, by omega⟩⟩

theorem Ext.trans {m m1 m2 low low2} (h1 : Ext m m1 low) (h2 : Ext m1 m2 low2) (hl : low ≤ low2) :
    Ext m m2 low :=
  ⟨Nat.le_trans h1.size h2.size, fun k c hc => by
    rcases h2.bonds k c hc with e | ⟨e1, e2⟩
    · exact h1.bonds k c e
    · have := h1.size
      exact Or.inr ⟨by omega, by omega⟩⟩

def lowOf (m : Mol) (state : Nat) (prev : Option Nat) : Nat :=
  if state = 0 then m.atoms.length
  else match prev with
    | some p => p
    | none => m.atoms.length

theorem lowOf_pos {m : Mol} {state : Nat} (h : state ≠ 0) (prev : Option Nat) :
    lowOf m state prev = match prev with | some p => p | none => m.atoms.length := by
  unfold lowOf; rw [if_neg h]

/-! ### primitives -/

theorem cd_addAtom (m : Mol) (a : Atom) (r : Bool) (attr) (k : Nat) :
    ((m.addAtom a r attr).1).cd k = m.cd k := by
  unfold Mol.cd Mol.row Mol.addAtom
  simp only
  by_cases hk : k < m.adj.length
  · rw [List.getElem?_append_left hk]
  · rw [List.getElem?_append_right (by omega), List.getElem?_eq_none (l := m.adj) (by omega)]
    by_cases h0 : k - m.adj.length = 0
    · rw [h0]; rfl
    · rw [List.getElem?_singleton]; simp [h0]

theorem chainDsts_snoc (row : List DirBond) (b : DirBond) (hb : b.ring = false) :
    chainDsts (row ++ [b]) = chainDsts row ++ [b.dst] := by
  simp [chainDsts, List.filter_append, hb]

theorem addBond_cd {m m' : Mol} {p x o : Nat} {st attr} (h : m.addBond p x o st attr = .ok m') :
    p < x ∧ m'.atoms = m.atoms ∧ m'.roots = m.roots ∧
      ∀ k, m'.cd k = if k = p then m.cd p ++ [x] else m.cd k := by
  unfold Mol.addBond at h
  bind_at h with ⟨_, h0, h⟩
  bind_at h with ⟨adj', h1, h⟩
  bind_at h with ⟨_, _, h⟩
  bind_at h with ⟨_, _, h⟩
  cases h
  have hpx : p < x := by
    unfold pyAssert at h0
    split at h0
    · rename_i hc; simpa using hc
    · cases h0
  unfold Mol.appendOut at h1
  simp only at h1
  split at h1
  · rename_i out hout
    cases h1
    refine ⟨hpx, rfl, rfl, ?_⟩
    intro k
    unfold Mol.cd Mol.row
    simp only
    have hlt := (List.getElem?_eq_some_iff.mp hout).1
    by_cases hk : k = p
    · subst hk
      rw [if_pos rfl, List.getElem?_set_self hlt, hout]
      simp only [Option.getD_some]
      exact chainDsts_snoc _ _ rfl
    · rw [if_neg hk, List.getElem?_set_ne (fun e => hk e.symm)]
  · cases h1

theorem OrdD.empty : OrdD {} := by
  refine ⟨⟨?_, ?_, ?_, ?_⟩, ?_⟩ <;> intros <;> simp_all [Mol.cd, Mol.row, chainDsts]

theorem OrdD.addRoot {m : Mol} (h : OrdD m) (a : Atom) (attr) :
    OrdD (m.addAtom a true attr).1 ∧ OpenAt (m.addAtom a true attr).1 m.atoms.length := by
  have hsz : ((m.addAtom a true attr).1).atoms.length = m.atoms.length + 1 := by simp [Mol.addAtom]
  have hrt : ((m.addAtom a true attr).1).roots = m.roots ++ [m.atoms.length] := by simp [Mol.addAtom]
  refine ⟨⟨⟨?_, ?_, ?_, ?_⟩, ?_⟩, ?_, ?_, ?_⟩
  · intro k c hc
    rw [cd_addAtom] at hc
    have := h.rng k c hc
    rw [hsz]; omega
  · intro k; rw [cd_addAtom]; exact h.sorted k
  · intro k k' c c' hc hc'
    rw [cd_addAtom] at hc hc'
    exact h.noCross k k' c c' hc hc'
  · intro k c r hc hr hkr
    rw [cd_addAtom] at hc
    rw [hrt] at hr
    rcases List.mem_append.mp hr with hr | hr
    · exact h.noJump k c r hc hr hkr
    · simp at hr; subst hr
      exact (h.rng k c hc).2
  · intro r hr
    rw [hrt] at hr
    rw [hsz]
    rcases List.mem_append.mp hr with hr | hr
    · have := h.rootsLt r hr; omega
    · simp at hr; omega
  · rw [hsz]; omega
  · intro k c hc _
    rw [cd_addAtom] at hc
    have := (h.rng k c hc).2; omega
  · intro r hr
    rw [hrt] at hr
    rcases List.mem_append.mp hr with hr | hr
    · have := h.rootsLt r hr; omega
    · simp at hr; omega

/-- a new atom `x = #atoms` bonded to an open atom `p` -/
theorem OrdD.addChild {m m2 : Mol} (h : OrdD m) {p : Nat} (hp : OpenAt m p)
    (hsz : m2.atoms.length = m.atoms.length + 1) (hrt : m2.roots = m.roots)
    (hcd : ∀ k, m2.cd k = if k = p then m.cd p ++ [m.atoms.length] else m.cd k) :
    OrdD m2 ∧ OpenAt m2 m.atoms.length ∧ Ext m m2 p := by
  obtain ⟨hp1, hp2, hp3⟩ := hp
  have hmem : ∀ k c, c ∈ m2.cd k → c ∈ m.cd k ∨ (k = p ∧ c = m.atoms.length) := by
    intro k c hc
    rw [hcd] at hc
    split at hc
    · rename_i hk
      subst hk
      rcases List.mem_append.mp hc with hc | hc
      · exact Or.inl hc
      · simp at hc; exact Or.inr ⟨rfl, hc⟩
    · exact Or.inl hc
  refine ⟨⟨⟨?_, ?_, ?_, ?_⟩, ?_⟩, ⟨?_, ?_, ?_⟩, ⟨?_, ?_⟩⟩
  · intro k c hc
    rw [hsz]
    rcases hmem k c hc with h1 | ⟨rfl, rfl⟩
    · have := h.rng k c h1; omega
    · omega
  · intro k
    rw [hcd]
    split
    · rename_i hk
      rw [List.pairwise_append]
      refine ⟨h.sorted p, List.pairwise_singleton _ _, ?_⟩
      intro a ha b hb
      simp at hb; subst hb
      exact (h.rng p a ha).2
    · exact h.sorted k
  · intro k k' c c' hc hc' hkk hkc
    rcases hmem k c hc with h1 | ⟨rfl, rfl⟩
    · rcases hmem k' c' hc' with h2 | ⟨rfl, rfl⟩
      · exact h.noCross k k' c c' h1 h2 hkk hkc
      · have := hp2 k c h1 hkk; omega
    · rcases hmem k' c' hc' with h2 | ⟨rfl, rfl⟩
      · exact (h.rng k' c' h2).2
      · omega
  · intro k c r hc hr hkr
    rw [hrt] at hr
    rcases hmem k c hc with h1 | ⟨rfl, rfl⟩
    · exact h.noJump k c r h1 hr hkr
    · have := hp3 r hr; omega
  · intro r hr
    rw [hrt] at hr
    have := h.rootsLt r hr
    omega
  · omega
  · intro k c hc _
    rcases hmem k c hc with h1 | ⟨rfl, rfl⟩
    · have := (h.rng k c h1).2; omega
    · omega
  · intro r hr
    rw [hrt] at hr
    have := h.rootsLt r hr
    omega
  · omega
  · intro k c hc
    rcases hmem k c hc with h1 | ⟨rfl, rfl⟩
    · exact Or.inl h1
    · exact Or.inr ⟨Nat.le_refl _, Nat.le_refl _⟩

/-- what is open stays open across an extension that starts at `p` -/
theorem OpenAt.ext {m m1 : Mol} {p : Nat} (h : OpenAt m p) (he : Ext m m1 p) (hr : m1.roots = m.roots) :
    OpenAt m1 p := by
  obtain ⟨h1, h2, h3⟩ := h
  refine ⟨by have := he.size; omega, ?_, by rw [hr]; exact h3⟩
  intro k c hc hk
  rcases he.bonds k c hc with e | ⟨_, e⟩
  · exact h2 k c e hk
  · omega

end SV

namespace SV

/-- result of a `deriveLoop` call entered at molecule `m` with `state`, `prev` -/
def OrdPost (m : Mol) (state : Nat) (prev : Option Nat) (m' : Mol) : Prop :=
  OrdD m' ∧ Ext m m' (lowOf m state prev) ∧ (state ≠ 0 → m'.roots = m.roots)

theorem OrdPost.of_fin {m mol : Mol} {rings : List RingReq} {state prev} {r : DState × Nat}
    (hO : OrdD m) (he : mol = m) (h : r.1.mol = mol ∧ r.1.rings = rings) :
    OrdPost m state prev r.1.mol := by
  rw [h.1, he]
  exact ⟨hO, Ext.refl _ _, fun _ => rfl⟩

theorem deriveLoop_ord (T : Table) (compat : Bool) : ∀ (fuel depth : Nat) (st : DState)
    (maxDerive : Option Nat) (nDerived state : Nat) (prev : Option Nat)
    (attrStack : Option (List Attribution)) (attrIndex : Nat) (r : DState × Nat),
    deriveLoop T compat fuel depth st maxDerive nDerived state prev attrStack attrIndex = .ok r →
    OrdD st.mol → (state ≠ 0 → ∀ p, prev = some p → OpenAt st.mol p) →
    OrdPost st.mol state prev r.1.mol := by
  intro fuel
  induction fuel with
  | zero => intro _ _ _ _ _ _ _ _ _ h; simp [deriveLoop] at h
  | succ fuel ih =>
    intro depth st maxDerive nDerived state prev attrStack attrIndex r h hO hP
    unfold deriveLoop at h
    dsimp only at h
    split at h
    · exact OrdPost.of_fin hO rfl (fin_ok h)
    · bind_at h with ⟨nx, hnx, h⟩
      split at h
      · exact OrdPost.of_fin hO rfl (fin_ok h)
      · rename_i index symbol stream'
        split at h
        · -- branch
          split at h
          · cases h
          · split at h
            · have g := ih _ _ _ _ _ _ _ _ _ h hO hP
              exact g
            · rename_i hst
              have hs0 : state ≠ 0 := by omega
              bind_at h with ⟨⟨binit, nextState⟩, hnb, h⟩
              dsimp only at h
              bind_at h with ⟨⟨q, nRead, stream2⟩, hri, h⟩
              dsimp only at h
              split at h
              · cases h
              · bind_at h with ⟨⟨st1, nb⟩, hrec, h⟩
                dsimp only at h
                obtain ⟨hb1, hb2, _⟩ := nextBranchState_ok hnb
                have hb0 : binit ≠ 0 := by omega
                have hn0 : nextState ≠ 0 := by omega
                obtain ⟨o1, e1, r1⟩ := ih _ _ _ _ _ _ _ _ _ hrec hO (fun _ => hP hs0)
                have r1' := r1 hb0
                dsimp only at o1 e1 r1'
                have hP2 : nextState ≠ 0 → ∀ p, prev = some p → OpenAt st1.mol p := by
                  intro _ p hp
                  have e1' := e1
                  rw [lowOf_pos hb0, hp] at e1'
                  exact (hP hs0 p hp).ext e1' r1'
                obtain ⟨o2, e2, r2⟩ := ih _ _ _ _ _ _ _ _ _ h o1 hP2
                refine ⟨o2, ?_, fun _ => (r2 hn0).trans r1'⟩
                rw [lowOf_pos hs0]
                rw [lowOf_pos hb0] at e1
                rw [lowOf_pos hn0] at e2
                apply e1.trans e2
                cases prev with
                | some p => exact Nat.le_refl _
                | none => exact e1.size
        · split at h
          · -- ring
            split at h
            · cases h
            · split at h
              · have g := ih _ _ _ _ _ _ _ _ _ h hO hP
                exact g
              · rename_i hs0'
                have hs0 : state ≠ 0 := by simpa using hs0'
                bind_at h with ⟨⟨order, nextState⟩, hnr, h⟩
                dsimp only at h
                bind_at h with ⟨⟨q, nRead, stream2⟩, hri, h⟩
                dsimp only at h
                split at h
                · cases h
                · bind_at h with ⟨_, _, h⟩
                  obtain ⟨hr1, hr2, hns⟩ := nextRingState_ok hnr
                  split at h
                  · exact OrdPost.of_fin hO rfl (fin_ok h)
                  · rename_i s'
                    have hs' : s' ≠ 0 := by have := (hns s' rfl).1; omega
                    obtain ⟨o1, e1, r1⟩ := ih _ _ _ _ _ _ _ _ _ h hO (fun _ => hP hs0)
                    refine ⟨o1, ?_, fun _ => r1 hs'⟩
                    rw [lowOf_pos hs0]
                    rw [lowOf_pos hs'] at e1
                    exact e1
          · split at h
            · -- epsilon
              split at h
              · rename_i hs0'
                have hs0 : state = 0 := by simpa using hs0'
                subst hs0
                have g := ih _ _ _ _ _ _ _ _ _ h hO hP
                exact g
              · exact OrdPost.of_fin hO rfl (fin_ok h)
            · -- atom
              split at h
              · cases h
              · rename_i bondOrder stereo atom hpa
                generalize hnas : nextAtomState bondOrder (Atom.bondingCapacity T atom).toNat state = nas at h
                obtain ⟨bo, ns⟩ := nas
                obtain ⟨n1, n2, n3, n4, n5, n6⟩ := nextAtomState_ok hnas
                dsimp only at h
                split at h
                · split at h
                  · -- new root
                    rename_i hs0'
                    have hs0 : state = 0 := by simpa using hs0'
                    subst hs0
                    obtain ⟨oR, pR⟩ := hO.addRoot atom (attrPush attrStack (index + attrIndex) symbol)
                    have eR : Ext st.mol (st.mol.addAtom atom true (attrPush attrStack (index + attrIndex) symbol)).1
                        st.mol.atoms.length :=
                      ⟨by simp [Mol.addAtom], fun k c hc => by rw [cd_addAtom] at hc; exact Or.inl hc⟩
                    split at h
                    · obtain ⟨f1, f2⟩ := fin_ok h
                      unfold OrdPost
                      rw [f1]
                      exact ⟨oR, by simpa [lowOf] using eR, fun h0 => absurd rfl h0⟩
                    · rename_i s'
                      have hs' : s' ≠ 0 := by have := (n5 s' rfl).2; omega
                      obtain ⟨o1, e1, _⟩ := ih _ _ _ _ _ _ _ _ _ h oR
                        (fun _ p hp => by cases hp; exact pR)
                      refine ⟨o1, ?_, fun h0 => absurd rfl h0⟩
                      rw [lowOf_pos hs'] at e1
                      have : lowOf st.mol 0 prev = st.mol.atoms.length := by simp [lowOf]
                      rw [this]
                      exact eR.trans e1 (Nat.le_refl _)
                  · -- atom not added
                    rename_i hs0'
                    have hs0 : state ≠ 0 := by simpa using hs0'
                    split at h
                    · exact OrdPost.of_fin hO rfl (fin_ok h)
                    · rename_i s'
                      have hs' : s' ≠ 0 := by have := (n5 s' rfl).2; omega
                      obtain ⟨o1, e1, r1⟩ := ih _ _ _ _ _ _ _ _ _ h hO (fun _ p hp => by cases hp)
                      refine ⟨o1, ?_, fun _ => r1 hs'⟩
                      rw [lowOf_pos hs'] at e1
                      rw [lowOf_pos hs0]
                      cases prev with
                      | none => exact e1
                      | some p => exact e1.weaken (Nat.le_of_lt (hP hs0 p rfl).1)
                · rename_i hbo0'
                  have hbo0 : bo ≠ 0 := by simpa using hbo0'
                  have hs0 : state ≠ 0 := by omega
                  split at h
                  · cases h
                  · rename_i p
                    bind_at h with ⟨mol1, hab, h⟩
                    obtain ⟨_, a1, a2, a3⟩ := addBond_cd hab
                    have hsz : mol1.atoms.length = st.mol.atoms.length + 1 := by
                      rw [a1]; simp [Mol.addAtom]
                    have hrt : mol1.roots = st.mol.roots := by rw [a2]; simp [Mol.addAtom]
                    have hcd : ∀ k, mol1.cd k =
                        if k = p then st.mol.cd p ++ [st.mol.atoms.length] else st.mol.cd k := by
                      intro k
                      rw [a3 k, cd_addAtom, cd_addAtom]
                      rfl
                    obtain ⟨oC, pC, eC⟩ := hO.addChild (hP hs0 p rfl) hsz hrt hcd
                    split at h
                    · obtain ⟨f1, f2⟩ := fin_ok h
                      unfold OrdPost
                      rw [f1, lowOf_pos hs0]
                      exact ⟨oC, eC, fun _ => hrt⟩
                    · rename_i s'
                      have hs' : s' ≠ 0 := by have := (n5 s' rfl).2; omega
                      obtain ⟨o1, e1, r1⟩ := ih _ _ _ _ _ _ _ _ _ h oC
                        (fun _ p' hp' => by cases hp'; exact pC)
                      refine ⟨o1, ?_, fun _ => (r1 hs').trans hrt⟩
                      rw [lowOf_pos hs'] at e1
                      rw [lowOf_pos hs0]
                      exact eC.trans e1 (Nat.le_of_lt (hP hs0 p rfl).1)

theorem deriveFragments_ord (T : Table) (compat attrib : Bool) :
    ∀ (frags : List Str) (m : Mol) (rings : List RingReq) (ai : Nat) (r : Mol × List RingReq),
    deriveFragments T compat attrib frags m rings ai = .ok r → OrdD m → OrdD r.1 := by
  intro frags
  induction frags with
  | nil =>
    intro m rings ai r h hI
    simp only [deriveFragments] at h
    cases h; exact hI
  | cons s rest ih =>
    intro m rings ai r h hI
    simp only [deriveFragments] at h
    bind_at h with ⟨⟨st, n⟩, h1, h⟩
    exact ih _ _ _ _ h (deriveLoop_ord T compat _ _ _ _ _ _ _ _ _ _ h1 hI (fun h0 => absurd rfl h0)).1

end SV

namespace SV

/-! ### the ring phase does not touch the chain skeleton -/

def cdA (adj : List (List DirBond)) (k : Nat) : List Nat := chainDsts (adj[k]?.getD [])

theorem Mol.cd_eq (m : Mol) (k : Nat) : m.cd k = cdA m.adj k := rfl

theorem cdA_set {adj : List (List DirBond)} {src : Nat} {out row' : List DirBond}
    (h : adj[src]? = some out) (hc : chainDsts row' = chainDsts out) (k : Nat) :
    cdA (adj.set src row') k = cdA adj k := by
  unfold cdA
  have hlt := (List.getElem?_eq_some_iff.mp h).1
  by_cases hk : k = src
  · subst hk
    rw [List.getElem?_set_self hlt, h]
    exact hc
  · rw [List.getElem?_set_ne (fun e => hk e.symm)]

theorem chainDsts_insertAt (b : DirBond) (hb : b.ring = true) :
    ∀ (out : List DirBond) (pos : Nat), chainDsts (insertAt out pos b) = chainDsts out
  | out, 0 => by simp [insertAt, chainDsts, hb]
  | [], _ + 1 => by simp [insertAt, chainDsts, hb]
  | x :: out, pos + 1 => by
    have ih := chainDsts_insertAt b hb out pos
    simp only [insertAt, chainDsts, List.filter_cons] at ih ⊢
    split <;> simp [ih]

theorem addBondAtLoc_cd {adj adj' : List (List DirBond)} {b : DirBond} {pos : Nat}
    (hb : b.ring = true) (h : Mol.addBondAtLoc adj b pos = .ok adj') (k : Nat) :
    cdA adj' k = cdA adj k := by
  unfold Mol.addBondAtLoc at h
  split at h
  · rename_i out hout
    split at h
    · cases h
      exact cdA_set hout (by simp [chainDsts, List.filter_append, hb]) k
    · split at h
      · cases h
        exact cdA_set hout (chainDsts_insertAt b hb out pos) k
      · cases h
  · cases h

theorem addRingBond_cd {m m' : Mol} {a b o : Nat} {s1 s2 : Option Char} {p1 p2 : Nat}
    (h : m.addRingBond a b o s1 s2 p1 p2 = .ok m') :
    (∀ k, m'.cd k = m.cd k) ∧ m'.roots = m.roots ∧ m'.atoms = m.atoms := by
  unfold Mol.addRingBond at h
  bind_at h with ⟨adj1, h1, h⟩
  bind_at h with ⟨adj2, h2, h⟩
  bind_at h with ⟨c1, _, h⟩
  bind_at h with ⟨c2, _, h⟩
  cases h
  refine ⟨fun k => ?_, rfl, rfl⟩
  rw [Mol.cd_eq, Mol.cd_eq]
  simp only
  rw [addBondAtLoc_cd rfl h2, addBondAtLoc_cd rfl h1]

theorem chainDsts_map (f : DirBond → DirBond) (hd : ∀ b, (f b).dst = b.dst)
    (hr : ∀ b, (f b).ring = b.ring) (out : List DirBond) : chainDsts (out.map f) = chainDsts out := by
  unfold chainDsts
  induction out with
  | nil => rfl
  | cons x out ih =>
    simp only [List.map_cons, List.filter_cons, hr]
    cases x.ring <;> simp [ih, hd]

theorem setOrderAt_cd (adj : List (List DirBond)) (src dst o : Nat) (k : Nat) :
    cdA (Mol.setOrderAt adj src dst o) k = cdA adj k := by
  unfold Mol.setOrderAt
  split
  · rename_i out hout
    apply cdA_set hout
    apply chainDsts_map
    · intro b; split <;> rfl
    · intro b; split <;> rfl
  · rfl

theorem updateBondOrder_cd {m m' : Mol} {a b o : Nat} (h : m.updateBondOrder a b o = .ok m') :
    (∀ k, m'.cd k = m.cd k) ∧ m'.roots = m.roots ∧ m'.atoms = m.atoms := by
  unfold Mol.updateBondOrder at h
  bind_at h with ⟨_, _, h⟩
  dsimp only at h
  bind_at h with ⟨ab, _, h⟩
  split at h
  · cases h; exact ⟨fun _ => rfl, rfl, rfl⟩
  · bind_at h with ⟨adj2, h2, h⟩
    bind_at h with ⟨cl, _, h⟩
    bind_at h with ⟨ch, _, h⟩
    cases h
    refine ⟨fun k => ?_, rfl, rfl⟩
    rw [Mol.cd_eq, Mol.cd_eq]
    simp only
    split at h2
    · bind_at h2 with ⟨_, _, h2⟩
      cases h2
      rw [setOrderAt_cd, setOrderAt_cd]
    · cases h2
      rw [setOrderAt_cd]

theorem formRings_cd (T : Table) : ∀ (rings : List RingReq) (m : Mol) (rm : List Nat) (r : Mol),
    formRings T rings m rm = .ok r →
    (∀ k, r.cd k = m.cd k) ∧ r.roots = m.roots ∧ r.atoms = m.atoms := by
  intro rings
  induction rings with
  | nil =>
    intro m rm r h
    simp only [formRings] at h
    cases h
    exact ⟨fun _ => rfl, rfl, rfl⟩
  | cons req rest ih =>
    intro m rm r h
    obtain ⟨lidx, ridx, order, lst, rst⟩ := req
    unfold formRings at h
    split at h
    · exact ih _ _ _ h
    · bind_at h with ⟨latom, _, h⟩
      bind_at h with ⟨ratom, _, h⟩
      bind_at h with ⟨lcount, _, h⟩
      bind_at h with ⟨rcount, _, h⟩
      dsimp only at h
      split at h
      · exact ih _ _ _ h
      · split at h
        · bind_at h with ⟨bond, _, h⟩
          bind_at h with ⟨m1, h6, h⟩
          obtain ⟨e1, e2, e3⟩ := updateBondOrder_cd h6
          obtain ⟨f1, f2, f3⟩ := ih _ _ _ h
          exact ⟨fun k => (f1 k).trans (e1 k), f2.trans e2, f3.trans e3⟩
        · bind_at h with ⟨lp, _, h⟩
          bind_at h with ⟨rp, _, h⟩
          bind_at h with ⟨m1, h7, h⟩
          bind_at h with ⟨rp', _, h⟩
          obtain ⟨e1, e2, e3⟩ := addRingBond_cd h7
          obtain ⟨f1, f2, f3⟩ := ih _ _ _ h
          exact ⟨fun k => (f1 k).trans (e1 k), f2.trans e2, f3.trans e3⟩

/-- the chain bonds of every decoded graph are laid out in derivation order -/
theorem decodeGraph_ordered {T : Table} {s : Str} {compat attrib : Bool} {g : Mol}
    (h : decodeGraph T s compat attrib = .ok g) : Ordered g := by
  unfold decodeGraph at h
  bind_at h with ⟨⟨m, rings⟩, h1, h⟩
  have hO := deriveFragments_ord T compat attrib _ _ _ _ _ h1 OrdD.empty
  obtain ⟨e1, e2, e3⟩ := formRings_cd T _ _ _ _ h
  simp only at hO e1 e2 e3
  refine ⟨?_, ?_, ?_, ?_⟩
  · intro k c hc; rw [e1] at hc; rw [e3]; exact hO.rng k c hc
  · intro k; rw [e1]; exact hO.sorted k
  · intro k k' c c' hc hc'; rw [e1] at hc hc'; exact hO.noCross k k' c c' hc hc'
  · intro k c r hc hr; rw [e1] at hc; rw [e2] at hr; exact hO.noJump k c r hc hr

end SV
