/-
  The three grammar state functions as TRANSLATED from the Python AST
  (`SV.Gen.next_atom_state`, `SV.Gen.next_branch_state`, `SV.Gen.next_ring_state`, over `Int`)
  agree with the hand model over `Nat` (`SV.nextAtomState`, `SV.nextBranchState`,
  `SV.nextRingState` in Model/Decoder.lean) on ALL natural arguments, including the
  assertion-failure cases.

  `Generated/StateFns.lean` is re-created on every run, so the proofs do not look at the shape
  of the generated terms: they unfold both sides and call `grind`; should `grind` fail on a
  rewritten translator output, the fallback tactic `state_fn_split` pushes `Except.map` through
  every `if`, splits every `if`, and leaves linear arithmetic (with `min`, truncated subtraction
  and `Nat → Int` casts) to `omega`.  Both tactics were checked on the generated definitions and
  on the differently-shaped hand copies `SV.Gen.Fallback.*` (see the last section).
-/
import SelfiesVerif.Generated.StateFns
import SelfiesVerif.Model.Decoder

namespace SV

/-- The translator stayed inside its subset for all three functions: no hand-written fallback
    was substituted in `Generated/StateFns.lean`.  (A fallback shows up as this obligation
    breaking.) -/
theorem translator_no_fallback : Gen.translatorFallbacks = [] := by decide

/-! ### tactic support -/

theorem Except.map_ite' {ε α β} (f : α → β) (c : Prop) [Decidable c] (a b : Except ε α) :
    (if c then a else b).map f = if c then a.map f else b.map f := by
  split <;> rfl

theorem Except.map_ok' {ε α β} (f : α → β) (a : α) :
    (Except.ok a : Except ε α).map f = .ok (f a) := rfl

theorem Except.map_error' {ε α β} (f : α → β) (e : ε) :
    (Except.error e : Except ε α).map f = .error e := rfl

/-- split-everything fallback for goals `translated = cast (hand model)` -/
macro "state_fn_split" : tactic =>
  `(tactic| (
    simp only [decide_eq_true_eq, Bool.and_eq_true, Bool.or_eq_true, Bool.not_eq_true',
      decide_eq_false_iff_not, gt_iff_lt, ge_iff_le,
      Except.map_ite', Except.map_ok', Except.map_error']
    repeat' split
    all_goals
      simp only [Except.ok.injEq, Except.error.injEq, Prod.mk.injEq, Option.some.injEq,
        Option.map_some, Option.map_none, reduceCtorEq, Option.map, and_true, true_and] at *
    all_goals first | omega | (refine ⟨?_, ?_⟩ <;> omega)))

/-- `grind`, else the split-everything fallback -/
macro "state_fn_eq" : tactic =>
  `(tactic| first
    | (simp only [Except.map_ite', Except.map_ok', Except.map_error']; grind)
    | state_fn_split)

/-! ### the three equalities (natural arguments) -/

theorem gen_next_atom_state_eq (b c s : Nat) :
    Gen.next_atom_state b c s
      = .ok (((nextAtomState b c s).1 : Int),
             (nextAtomState b c s).2.map (fun (n : Nat) => (n : Int))) := by
  unfold Gen.next_atom_state nextAtomState
  try unfold Gen.Fallback.next_atom_state
  state_fn_eq

theorem gen_next_branch_state_eq (t s : Nat) :
    Gen.next_branch_state t s
      = (nextBranchState t s).map (fun p => ((p.1 : Int), (p.2 : Int))) := by
  unfold Gen.next_branch_state nextBranchState
  try unfold Gen.Fallback.next_branch_state
  state_fn_eq

theorem gen_next_ring_state_eq (t s : Nat) :
    Gen.next_ring_state t s
      = (nextRingState t s).map
          (fun p => ((p.1 : Int), p.2.map (fun (n : Nat) => (n : Int)))) := by
  unfold Gen.next_ring_state nextRingState
  try unfold Gen.Fallback.next_ring_state
  state_fn_eq

/-! ### readable corollaries -/

/-- `next_atom_state` never raises on natural arguments -/
theorem gen_next_atom_state_ok (b c s : Nat) : ∃ r, Gen.next_atom_state b c s = .ok r :=
  ⟨_, gen_next_atom_state_eq b c s⟩

/-- `next_branch_state` raises exactly when one of its two `assert`s fails -/
theorem gen_next_branch_state_error_iff (t s : Nat) :
    Gen.next_branch_state t s = .error .AssertionError ↔ ¬ (1 ≤ t ∧ t ≤ 3 ∧ 1 < s) := by
  rw [gen_next_branch_state_eq]; unfold nextBranchState
  simp only [Except.map_ite', Except.map_ok', Except.map_error']
  grind

/-- `next_ring_state` raises exactly when its `assert state > 0` fails -/
theorem gen_next_ring_state_error_iff (t s : Nat) :
    Gen.next_ring_state t s = .error .AssertionError ↔ s = 0 := by
  rw [gen_next_ring_state_eq]; unfold nextRingState
  simp only [Except.map_ite', Except.map_ok', Except.map_error']
  grind

/-! ### beyond the naturals: the translated functions equal the hand-written `Int` copies
    (`SV.Gen.Fallback.*`) on ALL integers, negative ones included -/

theorem gen_next_atom_state_eq_int (b c s : Int) :
    Gen.next_atom_state b c s = Gen.Fallback.next_atom_state b c s := by
  unfold Gen.next_atom_state
  try unfold Gen.Fallback.next_atom_state
  first | grind | state_fn_split

theorem gen_next_branch_state_eq_int (t s : Int) :
    Gen.next_branch_state t s = Gen.Fallback.next_branch_state t s := by
  unfold Gen.next_branch_state
  try unfold Gen.Fallback.next_branch_state
  first | grind | state_fn_split

theorem gen_next_ring_state_eq_int (t s : Int) :
    Gen.next_ring_state t s = Gen.Fallback.next_ring_state t s := by
  unfold Gen.next_ring_state
  try unfold Gen.Fallback.next_ring_state
  first | grind | state_fn_split

/-! ### robustness check of the fallback tactic on a differently shaped source
    (the hand copies, which use `∧`, `if … then … else` on `Prop`s and no `decide`) -/

example (b c s : Nat) :
    Gen.Fallback.next_atom_state b c s
      = .ok (((nextAtomState b c s).1 : Int),
             (nextAtomState b c s).2.map (fun (n : Nat) => (n : Int))) := by
  unfold Gen.Fallback.next_atom_state nextAtomState
  state_fn_split

example (t s : Nat) :
    Gen.Fallback.next_branch_state t s
      = (nextBranchState t s).map (fun p => ((p.1 : Int), (p.2 : Int))) := by
  unfold Gen.Fallback.next_branch_state nextBranchState
  state_fn_split

example (t s : Nat) :
    Gen.Fallback.next_ring_state t s
      = (nextRingState t s).map
          (fun p => ((p.1 : Int), p.2.map (fun (n : Nat) => (n : Int)))) := by
  unfold Gen.Fallback.next_ring_state nextRingState
  state_fn_split

/-! ### non-vacuity on concrete values (both result classes) -/

example : Gen.next_atom_state 2 4 3 = .ok (2, some 2) := by decide
example : Gen.next_atom_state 3 3 0 = .ok (0, some 3) := by decide
example : Gen.next_atom_state 3 3 3 = .ok (3, none) := by decide
example : Gen.next_branch_state 2 3 = .ok (2, 1) := by decide
example : Gen.next_branch_state 0 3 = .error .AssertionError := by decide
example : Gen.next_branch_state 2 1 = .error .AssertionError := by decide
example : Gen.next_ring_state 2 3 = .ok (2, some 1) := by decide
example : Gen.next_ring_state 2 0 = .error .AssertionError := by decide

end SV
