/-
  C09: the `RecursionError` alternative of the emission phase is reachable in the model
  (finding F2), shown on the graph of `"C(" * n + "C" + ")C" * n` by reasoning, not by evaluation
  (the kernel cannot evaluate a 960-level nesting in reasonable time).
-/
import SelfiesVerif.Proofs.EncTotalEmit

namespace SV.C09

/-- atom `k` has exactly two chain bonds, the first one to atom `k + 1` -/
def CombAt (m : PMol) (k : Nat) : Prop :=
  ∃ (a : Atom) (b1 b2 : PBond), m.atoms[k]? = some a ∧ a.isAromatic = false ∧
    m.adj[k]? = some [some b1, some b2] ∧ b1.ring = false ∧ b2.ring = false ∧
    b1.dst = k + 1 ∧ OkOrder b1.order2

/-- on a comb of `j` more levels, started at recursion depth `depth` with `depth + j` at least the
    budget, `_fragment_to_selfies` raises `RecursionError` -/
theorem comb_recursionError {m : PMol} {N : Nat} (hcomb : ∀ k, k < N → CombAt m k) :
    ∀ (j k depth fuel : Nat) (bondInto : Option PBond) (derived : List Str)
      (maps : List AttributionMap) (ai : Nat),
    k + j = N → 1 ≤ j → 2 * j ≤ fuel → recursionBudget ≤ depth + j →
    (∀ b, bondInto = some b → OkOrder b.order2) →
    fragmentGo m fuel depth (.atomVisit bondInto k) derived maps ai = .error .RecursionError := by
  intro j
  induction j with
  | zero => intro k depth fuel bondInto derived maps ai _ h; omega
  | succ j ih =>
    intro k depth fuel bondInto derived maps ai hk _ hfuel hdepth hb
    obtain ⟨a, b1, b2, ha, harom, hadj, hr1, hr2, hdst, hord⟩ := hcomb k (by omega)
    obtain ⟨fuel, rfl⟩ : ∃ f, fuel = f + 2 := ⟨fuel - 2, by omega⟩
    obtain ⟨tok, htok⟩ := atomToSelfies_total bondInto a harom hb
    have hout : getOut m k = .ok [b1, b2] := by
      unfold getOut
      simp only [bind, Except.bind, getIdx_ok.2 hadj, List.mapM_cons, List.mapM_nil, pure, Except.pure]
    rw [fragmentGo]
    simp only [bind, Except.bind, getIdx_ok.2 ha, htok, hout, List.filter_cons, List.filter_nil, hr1, hr2,
      Bool.false_eq_true, if_false, Bool.not_false, if_true, List.nil_append]
    rw [fragmentGo]
    simp only [hr1, Bool.false_eq_true, if_false, List.length_cons, List.length_nil]
    have h01 : ((0 + 1 == 0 + 1 + 1) = true) = False := by simp
    simp only [h01, if_false]
    by_cases hd : depth + 1 ≥ recursionBudget
    · simp only [hd, if_true]
    · simp only [hd, if_false, bind, Except.bind]
      rw [hdst, ih (k + 1) (depth + 1) fuel (some b1) [] _ _ (by omega) (by omega) (by omega) (by omega)
        (by intro b hb'; cases hb'; exact hord)]

/-- … hence so does the fragment loop of `encoder` -/
theorem comb_frags_recursionError {m : PMol} {N : Nat} (hcomb : ∀ k, k < N → CombAt m k)
    (hN : recursionBudget ≤ N) (hroots : m.roots = [0]) :
    encoderFull.frags m m.roots 0 [] [] = .error .RecursionError := by
  have hpos : 0 < recursionBudget := by decide
  have hsize : N ≤ m.size := by
    obtain ⟨a, _, _, ha, _⟩ := hcomb (N - 1) (by omega)
    have := lt_of_getElem?_some ha
    unfold PMol.size; omega
  rw [hroots, encoderFull.frags]
  unfold fragmentToSelfies
  rw [comb_recursionError hcomb N 0 0 _ none [] [] 0 (by omega) (by omega) (by omega) (by omega)
    (by intro b hb; cases hb)]
  rfl

/-- the graph of `"C(" * n + "C" + ")C" * n`: atom `k < n` is bonded to `k + 1` (inside the
    parentheses) and to `2n − k` (behind them) -/
def combGraph (n : Nat) : PMol :=
  { atoms := List.replicate (2 * n + 1) { element := ['C'], isAromatic := false },
    roots := [0],
    adj := (List.range (2 * n + 1)).map fun k =>
      if k < n then
        [some { src := k, dst := k + 1, order2 := 2, stereo := none, ring := false },
         some { src := k, dst := 2 * n - k, order2 := 2, stereo := none, ring := false }]
      else [],
    counts2 := (List.range (2 * n + 1)).map fun k => if k = 0 then 4 else if k < n then 6 else 2,
    ringFlags := List.replicate (2 * n + 1) false,
    atomAttr := List.replicate (2 * n + 1) none }

theorem combGraph_comb (n : Nat) : ∀ k, k < n → CombAt (combGraph n) k := by
  intro k hk
  refine ⟨{ element := ['C'], isAromatic := false },
    { src := k, dst := k + 1, order2 := 2, stereo := none, ring := false },
    { src := k, dst := 2 * n - k, order2 := 2, stereo := none, ring := false }, ?_, rfl, ?_, rfl, rfl, rfl,
    Or.inl rfl⟩
  · simp only [combGraph, List.getElem?_replicate]
    rw [if_pos (by omega)]
  · simp only [combGraph, List.getElem?_map, List.getElem?_range (show k < 2 * n + 1 by omega),
      Option.map_some, hk, if_true]

theorem combGraph_row (n i : Nat) :
    rowAt (combGraph n).adj i =
      if i < n then
        [{ src := i, dst := i + 1, order2 := 2, stereo := none, ring := false },
         { src := i, dst := 2 * n - i, order2 := 2, stereo := none, ring := false }]
      else [] := by
  unfold rowAt
  rw [List.getD_eq_getElem?_getD]
  simp only [combGraph, List.getElem?_map]
  rcases Nat.lt_or_ge i (2 * n + 1) with hi | hi
  · rw [List.getElem?_range hi]
    simp only [Option.map_some, Option.getD_some]
    split <;> simp [bondsOf]
  · rw [List.getElem?_eq_none (by simpa using hi)]
    have : ¬ i < n := by omega
    simp [this, bondsOf]

/-- the comb is a graph the emission phase accepts (`EmitOK`, roots in range) -/
theorem combGraph_emitOK (n : Nat) :
    EmitOK (combGraph n) ∧ ∀ r ∈ (combGraph n).roots, r < (combGraph n).atoms.length := by
  have hlen : (combGraph n).adj.length = 2 * n + 1 := by simp [combGraph]
  refine ⟨⟨by simp [combGraph], ?_, ?_, ?_, ?_⟩, ?_⟩
  · intro i hi
    rw [hlen] at hi
    rw [combGraph_row]
    split
    · rename_i hin
      refine ⟨by simp; omega, ?_⟩
      intro b hb
      simp only [List.mem_cons, List.not_mem_nil, or_false] at hb
      rcases hb with rfl | rfl
      · refine ⟨rfl, by rw [hlen]; simp only; omega, by simp only; omega, ?_⟩
        simp only [Bool.false_eq_true, if_false]
        refine ⟨by omega, ?_⟩
        intro b' hb'
        rw [combGraph_row] at hb'
        split at hb'
        · simp only [List.mem_cons, List.not_mem_nil, or_false] at hb'
          rcases hb' with rfl | rfl <;> simp only <;> omega
        · cases hb'
      · refine ⟨rfl, by rw [hlen]; simp only; omega, by simp only; omega, ?_⟩
        simp only [Bool.false_eq_true, if_false]
        refine ⟨by omega, ?_⟩
        intro b' hb'
        rw [combGraph_row] at hb'
        split at hb'
        · omega
        · cases hb'
    · exact ⟨List.nodup_nil, fun b hb => by cases hb⟩
  · intro row hrow ob hob
    simp only [combGraph, List.mem_map, List.mem_range] at hrow
    obtain ⟨k, _, rfl⟩ := hrow
    split at hob
    · simp only [List.mem_cons, List.not_mem_nil, or_false] at hob
      rcases hob with rfl | rfl <;> simp
    · cases hob
  · intro a ha
    simp only [combGraph, List.mem_replicate] at ha
    rw [ha.2]
  · intro i b hb
    rw [combGraph_row] at hb
    split at hb
    · simp only [List.mem_cons, List.not_mem_nil, or_false] at hb
      rcases hb with rfl | rfl <;> exact Or.inl rfl
    · cases hb
  · intro r hr
    simp only [combGraph, List.mem_singleton] at hr
    subst hr
    simp [combGraph]

/-- **F2 in the model**: on the graph of `"C(" * 960 + "C" + ")C" * 960` the emission phase raises
    `RecursionError` -/
theorem combGraph_recursionError (n : Nat) (hn : recursionBudget ≤ n) :
    encoderFull.frags (combGraph n) (combGraph n).roots 0 [] [] = .error .RecursionError :=
  comb_frags_recursionError (combGraph_comb n) hn rfl

end SV.C09
