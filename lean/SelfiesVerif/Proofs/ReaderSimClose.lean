/-
  C01r, stage (d): closing a ring.  The partner half of the new ring bond has been read: its
  placeholder is the entry of the parser's ring log with the same label, and only that one.
-/
import SelfiesVerif.Proofs.ReaderSimRings

namespace SV

section
variable {g : Mol} {cnt : Nat → Nat} {log : RingLog} {rl : List RingOpen}

/-- the read partner of a ring bond -/
theorem partner_of_closed (hg : WGraph g) {p : Nat} {b : DirBond} (hb : (g.row p)[cnt p]? = some b)
    (hring : b.ring = true) (hclosed : closedB g cnt b = true) :
    ∃ q b', q < cnt b.dst ∧ (g.row b.dst)[q]? = some b' ∧ b'.dst = p ∧ b'.src = b.dst ∧
      b'.ring = true ∧ b'.order = b.order ∧ closedB g cnt b' = false ∧ bkey b' = bkey b := by
  have hbm := getElem?_mem_row hb
  have hbs : b.src = p := hg.row_src hbm
  have hplt := hg.row_mem_lt hbm
  obtain ⟨x, hx, hxd⟩ := closedB_iff.mp hclosed
  obtain ⟨q, hq, hxq⟩ := mem_procd.mp hx
  have hxs : x.src = b.dst := hg.row_src (procd_sub hx)
  -- the mirror of `b` is `x`
  obtain ⟨row', hrow', y, hy, hy1, hy2, hy3, hy4⟩ := hg.mirror p _ (hg.row_get hplt) b hbm hring
  have hdlt : b.dst < g.atoms.length := (hg.row_bonds hplt b hbm).2.1
  rw [hg.row_get hdlt] at hrow'
  cases hrow'
  have hyx : y = x := pw_mem_unique (hg.row_pw b.dst) hy (procd_sub hx) (by rw [hy2, hxd])
  subst hyx
  refine ⟨q, y, hq, hxq, by rw [hxd, hbs], hxs, hy4, hy3, ?_, ?_⟩
  · rw [closedB_false_iff]
    intro z hz hzd
    rw [hxd, hbs] at hz
    obtain ⟨q', hq', hzq⟩ := mem_procd.mp hz
    have := pw_pos_unique (hg.row_pw p) hzq hb (by rw [hzd, hxs])
    omega
  · unfold bkey
    rw [hxs, hxd]
    exact pkey_swap _ _

/-- a bond of the same unordered pair as `b` (from `p`, partner `b'`) is `b` or `b'` -/
theorem same_pair_cases {x b : DirBond} (hk : bkey x = bkey b) : (x.src = b.src ∧ x.dst = b.dst) ∨ (x.src = b.dst ∧ x.dst = b.src) := by
  unfold bkey at hk
  rcases pkey_eq hk with h | h <;> simp only [Prod.mk.injEq] at h
  · exact Or.inl h
  · exact Or.inr h

/-- a ring bond whose partner has been read is read: the ring is closed -/
theorem RSim.bump_ringClose (hg : WGraph g) (hr : RSim g cnt log rl) {p : Nat} {b : DirBond}
    (hb : (g.row p)[cnt p]? = some b) (hring : b.ring = true) (hclosed : closedB g cnt b = true) :
    ∃ q b' n e, q < cnt b.dst ∧ (g.row b.dst)[q]? = some b' ∧ b'.dst = p ∧ b'.src = b.dst ∧
      b'.ring = true ∧ b'.order = b.order ∧ closedB g cnt b' = false ∧
      lookup (bkey b) log = some n ∧
      rl.find? (·.label == labelText n) = some e ∧ e.atom = b.dst ∧ e.pos = q ∧
      e.bondChar = (bondText b').head? ∧
      RSim g (cntBump cnt p) log (rl.filter (·.label != labelText n)) := by
  obtain ⟨q, b', hq, hb', hd, hs', hr', ho', hcl', hk'⟩ := partner_of_closed hg hb hring hclosed
  have hbm := getElem?_mem_row hb
  have hbs : b.src = p := hg.row_src hbm
  have hne : b.dst ≠ p := by
    have := (hg.row_bonds (hg.row_mem_lt hbm) b hbm).2.2.1
    rw [hbs] at this; exact fun h => this h.symm
  obtain ⟨e, he, hea, hep⟩ := hr.complete b.dst q b' hq hb' hr' hcl'
  obtain ⟨x, n, h1, h2, h3, h4, h5, h6, h7⟩ := hr.sound e he
  rw [hea, hep, hb'] at h1
  cases h1
  rw [hk'] at h5
  -- `find?` returns `e`
  have hfind : rl.find? (·.label == labelText n) = some e := by
    cases hf : rl.find? (·.label == labelText n) with
    | none =>
      have := List.find?_eq_none.mp hf e he
      simp [h6] at this
    | some e' =>
      have hm := List.mem_of_find?_eq_some hf
      have hl : e'.label = labelText n := by simpa using List.find?_some hf
      have : e' = e := by
        have hnd := hr.nodup
        rw [List.nodup_iff_pairwise_ne, List.pairwise_map] at hnd
        exact pairwise_unique hnd hm he (by rw [hl, h6]; simp) (by rw [hl, h6]; simp)
      rw [this]
  -- what changes: only `b'` becomes closed
  have hchg : ∀ {j : Nat} {x : DirBond}, x ∈ procd g cnt j → x ≠ b' →
      closedB g (cntBump cnt p) x = closedB g cnt x := by
    intro j x hx hxne
    rw [closedB_bump hb]
    cases h : (x.dst == p && b.dst == x.src) with
    | false => simp
    | true =>
      exfalso
      simp only [Bool.and_eq_true, beq_iff_eq] at h
      have hxs : x.src = j := hg.row_src (procd_sub hx)
      have hxm : x ∈ g.row b.dst := by rw [h.2, hxs]; exact procd_sub hx
      exact hxne (pw_mem_unique (hg.row_pw b.dst) hxm (getElem?_mem_row hb') (by rw [h.1, hd]))
  refine ⟨q, b', n, e, hq, hb', hd, hs', hr', ho', hcl', h5, hfind, hea, hep, h7, ?_⟩
  refine ⟨hr.logOK, ?_, ?_, ?_, ?_, ?_⟩
  · intro j x hx hxr
    rcases mem_procd_bump hb hx with hx' | ⟨_, rfl⟩
    · exact hr.logHas j x hx' hxr
    · rw [h5]; rfl
  · intro e0 he0
    obtain ⟨j, x, hx, g1, g2⟩ := hr.logOnly e0 he0
    exact ⟨j, x, procd_bump_sub hb hx, g1, g2⟩
  · exact List.Nodup.sublist (List.Sublist.map _ List.filter_sublist) hr.nodup
  · intro e0 he0
    rw [List.mem_filter] at he0
    obtain ⟨he0, hlab⟩ := he0
    obtain ⟨x, n0, g1, g2, g3, g4, g5, g6, g7⟩ := hr.sound e0 he0
    refine ⟨x, n0, g1, lt_bump g2, g3, ?_, g5, g6, g7⟩
    rw [hchg (mem_procd_of_pos g2 g1)]
    · exact g4
    · rintro rfl
      rw [hk', h5] at g5
      cases g5
      simp [g6] at hlab
  · intro j pos x hpos hx hxr hcl
    rcases pos_bump_cases hpos with h | ⟨rfl, rfl⟩
    · have hxp := mem_procd_of_pos h hx
      by_cases hxb : x = b'
      · exfalso
        subst hxb
        rw [closedB_bump hb] at hcl
        simp [hd, hs'] at hcl
      · rw [hchg hxp hxb] at hcl
        obtain ⟨e0, he0, g1, g2⟩ := hr.complete j pos x h hx hxr hcl
        refine ⟨e0, List.mem_filter.mpr ⟨he0, ?_⟩, g1, g2⟩
        obtain ⟨x0, n0, f1, f2, f3, f4, f5, f6, f7⟩ := hr.sound e0 he0
        rw [g1, g2, hx] at f1
        cases f1
        simp only [bne_iff_ne, ne_eq]
        rw [f6]
        intro heq
        have hn := labelText_inj heq
        subst hn
        -- same label, hence same unordered pair: `x` is `b'` or lies in the row of `p` beside `b`
        have hkx : bkey x = bkey b :=
          hr.logOK.val_inj (lookup_some f5) (lookup_some h5)
        have hxs : x.src = j := hg.row_src (procd_sub hxp)
        rcases same_pair_cases hkx with ⟨c1, c2⟩ | ⟨c1, c2⟩
        · have hjp : j = p := by omega
          subst hjp
          have := pw_pos_unique (hg.row_pw j) hx hb c2
          omega
        · have hjd : j = b.dst := by omega
          subst hjd
          exact hxb (pw_mem_unique (hg.row_pw b.dst) (procd_sub hxp) (getElem?_mem_row hb')
            (by rw [c2, hd, hbs]))
    · rw [hb] at hx; cases hx
      rw [closedB_bump_new hg hb, hclosed] at hcl
      cases hcl

end

end SV
