/-
  C03, stage 0: the encoder's explicit-fuel recursion `fragmentGo` on the graph of a tree emits
  exactly `Tree.encode`.
-/
import SelfiesVerif.Spec.SameMolecule
import SelfiesVerif.Proofs.IndexCode

namespace SV

/-! ### rows split into ring bonds and chain bonds -/

def Items.ringRow (i : Nat) : Items → List PBond
  | .nil => []
  | .ring p o s _ rest => ringBond i p o s :: rest.ringRow i
  | .child _ _ _ rest => rest.ringRow i

def Items.kidRow (i : Nat) : Items → List PBond
  | .nil => []
  | .ring _ _ _ _ rest => rest.kidRow i
  | .child o s t rest => chainBond i t.idx o s :: rest.kidRow i

theorem Items.filter_ring_row (i : Nat) : ∀ its : Items, (its.row i).filter (·.ring) = its.ringRow i
  | .nil => rfl
  | .ring p o s s' rest => by
    have ih := Items.filter_ring_row i rest
    simp only [Items.row, Items.ringRow, ringBond, List.filter_cons_of_pos, ih]
  | .child o s t rest => by
    have ih := Items.filter_ring_row i rest
    simp only [Items.row, Items.ringRow, chainBond]
    rw [List.filter_cons_of_neg (by simp), ih]

theorem Items.filter_chain_row (i : Nat) :
    ∀ its : Items, (its.row i).filter (fun b => !b.ring) = its.kidRow i
  | .nil => rfl
  | .ring p o s s' rest => by
    have ih := Items.filter_chain_row i rest
    simp only [Items.row, Items.kidRow, ringBond]
    rw [List.filter_cons_of_neg (by simp), ih]
  | .child o s t rest => by
    have ih := Items.filter_chain_row i rest
    simp only [Items.row, Items.kidRow, chainBond]
    rw [List.filter_cons_of_pos (by simp), ih]

theorem Items.hasKid_iff (i : Nat) : ∀ its : Items, its.hasKid = true ↔ its.kidRow i ≠ []
  | .nil => by simp [Items.hasKid, Items.kidRow]
  | .ring _ _ _ _ rest => by simp only [Items.hasKid, Items.kidRow]; exact Items.hasKid_iff i rest
  | .child _ _ _ _ => by simp [Items.hasKid, Items.kidRow]

theorem Items.length_row (i : Nat) :
    ∀ its : Items, (its.row i).length = (its.ringRow i).length + (its.kidRow i).length
  | .nil => rfl
  | .ring _ _ _ _ rest => by
    simp only [Items.row, Items.ringRow, Items.kidRow, List.length_cons, Items.length_row i rest]; omega
  | .child _ _ _ rest => by
    simp only [Items.row, Items.ringRow, Items.kidRow, List.length_cons, Items.length_row i rest]; omega

/-! ### fuel and depth the encoder needs -/

def Items.rcount : Items → Nat
  | .nil => 0
  | .ring _ _ _ _ rest => 1 + rest.rcount
  | .child _ _ _ rest => rest.rcount

theorem Items.ringRow_length (i : Nat) : ∀ its : Items, (its.ringRow i).length = its.rcount
  | .nil => rfl
  | .ring _ _ _ _ rest => by
    simp only [Items.ringRow, Items.rcount, List.length_cons, Items.ringRow_length i rest]; omega
  | .child _ _ _ rest => by simp only [Items.ringRow, Items.rcount, Items.ringRow_length i rest]

mutual
/-- steps of `fragmentGo` along the longest chain of calls for the subtree -/
def Tree.cost : Tree → Nat
  | .node _ _ its => 2 + its.rcount + its.kcost
def Items.kcost : Items → Nat
  | .nil => 0
  | .ring _ _ _ _ rest => rest.kcost
  | .child _ _ t rest => 1 + t.cost + rest.kcost
end

/-! ### what the graph must provide for a node -/

structure NodeEncOK (m : PMol) (n : NodeInfo) : Prop where
  atom : m.atoms[n.idx]? = some n.atom
  row : m.adj[n.idx]? = some (n.row.map some)
  arom : n.atom.isAromatic = false
  orders : ∀ b ∈ n.row, okOrder2 b.order2
  rev : ∀ p o s s', (p, o, s, s') ∈ n.items.rings → ¬ n.idx < p →
    p < n.idx ∧ m.getDirBond p n.idx = .ok (ringBond p n.idx o s')

/-! ### symbol-level facts -/

theorem okOr_ok {α} {d : α} {x : Py α} {y : α} (h : x = .ok y) : okOr d x = y := by
  subst h; rfl

theorem bondToSmiles2_ok (o2 : Nat) (st : Option Char) (h : okOrder2 o2) :
    ∃ s, bondToSmiles2 o2 st = .ok s := by
  unfold bondToSmiles2
  rcases h with rfl | rfl | rfl
  · cases st <;> exact ⟨_, rfl⟩
  · exact ⟨_, rfl⟩
  · exact ⟨_, rfl⟩

theorem bondToSelfies_ok (b : PBond) (show_ : Bool) (h : okOrder2 b.order2) :
    ∃ s, bondToSelfies b show_ = .ok s := by
  unfold bondToSelfies
  split
  · exact ⟨_, rfl⟩
  · exact bondToSmiles2_ok _ _ h

theorem atomToSmiles_ok (a : Atom) (h : a.isAromatic = false) (br : Bool) :
    ∃ s, atomToSmiles a br = .ok s := by
  unfold atomToSmiles
  rw [h]
  simp only [Bool.false_eq_true, if_false]
  split <;> exact ⟨_, rfl⟩

theorem atomToSelfies_eq_atomSym (into : Option PBond) (a : Atom) (h : a.isAromatic = false)
    (hb : ∀ b, into = some b → okOrder2 b.order2) :
    atomToSelfies into a = .ok (atomSym into a) := by
  have : ∃ x, atomToSelfies into a = .ok x := by
    unfold atomToSelfies
    obtain ⟨s, hs⟩ := atomToSmiles_ok a h false
    cases into with
    | none =>
      simp only [h, pyAssert, Bool.not_false, if_true, bind, Except.bind, pure, Except.pure, hs]
      exact ⟨_, rfl⟩
    | some b =>
      obtain ⟨bc, hbc⟩ := bondToSelfies_ok b true (hb b rfl)
      simp only [h, pyAssert, Bool.not_false, if_true, bind, Except.bind, pure, Except.pure, hs, hbc]
      exact ⟨_, rfl⟩
  obtain ⟨x, hx⟩ := this
  rw [hx, atomSym, okOr_ok hx]

theorem getSelfiesFromIndex_eq (n : Nat) : getSelfiesFromIndex (n : Int) = .ok (idxSyms n) := by
  have h := getSelfiesFromIndex_nat indexTablesOK n
  rw [h, idxSyms, okOr_ok h]

theorem ringBondsToSelfies_ok (l r : PBond) (h : l.order2 = r.order2) (ho : okOrder2 l.order2) :
    ∃ s, ringBondsToSelfies l r = .ok s := by
  unfold ringBondsToSelfies
  have : (l.order2 == r.order2) = true := by simp [h]
  simp only [this, pyAssert, if_true, bind, Except.bind]
  split
  · exact bondToSelfies_ok l false ho
  · exact ⟨_, rfl⟩

theorem pushIndexSyms_fst (q : List Str) (attr) (ai : Nat) (d : List Str) (maps : List AttributionMap) :
    (pushIndexSyms q attr ai d maps).1 = d ++ q := by
  unfold pushIndexSyms
  induction q generalizing d maps with
  | nil => simp
  | cons s q ih =>
    rw [List.foldl_cons, ih]
    simp

theorem getOut_eq (m : PMol) (i : Nat) (row : List PBond) (h : m.adj[i]? = some (row.map some)) :
    getOut m i = .ok row := by
  unfold getOut
  simp only [getIdx, h, bind, Except.bind]
  clear h
  induction row with
  | nil => rfl
  | cons b row ih =>
    simp only [List.map_cons, List.mapM_cons, bind, Except.bind, pure, Except.pure] at ih ⊢
    rw [ih]

/-! ### the ring phase of the bond loop -/

theorem enc_rings (m : PMol) (i : Nat) (depth ai : Nat) :
    ∀ (its : Items) (tail : List PBond) (fuel c outLen : Nat) (next : Option PBond)
      (derived : List Str) (maps : List AttributionMap),
      (∀ p o s s', (p, o, s, s') ∈ its.rings → okOrder2 o ∧ (¬ i < p →
        p < i ∧ m.getDirBond p i = .ok (ringBond p i o s'))) →
      ∃ maps', fragmentGo m (fuel + (its.ringRow i).length) depth
          (.bondLoop (its.ringRow i ++ tail) c outLen next) derived maps ai
        = fragmentGo m fuel depth (.bondLoop tail (c + (its.ringRow i).length) outLen next)
          (derived ++ its.encRings i) maps' ai
  | .nil, tail, fuel, c, outLen, next, derived, maps, _ => by
    exact ⟨maps, by simp [Items.ringRow, Items.encRings]⟩
  | .child _ _ _ rest, tail, fuel, c, outLen, next, derived, maps, h => by
    simp only [Items.ringRow, Items.encRings]
    exact enc_rings m i depth ai rest tail fuel c outLen next derived maps
      (fun p o s s' hm => h p o s s' (by simpa [Items.rings] using hm))
  | .ring p o s s' rest, tail, fuel, c, outLen, next, derived, maps, h => by
    have hrest : ∀ p o s s', (p, o, s, s') ∈ rest.rings → okOrder2 o ∧ (¬ i < p →
        p < i ∧ m.getDirBond p i = .ok (ringBond p i o s')) :=
      fun p o s s' hm => h p o s s' (by simp [Items.rings, hm])
    obtain ⟨ho, hcl⟩ := h p o s s' (by simp [Items.rings])
    simp only [Items.ringRow, Items.encRings, List.length_cons, List.cons_append]
    rw [show fuel + ((rest.ringRow i).length + 1) = (fuel + (rest.ringRow i).length) + 1 by omega,
      fragmentGo.eq_5]
    simp only [ringBond, if_true]
    by_cases hip : i < p
    · simp only [hip, if_true]
      obtain ⟨maps', hm⟩ := enc_rings m i depth ai rest tail fuel (c + 1) outLen next derived maps hrest
      refine ⟨maps', ?_⟩
      rw [hm]
      congr 2
      omega
    · simp only [hip, if_false]
      obtain ⟨hpi, hrev⟩ := hcl hip
      have hidx : ((i : Int) - (p : Int) - 1) = ((i - p - 1 : Nat) : Int) := by omega
      obtain ⟨pre, hpre⟩ := ringBondsToSelfies_ok (ringBond p i o s') (ringBond i p o s) rfl ho
      simp only [ringBond] at hrev hpre
      simp only [hrev, hidx, getSelfiesFromIndex_eq, hpre, bind, Except.bind]
      obtain ⟨maps', hm⟩ := enc_rings m i depth ai rest tail fuel (c + 1) outLen next
        (pushIndexSyms (idxSyms (i - p - 1)) none ai
          (derived ++ [ringSymbol pre "Ring".toList (idxSyms (i - p - 1)).length])
          (maps ++ [{ index := ((derived ++ [ringSymbol pre "Ring".toList (idxSyms (i - p - 1)).length]).length : Int) - 1 + ai,
                      token := ringSymbol pre "Ring".toList (idxSyms (i - p - 1)).length,
                      attribution := none }])).1
        (pushIndexSyms (idxSyms (i - p - 1)) none ai
          (derived ++ [ringSymbol pre "Ring".toList (idxSyms (i - p - 1)).length])
          (maps ++ [{ index := ((derived ++ [ringSymbol pre "Ring".toList (idxSyms (i - p - 1)).length]).length : Int) - 1 + ai,
                      token := ringSymbol pre "Ring".toList (idxSyms (i - p - 1)).length,
                      attribution := none }])).2 hrest
      refine ⟨maps', ?_⟩
      rw [hm, pushIndexSyms_fst]
      simp only [ringSyms, ringBond, okOr_ok hpre, List.append_assoc, List.cons_append,
        List.nil_append]
      congr 2
      omega

theorem Items.mem_rings_row (i : Nat) : ∀ (its : Items) (p o : Nat) (s s' : Option Char),
    (p, o, s, s') ∈ its.rings → ringBond i p o s ∈ its.row i
  | .nil, _, _, _, _, h => by simp [Items.rings] at h
  | .ring p' o' s1 s1' rest, p, o, s, s', h => by
    simp only [Items.rings, List.mem_cons, Prod.mk.injEq] at h
    simp only [Items.row, List.mem_cons]
    rcases h with ⟨rfl, rfl, rfl, rfl⟩ | h
    · exact Or.inl rfl
    · exact Or.inr (Items.mem_rings_row i rest p o s s' h)
  | .child _ _ _ rest, p, o, s, s', h => by
    simp only [Items.rings] at h
    simp only [Items.row, List.mem_cons]
    exact Or.inr (Items.mem_rings_row i rest p o s s' h)

theorem Items.kidRow_sub_row (i : Nat) : ∀ (its : Items) (b : PBond), b ∈ its.kidRow i → b ∈ its.row i
  | .nil, _, h => by simp [Items.kidRow] at h
  | .ring _ _ _ _ rest, b, h => by
    simp only [Items.kidRow] at h
    simp only [Items.row, List.mem_cons]
    exact Or.inr (Items.kidRow_sub_row i rest b h)
  | .child _ _ _ rest, b, h => by
    simp only [Items.kidRow, List.mem_cons] at h
    simp only [Items.row, List.mem_cons]
    rcases h with h | h
    · exact Or.inl h
    · exact Or.inr (Items.kidRow_sub_row i rest b h)

theorem Tree.cost_ge (t : Tree) : 2 ≤ t.cost := by
  cases t; simp only [Tree.cost]; omega

theorem Tree.encode_length_pos (into : Option PBond) (t : Tree) : 1 ≤ (t.encode into).length := by
  cases t; simp only [Tree.encode, List.length_cons]; omega

/-! ### stage 0: the encoder's recursion -/

mutual
theorem enc_tree (m : PMol) : ∀ (t : Tree) (into : Option PBond) (fuel depth : Nat)
    (derived : List Str) (maps : List AttributionMap) (ai : Nat),
    t.cost ≤ fuel → depth + t.bdepth < recursionBudget →
    (∀ n ∈ t.nodes into, NodeEncOK m n) → (∀ b, into = some b → okOrder2 b.order2) →
    ∃ maps', fragmentGo m fuel depth (.atomVisit into t.idx) derived maps ai
      = .ok (derived ++ t.encode into, maps')
  | .node i a its, into, fuel, depth, derived, maps, ai, hf, hd, hn, hb => by
    simp only [Tree.cost] at hf
    simp only [Tree.bdepth] at hd
    obtain ⟨fuel, rfl⟩ : ∃ f, fuel = f + 1 := ⟨fuel - 1, by omega⟩
    have h0 := hn ⟨into, i, a, its⟩ (by simp [Tree.nodes])
    have hatom : m.atoms[i]? = some a := h0.atom
    have hrow : m.adj[i]? = some ((its.row i).map some) := h0.row
    have harom : a.isAromatic = false := h0.arom
    have h1 : getIdx m.atoms i = .ok a := by simp [getIdx, hatom]
    have h2 := atomToSelfies_eq_atomSym into a harom hb
    have h3 := getOut_eq m i _ hrow
    rw [Tree.idx, fragmentGo.eq_2]
    simp only [h1, h2, h3, bind, Except.bind, Items.filter_ring_row, Items.filter_chain_row]
    have hrings : ∀ p o s s', (p, o, s, s') ∈ its.rings → okOrder2 o ∧ (¬ i < p →
        p < i ∧ m.getDirBond p i = .ok (ringBond p i o s')) := by
      intro p o s s' hm
      exact ⟨h0.orders _ (Items.mem_rings_row i its p o s s' hm), h0.rev p o s s' hm⟩
    have hlen := Items.ringRow_length i its
    obtain ⟨maps1, e1⟩ := enc_rings m i depth ai its (its.kidRow i) (fuel - its.rcount) 0
      ((its.ringRow i ++ its.kidRow i).length) none (derived ++ [atomSym into a])
      (maps ++ [{ index := ((derived ++ [atomSym into a]).length : Int) - 1 + ai,
                  token := atomSym into a, attribution := (m.atomAttr[i]?).getD none }]) hrings
    rw [show fuel - its.rcount + (its.ringRow i).length = fuel by omega] at e1
    rw [e1]
    obtain ⟨maps2, e2⟩ := enc_kids m its i (fuel - its.rcount) depth (0 + (its.ringRow i).length)
      ((its.ringRow i ++ its.kidRow i).length) (derived ++ [atomSym into a] ++ its.encRings i) maps1 ai
      (by omega) hd (by simp) (fun n hn' => hn n (by simp [Tree.nodes, hn']))
      (fun b hb' => h0.orders b (Items.kidRow_sub_row i its b hb'))
    refine ⟨maps2, ?_⟩
    rw [e2]
    simp [Tree.encode]
theorem enc_kids (m : PMol) : ∀ (its : Items) (i : Nat) (fuel depth c outLen : Nat)
    (derived : List Str) (maps : List AttributionMap) (ai : Nat),
    its.kcost + 1 ≤ fuel → depth + its.bdepth < recursionBudget →
    c + (its.kidRow i).length = outLen →
    (∀ n ∈ its.nodes i, NodeEncOK m n) → (∀ b ∈ its.kidRow i, okOrder2 b.order2) →
    ∃ maps', fragmentGo m fuel depth (.bondLoop (its.kidRow i) c outLen none) derived maps ai
      = .ok (derived ++ its.encKids i, maps')
  | .nil, i, fuel, depth, c, outLen, derived, maps, ai, hf, _, _, _, _ => by
    obtain ⟨fuel, rfl⟩ : ∃ f, fuel = f + 1 := ⟨fuel - 1, by omega⟩
    exact ⟨maps, by simp [Items.kidRow, Items.encKids, fragmentGo.eq_3, pure, Except.pure]⟩
  | .ring _ _ _ _ rest, i, fuel, depth, c, outLen, derived, maps, ai, hf, hd, hc, hn, hb => by
    simp only [Items.kidRow, Items.encKids]
    exact enc_kids m rest i fuel depth c outLen derived maps ai hf hd hc hn hb
  | .child o s t rest, i, fuel, depth, c, outLen, derived, maps, ai, hf, hd, hc, hn, hb => by
    simp only [Items.kcost] at hf
    simp only [Items.kidRow, List.length_cons] at hc
    have htc := Tree.cost_ge t
    obtain ⟨fuel, rfl⟩ : ∃ f, fuel = f + 1 := ⟨fuel - 1, by omega⟩
    have hbo : okOrder2 o := hb (chainBond i t.idx o s) (by simp [Items.kidRow])
    have hnt : ∀ n ∈ t.nodes (some (chainBond i t.idx o s)), NodeEncOK m n :=
      fun n hn' => hn n (by simp [Items.nodes, hn'])
    have hnr : ∀ n ∈ rest.nodes i, NodeEncOK m n :=
      fun n hn' => hn n (by simp [Items.nodes, hn'])
    have hbr : ∀ b ∈ rest.kidRow i, okOrder2 b.order2 :=
      fun b hb' => hb b (by simp [Items.kidRow, hb'])
    simp only [Items.kidRow, Items.encKids]
    rw [fragmentGo.eq_5]
    simp only [chainBond, Bool.false_eq_true, if_false]
    cases hk : rest.hasKid with
    | true =>
      simp only [Items.bdepth, hk, if_true] at hd
      have hne : rest.kidRow i ≠ [] := (Items.hasKid_iff i rest).1 hk
      have hlen : 1 ≤ (rest.kidRow i).length := by
        cases h : rest.kidRow i with
        | nil => exact absurd h hne
        | cons _ _ => simp
      have hc1 : (c + 1 == outLen) = false := by simp; omega
      have hdep : ¬ (depth + 1 ≥ recursionBudget) := by omega
      simp only [hc1, Bool.false_eq_true, if_false, hdep]
      obtain ⟨maps1, e1⟩ := enc_tree m t (some (chainBond i t.idx o s)) fuel (depth + 1) [] maps
        derived.length (by omega) (by omega) hnt (by intro b hb'; cases hb'; exact hbo)
      simp only [chainBond] at e1
      obtain ⟨pre, hpre⟩ := bondToSelfies_ok (chainBond i t.idx o s) false hbo
      simp only [chainBond] at hpre
      have hpos := Tree.encode_length_pos (some (chainBond i t.idx o s)) t
      simp only [chainBond] at hpos
      have hidx : (((([] : List Str) ++ t.encode (some { src := i, dst := t.idx, order2 := o, stereo := s, ring := false })).length : Int) - 1)
          = (((t.encode (some { src := i, dst := t.idx, order2 := o, stereo := s, ring := false })).length - 1 : Nat) : Int) := by
        simp only [List.nil_append]; omega
      simp only [e1, bind, Except.bind, hidx, getSelfiesFromIndex_eq, hpre]
      generalize hps : pushIndexSyms _ _ _ _ _ = ps
      obtain ⟨d1, mp1⟩ := ps
      have hd1 := pushIndexSyms_fst _ _ _ _ _ ▸ congrArg Prod.fst hps
      simp only at hd1
      obtain ⟨maps2, e2⟩ := enc_kids m rest i fuel depth (c + 1) outLen
        (d1 ++ ([] ++ t.encode (some { src := i, dst := t.idx, order2 := o, stereo := s, ring := false })))
        (((List.range mp1.length).zip mp1 |>.map fun (x : Nat × AttributionMap) =>
          match x with
          | (j, am) =>
            if (decide (maps.length ≤ j) && decide (j < maps1.length)) = true then
              { index := am.index + ((idxSyms ((t.encode (some { src := i, dst := t.idx, order2 := o, stereo := s, ring := false })).length - 1)).length + 1 : Nat),
                token := am.token, attribution := am.attribution }
            else am) ++
          [{ index := (d1.length : Int) - 1 + ai,
             token := ringSymbol pre "Branch".toList (idxSyms ((t.encode (some { src := i, dst := t.idx, order2 := o, stereo := s, ring := false })).length - 1)).length,
             attribution := none }])
        ai (by omega) (by omega) (by omega) hnr hbr
      refine ⟨maps2, ?_⟩
      rw [e2, ← hd1]
      simp only [if_true, branchSyms, okOr_ok hpre, List.append_assoc, List.cons_append,
        List.nil_append]
    | false =>
      simp only [Items.bdepth, hk, Bool.false_eq_true, if_false] at hd
      have hnil : rest.kidRow i = [] := by
        by_cases h : rest.kidRow i = []
        · exact h
        · have := (Items.hasKid_iff i rest).2 h; rw [hk] at this; cases this
      rw [hnil] at hc ⊢
      have hc1 : (c + 1 == outLen) = true := by simp at hc ⊢; omega
      simp only [hc1, if_true]
      obtain ⟨fuel, rfl⟩ : ∃ f, fuel = f + 1 := ⟨fuel - 1, by omega⟩
      rw [fragmentGo.eq_4]
      obtain ⟨maps1, e1⟩ := enc_tree m t (some (chainBond i t.idx o s)) fuel depth derived maps
        ai (by omega) hd hnt (by intro b hb'; cases hb'; exact hbo)
      simp only [chainBond] at e1
      exact ⟨maps1, by rw [e1]; simp⟩
end

end SV
