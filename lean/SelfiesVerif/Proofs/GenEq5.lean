/-
  Tie (a), encodings: the functions of selfies/utils/encoding_utils.py as TRANSLATED from the
  Python AST on every run (`Generated/EncodingFns.lean`) equal the hand model
  (Model/Encoding.lean) for every argument of their domain.

  Domain.  `vocab_itos` is a dict with `int` keys and `str` values (association list
  `List (Int × Str)`, the model's `VocabItos`); labels are ints; one-hot rows are lists of ints;
  `enc_type` is ANY Python string (`EncType.ofStr` is the bridge to the model's `EncType`, the
  same mapping as `decEncType` of Driver.lean).  The parameter `encoding` is annotated
  `Union[List[int], List[List[int]]]`: the translated function takes a Lean sum; the model takes
  both a label list and a matrix and uses the one that `enc_type` selects (`encodingArg`).
-/
import SelfiesVerif.Generated.EncodingFns
import SelfiesVerif.Model.Encoding

set_option linter.unusedSimpArgs false

namespace SV

/-- no hand-written fallback was substituted in `Generated/EncodingFns.lean` -/
theorem translator_no_fallback_encoding : Gen.translatorFallbacksEncoding = [] := by decide

/-- the Python string `enc_type` as the model's `EncType` -/
def EncType.ofStr (s : Str) : EncType :=
  if s = "label".toList then .label
  else if s = "one_hot".toList then .oneHot
  else if s = "both".toList then .both
  else .other

/-- the `encoding` argument that goes with `enc_type`: the matrix for `"one_hot"`, else the labels -/
def encodingArg (enc : EncType) (labels : List Int) (rows : List (List Int)) :
    List Int ⊕ List (List Int) :=
  match enc with
  | .oneHot => .inr rows
  | _ => .inl labels

/-! ### loops: `acc.append(f x)` in a `for` is `mapM f` -/

theorem foldlM_append_mapM {α β} (f : α → Py β) (step : List β → α → Py (List β))
    (hstep : ∀ acc x, step acc x = (f x >>= fun y => Except.ok (acc ++ [y]))) :
    ∀ (l : List α) (acc : List β),
      List.foldlM step acc l = (l.mapM f >>= fun r => Except.ok (acc ++ r))
  | [], acc => by simp [pure, Except.pure, bind, Except.bind]
  | x :: l, acc => by
    rw [List.foldlM_cons, hstep, List.mapM_cons]
    cases hx : f x with
    | error e => rfl
    | ok y =>
      simp only [bind, Except.bind]
      have h := foldlM_append_mapM f step hstep l (acc ++ [y])
      simp only [bind, Except.bind] at h
      rw [h]
      cases l.mapM f with
      | error e => rfl
      | ok r => simp [pure, Except.pure]

theorem mapM_congr_fun {α β} (f g : α → Py β) (h : ∀ x, f x = g x) (l : List α) :
    l.mapM f = l.mapM g := by
  have : f = g := funext h
  rw [this]

theorem listIndexOf_one (row : List Int) : PyRt.listIndexOf row 1 = indexOfOne row := rfl

/-- the shape of the translated function, for ANY loop step / element functions that do what one
    iteration does -/
theorem encoding_shape (vocab : VocabItos)
    (step : List Int → (Int ⊕ List Int) → Py (List Int))
    (hstep : ∀ acc x, step acc x = (PyRt.sumIndexOf x 1 >>= fun y => Except.ok (acc ++ [y])))
    (look : Int → Py Str) (hlook : ∀ i, look i = getKey vocab i)
    (rows : List (List Int)) :
    (List.foldlM step [] (PyRt.sumItems (.inr rows)) >>= fun ie =>
      List.mapM look ie >>= fun cl => Except.ok (List.flatten cl))
      = oneHotToSelfies rows vocab := by
  rw [foldlM_append_mapM (fun x => PyRt.sumIndexOf x 1) step hstep]
  simp only [PyRt.sumItems, List.mapM_map, oneHotToSelfies, labelToSelfies]
  rw [show (fun x => PyRt.sumIndexOf x 1) ∘ Sum.inr = indexOfOne from rfl,
    show look = getKey vocab from funext hlook]
  cases rows.mapM indexOfOne with
  | error e => rfl
  | ok ie =>
    simp only [bind, Except.bind, List.nil_append]
    cases ie.mapM (getKey vocab) <;> rfl

theorem label_shape (vocab : VocabItos)
    (look : (Int ⊕ List Int) → Py Str) (hlook : ∀ i, look (.inl i) = getKey vocab i)
    (labels : List Int) :
    (List.mapM look (PyRt.sumItems (.inl labels)) >>= fun cl => Except.ok (List.flatten cl))
      = labelToSelfies labels vocab := by
  simp only [PyRt.sumItems, List.mapM_map, labelToSelfies]
  rw [show look ∘ Sum.inl = getKey vocab from funext hlook]
  cases labels.mapM (getKey vocab) <;> rfl

theorem ofStr_cases (s : Str) :
    (s = "label".toList ∧ EncType.ofStr s = .label) ∨
    (s = "one_hot".toList ∧ EncType.ofStr s = .oneHot) ∨
    (s ≠ "label".toList ∧ s ≠ "one_hot".toList ∧
      (EncType.ofStr s = .both ∨ EncType.ofStr s = .other)) := by
  unfold EncType.ofStr
  by_cases h1 : s = "label".toList
  · left; simp [h1]
  · by_cases h2 : s = "one_hot".toList
    · right; left; subst h2; exact ⟨rfl, by decide⟩
    · right; right
      refine ⟨h1, h2, ?_⟩
      simp only [h1, h2, if_false]
      split <;> simp

/-- one dictionary look-up of the comprehension -/
macro "look_proof " vocab:term:max : tactic =>
  `(tactic| (
    intro i
    simp only [PyRt.dictItemI, PyRt.dictItemSum, bind, Except.bind]
    cases getKey $vocab i <;> rfl))

/-- an `if` of the translated text whose test is decided by the (now concrete) `enc_type` -/
macro "decide_if" : tactic =>
  `(tactic| (split <;> first | (next h => exact absurd h (by decide)) | skip))

macro "encoding_to_selfies_proof " labels:term:max rows:term:max vocab:term:max s:term:max : tactic =>
  `(tactic| (
    rcases ofStr_cases $s with ⟨hs, he⟩ | ⟨hs, he⟩ | ⟨h1, h2, he⟩
    · rw [he, show encodingArg .label $labels $rows = .inl $labels from rfl,
        show encodingToSelfies $labels $rows $vocab .label = labelToSelfies $labels $vocab from rfl]
      subst hs
      decide_if
      decide_if
      exact label_shape $vocab _ (by look_proof $vocab) $labels
    · rw [he, show encodingArg .oneHot $labels $rows = .inr $rows from rfl,
        show encodingToSelfies $labels $rows $vocab .oneHot = oneHotToSelfies $rows $vocab from rfl]
      subst hs
      decide_if
      decide_if
      exact encoding_shape $vocab _ (by intros; rfl) _ (by look_proof $vocab) $rows
    · have h1' : ¬ ($s = ['l', 'a', 'b', 'e', 'l']) := h1
      have h2' : ¬ ($s = ['o', 'n', 'e', '_', 'h', 'o', 't']) := h2
      rcases he with he | he <;> rw [he] <;> simp only [encodingToSelfies] <;>
        (split
         · rfl
         · next h => exact (h (by simp [h1', h2'])).elim)))

/-- the hand copy that the translator substitutes when it reports a fallback -/
theorem fallback_encoding_to_selfies_eq (labels : List Int) (rows : List (List Int))
    (vocab : VocabItos) (s : Str) :
    Gen.Fallback.encoding_to_selfies (encodingArg (EncType.ofStr s) labels rows) vocab s
      = encodingToSelfies labels rows vocab (EncType.ofStr s) := by
  unfold Gen.Fallback.encoding_to_selfies
  encoding_to_selfies_proof labels rows vocab s

/-- `encoding_to_selfies(encoding, vocab_itos, enc_type)` as translated equals the model, for
    every label list / matrix, every vocabulary and every string `enc_type` -/
theorem gen_encoding_to_selfies_eq (labels : List Int) (rows : List (List Int))
    (vocab : VocabItos) (s : Str) :
    Gen.encoding_to_selfies (encodingArg (EncType.ofStr s) labels rows) vocab s
      = encodingToSelfies labels rows vocab (EncType.ofStr s) := by
  first
  | (unfold Gen.encoding_to_selfies
     encoding_to_selfies_proof labels rows vocab s)
  | exact fallback_encoding_to_selfies_eq labels rows vocab s
  | (unfold Gen.encoding_to_selfies
     encoding_to_selfies_proof labels rows vocab s)

end SV

namespace SV

/-! ### non-vacuity on concrete values -/

private def demoItos : VocabItos := [(0, "[nop]".toList), (1, "[C]".toList), (2, "[F]".toList)]

example : Gen.encoding_to_selfies (.inr [[0, 1, 0], [0, 0, 1], [1, 0, 0]]) demoItos "one_hot".toList
    = .ok "[C][F][nop]".toList := by decide
example : Gen.encoding_to_selfies (.inl [1, 2, 0]) demoItos "label".toList = .ok "[C][F][nop]".toList := by
  decide
example : Gen.encoding_to_selfies (.inl [1, 2, 0]) demoItos "both".toList = .error .ValueError := by decide
example : Gen.encoding_to_selfies (.inr [[0, 0, 0]]) demoItos "one_hot".toList = .error .ValueError := by
  decide
example : Gen.encoding_to_selfies (.inl [7]) demoItos "label".toList = .error .KeyError := by decide
example : EncType.ofStr "one_hot".toList = .oneHot ∧ EncType.ofStr "x".toList = .other := by decide

end SV

#print axioms SV.translator_no_fallback_encoding
#print axioms SV.gen_encoding_to_selfies_eq
#print axioms SV.fallback_encoding_to_selfies_eq
