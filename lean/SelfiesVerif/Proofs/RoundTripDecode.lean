/-
  C03: the decoder's derive phase on the encoding of a tree builds the tree's atoms and chain
  bonds and queues its ring closures (`dec_tree`), by mutual structural induction over
  `Tree` / `Items` with the one-iteration lemmas of RoundTripDerive.
-/
import SelfiesVerif.Proofs.RoundTripMol

namespace SV

/-! ### valence bookkeeping -/

/-- valences the closing ring symbols of an atom spend -/
def Items.ringNeed (i : Nat) : Items → Nat
  | .nil => 0
  | .ring p o _ _ rest => (if i < p then 0 else o / 2) + rest.ringNeed i
  | .child _ _ _ rest => rest.ringNeed i

/-- valences the chain bonds of an atom spend -/
def Items.kidNeed : Items → Nat
  | .nil => 0
  | .ring _ _ _ _ rest => rest.kidNeed
  | .child o _ _ rest => o / 2 + rest.kidNeed

def Items.closeCount (i : Nat) : Items → Nat
  | .nil => 0
  | .ring p _ _ _ rest => (if i < p then 0 else 1) + rest.closeCount i
  | .child _ _ _ rest => rest.closeCount i

/-- the ring request the decoder queues for a closure `(left, right, order2, sLeft, sRight)` -/
def ringReqOf (c : Nat × Nat × Nat × Option Char × Option Char) : RingReq :=
  (c.1, c.2.1, (c.2.2.1 / 2, if c.2.2.1 = 2 then (c.2.2.2.1, c.2.2.2.2) else (none, none)))

def NodeInfo.ringReqs (n : NodeInfo) : List RingReq := (n.items.closes n.idx).map ringReqOf

structure NodeDecOK (T : Table) (n : NodeInfo) : Prop where
  wf : n.atom.wfb = true
  arom : n.atom.isAromatic = false
  orders : ∀ b ∈ n.row, okOrder2 b.order2 ∧ okStereo b.stereo
  sThere : ∀ r ∈ n.items.rings, okStereo r.2.2.2
  notSelf : ∀ r ∈ n.items.rings, r.1 ≠ n.idx
  cap : 0 ≤ n.atom.bondingCapacity T
  need : n.intoOrder + n.items.ringNeed n.idx + n.items.kidNeed ≤ (n.atom.bondingCapacity T).toNat

theorem okOrder2.half {o : Nat} (h : okOrder2 o) : 1 ≤ o / 2 ∧ o / 2 ≤ 3 := by
  rcases h with rfl | rfl | rfl <;> decide

theorem Items.closeCount_le (i : Nat) : ∀ its : Items, its.closeCount i ≤ (its.encRings i).length
  | .nil => Nat.le_refl _
  | .ring p o s s' rest => by
    have := Items.closeCount_le i rest
    simp only [Items.closeCount, Items.encRings]
    split
    · omega
    · simp only [ringSyms, List.length_append, List.length_cons]; omega
  | .child _ _ _ rest => Items.closeCount_le i rest

/-! ### the ring symbols of an atom -/

theorem dec_rings (T : Table) (i depth ai : Nat) (md : Option Nat) :
    ∀ (its : Items) (fuel k : Nat) (rest : List Str) (mol : Mol) (rings : List RingReq) (nD σ : Nat),
    (∀ r ∈ its.rings, okOrder2 r.2.1 ∧ okStereo r.2.2.1 ∧ okStereo r.2.2.2 ∧ r.1 ≠ i) →
    its.spanOK i = true → i < mol.atoms.length → its.ringNeed i ≤ σ →
    (∀ x, x < nD + (its.encRings i).length → underBudget md x = true) →
    contLoop T (fuel + its.closeCount i) depth
        ⟨mkS (tk k (its.encRings i ++ rest)), mol, rings⟩ md nD σ (some i) ai
      = contLoop T fuel depth
          ⟨mkS (tk (k + (its.encRings i).length) rest), mol, rings ++ (its.closes i).map ringReqOf⟩
          md (nD + (its.encRings i).length) (σ - its.ringNeed i) (some i) ai
  | .nil, fuel, k, rest, mol, rings, nD, σ, _, _, _, _, _ => by
    simp [Items.closeCount, Items.encRings, Items.closes, Items.ringNeed]
  | .child o s t rest', fuel, k, rest, mol, rings, nD, σ, hr, hsp, hi, hσ, hub => by
    simp only [Items.closeCount, Items.encRings, Items.closes, Items.ringNeed]
    simp only [Items.spanOK, Bool.and_eq_true] at hsp
    exact dec_rings T i depth ai md rest' fuel k rest mol rings nD σ
      (fun r hr' => hr r (by simpa [Items.rings] using hr')) hsp.1.2 hi hσ hub
  | .ring p o s s' rest', fuel, k, rest, mol, rings, nD, σ, hr, hsp, hi, hσ, hub => by
    have hr' : ∀ r ∈ rest'.rings, okOrder2 r.2.1 ∧ okStereo r.2.2.1 ∧ okStereo r.2.2.2 ∧ r.1 ≠ i :=
      fun r h => hr r (by simp [Items.rings, h])
    obtain ⟨ho, hs, hs', hne⟩ := hr (p, o, s, s') (by simp [Items.rings])
    simp only at ho hs hs' hne
    simp only [Items.spanOK, Bool.and_eq_true, Bool.or_eq_true, decide_eq_true_eq] at hsp
    by_cases hip : i < p
    · simp only [Items.closeCount, Items.encRings, Items.closes, Items.ringNeed, hip, if_true,
        Nat.zero_add] at hσ hub ⊢
      exact dec_rings T i depth ai md rest' fuel k rest mol rings nD σ hr' hsp.2 hi hσ hub
    · have hpi : p < i := by omega
      have hspan : i - p - 1 < 16 ^ 3 := hsp.1.resolve_left hip
      obtain ⟨hidx, sym, hsym, hng, hproc, _, _⟩ := ringSyms_facts i p o s s' ho hs hs' hspan
      have hhalf := ho.half
      simp only [Items.closeCount, Items.encRings, Items.closes, Items.ringNeed, hip, if_false] at hσ hub ⊢
      have hlen : (ringSyms i p o s s').length = 1 + (idxSyms (i - p - 1)).length := by
        rw [hsym]; simp; omega
      rw [hsym] at hub ⊢
      simp only [List.cons_append, List.append_assoc, List.length_cons, List.length_append] at hub ⊢
      have hσ0 : σ ≠ 0 := by omega
      rw [show fuel + (1 + rest'.closeCount i) = (fuel + rest'.closeCount i) + 1 by omega]
      conv => lhs; unfold contLoop
      rw [if_neg hσ0]
      have hQ : i - (getIndexFromSelfies ((idxSyms (i - p - 1)).map some) + 1) = p := by
        rw [hidx.value]; omega
      rw [ring_step T (fuel + rest'.closeCount i) depth k sym (idxSyms (i - p - 1))
        (rest'.encRings i ++ rest) mol rings md nD σ i ai (o / 2)
        (if o = 2 then (s', s) else (none, none)) (hub nD (by omega)) hng hproc hhalf.1 (by omega)
        (by rw [hQ]; omega)]
      rw [hQ]
      rw [dec_rings T i depth ai md rest' fuel (k + 1 + (idxSyms (i - p - 1)).length) rest mol
        (rings ++ [(p, i, (o / 2, if o = 2 then (s', s) else (none, none)))])
        (nD + 1 + (idxSyms (i - p - 1)).length) (σ - o / 2) hr' hsp.2 hi (by omega)
        (fun x hx => hub x (by omega))]
      have e1 : k + 1 + (idxSyms (i - p - 1)).length + (rest'.encRings i).length
          = k + ((idxSyms (i - p - 1)).length + (rest'.encRings i).length + 1) := by omega
      have e2 : nD + 1 + (idxSyms (i - p - 1)).length + (rest'.encRings i).length
          = nD + ((idxSyms (i - p - 1)).length + (rest'.encRings i).length + 1) := by omega
      have e3 : σ - o / 2 - rest'.ringNeed i = σ - (o / 2 + rest'.ringNeed i) := by omega
      rw [e1, e2, e3]
      simp [ringReqOf]

/-! ### small facts used by the main induction -/

theorem EndOK.cast {md : Option Nat} {a a' : Nat} {t t' : List (Nat × Str)} (h : EndOK md a t)
    (ha : a = a') (ht : t = t') : EndOK md a' t' := by subst ha; subst ht; exact h

theorem EndOK.underBudget_lt {md : Option Nat} {N x : Nat} {t : List (Nat × Str)} (h : EndOK md N t)
    (hx : x < N) : SV.underBudget md x = true := by
  rcases h with rfl | ⟨rfl, _⟩
  · simp [SV.underBudget]; omega
  · rfl

theorem contLoop_of_pos {T : Table} {fuel depth : Nat} {st : DState} {md : Option Nat} {nD σ : Nat}
    {prev : Option Nat} {ai : Nat} (h : σ ≠ 0) :
    contLoop T fuel depth st md nD σ prev ai = deriveLoop T false fuel depth st md nD σ prev none ai := by
  unfold contLoop; rw [if_neg h]

theorem numbered_cons {ns : List NodeInfo} {n : NodeInfo} {s : Nat}
    (h : (n :: ns).map (·.idx) = List.range' s (n :: ns).length) :
    n.idx = s ∧ ns.map (·.idx) = List.range' (s + 1) ns.length := by
  simp only [List.map_cons, List.length_cons, List.range'_succ, List.cons.injEq] at h
  exact h

theorem numbered_append {a b : List NodeInfo} {s : Nat}
    (h : (a ++ b).map (·.idx) = List.range' s (a ++ b).length) :
    a.map (·.idx) = List.range' s a.length ∧ b.map (·.idx) = List.range' (s + a.length) b.length := by
  rw [List.map_append, List.length_append, ← List.range'_append_1] at h
  exact List.append_inj h (by simp)

theorem Items.noKid (i : Nat) : ∀ its : Items, its.hasKid = false →
    its.kidRow i = [] ∧ its.nodes i = [] ∧ its.encKids i = []
  | .nil, _ => ⟨rfl, rfl, rfl⟩
  | .ring _ _ _ _ rest, h => by
    simp only [Items.hasKid] at h
    simpa [Items.kidRow, Items.nodes, Items.encKids] using Items.noKid i rest h
  | .child _ _ _ _, h => by simp [Items.hasKid] at h

theorem Items.kidNeed_pos (i : Nat) : ∀ its : Items, its.hasKid = true →
    (∀ b ∈ its.kidRow i, okOrder2 b.order2) → 1 ≤ its.kidNeed
  | .nil, h, _ => by simp [Items.hasKid] at h
  | .ring _ _ _ _ rest, h, hb => by
    simp only [Items.hasKid] at h
    simp only [Items.kidNeed]
    exact Items.kidNeed_pos i rest h (fun b hb' => hb b (by simpa [Items.kidRow] using hb'))
  | .child o s t _, _, hb => by
    have := (hb (chainBond i t.idx o s) (by simp [Items.kidRow])).half
    simp only [chainBond] at this
    simp only [Items.kidNeed]; omega

/-- the bond through which a subtree is entered, and the state the decoder is in -/
def IntoOK (mol : Mol) (t : Tree) (into : Option PBond) (state : Nat) (prev : Option Nat) : Prop :=
  match into with
  | none => state = 0
  | some b => okOrder2 b.order2 ∧ b.order2 / 2 ≤ state ∧ prev = some b.src
      ∧ b.src < mol.atoms.length ∧ b.dst = t.idx ∧ b.ring = false

/-! ### the main induction -/

mutual
theorem dec_tree (T : Table) (ai : Nat) : ∀ (t : Tree) (into : Option PBond) (fuel depth k : Nat)
    (rest : List Str) (mol : Mol) (rings : List RingReq) (md : Option Nat) (nD state : Nat)
    (prev : Option Nat),
    (t.encode into).length + 1 ≤ fuel → depth + t.bdepth < recursionBudget →
    (∀ n ∈ t.nodes into, NodeDecOK T n) → t.spanOK = true →
    (t.nodes into).map (·.idx) = List.range' mol.atoms.length (t.nodes into).length →
    MolLen mol → IntoOK mol t into state prev →
    EndOK md (nD + (t.encode into).length) (tk (k + (t.encode into).length) rest) →
    deriveLoop T false fuel depth ⟨mkS (tk k (t.encode into ++ rest)), mol, rings⟩ md nD state prev
        none ai
      = .ok (⟨mkS (tk (k + (t.encode into).length) rest), (mol.enter into).grow (t.nodes into),
              rings ++ (t.nodes into).flatMap NodeInfo.ringReqs⟩, nD + (t.encode into).length)
  | .node i a its, into, fuel, depth, k, rest, mol, rings, md, nD, state, prev,
      hf, hd, hn, hsp, hnum, hl, hinto, hend => by
    simp only [Tree.nodes] at hn hnum ⊢
    simp only [Tree.encode, List.length_cons, List.length_append] at hf hend ⊢
    simp only [Tree.bdepth] at hd
    simp only [Tree.spanOK] at hsp
    obtain ⟨hidx, hnum'⟩ := numbered_cons hnum
    simp only at hidx
    have hn0 := hn ⟨into, i, a, its⟩ List.mem_cons_self
    have hwf : a.wfb = true := hn0.wf
    have harom : a.isAromatic = false := hn0.arom
    have hcap : 0 ≤ a.bondingCapacity T := hn0.cap
    have hneed : NodeInfo.intoOrder ⟨into, i, a, its⟩ + its.ringNeed i + its.kidNeed
        ≤ (a.bondingCapacity T).toNat := hn0.need
    have hrow : ∀ b ∈ its.row i, okOrder2 b.order2 ∧ okStereo b.stereo := hn0.orders
    obtain ⟨fuel, rfl⟩ : ∃ f, fuel = f + 1 := ⟨fuel - 1, by omega⟩
    have hbOK : ∀ b, into = some b → okOrder2 b.order2 := by
      intro b hb; subst hb; exact hinto.1
    have facts := atomSym_facts T into a hwf harom hbOK hcap
    have hub : underBudget md nD = true := hend.underBudget (by omega)
    -- the atom symbol
    have hatom : deriveLoop T false (fuel + 1) depth
          ⟨mkS (tk k (atomSym into a :: (its.encRings i ++ its.encKids i) ++ rest)), mol, rings⟩ md nD
          state prev none ai
        = contLoop T fuel depth
            ⟨mkS (tk (k + 1) (its.encRings i ++ (its.encKids i ++ rest))),
              (mol.enter into).push a (NodeInfo.intoOrder ⟨into, i, a, its⟩), rings⟩ md (nD + 1)
            ((a.bondingCapacity T).toNat - NodeInfo.intoOrder ⟨into, i, a, its⟩) (some i) ai := by
      simp only [List.cons_append, tk, List.append_assoc]
      cases into with
      | none =>
        have hs0 : state = 0 := hinto
        subst hs0
        rw [atom_step_root T fuel depth k _ _ mol rings md nD prev ai _ a hub facts.notBranch
          facts.notRing facts.notEps facts.read, hidx]
        simp [Mol.addAtom, Mol.enter, Mol.push, NodeInfo.intoOrder]
      | some b =>
        obtain ⟨hbo, hbs, hprev, hsrc, hdst, hring⟩ := hinto
        subst hprev
        have hhalf := hbo.half
        have hio : NodeInfo.intoOrder ⟨some b, i, a, its⟩ = b.order2 / 2 := rfl
        rw [hio] at hneed ⊢
        rw [atom_step_bond T fuel depth k _ _ mol _ rings md nD state b.src ai
          (encBondInfo (some b)).1 (encBondInfo (some b)).2 a hub facts.notBranch facts.notRing
          facts.notEps facts.read hhalf.1 hbs (by show b.order2 / 2 ≤ _; omega)
          (addBond_closed mol hl a b hsrc (by rw [hdst, Tree.idx, hidx]) hring), hidx]
        rfl
    rw [hatom]
    -- the ring symbols
    have hcc := Items.closeCount_le i its
    have hrings : ∀ r ∈ its.rings, okOrder2 r.2.1 ∧ okStereo r.2.2.1 ∧ okStereo r.2.2.2 ∧ r.1 ≠ i := by
      intro r hr
      obtain ⟨p, o, s, s'⟩ := r
      have := hrow _ (Items.mem_rings_row i its p o s s' hr)
      exact ⟨this.1, this.2, hn0.sThere _ hr, hn0.notSelf _ hr⟩
    have hl1 : MolLen ((mol.enter into).push a (NodeInfo.intoOrder ⟨into, i, a, its⟩)) :=
      (hl.enter into).push _ _
    have hlen1 : ((mol.enter into).push a (NodeInfo.intoOrder ⟨into, i, a, its⟩)).atoms.length
        = mol.atoms.length + 1 := by rw [Mol.push_atoms_length, Mol.enter_atoms]
    rw [show fuel = (fuel - its.closeCount i) + its.closeCount i by omega,
      dec_rings T i depth ai md its (fuel - its.closeCount i) (k + 1) (its.encKids i ++ rest) _ rings
        (nD + 1) _ hrings hsp (by rw [hlen1]; omega) (by omega)
        (fun x hx => hend.underBudget_lt (by omega))]
    -- the chain bonds
    rw [dec_kids T ai its i (fuel - its.closeCount i) depth (k + 1 + (its.encRings i).length) rest _ _ md
      (nD + 1 + (its.encRings i).length) _ (by omega) hd
      (fun n hn' => hn n (List.mem_cons_of_mem _ hn')) hsp
      (fun b hb => (hrow b (Items.kidRow_sub_row i its b hb)).1)
      (by rw [hlen1]; exact hnum') hl1 (by rw [hlen1]; omega) (by omega)
      (hend.cast (by omega) (by congr 1; omega))]
    have hpbg := Mol.push_bump_grow (mol.enter into) (hl.enter into) ⟨into, i, a, its⟩
      (by rw [Mol.enter_atoms]; exact hidx) (its.nodes i)
    simp only [NodeInfo.chainRow] at hpbg
    rw [hpbg]
    simp only [List.flatMap_cons, NodeInfo.ringReqs, List.append_assoc, Except.ok.injEq, Prod.mk.injEq,
      DState.mk.injEq, true_and]
    refine ⟨⟨?_, trivial⟩, by omega⟩
    congr 2; omega
theorem dec_kids (T : Table) (ai : Nat) : ∀ (its : Items) (i fuel depth k : Nat)
    (rest : List Str) (mol : Mol) (rings : List RingReq) (md : Option Nat) (nD σ : Nat),
    (its.encKids i).length + 1 ≤ fuel → depth + its.bdepth < recursionBudget →
    (∀ n ∈ its.nodes i, NodeDecOK T n) → its.spanOK i = true →
    (∀ b ∈ its.kidRow i, okOrder2 b.order2) →
    (its.nodes i).map (·.idx) = List.range' mol.atoms.length (its.nodes i).length →
    MolLen mol → i < mol.atoms.length → its.kidNeed ≤ σ →
    EndOK md (nD + (its.encKids i).length) (tk (k + (its.encKids i).length) rest) →
    contLoop T fuel depth ⟨mkS (tk k (its.encKids i ++ rest)), mol, rings⟩ md nD σ (some i) ai
      = .ok (⟨mkS (tk (k + (its.encKids i).length) rest),
              (mol.bump i ((its.kidRow i).map dirOf)).grow (its.nodes i),
              rings ++ (its.nodes i).flatMap NodeInfo.ringReqs⟩, nD + (its.encKids i).length)
  | .nil, i, fuel, depth, k, rest, mol, rings, md, nD, σ, hf, _, _, _, _, _, _, _, _, hend => by
    obtain ⟨fuel, rfl⟩ : ∃ f, fuel = f + 1 := ⟨fuel - 1, by omega⟩
    simp only [Items.encKids, List.length_nil, Nat.add_zero, List.nil_append, Items.kidRow,
      List.map_nil, Items.nodes, List.flatMap_nil, List.append_nil, Mol.bump_nil, Mol.grow_nil] at hend ⊢
    exact contLoop_end T fuel depth _ mol rings md nD σ (some i) ai hend
  | .ring _ _ _ _ rest', i, fuel, depth, k, rest, mol, rings, md, nD, σ,
      hf, hd, hn, hsp, hb, hnum, hl, hi, hσ, hend => by
    simp only [Items.spanOK, Bool.and_eq_true] at hsp
    simp only [Items.encKids, Items.kidRow, Items.nodes, Items.bdepth, Items.kidNeed] at *
    exact dec_kids T ai rest' i fuel depth k rest mol rings md nD σ hf hd hn hsp.2 hb hnum hl hi hσ hend
  | .child o s t rest', i, fuel, depth, k, rest, mol, rings, md, nD, σ,
      hf, hd, hn, hsp, hb, hnum, hl, hi, hσ, hend => by
    simp only [Items.spanOK, Bool.and_eq_true, Bool.or_eq_true, Bool.not_eq_true',
      decide_eq_true_eq] at hsp
    obtain ⟨⟨htsp, hrsp⟩, hblen⟩ := hsp
    simp only [Items.nodes] at hn hnum ⊢
    obtain ⟨hnumt, hnumr⟩ := numbered_append hnum
    have hbo : okOrder2 o := hb (chainBond i t.idx o s) (by simp [Items.kidRow])
    have hhalf := hbo.half
    have hnt : ∀ n ∈ t.nodes (some (chainBond i t.idx o s)), NodeDecOK T n :=
      fun n hn' => hn n (List.mem_append_left _ hn')
    have hnr : ∀ n ∈ rest'.nodes i, NodeDecOK T n := fun n hn' => hn n (List.mem_append_right _ hn')
    have hbr : ∀ b ∈ rest'.kidRow i, okOrder2 b.order2 :=
      fun b hb' => hb b (by simp [Items.kidRow, hb'])
    have hIntoBase : ∀ st, o / 2 ≤ st → IntoOK mol t (some (chainBond i t.idx o s)) st (some i) :=
      fun st hst => ⟨hbo, hst, rfl, hi, rfl, rfl⟩
    simp only [Items.kidNeed] at hσ
    have hσ0 : σ ≠ 0 := by omega
    cases hk : rest'.hasKid with
    | false =>
      obtain ⟨e1, e2, e3⟩ := Items.noKid i rest' hk
      simp only [Items.encKids, hk, Bool.false_eq_true, if_false, Items.kidRow, e1, e2,
        List.append_nil, List.map_cons, List.map_nil, Items.bdepth] at hf hd hend ⊢
      unfold contLoop
      rw [if_neg hσ0]
      rw [dec_tree T ai t (some (chainBond i t.idx o s)) fuel depth k rest mol rings md nD σ (some i)
        hf hd hnt htsp (by simpa [e2] using hnumt) hl (hIntoBase σ (by omega)) hend]
      rfl
    | true =>
      have hkn := Items.kidNeed_pos i rest' hk hbr
      have hlenOK : (t.encode (some (chainBond i t.idx o s))).length - 1 < 16 ^ 3 := by
        rcases hblen with h | h
        · rw [hk] at h; cases h
        · exact h
      have hpos := Tree.encode_length_pos (some (chainBond i t.idx o s)) t
      obtain ⟨hidx, sym, hsym, hch, hproc, _, _⟩ :=
        branchSyms_facts (chainBond i t.idx o s) (t.encode (some (chainBond i t.idx o s))).length
          hbo hlenOK
      simp only [Items.encKids, hk, if_true, Items.bdepth, Items.kidRow, List.map_cons] at hf hd hend ⊢
      rw [hsym] at hf hend ⊢
      simp only [List.cons_append, List.append_assoc, List.length_cons, List.length_append] at hf hend ⊢
      obtain ⟨fuel, rfl⟩ : ∃ f, fuel = f + 1 := ⟨fuel - 1, by omega⟩
      have hub : underBudget md nD = true := hend.underBudget (by omega)
      have hQ : getIndexFromSelfies
          ((idxSyms ((t.encode (some (chainBond i t.idx o s))).length - 1)).map some) + 1
          = (t.encode (some (chainBond i t.idx o s))).length := by rw [hidx.value]; omega
      have hnested := dec_tree T ai t (some (chainBond i t.idx o s)) fuel (depth + 1)
        (k + 1 + (idxSyms ((t.encode (some (chainBond i t.idx o s))).length - 1)).length)
        (rest'.encKids i ++ rest) mol rings
        (some (getIndexFromSelfies
          ((idxSyms ((t.encode (some (chainBond i t.idx o s))).length - 1)).map some) + 1))
        0 (o / 2) (some i) (by omega) (by omega) hnt htsp hnumt hl (hIntoBase _ (Nat.le_refl _))
        (Or.inl (by rw [hQ]; simp))
      unfold contLoop
      rw [if_neg hσ0]
      rw [branch_step T fuel depth k sym _ _ mol rings md nD σ (some i) ai (o / 2) _ _ hub hch hproc
        hhalf.1 hhalf.2 (by omega) (by omega) hnested]
      rw [← contLoop_of_pos (σ := σ - o / 2) (by omega)]
      have hl2 : MolLen ((mol.enter (some (chainBond i t.idx o s))).grow
          (t.nodes (some (chainBond i t.idx o s)))) := (hl.enter _).grow _
      rw [dec_kids T ai rest' i fuel depth _ rest _ _ md _ (σ - o / 2) (by omega) (by omega) hnr hrsp hbr
        (by rw [Mol.grow_atoms_length, Mol.enter_atoms]; exact hnumr) hl2
        (by rw [Mol.grow_atoms_length, Mol.enter_atoms]; omega) (by omega)
        (hend.cast (by omega) (by congr 1; omega))]
      have hmol : (((mol.enter (some (chainBond i t.idx o s))).grow
            (t.nodes (some (chainBond i t.idx o s)))).bump i ((rest'.kidRow i).map dirOf)).grow
            (rest'.nodes i)
          = (mol.bump i (dirOf (chainBond i t.idx o s) :: (rest'.kidRow i).map dirOf)).grow
              (t.nodes (some (chainBond i t.idx o s)) ++ rest'.nodes i) := by
        rw [Mol.bump_grow _ (hl.enter _) i (by rw [Mol.enter_atoms]; exact hi), Mol.grow_grow]
        show (((mol.bump i [dirOf (chainBond i t.idx o s)]).bump i _).grow _) = _
        rw [Mol.bump_bump]
        rfl
      rw [hmol]
      simp only [List.flatMap_append, List.append_assoc, Except.ok.injEq, Prod.mk.injEq,
        DState.mk.injEq, true_and]
      refine ⟨⟨?_, trivial⟩, by omega⟩
      congr 2; omega
end

end SV
