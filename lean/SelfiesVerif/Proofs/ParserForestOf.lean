/-
  C03p: the executable reconstruction `forestOf` finds the forest of a graph: for a well-formed
  forest `f`, `forestOf (graphOf f) = some f`.  So `ParsedWF g` and `isParsedWF g = true` are the
  same thing (`isParsedWF_iff`), and a parsed graph has exactly one well-formed forest.
-/
import SelfiesVerif.Proofs.RoundTripForest

namespace SV

theorem Items.mem_closes_inv (i : Nat) : ∀ (its : Items) (x : Nat × Nat × Nat × Option Char × Option Char),
    x ∈ its.closes i → ∃ p o s s', (p, o, s, s') ∈ its.rings ∧ ¬ i < p ∧ x = (p, i, o, s', s)
  | .nil, _, h => by simp [Items.closes] at h
  | .ring p' o' s1 s1' rest, x, h => by
    simp only [Items.closes] at h
    simp only [Items.rings, List.mem_cons]
    split at h
    · obtain ⟨p, o, s, s', h1, h2, h3⟩ := Items.mem_closes_inv i rest x h
      exact ⟨p, o, s, s', Or.inr h1, h2, h3⟩
    · rename_i hlt
      rcases List.mem_cons.1 h with rfl | h
      · exact ⟨p', o', s1, s1', Or.inl rfl, hlt, rfl⟩
      · obtain ⟨p, o, s, s', h1, h2, h3⟩ := Items.mem_closes_inv i rest x h
        exact ⟨p, o, s, s', Or.inr h1, h2, h3⟩
  | .child _ _ _ rest, x, h => by
    simp only [Items.closes] at h
    simp only [Items.rings]
    exact Items.mem_closes_inv i rest x h

theorem Items.mem_opens_of (i : Nat) : ∀ (its : Items) (p o : Nat) (s s' : Option Char),
    (p, o, s, s') ∈ its.rings → i < p → (i, p, o, s, s') ∈ its.opens i
  | .nil, _, _, _, _, h, _ => by simp [Items.rings] at h
  | .ring p' o' s1 s1' rest, p, o, s, s', h, hp => by
    simp only [Items.rings, List.mem_cons, Prod.mk.injEq] at h
    simp only [Items.opens]
    rcases h with ⟨rfl, rfl, rfl, rfl⟩ | h
    · simp [hp]
    · have := Items.mem_opens_of i rest p o s s' h hp
      split
      · exact List.mem_cons_of_mem _ this
      · exact this
  | .child _ _ _ rest, p, o, s, s', h, hp => by
    simp only [Items.rings] at h
    simp only [Items.opens]
    exact Items.mem_opens_of i rest p o s s' h hp

/-- the reverse record of ANY ring item is found by `get_dirbond` -/
theorem graphOf_rev_any {f : PForest} (hwf : f.wf = true) {n : NodeInfo} (hn : n ∈ f.nodes)
    {p o : Nat} {s s' : Option Char} (hr : (p, o, s, s') ∈ n.items.rings) :
    (graphOf f).getDirBond p n.idx = .ok (ringBond p n.idx o s') := by
  by_cases hp : n.idx < p
  · obtain ⟨hnum, hsimple, hpaired⟩ := PForest.wf_parts hwf
    have hop := Items.mem_opens_of n.idx n.items p o s s' hr hp
    have hperm : (n.items.opens n.idx).Perm (f.closes.filter fun c => c.1 == n.idx) := by
      unfold PForest.ringsPaired at hpaired
      exact List.isPerm_iff.1 (List.all_eq_true.1 hpaired _ hn)
    have hcl := (List.mem_filter.1 (hperm.mem_iff.1 hop)).1
    unfold PForest.closes at hcl
    obtain ⟨n', hn', hx⟩ := List.mem_flatMap.1 hcl
    obtain ⟨p', o', t, t', h1, h2, h3⟩ := Items.mem_closes_inv n'.idx n'.items _ hx
    simp only [Prod.mk.injEq] at h3
    obtain ⟨e1, e2, e3, e4, e5⟩ := h3
    -- node `n'` (index `p`) has the ring item `(n.idx, o, s', s)`
    have hrow := Items.mem_rings_row n'.idx n'.items p' o' t t' h1
    have hnd := (PForest.simple_node hsimple hn').1
    have hnk := nodes_getElem_of_mem hnum hn'
    have hadj : (graphOf f).adj[n'.idx]? = some ((n'.items.row n'.idx).map some) := by
      rw [graphOf_adj, List.getElem?_map, hnk]; rfl
    have := getDirBond_of_nodup (graphOf f) n'.idx _ (ringBond n'.idx p' o' t) hadj hrow hnd
    rw [e2, e1, e3, e5]
    exact this
  · exact (graphOf_rev hwf hn hr hp).2

/-! ### the reconstruction -/

/-- what the graph provides for a node -/
def NodeRec (g : PMol) (n : NodeInfo) : Prop :=
  g.atoms[n.idx]? = some n.atom ∧ g.adj[n.idx]? = some (n.row.map some) ∧
    ∀ p o s s', (p, o, s, s') ∈ n.items.rings → g.getDirBond p n.idx = .ok (ringBond p n.idx o s')

mutual
theorem treeOf_spec (g : PMol) : ∀ (t : Tree) (into : Option PBond) (fuel : Nat),
    (∀ n ∈ t.nodes into, NodeRec g n) → t.cost ≤ fuel → treeOf g fuel t.idx = some t
  | .node i a its, into, fuel, h, hf => by
    cases fuel with
    | zero => simp [Tree.cost] at hf
    | succ fuel =>
      have hnode := h ⟨into, i, a, its⟩ (by simp [Tree.nodes])
      obtain ⟨h1, h2, h3⟩ := hnode
      have hits := itemsOf_spec g its i fuel
        (fun n hn => h n (by simp only [Tree.nodes, List.mem_cons]; exact Or.inr hn)) h3
        (by simp only [Tree.cost] at hf; omega)
      simp only [Tree.idx, treeOf]
      simp only at h1 h2
      rw [h1, h2]
      simp only [NodeInfo.row] at hits ⊢
      rw [hits]
theorem itemsOf_spec (g : PMol) : ∀ (its : Items) (i : Nat) (fuel : Nat),
    (∀ n ∈ its.nodes i, NodeRec g n) →
    (∀ p o s s', (p, o, s, s') ∈ its.rings → g.getDirBond p i = .ok (ringBond p i o s')) →
    its.rcount + its.kcost + 1 ≤ fuel → itemsOf g fuel i ((its.row i).map some) = some its
  | .nil, i, fuel, _, _, hf => by
    cases fuel with
    | zero => omega
    | succ fuel => simp [Items.row, itemsOf]
  | .ring p o s s' rest, i, fuel, h, hr, hf => by
    cases fuel with
    | zero => omega
    | succ fuel =>
      have ih := itemsOf_spec g rest i fuel (fun n hn => h n (by simpa [Items.nodes] using hn))
        (fun p' o' t t' hm => hr p' o' t t' (by simp only [Items.rings, List.mem_cons]; exact Or.inr hm))
        (by simp only [Items.rcount, Items.kcost] at hf; omega)
      have hrev := hr p o s s' (by simp [Items.rings])
      simp only [Items.row, List.map_cons, itemsOf, ringBond, if_true]
      simp only [ringBond] at hrev
      rw [hrev, ih]
  | .child o s t rest, i, fuel, h, hr, hf => by
    cases fuel with
    | zero => omega
    | succ fuel =>
      have ih := itemsOf_spec g rest i fuel
        (fun n hn => h n (by simp only [Items.nodes, List.mem_append]; exact Or.inr hn))
        (fun p' o' t' t'' hm => hr p' o' t' t'' (by simpa [Items.rings] using hm))
        (by simp only [Items.rcount, Items.kcost] at hf; omega)
      have iht := treeOf_spec g t (some (chainBond i t.idx o s)) fuel
        (fun n hn => h n (by simp only [Items.nodes, List.mem_append]; exact Or.inl hn))
        (by simp only [Items.rcount, Items.kcost] at hf; omega)
      simp only [Items.row, List.map_cons, itemsOf, chainBond, Bool.false_eq_true, if_false]
      rw [iht, ih]
end

theorem nodeRec_graphOf {f : PForest} (hwf : f.wf = true) {n : NodeInfo} (hn : n ∈ f.nodes) :
    NodeRec (graphOf f) n := by
  obtain ⟨hnum, _, _⟩ := PForest.wf_parts hwf
  have hnk := nodes_getElem_of_mem hnum hn
  refine ⟨?_, ?_, fun p o s s' hr => graphOf_rev_any hwf hn hr⟩
  · rw [graphOf_atoms, List.getElem?_map, hnk]; rfl
  · rw [graphOf_adj, List.getElem?_map, hnk]; rfl

theorem mapM_treeOf (g : PMol) (fuel : Nat) : ∀ (ts : List Tree),
    (∀ t ∈ ts, treeOf g fuel t.idx = some t) → (ts.map Tree.idx).mapM (treeOf g fuel) = some ts
  | [], _ => rfl
  | t :: ts, h => by
    simp only [List.map_cons, List.mapM_cons, h t (by simp),
      mapM_treeOf g fuel ts (fun t' ht' => h t' (List.mem_cons_of_mem _ ht'))]
    rfl

/-- **`forestOf` finds the forest** -/
theorem forestOf_graphOf {f : PForest} (hwf : f.wf = true) : forestOf (graphOf f) = some f := by
  unfold forestOf
  rw [graphOf_roots]
  apply mapM_treeOf
  intro t ht
  exact treeOf_spec (graphOf f) t none _
    (fun n hn => nodeRec_graphOf hwf (mem_nodes_of_mem_forest ht hn)) (graphOf_fuel f t ht)

theorem isParsedWF_iff (g : PMol) : isParsedWF g = true ↔ ParsedWF g := by
  constructor
  · exact isParsedWF_sound g
  · rintro ⟨f, hwf, rfl⟩
    unfold isParsedWF
    rw [forestOf_graphOf hwf]
    simp [hwf]

/-- a parsed graph has exactly one well-formed forest -/
theorem forest_unique {f f' : PForest} (hwf : f.wf = true) (hwf' : f'.wf = true)
    (h : graphOf f = graphOf f') : f = f' := by
  have h1 := forestOf_graphOf hwf
  have h2 := forestOf_graphOf hwf'
  rw [h, h2] at h1
  injection h1 with h1
  exact h1.symm

end SV
