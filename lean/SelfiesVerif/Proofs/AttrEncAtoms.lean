/-
  Encoder attribution: every SELFIES atom symbol is attributed to the SMILES atom token it was
  made from.

  * the parser gives atom `i` the attribution `some [⟨_, text of the i-th atom token⟩]`
    (`smilesToMol_attr`); kekulization, the constraint check and the chirality flip keep the
    attribution list and the number of atoms (`encodePrepare_attr`);
  * every map `_fragment_to_selfies` appends is made from an atom (token = `_atom_to_selfies`,
    attribution = that atom's entry) or from a bond (ring / branch / index symbols) (`EncSrc`).
-/
import SelfiesVerif.Proofs.AttrEraseEnc
namespace SV

/-! ### graph primitives keep `atomAttr` and `atoms` -/

theorem PMol.addBond_attr {m m' : PMol} {src dst o2 : Nat} {st : Option Char} {attr}
    (h : m.addBond src dst o2 st attr = .ok m') : m'.atomAttr = m.atomAttr ∧ m'.atoms = m.atoms := by
  unfold PMol.addBond at h
  bind_at h with ⟨_, _, h⟩
  bind_at h with ⟨out, _, h⟩
  bind_at h with ⟨c1, _, h⟩
  bind_at h with ⟨c2, _, h⟩
  cases h
  exact ⟨rfl, rfl⟩

theorem PMol.addPlaceholder_attr {m : PMol} {p : Nat} {r : PMol × Nat}
    (h : m.addPlaceholder p = .ok r) : r.1.atomAttr = m.atomAttr ∧ r.1.atoms = m.atoms := by
  unfold PMol.addPlaceholder at h
  bind_at h with ⟨out, _, h⟩
  cases h
  exact ⟨rfl, rfl⟩

theorem PMol.addRingBond_attr {m m' : PMol} {a b o2 : Nat} {ast bst : Option Char} {ap bp : Option Nat}
    (h : m.addRingBond a b o2 ast bst ap bp = .ok m') : m'.atomAttr = m.atomAttr ∧ m'.atoms = m.atoms := by
  unfold PMol.addRingBond at h
  bind_at h with ⟨adj1, _, h⟩
  bind_at h with ⟨adj2, _, h⟩
  bind_at h with ⟨c1, _, h⟩
  bind_at h with ⟨c2, _, h⟩
  bind_at h with ⟨_, _, h⟩
  bind_at h with ⟨_, _, h⟩
  cases h
  exact ⟨rfl, rfl⟩

theorem makeRingBonds_attr {m m' : PMol} {lb : Option Char} {la lp : Nat} {rb : Option Char} {ra : Nat}
    (h : makeRingBonds m lb la lp rb ra = .ok m') : m'.atomAttr = m.atomAttr ∧ m'.atoms = m.atoms := by
  unfold makeRingBonds at h
  repeat' split at h
  all_goals try dsimp only at h
  all_goals repeat' split at h
  all_goals first
    | (cases h; done)
    | (bind_at h with ⟨x, _, h⟩
       bind_at h with ⟨y, _, h⟩
       first
         | exact PMol.addRingBond_attr h
         | (split at h; exact PMol.addRingBond_attr h))

theorem PMol.updateBondOrder_attr {m m' : PMol} {a b n : Nat}
    (h : m.updateBondOrder a b n = .ok m') : m'.atomAttr = m.atomAttr ∧ m'.atoms = m.atoms := by
  unfold PMol.updateBondOrder at h
  bind_at h with ⟨_, _, h⟩
  bind_at h with ⟨ab, _, h⟩
  split at h
  · cases h; exact ⟨rfl, rfl⟩
  · bind_at h with ⟨adj, _, h⟩
    bind_at h with ⟨cl, _, h⟩
    bind_at h with ⟨ch, _, h⟩
    cases h
    exact ⟨rfl, rfl⟩

/-! ### the parser -/

/-- the token text recorded in a one-element attribution -/
def attrText : Option (List Attribution) → Option Str
  | some [a] => some a.token
  | _ => none

/-- texts of the atom tokens, in order -/
def atomTexts (toks : List SmilesTok) : List (Option Str) :=
  (toks.filter (·.kind == .atom)).map fun t => some t.text

theorem atomTexts_append (a b : List SmilesTok) : atomTexts (a ++ b) = atomTexts a ++ atomTexts b := by
  simp [atomTexts]

theorem parseFragmentLoop_attr : ∀ (toks : List SmilesTok) (st : ParseSt) (r : ParseSt × List SmilesTok),
    parseFragmentLoop true toks st = .ok r → st.mol.atomAttr.length = st.mol.atoms.length →
    ∃ consumed, toks = consumed ++ r.2 ∧
      r.1.mol.atomAttr.map attrText = st.mol.atomAttr.map attrText ++ atomTexts consumed ∧
      r.1.mol.atomAttr.length = r.1.mol.atoms.length := by
  intro toks
  induction toks with
  | nil =>
    intro st r h hl
    simp only [parseFragmentLoop] at h
    cases h
    exact ⟨[], rfl, by simp [atomTexts], hl⟩
  | cons tok rest ih =>
    intro st r h hl
    -- a step that keeps the graph's atoms and attributions and consumes a non-atom token
    have keep : ∀ (st' : ParseSt), parseFragmentLoop true rest st' = .ok r →
        st'.mol.atomAttr = st.mol.atomAttr → st'.mol.atoms = st.mol.atoms → tok.kind ≠ .atom →
        ∃ consumed, tok :: rest = consumed ++ r.2 ∧
          r.1.mol.atomAttr.map attrText = st.mol.atomAttr.map attrText ++ atomTexts consumed ∧
          r.1.mol.atomAttr.length = r.1.mol.atoms.length := by
      intro st' h' e1 e2 hk
      obtain ⟨c, c1, c2, c3⟩ := ih st' r h' (by rw [e1, e2]; exact hl)
      refine ⟨tok :: c, by rw [c1]; rfl, ?_, c3⟩
      rw [c2, e1]
      have : atomTexts (tok :: c) = atomTexts c := by
        simp only [atomTexts, List.filter_cons]
        have : (tok.kind == TokKind.atom) = false := by
          cases hk' : tok.kind <;> simp_all
        simp [this]
      rw [this]
    rw [parseFragmentLoop] at h
    cases hps : st.prevStack with
    | nil => simp [hps, bind, Except.bind] at h
    | cons prev ps =>
    simp only [hps, pure, Except.pure, bind, Except.bind] at h
    cases hk : tok.kind with
    | dot =>
      simp only [hk] at h
      cases h
      refine ⟨[tok], rfl, ?_, hl⟩
      simp [atomTexts, hk]
    | atom =>
      simp only [hk] at h
      split at h
      · cases h
      · rename_i curr hsa
        simp only [if_true] at h
        bind_at h with ⟨mol1, hm1, h⟩
        have hm : mol1.atomAttr = st.mol.atomAttr ++
            [some [{ index := if tok.bondChar.isSome then st.i + 1 else st.i, token := tok.text }]] ∧
            mol1.atoms = st.mol.atoms ++ [curr] := by
          cases prev with
          | none => cases hm1; exact ⟨rfl, rfl⟩
          | some p =>
            simp only at hm1
            bind_at hm1 with ⟨pa, _, hm1⟩
            obtain ⟨e1, e2⟩ := PMol.addBond_attr hm1
            exact ⟨e1, e2⟩
        obtain ⟨c, c1, c2, c3⟩ := ih _ r h (by simp only; rw [hm.1, hm.2]; simp [hl])
        refine ⟨tok :: c, by rw [c1]; rfl, ?_, c3⟩
        rw [c2]
        simp only [hm.1, List.map_append, List.map_cons, List.map_nil, attrText, List.append_assoc]
        simp [atomTexts, hk]
    | branch =>
      simp only [hk] at h
      split at h
      · cases h
      · split at h
        · exact keep _ h rfl rfl (by simp [hk])
        · split at h
          · cases h
          · exact keep _ h rfl rfl (by simp [hk])
    | ring =>
      simp only [hk] at h
      split at h
      · cases h
      · split at h
        · cases h
        · rename_i p
          split at h
          · bind_at h with ⟨⟨mol1, lpos⟩, hm1, h⟩
            obtain ⟨e1, e2⟩ := PMol.addPlaceholder_attr hm1
            exact keep _ h e1 e2 (by simp [hk])
          · bind_at h with ⟨mol1, hm1, h⟩
            obtain ⟨e1, e2⟩ := makeRingBonds_attr hm1
            exact keep _ h e1 e2 (by simp [hk])

/-- `atomAttr` lists, atom by atom, the text of the atom token the atom was made from -/
def PAttr (texts : List (Option Str)) (m : PMol) : Prop :=
  m.atomAttr.map attrText = texts ∧ m.atomAttr.length = m.atoms.length

theorem parseFragment_attr {toks : List SmilesTok} {mol : PMol} {i : Nat} {r : PMol × Nat × List SmilesTok}
    (h : parseFragment true toks mol i = .ok r) (hl : mol.atomAttr.length = mol.atoms.length) :
    ∃ consumed, toks = consumed ++ r.2.2 ∧
      r.1.atomAttr.map attrText = mol.atomAttr.map attrText ++ atomTexts consumed ∧
      r.1.atomAttr.length = r.1.atoms.length := by
  unfold parseFragment at h
  bind_at h with ⟨⟨st, rest⟩, h1, h⟩
  obtain ⟨c, c1, c2, c3⟩ := parseFragmentLoop_attr _ _ _ h1 hl
  dsimp only at h
  split at h
  · cases h
  · split at h
    · cases h
    · split at h
      · cases h
      · cases h
        exact ⟨c, c1, c2, c3⟩

theorem smilesToMol_go_attr : ∀ (fuel : Nat) (toks : List SmilesTok) (m : PMol) (i : Nat) (r : PMol),
    smilesToMol.go true fuel toks m i = .ok r → m.atomAttr.length = m.atoms.length →
    r.atomAttr.map attrText = m.atomAttr.map attrText ++ atomTexts toks ∧
    r.atomAttr.length = r.atoms.length := by
  intro fuel
  induction fuel with
  | zero =>
    intro toks m i r h hl
    cases toks with
    | nil => simp only [smilesToMol.go] at h; cases h; exact ⟨by simp [atomTexts], hl⟩
    | cons _ _ => simp [smilesToMol.go] at h
  | succ fuel ih =>
    intro toks m i r h hl
    cases toks with
    | nil => simp only [smilesToMol.go] at h; cases h; exact ⟨by simp [atomTexts], hl⟩
    | cons t ts =>
      rw [smilesToMol.go] at h
      bind_at h with ⟨⟨m1, i1, rest⟩, h1, h⟩
      obtain ⟨c, c1, c2, c3⟩ := parseFragment_attr h1 hl
      obtain ⟨d1, d2⟩ := ih _ _ _ _ h c3
      refine ⟨?_, d2⟩
      rw [d1, c2, c1, atomTexts_append, List.append_assoc]

theorem smilesToMol_attr {smiles : Str} {m : PMol} (h : smilesToMol smiles true = .ok m) :
    ∃ toks, tokenizeSmiles (smiles.length + 1) smiles = some toks ∧ PAttr (atomTexts toks) m := by
  unfold smilesToMol at h
  split at h
  · cases h
  · split at h
    · cases h
    · rename_i toks htoks
      obtain ⟨d1, d2⟩ := smilesToMol_go_attr _ _ _ _ _ h rfl
      exact ⟨toks, htoks, by simpa using d1, d2⟩

/-! ### kekulization, constraint check, chirality flip -/

theorem foldlM_keep {α} (P : PMol → Prop) (f : PMol → α → Py PMol)
    (hf : ∀ m x m', P m → f m x = .ok m' → P m') : ∀ (l : List α) (m m' : PMol),
    P m → l.foldlM f m = .ok m' → P m' := by
  intro l
  induction l with
  | nil => intro m m' hp h; simp only [List.foldlM_nil, pure, Except.pure] at h; cases h; exact hp
  | cons x rest ih =>
    intro m m' hp h
    simp only [List.foldlM_cons] at h
    bind_at h with ⟨m1, h1, h⟩
    exact ih _ _ (hf _ _ _ hp h1) h

/-- same attribution list, same number of atoms -/
def SameAttr (m0 m : PMol) : Prop := m.atomAttr = m0.atomAttr ∧ m.atoms.length = m0.atoms.length

theorem PMol.kekulize_attr {m m' : PMol} {tape : List Nat} (h : m.kekulize tape = .ok (some m')) :
    SameAttr m m' := by
  unfold PMol.kekulize at h
  simp only [bind, Except.bind, pure, Except.pure] at h
  split at h
  · cases h; exact ⟨rfl, rfl⟩
  · split at h
    · cases h
    · split at h
      · cases h
      · split at h
        · cases h
        · split at h
          · cases h
          · split at h
            · cases h
            · split at h
              · cases h
              · rename_i matching hfm
                split at h
                · cases h
                · rename_i m1 hm1
                  split at h
                  · cases h
                  · rename_i m2 hm2
                    cases h
                    have s1 : SameAttr m m1 := by
                      refine foldlM_keep (SameAttr m) _ ?_ _ _ _ ⟨rfl, rfl⟩ hm1
                      intro ma p mb hp hstep
                      split at hstep
                      · cases hstep
                      · rename_i v hv
                        split at hstep
                        · cases hstep
                        · split at hstep
                          · cases hstep
                          · cases hstep
                            have : SameAttr m v := by
                              refine foldlM_keep (SameAttr m) _ ?_ _ _ _ hp hv
                              intro mc a md hpc hupd
                              obtain ⟨e1, e2⟩ := PMol.updateBondOrder_attr hupd
                              exact ⟨e1.trans hpc.1, by rw [e2]; exact hpc.2⟩
                            exact ⟨this.1, by simp only [List.length_set]; exact this.2⟩
                    have s2 : SameAttr m m2 := by
                      refine foldlM_keep (SameAttr m) _ ?_ _ _ _ s1 hm2
                      intro ma i mb hp hstep
                      split at hstep
                      · cases hstep
                      · split at hstep
                        · cases hstep
                        · split at hstep
                          · cases hstep
                          · split at hstep
                            · cases hstep
                            · obtain ⟨e1, e2⟩ := PMol.updateBondOrder_attr hstep
                              exact ⟨e1.trans hp.1, by rw [e2]; exact hp.2⟩
                    exact ⟨s2.1, s2.2⟩

theorem mapM_length {α β} (f : α → Py β) : ∀ (l : List α) (r : List β), l.mapM f = .ok r → r.length = l.length := by
  intro l
  induction l with
  | nil => intro r h; simp only [List.mapM_nil, pure, Except.pure] at h; cases h; rfl
  | cons x rest ih =>
    intro r h
    simp only [List.mapM_cons] at h
    bind_at h with ⟨y, _, h⟩
    bind_at h with ⟨ys, h2, h⟩
    cases h
    simp [ih _ h2]

/-- the graph the encoder writes out has the parser's attribution list -/
theorem encodePrepare_attr {T : Table} {smiles : Str} {strict : Bool} {tape : List Nat} {g : PMol}
    (h : encodePrepare T smiles strict true tape = .ok g) :
    ∃ toks, tokenizeSmiles (smiles.length + 1) smiles = some toks ∧ PAttr (atomTexts toks) g := by
  unfold encodePrepare at h
  simp only [bind, Except.bind, pure, Except.pure] at h
  split at h
  · rename_i m0 h0
    obtain ⟨toks, ht, hp1, hp2⟩ := smilesToMol_attr h0
    split at h
    · cases h
    · rename_i k hk
      split at h
      · rename_i mk
        obtain ⟨e1, e2⟩ := PMol.kekulize_attr hk
        split at h
        · split at h <;> cases h
        · split at h
          · cases h
          · rename_i atoms ha
            cases h
            refine ⟨toks, ht, by simp only; rw [e1]; exact hp1, ?_⟩
            simp only
            rw [mapM_length _ _ _ ha, e1, hp2]
            simp [e2]
      · cases h
  · cases h
  · cases h

/-! ### the maps `_fragment_to_selfies` appends -/

/-- a Ring / Branch symbol or one of their index symbols -/
def EncOther (tok : Str) : Prop :=
  (∃ pre n, tok = ringSymbol pre "Ring".toList n ∨ tok = ringSymbol pre "Branch".toList n) ∨
  (∃ z q, getSelfiesFromIndex z = .ok q ∧ tok ∈ q)

/-- where an encoder map comes from: an atom visit, or a bond -/
def EncSrc (g : PMol) (tok : Str) (attr : Option (List Attribution)) : Prop :=
  (∃ (i : Nat) (a : Atom) (b : Option PBond), g.atoms[i]? = some a ∧ atomToSelfies b a = .ok tok ∧
      attr = (g.atomAttr[i]?).getD none) ∨
  (∃ bond : PBond, attr = bond.attr ∧ EncOther tok)

theorem pushIndexSyms_maps (q : List Str) (attr : Option (List Attribution)) (ai : Nat) :
    ∀ (derived : List Str) (maps : List AttributionMap),
    ∀ mp ∈ (pushIndexSyms q attr ai derived maps).2, mp ∈ maps ∨ (mp.token ∈ q ∧ mp.attribution = attr) := by
  unfold pushIndexSyms
  induction q with
  | nil => intro derived maps mp h; exact .inl h
  | cons s rest ih =>
    intro derived maps mp h
    simp only [List.foldl_cons] at h
    rcases ih _ _ mp h with h | ⟨h1, h2⟩
    · rcases List.mem_append.mp h with h | h
      · exact .inl h
      · simp only [List.mem_singleton] at h
        subst h
        exact .inr ⟨by simp, rfl⟩
    · exact .inr ⟨by simp [h1], h2⟩

theorem shift_maps (maps : List AttributionMap) (f : Nat → AttributionMap → AttributionMap)
    (hf : ∀ j am, (f j am).token = am.token ∧ (f j am).attribution = am.attribution) :
    ∀ mp ∈ ((List.range maps.length).zip maps).map (fun p => f p.1 p.2),
      ∃ am ∈ maps, mp.token = am.token ∧ mp.attribution = am.attribution := by
  intro mp h
  obtain ⟨⟨j, am⟩, hm, rfl⟩ := List.mem_map.mp h
  exact ⟨am, (List.of_mem_zip hm).2, hf j am⟩

theorem getIdx_some {α} {l : List α} {i : Nat} {x : α} (h : getIdx l i = .ok x) : l[i]? = some x := by
  unfold getIdx at h
  split at h
  · cases h; assumption
  · cases h

theorem fragmentGo_src (g : PMol) : ∀ (fuel depth : Nat) (task : EncTask) (derived : List Str)
    (maps : List AttributionMap) (ai : Nat) (r : List Str × List AttributionMap),
    fragmentGo g fuel depth task derived maps ai = .ok r →
    (∀ mp ∈ maps, EncSrc g mp.token mp.attribution) → ∀ mp ∈ r.2, EncSrc g mp.token mp.attribution := by
  intro fuel
  induction fuel with
  | zero => intro _ _ _ _ _ _ h; simp [fragmentGo] at h
  | succ fuel ih =>
    intro depth task derived maps ai r h hm
    cases task with
    | atomVisit bondInto curr =>
      rw [fragmentGo] at h
      bind_at h with ⟨atom, h1, h⟩
      bind_at h with ⟨token, h2, h⟩
      bind_at h with ⟨out, h3, h⟩
      refine ih _ _ _ _ _ _ h ?_
      intro mp hmp
      rcases List.mem_append.mp hmp with hmp | hmp
      · exact hm mp hmp
      · simp only [List.mem_singleton] at hmp
        subst hmp
        exact .inl ⟨curr, atom, bondInto, getIdx_some h1, h2, rfl⟩
    | bondLoop rest i outLen next =>
      cases rest with
      | nil =>
        cases next with
        | none => simp only [fragmentGo, pure, Except.pure] at h; cases h; exact hm
        | some b =>
          simp only [fragmentGo] at h
          exact ih _ _ _ _ _ _ h hm
      | cons bond rest =>
        rw [fragmentGo] at h
        split at h
        · split at h
          · exact ih _ _ _ _ _ _ h hm
          · bind_at h with ⟨rev, _, h⟩
            bind_at h with ⟨q, hq, h⟩
            bind_at h with ⟨pre, _, h⟩
            dsimp only at h
            refine ih _ _ _ _ _ _ h ?_
            intro mp hmp
            have := pushIndexSyms_maps q bond.attr ai _ _ mp hmp
            rcases this with h1 | ⟨h1, h2⟩
            · rcases List.mem_append.mp h1 with h1 | h1
              · exact hm mp h1
              · simp only [List.mem_singleton] at h1
                subst h1
                exact .inr ⟨bond, rfl, .inl ⟨pre, q.length, .inl rfl⟩⟩
            · exact .inr ⟨bond, h2, .inr ⟨_, q, hq, h1⟩⟩
        · split at h
          · exact ih _ _ _ _ _ _ h hm
          · split at h
            · cases h
            · bind_at h with ⟨⟨branch, maps1⟩, hb, h⟩
              dsimp only at h
              bind_at h with ⟨q, hq, h⟩
              bind_at h with ⟨pre, _, h⟩
              have hm1 := ih _ _ _ _ _ _ hb hm
              refine ih _ _ _ _ _ _ h ?_
              intro mp hmp
              rcases List.mem_append.mp hmp with hmp | hmp
              · obtain ⟨am, ham, e1, e2⟩ := shift_maps _
                  (fun j am => if maps.length ≤ j && j < maps1.length then
                    { am with index := am.index + (q.length + 1 : Nat) } else am)
                  (fun j am => by split <;> exact ⟨rfl, rfl⟩) mp hmp
                rw [e1, e2]
                have := pushIndexSyms_maps q bond.attr ai _ _ am ham
                rcases this with h1 | ⟨h1, h2⟩
                · exact hm1 am h1
                · exact .inr ⟨bond, h2, .inr ⟨_, q, hq, h1⟩⟩
              · simp only [List.mem_singleton] at hmp
                subst hmp
                exact .inr ⟨bond, rfl, .inl ⟨pre, q.length, .inr rfl⟩⟩

theorem encFrags_src (g : PMol) : ∀ (roots : List Nat) (ai : Nat) (acc : List Str)
    (maps : List AttributionMap) (r : List Str × List AttributionMap),
    encoderFull.frags g roots ai acc maps = .ok r →
    (∀ mp ∈ maps, EncSrc g mp.token mp.attribution) → ∀ mp ∈ r.2, EncSrc g mp.token mp.attribution := by
  intro roots
  induction roots with
  | nil =>
    intro ai acc maps r h hm
    simp only [encoderFull.frags, pure, Except.pure] at h
    cases h; exact hm
  | cons root rest ih =>
    intro ai acc maps r h hm
    rw [encoderFull.frags] at h
    bind_at h with ⟨⟨derived, maps1⟩, h1, h⟩
    exact ih _ _ _ _ h (fragmentGo_src g _ _ _ _ _ _ _ h1 hm)

/-- the `i`-th atom's attribution is `some [⟨k, text of the i-th atom token⟩]` -/
theorem PAttr.atom {toks : List SmilesTok} {g : PMol} (h : PAttr (atomTexts toks) g) {i : Nat} {a : Atom}
    (ha : g.atoms[i]? = some a) :
    ∃ (t : SmilesTok) (k : Nat), (toks.filter (·.kind == .atom))[i]? = some t ∧
      g.atomAttr[i]? = some (some [{ index := k, token := t.text }]) := by
  obtain ⟨h1, h2⟩ := h
  have hi : i < g.atomAttr.length := by
    rw [h2]; exact (List.getElem?_eq_some_iff.mp ha).1
  have h3 : (g.atomAttr.map attrText)[i]? = (atomTexts toks)[i]? := by rw [h1]
  rw [List.getElem?_map, List.getElem?_eq_getElem hi] at h3
  simp only [atomTexts, List.getElem?_map, Option.map_some] at h3
  cases ht : (toks.filter (·.kind == .atom))[i]? with
  | none => rw [ht] at h3; cases h3
  | some t =>
    rw [ht] at h3
    simp only [Option.map_some, Option.some.injEq] at h3
    refine ⟨t, ?_⟩
    rw [List.getElem?_eq_getElem hi]
    generalize g.atomAttr[i] = o at h3
    match o, h3 with
    | some [x], h3 =>
      simp only [attrText, Option.some.injEq] at h3
      exact ⟨x.index, rfl, by rw [← h3]⟩

/-- Every encoder map comes from an atom visit or from a bond, and the graph written out carries
    the parser's attributions. -/
theorem encoderFull_maps {T : Table} {smiles : Str} {strict : Bool} {tape : List Nat} {sel : Str}
    {maps : List AttributionMap} (h : encoderFull T smiles strict true tape = .ok (sel, maps)) :
    ∃ g toks, encodePrepare T smiles strict true tape = .ok g ∧
      tokenizeSmiles (smiles.length + 1) smiles = some toks ∧ PAttr (atomTexts toks) g ∧
      ∀ mp ∈ maps, EncSrc g mp.token mp.attribution := by
  unfold encoderFull at h
  bind_at h with ⟨g, hg, h⟩
  bind_at h with ⟨⟨fragments, maps0⟩, hf, h⟩
  simp only [pure, Except.pure, Except.ok.injEq, Prod.mk.injEq] at h
  obtain ⟨rfl, rfl⟩ := h
  obtain ⟨toks, ht, hp⟩ := encodePrepare_attr hg
  refine ⟨g, toks, hg, ht, hp, ?_⟩
  intro mp hmp
  exact encFrags_src g _ _ _ _ _ hf (fun _ hx => by cases hx) mp (List.mem_filter.mp hmp).1

end SV
