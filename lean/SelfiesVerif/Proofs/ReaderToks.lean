/-
  C01r: the writer's token specification regrouped into the units the SMILES tokenizer produces.

  The specification (`Spec/SmilesTokens.lean`) has a separate token for the bond symbol; the
  tokenizer of the library attaches the bond character to the atom / ring-closure token that
  follows it.  `RP` is the regrouped pre-token (`atom` and `ring` carry the bond text in front of
  them), `rAtom` / `rBonds` mirror `atomPre` / `bondsPre`, `toP` flattens back.
  `rStr` = the written string, `rLex` = the expected `SmilesTok` list.
-/
import SelfiesVerif.Proofs.ReaderDefs
import SelfiesVerif.Proofs.WriterShape

namespace SV

/-- reader-side pre-token: a tokenizer unit -/
inductive RP
  | atom (bt : Str) (idx : Nat) (text : Str)
  | ring (bt : Str) (src dst : Nat)
  | open_
  | close
  deriving DecidableEq, Repr, Inhabited

/-- out-bonds of one atom (mirror of `bondsPre`; `sub bt c` = the subtree at `c` entered through a
    bond written `bt`) -/
def rBonds (sub : Str → Nat → List RP) : List DirBond → List RP
  | [] => []
  | b :: rest =>
    if b.ring then .ring (bondText b) b.src b.dst :: rBonds sub rest
    else if rest.isEmpty then sub (bondText b) b.dst
    else .open_ :: (sub (bondText b) b.dst ++ .close :: rBonds sub rest)

/-- subtree at atom `i` entered through a bond written `bt` (mirror of `atomPre`) -/
def rAtom (g : Mol) : Nat → Str → Nat → List RP
  | 0, _, _ => []
  | f + 1, bt, i => .atom bt i (g.atomTextAt i) :: rBonds (rAtom g f) (g.row i)

def RP.toP : RP → List PTok
  | .atom bt i t => [.bond bt, .atom i t]
  | .ring bt a b => [.bond bt, .ring a b]
  | .open_ => [.open_]
  | .close => [.close]

def toP (l : List RP) : List PTok := l.flatMap RP.toP

@[simp] theorem toP_nil : toP [] = [] := rfl
@[simp] theorem toP_cons (t : RP) (l : List RP) : toP (t :: l) = t.toP ++ toP l := rfl
theorem toP_append (a b : List RP) : toP (a ++ b) = toP a ++ toP b := by simp [toP]

theorem toP_rBonds (sub : Str → Nat → List RP) (sub' : Nat → List PTok) (row : List DirBond)
    (h : ∀ b ∈ row, b.ring = false → toP (sub (bondText b) b.dst) = .bond (bondText b) :: sub' b.dst) :
    toP (rBonds sub row) = bondsPre sub' row := by
  induction row with
  | nil => rfl
  | cons b rest ih =>
    have ih' := ih (fun x hx => h x (List.mem_cons_of_mem _ hx))
    unfold rBonds bondsPre
    cases hr : b.ring with
    | true => simp [RP.toP, ih']
    | false =>
      have hb := h b (by simp) hr
      cases rest with
      | nil => simp [hb]
      | cons b' rest' =>
        simp only [Bool.false_eq_true, if_false, List.isEmpty_cons, toP_cons, toP_append, RP.toP, hb, ih']
        simp

theorem toP_rAtom {g : Mol} (hg : WGraph g) :
    ∀ (f i : Nat) (bt : Str), i < g.atoms.length → g.atoms.length ≤ f + i →
      toP (rAtom g f bt i) = .bond bt :: atomPre g f i := by
  intro f
  induction f with
  | zero => intro i bt h1 h2; omega
  | succ f ih =>
    intro i bt h1 h2
    simp only [rAtom, atomPre, toP_cons, RP.toP, List.cons_append, List.nil_append]
    congr 2
    apply toP_rBonds
    intro b hb hr
    obtain ⟨hs, hd, _, _, _, hlt⟩ := hg.row_bonds h1 b hb
    have := hlt hr
    exact ih b.dst _ hd (by omega)

/-! ### the written string and the expected tokenizer output -/

/-- the written string -/
def rStr (log : RingLog) (l : List RP) : Str := renderToks (labelToks log (toP l))

/-- the ring log after the tokens -/
def rLog (log : RingLog) (l : List RP) : RingLog := logAfter log (toP l)

/-- the tokens `tokenize_smiles` is to produce -/
def rLex : RingLog → List RP → List SmilesTok
  | _, [] => []
  | log, .atom bt _ t :: rest => { bondChar := bt.head?, kind := .atom, text := t } :: rLex log rest
  | log, .ring bt a b :: rest =>
    { bondChar := bt.head?, kind := .ring, text := labelText (ringStep log a b).1 }
      :: rLex (ringStep log a b).2 rest
  | log, .open_ :: rest => { bondChar := none, kind := .branch, text := ['('] } :: rLex log rest
  | log, .close :: rest => { bondChar := none, kind := .branch, text := [')'] } :: rLex log rest

@[simp] theorem rStr_nil (log : RingLog) : rStr log [] = [] := rfl
@[simp] theorem rLog_nil (log : RingLog) : rLog log [] = log := rfl

theorem rStr_atom (log : RingLog) (bt : Str) (i : Nat) (t : Str) (l : List RP) :
    rStr log (.atom bt i t :: l) = bt ++ (t ++ rStr log l) := by
  simp [rStr, RP.toP, labelToks, render_cons, Tok.text]

theorem rStr_ring (log : RingLog) (bt : Str) (a b : Nat) (l : List RP) :
    rStr log (.ring bt a b :: l) =
      bt ++ (labelText (ringStep log a b).1 ++ rStr (ringStep log a b).2 l) := by
  simp [rStr, RP.toP, labelToks, render_cons, Tok.text]

theorem rStr_open (log : RingLog) (l : List RP) : rStr log (.open_ :: l) = '(' :: rStr log l := by
  simp [rStr, RP.toP, labelToks, render_cons, Tok.text]

theorem rStr_close (log : RingLog) (l : List RP) : rStr log (.close :: l) = ')' :: rStr log l := by
  simp [rStr, RP.toP, labelToks, render_cons, Tok.text]

theorem rLog_atom (log : RingLog) (bt : Str) (i : Nat) (t : Str) (l : List RP) :
    rLog log (.atom bt i t :: l) = rLog log l := by
  simp [rLog, RP.toP, logAfter]

theorem rLog_ring (log : RingLog) (bt : Str) (a b : Nat) (l : List RP) :
    rLog log (.ring bt a b :: l) = rLog (ringStep log a b).2 l := by
  simp [rLog, RP.toP, logAfter]

theorem rLog_open (log : RingLog) (l : List RP) : rLog log (.open_ :: l) = rLog log l := by
  simp [rLog, RP.toP, logAfter]

theorem rLog_close (log : RingLog) (l : List RP) : rLog log (.close :: l) = rLog log l := by
  simp [rLog, RP.toP, logAfter]

theorem rLog_append (log : RingLog) (a b : List RP) : rLog log (a ++ b) = rLog (rLog log a) b := by
  simp [rLog, toP_append, logAfter_append]

theorem rStr_append (log : RingLog) (a b : List RP) :
    rStr log (a ++ b) = rStr log a ++ rStr (rLog log a) b := by
  simp [rStr, rLog, toP_append, labelToks_append, render_append]

theorem rLex_append (log : RingLog) (a b : List RP) :
    rLex log (a ++ b) = rLex log a ++ rLex (rLog log a) b := by
  induction a generalizing log with
  | nil => rfl
  | cons t rest ih =>
    cases t with
    | atom bt i t => simp [rLex, rLog_atom, ih]
    | ring bt x y => simp [rLex, rLog_ring, ih]
    | open_ => simp [rLex, rLog_open, ih]
    | close => simp [rLex, rLog_close, ih]

/-! ### the fragments -/

/-- the tokenizer units of the fragment rooted at `r` -/
def rFrag (g : Mol) (r : Nat) : List RP := rAtom g g.atoms.length [] r

theorem toP_rFrag {g : Mol} (hg : WGraph g) {r : Nat} (hr : r < g.atoms.length) :
    toP (rFrag g r) = .bond [] :: specPre g r :=
  toP_rAtom hg _ r [] hr (by omega)

theorem rStr_rFrag {g : Mol} (hg : WGraph g) {r : Nat} (hr : r < g.atoms.length) (log : RingLog) :
    rStr log (rFrag g r) = renderToks (labelToks log (specPre g r)) := by
  simp [rStr, toP_rFrag hg hr, labelToks, render_cons, Tok.text]

theorem rLog_rFrag {g : Mol} (hg : WGraph g) {r : Nat} (hr : r < g.atoms.length) (log : RingLog) :
    rLog log (rFrag g r) = logAfter log (specPre g r) := by
  simp [rLog, toP_rFrag hg hr, logAfter]

/-- the written strings of the fragments, the ring log threaded through -/
def rStrs (g : Mol) : RingLog → List Nat → List Str
  | _, [] => []
  | log, r :: rest => rStr log (rFrag g r) :: rStrs g (rLog log (rFrag g r)) rest

theorem rStrs_eq {g : Mol} (hg : WGraph g) : ∀ (roots : List Nat) (log : RingLog),
    (∀ r ∈ roots, r < g.atoms.length) →
      (specFragsFrom g log roots).map renderToks = rStrs g log roots
  | [], _, _ => rfl
  | r :: rest, log, h => by
    have hr := h r (by simp)
    simp only [specFragsFrom, List.map_cons, rStrs, rStr_rFrag hg hr, rLog_rFrag hg hr]
    rw [rStrs_eq hg rest _ (fun x hx => h x (by simp [hx]))]

/-- the decoder's output in terms of the tokenizer units -/
theorem specSmiles_eq {g : Mol} (hg : WGraph g) :
    specSmiles g = joinWith ['.'] (rStrs g [] g.roots) := by
  unfold specSmiles specFrags
  rw [rStrs_eq hg g.roots [] hg.rootsLt]

end SV
