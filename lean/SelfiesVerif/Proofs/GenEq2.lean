/-
  Tie (a), index code: the functions `get_index_from_selfies` and `get_selfies_from_index` of
  selfies/grammar_rules.py as TRANSLATED from the Python AST on every run
  (`Generated/IndexFns.lean`, `SV.Gen.get_index_from_selfies`, `SV.Gen.get_selfies_from_index`)
  equal the hand model (`SV.getIndexFromSelfies`, `SV.getSelfiesFromIndex`, Model/Symbols.lean)
  on ALL arguments.

  The generated file changes whenever the source is rewritten, so the proofs look at the generated
  terms as little as possible:

  * `get_index_from_selfies`: the generated body must be ONE fold over the symbols with an `Int`
    accumulator.  Two loop shapes are recognised, each through a lemma about an ARBITRARY step
    function `step` whose only hypothesis is an equation for one step, discharged by
    normalisation (`simp` with the digit lemma, then `ring`):
      - positional  `for i, c in enumerate(reversed(symbols))`, step `acc + digit c * base ^ i`
      - Horner      `for c in symbols`,                          step `acc * base + digit c`
    and the same two with a body that uses raising operations under a guard
    (`INDEX_CODE[c] if c in INDEX_CODE else 0`), where the fold is a `List.foldlM`.
  * `get_selfies_from_index`: the generated `while` loop is an auxiliary definition by recursion
    on fuel over the state `(index, list)`.  Its specification `while_spec` (the loop appends the
    little-endian digits of `index`, looked up in the alphabet, and leaves `index = 0`; in
    particular it never runs out of fuel) is proved by induction on the fuel after normalising
    one unfolding of the loop with the `PyRt` lemmas; the normal form does not depend on whether
    the source says `index % base` / `index //= base` or `divmod`, `while index:` or
    `while index > 0:`, `symbols[::-1]` or `symbols.reverse()`.
  * Every proof is a tactic macro that is run twice: on the generated definition and on the hand
    copy `SV.Gen.Fallback.*` (theorems `fallback_*`).  If the translator reports a fallback the
    generated definition IS the hand copy, `gen_*_eq` is closed by the `fallback_*` theorem and the
    only obligation that breaks is `translator_no_fallback_index`.

  Checked on: the pristine source, seeded/harmless/h1 (Horner + divmod rewrite), the variants of
  harness/translator_tests/harmless_variants.diff; and, as negative controls,
  seeded/C16-horner-skip-unknown and ten further seeded defects (`gen_*_eq` fails on each).
-/
import SelfiesVerif.Generated.IndexFns
import SelfiesVerif.Proofs.PyRtLemmas
import SelfiesVerif.Proofs.IndexCode
import Mathlib.Tactic.Ring

set_option linter.unusedSimpArgs false
set_option linter.unusedTactic false
set_option linter.unreachableTactic false

namespace SV

/-- no hand-written fallback was substituted in `Generated/IndexFns.lean` -/
theorem translator_no_fallback_index : Gen.translatorFallbacksIndex = [] := by decide

/-! ### `get_index_from_selfies` -/

/-- `INDEX_CODE.get(c, 0)` is the model's digit function (also for `c = None`) -/
theorem dictGetD_indexCode (c : Option Str) :
    PyRt.dictGetD Gen.indexCode c 0 = ((indexDigit c : Nat) : Int) := by
  cases c with
  | none => rfl
  | some s =>
    simp only [PyRt.dictGetD, PyRt.dictGet?, indexDigit]
    cases lookup s Gen.indexCode <;> rfl

theorem dictHas_indexCode_none : PyRt.dictHas Gen.indexCode none = false := rfl

/-- positional shape, any step function -/
theorem foldl_enum_pow (B : Nat) (step : Int → Nat × Option Str → Int)
    (hstep : ∀ acc i c, step acc (i, c) = acc + ((indexDigit c : Nat) : Int) * ((B : Nat) : Int) ^ i)
    (l : List (Option Str)) (k : Nat) (acc : Int) :
    List.foldl step acc (PyRt.enumerateFrom k l) = acc + ((getIndexFromSelfies.go B l k : Nat) : Int) := by
  induction l generalizing k acc with
  | nil => simp [PyRt.enumerateFrom, getIndexFromSelfies.go]
  | cons c rest ih =>
    simp only [PyRt.enumerateFrom, List.foldl_cons, getIndexFromSelfies.go, ih, hstep]
    simp only [Int.natCast_add, Int.natCast_mul, Int.natCast_pow, Int.add_assoc]

theorem index_pow_shape (step : Int → Nat × Option Str → Int)
    (hstep : ∀ acc i c, step acc (i, c)
      = acc + ((indexDigit c : Nat) : Int) * ((Gen.indexCode.length : Nat) : Int) ^ i)
    (symbols : List (Option Str)) :
    (Except.ok (List.foldl step 0 (PyRt.enumerate symbols.reverse)) : Py Int)
      = .ok ((getIndexFromSelfies symbols : Nat) : Int) := by
  rw [PyRt.enumerate, foldl_enum_pow _ step hstep]
  simp [getIndexFromSelfies]

/-- Horner shape, any step function -/
theorem foldl_horner_cast (B : Nat) (step : Int → Option Str → Int)
    (hstep : ∀ acc c, step acc c = acc * ((B : Nat) : Int) + ((indexDigit c : Nat) : Int))
    (l : List (Option Str)) (a : Nat) :
    List.foldl step (a : Int) l
      = ((List.foldl (fun acc c => acc * B + indexDigit c) a l : Nat) : Int) := by
  induction l generalizing a with
  | nil => rfl
  | cons c rest ih =>
    simp only [List.foldl_cons, hstep]
    rw [← ih]
    simp only [Int.natCast_add, Int.natCast_mul]

theorem index_horner_shape (step : Int → Option Str → Int)
    (hstep : ∀ acc c, step acc c
      = acc * ((Gen.indexCode.length : Nat) : Int) + ((indexDigit c : Nat) : Int))
    (symbols : List (Option Str)) :
    (Except.ok (List.foldl step 0 symbols) : Py Int)
      = .ok ((getIndexFromSelfies symbols : Nat) : Int) := by
  rw [getIndexFromSelfies_eq_foldl]
  exact congrArg _ (foldl_horner_cast _ step hstep symbols 0)

/-- the same two shapes when the loop body is written with operations that can raise
    (`INDEX_CODE[c]` under a guard, …) but never does: the step is `.ok` of the pure step -/
theorem foldlM_ok {α σ} (step : σ → α → Py σ) (pstep : σ → α → σ)
    (h : ∀ a x, step a x = .ok (pstep a x)) (l : List α) (a : σ) :
    List.foldlM step a l = .ok (List.foldl pstep a l) := by
  induction l generalizing a with
  | nil => rfl
  | cons x l ih => simp only [List.foldlM_cons, List.foldl_cons, h, bind, Except.bind, ih]

theorem index_pow_shape_m (step : Int → Nat × Option Str → Py Int)
    (hstep : ∀ acc i c, step acc (i, c)
      = .ok (acc + ((indexDigit c : Nat) : Int) * ((Gen.indexCode.length : Nat) : Int) ^ i))
    (symbols : List (Option Str)) :
    (List.foldlM step 0 (PyRt.enumerate symbols.reverse) >>= fun r => (Except.ok r : Py Int))
      = .ok ((getIndexFromSelfies symbols : Nat) : Int) := by
  rw [foldlM_ok step (fun acc p => acc + ((indexDigit p.2 : Nat) : Int)
    * ((Gen.indexCode.length : Nat) : Int) ^ p.1) (fun a x => hstep a x.1 x.2)]
  exact index_pow_shape _ (fun _ _ _ => rfl) symbols

theorem index_horner_shape_m (step : Int → Option Str → Py Int)
    (hstep : ∀ acc c, step acc c
      = .ok (acc * ((Gen.indexCode.length : Nat) : Int) + ((indexDigit c : Nat) : Int)))
    (symbols : List (Option Str)) :
    (List.foldlM step 0 symbols >>= fun r => (Except.ok r : Py Int))
      = .ok ((getIndexFromSelfies symbols : Nat) : Int) := by
  rw [foldlM_ok step _ hstep]
  exact index_horner_shape _ (fun _ _ => rfl) symbols

theorem option_cases {α} (o : Option α) : o = none ∨ ∃ v, o = some v := by
  cases o with
  | none => exact Or.inl rfl
  | some v => exact Or.inr ⟨v, rfl⟩

set_option hygiene false in
/-- one step of a loop body that looks the digit up with guarded raising operations -/
macro "index_step_m" : tactic =>
  `(tactic| (
    intros
    rename_i c
    cases c with
    | none =>
      simp [PyRt.dictHas, PyRt.dictItem, PyRt.dictGetD, PyRt.dictGet?, indexDigit, bind, Except.bind,
        pure, Except.pure] <;> ring
    | some s =>
      simp only [PyRt.dictHas, PyRt.dictItem, PyRt.dictGetD, PyRt.dictGet?, indexDigit]
      rcases option_cases (lookup s Gen.indexCode) with h | ⟨v, h⟩ <;>
        simp [h, bind, Except.bind, pure, Except.pure] <;> ring))

/-- one loop step, up to ring normalisation -/
macro "index_step" : tactic =>
  `(tactic| (
    intros
    try simp only [dictGetD_indexCode]
    all_goals first | rfl | ring))

/-- the unfolded body is one of the recognised folds -/
macro "index_eq_proof " symbols:term : tactic =>
  `(tactic| first
    | exact index_pow_shape _ (by index_step) $symbols
    | exact index_horner_shape _ (by index_step) $symbols
    | exact index_pow_shape_m _ (by index_step_m) $symbols
    | exact index_horner_shape_m _ (by index_step_m) $symbols)

/-- the hand copy that the translator substitutes when it reports a fallback -/
theorem fallback_get_index_from_selfies_eq (symbols : List (Option Str)) :
    Gen.Fallback.get_index_from_selfies symbols = .ok ((getIndexFromSelfies symbols : Nat) : Int) := by
  unfold Gen.Fallback.get_index_from_selfies
  index_eq_proof symbols

theorem gen_get_index_from_selfies_eq (symbols : List (Option Str)) :
    Gen.get_index_from_selfies symbols = .ok ((getIndexFromSelfies symbols : Nat) : Int) := by
  unfold Gen.get_index_from_selfies
  first
  | index_eq_proof symbols
  | exact fallback_get_index_from_selfies_eq symbols
  | index_eq_proof symbols   -- (again, for its error message)

/-- `get_index_from_selfies` never raises -/
theorem gen_get_index_from_selfies_ok (symbols : List (Option Str)) :
    ∃ n : Nat, Gen.get_index_from_selfies symbols = .ok (n : Int) :=
  ⟨_, gen_get_index_from_selfies_eq symbols⟩

/-! ### `get_selfies_from_index` -/

set_option hygiene false in
/-- proof of the loop specification for the loop definition `loop` (the generated one or the hand
    copy): induction on the fuel, one unfolding normalised with the `PyRt` lemmas -/
macro "while_spec_proof " loop:ident b:ident hb:ident : tactic =>
  `(tactic| (
    have hb0 : $b ≠ 0 := by omega
    intro fuel
    induction fuel with
    | zero => intro n acc h; omega
    | succ f ih =>
      intro n acc hn
      rcases Nat.eq_zero_or_pos n with rfl | hpos
      · simp [$loop:ident, digitsLE_zero, pure, Except.pure, bind, Except.bind]
      · have hne : ((n : Int) ≠ 0) := by omega
        have hgt : ((n : Int) > 0) := by omega
        have hgt' : ((0 : Int) < (n : Int)) := by omega
        have hlt : n / $b < f := by
          have : n / $b < n := Nat.div_lt_self hpos $hb
          omega
        rw [digitsLE_succ_pos $b f n hpos, List.mapM_cons]
        simp only [$loop:ident, hne, hgt, hgt', ne_eq, not_false_eq_true, decide_true, if_true,
          PyRt.mod_natCast _ _ hb0, PyRt.floorDiv_natCast _ _ hb0, PyRt.divmod_natCast _ _ hb0,
          PyRt.index_natCast, bind, Except.bind, pure, Except.pure]
        cases h : getIdx Gen.indexAlphabet (n % $b) with
        | error e => rfl
        | ok t =>
          simp only [ih (n / $b) (acc ++ [t]) hlt, bind, Except.bind, pure, Except.pure]
          cases (selfiesDigitsLE $b f (n / $b)).mapM (getIdx Gen.indexAlphabet) with
          | error e => rfl
          | ok ds => simp))

theorem fallback_while_spec (b : Nat) (hb : 2 ≤ b) :
    ∀ (fuel n : Nat) (acc : List Str), n < fuel →
      Gen.Fallback.get_selfies_from_index_while1 b fuel ((n : Int), acc)
        = (do let ds ← (selfiesDigitsLE b fuel n).mapM (getIdx Gen.indexAlphabet)
              pure ((0 : Int), acc ++ ds)) := by
  while_spec_proof Gen.Fallback.get_selfies_from_index_while1 b hb

/-- Specification of the translated `while index:` loop for ANY divisor `b ≥ 2`:
    started with `n < fuel` it does not run out of fuel, appends the alphabet entries of the
    little-endian base-`b` digits of `n` and ends with `index = 0`. -/
theorem while_spec (b : Nat) (hb : 2 ≤ b) :
    ∀ (fuel n : Nat) (acc : List Str), n < fuel →
      Gen.get_selfies_from_index_while1 b fuel ((n : Int), acc)
        = (do let ds ← (selfiesDigitsLE b fuel n).mapM (getIdx Gen.indexAlphabet)
              pure ((0 : Int), acc ++ ds)) := by
  first
  | while_spec_proof Gen.get_selfies_from_index_while1 b hb
  | exact fallback_while_spec b hb
  | while_spec_proof Gen.get_selfies_from_index_while1 b hb   -- (again, for its error message)

theorem mapM_getIdx_error {α} (A : List α) (ds : List Nat) (e : PyExc)
    (h : ds.mapM (getIdx A) = .error e) : e = .IndexError := by
  induction ds generalizing e with
  | nil => simp [pure, Except.pure] at h
  | cons d ds ih =>
    rw [List.mapM_cons] at h
    cases hd : getIdx A d with
    | error e' =>
      rw [hd] at h
      simp only [bind, Except.bind, Except.error.injEq] at h
      subst h
      unfold getIdx at hd
      split at hd <;> simp_all
    | ok v =>
      rw [hd] at h
      cases hr : ds.mapM (getIdx A) with
      | error e' =>
        rw [hr] at h
        simp only [bind, Except.bind, Except.error.injEq] at h
        subst h
        exact ih _ hr
      | ok vs =>
        rw [hr] at h
        simp [bind, Except.bind, pure, Except.pure] at h

/-- The fuel `index.toNat + 1` that the translator computes suffices: the loop started by
    `get_selfies_from_index` on `n` ends normally, whatever the alphabet (here with `b ≥ 2`). -/
theorem while_fuel_suffices (b : Nat) (hb : 2 ≤ b) (n : Nat) (acc : List Str) :
    Gen.get_selfies_from_index_while1 b ((n : Int).toNat + 1) ((n : Int), acc)
      ≠ .error .NonTermination := by
  rw [Int.toNat_natCast, while_spec b hb (n + 1) n acc (by omega)]
  cases h : (selfiesDigitsLE b (n + 1) n).mapM (getIdx Gen.indexAlphabet) with
  | error e =>
    have := mapM_getIdx_error _ _ e h
    subst this
    simp [bind, Except.bind]
  | ok ds => simp [bind, Except.bind, pure, Except.pure]

set_option hygiene false in
/-- after unfolding both sides: case analysis on the sign of `index`, the loop replaced by its
    specification -/
macro "selfies_from_index_proof " index:ident : tactic =>
  `(tactic| (
    have hb : 2 ≤ Gen.indexAlphabet.length := by decide
    have hb' : ¬ (Gen.indexAlphabet.length < 2) := by omega
    by_cases hneg : $index < 0
    · simp only [hneg, decide_true, if_true]
    · by_cases hz : $index = 0
      · subst hz
        simp only [hneg, decide_false, decide_true, if_true, if_false, PyRt.index_zero, bind,
          Except.bind, pure, Except.pure]
        simp
      · obtain ⟨n, rfl⟩ := Int.eq_ofNat_of_zero_le (by omega : 0 ≤ $index)
        have hm := mapM_getIdx Gen.indexAlphabet ([] : Str)
          (selfiesDigitsLE Gen.indexAlphabet.length (n + 1) n) (digitsLE_lt _ (by omega) _ _)
        have hm2 := mapM_getIdx Gen.indexAlphabet ([] : Str)
          (selfiesDigitsLE Gen.indexAlphabet.length (n + 1) n).reverse
          (fun d hd => digitsLE_lt _ (by omega) _ _ d (List.mem_reverse.1 hd))
        simp only [hneg, hz, hb', decide_false, if_false, Int.toNat_natCast,
          while_spec _ hb (n + 1) n [] (by omega), fallback_while_spec _ hb (n + 1) n [] (by omega),
          hm, hm2, bind, Except.bind, pure, Except.pure]
        simp [List.map_reverse]))

theorem fallback_get_selfies_from_index_eq (index : Int) :
    Gen.Fallback.get_selfies_from_index index = getSelfiesFromIndex index := by
  unfold Gen.Fallback.get_selfies_from_index getSelfiesFromIndex
  selfies_from_index_proof index

theorem gen_get_selfies_from_index_eq (index : Int) :
    Gen.get_selfies_from_index index = getSelfiesFromIndex index := by
  first
  | (unfold Gen.get_selfies_from_index getSelfiesFromIndex
     selfies_from_index_proof index)
  | exact fallback_get_selfies_from_index_eq index
  | (unfold Gen.get_selfies_from_index getSelfiesFromIndex
     selfies_from_index_proof index)   -- (again, for its error message)

/-- the translated function never reports `NonTermination`: the fuel always suffices -/
theorem gen_get_selfies_from_index_terminates (index : Int) :
    Gen.get_selfies_from_index index ≠ .error .NonTermination := by
  rw [gen_get_selfies_from_index_eq]
  by_cases hneg : index < 0
  · simp [getSelfiesFromIndex, hneg]
  · obtain ⟨n, rfl⟩ := Int.eq_ofNat_of_zero_le (by omega : 0 ≤ index)
    rw [getSelfiesFromIndex_nat indexTablesOK n]
    simp

/-! ### a corollary on the translated code itself -/

/-- Round trip of the TRANSLATED functions, for every natural number: `get_selfies_from_index`
    succeeds and `get_index_from_selfies` maps its result back.  (Property C16 is proved on the
    hand model; the two equalities above carry it over to the code as translated.) -/
theorem gen_index_roundtrip (n : Nat) :
    ∃ syms, Gen.get_selfies_from_index (n : Int) = .ok syms
      ∧ Gen.get_index_from_selfies (syms.map some) = .ok (n : Int) := by
  refine ⟨_, (gen_get_selfies_from_index_eq _).trans (getSelfiesFromIndex_nat indexTablesOK n), ?_⟩
  rw [gen_get_index_from_selfies_eq,
    getIndexFromSelfies_map_indexSym indexTablesOK _ (encDigits_lt n), hornerBE_encDigits]

/-! ### non-vacuity on concrete values -/

example : Gen.get_index_from_selfies [some "[Ring1]".toList, none, some "[P]".toList, some "[X]".toList]
    = .ok 4336 := by decide
example : Gen.get_index_from_selfies [] = .ok 0 := by decide
example : Gen.get_selfies_from_index 0 = .ok ["[C]".toList] := by decide
example : Gen.get_selfies_from_index 17 = .ok ["[Ring1]".toList, "[Ring1]".toList] := by decide
example : Gen.get_selfies_from_index (-1) = .error .IndexError := by decide

end SV
