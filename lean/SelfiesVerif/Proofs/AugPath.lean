/-
  C05: `_flip_augmenting_path` along a simple alternating path keeps the matching valid;
  the BFS of `_find_augmenting_path` returns an alternating path (not necessarily simple).
-/
import SelfiesVerif.Proofs.Greedy

namespace SV

/-! ### flipping -/

theorem flipPath_spec : ∀ (path : List Nat) (m : Matching),
    (∀ x ∈ path, x < m.length) → path.length % 2 = 0 →
    ∃ m', flipPath path m = .ok m' ∧ m'.length = m.length ∧ (∀ x : Nat, x ∉ path → m'[x]? = m[x]?) ∧
      (path.Nodup → PairedAlong m' path)
  | [], m, _, _ => ⟨m, rfl, rfl, fun _ _ => rfl, fun _ => trivial⟩
  | [_], _, _, h => by simp at h
  | a :: b :: rest, m, hr, hl => by
    have ha : a < m.length := hr a (by simp)
    have hb : b < m.length := hr b (by simp)
    obtain ⟨m', h1, h2, h3, h4⟩ := flipPath_spec rest ((m.set a (some b)).set b (some a))
      (fun x hx => by simpa using hr x (by simp [hx])) (by simp at hl ⊢; omega)
    refine ⟨m', ?_, by simpa using h2, ?_, ?_⟩
    · simp only [flipPath, bind, Except.bind]
      rw [getIdx_ok_of_lt ha]
      simp only
      rw [getIdx_ok_of_lt (by simpa using hb)]
      exact h1
    · intro x hx
      simp only [List.mem_cons, not_or] at hx
      rw [h3 x hx.2.2]
      simp [Ne.symm hx.1, Ne.symm hx.2.1]
    · intro hnd
      simp only [List.nodup_cons, List.mem_cons, not_or] at hnd
      refine ⟨?_, ?_, h4 hnd.2.2⟩
      · rw [h3 a hnd.1.2]; simp [ha, Ne.symm hnd.1.1]
      · rw [h3 b hnd.2.1]; simp [hb]

/-- the new matching edges along the path are edges of the graph -/
def PairsAdj (g : Graph) : List Nat → Prop
  | a :: b :: rest => Adj g b a ∧ PairsAdj g rest
  | [_] => False
  | [] => True

theorem AltTail.pairsAdj {g : Graph} {m : Matching} : ∀ (b : Nat) (rest : List Nat),
    AltTail g m b rest → PairsAdj g rest
  | _, [], _ => trivial
  | _, [_], h => h.elim
  | _, _ :: d :: rest, h => ⟨h.2.1, AltTail.pairsAdj d rest h.2.2⟩

theorem AltTail.even {g : Graph} {m : Matching} : ∀ (b : Nat) (rest : List Nat),
    AltTail g m b rest → rest.length % 2 = 0
  | _, [], _ => rfl
  | _, [_], h => h.elim
  | _, _ :: d :: rest, h => by
    have := AltTail.even d rest h.2.2
    simp; omega

/-- every vertex on the path is unmatched or matched to a vertex on the path -/
theorem AltTail.closed {g : Graph} {m : Matching} (hv : ValidPartial g m) : ∀ (b : Nat) (rest : List Nat),
    AltTail g m b rest → ∀ x ∈ b :: rest, m[x]? = some none ∨ ∃ y ∈ b :: rest, m[x]? = some (some y)
  | b, [], h => by
    intro x hx; simp at hx; subst hx; exact Or.inl h
  | _, [_], h => h.elim
  | b, c :: d :: rest, h => by
    intro x hx
    have ih := AltTail.closed hv d rest h.2.2
    simp only [List.mem_cons] at hx
    rcases hx with rfl | rfl | hx
    · exact Or.inr ⟨c, by simp, h.1⟩
    · exact Or.inr ⟨b, by simp, (hv.matched _ _ h.1).2.2⟩
    · rcases ih x (by simpa using hx) with h' | ⟨y, hy, h'⟩
      · exact Or.inl h'
      · exact Or.inr ⟨y, List.mem_cons_of_mem _ (List.mem_cons_of_mem _ hy), h'⟩

theorem AugPath.closed {g : Graph} {m : Matching} (hv : ValidPartial g m) {path : List Nat}
    (hp : AugPath g m path) :
    ∀ x ∈ path, m[x]? = some none ∨ ∃ y ∈ path, m[x]? = some (some y) := by
  match path, hp with
  | a :: b :: rest, hp =>
    intro x hx
    simp only [List.mem_cons] at hx
    rcases hx with rfl | hx
    · exact Or.inl hp.1
    · rcases AltTail.closed hv b rest hp.2.2 x (by simpa using hx) with h' | ⟨y, hy, h'⟩
      · exact Or.inl h'
      · exact Or.inr ⟨y, List.mem_cons_of_mem _ hy, h'⟩

theorem AugPath.pairsAdj {g : Graph} {m : Matching} {path : List Nat} (hp : AugPath g m path) :
    PairsAdj g path := by
  match path, hp with
  | a :: b :: rest, hp => exact ⟨hp.2.1, AltTail.pairsAdj b rest hp.2.2⟩

theorem AugPath.even {g : Graph} {m : Matching} {path : List Nat} (hp : AugPath g m path) :
    path.length % 2 = 0 ∧ 2 ≤ path.length := by
  match path, hp with
  | a :: b :: rest, hp =>
    have := AltTail.even b rest hp.2.2
    simp; omega

theorem pairs_partner {g : Graph} (hg : GraphOK g) {m' : Matching} : ∀ (path : List Nat),
    PairsAdj g path → PairedAlong m' path →
    ∀ x ∈ path, ∃ y, m'[x]? = some (some y) ∧ m'[y]? = some (some x) ∧ Adj g x y ∧ y < g.length
  | [], _, _ => by simp
  | [_], h, _ => h.elim
  | a :: b :: rest, h, h' => by
    intro x hx
    simp only [List.mem_cons] at hx
    rcases hx with rfl | rfl | hx
    · exact ⟨b, h'.1, h'.2.1, hg.symm _ _ h.1, hg.inRange _ _ (hg.symm _ _ h.1)⟩
    · exact ⟨a, h'.2.1, h'.1, h.1, hg.inRange _ _ h.1⟩
    · exact pairs_partner hg rest h.2 h'.2.2 x hx

/-- C05 (2): flipping along a simple alternating path between two unmatched vertices -/
theorem flipPath_valid {g : Graph} (hg : GraphOK g) {m : Matching} (hv : ValidPartial g m)
    {path : List Nat} (hp : AugPath g m path) (hnd : path.Nodup) :
    ∃ m', flipPath path m = .ok m' ∧ ValidPartial g m' ∧ PairedAlong m' path ∧
      ∀ x : Nat, x ∉ path → m'[x]? = m[x]? := by
  have hcl := hp.closed hv
  have hr : ∀ x ∈ path, x < m.length := fun x hx => by
    rcases hcl x hx with h | ⟨_, _, h⟩ <;> exact lt_of_getElem?_some h
  obtain ⟨m', h1, h2, h3, h4⟩ := flipPath_spec path m hr hp.even.1
  have hpa := h4 hnd
  refine ⟨m', h1, ⟨h2.trans hv.length_eq, fun i j hij => ?_⟩, hpa, h3⟩
  by_cases hi : i ∈ path
  · obtain ⟨y, hy1, hy2, hy3, hy4⟩ := pairs_partner hg path hp.pairsAdj hpa i hi
    rw [hy1] at hij
    cases hij
    exact ⟨hy4, hy3, hy2⟩
  · rw [h3 i hi] at hij
    obtain ⟨h1', h2', h3'⟩ := hv.matched i j hij
    refine ⟨h1', h2', ?_⟩
    have hj : j ∉ path := by
      intro hj
      rcases hcl j hj with h | ⟨y, hy, h⟩
      · rw [h] at h3'; cases h3'
      · rw [h] at h3'; cases h3'; exact hi hy
    rw [h3 j hj]; exact h3'

/-! ### the BFS -/

/-- the vertices the BFS can put into its queue: the root and the mates of neighbours of such -/
inductive Outer (g : Graph) (m : Matching) (root : Nat) : Nat → Prop
  | root : Outer g m root root
  | step {node adj am : Nat} : Outer g m root node → Adj g node adj → m[adj]? = some (some am) →
      Outer g m root am

theorem Outer.root_or_matched {g : Graph} {m : Matching} {root : Nat} (hv : ValidPartial g m) {x : Nat}
    (h : Outer g m root x) : x = root ∨ ∃ y, m[x]? = some (some y) := by
  cases h with
  | root => exact Or.inl rfl
  | step _ _ h3 => exact Or.inr ⟨_, (hv.matched _ _ h3).2.2⟩

/-- invariant of the `parents` table -/
def ParentsOK (g : Graph) (m : Matching) (root : Nat) (parents : Parents) : Prop :=
  ∀ (x par via : Nat), parents[x]? = some (some (some par, some via)) →
    Outer g m root par ∧ Adj g par via ∧
      (m[via]? = some (some x) ∨ (via = x ∧ m[x]? = some none ∧ x ≠ root))

theorem ParentsOK.set {g : Graph} {m : Matching} {root : Nat} {parents : Parents}
    (hp : ParentsOK g m root parents) {x par via : Nat}
    (h1 : Outer g m root par) (h2 : Adj g par via)
    (h3 : m[via]? = some (some x) ∨ (via = x ∧ m[x]? = some none ∧ x ≠ root)) :
    ParentsOK g m root (parents.set x (some (some par, some via))) := by
  intro x' par' via' h
  rw [List.getElem?_set] at h
  split at h
  · split at h
    · cases h; rename_i e _; subst e; exact ⟨h1, h2, h3⟩
    · cases h
  · exact hp x' par' via' h

theorem bfsScan_inv {g : Graph} {m : Matching} {root node : Nat} (hnode : Outer g m root node) :
    ∀ (l : List Nat) (parents : Parents) (added : List Nat) (p' : Parents) (added' : List Nat)
      (oe : Option Nat),
    (∀ a ∈ l, Adj g node a) → ParentsOK g m root parents → (∀ q ∈ added, Outer g m root q) →
    bfsScan root node m l parents added = .ok (p', added', oe) →
    ParentsOK g m root p' ∧ (∀ q ∈ added', Outer g m root q) ∧
      ∀ e, oe = some e → m[e]? = some none ∧ e ≠ root := by
  intro l
  induction l with
  | nil =>
    intro parents added p' added' oe _ hp hq h
    simp only [bfsScan] at h
    cases h
    exact ⟨hp, hq, fun e he => by cases he⟩
  | cons adj rest ih =>
    intro parents added p' added' oe hl hp hq h
    have hadj : Adj g node adj := hl adj (by simp)
    have hrest : ∀ a ∈ rest, Adj g node a := fun a ha => hl a (by simp [ha])
    simp only [bfsScan, bind, Except.bind] at h
    split at h
    · cases h
    · rename_i mo hmo
      rw [getIdx_ok] at hmo
      split at h
      · -- unmatched neighbour
        split at h
        · rename_i hne
          split at h
          · cases h
          · simp only [pure, Except.pure] at h
            cases h
            have hne' : adj ≠ root := by simpa using hne
            exact ⟨hp.set hnode hadj (Or.inr ⟨rfl, hmo, hne'⟩), hq,
              fun e he => by cases he; exact ⟨hmo, hne'⟩⟩
        · exact ih _ _ _ _ _ hrest hp hq h
      · rename_i adjMate
        split at h
        · cases h
        · split at h
          · refine ih _ _ _ _ _ hrest (hp.set hnode hadj (Or.inl hmo)) ?_ h
            intro q hq'
            simp only [List.mem_append, List.mem_singleton] at hq'
            rcases hq' with hq' | rfl
            · exact hq q hq'
            · exact Outer.step hnode hadj hmo
          · exact ih _ _ _ _ _ hrest hp hq h

theorem bfsLoop_inv {g : Graph} {m : Matching} {root : Nat} :
    ∀ (fuel : Nat) (queue : List Nat) (parents p' : Parents) (oe : Option Nat),
    ParentsOK g m root parents → (∀ q ∈ queue, Outer g m root q) →
    bfsLoop g root m fuel queue parents = .ok (p', oe) →
    ParentsOK g m root p' ∧ ∀ e, oe = some e → m[e]? = some none ∧ e ≠ root := by
  intro fuel
  induction fuel with
  | zero =>
    intro queue parents p' oe hp _ h
    simp only [bfsLoop] at h
    split at h
    · cases h; exact ⟨hp, fun e he => by cases he⟩
    · cases h
  | succ fuel ih =>
    intro queue parents p' oe hp hq h
    cases queue with
    | nil =>
      simp only [bfsLoop] at h
      cases h; exact ⟨hp, fun e he => by cases he⟩
    | cons node queue =>
      simp only [bfsLoop, bind, Except.bind] at h
      split at h
      · cases h
      · rename_i nbrs hnbrs
        rw [getIdx_ok] at hnbrs
        split at h
        · cases h
        · rename_i res hres
          obtain ⟨p1, added, oe1⟩ := res
          have hnode : Outer g m root node := hq node (by simp)
          obtain ⟨i1, i2, i3⟩ := bfsScan_inv hnode nbrs parents [] p1 added oe1
            (fun a ha => ⟨nbrs, hnbrs, ha⟩) hp (by simp) hres
          simp only at h
          split at h
          · simp only [pure, Except.pure] at h
            cases h
            exact ⟨i1, i3⟩
          · refine ih _ _ _ _ i1 ?_ h
            intro q hq'
            simp only [List.mem_append] at hq'
            rcases hq' with hq' | hq'
            · exact hq q (by simp [hq'])
            · exact i2 q hq'

/-! ### path reconstruction -/

/-- the walk of `while node != root` through the `parents` table: `suf` is what gets appended -/
inductive Chain (parents : Parents) (root : Nat) : Nat → List Nat → Prop
  | nil : Chain parents root root []
  | cons {node par via : Nat} {suf : List Nat} : node ≠ root →
      parents[node]? = some (some (some par, some via)) → Chain parents root par suf →
      Chain parents root node (via :: par :: suf)

theorem buildPath_chain {root : Nat} {parents : Parents} : ∀ (fuel node : Nat) (path res : List Nat),
    buildPath root parents fuel node path = .ok res → ∃ suf, res = path ++ suf ∧ Chain parents root node suf := by
  intro fuel
  induction fuel with
  | zero => intro node path res h; simp [buildPath] at h
  | succ fuel ih =>
    intro node path res h
    simp only [buildPath] at h
    split at h
    · rename_i hr
      have : node = root := by simpa using hr
      subst this
      cases h
      exact ⟨[], by simp, Chain.nil⟩
    · rename_i hr
      have hne : node ≠ root := by simpa using hr
      simp only [bind, Except.bind] at h
      split at h
      · cases h
      · rename_i p hp
        rw [getIdx_ok] at hp
        split at h
        · rename_i par via
          obtain ⟨suf, h1, h2⟩ := ih _ _ _ h
          exact ⟨via :: par :: suf, by simp [h1], Chain.cons hne hp h2⟩
        · cases h

theorem Chain.det {parents : Parents} {root node : Nat} {s1 : List Nat} (h1 : Chain parents root node s1) :
    ∀ s2, Chain parents root node s2 → s1 = s2 := by
  induction h1 with
  | nil => intro s2 h2; cases h2 with
    | nil => rfl
    | cons hne _ _ => exact absurd rfl hne
  | cons hne hp _ ih =>
    intro s2 h2
    cases h2 with
    | nil => exact absurd rfl hne
    | cons _ hp' hc' =>
      rw [hp] at hp'
      cases hp'
      rw [ih _ hc']

/-- the vertices at odd positions -/
def odds : List Nat → List Nat
  | _ :: b :: rest => b :: odds rest
  | _ => []

/-- the vertices at even positions -/
def evens : List Nat → List Nat
  | a :: _ :: rest => a :: evens rest
  | [a] => [a]
  | [] => []

theorem Chain.sub {parents : Parents} {root node : Nat} {suf : List Nat} (h : Chain parents root node suf) :
    ∀ y ∈ odds suf, ∃ suf', Chain parents root y suf' ∧ suf'.length < suf.length := by
  induction h with
  | nil => intro y hy; simp [odds] at hy
  | cons _ _ hc ih =>
    intro y hy
    simp only [odds, List.mem_cons] at hy
    rcases hy with rfl | hy
    · exact ⟨_, hc, by simp; omega⟩
    · obtain ⟨s, hs1, hs2⟩ := ih y hy
      exact ⟨s, hs1, by simp; omega⟩

theorem Chain.not_mem_odds {parents : Parents} {root node : Nat} {suf : List Nat}
    (h : Chain parents root node suf) : node ∉ odds suf := by
  intro hmem
  obtain ⟨s, hs1, hs2⟩ := h.sub node hmem
  have := h.det s hs1
  subst this
  omega

theorem Chain.nodup_odds {parents : Parents} {root node : Nat} {suf : List Nat}
    (h : Chain parents root node suf) : (node :: odds suf).Nodup := by
  induction h with
  | nil => simp [odds]
  | cons hne hp hc ih =>
    have := (Chain.cons hne hp hc).not_mem_odds
    simp only [odds] at this ⊢
    exact List.nodup_cons.2 ⟨this, ih⟩

theorem Chain.getLast {parents : Parents} {root node : Nat} {suf : List Nat}
    (h : Chain parents root node suf) : (node :: suf).getLast? = some root := by
  induction h with
  | nil => rfl
  | cons _ _ _ ih =>
    rw [List.getLast?_cons_cons, List.getLast?_cons_cons]; exact ih

/-- along the walk: alternation, and every vertex at an odd position was in the BFS queue -/
theorem Chain.altTail {g : Graph} {m : Matching} {root : Nat} {parents : Parents}
    (hv : ValidPartial g m) (hroot : m[root]? = some none) (hp : ParentsOK g m root parents)
    {node : Nat} {suf : List Nat} (h : Chain parents root node suf) :
    (node = root ∨ ∃ y, m[node]? = some (some y)) →
    AltTail g m node suf ∧ ∀ x ∈ odds suf, Outer g m root x := by
  induction h with
  | nil => intro _; exact ⟨hroot, by simp [odds]⟩
  | cons hne hpar _ ih =>
    intro hnode
    obtain ⟨o1, o2, o3⟩ := hp _ _ _ hpar
    obtain ⟨i1, i2⟩ := ih (o1.root_or_matched hv)
    have hm : ∃ y, m[_]? = some (some y) := hnode.resolve_left hne
    rcases o3 with o3 | ⟨_, o3, _⟩
    · refine ⟨⟨(hv.matched _ _ o3).2.2, o2, i1⟩, ?_⟩
      intro x hx
      simp only [odds, List.mem_cons] at hx
      rcases hx with rfl | hx
      · exact o1
      · exact i2 x hx
    · obtain ⟨y, hy⟩ := hm
      rw [hy] at o3; cases o3

/-- what `_find_augmenting_path` returns -/
theorem findAugmentingPath_spec {g : Graph} {m : Matching} {root : Nat} {path : List Nat}
    (hv : ValidPartial g m) (h : findAugmentingPath g root m = .ok (some path)) :
    m[root]? = some none ∧ AugPath g m path ∧ path.getLast? = some root ∧
      (∃ e, path.head? = some e ∧ e ≠ root) ∧ (odds path).Nodup ∧
      ∀ x ∈ odds path, Outer g m root x := by
  simp only [findAugmentingPath, bind, Except.bind] at h
  split at h
  · cases h
  · rename_i mr hmr
    rw [getIdx_ok] at hmr
    split at h
    · cases h
    · rename_i hassert
      have hroot : m[root]? = some none := by
        cases mr with
        | none => exact hmr
        | some _ => simp [pyAssert] at hassert
      split at h
      · cases h
      · rename_i res hres
        obtain ⟨parents, oe⟩ := res
        have hp0 : ParentsOK g m root ((List.replicate g.length none).set root (some (none, none))) := by
          intro x par via hx
          rw [List.getElem?_set] at hx
          split at hx
          · split at hx <;> cases hx
          · rw [List.getElem?_replicate] at hx
            split at hx <;> cases hx
        obtain ⟨hp, he⟩ := bfsLoop_inv _ _ _ _ _ hp0
          (fun q hq => by simp at hq; subst hq; exact Outer.root) hres
        simp only at h
        split at h
        · cases h
        · rename_i e
          obtain ⟨he1, he2⟩ := he e rfl
          split at h
          · cases h
          · rename_i p hbuild
            simp only [pure, Except.pure] at h
            cases h
            obtain ⟨suf, hs1, hs2⟩ := buildPath_chain _ _ _ _ hbuild
            simp only [List.nil_append] at hs1
            subst hs1
            cases hs2 with
            | nil => exact absurd rfl he2
            | @cons _ par via suf' hne hpar hc =>
              obtain ⟨o1, o2, o3⟩ := hp _ _ _ hpar
              have hvia : via = e := by
                rcases o3 with o3 | ⟨o3, _, _⟩
                · have := (hv.matched _ _ o3).2.2
                  rw [he1] at this; cases this
                · exact o3
              subst hvia
              obtain ⟨a1, a2⟩ := hc.altTail hv hroot hp (o1.root_or_matched hv)
              refine ⟨hroot, ⟨he1, o2, a1⟩, ?_, ⟨via, rfl, he2⟩, hc.nodup_odds, ?_⟩
              · rw [List.getLast?_cons_cons]; exact hc.getLast
              · intro x hx
                simp only [odds, List.mem_cons] at hx
                rcases hx with rfl | hx
                · exact o1
                · exact a2 x hx

end SV
