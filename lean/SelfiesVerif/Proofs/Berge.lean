/-
  C05, completeness on bipartite graphs, stage 1 (the direction of Berge's theorem that is needed):

  if `m` is a valid partial matching of `g`, `p` a PERFECT matching of `g` and `r` a vertex that `m`
  leaves unmatched, then there is a SIMPLE `m`-augmenting path that ends at `r` (in the order in
  which `_find_augmenting_path` lists paths: `other_end … root`).

  Construction: the walk `r, p(r), m(p(r)), p(m(p(r))), …` (the component of `r` in `m Δ p`).
  It never revisits a vertex (the part already walked is closed under `p` apart from its tip and
  closed under `m` apart from `r`), every vertex is `< len(graph)`, so it stops after at most
  `len(graph)/2` rounds, and it can only stop at a vertex `p(x)` that `m` leaves unmatched.
  No bipartiteness is needed here.
-/
import SelfiesVerif.Proofs.Augment

namespace SV

/-- pigeonhole: a duplicate-free list of numbers below `n` has at most `n` entries -/
theorem nodup_bounded_length : ∀ (n : Nat) (l : List Nat), l.Nodup → (∀ x ∈ l, x < n) → l.length ≤ n := by
  intro n
  induction n with
  | zero =>
    intro l _ h
    cases l with
    | nil => simp
    | cons a _ => exact absurd (h a (by simp)) (by omega)
  | succ n ih =>
    intro l hnd h
    have h1 : (l.erase n).Nodup := hnd.erase n
    have h2 : ∀ x ∈ l.erase n, x < n := by
      intro x hx
      rw [hnd.mem_erase_iff] at hx
      have := h x hx.2
      omega
    have := ih _ h1 h2
    rw [List.length_erase] at this
    split at this <;> omega

/-- in a perfect matching every vertex has a mate, along an edge, and the mate's mate is the vertex -/
theorem PerfectMatching.mate {g : Graph} {p : Matching} (hp : PerfectMatching g p) {x : Nat}
    (hx : x < g.length) :
    ∃ y, p[x]? = some (some y) ∧ y < g.length ∧ Adj g x y ∧ p[y]? = some (some x) := by
  have hx' : x < p.length := hp.valid.length_eq ▸ hx
  cases hpx : p[x] with
  | none =>
    exact absurd (by rw [List.getElem?_eq_getElem hx', hpx]) (hp.total x)
  | some y =>
    have h : p[x]? = some (some y) := by rw [List.getElem?_eq_getElem hx', hpx]
    obtain ⟨h1, h2, h3⟩ := hp.valid.matched x y h
    exact ⟨y, h, h1, h2, h3⟩

/-- the state of the walk: `b` is its tip (an "outer" vertex: `r` or the `m`-mate of the vertex
    before it), `rest` what was walked before, back to `r` -/
structure BergeSt (g : Graph) (m p : Matching) (r b : Nat) (rest : List Nat) : Prop where
  alt : AltTail g m b rest
  last : (b :: rest).getLast? = some r
  nodup : (b :: rest).Nodup
  pclosed : ∀ z ∈ rest, ∃ z' ∈ rest, p[z]? = some (some z')

theorem BergeSt.init {g : Graph} {m p : Matching} {r : Nat} (hr : m[r]? = some none) :
    BergeSt g m p r r [] :=
  ⟨hr, rfl, by simp, by simp⟩

theorem BergeSt.inRange {g : Graph} {m p : Matching} {r b : Nat} {rest : List Nat}
    (hv : ValidPartial g m) (h : BergeSt g m p r b rest) : ∀ x ∈ b :: rest, x < g.length := by
  intro x hx
  rw [← hv.length_eq]
  rcases AltTail.closed hv b rest h.alt x hx with h' | ⟨_, _, h'⟩ <;> exact lt_of_getElem?_some h'

/-- one round of the walk: it ends with an augmenting path, or it grows by two new vertices -/
theorem BergeSt.step {g : Graph} {m p : Matching} {r b : Nat} {rest : List Nat} (hg : GraphOK g)
    (hv : ValidPartial g m) (hp : PerfectMatching g p) (h : BergeSt g m p r b rest) :
    (∃ a, AugPath g m (a :: b :: rest) ∧ (a :: b :: rest).Nodup) ∨
    (∃ a d, BergeSt g m p r d (a :: b :: rest)) := by
  have hcl := AltTail.closed hv b rest h.alt
  have hb : b < g.length := h.inRange hv b (by simp)
  obtain ⟨a, ha1, ha2, ha3, ha4⟩ := hp.mate hb
  have hab : a ≠ b := fun e => hg.noLoop b (e ▸ ha3)
  have har : a ∉ rest := by
    intro hmem
    obtain ⟨z', hz', hz⟩ := h.pclosed a hmem
    rw [ha4] at hz
    cases hz
    exact (List.nodup_cons.1 h.nodup).1 hz'
  have hnd1 : (a :: b :: rest).Nodup := by
    refine List.nodup_cons.2 ⟨?_, h.nodup⟩
    simp only [List.mem_cons, not_or]
    exact ⟨hab, har⟩
  have ham : a < m.length := hv.length_eq ▸ ha2
  cases hma : m[a] with
  | none =>
    have hma' : m[a]? = some none := by rw [List.getElem?_eq_getElem ham, hma]
    exact Or.inl ⟨a, ⟨hma', ha3, h.alt⟩, hnd1⟩
  | some d =>
    have hma' : m[a]? = some (some d) := by rw [List.getElem?_eq_getElem ham, hma]
    obtain ⟨hd1, hd2, hd3⟩ := hv.matched a d hma'
    have hda : d ≠ a := fun e => hg.noLoop a (e ▸ hd2)
    have hdn : d ∉ a :: b :: rest := by
      intro hmem
      simp only [List.mem_cons] at hmem
      rcases hmem with e | hmem
      · exact hda e
      · rcases hcl d (by simpa using hmem) with h' | ⟨y, hy, h'⟩
        · rw [hd3] at h'; cases h'
        · rw [hd3] at h'
          cases h'
          simp only [List.mem_cons] at hy
          rcases hy with e | hy
          · exact hab e
          · exact har hy
    refine Or.inr ⟨a, d, ⟨hd3, ha3, h.alt⟩, ?_, List.nodup_cons.2 ⟨hdn, hnd1⟩, ?_⟩
    · rw [List.getLast?_cons_cons, List.getLast?_cons_cons]; exact h.last
    · intro z hz
      simp only [List.mem_cons] at hz
      rcases hz with rfl | rfl | hz
      · exact ⟨b, by simp, ha4⟩
      · exact ⟨a, by simp, ha1⟩
      · obtain ⟨z', hz', e⟩ := h.pclosed z hz
        exact ⟨z', by simp [hz'], e⟩

theorem berge_walk {g : Graph} {m p : Matching} {r : Nat} (hg : GraphOK g) (hv : ValidPartial g m)
    (hp : PerfectMatching g p) :
    ∀ (fuel b : Nat) (rest : List Nat), BergeSt g m p r b rest → g.length ≤ rest.length + 2 * fuel + 2 →
    ∃ path, AugPath g m path ∧ path.getLast? = some r ∧ path.Nodup := by
  intro fuel
  induction fuel with
  | zero =>
    intro b rest h hf
    rcases h.step hg hv hp with ⟨a, h1, h2⟩ | ⟨a, d, h'⟩
    · exact ⟨_, h1, by rw [List.getLast?_cons_cons]; exact h.last, h2⟩
    · have := nodup_bounded_length g.length _ h'.nodup (h'.inRange hv)
      simp only [List.length_cons] at this
      omega
  | succ fuel ih =>
    intro b rest h hf
    rcases h.step hg hv hp with ⟨a, h1, h2⟩ | ⟨a, d, h'⟩
    · exact ⟨_, h1, by rw [List.getLast?_cons_cons]; exact h.last, h2⟩
    · exact ih d _ h' (by simp only [List.length_cons]; omega)

/-- a simple path has different ends -/
theorem AugPath.head_ne_last {g : Graph} {m : Matching} {path : List Nat} {r : Nat}
    (hp : AugPath g m path) (hl : path.getLast? = some r) (hnd : path.Nodup) :
    ∃ e, path.head? = some e ∧ e ≠ r := by
  match path, hp with
  | a :: b :: rest, _ =>
    refine ⟨a, rfl, ?_⟩
    rintro rfl
    rw [List.getLast?_cons_cons] at hl
    exact (List.nodup_cons.1 hnd).1 (List.mem_of_mem_getLast? hl)

/-- **Stage 1.**  If a perfect matching exists, every vertex that the valid partial matching `m`
    leaves unmatched is the end (`root` position) of a simple `m`-augmenting path. -/
theorem exists_augPath_of_perfect {g : Graph} {m p : Matching} {r : Nat} (hg : GraphOK g)
    (hv : ValidPartial g m) (hp : PerfectMatching g p) (hr : m[r]? = some none) :
    ∃ path, AugPath g m path ∧ path.getLast? = some r ∧ path.Nodup ∧
      ∃ e, path.head? = some e ∧ e ≠ r := by
  obtain ⟨path, h1, h2, h3⟩ := berge_walk hg hv hp g.length r [] (BergeSt.init hr)
    (by simp only [List.length_nil]; omega)
  exact ⟨path, h1, h2, h3, h1.head_ne_last h2 h3⟩

end SV
