/-
  C02, last part of the refinement proof: fragments, the second pass as a whole, the view of the
  result, and `decodeGraph`.
-/
import SelfiesVerif.Proofs.SpecRefineRings
import SelfiesVerif.Proofs.Compat

namespace SV
open SV.Spec

/-! ### tokens of a fragment -/

theorem tokenizeFragment_syms (f : Str) :
    (tokenizeFragment f).toks.map (·.2) = (symbolsOf false f).1 := by
  unfold tokenizeFragment symbolsOf
  simp only [Bool.false_eq_true, if_false]
  rw [List.map_snd_zip]
  simp

theorem tokenizeFragment_length (f : Str) :
    (tokenizeFragment f).toks.length = (symbolsOf false f).1.length := by
  rw [← tokenizeFragment_syms, List.length_map]

theorem tokenizeFragment_hanging (f : Str) :
    (tokenizeFragment f).hanging = (symbolsOf false f).2 := rfl

/-! ### the second pass -/

theorem formRings_sim (T : Table) : ∀ (queue : List RingCand) (m : Mol) (B : Build) (rm : List Nat),
    MRel T m B → RMade m B rm →
    (∀ r ∈ queue, r.a ≤ r.b ∧ r.b < m.atoms.length ∧ 1 ≤ r.order ∧ r.order ≤ 3) →
    ∃ m', formRings T (queue.map ringOf) m rm = .ok m' ∧ MRel T m' (Spec.formRings T queue B) := by
  intro queue
  induction queue with
  | nil =>
    intro m B rm h _ _
    exact ⟨m, by simp [formRings], by simpa [Spec.formRings] using h⟩
  | cons r queue ih =>
    intro m B rm h hrm hq
    obtain ⟨m1, rm1, e1, h1, hrm1, hlen⟩ := formRings_step r (queue.map ringOf) h hrm (hq r (by simp))
    obtain ⟨m', e2, h2⟩ := ih m1 (formRing T B r) rm1 h1 hrm1
      (fun r' hr' => by rw [hlen]; exact hq r' (by simp [hr']))
    refine ⟨m', ?_, ?_⟩
    · rw [List.map_cons, e1, e2]
    · simpa [Spec.formRings] using h2

theorem RMade_init {T : Table} {m : Mol} {B : Build} (h : MRel T m B)
    (hc : ∀ e ∈ B.bonds, e.ring = false) : RMade m B (List.replicate m.size 0) := by
  intro k hk
  have hz : ringDegree B.bonds k = 0 := by
    unfold ringDegree
    rw [List.countP_eq_zero]
    intro e he
    simp [hc e he]
  rw [hz]
  refine ⟨?_, m.adj[k]'(by rw [h.lenA]; exact hk), List.getElem?_eq_getElem _, Nat.zero_le _⟩
  rw [List.getElem?_replicate, if_pos (by simpa [Mol.size] using hk)]

/-! ### the result as the specification shows it -/

theorem view_eq {T : Table} {m : Mol} {B : Build} (h : MRel T m B) : SpecMol.ofMol m = B.view := by
  unfold SpecMol.ofMol Build.view
  rw [h.atoms, h.roots]
  congr 1
  apply List.ext_getElem?
  intro k
  rw [List.getElem?_map, List.getElem?_mapIdx, h.nbrs k]
  cases hk : m.adj[k]? with
  | none => rfl
  | some row =>
    simp only [Option.map_some, List.map_map]
    congr 1
    apply List.map_congr_left
    intro d hd
    obtain ⟨_, _, _, _, _, e, he, he1, he2, he3⟩ := h.row k row hk d hd
    simp only [Function.comp, Build.look, he, he1, he2, he3]

/-! ### fragments -/

/-- how the fragment loop of the implementation (over token streams) relates to `deriveAll` -/
def StreamsRes (T : Table) (ss : List Stream) (ds : DS) (res : Py (Mol × List RingReq)) : Prop :=
  match res with
  | .ok (m', rings') => (∀ s ∈ ss, s.hanging = false) ∧
      ∃ ds', deriveAll T (ss.map fun s => s.toks.map (·.2)) ds = .ok ds' ∧
        Sim T (⟨default, m', rings'⟩ : DState) ds'
  | .error .RecursionError => True
  | .error .DecoderError => (∃ s ∈ ss, s.hanging = true) ∨
      deriveAll T (ss.map fun s => s.toks.map (·.2)) ds = .error .DecoderError
  | .error _ => False

theorem deriveStreams_spec (T : Table) (attrib : Bool) : ∀ (ss : List Stream) (m : Mol)
    (rings : List RingReq) (ai : Nat) (ds : DS), Sim T (⟨default, m, rings⟩ : DState) ds →
    StreamsRes T ss ds (C18.deriveStreams T false attrib ss m rings ai) := by
  intro ss
  induction ss with
  | nil =>
    intro m rings ai ds hs
    simp only [C18.deriveStreams, StreamsRes, List.map_nil, deriveAll]
    exact ⟨by simp, ds, rfl, hs⟩
  | cons f ss ih =>
    intro m rings ai ds hs
    simp only [C18.deriveStreams]
    have key := deriveLoop_sim T (f.toks.length + 1) 0
      (⟨f, m, rings⟩ : DState) none 0 0 none (if attrib then some [] else none) ai ds
      ((f.toks.map (·.2)).length + 1) _ rfl (by simp) (by simp)
      ⟨hs.mol, hs.rings, hs.qok, hs.chain⟩ (fun h0 => absurd h0 (by omega))
    have hbud : bud none 0 = none := rfl
    rw [hbud] at key
    simp only at key
    cases hr : deriveLoop T false (f.toks.length + 1) 0
      (⟨f, m, rings⟩ : DState) none 0 0 none (if attrib then some [] else none) ai with
    | error e =>
      rw [hr] at key
      rw [error_bind]
      rcases key.error_elim with rfl | ⟨rfl, hk⟩
      · trivial
      · simp only [StreamsRes]
        rcases hk with hk | hk
        · exact Or.inl ⟨f, by simp, hk⟩
        · right
          simp only [List.map_cons, deriveAll, hk]
    | ok r =>
      obtain ⟨st', n'⟩ := r
      rw [hr] at key
      rw [ok_bind]
      obtain ⟨ds', hd, hs', hh, _, _, _, hun⟩ := key
      have hclosed : f.hanging = false := hun rfl
      have hrec := ih st'.mol st'.rings (ai + n') ds' ⟨hs'.mol, hs'.rings, hs'.qok, hs'.chain⟩
      have hall : deriveAll T ((f :: ss).map fun s => s.toks.map (·.2)) ds
          = deriveAll T (ss.map fun s => s.toks.map (·.2)) ds' := by
        simp only [List.map_cons, deriveAll, hd]
      unfold StreamsRes at hrec ⊢
      split at hrec
      · rename_i m2 r2 heq
        rw [heq]
        obtain ⟨hcl, ds2, hd2, hs2⟩ := hrec
        refine ⟨?_, ds2, by rw [hall]; exact hd2, hs2⟩
        intro g hg
        rcases List.mem_cons.mp hg with rfl | hg
        · exact hclosed
        · exact hcl g hg
      · rename_i heq; rw [heq]; trivial
      · rename_i heq
        rw [heq]
        rcases hrec with ⟨g, hg, hg2⟩ | hrec
        · exact Or.inl ⟨g, by simp [hg], hg2⟩
        · exact Or.inr (by rw [hall]; exact hrec)
      · rename_i e h1 h2 heq
        exact hrec.elim

/-! ### both values of `compatible` -/

/-- the token stream the implementation effectively derives from -/
def streamOf (compat : Bool) (f : Str) : Stream :=
  if compat then (tokenizeFragment f).mapSym modernSym else tokenizeFragment f

theorem streamOf_syms (compat : Bool) (f : Str) :
    (streamOf compat f).toks.map (·.2) = (symbolsOf compat f).1 := by
  cases compat with
  | false => exact tokenizeFragment_syms f
  | true =>
    have h := tokenizeFragment_syms f
    unfold symbolsOf at h ⊢
    simp only [Bool.false_eq_true, if_false, if_true] at h ⊢
    simp only [streamOf, if_true, Stream.mapSym, List.map_map]
    rw [← h, List.map_map]
    rfl

theorem streamOf_hanging (compat : Bool) (f : Str) :
    (streamOf compat f).hanging = (symbolsOf compat f).2 := by
  cases compat <;> rfl

theorem deriveFragments_streams (T : Table) (compat attrib : Bool) (frags : List Str) (m : Mol)
    (rings : List RingReq) (ai : Nat) :
    deriveFragments T compat attrib frags m rings ai
      = C18.deriveStreams T false attrib (frags.map (streamOf compat)) m rings ai := by
  rw [C18.deriveFragments_eq_streams]
  cases compat with
  | false => rfl
  | true =>
    rw [← C18.deriveStreams_sim, List.map_map]
    rfl


/-! ### `decodeGraph` -/

theorem Sim_init (T : Table) : Sim T (⟨default, {}, []⟩ : DState) {} :=
  ⟨MRel_empty T, rfl, (fun r hr => by cases hr), (fun e he => by cases he)⟩

/-- the implementation's result against the specification's, case by case -/
def GraphRes (T : Table) (s : Str) (compat : Bool) (res : Py Mol) : Prop :=
  match res with
  | .ok g => Spec.decodeGraph T s compat = .ok (SpecMol.ofMol g)
  | .error .RecursionError => True
  | .error .DecoderError => Spec.decodeGraph T s compat = .error .DecoderError
  | .error _ => False

theorem decodeGraph_spec (T : Table) (s : Str) (compat attrib : Bool) :
    GraphRes T s compat (decodeGraph T s compat attrib) := by
  unfold decodeGraph
  rw [deriveFragments_streams]
  have key := deriveStreams_spec T attrib ((splitOnChar '.' s).map (streamOf compat)) {} [] 0 {} (Sim_init T)
  have hsyms : ((splitOnChar '.' s).map (streamOf compat)).map (fun s => s.toks.map (·.2))
      = ((splitOnChar '.' s).map (symbolsOf compat)).map (·.1) := by
    rw [List.map_map, List.map_map]
    exact List.map_congr_left (fun f _ => streamOf_syms compat f)
  cases hr : C18.deriveStreams T false attrib ((splitOnChar '.' s).map (streamOf compat)) {} [] 0 with
  | error e =>
    rw [hr] at key
    rw [error_bind]
    unfold StreamsRes at key
    rw [hsyms] at key
    unfold GraphRes
    cases e <;> simp only at key ⊢ <;> try exact key.elim
    -- DecoderError
    unfold Spec.decodeGraph
    dsimp only
    rcases key with ⟨st, hst, hh⟩ | key
    · obtain ⟨f, hf, rfl⟩ := List.mem_map.mp hst
      rw [streamOf_hanging] at hh
      rw [if_pos]
      rw [List.any_eq_true]
      exact ⟨symbolsOf compat f, List.mem_map_of_mem hf, hh⟩
    · split
      · rfl
      · rw [key]
  | ok r =>
    obtain ⟨m, rings⟩ := r
    rw [hr] at key
    rw [ok_bind]
    obtain ⟨hcl, ds', hd, hs⟩ := key
    rw [hsyms] at hd
    obtain ⟨m', hm', hrel⟩ := formRings_sim T ds'.queue m ds'.mol (List.replicate m.size 0) hs.mol
      (RMade_init hs.mol hs.chain) hs.qok
    have hrings : rings = ds'.queue.map ringOf := hs.rings
    dsimp only
    rw [hrings, hm']
    unfold GraphRes Spec.decodeGraph
    dsimp only
    have hnone : ((splitOnChar '.' s).map (symbolsOf compat)).any (·.2) = false := by
      rw [List.any_eq_false]
      intro x hx
      obtain ⟨f, hf, rfl⟩ := List.mem_map.mp hx
      have := hcl (streamOf compat f) (List.mem_map_of_mem hf)
      rw [streamOf_hanging] at this
      simp [this]
    rw [hnone]
    simp only [Bool.false_eq_true, if_false]
    rw [hd]
    simp only
    rw [view_eq hrel]

end SV
