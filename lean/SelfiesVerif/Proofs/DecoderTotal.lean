/-
  Totality, part 5: `decodeGraph` returns a graph or fails with `DecoderError` / `RecursionError`;
  in the graph it returns every out-bond list is (ring bonds, formation order) ++ (chain bonds,
  creation order).
-/
import SelfiesVerif.Proofs.RingTotal

namespace SV

theorem RMInv_init {T m} (h : DInv T m) : RMInv m (List.replicate m.size 0) := by
  refine ⟨by simp [Mol.size], ?_⟩
  intro i row k hi hk
  have hk0 : k = 0 := by
    rw [List.getElem?_replicate] at hk
    split at hk
    · cases hk; rfl
    · cases hk
  subst hk0
  refine ⟨Nat.zero_le _, by simp, ?_⟩
  intro b hb
  rw [List.drop_zero] at hb
  exact (h.bonds i row hi b hb).2.2.2.2.2

/-- the result of the derive phase: what `decodeGraph` hands to `formRings` -/
theorem deriveFragments_all {T : Table} {compat attrib : Bool} {frags : List Str} {m : Mol}
    {rings : List RingReq}
    (h : deriveFragments T compat attrib frags {} [] 0 = .ok (m, rings)) :
    DInv T m ∧ RingsOK rings ∧ RingsLt rings m ∧ NonArom m ∧ RowsSorted m := by
  obtain ⟨hD, hR⟩ := deriveFragments_inv T compat attrib _ _ _ _ _ h (DInv_empty T)
    (fun r hr => by cases hr)
  obtain ⟨_, hL, hN, hS⟩ := deriveFragments_simple T compat attrib _ _ _ _ _ h
  exact ⟨hD, hR, hL (fun r hr => by cases hr), hN (fun a ha => by cases ha),
    hS (fun k row hk => by simp at hk)⟩

theorem decodeGraph_total (T : Table) (s : Str) (compat attrib : Bool) :
    (∃ g, decodeGraph T s compat attrib = .ok g) ∨
    decodeGraph T s compat attrib = .error .DecoderError ∨
    (decodeGraph T s compat attrib = .error .RecursionError ∧
      ∃ frag ∈ splitOnChar '.' s, recursionBudget ≤ branchCount compat (tokenizeFragment frag)) := by
  unfold decodeGraph
  cases hd : deriveFragments T compat attrib (splitOnChar '.' s) {} [] 0 with
  | error e =>
    right
    rcases deriveFragments_err T compat attrib _ _ _ _ _ hd (DInv_empty T) (fun r hr => by cases hr)
      with rfl | ⟨rfl, h2⟩
    · exact Or.inl rfl
    · exact Or.inr ⟨rfl, h2⟩
  | ok x =>
    obtain ⟨m, rings⟩ := x
    left
    obtain ⟨hD, hR, hL, _, _⟩ := deriveFragments_all hd
    obtain ⟨g, hg, _⟩ := formRings_total T rings m _ hD.toRInv hR hL (RMInv_init hD)
    exact ⟨g, hg⟩

/-- facts about `noOrder b` carry over along `map noOrder` equalities -/
theorem noOrder_transfer {l1 l2 : List DirBond} (e : l1.map DirBond.noOrder = l2.map DirBond.noOrder)
    (Q : DirBond → Prop) (h : ∀ b ∈ l2, Q b.noOrder) : ∀ b ∈ l1, Q b.noOrder := by
  intro b hb
  have : b.noOrder ∈ l2.map DirBond.noOrder := by rw [← e]; exact List.mem_map_of_mem hb
  obtain ⟨b2, hb2, e2⟩ := List.mem_map.mp this
  rw [← e2]; exact h b2 hb2

theorem noOrder_map_dst {l1 l2 : List DirBond} (e : l1.map DirBond.noOrder = l2.map DirBond.noOrder) :
    l1.map (·.dst) = l2.map (·.dst) := by
  have := congrArg (List.map (·.dst)) e
  simpa [List.map_map, Function.comp_def, DirBond.noOrder] using this

/--
`formRings_rings_first`: started from the graph `m` of the derive phase (chain bonds only) with
`ringsMade = [0] * len(mol)`, `_form_rings_bilocally` returns a graph in which every out-bond list
is `rs ++ cs` where
* `rs` are ring bonds of atom `i`, in formation order: their partner atoms form a subsequence of
  the partners of `i` in the request list (requests that are skipped or land on an existing bond
  add nothing);
* `cs` are the chain bonds of `m.adj[i]`, in the order in which the derive phase created them
  (only bond orders may have been raised).
-/
theorem formRings_rings_first {T : Table} {rings : List RingReq} {m g : Mol}
    (hD : DInv T m) (hR : RingsOK rings) (hL : RingsLt rings m)
    (h : formRings T rings m (List.replicate m.size 0) = .ok g) :
    g.adj.length = m.adj.length ∧
    ∀ (i : Nat) (row0 : List DirBond), m.adj[i]? = some row0 →
      ∃ rs cs, g.adj[i]? = some (rs ++ cs) ∧
        (∀ b ∈ rs, b.ring = true ∧ b.src = i) ∧ (∀ b ∈ cs, b.ring = false) ∧
        (rs.map (·.dst)).Sublist (ringPartners i rings) ∧
        cs.map DirBond.noOrder = row0.map DirBond.noOrder := by
  obtain ⟨g', hg, hIg, hSg, htr⟩ := formRings_total T rings m _ hD.toRInv hR hL (RMInv_init hD)
  rw [h] at hg; cases hg
  refine ⟨by rw [hIg.lenA, hD.lenA, hSg.atoms], ?_⟩
  intro i row0 hi
  have hil : i < m.atoms.length := by
    have := (List.getElem?_eq_some_iff.mp hi).1; rw [hD.lenA] at this; exact this
  obtain ⟨grow, hgi, rnew, hrn, hsub, hmap⟩ := htr i row0 0 hi (by simp [Mol.size, hil])
  simp only [List.take_zero, List.map_nil, List.nil_append, List.drop_zero] at hmap
  obtain ⟨rs, cs, rfl, e1, e2⟩ := List.map_eq_append_iff.mp hmap
  refine ⟨rs, cs, hgi, ?_, ?_, ?_, e2⟩
  · exact noOrder_transfer e1 (fun b => b.ring = true ∧ b.src = i) hrn
  · exact noOrder_transfer e2 (fun b => b.ring = false)
      (fun b hb => (hD.bonds i row0 hi b hb).2.2.2.2.2)
  · rw [noOrder_map_dst e1]; exact hsub

/-- the same for `decodeGraph`: `m`, `rings` are what the derive phase produced; the chain bonds
    of a row go to strictly increasing atom indices, i.e. they are in the order in which the derive
    phase created their end atoms -/
theorem decodeGraph_rings_first {T : Table} {s : Str} {compat attrib : Bool} {g : Mol}
    (h : decodeGraph T s compat attrib = .ok g) :
    ∃ m rings, deriveFragments T compat attrib (splitOnChar '.' s) {} [] 0 = .ok (m, rings) ∧
      DInv T m ∧ g.atoms = m.atoms ∧ g.adj.length = m.adj.length ∧
      ∀ (i : Nat) (row0 : List DirBond), m.adj[i]? = some row0 →
        ∃ rs cs, g.adj[i]? = some (rs ++ cs) ∧
          (∀ b ∈ rs, b.ring = true ∧ b.src = i) ∧ (∀ b ∈ cs, b.ring = false) ∧
          (rs.map (·.dst)).Sublist (ringPartners i rings) ∧
          cs.map DirBond.noOrder = row0.map DirBond.noOrder ∧
          (cs.map (·.dst)).Pairwise (· < ·) := by
  unfold decodeGraph at h
  bind_at h with ⟨⟨m, rings⟩, h1, h⟩
  obtain ⟨hD, hR, hL, _, hSo⟩ := deriveFragments_all h1
  obtain ⟨e1, e2⟩ := formRings_rings_first hD hR hL h
  obtain ⟨_, hS⟩ := formRings_inv T _ _ _ _ h hD.toRInv hR
  refine ⟨m, rings, h1, hD, hS.atoms, e1, ?_⟩
  intro i row0 hi
  obtain ⟨rs, cs, h1, h2, h3, h4, h5⟩ := e2 i row0 hi
  refine ⟨rs, cs, h1, h2, h3, h4, h5, ?_⟩
  rw [noOrder_map_dst h5, List.pairwise_map]
  exact (hSo i row0 hi).1

/-- corollary in the final graph alone: ring bonds precede chain bonds in every row -/
theorem decodeGraph_rows_split {T : Table} {s : Str} {compat attrib : Bool} {g : Mol}
    (h : decodeGraph T s compat attrib = .ok g) :
    ∀ (i : Nat) (row : List DirBond), g.adj[i]? = some row →
      ∃ rs cs, row = rs ++ cs ∧ (∀ b ∈ rs, b.ring = true) ∧ (∀ b ∈ cs, b.ring = false) := by
  obtain ⟨m, rings, _, hD, _, e1, e2⟩ := decodeGraph_rings_first h
  intro i row hi
  have hil : i < m.adj.length := by
    have := (List.getElem?_eq_some_iff.mp hi).1; rw [e1] at this; exact this
  obtain ⟨rs, cs, hg, h1, h2, _, _, _⟩ := e2 i _ (List.getElem?_eq_getElem hil)
  rw [hi] at hg; cases hg
  exact ⟨rs, cs, rfl, fun b hb => (h1 b hb).1, h2⟩

theorem decodeGraph_nonarom {T : Table} {s : Str} {compat attrib : Bool} {g : Mol}
    (h : decodeGraph T s compat attrib = .ok g) : NonArom g := by
  obtain ⟨m, rings, h1, _, e, _⟩ := decodeGraph_rings_first h
  obtain ⟨_, _, _, hN, _⟩ := deriveFragments_all h1
  intro a ha
  rw [e] at ha
  exact hN a ha

end SV
