/-
  Helpers for Props/C05e.lean (C05 end to end): what a successful / failed `kekulize` call went
  through, the bond records of `kekResult`, and "the bond k–b became double ⇔ k and b are matched".
-/
import SelfiesVerif.Proofs.KekulizeComplete
import SelfiesVerif.Proofs.ParserKekulize
import SelfiesVerif.Spec.SameMolecule

namespace SV
open C09

/-! ### the stages of a `kekulize` call -/

/-- a successful `kekulize` on a graph with aromatic atoms or bonds computed the kept atoms and the
    pruned subgraph, and `find_perfect_matching` returned a list -/
theorem kekulize_ok_parts {m g1 : PMol} {tape : List Nat} (hne : m.ds.isEmpty = false)
    (h : m.kekulize tape = .ok (some g1)) :
    ∃ kept pg mt, keptNodes m = .ok kept ∧ prunedGraph m (kept.mergeSort (· ≤ ·)) = .ok pg ∧
      findPerfectMatching pg tape = .ok (some mt) := by
  rw [kekulize_eq] at h
  simp only [hne, Bool.false_eq_true, if_false] at h
  obtain ⟨bad, _, h⟩ := bind_ok h
  split at h
  · simp [pure, Except.pure] at h
  · obtain ⟨kept, hk, h⟩ := bind_ok h
    obtain ⟨pg, hp, h⟩ := bind_ok h
    obtain ⟨ml, hm, h⟩ := bind_ok h
    split at h
    · simp [pure, Except.pure] at h
    · rename_i mt
      exact ⟨kept, pg, mt, hk, hp, hm⟩

/-- if `find_perfect_matching` returns `None` on the pruned subgraph, `kekulize` returns `False` -/
theorem kekulize_none_of_matching_none {m : PMol} {kept : List Nat} {pg : Graph} {tape : List Nat}
    (hwf : PWF m) (hne : m.ds.isEmpty = false) (hk : keptNodes m = .ok kept)
    (hp : prunedGraph m (kept.mergeSort (· ≤ ·)) = .ok pg)
    (hm : findPerfectMatching pg tape = .ok none) : m.kekulize tape = .ok none := by
  obtain ⟨b, hb, _⟩ := badCheck_total hwf
  rw [kekulize_eq]
  simp only [hne, Bool.false_eq_true, if_false, bind, Except.bind, hb]
  cases b with
  | true => rfl
  | false => simp only [Bool.false_eq_true, if_false, hk, hp, hm]; rfl

/-! ### bond records under an order map -/

/-- the bond records `(min, max, order)` of a parsed graph with every stored bond's order replaced
    by `G` of that bond -/
def PMol.recordsWith (G : PBond → Nat) (g : PMol) : List (Nat × Nat × Nat) :=
  g.adj.flatMap fun row => row.filterMap fun ob =>
    ob.map fun b => (min b.src b.dst, max b.src b.dst, G b)

theorem records_mapOrders (G : PBond → Nat) (g g' : PMol) (h : g'.adj = mapOrders G g.adj) :
    g'.records = g.recordsWith G := by
  unfold PMol.records PMol.recordsWith
  rw [h, mapOrders, List.flatMap_map]
  congr 1
  funext row
  rw [List.filterMap_map]
  congr 1
  funext ob
  cases ob <;> rfl

theorem mem_recordsWith {G : PBond → Nat} {g : PMol} {r : Nat × Nat × Nat} :
    r ∈ g.recordsWith G ↔ ∃ i, ∃ b ∈ rowAt g.adj i, r = (min b.src b.dst, max b.src b.dst, G b) := by
  unfold PMol.recordsWith
  simp only [List.mem_flatMap, List.mem_filterMap, Option.map_eq_some_iff]
  constructor
  · rintro ⟨row, hrow, ob, hob, b, rfl, rfl⟩
    obtain ⟨i, hi⟩ := List.mem_iff_getElem?.1 hrow
    refine ⟨i, b, ?_, rfl⟩
    rw [rowAt_of_getElem? hi]
    exact mem_bondsOf.2 hob
  · rintro ⟨i, b, hb, rfl⟩
    unfold rowAt at hb
    have hob := mem_bondsOf.1 hb
    have hi : i < g.adj.length := lt_of_mem_rowAt hb
    refine ⟨g.adj.getD i [], ?_, some b, hob, b, rfl, rfl⟩
    rw [List.getD_eq_getElem?_getD, List.getElem?_eq_getElem hi]
    exact List.getElem_mem hi

/-! ### a former aromatic bond is double exactly when its ends are matched -/

theorem double_record_iff {m : PMol} {kept l2n : List Nat} {pg : Graph} {mt : Matching}
    (h : KekCtx m kept l2n pg mt) {k : Nat} {l : List Nat} (hkl : (k, l) ∈ m.ds) {b : Nat} (hb : b ∈ l) :
    (min k b, max k b, 4) ∈ m.recordsWith (kekOrder l2n mt) ↔ matchedPair l2n mt k b = true := by
  have hq : (k, b) ∈ pairsOf m.ds := mem_pairsOf.2 ⟨(k, l), hkl, rfl, hb⟩
  obtain ⟨bd0, h1, h2, h3⟩ := pairs_hasBond h.hwf hq
  have hsrc0 : bd0.src = min k b := ((h.hwf.1 _ (lt_of_mem_rowAt h1)).2 bd0 h1).1
  have hne0 : bd0.dst ≠ min k b := ((h.hwf.1 _ (lt_of_mem_rowAt h1)).2 bd0 h1).2.2.1
  -- `matchedPair` of the stored bond's ends is `matchedPair k b`
  have hmp0 : matchedPair l2n mt bd0.src bd0.dst = matchedPair l2n mt k b := by
    rw [hsrc0, h2]
    rcases Nat.le_total k b with hle | hle
    · rw [Nat.min_eq_left hle, Nat.max_eq_right hle]
    · rw [Nat.min_eq_right hle, Nat.max_eq_left hle, h.matchedPair_symm]
  rw [mem_recordsWith]
  constructor
  · rintro ⟨i, bd, hbd, he⟩
    simp only [Prod.mk.injEq] at he
    obtain ⟨e1, e2, e3⟩ := he
    have hpm : pairMatch k b bd = true := by
      simp only [pairMatch, Bool.or_eq_true, Bool.and_eq_true, beq_iff_eq]
      omega
    have ho : bd.order2 = 3 := by rw [order_of_pair h.hwf.1 h1 h2 hbd hpm, h3]
    have hmp : matchedPair l2n mt bd.src bd.dst = true := by
      unfold kekOrder at e3
      rw [if_pos ho] at e3
      by_cases hc : matchedPair l2n mt bd.src bd.dst = true
      · exact hc
      · rw [if_neg hc] at e3; omega
    simp only [pairMatch, Bool.or_eq_true, Bool.and_eq_true, beq_iff_eq] at hpm
    rcases hpm with ⟨a1, a2⟩ | ⟨a1, a2⟩
    · rw [a1, a2] at hmp; exact hmp
    · rw [a1, a2, h.matchedPair_symm] at hmp; exact hmp
  · intro hmp
    refine ⟨min k b, bd0, h1, ?_⟩
    have : kekOrder l2n mt bd0 = 4 := by
      unfold kekOrder
      rw [if_pos h3, hmp0, if_pos hmp]
    rw [this, hsrc0, h2]
    have : min k b ≤ max k b := by omega
    simp only [Prod.mk.injEq, and_true]
    omega

end SV
