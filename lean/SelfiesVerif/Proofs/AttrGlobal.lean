/-
  Attribution of the decoded graph in terms of the whole input string.

  `inputSymbols s` lists the symbols of `s` as the decoder numbers them: the symbols of all
  fragments in order, `[nop]` and `.` not counted.  Every atom of the decoded graph carries
  `some (positions.map fun j => ⟨j, symbol at j⟩)` where the positions are strictly increasing,
  the last one is the atom symbol that created the atom and the others are branch symbols
  (`GTag`); chain bonds carry the attribution of their destination atom, ring bonds none (`AInv`).
-/
import SelfiesVerif.Proofs.AttrIndex
namespace SV

/-- the symbols of one fragment, `[nop]` removed -/
def fragSymbols (f : Str) : List Str := (tokenizeFragment f).toks.map (·.2)

/-- the symbols of the input as the decoder numbers them -/
def inputSymbols (s : Str) : List Str := (splitOnChar '.' s).flatMap fragSymbols

theorem tokenize_fst (f : Str) : (tokenizeFragment f).toks.map (·.1) = List.range (fragSymbols f).length := by
  unfold fragSymbols tokenizeFragment
  simp only
  rw [List.map_snd_zip (by simp), List.map_fst_zip (by simp)]

theorem tokenize_mem {f : Str} {p : Nat × Str} (h : p ∈ (tokenizeFragment f).toks) :
    (fragSymbols f)[p.1]? = some p.2 := by
  obtain ⟨idx, hidx⟩ := List.mem_iff_getElem?.mp h
  have h1 : ((tokenizeFragment f).toks.map (·.1))[idx]? = some p.1 := by
    rw [List.getElem?_map, hidx]; rfl
  rw [tokenize_fst] at h1
  have h2 : idx = p.1 := by
    have := List.getElem?_eq_some_iff.mp h1
    obtain ⟨hl, he⟩ := this
    simpa using he
  unfold fragSymbols
  rw [List.getElem?_map, ← h2, hidx]; rfl

theorem tokenize_pairwise (f : Str) : (tokenizeFragment f).toks.Pairwise (fun p q => p.1 < q.1) := by
  have : ((tokenizeFragment f).toks.map (·.1)).Pairwise (· < ·) := by
    rw [tokenize_fst]; exact List.pairwise_lt_range
  exact List.pairwise_map.mp this

theorem tokenize_length (f : Str) : (tokenizeFragment f).toks.length = (fragSymbols f).length := by
  simp [fragSymbols]

/-- the attribution of an atom, in positions of the symbol list `L` -/
def GTag (T : Table) (compat : Bool) (L : List Str) (x : Atom × Option (List Attribution)) : Prop :=
  ∃ (pos : List Nat) (k : Nat), (pos ++ [k]).Pairwise (· < ·) ∧ (∀ j ∈ pos ++ [k], j < L.length) ∧
    x.2 = some ((pos ++ [k]).map fun j => { index := j, token := symOf compat (L.getD j []) }) ∧
    (∃ bo, processAtomSymbol T (symOf compat (L.getD k [])) = some (bo, x.1)) ∧
    ∀ j ∈ pos, (processBranchSymbol (symOf compat (L.getD j []))).isSome

theorem Tag.toGTag {T compat} {A B : List Str} {f : Str} {x}
    (h : Tag T compat A.length [] (tokenizeFragment f).toks x) :
    GTag T compat (A ++ fragSymbols f ++ B) x := by
  obtain ⟨ext, own, h1, h2, ⟨bo, h3⟩, h4⟩ := h
  have hget : ∀ p ∈ ext ++ [own], p.1 + A.length < (A ++ fragSymbols f ++ B).length ∧
      (A ++ fragSymbols f ++ B).getD (p.1 + A.length) [] = p.2 := by
    intro p hp
    have hm := tokenize_mem (h1.subset hp)
    have hlt := (List.getElem?_eq_some_iff.mp hm).1
    refine ⟨by simp; omega, ?_⟩
    rw [List.getD_eq_getElem?_getD, List.append_assoc, List.getElem?_append_right (by omega),
      Nat.add_sub_cancel, List.getElem?_append_left hlt, hm]
    rfl
  have hown := hget own (by simp)
  refine ⟨ext.map (·.1 + A.length), own.1 + A.length, ?_, ?_, ?_, ⟨bo, ?_⟩, ?_⟩
  · have hp : (ext ++ [own]).Pairwise (fun p q => p.1 < q.1) := (tokenize_pairwise f).sublist h1
    have : (ext.map (·.1 + A.length) ++ [own.1 + A.length]) = (ext ++ [own]).map (·.1 + A.length) := by simp
    rw [this, List.pairwise_map]
    exact hp.imp (by intro a b hab; omega)
  · intro j hj
    have : (ext.map (·.1 + A.length) ++ [own.1 + A.length]) = (ext ++ [own]).map (·.1 + A.length) := by simp
    rw [this] at hj
    obtain ⟨p, hp, rfl⟩ := List.mem_map.mp hj
    exact (hget p hp).1
  · rw [h2]
    have : (ext.map (·.1 + A.length) ++ [own.1 + A.length]) = (ext ++ [own]).map (·.1 + A.length) := by simp
    rw [this, List.map_map, List.nil_append]
    congr 1
    apply List.map_congr_left
    intro p hp
    simp only [Function.comp, mkAttr, (hget p hp).2]
  · rw [hown.2]; exact h3
  · intro j hj
    obtain ⟨p, hp, rfl⟩ := List.mem_map.mp hj
    rw [(hget p (by simp [hp])).2]
    exact h4 p hp

/-- all atoms of `m` are tagged: `atoms` and `atomAttr` are the two projections of one list -/
def GAll (T : Table) (compat : Bool) (L : List Str) (m : Mol) : Prop :=
  ∃ all : List (Atom × Option (List Attribution)), m.atoms = all.map (·.1) ∧
    m.atomAttr = all.map (·.2) ∧ ∀ x ∈ all, GTag T compat L x

theorem deriveFragments_attr (T : Table) (compat : Bool) (L : List Str) :
    ∀ (frags done : List Str) (m : Mol) (rings : List RingReq) (ai : Nat) (r : Mol × List RingReq),
    deriveFragments T compat true frags m rings ai = .ok r →
    L = (done ++ frags).flatMap fragSymbols → ai = (done.flatMap fragSymbols).length →
    AInv m → GAll T compat L m → AInv r.1 ∧ GAll T compat L r.1 := by
  intro frags
  induction frags with
  | nil =>
    intro done m rings ai r h _ _ hA hG
    simp only [deriveFragments] at h
    cases h; exact ⟨hA, hG⟩
  | cons f rest ih =>
    intro done m rings ai r h hL hai hA hG
    simp only [deriveFragments, if_true] at h
    bind_at h with ⟨⟨st, n⟩, h1, h⟩
    obtain ⟨pre, ⟨e1, new, a1, a2, a3⟩, e2, e3, hA1⟩ := deriveLoop_attr T compat _ _ _ _ _ _ _ _ _ _ h1 hA
    simp only at e1 e2 e3 a1 a2 hA1
    have e3' := e3 trivial
    rw [e3', List.append_nil] at e1
    subst e1
    refine ih (done ++ [f]) _ _ _ _ h (by rw [hL]; simp) ?_ hA1 ?_
    · rw [e2, hai, tokenize_length]; simp
    · obtain ⟨all, b1, b2, b3⟩ := hG
      refine ⟨all ++ new, by rw [a1, b1]; simp, by rw [a2, b2]; simp, ?_⟩
      intro x hx
      rcases List.mem_append.mp hx with hx | hx
      · exact b3 x hx
      · have := a3 x hx
        rw [hai] at this
        have hL' : L = done.flatMap fragSymbols ++ fragSymbols f ++ rest.flatMap fragSymbols := by
          rw [hL]; simp
        rw [hL']
        exact this.toGTag

/-- The decoded graph with attribution: bonds carry their destination's attribution (ring bonds
    none) and every atom is tagged with positions of `inputSymbols s`. -/
theorem decodeGraph_attr {T : Table} {s : Str} {compat : Bool} {g : Mol}
    (h : decodeGraph T s compat true = .ok g) : AInv g ∧ GAll T compat (inputSymbols s) g := by
  unfold decodeGraph at h
  bind_at h with ⟨⟨m, rings⟩, h1, h⟩
  obtain ⟨hA, hG⟩ := deriveFragments_attr T compat (inputSymbols s) _ [] _ _ _ _ h1 rfl rfl AInv_empty
    ⟨[], rfl, rfl, fun _ hx => by cases hx⟩
  obtain ⟨g1, g2, g3⟩ := formRings_attr T _ _ _ _ h hA
  refine ⟨g1, ?_⟩
  obtain ⟨all, b1, b2, b3⟩ := hG
  exact ⟨all, by rw [g2]; exact b1, by rw [g3]; exact b2, b3⟩

/-- index form of `GAll` -/
theorem GAll.atom {T compat L} {m : Mol} (h : GAll T compat L m) {i : Nat} {a : Atom}
    (ha : m.atoms[i]? = some a) : ∃ o, m.atomAttr[i]? = some o ∧ GTag T compat L (a, o) := by
  obtain ⟨all, b1, b2, b3⟩ := h
  rw [b1, List.getElem?_map] at ha
  cases hx : all[i]? with
  | none => rw [hx] at ha; cases ha
  | some x =>
    rw [hx] at ha
    simp only [Option.map_some, Option.some.injEq] at ha
    refine ⟨x.2, by rw [b2, List.getElem?_map, hx]; rfl, ?_⟩
    have := b3 x (List.mem_of_getElem? hx)
    rw [← ha]; exact this

theorem GAll.attr {T compat L} {m : Mol} (h : GAll T compat L m) {i : Nat} {o}
    (ho : m.atomAttr[i]? = some o) : ∃ a, m.atoms[i]? = some a ∧ GTag T compat L (a, o) := by
  obtain ⟨all, b1, b2, b3⟩ := h
  rw [b2, List.getElem?_map] at ho
  cases hx : all[i]? with
  | none => rw [hx] at ho; cases ho
  | some x =>
    rw [hx] at ho
    simp only [Option.map_some, Option.some.injEq] at ho
    refine ⟨x.1, by rw [b1, List.getElem?_map, hx]; rfl, ?_⟩
    have := b3 x (List.mem_of_getElem? hx)
    rw [← ho]; exact this

/-- every `Attribution` inside a tag is truthful about the input -/
theorem GTag.truthful {T compat L x} (h : GTag T compat L x) :
    ∀ l, x.2 = some l → ∀ a ∈ l, (L[a.index]?).map (symOf compat) = some a.token := by
  obtain ⟨pos, k, _, h2, h3, _, _⟩ := h
  intro l hl a ha
  rw [h3] at hl
  cases hl
  obtain ⟨j, hj, rfl⟩ := List.mem_map.mp ha
  have hlt := h2 j hj
  simp only [List.getD_eq_getElem?_getD, List.getElem?_eq_getElem hlt, Option.map_some, Option.getD_some]

end SV
