/-
  C01r, stage (d): the parser's step on a ring-closure token, in both cases (the label is new:
  a placeholder is added; the label is in the ring log: the ring bond is made and the placeholder
  filled).
-/
import SelfiesVerif.Proofs.ReaderSimStep

namespace SV

section
variable {g : Mol} {k : Nat} {cnt : Nat → Nat} {log : RingLog} {rts : List Nat} {st : ParseSt}

theorem mem_simRow_some {j : Nat} {bd : PBond} (h : some bd ∈ simRow g cnt j) :
    ∃ x ∈ procd g cnt j, bd = readBond x ∧ (x.ring = false ∨ closedB g cnt x = true) := by
  unfold simRow at h
  obtain ⟨x, hx, he⟩ := List.mem_map.mp h
  refine ⟨x, hx, ?_⟩
  unfold simEntry at he
  split at he
  · cases he
  · rename_i hc
    simp only [Option.some.injEq] at he
    refine ⟨he.symm, ?_⟩
    cases hr : x.ring with
    | false => exact Or.inl rfl
    | true =>
      right
      simpa [hr] using hc

/-- a ring label that is not in the parser's ring log: the ring is opened -/
theorem step_ring_open (hg : WGraph g) (hs : RdSim g k cnt log rts st) {p : Nat} (hp : p < k) {b : DirBond}
    (hb : (g.row p)[cnt p]? = some b) (hring : b.ring = true) (hopen : closedB g cnt b = false)
    (stk : List (Option Nat)) (hstack : st.prevStack = some p :: stk) (hcs : st.chainStart = false) :
    ∃ st', (∀ rest, parseFragmentLoop false
        ({ bondChar := (bondText b).head?, kind := .ring,
           text := labelText (ringStep log b.src b.dst).1 } :: rest) st
          = parseFragmentLoop false rest st') ∧
      RdSim g k (cntBump cnt p) (ringStep log b.src b.dst).2 rts st' ∧ st'.prevStack = some p :: stk ∧
      st'.branchDepth = st.branchDepth ∧ st'.chainStart = false := by
  have hnone := hs.r.lookup_none_of_open hg hb hopen
  rw [ringStep_bkey_none hnone]
  have hfind : st.ringLog.find? (·.label == labelText (log.length + 1)) = none := by
    rw [List.find?_eq_none]
    intro e he
    obtain ⟨x, n, _, _, _, _, h5, h6, _⟩ := hs.r.sound e he
    simp only [beq_iff_eq]
    rw [h6]
    intro heq
    have := labelText_inj heq
    have := (hs.r.logOK.val_range (lookup_some h5)).2
    omega
  have hrow := hs.gr.adj p hp
  have hph := addPlaceholder_run hrow
  have hlen : (simRow g cnt p).length = cnt p := GSim.simRow_length hs.c p
  have hent : simEntry g cnt b = none := by simp [simEntry, hring, hopen]
  have hg2 := hs.gr.bump_open hg hp hb hopen (c2 := st.mol.counts2) rfl
  rw [hent] at hg2
  have hr2 := hs.r.bump_ringOpen hg hb hring hopen
  refine ⟨{ st with mol := { st.mol with adj := st.mol.adj.set p (simRow g cnt p ++ [none]) }, i := st.i + 1,
                    ringLog := st.ringLog ++
                      [⟨labelText (log.length + 1), (bondText b).head?, p, cnt p⟩] },
    fun rest => ?_, ⟨hs.c.bump hp hb, hg2, hr2⟩, hstack, rfl, hcs⟩
  rw [run_ringOpen st p stk rest _ _ _ _ hcs hstack hfind hph, hlen]

/-- a ring label that is in the parser's ring log: the ring is closed -/
theorem step_ring_close (hg : WGraph g) (hs : RdSim g k cnt log rts st) {p : Nat} (hp : p < k) {b : DirBond}
    (hb : (g.row p)[cnt p]? = some b) (hring : b.ring = true) (hclosed : closedB g cnt b = true)
    (stk : List (Option Nat)) (hstack : st.prevStack = some p :: stk) (hcs : st.chainStart = false) :
    ∃ st', (∀ rest, parseFragmentLoop false
        ({ bondChar := (bondText b).head?, kind := .ring,
           text := labelText (ringStep log b.src b.dst).1 } :: rest) st
          = parseFragmentLoop false rest st') ∧
      RdSim g k (cntBump cnt p) (ringStep log b.src b.dst).2 rts st' ∧ st'.prevStack = some p :: stk ∧
      st'.branchDepth = st.branchDepth ∧ st'.chainStart = false := by
  obtain ⟨q, b', n, e, hq, hb', hd', hs', hr', ho', hcl', hlook, hfind, hea, hep, hebc, hr2⟩ :=
    hs.r.bump_ringClose hg hb hring hclosed
  rw [ringStep_bkey_some hlook]
  have hbm := getElem?_mem_row hb
  have hplt : p < g.atoms.length := hg.row_mem_lt hbm
  obtain ⟨hbs, hdlt, hsd, ho1, ho3, _⟩ := hg.row_bonds hplt b hbm
  have hne : b.dst ≠ p := by rw [← hbs]; exact fun h => hsd h.symm
  have hdk : b.dst < k := by
    rcases Nat.lt_or_ge b.dst k with h | h
    · exact h
    · have := hs.c.zero _ h; omega
  have hrowL := hs.gr.adj b.dst hdk
  have hrowR := hs.gr.adj p hp
  -- the placeholder
  have hph : (simRow g cnt b.dst)[q]? = some none := by
    unfold simRow
    rw [List.getElem?_map]
    have : (procd g cnt b.dst)[q]? = some b' := by
      unfold procd; rw [List.getElem?_take, if_pos hq]; exact hb'
    rw [this]
    simp [simEntry, hr', hcl']
  -- no bond between the two atoms yet
  have hhas : st.mol.hasBond b.dst p = false := by
    rcases Nat.lt_or_ge b.dst p with hlt | hge
    · apply hasBond_false (out := simRow g cnt b.dst)
      · rw [Nat.min_eq_left (Nat.le_of_lt hlt)]; exact hrowL
      · rw [Nat.max_eq_right (Nat.le_of_lt hlt)]
        intro bd hbd
        obtain ⟨x, hx, rfl, hcase⟩ := mem_simRow_some hbd
        intro hxd
        have hxb : x = b' := pw_mem_unique (hg.row_pw b.dst) (procd_sub hx) (getElem?_mem_row hb')
          (by rw [hd']; exact hxd)
        subst hxb
        rcases hcase with h | h
        · rw [hr'] at h; cases h
        · rw [hcl'] at h; cases h
    · have hlt : p < b.dst := by omega
      apply hasBond_false (out := simRow g cnt p)
      · rw [Nat.min_eq_right (Nat.le_of_lt hlt)]; exact hrowR
      · rw [Nat.max_eq_left (Nat.le_of_lt hlt)]
        intro bd hbd
        obtain ⟨x, hx, rfl, _⟩ := mem_simRow_some hbd
        intro hxd
        obtain ⟨q', hq', hxq⟩ := mem_procd.mp hx
        have := pw_pos_unique (hg.row_pw p) hxq hb hxd
        omega
  -- the atoms
  obtain ⟨aL, haL, haLm⟩ := getElem?_lt (l := g.atoms) hdlt
  obtain ⟨aR, haR, _⟩ := getElem?_lt (l := g.atoms) hplt
  have haL' : st.mol.atoms[b.dst]? = some aL := by
    rw [hs.gr.atoms, List.getElem?_take, if_pos hdk]; exact haL
  have haR' : st.mol.atoms[p]? = some aR := by
    rw [hs.gr.atoms, List.getElem?_take, if_pos hp]; exact haR
  obtain ⟨c2, f, hmk, hc2, hf⟩ := makeRingBonds_run (m := st.mol) (la := b.dst) (lp := q) (ra := p) b b' ho1 ho3 ho'
    hne hhas haL' haR' (hg.nonarom aL haLm) hrowL hrowR hph
    (by rw [hs.gr.c2Len]; exact hdk) (by rw [hs.gr.c2Len]; exact hp)
    (by rw [hs.gr.rfLen]; exact hdk) (by rw [hs.gr.rfLen]; exact hp)
  have hg2 := hs.gr.bump_close hg hp hdk hb hq hb' hd' hne hclosed hring hc2 hf
  have e1 : readBond b' = ⟨b.dst, p, 2 * b.order, readStereo b', true, none⟩ := by
    simp [readBond, hs', hd', ho', hr']
  have e2 : readBond b = ⟨p, b.dst, 2 * b.order, readStereo b, true, none⟩ := by
    simp [readBond, hbs, hring]
  rw [e1, e2] at hg2
  refine ⟨{ st with mol := _, i := st.i + 1, ringLog := st.ringLog.filter (·.label != labelText n) },
    fun rest => ?_, ⟨hs.c.bump hp hb, hg2, hr2⟩, hstack, rfl, hcs⟩
  exact run_ringClose st p stk rest _ _ _ e hcs hstack hfind (by rw [hea, hep, hebc]; exact hmk)

/-- a ring-closure token -/
theorem step_ring (hg : WGraph g) (hs : RdSim g k cnt log rts st) {p : Nat} (hp : p < k) {b : DirBond}
    (hb : (g.row p)[cnt p]? = some b) (hring : b.ring = true)
    (stk : List (Option Nat)) (hstack : st.prevStack = some p :: stk) (hcs : st.chainStart = false) :
    ∃ st', (∀ rest, parseFragmentLoop false
        ({ bondChar := (bondText b).head?, kind := .ring,
           text := labelText (ringStep log b.src b.dst).1 } :: rest) st
          = parseFragmentLoop false rest st') ∧
      RdSim g k (cntBump cnt p) (ringStep log b.src b.dst).2 rts st' ∧ st'.prevStack = some p :: stk ∧
      st'.branchDepth = st.branchDepth ∧ st'.chainStart = false := by
  cases hc : closedB g cnt b with
  | false => exact step_ring_open hg hs hp hb hring hc stk hstack hcs
  | true => exact step_ring_close hg hs hp hb hring hc stk hstack hcs

end

end SV
