/-
  Tie (a), bonding capacity: `get_bonding_capacity` (selfies/bond_constraints.py) and
  `Atom.bonding_capacity` (selfies/mol_graph.py) as TRANSLATED from the Python AST on every run
  (`Generated/CapacityFns.lean`) equal the hand model (`SV.getBondingCapacity`,
  `SV.Table.capacity`, `SV.Atom.bondingCapacity`, Model/Basic.lean) for EVERY constraint table,
  element, charge and hydrogen count.
-/
import SelfiesVerif.Generated.CapacityFns
import SelfiesVerif.Proofs.PyRtLemmas
import SelfiesVerif.Model.Basic
import SelfiesVerif.Generated.Tables

set_option linter.unusedSimpArgs false

namespace SV

/-- no hand-written fallback was substituted in `Generated/CapacityFns.lean` -/
theorem translator_no_fallback_capacity : Gen.translatorFallbacksCapacity = [] := by decide

/-- case analysis on the two dictionary lookups (the key, then `?`), whatever the code does with them -/
syntax "cap_cases " term:max term:max : tactic
macro_rules
  | `(tactic| cap_cases $a $b) =>
    `(tactic| (
      generalize $a = r
      generalize $b = q
      cases r <;> cases q <;>
        simp [bind, Except.bind, pure, Except.pure, Except.map]))

set_option hygiene false in
/-- after unfolding both sides: case analysis on `charge = 0` and on the two lookups -/
macro "capacity_proof" : tactic =>
  `(tactic| (
    simp only [PyRt.dictHas, PyRt.dictItem, PyRt.dictGetD, PyRt.dictGet?_some, getKey, qKey]
    by_cases hc : charge = 0
    · simp only [hc, ne_eq, not_true_eq_false, not_false_eq_true, decide_true, decide_false, if_true,
        if_false, Bool.false_eq_true, Bool.not_true, Bool.not_false]
      cap_cases (lookup element T) (lookup ['?'] T)
    · simp only [hc, ne_eq, not_true_eq_false, not_false_eq_true, decide_true, decide_false, if_true,
        if_false, Bool.false_eq_true, Bool.not_true, Bool.not_false]
      cap_cases (lookup (element ++ fmtPlus charge) T) (lookup ['?'] T)))

/-- the hand copy that the translator substitutes when it reports a fallback -/
theorem fallback_get_bonding_capacity_eq (T : Constraints) (element : Str) (charge : Int) :
    Gen.Fallback.get_bonding_capacity T element charge
      = (getBondingCapacity T element charge).map (fun (n : Nat) => (n : Int)) := by
  unfold Gen.Fallback.get_bonding_capacity getBondingCapacity capKey
  capacity_proof

theorem gen_get_bonding_capacity_eq (T : Constraints) (element : Str) (charge : Int) :
    Gen.get_bonding_capacity T element charge
      = (getBondingCapacity T element charge).map (fun (n : Nat) => (n : Int)) := by
  first
  | (unfold Gen.get_bonding_capacity getBondingCapacity capKey
     capacity_proof)
  | exact fallback_get_bonding_capacity_eq T element charge
  | (unfold Gen.get_bonding_capacity getBondingCapacity capKey
     capacity_proof)   -- (again, for its error message)

/-- `get_bonding_capacity` raises only when the table lacks the `?` entry (then `KeyError`) -/
theorem gen_get_bonding_capacity_error (T : Constraints) (element : Str) (charge : Int) (e : PyExc)
    (h : Gen.get_bonding_capacity T element charge = .error e) :
    e = .KeyError ∧ lookup qKey T = none := by
  rw [gen_get_bonding_capacity_eq] at h
  unfold getBondingCapacity getKey at h
  cases h1 : lookup (capKey element charge) T with
  | some v => simp [h1, Except.map] at h
  | none =>
    cases h2 : lookup qKey T with
    | some v => simp [h1, h2, Except.map] at h
    | none =>
      simp only [h1, h2, Except.map, Except.error.injEq] at h
      exact ⟨h.symm, rfl⟩

/-- on an accepted table (one with a `?` entry) the model's `getBondingCapacity` is the total
    `Table.capacity` -/
theorem getBondingCapacity_ofDict (d : Constraints) (T : Table) (hT : Table.ofDict d = some T)
    (element : Str) (charge : Int) :
    getBondingCapacity d element charge = .ok (T.capacity element charge) := by
  unfold Table.ofDict at hT
  cases hq : lookup qKey d with
  | none => simp [hq] at hT
  | some q =>
    simp only [hq, Option.some.injEq] at hT
    subst hT
    unfold getBondingCapacity Table.capacity getKey
    cases lookup (capKey element charge) d <;> simp [hq]

/-- `Atom.bonding_capacity`, for every accepted table and every atom (the translated code sees
    the attributes `element`, `charge`, `h_count` of `self`) -/
theorem gen_Atom_bonding_capacity_eq (d : Constraints) (T : Table) (hT : Table.ofDict d = some T)
    (a : Atom) :
    Gen.Atom_bonding_capacity d a.element a.charge (a.hCount.map (fun (n : Nat) => (n : Int)))
      = .ok (a.bondingCapacity T) := by
  unfold Gen.Atom_bonding_capacity
  try unfold Gen.Fallback.Atom_bonding_capacity
  simp only [gen_get_bonding_capacity_eq, fallback_get_bonding_capacity_eq,
    getBondingCapacity_ofDict d T hT, Except.map, bind, Except.bind, pure, Except.pure,
    Atom.bondingCapacity]
  cases a.hCount <;> simp

/-- the same on the raw dictionary, without assuming a `?` entry -/
theorem gen_Atom_bonding_capacity_eq_raw (d : Constraints) (element : Str) (charge : Int)
    (h : Option Nat) :
    Gen.Atom_bonding_capacity d element charge (h.map (fun (n : Nat) => (n : Int)))
      = (getBondingCapacity d element charge).map
          (fun (n : Nat) => (n : Int) - ((h.getD 0 : Nat) : Int)) := by
  unfold Gen.Atom_bonding_capacity
  try unfold Gen.Fallback.Atom_bonding_capacity
  simp only [gen_get_bonding_capacity_eq, fallback_get_bonding_capacity_eq, bind, Except.bind,
    pure, Except.pure]
  cases getBondingCapacity d element charge <;> cases h <;> simp [Except.map]

/-! ### non-vacuity on concrete values -/

example : Gen.get_bonding_capacity Gen.initialConstraints "N".toList 1 = .ok 4 := by decide
example : Gen.get_bonding_capacity Gen.initialConstraints "N".toList (-2) = .ok 8 := by decide
example : Gen.get_bonding_capacity [("C".toList, 0), ("?".toList, 8)] "C".toList 0 = .ok 0 := by decide
example : Gen.get_bonding_capacity [] "C".toList 0 = .error .KeyError := by decide
example : Gen.Atom_bonding_capacity Gen.initialConstraints "C".toList 0 (some 9) = .ok (-5) := by decide
example : Table.ofDict Gen.initialConstraints ≠ none := by decide

end SV
